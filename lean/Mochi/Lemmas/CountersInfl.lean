import Mochi.Lemmas.BrokerInv
import Mochi.Lemmas.Refine
/-!
# C38, part 2 — the `inflight` counter

`sumAll s`: the number of in-flight records held by ALL client objects.  `defect s = info.inflight - sumAll s`.
`Infl i d s s'`: `s'` results from `s` by work done on behalf of client object `i`, the defect moved by `d`,
objects that are neither `i` nor registered in the Clients map kept their in-flight records, and the
object invariant `isOpen = !stopped` is kept.  One `X_infl` lemma per handler, all with `d = 0`.
-/
namespace Mochi.Broker
open Mochi.Topics

/-! ### client level -/

/-- `Client.Stop` is the only writer of `isOpen` and `stopped` -/
def OS (c : Client) : Prop := c.isOpen = !c.stopped

/-- `b` results from `a` with `e` more in-flight records; id, well-formedness and `isOpen = !stopped` are kept -/
structure CL (e : Int) (a b : Client) : Prop where
  cw : CW a b
  os : OS a → OS b
  len : ObjWF a → (b.inflight.length : Int) = a.inflight.length + e

/-- closes `CL 0 a b` when `b` is `a` with fields other than `id`, `inflight`, the quotas, `isOpen`, `stopped` rewritten -/
macro "cl_rfl" : tactic =>
  `(tactic| exact ⟨⟨rfl, fun h => ⟨h.1, h.2, h.3⟩⟩, fun h => h, fun _ => (Int.add_zero _).symm⟩)

theorem CL.refl (a : Client) : CL 0 a a := ⟨CW.refl a, fun h => h, fun _ => (Int.add_zero _).symm⟩

theorem CL.trans {e1 e2 : Int} {a b c : Client} (h : CL e1 a b) (g : CL e2 b c) : CL (e1 + e2) a c :=
  ⟨h.cw.trans g.cw, fun x => g.os (h.os x), fun x => by rw [g.len (h.cw.wf x), h.len x]; omega⟩

theorem CL.cast {e e' : Int} {a b : Client} (h : CL e a b) (he : e = e') : CL e' a b := he ▸ h

theorem CL.of_eq {a b : Client} (h : a = b) : CL 0 a b := h ▸ CL.refl a

theorem flSet_snd (c : Client) (m : Msg) : (flSet c m).2 = !(flGet c m.id).isSome := by
  unfold flSet
  split
  · rename_i h; simp [h]
  · rename_i h; simp at h; simp [h]

theorem flDelete_snd (c : Client) (id : Nat) : (flDelete c id).2 = (flGet c id).isSome := rfl

theorem CL.flSet' (c : Client) (m : Msg) : CL (if (flSet c m).2 then 1 else 0) c (flSet c m).1 := by
  refine ⟨CW.flSet' c m, ?_, fun _ => ?_⟩
  · unfold flSet; split <;> exact fun h => h
  · have := C38_set_accounting_aux c m
    exact this
where
  C38_set_accounting_aux (c : Client) (m : Msg) :
      ((flSet c m).1.inflight.length : Int) = c.inflight.length + (if (flSet c m).2 then 1 else 0) := by
    unfold flSet
    split <;> simp

/-- with one record per packet id, removing an id removes exactly one record — if there was one -/
theorem filter_id_length (l : List Msg) (id : Nat) (h : (l.map (·.id)).Nodup) :
    ((l.filter (fun m => m.id != id)).length : Int) =
      l.length + (if (l.find? (fun m => m.id == id)).isSome then -1 else 0) := by
  induction l with
  | nil => simp
  | cons x xs ih =>
    rw [List.map_cons, List.nodup_cons] at h
    by_cases hx : x.id = id
    · have hkeep : xs.filter (fun m => m.id != id) = xs := by
        rw [List.filter_eq_self]
        intro a ha
        have : a.id ≠ id := fun e => h.1 (hx ▸ e ▸ List.mem_map.mpr ⟨a, ha, rfl⟩)
        simp [this]
      simp [hx, hkeep]
      omega
    · have := ih h.2
      have hb : (x.id == id) = false := by simp [hx]
      have hn : (x.id != id) = true := by simp [hx]
      simp only [List.filter_cons, hn, if_true, List.find?_cons, hb, List.length_cons]
      push_cast
      omega

theorem CL.flDelete' (c : Client) (id : Nat) : CL (if (flDelete c id).2 then -1 else 0) c (flDelete c id).1 := by
  refine ⟨CW.flDelete' c id, fun h => h, fun hw => ?_⟩
  exact filter_id_length c.inflight id hw.1

theorem CL.decSend' (c : Client) : CL 0 c (decSend c) := by
  unfold Mochi.Broker.decSend
  split
  · exact ⟨⟨rfl, fun h => ⟨h.1, Nat.le_trans (Nat.sub_le _ _) h.2, h.3⟩⟩, fun h => h, fun _ => (Int.add_zero _).symm⟩
  · exact CL.refl c

theorem CL.decRecv' (c : Client) : CL 0 c (decRecv c) := by
  unfold Mochi.Broker.decRecv
  split
  · exact ⟨⟨rfl, fun h => ⟨h.1, h.2, Nat.le_trans (Nat.sub_le _ _) h.3⟩⟩, fun h => h, fun _ => (Int.add_zero _).symm⟩
  · exact CL.refl c

theorem CL.incSend' (c : Client) : CL 0 c (incSend c) := by
  unfold Mochi.Broker.incSend
  split
  · rename_i hlt
    exact ⟨⟨rfl, fun h => ⟨h.1, hlt, h.3⟩⟩, fun h => h, fun _ => (Int.add_zero _).symm⟩
  · exact CL.refl c

theorem CL.incRecv' (c : Client) : CL 0 c (incRecv c) := by
  unfold Mochi.Broker.incRecv
  split
  · rename_i hlt
    exact ⟨⟨rfl, fun h => ⟨h.1, h.2, hlt⟩⟩, fun h => h, fun _ => (Int.add_zero _).symm⟩
  · exact CL.refl c

theorem CL.aliasOutSet' (c : Client) (t : Str) : CL 0 c (aliasOutSet c t).1 := by
  unfold Mochi.Broker.aliasOutSet
  split
  · exact CL.refl c
  · split
    · exact CL.refl c
    · split
      · exact CL.refl c
      · cl_rfl

/-- the in-flight store after `Set` holds the id that was set -/
theorem flGet_flSet_self (c : Client) (m : Msg) : (flGet (flSet c m).1 m.id).isSome = true := by
  unfold flSet
  split
  · rename_i h
    unfold flGet at h ⊢
    rw [List.find?_isSome] at h ⊢
    obtain ⟨x, hx, hxi⟩ := h
    refine ⟨if x.id == m.id then m else x, List.mem_map.mpr ⟨x, hx, rfl⟩, ?_⟩
    split <;> simp_all
  · unfold flGet
    rw [List.find?_isSome]
    exact ⟨m, by simp, by simp⟩

theorem flGet_congr {a b : Client} (h : a.inflight = b.inflight) (id : Nat) : flGet a id = flGet b id := by
  unfold flGet; rw [h]

theorem decSend_inflight (c : Client) : (decSend c).inflight = c.inflight := by
  unfold decSend; split <;> rfl
theorem decRecv_inflight (c : Client) : (decRecv c).inflight = c.inflight := by
  unfold decRecv; split <;> rfl
theorem incSend_inflight (c : Client) : (incSend c).inflight = c.inflight := by
  unfold incSend; split <;> rfl
theorem incRecv_inflight (c : Client) : (incRecv c).inflight = c.inflight := by
  unfold incRecv; split <;> rfl

/-! ### server level -/

def sumAll (s : Server) : Nat := (s.objs.map (·.inflight.length)).sum

/-- reported minus actual -/
def defect (s : Server) : Int := s.info.inflight - (sumAll s : Int)

/-- object `j` is in the Clients map -/
def Reg (s : Server) (j : Nat) : Prop := ∃ id, (id, j) ∈ s.clients

theorem Reg.lt {s : Server} {j : Nat} (h : Reg s j) (hw : WF s) : j < s.objs.length := by
  obtain ⟨id, hm⟩ := h
  exact (hw.clients_valid id j hm).1

theorem Reg.of_assocGet {s : Server} {cid : Str} {j : Nat} (h : assocGet s.clients cid = some j) : Reg s j :=
  ⟨cid, assocGet_mem _ _ _ h⟩

theorem Reg.mono {s s' : Server} {j : Nat} (h : Reg s' j) (hs : s'.clients.Sublist s.clients) : Reg s j := by
  obtain ⟨id, hm⟩ := h
  exact ⟨id, hs.subset hm⟩

theorem sum_map_set {α} (f : α → Nat) (l : List α) (j : Nat) (x : α) (hj : j < l.length) :
    ((l.set j x).map f).sum + f l[j] = (l.map f).sum + f x := by
  induction l generalizing j with
  | nil => cases hj
  | cons y ys ih =>
    cases j with
    | zero => simp; omega
    | succ j =>
      have := ih j (by simpa using hj)
      simp only [List.set_cons_succ, List.map_cons, List.sum_cons, List.getElem_cons_succ]
      omega

theorem getObj_eq_getElem (s : Server) (j : Nat) (hj : j < s.objs.length) : getObj s j = s.objs[j] := by
  simp [getObj, List.getD_eq_getElem?_getD, hj]

theorem sumAll_setObj (s : Server) (j : Nat) (c : Client) (hj : j < s.objs.length) :
    (sumAll (setObj s j c) : Int) = sumAll s + c.inflight.length - (getObj s j).inflight.length := by
  have := sum_map_set (fun (c : Client) => c.inflight.length) s.objs j c hj
  rw [getObj_eq_getElem s j hj]
  unfold sumAll setObj
  simp only []
  omega

/-- `s'` results from `s` by work on behalf of object `i`: the defect of the in-flight counter moved by `d` -/
structure Infl (i : Nat) (d : Int) (s s' : Server) : Prop where
  good : Good s s'
  os : (∀ k, OS (getObj s k)) → ∀ k, OS (getObj s' k)
  infl : defect s' = defect s + d
  /-- objects that are neither the acting one nor registered keep their in-flight records -/
  unreg : ∀ k, k ≠ i → ¬ Reg s k → (getObj s' k).inflight = (getObj s k).inflight

theorem Infl.refl (i : Nat) (s : Server) : Infl i 0 s s :=
  ⟨Good.refl s, fun h => h, (Int.add_zero _).symm, fun _ _ _ => rfl⟩

theorem Infl.trans {i : Nat} {d1 d2 : Int} {s s1 s2 : Server} (h : Infl i d1 s s1) (g : Infl i d2 s1 s2) :
    Infl i (d1 + d2) s s2 :=
  ⟨h.good.trans g.good, fun x => g.os (h.os x), by rw [g.infl, h.infl]; omega,
   fun k hk hr => by rw [g.unreg k hk (fun r => hr (r.mono h.good.clients)), h.unreg k hk hr]⟩

theorem Infl.cast {i : Nat} {d d' : Int} {s s' : Server} (h : Infl i d s s') (he : d = d') : Infl i d' s s' := he ▸ h

/-- two defect-neutral pieces -/
theorem Infl.trans0 {i : Nat} {s s1 s2 : Server} (h : Infl i 0 s s1) (g : Infl i 0 s1 s2) : Infl i 0 s s2 :=
  (h.trans g).cast (by omega)

/-- the work was done for a registered object: any other object may be named as the acting one -/
theorem Infl.toReg {j : Nat} {d : Int} {s s' : Server} (h : Infl j d s s') (hj : Reg s j) (i : Nat) : Infl i d s s' :=
  ⟨h.good, h.os, h.infl, fun k _ hr => h.unreg k (fun e => hr (e ▸ hj)) hr⟩

/-- a change to server fields other than `objs`, `clients`, `connOf`, `pending`, `info.inflight` -/
theorem Infl.upd {i : Nat} {d : Int} {s0 s s' : Server} (h : Infl i d s0 s) (ho : s'.objs = s.objs)
    (hc : s'.clients = s.clients) (hn : s'.connOf = s.connOf) (hp : s'.pending = s.pending)
    (hi : s'.info.inflight = s.info.inflight) : Infl i d s0 s' :=
  ⟨h.good.upd ho hc hn hp, fun x k => by rw [getObj_of_objs_eq ho k]; exact h.os x k,
   by rw [← h.infl]; unfold defect sumAll; rw [ho, hi],
   fun k hk hr => by rw [getObj_of_objs_eq ho k]; exact h.unreg k hk hr⟩

theorem Infl.addI {i : Nat} {d : Int} {s0 s : Server} (h : Infl i d s0 s) (n : Int) :
    Infl i (d + n) s0 { s with info := { s.info with inflight := s.info.inflight + n } } :=
  ⟨h.good.upd rfl rfl rfl rfl, h.os, by have := h.infl; unfold defect sumAll at *; simp only []; omega, h.unreg⟩

theorem Infl.subI {i : Nat} {d : Int} {s0 s : Server} (h : Infl i d s0 s) (n : Int) :
    Infl i (d - n) s0 { s with info := { s.info with inflight := s.info.inflight - n } } :=
  ⟨h.good.upd rfl rfl rfl rfl, h.os, by have := h.infl; unfold defect sumAll at *; simp only []; omega, h.unreg⟩

/-- `if isNew { Info.Inflight++ }` -/
theorem Infl.condAdd {i : Nat} {d : Int} {s0 s : Server} (h : Infl i d s0 s) (b : Bool) :
    Infl i (d + if b then 1 else 0) s0
      (if b = true then { s with info := { s.info with inflight := s.info.inflight + 1 } } else s) := by
  cases b
  · exact h.cast (by simp)
  · exact (h.addI 1).cast (by simp)

/-- `if ok { Info.Inflight-- }` -/
theorem Infl.condSub {i : Nat} {d : Int} {s0 s : Server} (h : Infl i d s0 s) (b : Bool) :
    Infl i (d - if b then 1 else 0) s0
      (if b = true then { s with info := { s.info with inflight := s.info.inflight - 1 } } else s) := by
  cases b
  · exact h.cast (by simp)
  · exact (h.subI 1).cast (by simp)

/-- writing object `j` (the acting one, or a registered one) -/
theorem Infl.set {i : Nat} {d e : Int} {s0 s : Server} (h : Infl i d s0 s) (hw : WF s0) (j : Nat)
    (hj : j < s0.objs.length) (hreg : j = i ∨ Reg s0 j) (c : Client) (hcl : CL e (getObj s j) c) :
    Infl i (d - e) s0 (setObj s j c) := by
  have hj' : j < s.objs.length := by rw [h.good.len]; exact hj
  refine ⟨h.good.set j c hcl.cw, fun x k => ?_, ?_, fun k hk hr => ?_⟩
  · by_cases hkj : k = j
    · subst hkj
      rw [getObj_setObj_eq s k c hj']
      exact hcl.os (h.os x k)
    · rw [getObj_setObj_ne s j k c hkj]; exact h.os x k
  · have hlen := hcl.len (h.good.wf hw.allWF j)
    have := sumAll_setObj s j c hj'
    have hd := h.infl
    unfold defect at *
    show s.info.inflight - (sumAll (setObj s j c) : Int) = _
    omega
  · have hkj : k ≠ j := by
      rintro rfl
      rcases hreg with e | e
      · exact hk e
      · exact hr e
    rw [getObj_setObj_ne s j k c hkj]
    exact h.unreg k hk hr

theorem Infl.setOwn {i : Nat} {d e : Int} {s0 s : Server} (h : Infl i d s0 s) (hw : WF s0) (hi : i < s0.objs.length)
    (c : Client) (hcl : CL e (getObj s i) c) : Infl i (d - e) s0 (setObj s i c) :=
  h.set hw i hi (Or.inl rfl) c hcl

theorem Infl.modOwn {i : Nat} {d e : Int} {s0 s : Server} (h : Infl i d s0 s) (hw : WF s0) (hi : i < s0.objs.length)
    (f : Client → Client) (hcl : CL e (getObj s i) (f (getObj s i))) : Infl i (d - e) s0 (modObj s i f) :=
  h.set hw i hi (Or.inl rfl) _ hcl

theorem Infl.setReg {i : Nat} {d e : Int} {s0 s : Server} (h : Infl i d s0 s) (hw : WF s0) (j : Nat) (hreg : Reg s0 j)
    (c : Client) (hcl : CL e (getObj s j) c) : Infl i (d - e) s0 (setObj s j c) :=
  h.set hw j (hreg.lt hw) (Or.inr hreg) c hcl

theorem Infl.modReg {i : Nat} {d e : Int} {s0 s : Server} (h : Infl i d s0 s) (hw : WF s0) (j : Nat) (hreg : Reg s0 j)
    (f : Client → Client) (hcl : CL e (getObj s j) (f (getObj s j))) : Infl i (d - e) s0 (modObj s j f) :=
  h.set hw j (hreg.lt hw) (Or.inr hreg) _ hcl

/-- a Clients-map entry is removed -/
theorem Infl.delClient {i : Nat} {d : Int} {s0 s : Server} (h : Infl i d s0 s) (cid : Str) :
    Infl i d s0 { s with clients := assocDel s.clients cid } :=
  ⟨h.good.delClient cid, h.os, h.infl, h.unreg⟩

theorem Infl.fst_mk {α} {i : Nat} {d : Int} {s0 x : Server} {y : α} (h : Infl i d s0 x) : Infl i d s0 (x, y).1 := h

/-- what `Infl` gives about the in-range acting object after it was written -/
theorem getObj_set_own {s : Server} {i : Nat} (c : Client) (hi : i < s.objs.length) : getObj (setObj s i c) i = c :=
  getObj_setObj_eq s i c hi

theorem Infl.len {i : Nat} {d : Int} {s s' : Server} (h : Infl i d s s') : s'.objs.length = s.objs.length := h.good.len

theorem Infl.wf {i : Nat} {d : Int} {s s' : Server} (h : Infl i d s s') (hw : WF s) : WF s' := hw.of_good h.good

/-- composition where the second piece acts for another object — the same one, or a registered one -/
theorem Infl.trans' {i j : Nat} {d1 d2 : Int} {s s1 s2 : Server} (h : Infl i d1 s s1) (g : Infl j d2 s1 s2)
    (hj : j = i ∨ Reg s j) : Infl i (d1 + d2) s s2 :=
  ⟨h.good.trans g.good, fun x => g.os (h.os x), by rw [g.infl, h.infl]; omega,
   fun k hk hr => by
     have hkj : k ≠ j := by
       rintro rfl
       rcases hj with e | e
       · exact hk e
       · exact hr e
     rw [g.unreg k hkj (fun r => hr (r.mono h.good.clients)), h.unreg k hk hr]⟩

theorem Infl.lt {i : Nat} {d : Int} {s s' : Server} (h : Infl i d s s') {j : Nat} (hj : j < s.objs.length) :
    j < s'.objs.length := by rw [h.len]; exact hj

theorem info_ite_inflight (b : Bool) (x y : Info) (hx : x.inflight = y.inflight) :
    (if b = true then x else y).inflight = y.inflight := by
  cases b
  · rfl
  · exact hx

theorem isSome_of_not_isNone {α} {o : Option α} (h : ¬ o.isNone = true) : o.isSome = true := by
  cases o <;> simp_all

/-- `Set` of an id that is already there replaces the record -/
theorem CL.flSet_old (c : Client) (m : Msg) (h : (flGet c m.id).isSome = true) : CL 0 c (flSet c m).1 :=
  (CL.flSet' c m).cast (by rw [flSet_snd, h]; rfl)

theorem CL.flDelete_some (c : Client) (id : Nat) (h : (flGet c id).isSome = true) : CL (-1) c (flDelete c id).1 :=
  (CL.flDelete' c id).cast (by rw [flDelete_snd, h]; rfl)

/-! ### the delivery family -/

theorem publishToClientCore_infl (s : Server) (i : Nat) (sub : Sub) (f : Bool) (pk : Msg) (hw : WF s)
    (hi : i < s.objs.length) : Infl i 0 s (publishToClientCore s i sub f pk).1 := by
  unfold publishToClientCore
  extract_lets c out
  split
  rename_i c1 out1 heq
  have hc1 : CL 0 c c1 := by
    split at heq
    · split at heq
      rename_i c' a ex h2
      have h3 := CL.aliasOutSet' c pk.topic
      rw [h2] at h3
      split at heq <;> (cases heq; exact h3)
    · cases heq; exact CL.refl _
  clear heq
  extract_lets s1
  have hs1 : Infl i 0 s s1 := ((Infl.refl i s).setOwn hw hi c1 hc1).cast (by omega)
  have e1 : getObj s1 i = c1 := getObj_setObj_eq s i c1 hi
  split
  · split
    · exact hs1.upd rfl rfl rfl rfl rfl
    · split
      · exact hs1.upd rfl rfl rfl rfl rfl
      · rename_i pid _
        extract_lets c2 out2 sentQuota
        split
        rename_i c3 isNew hfl
        have hc3 : CL (if isNew then 1 else 0) c1 c3 := by
          have := CL.flSet' c2 out2
          rw [hfl] at this
          exact ((show CL 0 c1 c2 by cl_rfl).trans this).cast (by simp)
        have hget : (flGet c3 pid).isSome = true := by
          have := flGet_flSet_self c2 out2
          rw [hfl] at this
          exact this
        extract_lets c4 s2 src s3
        have hc34 : CL 0 c3 c4 := by
          show CL 0 c3 (if isNew = true then decSend c3 else c3)
          split
          · exact CL.decSend' c3
          · exact CL.refl _
        have hfl4 : c4.inflight = c3.inflight := by
          show (if isNew = true then decSend c3 else c3).inflight = _
          split
          · exact decSend_inflight c3
          · rfl
        have hs2 : Infl i (0 - ((if isNew then 1 else 0) + 0)) s s2 :=
          hs1.setOwn hw hi c4 (by rw [e1]; exact hc3.trans hc34)
        have e2 : getObj s2 i = c4 := getObj_setObj_eq s1 i c4 (hs1.lt hi)
        have hs3 : Infl i 0 s s3 := (hs2.condAdd isNew).cast (by cases isNew <;> simp)
        have e3 : getObj s3 i = c4 := by
          show getObj (if isNew = true then _ else s2) i = c4
          split <;> exact e2
        split
        · -- `Set` of the id that was just stored: the record is replaced
          have hlast : CL 0 c4 (flSet c4 { out2 with expiry := -1 }).1 :=
            CL.flSet_old c4 _ (by
              show (flGet c4 pid).isSome = true
              rw [flGet_congr hfl4]; exact hget)
          exact (hs3.setOwn hw hi _ (by rw [e3]; exact hlast)).cast (by omega)
        · split <;> exact hs3
  · split <;> exact hs1

theorem publishToClient_infl (s : Server) (i : Nat) (sub : Sub) (f : Bool) (pk : Msg) (hw : WF s)
    (hi : i < s.objs.length) : Infl i 0 s (publishToClient s i sub f pk).1 := by
  unfold publishToClient
  split
  · exact Infl.refl i s
  · split
    · exact Infl.refl i s
    · exact publishToClientCore_infl s i sub f pk hw hi

theorem publishToSubscribers_infl (s : Server) (pk : Msg) (hw : WF s) (i : Nat) :
    Infl i 0 s (publishToSubscribers s pk).1 := by
  unfold publishToSubscribers
  split
  · exact Infl.refl i s
  · extract_lets e pk' r subsMap inl
    refine foldl_inv (fun (acc : Server × List Out) => Infl i 0 s acc.1) _ _ _ (Infl.refl i s) ?_
    intro acc cs h
    split
    · exact h
    · rename_i k hk
      split
      rename_i s' o heq
      have hreg : Reg acc.1 k := Reg.of_assocGet hk
      have hw1 : WF acc.1 := h.wf hw
      have := publishToClient_infl acc.1 k cs.2 false pk' hw1 (hreg.lt hw1)
      rw [heq] at this
      exact (h.trans' this (Or.inr (hreg.mono h.good.clients))).cast (by omega)

theorem publishRetainedToClient_infl (s : Server) (i : Nat) (sub : Sub) (ex : Bool) (k : Nat) (hw : WF s)
    (hi : i < s.objs.length) : Infl i 0 s (publishRetainedToClient s i sub ex k).1 := by
  unfold publishRetainedToClient
  split
  · exact Infl.refl i s
  · split
    · exact Infl.refl i s
    · extract_lets sub'
      refine foldl_inv (fun (acc : Server × List Out) => Infl i 0 s acc.1) _ _ _ (Infl.refl i s) ?_
      intro acc r h
      split
      · exact h
      · rename_i m _
        split
        rename_i s' o heq
        have := publishToClient_infl acc.1 i sub' true m (h.wf hw) (h.lt hi)
        rw [heq] at this
        exact h.trans0 this

theorem retainMsg_infl (s : Server) (pk : Msg) (i : Nat) : Infl i 0 s (retainMsg s pk) := by
  unfold retainMsg
  split
  · exact Infl.refl i s
  · exact (Infl.refl i s).upd rfl rfl rfl rfl rfl

/-! ### work on the acting object -/

theorem stopClient_infl (s : Server) (i : Nat) (hw : WF s) (hi : i < s.objs.length) : Infl i 0 s (stopClient s i).1 := by
  unfold stopClient
  extract_lets +onlyGivenNames c
  split
  · exact Infl.refl i s
  · have hc : CL 0 c { c with isOpen := false, stopped := true } :=
      ⟨⟨rfl, fun h => ⟨h.1, h.2, h.3⟩⟩, fun _ => rfl, fun _ => (Int.add_zero _).symm⟩
    exact ((Infl.refl i s).setOwn hw hi _ hc).cast (by omega)

theorem disconnectClient_infl (s : Server) (i : Nat) (code : Nat) (hw : WF s) (hi : i < s.objs.length) :
    Infl i 0 s (disconnectClient s i code).1 := by
  unfold disconnectClient
  extract_lets +onlyGivenNames c w
  split
  rename_i s' o heq
  have := stopClient_infl s i hw hi
  rw [heq] at this
  exact this

theorem unsubscribeClient_infl (s : Server) (i : Nat) (hw : WF s) (hi : i < s.objs.length) :
    Infl i 0 s (unsubscribeClient s i) := by
  unfold unsubscribeClient
  extract_lets +onlyGivenNames c s1
  have h1 : Infl i 0 s s1 := ((Infl.refl i s).setOwn hw hi _ (by cl_rfl)).cast (by omega)
  split
  · exact h1
  · refine foldl_inv (fun (x : Server) => Infl i 0 s x) _ _ _ h1 ?_
    intro b a h
    exact h.upd rfl rfl rfl rfl (info_ite_inflight _ _ _ rfl)

theorem clearInflights_infl (s : Server) (i : Nat) (hw : WF s) (hi : i < s.objs.length) :
    Infl i 0 s (clearInflights s i) := by
  unfold clearInflights
  extract_lets +onlyGivenNames c n
  have hc : CL (-(n : Int)) c { c with inflight := [] } :=
    ⟨⟨rfl, fun h => ⟨List.nodup_nil, h.2, h.3⟩⟩, fun h => h, fun _ => by
      show ((0 : Nat) : Int) = (c.inflight.length : Int) + -(c.inflight.length : Int)
      omega⟩
  exact (((Infl.refl i s).setOwn hw hi _ hc).subI n).cast (by omega)

theorem processPuback_infl (s : Server) (i id : Nat) (hw : WF s) (hi : i < s.objs.length) :
    Infl i 0 s (processPuback s i id).1 := by
  unfold processPuback
  extract_lets +onlyGivenNames c
  split
  · exact Infl.refl i s
  · rename_i hn
    extract_lets +onlyGivenNames c'
    have hc : CL (-1 + 0) c c' := (CL.flDelete_some c id (isSome_of_not_isNone hn)).trans (CL.incSend' _)
    exact (((Infl.refl i s).setOwn hw hi c' hc).subI 1).cast (by omega)

theorem processPubrec_infl (s : Server) (i id rc : Nat) (hw : WF s) (hi : i < s.objs.length) :
    Infl i 0 s (processPubrec s i id rc).1 := by
  unfold processPubrec
  extract_lets +onlyGivenNames c
  split
  · rw [ackRes_fst]; exact Infl.refl i s
  · rename_i hn
    split
    · extract_lets +onlyGivenNames c'
      exact (((Infl.refl i s).setOwn hw hi c' (CL.flDelete_some c id (isSome_of_not_isNone hn))).subI 1).cast (by omega)
    · extract_lets +onlyGivenNames ack c' s1
      have hc : CL (0 + 0) c c' := (CL.decRecv' c).trans (CL.flSet_old _ ack (by
        show (flGet (decRecv c) id).isSome = true
        rw [flGet_congr (decRecv_inflight c)]; exact isSome_of_not_isNone hn))
      have hs1 : Infl i 0 s s1 := ((Infl.refl i s).setOwn hw hi c' hc).cast (by omega)
      split <;> exact hs1

theorem processPubrel_infl (s : Server) (i id rc : Nat) (hw : WF s) (hi : i < s.objs.length) :
    Infl i 0 s (processPubrel s i id rc).1 := by
  unfold processPubrel
  extract_lets +onlyGivenNames c
  split
  · rw [ackRes_fst]; exact Infl.refl i s
  · rename_i hn
    split
    · extract_lets +onlyGivenNames c'
      exact (((Infl.refl i s).setOwn hw hi c' (CL.flDelete_some c id (isSome_of_not_isNone hn))).subI 1).cast (by omega)
    · extract_lets +onlyGivenNames ack c1 s1
      have hc1 : CL 0 c c1 := CL.flSet_old c ack (isSome_of_not_isNone hn)
      have hs1 : Infl i 0 s s1 := ((Infl.refl i s).setOwn hw hi c1 hc1).cast (by omega)
      have e1 : getObj s1 i = c1 := getObj_setObj_eq s i c1 hi
      split
      · exact hs1
      · extract_lets +onlyGivenNames o c2
        split
        rename_i c3 ok heq
        extract_lets +onlyGivenNames s2
        have hc3 : CL (0 + 0 + if ok then -1 else 0) c1 c3 := by
          have := CL.flDelete' c2 id
          rw [heq] at this
          exact ((CL.incRecv' c1).trans (CL.incSend' _)).trans this
        have hs2 : Infl i (0 - (0 + 0 + if ok then -1 else 0)) s s2 := hs1.setOwn hw hi c3 (by rw [e1]; exact hc3)
        exact (hs2.condSub ok).cast (by cases ok <;> simp)

theorem processPubcomp_infl (s : Server) (i id : Nat) (hw : WF s) (hi : i < s.objs.length) :
    Infl i 0 s (processPubcomp s i id).1 := by
  unfold processPubcomp
  extract_lets +onlyGivenNames c
  split
  rename_i c1 ok heq
  extract_lets +onlyGivenNames s1
  have hc1 : CL (0 + 0 + if ok then -1 else 0) (getObj s i) c1 := by
    have := CL.flDelete' c id
    rw [heq] at this
    exact ((CL.incRecv' (getObj s i)).trans (CL.incSend' _)).trans this
  have hs1 : Infl i (0 - (0 + 0 + if ok then -1 else 0)) s s1 := (Infl.refl i s).setOwn hw hi c1 hc1
  exact (hs1.condSub ok).cast (by cases ok <;> simp)

theorem nextImmediate_infl (s : Server) (i : Nat) (hw : WF s) (hi : i < s.objs.length) :
    Infl i 0 s (nextImmediate s i).1 := by
  unfold nextImmediate
  extract_lets +onlyGivenNames c
  split
  · split
    · rename_i m _
      extract_lets +onlyGivenNames o
      split
      rename_i c1 ok heq
      extract_lets +onlyGivenNames s1
      have hc1 : CL ((if ok then -1 else 0) + 0) c (decSend c1) := by
        have := CL.flDelete' c m.id
        rw [heq] at this
        exact this.trans (CL.decSend' c1)
      have hs0 : Infl i 0 s { s with nextSeed := s.nextSeed / 64 } := (Infl.refl i s).upd rfl rfl rfl rfl rfl
      have hs1 : Infl i (0 - ((if ok then -1 else 0) + 0)) s s1 := hs0.setOwn hw hi _ hc1
      exact (hs1.condSub ok).cast (by cases ok <;> simp)
    · exact Infl.refl i s
  · exact Infl.refl i s

theorem processDisconnect_infl (s : Server) (i rc : Nat) (sei : Option Nat) (hw : WF s) (hi : i < s.objs.length) :
    Infl i 0 s (processDisconnect s i rc sei).1 := by
  unfold processDisconnect
  extract_lets +onlyGivenNames c r
  have hr : ∀ s' c', r = some (s', c') → s' = s ∧ CL 0 c c' := by
    intro s' c' h
    simp only [r] at h
    split at h
    · split at h
      · cases h
      · cases h; exact ⟨rfl, by cl_rfl⟩
    · cases h; exact ⟨rfl, CL.refl _⟩
  generalize r = r' at hr
  split
  · exact Infl.refl i s
  · rename_i s' c'
    obtain ⟨rfl, hc'⟩ := hr s' c' rfl
    extract_lets +onlyGivenNames s1
    have hs1 : Infl i 0 s' s1 := ((Infl.refl i s').setOwn hw hi c' hc').cast (by omega)
    split
    · exact hs1
    · extract_lets +onlyGivenNames s2
      have hs2 : Infl i 0 s' s2 := hs1.upd rfl rfl rfl rfl rfl
      split
      rename_i s3 o hst
      have := stopClient_infl s2 i (hs2.wf hw) (hs2.lt hi)
      rw [hst] at this
      exact hs2.trans0 this

theorem processUnsubscribe_infl (s : Server) (i id : Nat) (filters : List Str) (hw : WF s) (hi : i < s.objs.length) :
    Infl i 0 s (processUnsubscribe s i id filters).1 := by
  unfold processUnsubscribe
  extract_lets +onlyGivenNames c inUse r
  have hr : Infl i 0 s r.1 := by
    refine foldl_inv (fun (acc : Server × List Nat) => Infl i 0 s acc.1) _ _ _ (Infl.refl i s) ?_
    intro acc f h
    split
    rename_i s' rcs
    split
    · exact h
    · extract_lets rr src s1 s2
      show Infl i 0 s s2
      exact ((Infl.upd (s' := s1) h rfl rfl rfl rfl (info_ite_inflight _ _ _ rfl)).modOwn hw hi _ (by cl_rfl)).cast
        (by omega)
  generalize r = r' at hr
  split
  rename_i s' rcs
  extract_lets c'
  split <;> exact hr

theorem processSubscribe_infl (s : Server) (i id subId : Nat) (filters : List Sub) (hw : WF s)
    (hi : i < s.objs.length) : Infl i 0 s (processSubscribe s i id subId filters).1 := by
  unfold processSubscribe
  extract_lets +onlyGivenNames c inUse fin r
  have hr : Infl i 0 s r.1 := by
    refine foldl_inv (fun (acc : Server × List Nat × List Bool) => Infl i 0 s acc.1) _ _ _ (Infl.refl i s) ?_
    intro acc sub h
    split
    rename_i s' rcs exs
    extract_lets +onlyGivenNames sub'
    split
    · exact h
    · split
      · exact h
      · split
        · exact h
        · split
          · exact h
          · extract_lets +onlyGivenNames rr src s1 s2
            show Infl i 0 s s2
            exact ((Infl.upd (s' := s1) h rfl rfl rfl rfl (info_ite_inflight _ _ _ rfl)).modOwn hw hi _
              (by cl_rfl)).cast (by omega)
  generalize r = r' at hr
  split
  rename_i s' rcs exs
  extract_lets +onlyGivenNames c'
  split
  · exact hr
  · extract_lets +onlyGivenNames o1 z
    show Infl i 0 s z.1
    refine foldl_inv (fun (acc : Server × List Out) => Infl i 0 s acc.1) _ _ _ hr ?_
    intro acc xk h
    extract_lets +onlyGivenNames x
    split
    · exact h
    · extract_lets +onlyGivenNames src sub'
      split
      rename_i s2 o heq
      have := publishRetainedToClient_infl acc.1 i sub' x.2.2 xk.2 (h.wf hw) (h.lt hi)
      rw [heq] at this
      exact h.trans0 this

theorem sendLWT_infl (s : Server) (i : Nat) (hw : WF s) (hi : i < s.objs.length) : Infl i 0 s (sendLWT s i).1 := by
  unfold sendLWT
  extract_lets +onlyGivenNames c
  split
  · exact Infl.refl i s
  · extract_lets +onlyGivenNames pk
    split
    · exact (Infl.refl i s).upd rfl rfl rfl rfl rfl
    · extract_lets +onlyGivenNames s1
      have hs1 : Infl i 0 s s1 := by
        show Infl i 0 s (if pk.retain = true then retainMsg s pk else s)
        split
        · exact retainMsg_infl s pk i
        · exact Infl.refl i s
      split
      rename_i s2 o heq
      have := publishToSubscribers_infl s1 pk (hs1.wf hw) i
      rw [heq] at this
      have h2 : Infl i 0 s s2 := hs1.trans0 this
      refine Infl.fst_mk ?_
      exact (h2.modOwn hw hi _ (by cl_rfl)).cast (by omega)

theorem detachA_infl (s : Server) (i : Nat) (withErr : Bool) (hw : WF s) (hi : i < s.objs.length) :
    Infl i 0 s (detachA s i withErr).1 := by
  unfold detachA
  split
  · split
    rename_i s2 o2 h2
    split
    rename_i s3 o3 h3
    have a := sendLWT_infl s i hw hi
    rw [h2] at a
    have b := stopClient_infl s2 i (a.wf hw) (a.lt hi)
    rw [h3] at b
    exact a.trans0 b
  · exact ((Infl.refl i s).modOwn hw hi (fun c => { c with will := {} }) (by cl_rfl)).cast (by omega)

theorem detachB_infl (s : Server) (i : Nat) (hw : WF s) (hi : i < s.objs.length) : Infl i 0 s (detachB s i) := by
  unfold detachB
  extract_lets +onlyGivenNames c expire s3 s4 s2
  refine Infl.upd (s := s2) ?_ rfl rfl rfl rfl rfl
  show Infl i 0 s (if (expire && !c.takenOver) = true then _ else s)
  split
  · have h3 : Infl i 0 s s3 := clearInflights_infl s i hw hi
    have h4 : Infl i 0 s s4 := h3.trans0 (unsubscribeClient_infl s3 i (h3.wf hw) (h3.lt hi))
    exact h4.delClient _
  · exact Infl.refl i s

theorem detach_infl (s : Server) (i : Nat) (withErr : Bool) (hw : WF s) (hi : i < s.objs.length) :
    Infl i 0 s (detach s i withErr).1 := by
  unfold detach
  split
  rename_i s1 o1 heq
  have hs1 : Infl i 0 s s1 := by
    have := detachA_infl s i withErr hw hi
    rw [heq] at this
    exact this
  exact hs1.trans0 (detachB_infl s1 i (hs1.wf hw) (hs1.lt hi))

theorem Infl.ite_res {i : Nat} {s : Server} {p : Prop} [Decidable p] {a b : HRes}
    (ha : p → Infl i 0 s a.1) (hb : ¬ p → Infl i 0 s b.1) : Infl i 0 s (if p then a else b).1 := by
  by_cases h : p
  · rw [if_pos h]; exact ha h
  · rw [if_neg h]; exact hb h

theorem processPublish_infl (s : Server) (i : Nat) (qos : Nat) (dup retain : Bool) (id : Nat) (topic payload : Str)
    (msgExpiry : Nat) (alias : Option Nat) (hw : WF s) (hi : i < s.objs.length) :
    Infl i 0 s (processPublish s i qos dup retain id topic payload msgExpiry alias).1 := by
  unfold processPublish
  extract_lets +onlyGivenNames c
  have early : ∀ code, Infl i 0 s
      (if (qos == 0) = true then ((s, [], none) : HRes)
        else if (c.ver != 5) = true then
          match disconnectClient s i code with
          | (s, o) => (s, o, some code)
        else ackRes s i (if (qos == 2) = true then 5 else 4) id code).1 := by
    intro code
    split
    · exact Infl.refl i s
    · split
      · split
        rename_i s' o heq
        have := disconnectClient_infl s i code hw hi
        rw [heq] at this
        exact this
      · rw [ackRes_fst]; exact Infl.refl i s
  refine Infl.ite_res (fun _ => early _) (fun _ => ?_)
  · refine Infl.ite_res (fun _ => ?_) (fun _ => ?_)
    · split
      rename_i s' o heq
      have := disconnectClient_infl s i 0x93 hw hi
      rw [heq] at this
      exact this
    · refine Infl.ite_res (fun _ => early _) (fun _ => ?_)
      · extract_lets +onlyGivenNames e pk pre
        have hpre : ∀ r, pre = some r → r.1 = s := by
          intro r h
          simp only [pre] at h
          split at h
          · cases h
          · split at h
            · split at h
              · cases h; exact ackRes_fst s i 5 id 0x91
              · cases h
            · cases h
        generalize pre = pre' at hpre
        split
        · rename_i r
          rw [hpre r rfl]
          exact Infl.refl i s
        · clear hpre
          split
          rename_i s1 c1 heq
          have h1 : Infl i 0 s s1 ∧ getObj s1 i = c1 := by
            split at heq
            · rename_i hcond
              cases heq
              have hsome : (flGet c id).isSome = true := by
                simp only [Bool.and_eq_true] at hcond
                exact hcond.2
              exact ⟨(((Infl.refl i s).setOwn hw hi _ (CL.flDelete_some c id hsome)).subI 1).cast (by omega),
                     getObj_setObj_eq s i _ hi⟩
            · cases heq
              exact ⟨Infl.refl i s, rfl⟩
          clear heq
          obtain ⟨hs1, e1⟩ := h1
          split
          rename_i c2 pk2 heq
          have hc2 : CL 0 c1 c2 := by
            split at heq
            · split at heq
              · split at heq
                · cases heq; exact CL.refl _
                · split at heq
                  · split at heq
                    · cases heq; exact CL.refl _
                    · cases heq; cl_rfl
                  · cases heq; cl_rfl
              · cases heq; exact CL.refl _
            · cases heq; exact CL.refl _
          clear heq
          extract_lets +onlyGivenNames s2
          have hs2 : Infl i 0 s s2 := (hs1.setOwn hw hi c2 (by rw [e1]; exact hc2)).cast (by omega)
          split
          · split
            rename_i s' o heq
            have := disconnectClient_infl s2 i 0x82 (hs2.wf hw) (hs2.lt hi)
            rw [heq] at this
            exact hs2.trans0 this
          extract_lets +onlyGivenNames pk3 mode
          split
          · exact hs2
          · split
            · rw [ackRes_fst]; exact hs2
            · extract_lets +onlyGivenNames pk4 s3
              have hs3 : Infl i 0 s s3 := by
                show Infl i 0 s (if pk4.retain = true then retainMsg s2 pk4 else s2)
                split
                · exact hs2.trans0 (retainMsg_infl s2 pk4 i)
                · exact hs2
              split
              · split
                rename_i s4 o heq
                have := publishToSubscribers_infl s3 pk4 (hs3.wf hw) i
                rw [heq] at this
                exact hs3.trans0 this
              · extract_lets +onlyGivenNames s4 ackT ackRC ack
                have hs4 : Infl i 0 s s4 := (hs3.modOwn hw hi decRecv (CL.decRecv' _)).cast (by omega)
                split
                rename_i c5 isNew heq
                have hc5 : CL (if isNew then 1 else 0) (getObj s4 i) c5 := by
                  have := CL.flSet' (getObj s4 i) ack
                  rw [heq] at this
                  exact this
                clear heq
                extract_lets +onlyGivenNames s5 src s6
                have hs5 : Infl i (0 - (if isNew then 1 else 0)) s s5 := hs4.setOwn hw hi c5 hc5
                have hs6 : Infl i 0 s s6 := (hs5.condAdd isNew).cast (by cases isNew <;> simp)
                split
                · exact hs6
                · extract_lets +onlyGivenNames o1 s7
                  have hs7 : Infl i 0 s s7 := by
                    show Infl i 0 s (if (pk4.qos == 1) = true then _ else s6)
                    split
                    · split
                      rename_i c6 ok heq
                      have hc6 : CL ((if ok then -1 else 0) + 0) (getObj s6 i) (incRecv c6) := by
                        have := CL.flDelete' (getObj s6 i) id
                        rw [heq] at this
                        exact this.trans (CL.incRecv' c6)
                      extract_lets +onlyGivenNames s8
                      have hs8 : Infl i (0 - ((if ok then -1 else 0) + 0)) s s8 := hs6.setOwn hw hi _ hc6
                      exact (hs8.condSub ok).cast (by cases ok <;> simp)
                    · exact hs6
                  split
                  rename_i s9 o2 heq
                  have := publishToSubscribers_infl s7 pk4 (hs7.wf hw) i
                  rw [heq] at this
                  exact hs7.trans0 this

/-! ### one inbound packet -/

theorem receivePacket_infl (s : Server) (i : Nat) (pk : InPk) (hw : WF s) (hi : i < s.objs.length) :
    Infl i 0 s (receivePacket s i pk).1 := by
  unfold receivePacket
  extract_lets +onlyGivenNames c r
  have hr : Infl i 0 s r.1 := by
    simp only [r]
    split
    · split
      · exact Infl.refl i s
      · exact processPublish_infl _ _ _ _ _ _ _ _ _ _ hw hi
    · split
      · exact Infl.refl i s
      · exact processSubscribe_infl _ _ _ _ _ hw hi
    · split
      · exact Infl.refl i s
      · exact processUnsubscribe_infl _ _ _ _ hw hi
    · exact processPuback_infl _ _ _ hw hi
    · exact processPubrec_infl _ _ _ _ hw hi
    · exact processPubrel_infl _ _ _ _ hw hi
    · exact processPubcomp_infl _ _ _ hw hi
    · split <;> exact Infl.refl i s
    · exact processDisconnect_infl _ _ _ _ hw hi
  generalize r = r' at hr
  split
  · rename_i s1 o
    split
    rename_i s2 o2 heq
    have := nextImmediate_infl s1 i (hr.wf hw) (hr.lt hi)
    rw [heq] at this
    exact hr.trans0 this
  · rename_i s1 o code
    split
    · split
      rename_i s2 o2 heq
      have := disconnectClient_infl s1 i code (hr.wf hw) (hr.lt hi)
      rw [heq] at this
      exact hr.trans0 this
    · exact hr

theorem conn_lt {s : Server} (hw : WF s) {c i : Nat} (hc : assocGet s.connOf c = some i) : i < s.objs.length :=
  hw.conn_valid c i (assocGet_mem _ _ _ hc)

theorem recvOn_infl (s : Server) (c : Nat) (pk : InPk) (b : Bool) (hw : WF s) (i : Nat)
    (hc : assocGet s.connOf c = some i) : Infl i 0 s (recvOn s c pk b).1 := by
  have hi := conn_lt hw hc
  unfold recvOn
  split
  · exact Infl.refl i s
  · rename_i i' hc'
    rw [hc] at hc'
    cases hc'
    split
    · exact Infl.refl i s
    · split
      rename_i s1 o e heq
      have h1 := receivePacket_infl s i pk hw hi
      rw [heq] at h1
      split
      · split
        rename_i s2 o2 hd
        have := detach_infl s1 i true (h1.wf hw) (h1.lt hi)
        rw [hd] at this
        exact h1.trans0 this
      · split
        · split
          rename_i s2 o2 hd
          have := detach_infl s1 i false (h1.wf hw) (h1.lt hi)
          rw [hd] at this
          exact h1.trans0 this
        · split
          · split
            rename_i s2 o2 e2 heq2
            have h2 := receivePacket_infl s1 i .pingreq (h1.wf hw) (h1.lt hi)
            rw [heq2] at h2
            extract_lets +onlyGivenNames o2f
            have h12 : Infl i 0 s s2 := h1.trans0 h2
            split
            · split
              rename_i s3 o3 hd
              have := detach_infl s2 i true (h12.wf hw) (h12.lt hi)
              rw [hd] at this
              exact h12.trans0 this
            · exact h12
          · exact h1

/-! ### the invariant -/

/-- no handler parked in the authentication hook (`stage 1`) belongs to object `i` -/
def NotPend1 (s : Server) (i : Nat) : Prop := ∀ p ∈ s.pending, p.stage = 1 → p.obj ≠ i

/-- the `inflight` conjunct of `Counted`, with what its proof needs -/
structure InflInv (s : Server) : Prop where
  /-- `Info.Inflight` is the number of in-flight records held by all client objects -/
  eq : s.info.inflight = sumAll s
  os : ∀ k, OS (getObj s k)
  /-- a client whose handler is parked in the authentication hook has no session yet -/
  pend : ∀ p ∈ s.pending, p.stage = 1 → ¬ Reg s p.obj ∧ (getObj s p.obj).inflight = []
  /-- a parked handler's connection is its object's connection -/
  pconn : ∀ p ∈ s.pending, assocGet s.connOf p.conn = some p.obj
  /-- one connection per object -/
  cinj : ∀ c1 c2 i, assocGet s.connOf c1 = some i → assocGet s.connOf c2 = some i → c1 = c2
  /-- object 0 (the inline client) exists and has no connection handler -/
  nz : 0 < s.objs.length
  pnz : ∀ p ∈ s.pending, p.obj ≠ 0

theorem InflInv.of_infl {s s' : Server} {i : Nat} (h : InflInv s) (g : Infl i 0 s s') (hs : NotPend1 s i) :
    InflInv s' := by
  refine ⟨?_, g.os h.os, ?_, ?_, ?_, by rw [g.len]; exact h.nz, by rw [g.good.pending]; exact h.pnz⟩
  · have h1 := g.infl
    have h2 := h.eq
    unfold defect at h1
    omega
  · intro p hp h1
    rw [g.good.pending] at hp
    obtain ⟨hr, he⟩ := h.pend p hp h1
    exact ⟨fun r => hr (r.mono g.good.clients), by rw [g.unreg p.obj (hs p hp h1) hr]; exact he⟩
  · intro p hp
    rw [g.good.pending] at hp
    rw [g.good.connOf]
    exact h.pconn p hp
  · rw [g.good.connOf]; exact h.cinj

/-- a change to server fields other than `objs`, `clients`, `connOf`, `pending`, `info.inflight` -/
theorem InflInv.upd {s s' : Server} (h : InflInv s) (ho : s'.objs = s.objs) (hc : s'.clients = s.clients)
    (hn : s'.connOf = s.connOf) (hp : s'.pending = s.pending) (hi : s'.info.inflight = s.info.inflight) :
    InflInv s' := by
  refine ⟨by rw [hi, h.eq]; unfold sumAll; rw [ho], fun k => by rw [getObj_of_objs_eq ho k]; exact h.os k, ?_, ?_, ?_,
    by rw [ho]; exact h.nz, by rw [hp]; exact h.pnz⟩
  · intro p hp' h1
    rw [hp] at hp'
    obtain ⟨hr, he⟩ := h.pend p hp' h1
    refine ⟨fun r => hr ?_, by rw [getObj_of_objs_eq ho]; exact he⟩
    unfold Reg at r ⊢
    rw [hc] at r
    exact r
  · intro p hp'
    rw [hp] at hp'
    rw [hn]
    exact h.pconn p hp'
  · rw [hn]; exact h.cinj

theorem InflInv.filterPending {s : Server} (h : InflInv s) (f : Pending → Bool) :
    InflInv { s with pending := s.pending.filter f } :=
  ⟨h.eq, h.os, fun p hp => h.pend p (List.mem_filter.mp hp).1, fun p hp => h.pconn p (List.mem_filter.mp hp).1, h.cinj,
   h.nz, fun p hp => h.pnz p (List.mem_filter.mp hp).1⟩

theorem InflInv.addPending {s : Server} (h : InflInv s) (p : Pending)
    (h1 : p.stage = 1 → ¬ Reg s p.obj ∧ (getObj s p.obj).inflight = [])
    (h2 : assocGet s.connOf p.conn = some p.obj) (h3 : p.obj ≠ 0) : InflInv { s with pending := s.pending ++ [p] } := by
  refine ⟨h.eq, h.os, ?_, ?_, h.cinj, h.nz, ?_⟩
  rotate_left 2
  · intro q hq
    rcases List.mem_append.mp hq with hq | hq
    · exact h.pnz q hq
    · rw [List.mem_singleton.mp hq]; exact h3
  · intro q hq
    rcases List.mem_append.mp hq with hq | hq
    · exact h.pend q hq
    · rw [List.mem_singleton.mp hq]; exact h1
  · intro q hq
    rcases List.mem_append.mp hq with hq | hq
    · exact h.pconn q hq
    · rw [List.mem_singleton.mp hq]; exact h2

theorem InflInv.addClient {s : Server} (h : InflInv s) (cid : Str) (i : Nat) (hi : NotPend1 s i) :
    InflInv { s with clients := assocSet s.clients cid i } := by
  refine ⟨h.eq, h.os, ?_, h.pconn, h.cinj, h.nz, h.pnz⟩
  intro p hp h1
  obtain ⟨hr, he⟩ := h.pend p hp h1
  refine ⟨?_, he⟩
  rintro ⟨id, hm⟩
  rcases mem_assocSet _ _ _ _ hm with hm | hm
  · exact hr ⟨id, hm⟩
  · cases hm
    exact hi p hp h1 rfl

theorem OS_default : OS ({} : Client) := rfl

theorem OS_all_iff (s : Server) : (∀ k, OS (getObj s k)) ↔ ∀ c ∈ s.objs, OS c := by
  constructor
  · intro h c hc
    obtain ⟨i, hi⟩ := List.mem_iff_getElem?.mp hc
    have := h i
    simp only [getObj, List.getD_eq_getElem?_getD, hi, Option.getD_some] at this
    exact this
  · intro h k
    simp only [getObj, List.getD_eq_getElem?_getD]
    cases hk : s.objs[k]? with
    | none => exact OS_default
    | some c => exact h c (List.mem_of_getElem? hk)

theorem assocGet_snoc {α β} [DecidableEq α] (m : List (α × β)) (k0 : α) (v0 : β) (k : α) (v : β)
    (h : assocGet (m ++ [(k0, v0)]) k = some v) : assocGet m k = some v ∨ (assocGet m k = none ∧ k = k0 ∧ v = v0) := by
  rw [assocGet_append] at h
  cases hm : assocGet m k with
  | some x =>
    rw [hm] at h
    exact Or.inl h
  | none =>
    rw [hm] at h
    simp only [Option.none_or, assocGet] at h
    split at h
    · rename_i hk
      cases h
      exact Or.inr ⟨rfl, hk.symm, rfl⟩
    · cases h

/-- a new object without a session and its connection-table entry under a fresh connection number -/
theorem InflInv.addObj {s : Server} (h : InflInv s) (hw : WF s) (c : Client) (conn : Nat) (hc : c.inflight = [])
    (hos : OS c) :
    InflInv { s with objs := s.objs ++ [c], connOf := s.connOf ++ [(conn, s.objs.length)] } := by
  refine ⟨?_, ?_, ?_, ?_, ?_, by show 0 < (s.objs ++ [c]).length; simp, h.pnz⟩
  · show s.info.inflight = ((sumAll { s with objs := s.objs ++ [c], connOf := s.connOf ++ [(conn, s.objs.length)] } : Nat) : Int)
    rw [h.eq]
    unfold sumAll
    simp [hc]
  · rw [OS_all_iff]
    intro x hx
    rcases List.mem_append.mp hx with hx | hx
    · exact (OS_all_iff s).mp h.os x hx
    · rw [List.mem_singleton.mp hx]; exact hos
  · intro p hp h1
    obtain ⟨hr, he⟩ := h.pend p hp h1
    refine ⟨hr, ?_⟩
    rw [getObj_append_lt (s := s) rfl p.obj (hw.pending_valid p hp).1]
    exact he
  · intro p hp
    show assocGet (s.connOf ++ [(conn, s.objs.length)]) p.conn = some p.obj
    rw [assocGet_append, h.pconn p hp]
    rfl
  · intro c1 c2 i h1 h2
    rcases assocGet_snoc _ _ _ _ _ h1 with a | ⟨a0, a1, a2⟩
    · rcases assocGet_snoc _ _ _ _ _ h2 with b | ⟨b0, b1, b2⟩
      · exact h.cinj c1 c2 i a b
      · have := conn_lt hw a
        omega
    · rcases assocGet_snoc _ _ _ _ _ h2 with b | ⟨b0, b1, b2⟩
      · have := conn_lt hw b
        omega
      · rw [a1, b1]

theorem InflInv_init (caps : Caps) : InflInv (init caps) := by
  refine ⟨rfl, ?_, ?_, ?_, ?_, Nat.zero_lt_one, ?_⟩
  · rw [OS_all_iff]
    intro c hc
    rw [List.mem_singleton.mp hc]
    rfl
  · intro p hp; cases hp
  · intro p hp; cases hp
  · intro c1 c2 i h1; cases h1
  · intro p hp; cases hp

/-! ### connecting -/

theorem admitA_exLive_cnt (s : Server) (i : Nat) (k : Connect) (e : Nat) (h : (admitA s i k).2.2.2 = some e) :
    assocGet s.clients k.id = some e := by
  unfold admitA at h
  extract_lets +onlyGivenNames src s0 exLive at h
  split at h
  simp only [] at h
  simp only [exLive] at h
  split at h
  · rename_i e' he'
    split at h
    · cases h
    · cases h; exact he'
  · cases h

/-- `admitA` is an `Infl` transition for the new object followed by `Clients.Add` -/
theorem admitA_infl (s : Server) (i : Nat) (k : Connect) (hw : WF s) (hi : i < s.objs.length) (hfresh : ¬ Reg s i)
    (hempty : (getObj s i).inflight = []) :
    ∃ b, Infl i 0 s b ∧ (admitA s i k).1 = { b with clients := assocSet b.clients k.id i } := by
  unfold admitA
  extract_lets +onlyGivenNames src s0 exLive
  have hs0 : Infl i 0 s s0 := (Infl.refl i s).upd rfl rfl rfl rfl rfl
  split
  rename_i s' o1 present heq
  refine ⟨s', ?_, rfl⟩
  split at heq
  · rename_i e he
    have hreg : Reg s e := Reg.of_assocGet he
    have hei : i ≠ e := fun x => hfresh (x ▸ hreg)
    extract_lets +onlyGivenNames ex at heq
    split at heq
    rename_i s1 o hd
    -- work on the existing object `e` (registered): seen as acting object `e` it leaves `i` alone
    have he0 : Infl e 0 s s0 := (Infl.refl e s).upd rfl rfl rfl rfl rfl
    have hw0 : WF s0 := he0.wf hw
    have hes1 : Infl e 0 s s1 := by
      have := disconnectClient_infl s0 e 0x8E hw0 (hreg.lt hw)
      rw [hd] at this
      exact he0.trans0 this
    split at heq
    · extract_lets +onlyGivenNames s2 s3 at heq
      cases heq
      have hs2 : Infl e 0 s s2 := hes1.trans0 (unsubscribeClient_infl s1 e (hes1.wf hw) (hes1.lt (hreg.lt hw)))
      have hs3 : Infl e 0 s s3 := hs2.trans0 (clearInflights_infl s2 e (hs2.wf hw) (hs2.lt (hreg.lt hw)))
      exact ((hs3.modOwn hw (hreg.lt hw) _ (by cl_rfl)).cast (by omega)).toReg hreg i
    · extract_lets +onlyGivenNames s2 ex2 rmx s2i src2 s3 s4 s5 s6 at heq
      rw [← (Prod.mk.inj heq).1]
      have hs2e : Infl e 0 s s2 := (hes1.modOwn hw (hreg.lt hw) _ (by cl_rfl)).cast (by omega)
      have hs2 : Infl i 0 s s2 := hs2e.toReg hreg i
      have hwf2 : AllWF s2 := (hs2.wf hw).allWF
      have hi2 : (getObj s2 i).inflight = [] := by rw [hs2e.unreg i hei hfresh]; exact hempty
      have hs3 : Infl i 0 s s3 := by
        show Infl i 0 s (if ex2.inflight.length > 0 then _ else s2)
        split
        · have hcl : CL (ex2.inflight.length : Int) (getObj s2 i)
              ((fun (x : Client) =>
                let sq := if rmx != 0 then x.recvMaxProp else 0
                { x with inflight := ex2.inflight, recvQuota := rmx, maxRecv := rmx, sendQuota := sq, maxSend := sq })
                (getObj s2 i)) :=
            ⟨⟨rfl, fun _ => ⟨(hwf2 e).1, Nat.le_refl _, Nat.le_refl _⟩⟩, fun x => x, fun _ => by
              show (ex2.inflight.length : Int) = ((getObj s2 i).inflight.length : Int) + ex2.inflight.length
              rw [hi2]; simp⟩
          exact ((hs2.modOwn hw hi _ hcl).addI ex2.inflight.length).cast (by omega)
        · exact hs2
      have hs4 : Infl i 0 s s4 := by
        refine foldl_inv (fun (x : Server) => Infl i 0 s x) _ _ _ hs3 ?_
        intro b fs h
        extract_lets +onlyGivenNames rr src3 b1
        exact ((Infl.upd (s' := b1) h rfl rfl rfl rfl (info_ite_inflight _ _ _ rfl)).modOwn hw hi _ (by cl_rfl)).cast
          (by omega)
      have hs5 : Infl i 0 s s5 :=
        (hs4.trans' (unsubscribeClient_infl s4 e (hs4.wf hw) (hs4.lt (hreg.lt hw))) (Or.inr hreg)).cast (by omega)
      exact (hs5.trans' (clearInflights_infl s5 e (hs5.wf hw) (hs5.lt (hreg.lt hw))) (Or.inr hreg)).cast (by omega)
  · cases heq
    exact hs0

theorem admitA_inv_cnt (s : Server) (i : Nat) (k : Connect) (hw : WF s) (hi : i < s.objs.length) (h : InflInv s)
    (hfresh : ¬ Reg s i) (hempty : (getObj s i).inflight = []) (hpi : NotPend1 s i) : InflInv (admitA s i k).1 := by
  obtain ⟨b, hb, he⟩ := admitA_infl s i k hw hi hfresh hempty
  rw [he]
  refine (h.of_infl hb hpi).addClient k.id i ?_
  intro p hp
  rw [hb.good.pending] at hp
  exact hpi p hp

theorem admitConnack_infl (s : Server) (i conn : Nat) (present : Bool) (hw : WF s) (hi : i < s.objs.length) :
    Infl i 0 s (admitConnack s i conn present).1 := by
  unfold admitConnack
  extract_lets +onlyGivenNames cl
  split
  rename_i s' seiOut heq
  show Infl i 0 s s'
  split at heq
  · cases heq
    exact ((Infl.refl i s).modOwn hw hi _ (by cl_rfl)).cast (by omega)
  · cases heq
    exact Infl.refl i s

theorem admitC_infl (s : Server) (i : Nat) (k : Connect) (present : Bool) (hw : WF s) (hi : i < s.objs.length) :
    Infl i 0 s (admitC s i k present).1 := by
  unfold admitC
  extract_lets +onlyGivenNames s1
  have hs1 : Infl i 0 s s1 := (Infl.refl i s).upd rfl rfl rfl rfl rfl
  split
  · refine foldl_inv (fun (acc : Server × List Out) => Infl i 0 s acc.1) _ _ _ hs1 ?_
    intro acc m h
    extract_lets +onlyGivenNames m' o s'
    show Infl i 0 s s'
    show Infl i 0 s (if (m.type == 4 || m.type == 7) = true then _ else acc.1)
    split
    · split
      rename_i c' ok heq
      extract_lets +onlyGivenNames s''
      have hc' : CL (if ok then -1 else 0) (getObj acc.1 i) c' := by
        have := CL.flDelete' (getObj acc.1 i) m.id
        rw [heq] at this
        exact this
      have h2 : Infl i (0 - if ok then -1 else 0) s s'' := h.setOwn hw hi c' hc'
      exact (h2.condSub ok).cast (by cases ok <;> simp)
    · exact h
  · exact hs1

/-- what `admitClient` needs of the object it admits -/
structure Fresh (s : Server) (i : Nat) (k : Connect) : Prop where
  lt : i < s.objs.length
  id : (getObj s i).id = k.id
  unreg : ¬ Reg s i
  empty : (getObj s i).inflight = []
  notPend : NotPend1 s i

theorem NotPend1.of_reg {s : Server} {e : Nat} (h : InflInv s) (hr : Reg s e) : NotPend1 s e :=
  fun p hp h1 he => (h.pend p hp h1).1 (he ▸ hr)

theorem NotPend1.keep {s s' : Server} {i : Nat} (h : NotPend1 s i) (hp : s'.pending = s.pending) : NotPend1 s' i :=
  fun p hp' => h p (hp ▸ hp')

theorem admitClient_inv_cnt (s : Server) (i conn : Nat) (k : Connect) (hw : WF s) (h : InflInv s) (hf : Fresh s i k) :
    InflInv (admitClient s i conn k).1 := by
  unfold admitClient
  split
  rename_i s1 o1 present exLive h1
  have w1 : WF s1 := by
    have := admitA_wf s i k hw hf.lt hf.id
    rw [h1] at this; exact this
  have k1 : Keep s s1 := by
    have := admitA_keep s i k
    rw [h1] at this; exact this
  have i1 : InflInv s1 := by
    have := admitA_inv_cnt s i k hw hf.lt h hf.unreg hf.empty hf.notPend
    rw [h1] at this; exact this
  have hex : ∀ e, exLive = some e → assocGet s.clients k.id = some e := by
    intro e he
    have := admitA_exLive_cnt s i k e
    rw [h1] at this
    exact this he
  have hi1 : i < s1.objs.length := by rw [k1.len]; exact hf.lt
  have np1 : NotPend1 s1 i := hf.notPend.keep k1.pending
  split
  rename_i s2 o2 h2
  have g2 : Infl i 0 s1 s2 := by
    have := admitConnack_infl s1 i conn present w1 hi1
    rw [h2] at this; exact this
  have w2 : WF s2 := g2.wf w1
  have i2 : InflInv s2 := i1.of_infl g2 np1
  split
  rename_i s3 o4 h3
  have g3 : InflInv s3 ∧ Good s2 s3 := by
    split at h3
    · rename_i e
      have hre : Reg s e := Reg.of_assocGet (hex e rfl)
      have he2 : e < s2.objs.length := by rw [g2.len, k1.len]; exact hre.lt hw
      have := detach_infl s2 e true w2 he2
      rw [h3] at this
      refine ⟨i2.of_infl this ?_, this.good⟩
      exact ((NotPend1.of_reg h hre).keep k1.pending).keep g2.good.pending
    · cases h3; exact ⟨i2, Good.refl _⟩
  obtain ⟨i3, gd3⟩ := g3
  split
  rename_i s4 o3 h4
  have := admitC_infl s3 i k present (w2.of_good gd3) (by rw [gd3.len]; exact g2.lt hi1)
  rw [h4] at this
  exact i3.of_infl this ((np1.keep g2.good.pending).keep gd3.pending)

theorem parseConnect_os (s : Server) (conn : Nat) (k : Connect) : OS (parseConnect s conn k) := rfl

theorem fresh_new (s : Server) (hw : WF s) (_h : InflInv s) (c : Client) (conn : Nat) (k : Connect) (hid : c.id = k.id)
    (hc : c.inflight = []) :
    Fresh { s with objs := s.objs ++ [c], connOf := s.connOf ++ [(conn, s.objs.length)] } s.objs.length k := by
  have e : getObj { s with objs := s.objs ++ [c], connOf := s.connOf ++ [(conn, s.objs.length)] } s.objs.length = c :=
    getObj_append_eq (s := s) rfl
  refine ⟨?_, by rw [e]; exact hid, ?_, by rw [e]; exact hc, ?_⟩
  · show s.objs.length < (s.objs ++ [c]).length
    simp
  · intro r
    have : Reg s s.objs.length := r
    have := this.lt hw
    omega
  · intro p hp h1 he
    have := (hw.pending_valid p hp).1
    omega

theorem connect_inv_cnt (s : Server) (conn : Nat) (k : Connect) (hw : WF s) (h : InflInv s)
    (hf : conn ∉ s.connOf.map (·.1)) :
    InflInv (connect s conn k).1 ∧ (connect s conn k).1.pending = s.pending ∧
      (connect s conn k).1.connOf = s.connOf ++ [(conn, s.objs.length)] := by
  unfold connect
  extract_lets +onlyGivenNames c i s1
  have w1 : WF s1 := hw.addObj c conn (parseConnect_wf s conn k) hf
  have i1 : InflInv s1 := h.addObj hw c conn rfl (parseConnect_os s conn k)
  have f1 : Fresh s1 i k := fresh_new s hw h c conn k rfl rfl
  split
  · split
    rename_i s2 o2 h2
    have := stopClient_infl s1 i w1 f1.lt
    rw [h2] at this
    exact ⟨i1.of_infl this f1.notPend, this.good.pending, this.good.connOf⟩
  · have kp := (admitClient_wf s1 i conn k w1 f1.lt f1.id).2
    exact ⟨admitClient_inv_cnt s1 i conn k w1 i1 f1, kp.pending, kp.connOf⟩

theorem ite_fst_inv {α} (c : Prop) [Decidable c] (a b : Server × α) (ha : InflInv a.1) (hb : InflInv b.1) :
    InflInv (if c then a else b).1 := by
  split <;> assumption

theorem assocGet_new_conn (s : Server) (conn : Nat) (hf : conn ∉ s.connOf.map (·.1)) :
    assocGet (s.connOf ++ [(conn, s.objs.length)]) conn = some s.objs.length := by
  rw [assocGet_append]
  have : assocGet s.connOf conn = none := by
    cases hg : assocGet s.connOf conn with
    | none => rfl
    | some v => exact absurd (List.mem_map.mpr ⟨(conn, v), assocGet_mem _ _ _ hg, rfl⟩) hf
  rw [this]
  simp [assocGet]

theorem connectHold_inv_cnt (s : Server) (conn : Nat) (k : Connect) (stage : Nat) (hw : WF s) (h : InflInv s)
    (hf : conn ∉ s.connOf.map (·.1)) : InflInv (connectHold s conn k stage).1 := by
  unfold connectHold
  extract_lets +onlyGivenNames c i s1 dec
  have w1 : WF s1 := hw.addObj c conn (parseConnect_wf s conn k) hf
  have i1 : InflInv s1 := h.addObj hw c conn rfl (parseConnect_os s conn k)
  have f1 : Fresh s1 i k := fresh_new s hw h c conn k rfl rfl
  have hco : assocGet s1.connOf conn = some i := assocGet_new_conn s conn hf
  generalize dec = d
  cases d with
  | some code =>
    refine ite_fst_inv _ _ _ ?_ ?_
    · exact i1.addPending _ (fun _ => ⟨f1.unreg, f1.empty⟩) hco (Nat.ne_of_gt h.nz)
    · extract_lets +onlyGivenNames o
      split
      rename_i s2 o2 h2
      have := stopClient_infl s1 i w1 f1.lt
      rw [h2] at this
      exact i1.of_infl this f1.notPend
  | none =>
    refine ite_fst_inv _ _ _ ?_ ?_
    · exact i1.addPending _ (fun _ => ⟨f1.unreg, f1.empty⟩) hco (Nat.ne_of_gt h.nz)
    · split
      rename_i s2 o1 present exLive h1
      have w2 : WF s2 := by
        have := admitA_wf s1 i k w1 f1.lt f1.id
        rw [h1] at this; exact this
      have k2 : Keep s1 s2 := by
        have := admitA_keep s1 i k
        rw [h1] at this; exact this
      have i2 : InflInv s2 := by
        have := admitA_inv_cnt s1 i k w1 f1.lt i1 f1.unreg f1.empty f1.notPend
        rw [h1] at this; exact this
      have hex : ∀ e, exLive = some e → assocGet s1.clients k.id = some e := by
        intro e he
        have := admitA_exLive_cnt s1 i k e
        rw [h1] at this
        exact this he
      split
      rename_i s3 o4 h3
      have g3 : InflInv s3 ∧ Good s2 s3 := by
        split at h3
        · rename_i e
          have hre : Reg s1 e := Reg.of_assocGet (hex e rfl)
          have he2 : e < s2.objs.length := by rw [k2.len]; exact hre.lt w1
          have := detach_infl s2 e true w2 he2
          rw [h3] at this
          exact ⟨i2.of_infl this ((NotPend1.of_reg i1 hre).keep k2.pending), this.good⟩
        · cases h3; exact ⟨i2, Good.refl _⟩
      obtain ⟨i3, gd3⟩ := g3
      refine i3.addPending _ (fun h1 => by cases h1) ?_ (Nat.ne_of_gt h.nz)
      show assocGet s3.connOf conn = some i
      rw [gd3.connOf, k2.connOf]
      exact hco

theorem connectRelease_inv_cnt (s : Server) (p : Pending) (hw : WF s) (h : InflInv s) (hi : p.obj < s.objs.length)
    (hid : (getObj s p.obj).id = p.k.id) (hnp : NotPend1 s p.obj)
    (h1 : p.stage = 1 → ¬ Reg s p.obj ∧ (getObj s p.obj).inflight = []) : InflInv (connectRelease s p).1 := by
  unfold connectRelease
  split
  · rename_i hst
    have hst1 : p.stage = 1 := by simpa using hst
    split
    · split
      rename_i s2 o2 h2
      have := stopClient_infl s p.obj hw hi
      rw [h2] at this
      exact h.of_infl this hnp
    · exact admitClient_inv_cnt s p.obj p.conn p.k hw h ⟨hi, hid, (h1 hst1).1, (h1 hst1).2, hnp⟩
  · split
    · exact h.upd rfl rfl rfl rfl rfl
    · split
      rename_i s2 o2 h2
      have g2 : Infl p.obj 0 s s2 := by
        have := admitConnack_infl s p.obj p.conn p.present hw hi
        rw [h2] at this; exact this
      split
      rename_i s3 o3 h3
      have g3 : Infl p.obj 0 s2 s3 := by
        have := admitC_infl s2 p.obj p.k p.present (g2.wf hw) (g2.lt hi)
        rw [h3] at this; exact this
      exact h.of_infl (g2.trans0 g3) hnp

/-! ### housekeeping -/

theorem foldl_inv_mem {α β} (P : β → Prop) (f : β → α → β) (l : List α) (b : β) (h0 : P b)
    (hs : ∀ b a, a ∈ l → P b → P (f b a)) : P (l.foldl f b) := by
  induction l generalizing b with
  | nil => exact h0
  | cons x xs ih =>
    exact ih _ (hs _ _ List.mem_cons_self h0) (fun b a ha => hs b a (List.mem_cons_of_mem _ ha))

theorem tickClients_infl (s : Server) (dt : Int) (hw : WF s) (i : Nat) : Infl i 0 s (tickClients s dt).1 := by
  unfold tickClients
  refine foldl_inv_mem (fun (acc : Server × List Out) => Infl i 0 s acc.1) _ _ _ (Infl.refl i s) ?_
  intro acc e he h
  extract_lets +onlyGivenNames c
  split
  · extract_lets +onlyGivenNames s1 s2
    have hreg : Reg s e.2 := ⟨e.1, he⟩
    have w := h.wf hw
    have lt : e.2 < acc.1.objs.length := h.lt (hreg.lt hw)
    have g1 : Infl e.2 0 acc.1 s1 := clearInflights_infl acc.1 e.2 w lt
    have g2 : Infl e.2 0 acc.1 s2 := g1.trans0 (unsubscribeClient_infl s1 e.2 (g1.wf w) (g1.lt lt))
    exact (h.trans' (g2.delClient _) (Or.inr hreg)).cast (by omega)
  · exact h

theorem tickRetained_infl (s : Server) (now : Int) (i : Nat) : Infl i 0 s (tickRetained s now) := by
  unfold tickRetained
  extract_lets +onlyGivenNames s1
  refine Infl.upd (s := s1) ?_ rfl rfl rfl rfl rfl
  show Infl i 0 s (tickRetained.tickRetainedLoop s now)
  unfold tickRetained.tickRetainedLoop
  refine foldl_inv (fun (x : Server) => Infl i 0 s x) _ _ _ (Infl.refl i s) ?_
  intro b e h
  extract_lets +onlyGivenNames pk expired enforced
  split
  · exact h.upd rfl rfl rfl rfl rfl
  · exact h

theorem tickInflight_infl (s : Server) (now : Int) (hw : WF s) (i : Nat) : Infl i 0 s (tickInflight s now) := by
  unfold tickInflight
  refine foldl_inv_mem (fun (x : Server) => Infl i 0 s x) _ _ _ (Infl.refl i s) ?_
  intro b e he h
  have hreg : Reg s e.2 := ⟨e.1, he⟩
  extract_lets +onlyGivenNames c
  refine foldl_inv (fun (x : Server) => Infl i 0 s x) _ _ _ h ?_
  intro b2 m h2
  extract_lets +onlyGivenNames expired enforced
  split
  · split
    rename_i c' ok heq
    extract_lets +onlyGivenNames s1
    have hc' : CL (if ok then -1 else 0) (getObj b2 e.2) c' := by
      have := CL.flDelete' (getObj b2 e.2) m.id
      rw [heq] at this
      exact this
    have w := h2.wf hw
    have g1 : Infl e.2 (0 - if ok then -1 else 0) b2 s1 := (Infl.refl e.2 b2).setOwn w (h2.lt (hreg.lt hw)) c' hc'
    have g2 := (g1.condSub ok).cast (d' := 0) (by cases ok <;> simp)
    exact (h2.trans' g2 (Or.inr hreg)).cast (by omega)
  · exact h2

theorem tickWills_infl (s : Server) (dt : Int) (hw : WF s) (i : Nat) : Infl i 0 s (tickWills s dt).1 := by
  unfold tickWills
  refine foldl_inv (fun (acc : Server × List Out) => Infl i 0 s acc.1) _ _ _ (Infl.refl i s) ?_
  intro acc e h
  split
  · split
    rename_i s1 o h1
    have g1 : Infl i 0 s s1 := by
      have := publishToSubscribers_infl acc.1 e.2 (h.wf hw) i
      rw [h1] at this
      exact h.trans0 this
    split
    rename_i s2 o2 h2
    have g2 : Infl i 0 s s2 := by
      split at h2
      · rename_i j hj
        extract_lets +onlyGivenNames s3 at h2
        rw [← (Prod.mk.inj h2).1]
        have g3 : Infl i 0 s s3 := by
          show Infl i 0 s (if e.2.retain = true then retainMsg s1 e.2 else s1)
          split
          · exact g1.trans0 (retainMsg_infl s1 e.2 i)
          · exact g1
        have hreg : Reg s j := (Reg.of_assocGet hj).mono g1.good.clients
        exact (g3.modReg hw j hreg _ (by cl_rfl)).cast (by omega)
      · cases h2; exact g1
    exact g2.upd rfl rfl rfl rfl rfl
  · exact h

/-! ### `step` -/

/-- the object whose handler an op makes read from (or lose) its connection -/
def opObj (s : Server) : Op → Option Nat
  | .recv c _ | .recvCut c _ | .drop c | .dropHold c | .dropHoldEarly c => assocGet s.connOf c
  | _ => none

/-- schedule sanity for the in-flight counter: a handler parked in the authentication hook (`connectHold … 1`)
    has not read anything beyond its CONNECT packet, so no packet is delivered on — and no loss is noticed
    for — its connection before it is released -/
def OpSched1 (s : Server) (op : Op) : Prop := ∀ i, opObj s op = some i → NotPend1 s i

instance (s : Server) (i : Nat) : Decidable (NotPend1 s i) := by unfold NotPend1; infer_instance

instance (s : Server) (op : Op) : Decidable (OpSched1 s op) :=
  match h : opObj s op with
  | none => isTrue (fun i hi => by rw [h] at hi; cases hi)
  | some j =>
    if hj : NotPend1 s j then isTrue (fun i hi => by rw [h] at hi; cases hi; exact hj)
    else isFalse (fun g => hj (g j h))

theorem NotPend1.of_ge {s : Server} (hw : WF s) {i : Nat} (hi : s.objs.length ≤ i) : NotPend1 s i := by
  intro p hp _ he
  have := (hw.pending_valid p hp).1
  omega

/-- the PINGREQ barrier after a connection is established, for the object `i` of connection `conn` -/
theorem barrier_inv_cnt {s1 : Server} {o : List Out} (conn : Nat) (b : Bool) (w1 : WF s1) (i1 : InflInv s1)
    (hnp : ∀ i, assocGet s1.connOf conn = some i → NotPend1 s1 i) :
    InflInv (if b = true then
          match recvOn s1 conn InPk.pingreq false with
          | (s, o2) => (s, o ++ o2.filter (fun x => match x with | .wrote _ .pingresp => false | _ => true))
        else (s1, o)).1 := by
  split
  · split
    rename_i s2 o2 h2
    cases hc : assocGet s1.connOf conn with
    | none =>
      unfold recvOn at h2
      rw [hc] at h2
      cases h2
      exact i1
    | some i =>
      have := recvOn_infl s1 conn .pingreq false w1 i hc
      rw [h2] at this
      exact i1.of_infl this (hnp i hc)
  · exact i1

/-- **the in-flight invariant is kept by every op** of a well-scheduled history -/
theorem InflInv_step (s : Server) (op : Op) (hw : WF s) (hf : OpFresh s op) (hs : OpSched1 s op) (h : InflInv s) :
    InflInv (step s op).1 := by
  cases op with
  | connect conn k =>
    rw [step]
    split
    rename_i s1 o h1
    have w1 : WF s1 := by
      have := connect_wf s conn k hw hf
      rw [h1] at this; exact this
    obtain ⟨i1, hp1, hc1⟩ : InflInv s1 ∧ s1.pending = s.pending ∧ s1.connOf = s.connOf ++ [(conn, s.objs.length)] := by
      have := connect_inv_cnt s conn k hw h hf
      rw [h1] at this; exact this
    have hnp : ∀ i, assocGet s1.connOf conn = some i → NotPend1 s1 i := by
      intro i hi
      rw [hc1, assocGet_new_conn s conn hf] at hi
      cases hi
      intro p hp _ he
      rw [hp1] at hp
      have := (hw.pending_valid p hp).1
      omega
    split
    · exact barrier_inv_cnt conn _ w1 i1 hnp
    · exact i1
  | recv conn pk =>
    rw [step]
    cases hc : assocGet s.connOf conn with
    | none => unfold recvOn; rw [hc]; exact h
    | some i => exact h.of_infl (recvOn_infl s conn pk true hw i hc) (hs i hc)
  | drop conn =>
    rw [step]
    split
    · exact h
    · rename_i i hc
      have hi := conn_lt hw hc
      split
      · exact h
      · extract_lets +onlyGivenNames s1
        have g1 : Infl i 0 s s1 := ((Infl.refl i s).modOwn hw hi _ (by cl_rfl)).cast (by omega)
        split
        rename_i s2 o h2
        have := detach_infl s1 i true (g1.wf hw) (g1.lt hi)
        rw [h2] at this
        exact h.of_infl (g1.trans0 this) (hs i hc)
  | recvCut conn pk =>
    rw [step]
    split
    · exact h
    · rename_i i hc
      have hi := conn_lt hw hc
      split
      · exact h
      · extract_lets +onlyGivenNames s1
        have g1 : Infl i 0 s s1 := ((Infl.refl i s).modOwn hw hi _ (by cl_rfl)).cast (by omega)
        split
        rename_i s2 o h2
        have g2 : Infl i 0 s s2 := by
          have := recvOn_infl s1 conn pk false (g1.wf hw) i (by rw [g1.good.connOf]; exact hc)
          rw [h2] at this
          exact g1.trans0 this
        split
        rename_i s3 o2 h3
        show InflInv s3
        split at h3
        · cases h3; exact h.of_infl g2 (hs i hc)
        · have := detach_infl s2 i true (g2.wf hw) (g2.lt hi)
          rw [h3] at this
          exact h.of_infl (g2.trans0 this) (hs i hc)
  | dropHold conn =>
    rw [step]
    split
    · exact h
    · rename_i i hc
      have hi := conn_lt hw hc
      split
      · exact h
      · extract_lets +onlyGivenNames s1
        have g1 : Infl i 0 s s1 := ((Infl.refl i s).modOwn hw hi _ (by cl_rfl)).cast (by omega)
        split
        rename_i s2 o h2
        have := detachA_infl s1 i true (g1.wf hw) (g1.lt hi)
        rw [h2] at this
        exact h.of_infl ((g1.trans0 this).upd rfl rfl rfl rfl rfl) (hs i hc)
  | dropHoldEarly conn =>
    rw [step]
    split
    · exact h
    · rename_i i hc
      have hi := conn_lt hw hc
      split
      · exact h
      · have g0 : Infl i 0 s { s with parkedEarly := s.parkedEarly ++ [i] } := (Infl.refl i s).upd rfl rfl rfl rfl rfl
        exact h.of_infl ((g0.modOwn hw hi (fun c => { c with peerGone := true }) (by cl_rfl)).cast (by omega)) (hs i hc)
  | release conn =>
    rw [step]
    split
    · rename_i p hp
      have hmem : p ∈ s.pending := List.mem_of_find?_eq_some hp
      have hpc : p.conn = conn := by simpa using List.find?_some hp
      have hv := hw.pending_valid p hmem
      have w0 : WF { s with pending := s.pending.filter (·.conn != conn) } := hw.filterPending _
      have i0 : InflInv { s with pending := s.pending.filter (·.conn != conn) } := h.filterPending _
      have hnp : NotPend1 { s with pending := s.pending.filter (·.conn != conn) } p.obj := by
        intro q hq _ he
        obtain ⟨hq1, hq2⟩ := List.mem_filter.mp hq
        have a := h.pconn q hq1
        rw [he] at a
        have := h.cinj _ _ _ a (h.pconn p hmem)
        rw [this, hpc] at hq2
        simp at hq2
      split
      rename_i s1 o h1
      obtain ⟨w1, k1⟩ : WF s1 ∧ Keep { s with pending := s.pending.filter (·.conn != conn) } s1 := by
        have := connectRelease_wf _ p w0 hv.1 hv.2
        rw [h1] at this; exact this
      have i1 : InflInv s1 := by
        have := connectRelease_inv_cnt _ p w0 i0 hv.1 hv.2 hnp (h.pend p hmem)
        rw [h1] at this; exact this
      refine barrier_inv_cnt conn _ w1 i1 ?_
      intro i hi
      rw [k1.connOf] at hi
      have : assocGet s.connOf conn = some p.obj := hpc ▸ h.pconn p hmem
      have hi' : assocGet s.connOf conn = some i := hi
      rw [this] at hi'
      cases hi'
      exact hnp.keep k1.pending
    · rename_i hnone
      split
      · exact h
      · rename_i i hc
        have hi := conn_lt hw hc
        have hnp : NotPend1 s i := by
          intro q hq _ he
          have a := h.pconn q hq
          rw [he] at a
          have hqc := h.cinj _ _ _ a hc
          have := List.find?_eq_none.mp hnone q hq
          simp [hqc] at this
        split
        · have g0 : Infl i 0 s { s with parked := s.parked.filter (· != i) } := (Infl.refl i s).upd rfl rfl rfl rfl rfl
          exact h.of_infl (g0.trans0 (detachB_infl _ i (g0.wf hw) (g0.lt hi))) hnp
        · split
          · split
            rename_i s1 o h1
            have g0 : Infl i 0 s { s with parkedEarly := s.parkedEarly.filter (· != i) } :=
              (Infl.refl i s).upd rfl rfl rfl rfl rfl
            have := detach_infl { s with parkedEarly := s.parkedEarly.filter (· != i) } i true (g0.wf hw) (g0.lt hi)
            rw [h1] at this
            exact h.of_infl (g0.trans0 this) hnp
          · exact h
  | connectHold conn k stage =>
    rw [step]
    exact connectHold_inv_cnt s conn k stage hw h hf
  | tick kind t =>
    have hnp : NotPend1 s s.objs.length := NotPend1.of_ge hw (Nat.le_refl _)
    rw [step]
    split
    · exact h.of_infl (tickClients_infl s t hw _) hnp
    · split
      · exact h.of_infl (tickRetained_infl s t _) hnp
      · split
        · exact h.of_infl (tickInflight_infl s t hw _) hnp
        · split
          · exact h.of_infl (tickWills_infl s t hw _) hnp
          · exact h
  | inlinePublish topic payload retain qos =>
    rw [step]
    exact h.of_infl (receivePacket_infl s 0 _ hw h.nz) (fun p hp _ => h.pnz p hp)
  | inlineSubscribe id filter =>
    rw [step]
    split
    · exact h
    · exact h.upd rfl rfl rfl rfl rfl
  | inlineUnsubscribe id filter =>
    rw [step]
    split
    · exact h
    · exact h.upd rfl rfl rfl rfl rfl

/-- every op of the history is well scheduled in the state it is applied to -/
def OpsSched1 (s : Server) : List Op → Prop
  | [] => True
  | op :: ops => OpSched1 s op ∧ OpsSched1 (step s op).1 ops

instance instDecidableOpsSched1 (s : Server) (ops : List Op) : Decidable (OpsSched1 s ops) :=
  match ops with
  | [] => isTrue trivial
  | op :: ops =>
    match (inferInstance : Decidable (OpSched1 s op)) with
    | isFalse h => isFalse (fun g => h g.1)
    | isTrue h =>
      match instDecidableOpsSched1 (step s op).1 ops with
      | isFalse g => isFalse (fun g' => g g'.2)
      | isTrue g => isTrue ⟨h, g⟩

theorem InflInv_run_from (s : Server) (ops : List Op) (hw : WF s) (hf : OpsFresh s ops) (hs : OpsSched1 s ops)
    (h : InflInv s) : InflInv (run s ops) := by
  induction ops generalizing s with
  | nil => exact h
  | cons op ops ih =>
    show InflInv (run (step s op).1 ops)
    exact ih _ (WF_step s op hw hf.1) hf.2 hs.2 (InflInv_step s op hw hf.1 hs.1 h)

/-- **the in-flight invariant holds after every well-scheduled history** -/
theorem InflInv_run (caps : Caps) (ops : List Op) (hf : OpsFresh (init caps) ops) (hs : OpsSched1 (init caps) ops) :
    InflInv (run (init caps) ops) :=
  InflInv_run_from _ ops (WF_init caps) hf hs (InflInv_init caps)

end Mochi.Broker
