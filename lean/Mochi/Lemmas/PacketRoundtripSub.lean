import Mochi.Lemmas.PacketRoundtrip
/-!
Round trip of whole packets, part 2: the two packet types with a filter loop, UNSUBSCRIBE and SUBSCRIBE
(including the MQTT 5 subscription-options byte).
-/
namespace Mochi.Codec
open Mochi.Varint

/-! ### UNSUBSCRIBE -/

def unsubWire (fs : List Subscription) : Str := fs.flatMap fun s => encodeBytes s.filter

/-- the filter loop of `UnsubscribeDecode`, positioned at the encoded filters that end the buffer -/
theorem unsubscribeFilters_At (buf : Str) (fs : List Subscription) (hfs : ∀ s ∈ fs, wfStr s.filter) :
    ∀ (fuel off : Nat) (acc : List Subscription), fs.length ≤ fuel → At buf off (unsubWire fs) →
      unsubscribeFilters buf fuel off acc = .ok (acc.reverse ++ fs.map fun s => { filter := s.filter }) := by
  induction fs with
  | nil =>
    intro fuel off acc _ h
    have hl := h.length
    simp only [unsubWire, List.flatMap_nil, List.length_nil, Nat.add_zero] at hl
    cases fuel <;> simp [unsubscribeFilters, hl]
  | cons s fs ih =>
    intro fuel off acc hf h
    cases fuel with
    | zero => simp at hf
    | succ fuel =>
      have h0 : At buf off (encodeBytes s.filter ++ unsubWire fs) := by simpa [unsubWire] using h
      have hl := h0.length
      have hlt : off < buf.length := by rw [hl]; simp [encodeBytes_length]; omega
      have e1 := decodeString_At h0 (hfs s (by simp))
      have h1 := h0.step_bytes
      rw [unsubscribeFilters]
      simp only [hlt, if_true, e1, wrapErr]
      rw [ih (fun x hx => hfs x (by simp [hx])) fuel _ _ (by simpa using hf) h1]
      simp

def unsubscribeBody (pk : Packet) : Str :=
  encodeUint16 pk.packetID ++
    ((if pk.protocolVersion == 5 then propsEncode 10 pk.mods (2 + (unsubWire pk.filters).length) pk.properties else []) ++
     unsubWire pk.filters)

def WFUnsubscribe (pk : Packet) : Prop :=
  WFHeader pk.fixedHeader ∧ pk.packetID ≠ 0 ∧ pk.packetID < 65536 ∧ (∀ s ∈ pk.filters, wfStr s.filter) ∧
  (pk.protocolVersion = 5 →
    WFProps pk.properties ∧ propsBodyLenC 10 pk.mods (2 + (unsubWire pk.filters).length) pk.properties ≤ maxVBI)

/-- an UNSUBSCRIBE transmits topic filters only: every other field of a filter entry is dropped -/
def unsubscribeNorm (pk : Packet) : Packet :=
  { basePacket pk (unsubscribeBody pk) with
    packetID := pk.packetID,
    filters := pk.filters.map fun s => { filter := s.filter },
    properties := if pk.protocolVersion == 5 then
      normProps 10 pk.mods (2 + (unsubWire pk.filters).length) pk.properties else {} }

theorem unsubWire_length_ge (fs : List Subscription) : fs.length ≤ (unsubWire fs).length := by
  induction fs with
  | nil => simp [unsubWire]
  | cons s fs ih => simp [unsubWire, encodeBytes_length] at ih ⊢; omega

theorem C26_unsubscribe_roundtrip (pk : Packet) (ht : pk.fixedHeader.type = 10) (h : WFUnsubscribe pk) :
    RoundTrips pk (unsubscribeBody pk) (unsubscribeNorm pk) := by
  obtain ⟨hh, hid0, hid, hfs, hp⟩ := h
  refine ⟨?_, header_roundtrip _ hh, ?_⟩
  · rw [encodePacket_unsubscribe pk ht]
    have : (pk.packetID == 0) = false := by simpa using hid0
    simp [unsubscribeEncode, this, withHeader_eq, unsubscribeBody, unsubWire, ht, encodeUint16]
  · rw [decodeBody_unsubscribe pk _ ht]
    have h0 := At.zero (unsubscribeBody pk)
    have e1 := decodeUint16_At (v := pk.packetID) h0 hid
    have h1 : At (unsubscribeBody pk) (0 + 2) _ := At.step_u16 (v := pk.packetID) h0
    simp only [Nat.zero_add] at e1 h1
    have hfuel : pk.filters.length ≤ (unsubscribeBody pk).length + 1 := by
      have := unsubWire_length_ge pk.filters
      simp only [unsubscribeBody, List.length_append]; omega
    simp only [unsubscribeDecode, basePacket, e1, wrapErr, bind, Except.bind, pure, Except.pure, ht]
    by_cases hv : pk.protocolVersion = 5
    · obtain ⟨hwf, hlen⟩ := hp hv
      have hv' : (pk.protocolVersion == 5) = true := by simpa using hv
      simp only [hv', if_true] at h1 ⊢
      have e2 := decodePropsAt_AtC (name := "ErrMalformedProperties") h1 hwf hlen
      have h2 : At (unsubscribeBody pk) _ (unsubWire pk.filters) := h1.step
      have e3 := unsubscribeFilters_At _ pk.filters hfs _ _ [] hfuel h2
      simp only [e2, e3]
      simp [unsubscribeNorm, basePacket, hv', ht]
    · have hv' : (pk.protocolVersion == 5) = false := by simpa using hv
      simp only [hv', Bool.false_eq_true, if_false, List.nil_append] at h1 ⊢
      have e3 := unsubscribeFilters_At _ pk.filters hfs _ _ [] hfuel h1
      simp only [e3]
      simp [unsubscribeNorm, basePacket, hv', ht]

/-! ### SUBSCRIBE -/

/-- the subscription-options byte: QoS (0–3 on the wire), No Local, Retain As Published, Retain Handling -/
theorem subOpts_roundtrip (q rh : Nat) (nl rap : Bool) (hq : q < 4) (hrh : rh < 4) :
    let b := q % 256 ||| (if nl then 4 else 0) ||| (if rap then 8 else 0) ||| (rh * 16) % 256
    b % 4 = q ∧ decide (bit b 2 > 0) = nl ∧ decide (bit b 3 > 0) = rap ∧ (b / 16) % 4 = rh := by
  have h1 : q = 0 ∨ q = 1 ∨ q = 2 ∨ q = 3 := by omega
  have h2 : rh = 0 ∨ rh = 1 ∨ rh = 2 ∨ rh = 3 := by omega
  rcases h1 with rfl | rfl | rfl | rfl <;> rcases h2 with rfl | rfl | rfl | rfl <;> cases nl <;> cases rap <;> decide

def WFSub (s : Subscription) : Prop := wfStr s.filter ∧ s.qos ≤ 2 ∧ s.rh < 4

instance (s : Subscription) : Decidable (WFSub s) := by unfold WFSub; infer_instance

def subWire1 (ver : Nat) (s : Subscription) : Str :=
  encodeBytes s.filter ++ [if ver == 5 then subEncodeOpts s else s.qos % 256]

def subWire (ver : Nat) (fs : List Subscription) : Str := fs.flatMap (subWire1 ver)

/-- a filter entry as the decoder rebuilds it: below MQTT 5 only filter and QoS are transmitted; the
    `identifier` is the first subscription identifier of the packet's property block (0 if none) -/
def subNorm (ver ident : Nat) (s : Subscription) : Subscription :=
  if ver == 5 then { filter := s.filter, qos := s.qos, noLocal := s.noLocal, rap := s.rap, rh := s.rh, identifier := ident }
  else { filter := s.filter, qos := s.qos, identifier := ident }

theorem subscribeFilters_At (ver ident : Nat) (buf : Str) (fs : List Subscription) (hfs : ∀ s ∈ fs, WFSub s) :
    ∀ (fuel off : Nat) (acc : List Subscription), fs.length ≤ fuel → At buf off (subWire ver fs) →
      subscribeFilters ver ident buf fuel off acc = .ok (acc.reverse ++ fs.map (subNorm ver ident)) := by
  induction fs with
  | nil =>
    intro fuel off acc _ h
    have hl := h.length
    simp only [subWire, List.flatMap_nil, List.length_nil, Nat.add_zero] at hl
    cases fuel <;> simp [subscribeFilters, hl]
  | cons s fs ih =>
    intro fuel off acc hf h
    cases fuel with
    | zero => simp at hf
    | succ fuel =>
      obtain ⟨hstr, hq, hrh⟩ := hfs s (by simp)
      have h0 : At buf off (encodeBytes s.filter ++ ((if ver == 5 then subEncodeOpts s else s.qos % 256) :: subWire ver fs)) := by
        simpa [subWire, subWire1, List.append_assoc] using h
      have hl := h0.length
      have hlt : off < buf.length := by rw [hl]; simp [encodeBytes_length]; omega
      have e1 := decodeString_At h0 hstr
      have h1 := h0.step_bytes
      have e2 := decodeByte_At h1
      have h2 := h1.cons
      have ih' := ih (fun x hx => hfs x (by simp [hx])) fuel _ (subNorm ver ident s :: acc) (by simpa using hf) h2
      rw [subscribeFilters]
      simp only [hlt, if_true, e1, e2, wrapErr]
      by_cases hv : ver = 5
      · have hv' : (ver == 5) = true := by simpa using hv
        obtain ⟨o1, o2, o3, o4⟩ := subOpts_roundtrip s.qos s.rh s.noLocal s.rap (by omega) hrh
        simp only [hv', if_true, subDecodeOpts, subEncodeOpts, o1, o2, o3, o4]
        have : ¬ s.qos > 2 := by omega
        simp only [this, if_false]
        simp only [subNorm, hv', if_true] at ih'
        rw [ih']; simp [subNorm, hv']
      · have hv' : (ver == 5) = false := by simpa using hv
        have hm : s.qos % 256 = s.qos := by omega
        simp only [hv', Bool.false_eq_true, if_false, hm]
        have : ¬ s.qos > 2 := by omega
        simp only [this, if_false]
        simp only [subNorm, hv', Bool.false_eq_true, if_false] at ih'
        rw [ih']; simp [subNorm, hv']

def subscribeBody (pk : Packet) : Str :=
  encodeUint16 pk.packetID ++
    ((if pk.protocolVersion == 5 then
        propsEncode 8 pk.mods (2 + (subWire pk.protocolVersion pk.filters).length) pk.properties else []) ++
     subWire pk.protocolVersion pk.filters)

def WFSubscribe (pk : Packet) : Prop :=
  WFHeader pk.fixedHeader ∧ pk.packetID ≠ 0 ∧ pk.packetID < 65536 ∧ (∀ s ∈ pk.filters, WFSub s) ∧
  (pk.protocolVersion = 5 →
    WFProps pk.properties ∧
    propsBodyLenC 8 pk.mods (2 + (subWire pk.protocolVersion pk.filters).length) pk.properties ≤ maxVBI)

def subscribeProps (pk : Packet) : Props :=
  if pk.protocolVersion == 5 then
    normProps 8 pk.mods (2 + (subWire pk.protocolVersion pk.filters).length) pk.properties else {}

def subscribeNorm (pk : Packet) : Packet :=
  { basePacket pk (subscribeBody pk) with
    packetID := pk.packetID,
    properties := subscribeProps pk,
    filters := pk.filters.map (subNorm pk.protocolVersion ((subscribeProps pk).subscriptionIdentifier.headD 0)) }

theorem subWire_length_ge (ver : Nat) (fs : List Subscription) : fs.length ≤ (subWire ver fs).length := by
  induction fs with
  | nil => simp [subWire]
  | cons s fs ih => simp [subWire, subWire1, encodeBytes_length] at ih ⊢; omega

theorem C26_subscribe_roundtrip (pk : Packet) (ht : pk.fixedHeader.type = 8) (h : WFSubscribe pk) :
    RoundTrips pk (subscribeBody pk) (subscribeNorm pk) := by
  obtain ⟨hh, hid0, hid, hfs, hp⟩ := h
  refine ⟨?_, header_roundtrip _ hh, ?_⟩
  · rw [encodePacket_subscribe pk ht]
    have : (pk.packetID == 0) = false := by simpa using hid0
    have hw : subWire pk.protocolVersion pk.filters = pk.filters.flatMap (fun s =>
        encodeBytes s.filter ++ [if pk.protocolVersion == 5 then subEncodeOpts s else s.qos % 256]) := rfl
    simp [subscribeEncode, this, withHeader_eq, subscribeBody, hw, ht, encodeUint16]
  · rw [decodeBody_subscribe pk _ ht]
    have h0 := At.zero (subscribeBody pk)
    have e1 := decodeUint16_At (v := pk.packetID) h0 hid
    have h1 : At (subscribeBody pk) (0 + 2) _ := At.step_u16 (v := pk.packetID) h0
    simp only [Nat.zero_add] at e1 h1
    have hfuel : pk.filters.length ≤ (subscribeBody pk).length + 1 := by
      have := subWire_length_ge pk.protocolVersion pk.filters
      simp only [subscribeBody, List.length_append]; omega
    simp only [subscribeDecode, basePacket, e1, wrapErr, bind, Except.bind, pure, Except.pure, ht]
    by_cases hv : pk.protocolVersion = 5
    · obtain ⟨hwf, hlen⟩ := hp hv
      have hv' : (pk.protocolVersion == 5) = true := by simpa using hv
      simp only [hv', if_true] at h1 ⊢
      have e2 := decodePropsAt_AtC (name := "ErrMalformedProperties") h1 hwf hlen
      have h2 : At (subscribeBody pk) _ (subWire pk.protocolVersion pk.filters) := h1.step
      simp only [e2]
      have e3 := subscribeFilters_At pk.protocolVersion
        ((normProps 8 pk.mods (2 + (subWire pk.protocolVersion pk.filters).length) pk.properties).subscriptionIdentifier.headD 0)
        _ pk.filters hfs _ _ [] hfuel h2
      simp only [e3]
      simp [subscribeNorm, subscribeProps, basePacket, hv', ht]
    · have hv' : (pk.protocolVersion == 5) = false := by simpa using hv
      simp only [hv', Bool.false_eq_true, if_false, List.nil_append] at h1 ⊢
      have e3 := subscribeFilters_At pk.protocolVersion (({} : Props).subscriptionIdentifier.headD 0)
        _ pk.filters hfs _ _ [] hfuel h1
      simp only [e3]
      simp [subscribeNorm, subscribeProps, basePacket, hv', ht]

end Mochi.Codec
