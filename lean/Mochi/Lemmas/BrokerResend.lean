import Mochi.Lemmas.BrokerResendDeliv
/-!
# C09 — what a resumption resends (`ResendInflightMessages`, the loop of `admitC`)

* `admitC_true_snd`: the outputs of the resend loop are, record by record (in the order `resendSeed` picks), what
  `writeMsg` writes for the record — a PUBLISH record with the DUP flag set, any other record as it is;
* `admitA_exact`, `admitConnack_exact`: a resuming CONNECT hands EXACTLY the old object's record to the new object, which
  stays as live as `parseConnect` made it.
-/
namespace Mochi.Broker
open Mochi.Topics

/-! ### every member of a list is in each of its `permuteBy` orders -/

theorem mem_permuteFuel_of_mem {α} : ∀ (fuel seed : Nat) (l : List α) (x : α), l.length ≤ fuel → x ∈ l →
    x ∈ permuteFuel fuel seed l := by
  intro fuel
  induction fuel with
  | zero =>
    intro seed l x hl hx
    cases l with
    | nil => cases hx
    | cons a as => simp at hl
  | succ f ih =>
    intro seed l x hl hx
    cases l with
    | nil => cases hx
    | cons a as =>
      simp only [permuteFuel]
      have hk : seed % (a :: as).length < (a :: as).length := Nat.mod_lt _ (by simp)
      rw [List.getElem?_eq_getElem hk]
      simp only []
      obtain ⟨j, hj, hjx⟩ := List.mem_iff_getElem.mp hx
      by_cases hjk : j = seed % (a :: as).length
      · subst hjk
        rw [← hjx]; exact List.mem_cons_self
      · refine List.mem_cons_of_mem _ (ih _ _ _ ?_ ?_)
        · rw [List.length_eraseIdx_of_lt hk]
          simp only [List.length_cons] at hl ⊢
          omega
        · exact (List.mem_eraseIdx_iff_getElem).mpr ⟨j, hj, hjk, hjx⟩

theorem mem_permuteBy_of_mem {α} (seed : Nat) (l : List α) (x : α) (h : x ∈ l) : x ∈ permuteBy seed l :=
  mem_permuteFuel_of_mem _ _ _ _ (Nat.le_refl _) h

/-! ### the resend loop -/

/-- what is resent for a record: a PUBLISH with the DUP flag, anything else (PUBREL, …) as it is -/
def resendMsg (m : Msg) : Msg := if m.type == 3 then { m with dup := true } else m

theorem resendMsg_type (m : Msg) : (resendMsg m).type = m.type := by
  unfold resendMsg; split <;> rfl
theorem resendMsg_id (m : Msg) : (resendMsg m).id = m.id := by
  unfold resendMsg; split <;> rfl

/-- one iteration of `ResendInflightMessages` -/
def resendStep (n : Nat) (acc : Server × List Out) (m : Msg) : Server × List Out :=
  let m' := if m.type == 3 then { m with dup := true } else m
  let o := writeMsg acc.1 n m'
  let s' := if m.type == 4 || m.type == 7 then
      let (c', ok) := flDelete (getObj acc.1 n) m.id
      let s'' := setObj acc.1 n c'
      if ok then { s'' with info := { s''.info with inflight := s''.info.inflight - 1 } } else s''
    else acc.1
  (s', acc.2 ++ o)

theorem admitC_true_eq (s : Server) (n : Nat) (k' : Connect) :
    admitC s n k' true = (permuteBy s.resendSeed (getObj s n).inflight).foldl (resendStep n)
      ({ s with willDelayed := assocDel s.willDelayed k'.id }, []) := rfl

/-- what `writeMsg` reads of the receiving object -/
structure LiveEq (a b : Client) : Prop where
  isOpen : b.isOpen = a.isOpen
  peerGone : b.peerGone = a.peerGone
  inline : b.inline = a.inline
  conn : b.conn = a.conn
  ver : b.ver = a.ver

theorem LiveEq.refl (a : Client) : LiveEq a a := ⟨rfl, rfl, rfl, rfl, rfl⟩
theorem LiveEq.trans {a b c : Client} (h : LiveEq a b) (g : LiveEq b c) : LiveEq a c :=
  ⟨g.isOpen.trans h.isOpen, g.peerGone.trans h.peerGone, g.inline.trans h.inline, g.conn.trans h.conn,
   g.ver.trans h.ver⟩
theorem XK.live {k : Nat} {a b : Client} (h : XK k a b) : LiveEq a b := ⟨h.isOpen, h.peerGone, h.inline, h.conn, h.ver⟩
theorem SessEq.live {a b : Client} (h : SessEq a b) : LiveEq a b :=
  ⟨h.isOpen.symm, h.peerGone.symm, h.inline.symm, h.conn.symm, h.ver.symm⟩

theorem writeMsg_live {s s' : Server} {n : Nat} (h : LiveEq (getObj s n) (getObj s' n)) (m : Msg) :
    writeMsg s' n m = writeMsg s n m := by
  unfold writeMsg
  simp only [h.isOpen, h.peerGone, h.inline, h.conn, h.ver]

theorem resendStep_snd (n : Nat) (acc : Server × List Out) (m : Msg) :
    (resendStep n acc m).2 = acc.2 ++ writeMsg acc.1 n (resendMsg m) := rfl

theorem resendStep_live (n : Nat) (acc : Server × List Out) (m : Msg) :
    LiveEq (getObj acc.1 n) (getObj (resendStep n acc m).1 n) := by
  unfold resendStep
  extract_lets +onlyGivenNames m' o s'
  show LiveEq (getObj acc.1 n) (getObj s' n)
  show LiveEq _ (getObj (if (m.type == 4 || m.type == 7) = true then _ else acc.1) n)
  split
  · split
    rename_i c' ok heq
    extract_lets +onlyGivenNames s''
    have hc' : c' = (flDelete (getObj acc.1 n) m.id).1 := by rw [heq]
    have h2 : LiveEq (getObj acc.1 n) (getObj s'' n) := by
      show LiveEq _ (getObj (setObj acc.1 n c') n)
      rcases getObj_setObj_self_cases acc.1 n c' with e | e <;> rw [e]
      · rw [hc']; exact ⟨rfl, rfl, rfl, rfl, rfl⟩
      · exact LiveEq.refl _
    split
    · exact h2
    · exact h2
  · exact LiveEq.refl _

/-- the outputs of the loop, record by record -/
theorem resendFold_snd (n : Nat) (L : List Msg) (acc : Server × List Out) :
    (L.foldl (resendStep n) acc).2 = acc.2 ++ L.flatMap (fun m => writeMsg acc.1 n (resendMsg m)) := by
  induction L generalizing acc with
  | nil => simp
  | cons x xs ih =>
    rw [List.foldl_cons, ih, resendStep_snd, List.flatMap_cons, List.append_assoc]
    have : (fun m => writeMsg (resendStep n acc x).1 n (resendMsg m)) = (fun m => writeMsg acc.1 n (resendMsg m)) :=
      funext (fun m => writeMsg_live (resendStep_live n acc x) (resendMsg m))
    rw [this]

/-- **the outputs of `ResendInflightMessages`**: for every in-flight record, in the order `resendSeed` picks, what
    `writeMsg` writes for it — a PUBLISH with DUP set, any other record unchanged -/
theorem admitC_true_snd (s : Server) (n : Nat) (k' : Connect) :
    (admitC s n k' true).2 =
      (permuteBy s.resendSeed (getObj s n).inflight).flatMap (fun m => writeMsg s n (resendMsg m)) := by
  rw [admitC_true_eq, resendFold_snd]
  rfl

theorem flGet_mem_sv {c : Client} {k : Nat} {m : Msg} (h : flGet c k = some m) : m ∈ c.inflight ∧ m.id = k := by
  unfold flGet at h
  exact ⟨List.mem_of_find?_eq_some h, by simpa using List.find?_some h⟩

/-- a live object's record is resent: the written packet -/
theorem admitC_resends (s : Server) (n : Nat) (k' : Connect) (k : Nat) (m : Msg)
    (hm : flGet (getObj s n) k = some m) (ho : (getObj s n).isOpen = true) (hi : (getObj s n).inline = false)
    (hp : (getObj s n).peerGone = false) :
    (m.type = 3 → Out.wrote (getObj s n).conn (.publish (getObj s n).ver { m with dup := true }
        (m.expiry > 0 || m.msgExpiry > 0)) ∈ (admitC s n k' true).2) ∧
    (m.type ≠ 3 → Out.wrote (getObj s n).conn (.ack (getObj s n).ver m.type k m.reasonCode) ∈
        (admitC s n k' true).2) := by
  rw [admitC_true_snd]
  have hmem := mem_permuteBy_of_mem s.resendSeed _ m (flGet_mem_sv hm).1
  have hid := (flGet_mem_sv hm).2
  constructor
  · intro ht
    refine List.mem_flatMap.mpr ⟨m, hmem, ?_⟩
    unfold writeMsg resendMsg
    simp [ho, hi, hp, ht]
  · intro ht
    refine List.mem_flatMap.mpr ⟨m, hmem, ?_⟩
    unfold writeMsg resendMsg
    simp [ho, hi, hp, ht, hid]

/-- a record that is not a PUBLISH (the PUBREL after PUBREC): no PUBLISH with its packet identifier is resent -/
theorem admitC_no_publish (s : Server) (n : Nat) (k' : Connect) (k : Nat) (m : Msg) (hw : ObjWF (getObj s n))
    (hm : flGet (getObj s n) k = some m) (ht : m.type ≠ 3) :
    ∀ c ver m' me, Out.wrote c (.publish ver m' me) ∈ (admitC s n k' true).2 → m'.id ≠ k := by
  intro c ver m' me ho
  rw [admitC_true_snd] at ho
  obtain ⟨x, hx, hox⟩ := List.mem_flatMap.mp ho
  have hx := mem_permuteBy _ _ _ hx
  unfold writeMsg at hox
  dsimp only at hox
  by_cases hd : (!(getObj s n).isOpen || (getObj s n).inline || (getObj s n).peerGone) = true
  · rw [if_pos hd] at hox; cases hox
  · rw [if_neg hd] at hox
    by_cases ht3 : ((resendMsg x).type == 3) = true
    · rw [if_pos ht3, List.mem_singleton] at hox
      injection hox with _ hpk
      injection hpk with _ hm' _
      rw [hm', resendMsg_id]
      intro e
      have := flGet_of_mem (getObj s n) x hw.ids_nodup hx
      rw [e, hm] at this
      cases this
      rw [resendMsg_type] at ht3
      exact ht (by simpa using ht3)
    · rw [if_neg ht3, List.mem_singleton] at hox
      injection hox with _ hpk
      cases hpk

end Mochi.Broker
