import Mochi.Lemmas.BrokerResendDeliv
/-!
# C09 — what a resumption resends (`ResendInflightMessages`, the loop of `admitC`)

* `admitC_true_snd`: the outputs of the resend loop are, record by record (in the order `resendSeed` picks), what
  `writeMsg` writes for the record — a PUBLISH record with the DUP flag set, any other record as it is;
* `admitA_exact`, `admitConnack_exact`: a resuming CONNECT hands EXACTLY the old object's record to the new object, which
  stays as live as `parseConnect` made it.
-/
namespace Mochi.Broker
open Mochi.Topics

/-! ### every member of a list is in each of its `permuteBy` orders -/

theorem mem_permuteFuel_of_mem {α} : ∀ (fuel seed : Nat) (l : List α) (x : α), l.length ≤ fuel → x ∈ l →
    x ∈ permuteFuel fuel seed l := by
  intro fuel
  induction fuel with
  | zero =>
    intro seed l x hl hx
    cases l with
    | nil => cases hx
    | cons a as => simp at hl
  | succ f ih =>
    intro seed l x hl hx
    cases l with
    | nil => cases hx
    | cons a as =>
      simp only [permuteFuel]
      have hk : seed % (a :: as).length < (a :: as).length := Nat.mod_lt _ (by simp)
      rw [List.getElem?_eq_getElem hk]
      simp only []
      obtain ⟨j, hj, hjx⟩ := List.mem_iff_getElem.mp hx
      by_cases hjk : j = seed % (a :: as).length
      · subst hjk
        rw [← hjx]; exact List.mem_cons_self
      · refine List.mem_cons_of_mem _ (ih _ _ _ ?_ ?_)
        · rw [List.length_eraseIdx_of_lt hk]
          simp only [List.length_cons] at hl ⊢
          omega
        · exact (List.mem_eraseIdx_iff_getElem).mpr ⟨j, hj, hjk, hjx⟩

theorem mem_permuteBy_of_mem {α} (seed : Nat) (l : List α) (x : α) (h : x ∈ l) : x ∈ permuteBy seed l :=
  mem_permuteFuel_of_mem _ _ _ _ (Nat.le_refl _) h

/-! ### the resend loop -/

/-- what is resent for a record: a PUBLISH with the DUP flag, anything else (PUBREL, …) as it is -/
def resendMsg (m : Msg) : Msg := if m.type == 3 then { m with dup := true } else m

theorem resendMsg_type (m : Msg) : (resendMsg m).type = m.type := by
  unfold resendMsg; split <;> rfl
theorem resendMsg_id (m : Msg) : (resendMsg m).id = m.id := by
  unfold resendMsg; split <;> rfl

/-- one iteration of `ResendInflightMessages` -/
def resendStep (n : Nat) (acc : Server × List Out) (m : Msg) : Server × List Out :=
  let m' := if m.type == 3 then { m with dup := true } else m
  let o := writeMsg acc.1 n m'
  let s' := if m.type == 4 || m.type == 7 then
      let (c', ok) := flDelete (getObj acc.1 n) m.id
      let s'' := setObj acc.1 n c'
      if ok then { s'' with info := { s''.info with inflight := s''.info.inflight - 1 } } else s''
    else acc.1
  (s', acc.2 ++ o)

theorem admitC_true_eq (s : Server) (n : Nat) (k' : Connect) :
    admitC s n k' true = (permuteBy s.resendSeed (getObj s n).inflight).foldl (resendStep n)
      ({ s with willDelayed := assocDel s.willDelayed k'.id }, []) := rfl

/-- what `writeMsg` reads of the receiving object -/
structure LiveEq (a b : Client) : Prop where
  isOpen : b.isOpen = a.isOpen
  peerGone : b.peerGone = a.peerGone
  inline : b.inline = a.inline
  conn : b.conn = a.conn
  ver : b.ver = a.ver

theorem LiveEq.refl (a : Client) : LiveEq a a := ⟨rfl, rfl, rfl, rfl, rfl⟩
theorem LiveEq.trans {a b c : Client} (h : LiveEq a b) (g : LiveEq b c) : LiveEq a c :=
  ⟨g.isOpen.trans h.isOpen, g.peerGone.trans h.peerGone, g.inline.trans h.inline, g.conn.trans h.conn,
   g.ver.trans h.ver⟩
theorem XK.live {k : Nat} {a b : Client} (h : XK k a b) : LiveEq a b := ⟨h.isOpen, h.peerGone, h.inline, h.conn, h.ver⟩
theorem SessEq.live {a b : Client} (h : SessEq a b) : LiveEq a b :=
  ⟨h.isOpen.symm, h.peerGone.symm, h.inline.symm, h.conn.symm, h.ver.symm⟩

theorem writeMsg_live {s s' : Server} {n : Nat} (h : LiveEq (getObj s n) (getObj s' n)) (m : Msg) :
    writeMsg s' n m = writeMsg s n m := by
  unfold writeMsg
  simp only [h.isOpen, h.peerGone, h.inline, h.conn, h.ver]

theorem resendStep_snd (n : Nat) (acc : Server × List Out) (m : Msg) :
    (resendStep n acc m).2 = acc.2 ++ writeMsg acc.1 n (resendMsg m) := rfl

theorem resendStep_live (n : Nat) (acc : Server × List Out) (m : Msg) :
    LiveEq (getObj acc.1 n) (getObj (resendStep n acc m).1 n) := by
  unfold resendStep
  extract_lets +onlyGivenNames m' o s'
  show LiveEq (getObj acc.1 n) (getObj s' n)
  show LiveEq _ (getObj (if (m.type == 4 || m.type == 7) = true then _ else acc.1) n)
  split
  · split
    rename_i c' ok heq
    extract_lets +onlyGivenNames s''
    have hc' : c' = (flDelete (getObj acc.1 n) m.id).1 := by rw [heq]
    have h2 : LiveEq (getObj acc.1 n) (getObj s'' n) := by
      show LiveEq _ (getObj (setObj acc.1 n c') n)
      rcases getObj_setObj_self_cases acc.1 n c' with e | e <;> rw [e]
      · rw [hc']; exact ⟨rfl, rfl, rfl, rfl, rfl⟩
      · exact LiveEq.refl _
    split
    · exact h2
    · exact h2
  · exact LiveEq.refl _

/-- the outputs of the loop, record by record -/
theorem resendFold_snd (n : Nat) (L : List Msg) (acc : Server × List Out) :
    (L.foldl (resendStep n) acc).2 = acc.2 ++ L.flatMap (fun m => writeMsg acc.1 n (resendMsg m)) := by
  induction L generalizing acc with
  | nil => simp
  | cons x xs ih =>
    rw [List.foldl_cons, ih, resendStep_snd, List.flatMap_cons, List.append_assoc]
    have : (fun m => writeMsg (resendStep n acc x).1 n (resendMsg m)) = (fun m => writeMsg acc.1 n (resendMsg m)) :=
      funext (fun m => writeMsg_live (resendStep_live n acc x) (resendMsg m))
    rw [this]

/-- **the outputs of `ResendInflightMessages`**: for every in-flight record, in the order `resendSeed` picks, what
    `writeMsg` writes for it — a PUBLISH with DUP set, any other record unchanged -/
theorem admitC_true_snd (s : Server) (n : Nat) (k' : Connect) :
    (admitC s n k' true).2 =
      (permuteBy s.resendSeed (getObj s n).inflight).flatMap (fun m => writeMsg s n (resendMsg m)) := by
  rw [admitC_true_eq, resendFold_snd]
  rfl

theorem flGet_mem_sv {c : Client} {k : Nat} {m : Msg} (h : flGet c k = some m) : m ∈ c.inflight ∧ m.id = k := by
  unfold flGet at h
  exact ⟨List.mem_of_find?_eq_some h, by simpa using List.find?_some h⟩

/-- a live object's record is resent: the written packet -/
theorem admitC_resends (s : Server) (n : Nat) (k' : Connect) (k : Nat) (m : Msg)
    (hm : flGet (getObj s n) k = some m) (ho : (getObj s n).isOpen = true) (hi : (getObj s n).inline = false)
    (hp : (getObj s n).peerGone = false) :
    (m.type = 3 → Out.wrote (getObj s n).conn (.publish (getObj s n).ver { m with dup := true }
        (m.expiry > 0 || m.msgExpiry > 0)) ∈ (admitC s n k' true).2) ∧
    (m.type ≠ 3 → Out.wrote (getObj s n).conn (.ack (getObj s n).ver m.type k m.reasonCode) ∈
        (admitC s n k' true).2) := by
  rw [admitC_true_snd]
  have hmem := mem_permuteBy_of_mem s.resendSeed _ m (flGet_mem_sv hm).1
  have hid := (flGet_mem_sv hm).2
  constructor
  · intro ht
    refine List.mem_flatMap.mpr ⟨m, hmem, ?_⟩
    unfold writeMsg resendMsg
    simp [ho, hi, hp, ht]
  · intro ht
    refine List.mem_flatMap.mpr ⟨m, hmem, ?_⟩
    unfold writeMsg resendMsg
    simp [ho, hi, hp, ht, hid]

/-- a record that is not a PUBLISH (the PUBREL after PUBREC): no PUBLISH with its packet identifier is resent -/
theorem admitC_no_publish (s : Server) (n : Nat) (k' : Connect) (k : Nat) (m : Msg) (hw : ObjWF (getObj s n))
    (hm : flGet (getObj s n) k = some m) (ht : m.type ≠ 3) :
    ∀ c ver m' me, Out.wrote c (.publish ver m' me) ∈ (admitC s n k' true).2 → m'.id ≠ k := by
  intro c ver m' me ho
  rw [admitC_true_snd] at ho
  obtain ⟨x, hx, hox⟩ := List.mem_flatMap.mp ho
  have hx := mem_permuteBy _ _ _ hx
  unfold writeMsg at hox
  dsimp only at hox
  by_cases hd : (!(getObj s n).isOpen || (getObj s n).inline || (getObj s n).peerGone) = true
  · rw [if_pos hd] at hox; cases hox
  · rw [if_neg hd] at hox
    by_cases ht3 : ((resendMsg x).type == 3) = true
    · rw [if_pos ht3, List.mem_singleton] at hox
      injection hox with _ hpk
      injection hpk with _ hm' _
      rw [hm', resendMsg_id]
      intro e
      have := flGet_of_mem (getObj s n) x hw.ids_nodup hx
      rw [e, hm] at this
      cases this
      rw [resendMsg_type] at ht3
      exact ht (by simpa using ht3)
    · rw [if_neg ht3, List.mem_singleton] at hox
      injection hox with _ hpk
      cases hpk

/-! ### a resuming CONNECT hands the record over, exactly -/

theorem stopClient_inflight_x (s : Server) (e x : Nat) :
    (getObj (stopClient s e).1 x).inflight = (getObj s x).inflight := by
  unfold stopClient
  extract_lets +onlyGivenNames c
  split
  · rfl
  · show (getObj (setObj s e _) x).inflight = _
    by_cases hx : x = e
    · subst hx
      rcases getObj_setObj_self_cases s x { c with isOpen := false, stopped := true } with h | h <;> rw [h]
    · rw [getObj_setObj_ne s e x _ hx]

theorem disconnectClient_inflight_x (s : Server) (e code x : Nat) :
    (getObj (disconnectClient s e code).1 x).inflight = (getObj s x).inflight := by
  unfold disconnectClient
  extract_lets +onlyGivenNames c w
  split
  rename_i s' o heq
  have := stopClient_inflight_x s e x
  rw [heq] at this
  exact this

theorem clearInflights_getObj_ne_x (s : Server) (e x : Nat) (h : x ≠ e) :
    getObj (clearInflights s e) x = getObj s x := by
  unfold clearInflights
  exact getObj_setObj_ne s e x _ h

theorem flGet_infl_eq {a b : Client} (h : b.inflight = a.inflight) (k : Nat) : flGet b k = flGet a k := by
  unfold flGet; rw [h]

/-- `inheritClientSession` without Clean Start, the old session not an MQTT 3 clean one: session present, the new
    object `n` has exactly the old object's record under `k` and is as live as it was -/
theorem admitA_exact (k : Nat) (s : Server) (n : Nat) (k' : Connect) (e : Nat)
    (he : assocGet s.clients k'.id = some e) (hne : n ≠ e) (hn : n < s.objs.length) (hcl : k'.clean = false)
    (h3 : ((getObj s e).clean && (getObj s e).ver < 5) = false) :
    (admitA s n k').2.2.1 = true ∧
    LiveEq (getObj s n) (getObj (admitA s n k').1 n) ∧
    (∀ m, flGet (getObj s e) k = some m → flGet (getObj (admitA s n k').1 n) k = some m) := by
  unfold admitA
  extract_lets +onlyGivenNames src s0 exLive
  split
  rename_i s' o1 present heq
  show present = true ∧ LiveEq (getObj s n) (getObj s' n) ∧
    (∀ m, flGet (getObj s e) k = some m → flGet (getObj s' n) k = some m)
  split at heq
  · rename_i e' he'
    have he' : assocGet s.clients k'.id = some e' := he'
    rw [he] at he'; cases he'
    extract_lets +onlyGivenNames ex at heq
    split at heq
    rename_i s1 o hd
    have hf1 := disconnectClient_frame s0 e 0x8E
    have hi1 := disconnectClient_inflight_x s0 e 0x8E
    rw [hd] at hf1 hi1
    have hl1 : s1.objs.length = s.objs.length := hf1.len
    split at heq
    · rename_i hclean
      have : (k'.clean || (ex.clean && decide (ex.ver < 5))) = true := hclean
      have hex : ex = getObj s e := rfl
      rw [hcl, hex, h3] at this
      cases this
    · extract_lets +onlyGivenNames s2 ex2 rmx s2i src2 s3 s4 s5 s6 at heq
      have hs' := (Prod.mk.inj heq).1
      have hp' := (Prod.mk.inj (Prod.mk.inj heq).2).2
      refine ⟨hp'.symm, ?_⟩
      rw [← hs']
      have hl2 : s2.objs.length = s.objs.length := (setObj_length s1 e _).trans hl1
      have e2n : getObj s2 n = getObj s1 n := getObj_setObj_ne s1 e n _ hne
      have live2 : LiveEq (getObj s n) (getObj s2 n) := by
        rw [e2n]; exact (hf1.other n hne).live
      have ex2i : ex2.inflight = (getObj s e).inflight := by
        show (getObj (setObj s1 e _) e).inflight = _
        rcases getObj_setObj_self_cases s1 e ((fun x => { x with takenOver := true }) (getObj s1 e)) with h | h
        · rw [h]; exact hi1 e
        · rw [h]; exact hi1 e
      have inv3 : LiveEq (getObj s n) (getObj s3 n) ∧
          (ex2.inflight.length > 0 → (getObj s3 n).inflight = ex2.inflight) := by
        show LiveEq (getObj s n) (getObj (if ex2.inflight.length > 0 then _ else s2) n) ∧
          (ex2.inflight.length > 0 → (getObj (if ex2.inflight.length > 0 then _ else s2) n).inflight = ex2.inflight)
        split
        · have en : getObj s2i n = _ := getObj_setObj_eq s2 n _ (by rw [hl2]; exact hn)
          refine ⟨?_, fun _ => ?_⟩
          · show LiveEq (getObj s n) (getObj s2i n)
            rw [en]
            exact live2.trans ⟨rfl, rfl, rfl, rfl, rfl⟩
          · show (getObj s2i n).inflight = ex2.inflight
            rw [en]
        · rename_i hno
          exact ⟨live2, fun hpos => absurd hpos hno⟩
      have inv4 : LiveEq (getObj s n) (getObj s4 n) ∧
          (ex2.inflight.length > 0 → (getObj s4 n).inflight = ex2.inflight) := by
        refine foldl_inv (fun (x : Server) => LiveEq (getObj s n) (getObj x n) ∧
          (ex2.inflight.length > 0 → (getObj x n).inflight = ex2.inflight)) _ _ _ inv3 ?_
        intro b fs hb
        extract_lets +onlyGivenNames rr src3 b1
        show LiveEq (getObj s n) (getObj (setObj b1 n _) n) ∧
          (ex2.inflight.length > 0 → (getObj (setObj b1 n _) n).inflight = ex2.inflight)
        rcases getObj_setObj_self_cases b1 n ((fun x => { x with subs := assocSet x.subs fs.2.filter fs.2 })
          (getObj b1 n)) with h | h
        · rw [h]
          exact ⟨hb.1.trans ⟨rfl, rfl, rfl, rfl, rfl⟩, hb.2⟩
        · rw [h]
          exact hb
      have e6 : getObj s6 n = getObj s4 n := by
        show getObj (clearInflights s5 e) n = _
        rw [clearInflights_getObj_ne_x s5 e n hne]
        show getObj (unsubscribeClient s4 e) n = _
        rw [getObj_of_objs_eq (unsubscribeClient_objs s4 e) n, getObj_setObj_ne s4 e n _ hne]
      rw [e6]
      refine ⟨inv4.1, fun m hm => ?_⟩
      have hpos : ex2.inflight.length > 0 := by
        rw [ex2i]
        have := (flGet_mem_sv hm).1
        cases hl : (getObj s e).inflight with
        | nil => rw [hl] at this; cases this
        | cons a as => simp
      rw [flGet_infl_eq ((inv4.2 hpos).trans ex2i) k]
      exact hm
  · rename_i hnone
    have hnone : assocGet s.clients k'.id = none := hnone
    rw [he] at hnone; cases hnone

theorem admitConnack_exact (s : Server) (n conn : Nat) (present : Bool) (x : Nat) :
    LiveEq (getObj s x) (getObj (admitConnack s n conn present).1 x) ∧
    (getObj (admitConnack s n conn present).1 x).inflight = (getObj s x).inflight := by
  unfold admitConnack
  extract_lets +onlyGivenNames cl
  split
  rename_i s' seiOut heq
  show LiveEq (getObj s x) (getObj s' x) ∧ (getObj s' x).inflight = (getObj s x).inflight
  split at heq
  · cases heq
    by_cases hx : x = n
    · subst hx
      unfold modObj
      rcases getObj_setObj_self_cases s x ((fun y => { y with sei := s.caps.maxSessionExpiry, fsei := true })
        (getObj s x)) with h | h <;> rw [h]
      · exact ⟨⟨rfl, rfl, rfl, rfl, rfl⟩, rfl⟩
      · exact ⟨LiveEq.refl _, rfl⟩
    · unfold modObj
      rw [getObj_setObj_ne s n x _ hx]
      exact ⟨LiveEq.refl _, rfl⟩
  · cases heq
    exact ⟨LiveEq.refl _, rfl⟩

/-! ### the resuming CONNECT, assembled -/

/-- a CONNECT without Clean Start for a client id whose session (object `e`, not an MQTT 3 clean one) has a record `m`
    under `k`: the outputs of `attachClient` up to the read loop end with the outputs of the resend loop, run in a
    state where the new object has exactly that record and is live -/
theorem connect_resend_split (k : Nat) (s : Server) (conn : Nat) (k' : Connect) (e : Nat) (m : Msg) (hw : WF s)
    (hf : conn ∉ s.connOf.map (·.1)) (he : assocGet s.clients k'.id = some e)
    (hm : flGet (getObj s e) k = some m) (hadm : refuseCode s k' (parseConnect s conn k') = none)
    (hcl : k'.clean = false) (h3 : ((getObj s e).clean && (getObj s e).ver < 5) = false) :
    ∃ pre s3, (connect s conn k').2 = pre ++ (admitC s3 s.objs.length k' true).2 ∧
      flGet (getObj s3 s.objs.length) k = some m ∧ ObjWF (getObj s3 s.objs.length) ∧
      (getObj s3 s.objs.length).isOpen = true ∧ (getObj s3 s.objs.length).inline = false ∧
      (getObj s3 s.objs.length).peerGone = false ∧ (getObj s3 s.objs.length).conn = conn ∧
      (getObj s3 s.objs.length).ver = k'.ver := by
  unfold connect
  extract_lets +onlyGivenNames c n s0
  have w0 : WF s0 := hw.addObj c conn (parseConnect_wf s conn k') hf
  have hel : e < s.objs.length := (hw.clients_valid _ _ (assocGet_mem _ _ _ he)).1
  have e0 : getObj s0 e = getObj s e := getObj_append_lt (s := s) (s' := s0) (c := c) rfl e hel
  have en : getObj s0 n = c := getObj_append_eq (s := s) (s' := s0) (c := c) rfl
  have hn0 : n < s0.objs.length := by
    show s.objs.length < (s.objs ++ [c]).length
    simp
  have hne : n ≠ e := Nat.ne_of_gt hel
  have hnid : (getObj s0 n).id = k'.id := by rw [en]; rfl
  have hadm0 : refuseCode s0 k' c = none := by
    rw [refuseCode_congr_sv (s := s) (s' := s0) rfl rfl rfl]; exact hadm
  rw [hadm0]
  dsimp only
  obtain ⟨hpres, hlive1, hex1⟩ := admitA_exact k s0 n k' e he hne hn0 hcl (by rw [e0]; exact h3)
  have w1 := admitA_wf s0 n k' w0 hn0 hnid
  have hexl := admitA_exLive_cnt s0 n k'
  unfold admitClient
  split
  rename_i s1 o1 present exLive h1
  rw [h1] at hpres hlive1 hex1 w1 hexl
  have hpres : present = true := hpres
  split
  rename_i s2 o2 h2
  have hB := admitConnack_exact s1 n conn present n
  have w2 := admitConnack_wf s1 n conn present w1
  rw [h2] at hB w2
  split
  rename_i s3 o4 h3'
  have hX : LiveEq (getObj s2 n) (getObj s3 n) ∧ (∀ m, flGet (getObj s2 n) k = some m → flGet (getObj s3 n) k = some m) ∧
      WF s3 := by
    split at h3'
    · rename_i e'
      have hee : e' = e := by
        have := hexl e' rfl
        rw [he] at this; cases this; rfl
      subst hee
      have hx := detach_survxw k s2 e' true n hne
      have w3 := detach_wf s2 e' true w2
      rw [h3'] at hx w3
      exact ⟨hx.live, hx.keep, w3⟩
    · cases h3'
      exact ⟨LiveEq.refl _, fun _ h => h, w2⟩
  split
  rename_i s4 o3 h4
  have hlive : LiveEq c (getObj s3 n) := by
    have := (hlive1.trans hB.1).trans hX.1
    rw [en] at this; exact this
  refine ⟨o1 ++ o2 ++ o4, s3, ?_, ?_, hX.2.2.allWF n, ?_, ?_, ?_, ?_, ?_⟩
  · show o1 ++ o2 ++ o4 ++ o3 = o1 ++ o2 ++ o4 ++ (admitC s3 n k' true).2
    rw [← hpres, h4]
  · apply hX.2.1
    rw [flGet_infl_eq hB.2 k]
    apply hex1
    rw [e0]; exact hm
  · rw [hlive.isOpen]; rfl
  · rw [hlive.inline]; rfl
  · rw [hlive.peerGone]; rfl
  · rw [hlive.conn]; rfl
  · rw [hlive.ver]; rfl

/-- the outputs of `attachClient` are outputs of the `connect` op (which adds the barrier's) -/
theorem step_connect_out_sub (s : Server) (conn : Nat) (k' : Connect) (o : Out) (h : o ∈ (connect s conn k').2) :
    o ∈ (step s (.connect conn k')).2 := by
  rw [step]
  split
  rename_i s' os hcon
  rw [hcon] at h
  split
  · split
    · split
      exact List.mem_append_left _ h
    · exact h
  · exact h

end Mochi.Broker
