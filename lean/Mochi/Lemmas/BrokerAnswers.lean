import Mochi.Model.Broker
import Mochi.Lemmas.AckRes
import Mochi.Lemmas.BrokerFrame
import Mochi.Lemmas.BrokerInv
import Mochi.Lemmas.BrokerDelivery
/-!
# C07 at operation level: what `step s (.recv conn pk)` writes back to `conn`

`Answered conn r X`: the outputs of the op contain `wrote conn X`, or `closed conn`.
The op is `recvOn s conn pk true`: `receivePacket` (the handler, then the release of one deferred message or the
DISCONNECT of an MQTT 5 client for an error code), then — when the handler returned an error — `detach`, else the
harness's barrier PINGREQ.  The handler's own outputs are a PREFIX of the op's outputs (`recvOn_prefix`,
`receivePacket_handler`), and a handler error closes the connection (`recvOn_error_closes`), so each clause reduces to
one fact about one handler: "when it returns no error, its output contains (starts with) the acknowledgement".
-/
namespace Mochi.Broker.R07
open Mochi.Topics

/-- the op's outputs contain `wrote conn X`, or the connection was closed -/
def Answered (conn : Nat) (r : Server × List Out) (X : WPk) : Prop :=
  Out.wrote conn X ∈ r.2 ∨ Out.closed conn ∈ r.2

/-- an open, non-inline client object `i` registered on connection `conn`, whose peer is not gone -/
structure Live (s : Server) (conn i : Nat) : Prop where
  reg : assocGet s.connOf conn = some i
  conn : (getObj s i).conn = conn
  isOpen : (getObj s i).isOpen = true
  stopped : (getObj s i).stopped = false
  inline : (getObj s i).inline = false
  peer : (getObj s i).peerGone = false

instance (s : Server) (conn i : Nat) : Decidable (Live s conn i) :=
  decidable_of_iff (assocGet s.connOf conn = some i ∧ (getObj s i).conn = conn ∧ (getObj s i).isOpen = true ∧
      (getObj s i).stopped = false ∧ (getObj s i).inline = false ∧ (getObj s i).peerGone = false)
    ⟨fun ⟨a, b, c, d, e, f⟩ => ⟨a, b, c, d, e, f⟩, fun ⟨a, b, c, d, e, f⟩ => ⟨a, b, c, d, e, f⟩⟩

theorem Live.notDead {s : Server} {conn i : Nat} (L : Live s conn i) : dead (getObj s i) = false :=
  dead_of_live L.isOpen L.peer

/-- the handler `receivePacket` dispatches to -/
def handler (s : Server) (i : Nat) (pk : InPk) : HRes :=
  match pk with
  | .publish q d r id t p me al =>
    match publishValidate s q id t al with
    | some code => (s, [], some code)
    | none => processPublish s i q d r id t p me al
  | .subscribe id si fs => if fs.isEmpty then (s, [], some 0x82) else processSubscribe s i id si fs
  | .unsubscribe id fs => if fs.isEmpty then (s, [], some 0x82) else processUnsubscribe s i id fs
  | .puback id _ => processPuback s i id
  | .pubrec id rc => processPubrec s i id rc
  | .pubrel id rc => processPubrel s i id rc
  | .pubcomp id _ => processPubcomp s i id
  | .pingreq => if !dead (getObj s i) then (s, [.wrote (getObj s i).conn .pingresp], none) else (s, [], some 0)
  | .disconnect rc sei => processDisconnect s i rc sei

/-- `receivePacket` keeps the handler's verdict and writes the handler's outputs FIRST -/
theorem receivePacket_handler (s : Server) (i : Nat) (pk : InPk) :
    (receivePacket s i pk).2.2 = (handler s i pk).2.2 ∧
    ∃ rest, (receivePacket s i pk).2.1 = (handler s i pk).2.1 ++ rest := by
  unfold receivePacket
  extract_lets c r
  have hr : r = handler s i pk := by
    cases pk <;> rfl
  rw [← hr]
  rcases r with ⟨s', o, _ | code⟩
  · exact ⟨rfl, _, rfl⟩
  · simp only []
    split
    · exact ⟨rfl, _, rfl⟩
    · exact ⟨rfl, [], (List.append_nil _).symm⟩

/-- the op writes `receivePacket`'s outputs FIRST -/
theorem recvOn_prefix (s : Server) (conn : Nat) (pk : InPk) (b : Bool) (i : Nat)
    (hc : assocGet s.connOf conn = some i) (hopen : (getObj s i).isOpen = true) :
    ∃ rest, (recvOn s conn pk b).2 = (receivePacket s i pk).2.1 ++ rest := by
  unfold recvOn
  simp only [hc, hopen, Bool.not_true, Bool.false_eq_true, if_false]
  rcases receivePacket s i pk with ⟨s', o, _ | code⟩
  · simp only []
    split
    · exact ⟨_, rfl⟩
    · split
      · split
        · exact ⟨_, by simp only [List.append_assoc]; rfl⟩
        · exact ⟨_, rfl⟩
      · exact ⟨[], (List.append_nil _).symm⟩
  · exact ⟨_, rfl⟩

/-- the op's outputs start with the handler's outputs -/
theorem step_prefix {s : Server} {conn i : Nat} (L : Live s conn i) (pk : InPk) :
    ∃ rest, (step s (.recv conn pk)).2 = (handler s i pk).2.1 ++ rest := by
  obtain ⟨r1, h1⟩ := recvOn_prefix s conn pk true i L.reg L.isOpen
  obtain ⟨r2, h2⟩ := (receivePacket_handler s i pk).2
  refine ⟨r2 ++ r1, ?_⟩
  show (recvOn s conn pk true).2 = _
  rw [h1, h2, List.append_assoc]

/-- a handler error closes the connection -/
theorem step_error_closes {s : Server} {conn i : Nat} (L : Live s conn i) (pk : InPk) (code : Nat)
    (h : (handler s i pk).2.2 = some code) : Out.closed conn ∈ (step s (.recv conn pk)).2 :=
  recvOn_error_closes s conn pk true i code L.reg L.conn L.inline L.isOpen L.stopped
    ((receivePacket_handler s i pk).1.trans h)

/-- **the reduction.**  If the handler, whenever it returns no error, writes `X` to `conn`, the op answers `X`
    or closes. -/
theorem answered_of_handler {s : Server} {conn i : Nat} (L : Live s conn i) (pk : InPk) (X : WPk)
    (h : (handler s i pk).2.2 = none → Out.wrote conn X ∈ (handler s i pk).2.1) :
    Answered conn (step s (.recv conn pk)) X := by
  cases he : (handler s i pk).2.2 with
  | some code => exact Or.inr (step_error_closes L pk code he)
  | none =>
    obtain ⟨rest, hr⟩ := step_prefix L pk
    exact Or.inl (by rw [hr]; exact List.mem_append_left _ (h he))

/-- a live client is written its acknowledgement -/
theorem writeAck_live {s : Server} {conn i : Nat} (L : Live s conn i) (t id rc : Nat) (ht : t ≠ 3) :
    writeAck s i t id rc = [.wrote conn (.ack (getObj s i).ver t id rc)] := by
  unfold writeAck writeMsg
  have : (t == 3) = false := by simpa using ht
  simp [L.isOpen, L.inline, L.peer, this, L.conn]

theorem ackRes_live' {s : Server} {conn i : Nat} (L : Live s conn i) (t id rc : Nat) (ht : t ≠ 3) :
    ackRes s i t id rc = (s, [.wrote conn (.ack (getObj s i).ver t id rc)], none) := by
  rw [ackRes_live s i t id rc L.notDead, writeAck_live L t id rc ht]

/-! ### PINGREQ -/

theorem handler_pingreq {s : Server} {conn i : Nat} (L : Live s conn i) :
    handler s i .pingreq = (s, [.wrote conn .pingresp], none) := by
  show (if !dead (getObj s i) then _ else _) = _
  rw [L.notDead, L.conn]
  rfl

/-! ### PUBREL / PUBREC -/

/-- `Live` only looks at the connection table and five fields of the object -/
theorem Live.set {s : Server} {conn i : Nat} (L : Live s conn i) (c : Client) (hconn : c.conn = (getObj s i).conn)
    (ho : c.isOpen = (getObj s i).isOpen) (hs : c.stopped = (getObj s i).stopped)
    (hin : c.inline = (getObj s i).inline) (hp : c.peerGone = (getObj s i).peerGone) :
    Live (setObj s i c) conn i := by
  rcases getObj_setObj_self_cases s i c with e | e
  · exact ⟨L.reg, by rw [e, hconn]; exact L.conn, by rw [e, ho]; exact L.isOpen, by rw [e, hs]; exact L.stopped,
      by rw [e, hin]; exact L.inline, by rw [e, hp]; exact L.peer⟩
  · exact ⟨L.reg, by rw [e]; exact L.conn, by rw [e]; exact L.isOpen, by rw [e]; exact L.stopped,
      by rw [e]; exact L.inline, by rw [e]; exact L.peer⟩

theorem getObj_setObj_ver (s : Server) (i : Nat) (c : Client) (h : c.ver = (getObj s i).ver) :
    (getObj (setObj s i c) i).ver = (getObj s i).ver := by
  rcases getObj_setObj_self_cases s i c with e | e <;> rw [e]
  exact h

theorem flSet_fields (c : Client) (m : Msg) :
    (flSet c m).1.conn = c.conn ∧ (flSet c m).1.isOpen = c.isOpen ∧ (flSet c m).1.stopped = c.stopped ∧
    (flSet c m).1.inline = c.inline ∧ (flSet c m).1.peerGone = c.peerGone ∧ (flSet c m).1.ver = c.ver := by
  unfold flSet
  split <;> exact ⟨rfl, rfl, rfl, rfl, rfl, rfl⟩

theorem decRecv_fields (c : Client) :
    (decRecv c).conn = c.conn ∧ (decRecv c).isOpen = c.isOpen ∧ (decRecv c).stopped = c.stopped ∧
    (decRecv c).inline = c.inline ∧ (decRecv c).peerGone = c.peerGone ∧ (decRecv c).ver = c.ver := by
  unfold decRecv
  split <;> exact ⟨rfl, rfl, rfl, rfl, rfl, rfl⟩

theorem incRecv_fields (c : Client) :
    (incRecv c).conn = c.conn ∧ (incRecv c).isOpen = c.isOpen ∧ (incRecv c).stopped = c.stopped ∧
    (incRecv c).inline = c.inline ∧ (incRecv c).peerGone = c.peerGone ∧ (incRecv c).ver = c.ver := by
  unfold incRecv
  split <;> exact ⟨rfl, rfl, rfl, rfl, rfl, rfl⟩

/-- what `processPubrel` writes for a live client: PUBCOMP with the request's identifier — reason 0x92 when no record
    exists under the identifier, reason 0 when one exists and the PUBREL carries a valid success code — and NOTHING
    when a record exists and the PUBREL carries a failure (or undefined) reason code -/
theorem processPubrel_out {s : Server} {conn i : Nat} (L : Live s conn i) (id rc : Nat) :
    (processPubrel s i id rc).2.2 = none ∧
    (processPubrel s i id rc).2.1 =
      if (flGet (getObj s i) id).isNone then [.wrote conn (.ack (getObj s i).ver 7 id 0x92)]
      else if rc ≥ 0x80 || !reasonValid 6 rc then []
      else [.wrote conn (.ack (getObj s i).ver 7 id 0)] := by
  unfold processPubrel
  extract_lets +onlyGivenNames c
  by_cases h1 : (flGet c id).isNone = true
  · rw [if_pos h1, if_pos h1, ackRes_live' L 7 id 0x92 (by decide)]
    exact ⟨rfl, rfl⟩
  · rw [if_neg h1, if_neg h1]
    by_cases h2 : (decide (rc ≥ 0x80) || !reasonValid 6 rc) = true
    · rw [if_pos h2, if_pos h2]
      exact ⟨rfl, rfl⟩
    · rw [if_neg h2, if_neg h2]
      extract_lets +onlyGivenNames ack c1 s1
      have f := flSet_fields c ack
      have L1 : Live s1 conn i := L.set c1 f.1 f.2.1 f.2.2.1 f.2.2.2.1 f.2.2.2.2.1
      have hv : (getObj s1 i).ver = (getObj s i).ver := getObj_setObj_ver s i c1 f.2.2.2.2.2
      have hd : dead c1 = false := by
        apply dead_of_live
        · rw [f.2.1]; exact L.isOpen
        · rw [f.2.2.2.2.1]; exact L.peer
      rw [if_neg (by rw [hd]; decide)]
      have hw : writeMsg s1 i ack = [.wrote conn (.ack (getObj s i).ver 7 id 0)] := by
        have := writeAck_live L1 7 id 0 (by decide)
        rw [hv] at this
        rw [← this]
        unfold writeAck writeMsg
        rfl
      exact ⟨rfl, hw⟩

/-- what `processPubrec` writes for a live client: PUBREL with the request's identifier — reason 0x92 when no record
    exists under the identifier, reason 0 when one exists and the PUBREC carries a valid success code — and NOTHING
    when a record exists and the PUBREC carries a failure (or undefined) reason code (the exchange ends) -/
theorem processPubrec_out {s : Server} {conn i : Nat} (L : Live s conn i) (id rc : Nat) :
    (processPubrec s i id rc).2.2 = none ∧
    (processPubrec s i id rc).2.1 =
      if (flGet (getObj s i) id).isNone then [.wrote conn (.ack (getObj s i).ver 6 id 0x92)]
      else if rc ≥ 0x80 || !reasonValid 5 rc then []
      else [.wrote conn (.ack (getObj s i).ver 6 id 0)] := by
  unfold processPubrec
  extract_lets +onlyGivenNames c
  by_cases h1 : (flGet c id).isNone = true
  · rw [if_pos h1, if_pos h1, ackRes_live' L 6 id 0x92 (by decide)]
    exact ⟨rfl, rfl⟩
  · rw [if_neg h1, if_neg h1]
    by_cases h2 : (decide (rc ≥ 0x80) || !reasonValid 5 rc) = true
    · rw [if_pos h2, if_pos h2]
      exact ⟨rfl, rfl⟩
    · rw [if_neg h2, if_neg h2]
      extract_lets +onlyGivenNames ack c1 s1
      have f := flSet_fields (decRecv c) ack
      have g := decRecv_fields c
      have L1 : Live s1 conn i := L.set c1 (f.1.trans g.1) (f.2.1.trans g.2.1) (f.2.2.1.trans g.2.2.1)
        (f.2.2.2.1.trans g.2.2.2.1) (f.2.2.2.2.1.trans g.2.2.2.2.1)
      have hv : (getObj s1 i).ver = (getObj s i).ver :=
        getObj_setObj_ver s i c1 (f.2.2.2.2.2.trans g.2.2.2.2.2)
      have hd : dead c1 = false := by
        apply dead_of_live
        · rw [f.2.1, g.2.1]; exact L.isOpen
        · rw [f.2.2.2.2.1, g.2.2.2.2.1]; exact L.peer
      rw [if_neg (by rw [hd]; decide)]
      have hw : writeMsg s1 i ack = [.wrote conn (.ack (getObj s i).ver 6 id 0)] := by
        have := writeAck_live L1 6 id 0 (by decide)
        rw [hv] at this
        rw [← this]
        unfold writeAck writeMsg
        rfl
      exact ⟨rfl, hw⟩

/-! ### SUBSCRIBE / UNSUBSCRIBE: the per-filter folds -/

/-- a fold that appends ONE element per step to a projected list, under an invariant -/
theorem foldl_inv_len {α β γ} (P : β → Prop) (proj : β → List γ) (f : β → α → β) (l : List α) (b : β)
    (h0 : P b) (hs : ∀ b a, P b → P (f b a) ∧ (proj (f b a)).length = (proj b).length + 1) :
    P (l.foldl f b) ∧ (proj (l.foldl f b)).length = (proj b).length + l.length := by
  induction l generalizing b with
  | nil => exact ⟨h0, rfl⟩
  | cons x xs ih =>
    obtain ⟨h1, h2⟩ := hs b x h0
    obtain ⟨h3, h4⟩ := ih (f b x) h1
    refine ⟨h3, ?_⟩
    rw [List.foldl_cons, h4, h2, List.length_cons]
    omega

/-- a fold that appends ONE code per element, the code being a function of the element alone as long as the
    invariant `P` holds: the codes are `l.map g`, in order -/
theorem foldl_track {α β γ} (P : β → Prop) (proj : β → List γ) (g : α → γ) (f : β → α → β) (l : List α) (b : β)
    (h0 : P b) (hs : ∀ b a, P b → P (f b a) ∧ proj (f b a) = proj b ++ [g a]) :
    P (l.foldl f b) ∧ proj (l.foldl f b) = proj b ++ l.map g := by
  induction l generalizing b with
  | nil => exact ⟨h0, by simp⟩
  | cons x xs ih =>
    obtain ⟨h1, h2⟩ := hs b x h0
    obtain ⟨h3, h4⟩ := ih (f b x) h1
    refine ⟨h3, ?_⟩
    rw [List.foldl_cons, h4, h2, List.map_cons, List.append_assoc]
    rfl

/-- what the per-filter work of SUBSCRIBE / UNSUBSCRIBE keeps: the fields of object `i` a write looks at, the
    capabilities and the ACL -/
structure Keep (i : Nat) (s s' : Server) : Prop where
  conn : (getObj s' i).conn = (getObj s i).conn
  ver : (getObj s' i).ver = (getObj s i).ver
  isOpen : (getObj s' i).isOpen = (getObj s i).isOpen
  stopped : (getObj s' i).stopped = (getObj s i).stopped
  inline : (getObj s' i).inline = (getObj s i).inline
  peer : (getObj s' i).peerGone = (getObj s i).peerGone
  caps : s'.caps = s.caps
  acl : s'.aclDeny = s.aclDeny
  connOf : s'.connOf = s.connOf
  hook : s'.pubHook = s.pubHook

theorem Keep.refl (i : Nat) (s : Server) : Keep i s s := ⟨rfl, rfl, rfl, rfl, rfl, rfl, rfl, rfl, rfl, rfl⟩

/-- server fields other than `objs`, `caps`, `aclDeny` change -/
theorem Keep.upd {i : Nat} {s0 s s' : Server} (h : Keep i s0 s) (ho : s'.objs = s.objs) (hc : s'.caps = s.caps)
    (ha : s'.aclDeny = s.aclDeny) (hn : s'.connOf = s.connOf) (hh : s'.pubHook = s.pubHook) : Keep i s0 s' := by
  have e := getObj_of_objs_eq ho i
  exact ⟨by rw [e]; exact h.conn, by rw [e]; exact h.ver, by rw [e]; exact h.isOpen, by rw [e]; exact h.stopped,
    by rw [e]; exact h.inline, by rw [e]; exact h.peer, hc.trans h.caps, ha.trans h.acl, hn.trans h.connOf,
    hh.trans h.hook⟩

/-- the acting object is rewritten by a function that keeps the six fields -/
theorem Keep.mod {i : Nat} {s0 s : Server} (h : Keep i s0 s) (f : Client → Client)
    (hf : ∀ c, (f c).conn = c.conn ∧ (f c).ver = c.ver ∧ (f c).isOpen = c.isOpen ∧ (f c).stopped = c.stopped ∧
      (f c).inline = c.inline ∧ (f c).peerGone = c.peerGone) : Keep i s0 (modObj s i f) := by
  obtain ⟨f1, f2, f3, f4, f5, f6⟩ := hf (getObj s i)
  unfold modObj
  rcases getObj_setObj_self_cases s i (f (getObj s i)) with e | e
  · exact ⟨by rw [e, f1]; exact h.conn, by rw [e, f2]; exact h.ver, by rw [e, f3]; exact h.isOpen,
      by rw [e, f4]; exact h.stopped, by rw [e, f5]; exact h.inline, by rw [e, f6]; exact h.peer, h.caps, h.acl,
      h.connOf, h.hook⟩
  · exact ⟨by rw [e]; exact h.conn, by rw [e]; exact h.ver, by rw [e]; exact h.isOpen,
      by rw [e]; exact h.stopped, by rw [e]; exact h.inline, by rw [e]; exact h.peer, h.caps, h.acl, h.connOf, h.hook⟩

theorem Keep.live {i conn : Nat} {s s' : Server} (h : Keep i s s') (L : Live s conn i) :
    Live s' conn i :=
  ⟨by rw [h.connOf]; exact L.reg, h.conn.trans L.conn, h.isOpen.trans L.isOpen, h.stopped.trans L.stopped,
   h.inline.trans L.inline, h.peer.trans L.peer⟩

/-- the UNSUBACK reason code of one filter, given the index state `x` the filter is removed from: 0x91 when the packet
    identifier is in use, else 0x00 (a subscription existed) or 0x11 (none existed) -/
def unsubCode (inUse : Bool) (existed : Bool) : Nat := if inUse then 0x91 else if existed then 0x00 else 0x11

/-- **UNSUBSCRIBE at handler level**: no error; exactly one output, the UNSUBACK to `conn` with the request's
    identifier and exactly one reason code per filter, each of them 0x91 when the identifier is in use and 0x00 / 0x11
    otherwise -/
theorem processUnsubscribe_out {s : Server} {conn i : Nat} (L : Live s conn i) (id : Nat) (fs : List Str) :
    ∃ rcs, processUnsubscribe s i id fs =
        ((processUnsubscribe s i id fs).1, [.wrote conn (.unsuback (getObj s i).ver id rcs)], none) ∧
      rcs.length = fs.length ∧
      (∀ rc ∈ rcs, if (flGet (getObj s i) id).isSome then rc = 0x91 else (rc = 0x00 ∨ rc = 0x11)) := by
  unfold processUnsubscribe
  extract_lets +onlyGivenNames c inUse r
  have hr0 : (Keep i s r.1 ∧ (∀ rc ∈ r.2, if inUse = true then rc = 0x91 else (rc = 0x00 ∨ rc = 0x11))) ∧
      r.2.length = ([] : List Nat).length + fs.length := by
    refine foldl_inv_len (fun (acc : Server × List Nat) => Keep i s acc.1 ∧
        (∀ rc ∈ acc.2, if inUse = true then rc = 0x91 else (rc = 0x00 ∨ rc = 0x11))) (fun acc => acc.2) _ fs (s, [])
      ⟨Keep.refl i s, fun _ h => by cases h⟩ ?_
    intro acc f h
    split
    rename_i s' rcs
    by_cases hu : inUse = true
    · rw [if_pos hu]
      refine ⟨⟨h.1, ?_⟩, by simp⟩
      intro rc hrc
      rcases List.mem_append.mp hrc with hrc | hrc
      · exact h.2 rc hrc
      · rw [if_pos hu]; simpa using hrc
    · rw [if_neg hu]
      extract_lets +onlyGivenNames rr src s1 s2
      refine ⟨⟨?_, ?_⟩, by simp⟩
      · show Keep i s s2
        refine (h.1.upd (s' := s1) rfl rfl rfl rfl rfl).mod _ ?_
        intro c
        exact ⟨rfl, rfl, rfl, rfl, rfl, rfl⟩
      · intro rc hrc
        rcases List.mem_append.mp hrc with hrc | hrc
        · exact h.2 rc hrc
        · rw [if_neg hu]
          rw [List.mem_singleton] at hrc
          rw [hrc]
          by_cases hx : rr.2 = true
          · rw [if_pos hx]; exact Or.inl rfl
          · rw [if_neg hx]; exact Or.inr rfl
  have hr : Keep i s r.1 ∧ r.2.length = fs.length ∧
      (∀ rc ∈ r.2, if inUse = true then rc = 0x91 else (rc = 0x00 ∨ rc = 0x11)) :=
    ⟨hr0.1.1, by simpa using hr0.2, hr0.1.2⟩
  clear hr0
  generalize r = r' at hr
  obtain ⟨s', rcs⟩ := r'
  obtain ⟨hk, hlen, hcodes⟩ := hr
  refine ⟨rcs, ?_, hlen, hcodes⟩
  simp only []
  have hd : dead (getObj s' i) = false := dead_of_live (hk.isOpen.trans L.isOpen) (hk.peer.trans L.peer)
  rw [if_neg (by rw [hd]; decide), hk.conn, hk.ver, L.conn]

/-- the MQTT 3 downgrade of a SUBACK code: every failure code becomes 0x80 -/
def finCode (ver rc : Nat) : Nat := if rc > 2 && ver < 5 then 0x80 else rc

/-- the SUBACK reason code of one filter — a function of the state BEFORE the packet, the packet identifier and the
    filter alone (the per-filter work changes neither the ACL nor the capabilities nor the client's in-flight
    records) -/
def subCode (s : Server) (i id : Nat) (sub : Sub) : Nat :=
  if (flGet (getObj s i) id).isSome then finCode (getObj s i).ver 0x91
  else if !isValidFilter sub.filter false then finCode (getObj s i).ver 0x8F
  else if sub.noLocal && isSharedFilter sub.filter then finCode (getObj s i).ver 0x82
  else if !aclOk s (getObj s i).id sub.filter false then
    finCode (getObj s i).ver (if s.caps.obscureNotAuthorized then 0x80 else 0x87)
  else finCode (getObj s i).ver (grantedQos s.caps sub.qos)

theorem aclOk_congr {s s' : Server} (h : s'.aclDeny = s.aclDeny) (cid topic : Str) (w : Bool) :
    aclOk s' cid topic w = aclOk s cid topic w := by
  unfold aclOk
  rw [h]

/-- **SUBSCRIBE at handler level**: no error; the FIRST output is the SUBACK to `conn` with the request's identifier
    and the reason codes `fs.map (subCode s i id)` (exactly one per filter, in order); the retained replay follows -/
theorem processSubscribe_out {s : Server} {conn i : Nat} (L : Live s conn i) (id subId : Nat) (fs : List Sub) :
    (processSubscribe s i id subId fs).2.2 = none ∧
    ∃ replay, (processSubscribe s i id subId fs).2.1 =
      .wrote conn (.suback (getObj s i).ver id (fs.map (subCode s i id))) :: replay := by
  unfold processSubscribe
  extract_lets +onlyGivenNames c inUse fin r
  have hr : Keep i s r.1 ∧ r.2.1 = ([] : List Nat) ++ fs.map (subCode s i id) := by
    refine foldl_track (fun (acc : Server × List Nat × List Bool) => Keep i s acc.1) (fun acc => acc.2.1)
      (subCode s i id) _ fs (s, [], []) (Keep.refl i s) ?_
    intro acc sub h
    split
    rename_i s' rcs exs
    extract_lets +onlyGivenNames sub'
    split
    · rename_i hu
      have hu' : (flGet (getObj s i) id).isSome = true := hu
      refine ⟨h, ?_⟩
      show rcs ++ [fin 0x91] = rcs ++ [subCode s i id sub]
      unfold subCode
      rw [if_pos hu']
      rfl
    · rename_i hu
      have hu' : ¬ (flGet (getObj s i) id).isSome = true := hu
      split
      · rename_i hv
        have hv' : (!isValidFilter sub.filter false) = true := hv
        refine ⟨h, ?_⟩
        show rcs ++ [fin 0x8F] = rcs ++ [subCode s i id sub]
        unfold subCode
        rw [if_neg hu', if_pos hv']
        rfl
      · rename_i hv
        have hv' : ¬ (!isValidFilter sub.filter false) = true := hv
        split
        · rename_i hn
          have hn' : (sub.noLocal && isSharedFilter sub.filter) = true := hn
          refine ⟨h, ?_⟩
          show rcs ++ [fin 0x82] = rcs ++ [subCode s i id sub]
          unfold subCode
          rw [if_neg hu', if_neg hv', if_pos hn']
          rfl
        · rename_i hn
          have hn' : ¬ (sub.noLocal && isSharedFilter sub.filter) = true := hn
          have hacl : aclOk s' (getObj s i).id sub.filter false = aclOk s (getObj s i).id sub.filter false :=
            aclOk_congr h.acl _ _ _
          split
          · rename_i ha
            have ha' : (!aclOk s (getObj s i).id sub.filter false) = true := by rw [← hacl]; exact ha
            refine ⟨h, ?_⟩
            show rcs ++ [fin (if s'.caps.obscureNotAuthorized = true then 0x80 else 0x87)] =
              rcs ++ [subCode s i id sub]
            unfold subCode
            rw [if_neg hu', if_neg hv', if_neg hn', if_pos ha', h.caps]
            rfl
          · rename_i ha
            have ha' : ¬ (!aclOk s (getObj s i).id sub.filter false) = true := by rw [← hacl]; exact ha
            extract_lets +onlyGivenNames rr src s1 s2
            refine ⟨?_, ?_⟩
            · show Keep i s s2
              refine (h.upd (s' := s1) rfl rfl rfl rfl rfl).mod _ ?_
              intro c
              exact ⟨rfl, rfl, rfl, rfl, rfl, rfl⟩
            · show rcs ++ [fin (grantedQos s'.caps sub.qos)] = rcs ++ [subCode s i id sub]
              unfold subCode
              rw [if_neg hu', if_neg hv', if_neg hn', if_neg ha', h.caps]
              rfl
  generalize r = r' at hr
  obtain ⟨s', rcs, exs⟩ := r'
  obtain ⟨hk, hrcs⟩ := hr
  rw [List.nil_append] at hrcs
  simp only [] at hrcs hk ⊢
  subst hrcs
  have hd : dead (getObj s' i) = false := dead_of_live (hk.isOpen.trans L.isOpen) (hk.peer.trans L.peer)
  rw [if_neg (by rw [hd]; decide), hk.conn, hk.ver, L.conn]
  exact ⟨rfl, _, rfl⟩

end Mochi.Broker.R07
