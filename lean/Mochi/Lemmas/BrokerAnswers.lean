import Mochi.Model.Broker
import Mochi.Lemmas.AckRes
import Mochi.Lemmas.BrokerFrame
import Mochi.Lemmas.BrokerInv
import Mochi.Lemmas.BrokerDelivery
/-!
# C07 at operation level: what `step s (.recv conn pk)` writes back to `conn`

`Answered conn r X`: the outputs of the op contain `wrote conn X`, or `closed conn`.
The op is `recvOn s conn pk true`: `receivePacket` (the handler, then the release of one deferred message or the
DISCONNECT of an MQTT 5 client for an error code), then — when the handler returned an error — `detach`, else the
harness's barrier PINGREQ.  The handler's own outputs are a PREFIX of the op's outputs (`recvOn_prefix`,
`receivePacket_handler`), and a handler error closes the connection (`recvOn_error_closes`), so each clause reduces to
one fact about one handler: "when it returns no error, its output contains (starts with) the acknowledgement".
-/
namespace Mochi.Broker.R07
open Mochi.Topics

/-- the op's outputs contain `wrote conn X`, or the connection was closed -/
def Answered (conn : Nat) (r : Server × List Out) (X : WPk) : Prop :=
  Out.wrote conn X ∈ r.2 ∨ Out.closed conn ∈ r.2

/-- an open, non-inline client object `i` registered on connection `conn`, whose peer is not gone -/
structure Live (s : Server) (conn i : Nat) : Prop where
  reg : assocGet s.connOf conn = some i
  conn : (getObj s i).conn = conn
  isOpen : (getObj s i).isOpen = true
  stopped : (getObj s i).stopped = false
  inline : (getObj s i).inline = false
  peer : (getObj s i).peerGone = false

instance (s : Server) (conn i : Nat) : Decidable (Live s conn i) :=
  decidable_of_iff (assocGet s.connOf conn = some i ∧ (getObj s i).conn = conn ∧ (getObj s i).isOpen = true ∧
      (getObj s i).stopped = false ∧ (getObj s i).inline = false ∧ (getObj s i).peerGone = false)
    ⟨fun ⟨a, b, c, d, e, f⟩ => ⟨a, b, c, d, e, f⟩, fun ⟨a, b, c, d, e, f⟩ => ⟨a, b, c, d, e, f⟩⟩

theorem Live.notDead {s : Server} {conn i : Nat} (L : Live s conn i) : dead (getObj s i) = false :=
  dead_of_live L.isOpen L.peer

/-- the handler `receivePacket` dispatches to -/
def handler (s : Server) (i : Nat) (pk : InPk) : HRes :=
  match pk with
  | .publish q d r id t p me al =>
    match publishValidate s q id t al with
    | some code => (s, [], some code)
    | none => processPublish s i q d r id t p me al
  | .subscribe id si fs => if fs.isEmpty then (s, [], some 0x82) else processSubscribe s i id si fs
  | .unsubscribe id fs => if fs.isEmpty then (s, [], some 0x82) else processUnsubscribe s i id fs
  | .puback id _ => processPuback s i id
  | .pubrec id rc => processPubrec s i id rc
  | .pubrel id rc => processPubrel s i id rc
  | .pubcomp id _ => processPubcomp s i id
  | .pingreq => if !dead (getObj s i) then (s, [.wrote (getObj s i).conn .pingresp], none) else (s, [], some 0)
  | .disconnect rc sei => processDisconnect s i rc sei

/-- `receivePacket` keeps the handler's verdict and writes the handler's outputs FIRST -/
theorem receivePacket_handler (s : Server) (i : Nat) (pk : InPk) :
    (receivePacket s i pk).2.2 = (handler s i pk).2.2 ∧
    ∃ rest, (receivePacket s i pk).2.1 = (handler s i pk).2.1 ++ rest := by
  unfold receivePacket
  extract_lets c r
  have hr : r = handler s i pk := by
    cases pk <;> rfl
  rw [← hr]
  rcases r with ⟨s', o, _ | code⟩
  · exact ⟨rfl, _, rfl⟩
  · simp only []
    split
    · exact ⟨rfl, _, rfl⟩
    · exact ⟨rfl, [], (List.append_nil _).symm⟩

/-- the op writes `receivePacket`'s outputs FIRST -/
theorem recvOn_prefix (s : Server) (conn : Nat) (pk : InPk) (b : Bool) (i : Nat)
    (hc : assocGet s.connOf conn = some i) (hopen : (getObj s i).isOpen = true) :
    ∃ rest, (recvOn s conn pk b).2 = (receivePacket s i pk).2.1 ++ rest := by
  unfold recvOn
  simp only [hc, hopen, Bool.not_true, Bool.false_eq_true, if_false]
  rcases receivePacket s i pk with ⟨s', o, _ | code⟩
  · simp only []
    split
    · exact ⟨_, rfl⟩
    · split
      · split
        · exact ⟨_, by simp only [List.append_assoc]; rfl⟩
        · exact ⟨_, rfl⟩
      · exact ⟨[], (List.append_nil _).symm⟩
  · exact ⟨_, rfl⟩

/-- the op's outputs start with the handler's outputs -/
theorem step_prefix {s : Server} {conn i : Nat} (L : Live s conn i) (pk : InPk) :
    ∃ rest, (step s (.recv conn pk)).2 = (handler s i pk).2.1 ++ rest := by
  obtain ⟨r1, h1⟩ := recvOn_prefix s conn pk true i L.reg L.isOpen
  obtain ⟨r2, h2⟩ := (receivePacket_handler s i pk).2
  refine ⟨r2 ++ r1, ?_⟩
  show (recvOn s conn pk true).2 = _
  rw [h1, h2, List.append_assoc]

/-- a handler error closes the connection -/
theorem step_error_closes {s : Server} {conn i : Nat} (L : Live s conn i) (pk : InPk) (code : Nat)
    (h : (handler s i pk).2.2 = some code) : Out.closed conn ∈ (step s (.recv conn pk)).2 :=
  recvOn_error_closes s conn pk true i code L.reg L.conn L.inline L.isOpen L.stopped
    ((receivePacket_handler s i pk).1.trans h)

/-- **the reduction.**  If the handler, whenever it returns no error, writes `X` to `conn`, the op answers `X`
    or closes. -/
theorem answered_of_handler {s : Server} {conn i : Nat} (L : Live s conn i) (pk : InPk) (X : WPk)
    (h : (handler s i pk).2.2 = none → Out.wrote conn X ∈ (handler s i pk).2.1) :
    Answered conn (step s (.recv conn pk)) X := by
  cases he : (handler s i pk).2.2 with
  | some code => exact Or.inr (step_error_closes L pk code he)
  | none =>
    obtain ⟨rest, hr⟩ := step_prefix L pk
    exact Or.inl (by rw [hr]; exact List.mem_append_left _ (h he))

/-- a live client is written its acknowledgement -/
theorem writeAck_live {s : Server} {conn i : Nat} (L : Live s conn i) (t id rc : Nat) (ht : t ≠ 3) :
    writeAck s i t id rc = [.wrote conn (.ack (getObj s i).ver t id rc)] := by
  unfold writeAck writeMsg
  have : (t == 3) = false := by simpa using ht
  simp [L.isOpen, L.inline, L.peer, this, L.conn]

theorem ackRes_live' {s : Server} {conn i : Nat} (L : Live s conn i) (t id rc : Nat) (ht : t ≠ 3) :
    ackRes s i t id rc = (s, [.wrote conn (.ack (getObj s i).ver t id rc)], none) := by
  rw [ackRes_live s i t id rc L.notDead, writeAck_live L t id rc ht]

/-! ### PINGREQ -/

theorem handler_pingreq {s : Server} {conn i : Nat} (L : Live s conn i) :
    handler s i .pingreq = (s, [.wrote conn .pingresp], none) := by
  show (if !dead (getObj s i) then _ else _) = _
  rw [L.notDead, L.conn]
  rfl

/-! ### PUBREL / PUBREC -/

/-- `Live` only looks at the connection table and five fields of the object -/
theorem Live.set {s : Server} {conn i : Nat} (L : Live s conn i) (c : Client) (hconn : c.conn = (getObj s i).conn)
    (ho : c.isOpen = (getObj s i).isOpen) (hs : c.stopped = (getObj s i).stopped)
    (hin : c.inline = (getObj s i).inline) (hp : c.peerGone = (getObj s i).peerGone) :
    Live (setObj s i c) conn i := by
  rcases getObj_setObj_self_cases s i c with e | e
  · exact ⟨L.reg, by rw [e, hconn]; exact L.conn, by rw [e, ho]; exact L.isOpen, by rw [e, hs]; exact L.stopped,
      by rw [e, hin]; exact L.inline, by rw [e, hp]; exact L.peer⟩
  · exact ⟨L.reg, by rw [e]; exact L.conn, by rw [e]; exact L.isOpen, by rw [e]; exact L.stopped,
      by rw [e]; exact L.inline, by rw [e]; exact L.peer⟩

theorem getObj_setObj_ver (s : Server) (i : Nat) (c : Client) (h : c.ver = (getObj s i).ver) :
    (getObj (setObj s i c) i).ver = (getObj s i).ver := by
  rcases getObj_setObj_self_cases s i c with e | e <;> rw [e]
  exact h

theorem flSet_fields (c : Client) (m : Msg) :
    (flSet c m).1.conn = c.conn ∧ (flSet c m).1.isOpen = c.isOpen ∧ (flSet c m).1.stopped = c.stopped ∧
    (flSet c m).1.inline = c.inline ∧ (flSet c m).1.peerGone = c.peerGone ∧ (flSet c m).1.ver = c.ver := by
  unfold flSet
  split <;> exact ⟨rfl, rfl, rfl, rfl, rfl, rfl⟩

theorem decRecv_fields (c : Client) :
    (decRecv c).conn = c.conn ∧ (decRecv c).isOpen = c.isOpen ∧ (decRecv c).stopped = c.stopped ∧
    (decRecv c).inline = c.inline ∧ (decRecv c).peerGone = c.peerGone ∧ (decRecv c).ver = c.ver := by
  unfold decRecv
  split <;> exact ⟨rfl, rfl, rfl, rfl, rfl, rfl⟩

theorem incRecv_fields (c : Client) :
    (incRecv c).conn = c.conn ∧ (incRecv c).isOpen = c.isOpen ∧ (incRecv c).stopped = c.stopped ∧
    (incRecv c).inline = c.inline ∧ (incRecv c).peerGone = c.peerGone ∧ (incRecv c).ver = c.ver := by
  unfold incRecv
  split <;> exact ⟨rfl, rfl, rfl, rfl, rfl, rfl⟩

/-- what `processPubrel` writes for a live client: PUBCOMP with the request's identifier — reason 0x92 when no record
    exists under the identifier, reason 0 when one exists and the PUBREL carries a valid success code — and NOTHING
    when a record exists and the PUBREL carries a failure (or undefined) reason code -/
theorem processPubrel_out {s : Server} {conn i : Nat} (L : Live s conn i) (id rc : Nat) :
    (processPubrel s i id rc).2.2 = none ∧
    (processPubrel s i id rc).2.1 =
      if (flGet (getObj s i) id).isNone then [.wrote conn (.ack (getObj s i).ver 7 id 0x92)]
      else if rc ≥ 0x80 || !reasonValid 6 rc then []
      else [.wrote conn (.ack (getObj s i).ver 7 id 0)] := by
  unfold processPubrel
  extract_lets +onlyGivenNames c
  by_cases h1 : (flGet c id).isNone = true
  · rw [if_pos h1, if_pos h1, ackRes_live' L 7 id 0x92 (by decide)]
    exact ⟨rfl, rfl⟩
  · rw [if_neg h1, if_neg h1]
    by_cases h2 : (decide (rc ≥ 0x80) || !reasonValid 6 rc) = true
    · rw [if_pos h2, if_pos h2]
      exact ⟨rfl, rfl⟩
    · rw [if_neg h2, if_neg h2]
      extract_lets +onlyGivenNames ack c1 s1
      have f := flSet_fields c ack
      have L1 : Live s1 conn i := L.set c1 f.1 f.2.1 f.2.2.1 f.2.2.2.1 f.2.2.2.2.1
      have hv : (getObj s1 i).ver = (getObj s i).ver := getObj_setObj_ver s i c1 f.2.2.2.2.2
      have hd : dead c1 = false := by
        apply dead_of_live
        · rw [f.2.1]; exact L.isOpen
        · rw [f.2.2.2.2.1]; exact L.peer
      rw [if_neg (by rw [hd]; decide)]
      have hw : writeMsg s1 i ack = [.wrote conn (.ack (getObj s i).ver 7 id 0)] := by
        have := writeAck_live L1 7 id 0 (by decide)
        rw [hv] at this
        rw [← this]
        unfold writeAck writeMsg
        rfl
      exact ⟨rfl, hw⟩

/-- what `processPubrec` writes for a live client: PUBREL with the request's identifier — reason 0x92 when no record
    exists under the identifier, reason 0 when one exists and the PUBREC carries a valid success code — and NOTHING
    when a record exists and the PUBREC carries a failure (or undefined) reason code (the exchange ends) -/
theorem processPubrec_out {s : Server} {conn i : Nat} (L : Live s conn i) (id rc : Nat) :
    (processPubrec s i id rc).2.2 = none ∧
    (processPubrec s i id rc).2.1 =
      if (flGet (getObj s i) id).isNone then [.wrote conn (.ack (getObj s i).ver 6 id 0x92)]
      else if rc ≥ 0x80 || !reasonValid 5 rc then []
      else [.wrote conn (.ack (getObj s i).ver 6 id 0)] := by
  unfold processPubrec
  extract_lets +onlyGivenNames c
  by_cases h1 : (flGet c id).isNone = true
  · rw [if_pos h1, if_pos h1, ackRes_live' L 6 id 0x92 (by decide)]
    exact ⟨rfl, rfl⟩
  · rw [if_neg h1, if_neg h1]
    by_cases h2 : (decide (rc ≥ 0x80) || !reasonValid 5 rc) = true
    · rw [if_pos h2, if_pos h2]
      exact ⟨rfl, rfl⟩
    · rw [if_neg h2, if_neg h2]
      extract_lets +onlyGivenNames ack c1 s1
      have f := flSet_fields (decRecv c) ack
      have g := decRecv_fields c
      have L1 : Live s1 conn i := L.set c1 (f.1.trans g.1) (f.2.1.trans g.2.1) (f.2.2.1.trans g.2.2.1)
        (f.2.2.2.1.trans g.2.2.2.1) (f.2.2.2.2.1.trans g.2.2.2.2.1)
      have hv : (getObj s1 i).ver = (getObj s i).ver :=
        getObj_setObj_ver s i c1 (f.2.2.2.2.2.trans g.2.2.2.2.2)
      have hd : dead c1 = false := by
        apply dead_of_live
        · rw [f.2.1, g.2.1]; exact L.isOpen
        · rw [f.2.2.2.2.1, g.2.2.2.2.1]; exact L.peer
      rw [if_neg (by rw [hd]; decide)]
      have hw : writeMsg s1 i ack = [.wrote conn (.ack (getObj s i).ver 6 id 0)] := by
        have := writeAck_live L1 6 id 0 (by decide)
        rw [hv] at this
        rw [← this]
        unfold writeAck writeMsg
        rfl
      exact ⟨rfl, hw⟩

end Mochi.Broker.R07
