import Mochi.Lemmas.BrokerCounters
import Mochi.Lemmas.BrokerPublishOp
/-!
# The retained store along histories (C05, C25)

Who can change the retained packets `rmsgs` at a topic?  Only `retainMsg` (a retained publish — from a client, the
inline API, or a will with the retain flag) and `tickRetained` (housekeeping).  `retainMsg` is reached from
`processPublish` (the publish itself), `sendLWT` (a will, at the end of almost every op kind) and `tickWills`
(a delayed will).  So the walk below carries an invariant on the wills:

* `NW T s` — no session object of `s` holds a will with the retain flag on a topic in `T`, and no delayed will is one;
* `RKr T U s s'` — `NW T s'`, and the lookup of `rmsgs` at every topic in `U` is the same in `s'` as in `s`
  (`U ⊆ T`: with `U = ∅` this is "the will invariant is kept", with `U = T = {t}` "the store at `t` is kept").

One lemma `X_rk` per handler (mirroring the `X_core` walk of `CountersCore.lean`), ending in `step_rk`: an op that is
not a retained publish on a topic of `U`, not a `tick "retained"`, and not a CONNECT carrying a retained will on a
topic of `T`, keeps the store at `U`.
-/
namespace Mochi.Broker
open Mochi.Topics

/-! ### small facts -/

theorem assocGet_assocSet_ne_rk {α β} [DecidableEq α] (m : List (α × β)) (k k' : α) (v : β) (h : k' ≠ k) :
    assocGet (assocSet m k v) k' = assocGet m k' := by
  rw [assocGet_assocSet, if_neg h]

theorem flSet_will (c : Client) (m : Msg) : (flSet c m).1.will = c.will := by
  unfold flSet; split <;> rfl
theorem flDelete_will (c : Client) (id : Nat) : (flDelete c id).1.will = c.will := rfl
theorem decRecv_will (c : Client) : (decRecv c).will = c.will := by unfold decRecv; split <;> rfl
theorem incRecv_will (c : Client) : (incRecv c).will = c.will := by unfold incRecv; split <;> rfl
theorem decSend_will (c : Client) : (decSend c).will = c.will := by unfold decSend; split <;> rfl
theorem incSend_will (c : Client) : (incSend c).will = c.will := by unfold incSend; split <;> rfl

/-! ### the will invariant and the relation -/

/-- the will `w` does not retain on a topic of `T` when it is published -/
def WillOK (T : Str → Prop) (w : Will) : Prop := w.flag = true → w.retain = true → ¬ T w.topic

/-- no session holds a will with the retain flag on a topic of `T`; no delayed will is one -/
def NW (T : Str → Prop) (s : Server) : Prop :=
  (∀ j, WillOK T (getObj s j).will) ∧ (∀ e ∈ s.willDelayed, e.2.retain = true → ¬ T e.2.topic)

/-- the will invariant holds in `s'`, and the retained store at every topic of `U` is the same as in `s` -/
def RKr (T U : Str → Prop) (s s' : Server) : Prop :=
  NW T s' ∧ ∀ u, U u → assocGet s'.rmsgs u = assocGet s.rmsgs u

theorem WillOK.of_eq {T : Str → Prop} {w w' : Will} (h : WillOK T w) (e : w' = w) : WillOK T w' := e ▸ h

theorem WillOK.empty (T : Str → Prop) : WillOK T {} := fun h => by cases h

theorem NW_init (T : Str → Prop) (caps : Caps) : NW T (init caps) := by
  refine ⟨fun j => ?_, fun e h => by cases h⟩
  unfold getObj init
  match j with
  | 0 => exact fun h => by cases h
  | j + 1 => exact fun h => by cases h

section
variable {T U : Str → Prop}

theorem RKr.refl {s : Server} (h : NW T s) : RKr T U s s := ⟨h, fun _ _ => rfl⟩

theorem RKr.trans {s s1 s2 : Server} (h : RKr T U s s1) (g : RKr T U s1 s2) : RKr T U s s2 :=
  ⟨g.1, fun u hu => (g.2 u hu).trans (h.2 u hu)⟩

/-- a change outside `objs`, `rmsgs`; `willDelayed` may lose entries -/
theorem RKr.updW {s0 s s' : Server} (h : RKr T U s0 s) (ho : s'.objs = s.objs)
    (hw : ∀ e ∈ s'.willDelayed, e ∈ s.willDelayed) (hr : s'.rmsgs = s.rmsgs) : RKr T U s0 s' :=
  ⟨⟨fun j => by rw [getObj_of_objs_eq ho j]; exact h.1.1 j, fun e he => h.1.2 e (hw e he)⟩,
   fun u hu => by rw [hr]; exact h.2 u hu⟩

theorem RKr.upd {s0 s s' : Server} (h : RKr T U s0 s) (ho : s'.objs = s.objs)
    (hw : s'.willDelayed = s.willDelayed) (hr : s'.rmsgs = s.rmsgs) : RKr T U s0 s' :=
  h.updW ho (fun _ he => hw ▸ he) hr

theorem RKr.set {s0 s : Server} (h : RKr T U s0 s) (i : Nat) (c : Client) (hc : WillOK T c.will) :
    RKr T U s0 (setObj s i c) := by
  refine ⟨⟨fun j => ?_, h.1.2⟩, h.2⟩
  by_cases hj : j = i
  · subst hj
    rcases getObj_setObj_self_cases s j c with e | e
    · rw [e]; exact hc
    · rw [e]; exact h.1.1 j
  · rw [getObj_setObj_ne s i j c hj]; exact h.1.1 j

theorem RKr.mod {s0 s : Server} (h : RKr T U s0 s) (i : Nat) (f : Client → Client)
    (hf : WillOK T (f (getObj s i)).will) : RKr T U s0 (modObj s i f) := h.set i _ hf

theorem RKr.fst_mk {α} {s0 x : Server} {y : α} (h : RKr T U s0 x) : RKr T U s0 (x, y).1 := h

theorem RKr.ite_res {s : Server} {p : Prop} [Decidable p] {a b : HRes}
    (ha : p → RKr T U s a.1) (hb : ¬ p → RKr T U s b.1) : RKr T U s (if p then a else b).1 := by
  by_cases h : p
  · rw [if_pos h]; exact ha h
  · rw [if_neg h]; exact hb h

/-! ### the delivery family: wills by `Deliv`, `willDelayed` and `rmsgs` by a small walk -/

/-- `willDelayed` and `rmsgs` are untouched -/
def KW (s s' : Server) : Prop := s'.willDelayed = s.willDelayed ∧ s'.rmsgs = s.rmsgs

theorem KW.refl (s : Server) : KW s s := ⟨rfl, rfl⟩
theorem KW.trans {s s1 s2 : Server} (h : KW s s1) (g : KW s1 s2) : KW s s2 := ⟨g.1.trans h.1, g.2.trans h.2⟩
theorem KW.upd {s0 s s' : Server} (h : KW s0 s) (h1 : s'.willDelayed = s.willDelayed) (h2 : s'.rmsgs = s.rmsgs) :
    KW s0 s' := ⟨h1.trans h.1, h2.trans h.2⟩
theorem KW.set {s0 s : Server} (h : KW s0 s) (i : Nat) (c : Client) : KW s0 (setObj s i c) := h.upd rfl rfl

theorem publishToClientCore_kw (s : Server) (i : Nat) (sub : Sub) (f : Bool) (pk : Msg) :
    KW s (publishToClientCore s i sub f pk).1 := by
  unfold publishToClientCore
  extract_lets c out
  split
  rename_i c1 out1 heq
  clear heq
  extract_lets s1
  have hs1 : KW s s1 := (KW.refl s).set i c1
  split
  · split
    · exact hs1.upd rfl rfl
    · split
      · exact hs1.upd rfl rfl
      · rename_i pid _
        extract_lets c2 out2 sentQuota
        split
        rename_i c3 isNew hfl
        extract_lets c4 s2 src s3
        have hs2 : KW s s2 := hs1.set i c4
        have hs3 : KW s s3 := by
          show KW s (if isNew = true then _ else _)
          split
          · exact hs2.upd rfl rfl
          · exact hs2
        split
        · exact hs3.set i _
        · split <;> exact hs3
  · split <;> exact hs1

theorem publishToClient_kw (s : Server) (i : Nat) (sub : Sub) (f : Bool) (pk : Msg) :
    KW s (publishToClient s i sub f pk).1 := by
  unfold publishToClient
  split
  · exact KW.refl s
  · split
    · exact KW.refl s
    · exact publishToClientCore_kw s i sub f pk

theorem publishToSubscribers_kw (s : Server) (pk : Msg) : KW s (publishToSubscribers s pk).1 := by
  unfold publishToSubscribers
  split
  · exact KW.refl s
  · extract_lets e pk' r subsMap inl
    refine foldl_inv (fun (acc : Server × List Out) => KW s acc.1) _ _ _ (KW.refl s) ?_
    intro acc cs h
    split
    · exact h
    · rename_i k _
      split
      rename_i s' o heq
      have := publishToClient_kw acc.1 k cs.2 false pk'
      rw [heq] at this
      exact h.trans this

theorem publishRetainedToClient_kw (s : Server) (i : Nat) (sub : Sub) (ex : Bool) (k : Nat) :
    KW s (publishRetainedToClient s i sub ex k).1 := by
  unfold publishRetainedToClient
  split
  · exact KW.refl s
  · split
    · exact KW.refl s
    · extract_lets sub'
      refine foldl_inv (fun (acc : Server × List Out) => KW s acc.1) _ _ _ (KW.refl s) ?_
      intro acc r h
      split
      · exact h
      · rename_i m _
        split
        rename_i s' o heq
        have := publishToClient_kw acc.1 i sub' true m
        rw [heq] at this
        exact h.trans this

theorem RKr.of_deliv {s s' : Server} (hnw : NW T s) (d : Deliv s s') (k : KW s s') : RKr T U s s' :=
  ⟨⟨fun j => (hnw.1 j).of_eq ((d.all j).will.symm), fun e he => hnw.2 e (k.1 ▸ he)⟩, fun u _ => by rw [k.2]⟩

theorem publishToSubscribers_rk (s : Server) (pk : Msg) (hnw : NW T s) : RKr T U s (publishToSubscribers s pk).1 :=
  RKr.of_deliv hnw (publishToSubscribers_deliv s pk) (publishToSubscribers_kw s pk)

theorem publishRetainedToClient_rk (s : Server) (i : Nat) (sub : Sub) (ex : Bool) (k : Nat) (hnw : NW T s) :
    RKr T U s (publishRetainedToClient s i sub ex k).1 :=
  RKr.of_deliv hnw (publishRetainedToClient_deliv s i sub ex k) (publishRetainedToClient_kw s i sub ex k)

/-- a retained publish on a topic outside `U` keeps the store at `U` -/
theorem retainMsg_rk (s : Server) (pk : Msg) (hnw : NW T s) (hne : ¬ U pk.topic) : RKr T U s (retainMsg s pk) := by
  unfold retainMsg
  by_cases h : (s.caps.retainAvailable == 0 || pk.ignore) = true
  · rw [if_pos h]; exact RKr.refl hnw
  · rw [if_neg h]
    refine ⟨⟨fun j => hnw.1 j, hnw.2⟩, fun u hu => ?_⟩
    have hk : u ≠ pk.topic := fun e => hne (e ▸ hu)
    show assocGet (if pk.payload.length > 0 then assocSet s.rmsgs pk.topic _ else assocDel s.rmsgs pk.topic) u = _
    by_cases hp : pk.payload.length > 0
    · rw [if_pos hp, assocGet_assocSet_ne_rk _ _ _ _ hk]
    · rw [if_neg hp, assocGet_assocDel_ne _ _ _ hk]

/-! ### work on the acting object -/

theorem stopClient_rk (s : Server) (i : Nat) (hnw : NW T s) : RKr T U s (stopClient s i).1 := by
  unfold stopClient
  extract_lets +onlyGivenNames c
  split
  · exact RKr.refl hnw
  · exact (RKr.refl hnw).set i _ (hnw.1 i)

theorem disconnectClient_rk (s : Server) (i : Nat) (code : Nat) (hnw : NW T s) :
    RKr T U s (disconnectClient s i code).1 := by
  unfold disconnectClient
  extract_lets +onlyGivenNames c w
  split
  rename_i s' o heq
  have := stopClient_rk (T := T) (U := U) s i hnw
  rw [heq] at this
  exact this

theorem unsubscribeClient_rk (s : Server) (i : Nat) (hnw : NW T s) : RKr T U s (unsubscribeClient s i) := by
  unfold unsubscribeClient
  extract_lets +onlyGivenNames c s1
  have h1 : RKr T U s s1 := (RKr.refl hnw).set i _ (hnw.1 i)
  split
  · exact h1
  · refine foldl_inv (fun (x : Server) => RKr T U s x) _ _ _ h1 ?_
    intro b a h
    exact h.upd rfl rfl rfl

theorem clearInflights_rk (s : Server) (i : Nat) (hnw : NW T s) : RKr T U s (clearInflights s i) := by
  unfold clearInflights
  extract_lets +onlyGivenNames c n
  exact (RKr.set (RKr.refl hnw) i { c with inflight := [] } (hnw.1 i)).upd rfl rfl rfl

theorem processPuback_rk (s : Server) (i id : Nat) (hnw : NW T s) : RKr T U s (processPuback s i id).1 := by
  unfold processPuback
  extract_lets +onlyGivenNames c
  split
  · exact RKr.refl hnw
  · extract_lets +onlyGivenNames c'
    exact ((RKr.refl hnw).set i c' ((hnw.1 i).of_eq (incSend_will _))).upd rfl rfl rfl

theorem processPubrec_rk (s : Server) (i id rc : Nat) (hnw : NW T s) : RKr T U s (processPubrec s i id rc).1 := by
  unfold processPubrec
  extract_lets +onlyGivenNames c
  split
  · rw [ackRes_fst]; exact RKr.refl hnw
  · split
    · extract_lets +onlyGivenNames c'
      exact ((RKr.refl hnw).set i c' (hnw.1 i)).upd rfl rfl rfl
    · extract_lets +onlyGivenNames ack c' s1
      have hs1 : RKr T U s s1 :=
        (RKr.refl hnw).set i c' ((hnw.1 i).of_eq ((flSet_will _ _).trans (decRecv_will _)))
      split <;> exact hs1

theorem processPubrel_rk (s : Server) (i id rc : Nat) (hnw : NW T s) : RKr T U s (processPubrel s i id rc).1 := by
  unfold processPubrel
  extract_lets +onlyGivenNames c
  split
  · rw [ackRes_fst]; exact RKr.refl hnw
  · split
    · extract_lets +onlyGivenNames c'
      exact ((RKr.refl hnw).set i c' (hnw.1 i)).upd rfl rfl rfl
    · extract_lets +onlyGivenNames ack c1 s1
      have hc1 : c1.will = (getObj s i).will := flSet_will _ _
      have hs1 : RKr T U s s1 := (RKr.refl hnw).set i c1 ((hnw.1 i).of_eq hc1)
      split
      · exact hs1
      · extract_lets +onlyGivenNames o c2
        split
        rename_i c3 ok heq
        have hc3 : c3.will = (getObj s i).will := by
          have := congrArg (fun p => p.1.will) heq
          simp only [flDelete_will] at this
          rw [← this]
          exact ((incSend_will _).trans (incRecv_will _)).trans hc1
        extract_lets +onlyGivenNames s2
        have hs2 : RKr T U s s2 := hs1.set i c3 ((hnw.1 i).of_eq hc3)
        split
        · exact hs2.upd rfl rfl rfl
        · exact hs2

theorem processPubcomp_rk (s : Server) (i id : Nat) (hnw : NW T s) : RKr T U s (processPubcomp s i id).1 := by
  unfold processPubcomp
  extract_lets +onlyGivenNames c
  split
  rename_i c1 ok heq
  have hc1 : c1.will = (getObj s i).will := by
    have := congrArg (fun p => p.1.will) heq
    simp only [flDelete_will] at this
    rw [← this]
    exact (incSend_will _).trans (incRecv_will _)
  extract_lets +onlyGivenNames s1
  have hs1 : RKr T U s s1 := (RKr.refl hnw).set i c1 ((hnw.1 i).of_eq hc1)
  split
  · exact hs1.upd rfl rfl rfl
  · exact hs1

theorem nextImmediate_rk (s : Server) (i : Nat) (hnw : NW T s) : RKr T U s (nextImmediate s i).1 := by
  unfold nextImmediate
  extract_lets +onlyGivenNames c
  split
  · split
    · rename_i m _
      extract_lets +onlyGivenNames o
      split
      rename_i c1 ok heq
      have hc1 : c1.will = (getObj s i).will := by
        have := congrArg (fun p => p.1.will) heq
        simp only [flDelete_will] at this
        exact this.symm
      extract_lets +onlyGivenNames s1
      have hs0 : RKr T U s { s with nextSeed := s.nextSeed / 64 } := (RKr.refl hnw).upd rfl rfl rfl
      have hs1 : RKr T U s s1 := hs0.set i _ ((hnw.1 i).of_eq ((decSend_will _).trans hc1))
      split
      · exact hs1.upd rfl rfl rfl
      · exact hs1
    · exact RKr.refl hnw
  · exact RKr.refl hnw

theorem processDisconnect_rk (s : Server) (i rc : Nat) (sei : Option Nat) (hnw : NW T s) :
    RKr T U s (processDisconnect s i rc sei).1 := by
  unfold processDisconnect
  extract_lets +onlyGivenNames c r
  have hr : ∀ s' c', r = some (s', c') → s' = s ∧ c'.will = (getObj s i).will := by
    intro s' c' h
    simp only [r] at h
    split at h
    · split at h
      · cases h
      · cases h; exact ⟨rfl, rfl⟩
    · cases h; exact ⟨rfl, rfl⟩
  generalize r = r' at hr
  split
  · exact RKr.refl hnw
  · rename_i s' c'
    obtain ⟨rfl, hc'⟩ := hr s' c' rfl
    extract_lets +onlyGivenNames s1
    have hs1 : RKr T U s' s1 := (RKr.refl hnw).set i c' ((hnw.1 i).of_eq hc')
    split
    · exact hs1
    · extract_lets +onlyGivenNames s2
      have hs2 : RKr T U s' s2 := hs1.updW rfl (fun e he => mem_assocDel _ _ e he) rfl
      split
      rename_i s3 o hst
      have := stopClient_rk (T := T) (U := U) s2 i hs2.1
      rw [hst] at this
      exact hs2.trans this

theorem processUnsubscribe_rk (s : Server) (i id : Nat) (filters : List Str) (hnw : NW T s) :
    RKr T U s (processUnsubscribe s i id filters).1 := by
  unfold processUnsubscribe
  extract_lets +onlyGivenNames c inUse r
  have hr : RKr T U s r.1 := by
    refine foldl_inv (fun (acc : Server × List Nat) => RKr T U s acc.1) _ _ _ (RKr.refl hnw) ?_
    intro acc f h
    split
    rename_i s' rcs
    split
    · exact h
    · extract_lets rr src s1 s2
      show RKr T U s s2
      have h1 : RKr T U s s1 := RKr.upd (s := s') h rfl rfl rfl
      exact h1.mod _ _ (h1.1.1 i)
  generalize r = r' at hr
  split
  rename_i s' rcs
  extract_lets c'
  split <;> exact hr

theorem processSubscribe_rk (s : Server) (i id subId : Nat) (filters : List Sub) (hnw : NW T s) :
    RKr T U s (processSubscribe s i id subId filters).1 := by
  unfold processSubscribe
  extract_lets +onlyGivenNames c inUse fin r
  have hr : RKr T U s r.1 := by
    refine foldl_inv (fun (acc : Server × List Nat × List Bool) => RKr T U s acc.1) _ _ _ (RKr.refl hnw) ?_
    intro acc sub h
    split
    rename_i s' rcs exs
    extract_lets +onlyGivenNames sub'
    split
    · exact h
    · split
      · exact h
      · split
        · exact h
        · split
          · exact h
          · extract_lets +onlyGivenNames rr src s1 s2
            show RKr T U s s2
            have h1 : RKr T U s s1 := RKr.upd (s := s') h rfl rfl rfl
            exact h1.mod _ _ (h1.1.1 i)
  generalize r = r' at hr
  split
  rename_i s' rcs exs
  extract_lets +onlyGivenNames c'
  split
  · exact hr
  · extract_lets +onlyGivenNames o1 z
    show RKr T U s z.1
    refine foldl_inv (fun (acc : Server × List Out) => RKr T U s acc.1) _ _ _ hr ?_
    intro acc xk h
    extract_lets +onlyGivenNames x
    split
    · exact h
    · extract_lets +onlyGivenNames src sub'
      split
      rename_i s2 o heq
      have := publishRetainedToClient_rk (T := T) (U := U) acc.1 i sub' x.2.2 xk.2 h.1
      rw [heq] at this
      exact h.trans this

end

/-! ### wills -/

section
variable {T U : Str → Prop}

theorem sendLWT_rk (hU : ∀ u, U u → T u) (s : Server) (i : Nat) (hnw : NW T s) : RKr T U s (sendLWT s i).1 := by
  unfold sendLWT
  extract_lets +onlyGivenNames c
  by_cases hfl : (!c.will.flag) = true
  · rw [if_pos hfl]; exact RKr.refl hnw
  · rw [if_neg hfl]
    have hflag : (getObj s i).will.flag = true := by simpa using hfl
    extract_lets +onlyGivenNames pk
    have hpk : pk.retain = true → ¬ T pk.topic := fun hr => hnw.1 i hflag hr
    split
    · refine ⟨⟨fun j => hnw.1 j, fun e he => ?_⟩, fun u _ => rfl⟩
      rcases mem_assocSet _ _ _ e he with h | h
      · exact hnw.2 e h
      · rw [h]; exact hpk
    · extract_lets +onlyGivenNames s1
      have hs1 : RKr T U s s1 := by
        show RKr T U s (if pk.retain = true then retainMsg s pk else s)
        by_cases hr : pk.retain = true
        · rw [if_pos hr]; exact retainMsg_rk s pk hnw (fun hu => hpk hr (hU _ hu))
        · rw [if_neg hr]; exact RKr.refl hnw
      split
      rename_i s2 o heq
      have := publishToSubscribers_rk (T := T) (U := U) s1 pk hs1.1
      rw [heq] at this
      have h2 : RKr T U s s2 := hs1.trans this
      refine RKr.fst_mk ?_
      exact h2.mod _ _ (fun h => by cases h)

theorem detachA_rk (hU : ∀ u, U u → T u) (s : Server) (i : Nat) (withErr : Bool) (hnw : NW T s) :
    RKr T U s (detachA s i withErr).1 := by
  unfold detachA
  split
  · split
    rename_i s2 o2 h2
    split
    rename_i s3 o3 h3
    have a := sendLWT_rk (U := U) hU s i hnw
    rw [h2] at a
    have b := stopClient_rk (T := T) (U := U) s2 i a.1
    rw [h3] at b
    exact a.trans b
  · exact (RKr.refl hnw).mod i (fun c => { c with will := {} }) (WillOK.empty T)


/-- the publish does not retain on a topic of `U`: its retain flag is off, or its topic is given in the packet
    (not through an alias) and is outside `U` -/
def pubAvoids (U : Str → Prop) (retain : Bool) (topic : Str) : Prop :=
  retain = true → ∀ u, U u → topic ≠ [] ∧ topic ≠ u

theorem processPublish_rk (s : Server) (i : Nat) (qos : Nat) (dup retain : Bool) (id : Nat)
    (topic payload : Str) (msgExpiry : Nat) (alias : Option Nat) (hnw : NW T s) (hav : pubAvoids U retain topic) :
    RKr T U s (processPublish s i qos dup retain id topic payload msgExpiry alias).1 := by
  unfold processPublish
  extract_lets +onlyGivenNames c
  have early : ∀ code, RKr T U s
      (if (qos == 0) = true then ((s, [], none) : HRes)
        else if (c.ver != 5) = true then
          match disconnectClient s i code with
          | (s, o) => (s, o, some code)
        else ackRes s i (if (qos == 2) = true then 5 else 4) id code).1 := by
    intro code
    split
    · exact RKr.refl hnw
    · split
      · split
        rename_i s' o heq
        have := disconnectClient_rk (T := T) (U := U) s i code hnw
        rw [heq] at this
        exact this
      · rw [ackRes_fst]; exact RKr.refl hnw
  refine RKr.ite_res (fun _ => early _) (fun _ => ?_)
  · refine RKr.ite_res (fun _ => ?_) (fun _ => ?_)
    · split
      rename_i s' o heq
      have := disconnectClient_rk (T := T) (U := U) s i 0x93 hnw
      rw [heq] at this
      exact this
    · refine RKr.ite_res (fun _ => early _) (fun _ => ?_)
      · extract_lets +onlyGivenNames e pk pre
        have hpre : ∀ r, pre = some r → r.1 = s := by
          intro r h
          simp only [pre] at h
          split at h
          · cases h
          · split at h
            · split at h
              · cases h; exact ackRes_fst s i 5 id 0x91
              · cases h
            · cases h
        generalize pre = pre' at hpre
        split
        · rename_i r
          rw [hpre r rfl]
          exact RKr.refl hnw
        · clear hpre
          split
          rename_i s1 c1 heq
          have hs1 : RKr T U s s1 ∧ c1.will = (getObj s i).will := by
            split at heq
            · cases heq
              exact ⟨(RKr.set (RKr.refl hnw) i (flDelete c id).1 (hnw.1 i)).upd rfl rfl rfl, rfl⟩
            · cases heq
              exact ⟨RKr.refl hnw, rfl⟩
          obtain ⟨hs1, hc1⟩ := hs1
          clear heq
          split
          rename_i c2 pk2 heq
          have hp2 : c2.will = c1.will ∧ pk2.retain = retain ∧ (pk2.topic = topic ∨ topic = []) := by
            split at heq
            · split at heq
              · split at heq
                · cases heq; exact ⟨rfl, rfl, Or.inl rfl⟩
                · split at heq
                  · split at heq
                    · rename_i hte
                      cases heq
                      exact ⟨rfl, rfl, Or.inr (List.isEmpty_iff.mp hte)⟩
                    · cases heq; exact ⟨rfl, rfl, Or.inl rfl⟩
                  · cases heq; exact ⟨rfl, rfl, Or.inl rfl⟩
              · cases heq; exact ⟨rfl, rfl, Or.inl rfl⟩
            · cases heq; exact ⟨rfl, rfl, Or.inl rfl⟩
          obtain ⟨hc2, hret2, htop2⟩ := hp2
          clear heq
          extract_lets +onlyGivenNames s2
          have hs2 : RKr T U s s2 := hs1.set i c2 ((hnw.1 i).of_eq (hc2.trans hc1))
          split
          · split
            rename_i s' o heq
            have := disconnectClient_rk (T := T) (U := U) s2 i 0x82 hs2.1
            rw [heq] at this
            exact hs2.trans this
          extract_lets +onlyGivenNames pk3 mode
          have hpk3 : pk3.retain = pk2.retain ∧ pk3.topic = pk2.topic := by
            simp only [pk3]
            split <;> exact ⟨rfl, rfl⟩
          split
          · exact hs2
          · split
            · rw [ackRes_fst]; exact hs2
            · extract_lets +onlyGivenNames pk4 s3
              have hpk4 : pk4.retain = pk3.retain ∧ pk4.topic = pk3.topic := by
                simp only [pk4]
                split <;> exact ⟨rfl, rfl⟩
              have hs3 : RKr T U s s3 := by
                show RKr T U s (if pk4.retain = true then retainMsg s2 pk4 else s2)
                by_cases hr : pk4.retain = true
                · rw [if_pos hr]
                  have hr' : retain = true := by rw [← hret2, ← hpk3.1, ← hpk4.1]; exact hr
                  refine hs2.trans (retainMsg_rk s2 pk4 hs2.1 (fun hu => ?_))
                  obtain ⟨hne, hnu⟩ := hav hr' _ hu
                  have ht : pk4.topic = topic := by
                    rw [hpk4.2, hpk3.2]
                    rcases htop2 with h | h
                    · exact h
                    · exact absurd h hne
                  exact hnu ht.symm
                · rw [if_neg hr]; exact hs2
              split
              · split
                rename_i s4 o heq
                have := publishToSubscribers_rk (T := T) (U := U) s3 pk4 hs3.1
                rw [heq] at this
                exact hs3.trans this
              · extract_lets +onlyGivenNames s4 ackT ackRC ack
                have hs4 : RKr T U s s4 := hs3.mod i decRecv ((hs3.1.1 i).of_eq (decRecv_will _))
                split
                rename_i c5 isNew heq
                have hc5 : c5.will = (getObj s4 i).will := by
                  have := congrArg (fun p => p.1.will) heq
                  simp only [flSet_will] at this
                  exact this.symm
                clear heq
                extract_lets +onlyGivenNames s5 src s6
                have hs5 : RKr T U s s5 := hs4.set i c5 ((hs4.1.1 i).of_eq hc5)
                have hs6 : RKr T U s s6 := by
                  show RKr T U s (if isNew = true then _ else s5)
                  split
                  · exact hs5.upd rfl rfl rfl
                  · exact hs5
                split
                · exact hs6
                · extract_lets +onlyGivenNames o1 s7
                  have hs7 : RKr T U s s7 := by
                    show RKr T U s (if (pk4.qos == 1) = true then _ else s6)
                    split
                    · split
                      rename_i c6 ok heq
                      have hc6 : c6.will = (getObj s6 i).will := by
                        have := congrArg (fun p => p.1.will) heq
                        simp only [flDelete_will] at this
                        exact this.symm
                      extract_lets +onlyGivenNames s8
                      have hs8 : RKr T U s s8 :=
                        hs6.set i _ ((hs6.1.1 i).of_eq ((incRecv_will _).trans hc6))
                      split
                      · exact hs8.upd rfl rfl rfl
                      · exact hs8
                    · exact hs6
                  split
                  rename_i s9 o2 heq
                  have := publishToSubscribers_rk (T := T) (U := U) s7 pk4 hs7.1
                  rw [heq] at this
                  exact hs7.trans this

/-- the inbound packet is not a retained publish on a topic of `U` -/
def InPk.avoids (U : Str → Prop) : InPk → Prop
  | .publish _ _ r _ topic _ _ _ => pubAvoids U r topic
  | _ => True

theorem receivePacket_rk (s : Server) (i : Nat) (pk : InPk) (hnw : NW T s) (hav : pk.avoids U) :
    RKr T U s (receivePacket s i pk).1 := by
  unfold receivePacket
  extract_lets +onlyGivenNames c r
  have hr : RKr T U s r.1 := by
    simp only [r]
    split
    · split
      · exact RKr.refl hnw
      · exact processPublish_rk _ _ _ _ _ _ _ _ _ _ hnw hav
    · split
      · exact RKr.refl hnw
      · exact processSubscribe_rk _ _ _ _ _ hnw
    · split
      · exact RKr.refl hnw
      · exact processUnsubscribe_rk _ _ _ _ hnw
    · exact processPuback_rk _ _ _ hnw
    · exact processPubrec_rk _ _ _ _ hnw
    · exact processPubrel_rk _ _ _ _ hnw
    · exact processPubcomp_rk _ _ _ hnw
    · split <;> exact RKr.refl hnw
    · exact processDisconnect_rk _ _ _ _ hnw
  generalize r = r' at hr
  split
  · rename_i s1 o
    split
    rename_i s2 o2 heq
    have := nextImmediate_rk (T := T) (U := U) s1 i hr.1
    rw [heq] at this
    exact hr.trans this
  · rename_i s1 o code
    split
    · split
      rename_i s2 o2 heq
      have := disconnectClient_rk (T := T) (U := U) s1 i code hr.1
      rw [heq] at this
      exact hr.trans this
    · exact hr

theorem detachB_rk (s : Server) (i : Nat) (hnw : NW T s) : RKr T U s (detachB s i) := by
  unfold detachB
  extract_lets +onlyGivenNames c expire s3 s4 s2
  refine RKr.upd (s := s2) ?_ rfl rfl rfl
  show RKr T U s (if (expire && !c.takenOver) = true then _ else s)
  split
  · have h3 : RKr T U s s3 := clearInflights_rk s i hnw
    have h4 : RKr T U s s4 := h3.trans (unsubscribeClient_rk s3 i h3.1)
    exact h4.upd rfl rfl rfl
  · exact RKr.refl hnw

theorem detach_rk (hU : ∀ u, U u → T u) (s : Server) (i : Nat) (withErr : Bool) (hnw : NW T s) :
    RKr T U s (detach s i withErr).1 := by
  unfold detach
  split
  rename_i s1 o1 heq
  have hs1 : RKr T U s s1 := by
    have := detachA_rk (U := U) hU s i withErr hnw
    rw [heq] at this
    exact this
  exact hs1.trans (detachB_rk s1 i hs1.1)

theorem recvOn_rk (hU : ∀ u, U u → T u) (s : Server) (c : Nat) (pk : InPk) (b : Bool) (hnw : NW T s)
    (hav : pk.avoids U) : RKr T U s (recvOn s c pk b).1 := by
  unfold recvOn
  split
  · exact RKr.refl hnw
  · rename_i i hc
    split
    · exact RKr.refl hnw
    · split
      rename_i s1 o e heq
      have h1 : RKr T U s s1 := by
        have := receivePacket_rk (T := T) (U := U) s i pk hnw hav
        rw [heq] at this
        exact this
      split
      · split
        rename_i s2 o2 hd
        have := detach_rk (U := U) hU s1 i true h1.1
        rw [hd] at this
        exact h1.trans this
      · split
        · split
          rename_i s2 o2 hd
          have := detach_rk (U := U) hU s1 i false h1.1
          rw [hd] at this
          exact h1.trans this
        · split
          · split
            rename_i s2 o2 e2 heq2
            have h2 := receivePacket_rk (T := T) (U := U) s1 i .pingreq h1.1 trivial
            rw [heq2] at h2
            extract_lets +onlyGivenNames o2f
            have h12 : RKr T U s s2 := h1.trans h2
            split
            · split
              rename_i s3 o3 hd
              have := detach_rk (U := U) hU s2 i true h12.1
              rw [hd] at this
              exact h12.trans this
            · exact h12
          · exact h1

/-! ### connecting -/

theorem admitA_rk (s : Server) (i : Nat) (k : Connect) (hnw : NW T s) : RKr T U s (admitA s i k).1 := by
  unfold admitA
  extract_lets +onlyGivenNames src s0 exLive
  have hs0 : RKr T U s s0 := (RKr.refl hnw).upd rfl rfl rfl
  split
  rename_i s' o1 present heq
  refine RKr.upd (s := s') ?_ rfl rfl rfl
  split at heq
  · rename_i e _
    extract_lets +onlyGivenNames ex at heq
    split at heq
    rename_i s1 o hd
    have hs1 : RKr T U s s1 := by
      have := disconnectClient_rk (T := T) (U := U) s0 e 0x8E hs0.1
      rw [hd] at this
      exact hs0.trans this
    split at heq
    · extract_lets +onlyGivenNames s2 s3 at heq
      cases heq
      have hs2 : RKr T U s s2 := hs1.trans (unsubscribeClient_rk s1 e hs1.1)
      have hs3 : RKr T U s s3 := hs2.trans (clearInflights_rk s2 e hs2.1)
      exact hs3.mod e _ (hs3.1.1 e)
    · extract_lets +onlyGivenNames s2 ex2 rmx s2i src2 s3 s4 s5 s6 at heq
      rw [← (Prod.mk.inj heq).1]
      have hs2 : RKr T U s s2 := hs1.mod e _ (hs1.1.1 e)
      have hs2i : RKr T U s s2i := hs2.mod i _ (hs2.1.1 i)
      have hs3 : RKr T U s s3 := by
        show RKr T U s (if ex2.inflight.length > 0 then _ else s2)
        split
        · exact hs2i.upd rfl rfl rfl
        · exact hs2
      have hs4 : RKr T U s s4 := by
        refine foldl_inv (fun (x : Server) => RKr T U s x) _ _ _ hs3 ?_
        intro b fs h
        extract_lets +onlyGivenNames rr src3 b1
        have hb1 : RKr T U s b1 := RKr.upd (s := b) h rfl rfl rfl
        exact hb1.mod i _ (hb1.1.1 i)
      have hs5 : RKr T U s s5 := hs4.trans (unsubscribeClient_rk s4 e hs4.1)
      exact hs5.trans (clearInflights_rk s5 e hs5.1)
  · cases heq
    exact hs0

theorem admitConnack_rk (s : Server) (i conn : Nat) (present : Bool) (hnw : NW T s) :
    RKr T U s (admitConnack s i conn present).1 := by
  unfold admitConnack
  extract_lets +onlyGivenNames cl
  split
  rename_i s' seiOut heq
  show RKr T U s s'
  split at heq
  · cases heq
    exact (RKr.refl hnw).mod i _ (hnw.1 i)
  · cases heq
    exact RKr.refl hnw

theorem admitC_rk (s : Server) (i : Nat) (k : Connect) (present : Bool) (hnw : NW T s) :
    RKr T U s (admitC s i k present).1 := by
  unfold admitC
  extract_lets +onlyGivenNames s1
  have hs1 : RKr T U s s1 := (RKr.refl hnw).updW rfl (fun e he => mem_assocDel _ _ e he) rfl
  split
  · refine foldl_inv (fun (acc : Server × List Out) => RKr T U s acc.1) _ _ _ hs1 ?_
    intro acc m h
    extract_lets +onlyGivenNames m' o s'
    show RKr T U s s'
    show RKr T U s (if (m.type == 4 || m.type == 7) = true then _ else acc.1)
    split
    · split
      rename_i c' ok heq
      have hc' : c'.will = (getObj acc.1 i).will := by
        have := congrArg (fun p => p.1.will) heq
        simp only [flDelete_will] at this
        exact this.symm
      extract_lets +onlyGivenNames s''
      have h2 : RKr T U s s'' := h.set i c' ((h.1.1 i).of_eq hc')
      split
      · exact h2.upd rfl rfl rfl
      · exact h2
    · exact h
  · exact hs1

theorem admitClient_rk (hU : ∀ u, U u → T u) (s : Server) (i conn : Nat) (k : Connect) (hnw : NW T s) :
    RKr T U s (admitClient s i conn k).1 := by
  unfold admitClient
  split
  rename_i s1 o1 present exLive h1
  have g1 : RKr T U s s1 := by
    have := admitA_rk (T := T) (U := U) s i k hnw
    rw [h1] at this; exact this
  split
  rename_i s2 o2 h2
  have g2 : RKr T U s s2 := by
    have := admitConnack_rk (T := T) (U := U) s1 i conn present g1.1
    rw [h2] at this; exact g1.trans this
  split
  rename_i s3 o4 h3
  have g3 : RKr T U s s3 := by
    split at h3
    · rename_i e
      have := detach_rk (U := U) hU s2 e true g2.1
      rw [h3] at this; exact g2.trans this
    · cases h3; exact g2
  split
  rename_i s4 o3 h4
  have := admitC_rk (T := T) (U := U) s3 i k present g3.1
  rw [h4] at this
  exact g3.trans this

/-- the CONNECT carries no will with the retain flag on a topic of `T` -/
def Connect.avoids (T : Str → Prop) (k : Connect) : Prop := ∀ w, k.will = some w → w.retain = true → ¬ T w.topic

theorem parseConnect_willOK (s : Server) (conn : Nat) (k : Connect) (hk : k.avoids T) :
    WillOK T (parseConnect s conn k).will := by
  unfold parseConnect
  extract_lets rmProp rmProp' will
  show WillOK T will
  simp only [will]
  cases hw : k.will with
  | none => exact WillOK.empty T
  | some w => exact fun _ hr => hk w hw hr

theorem getObj_push_cases (s : Server) (c : Client) (co : List (Nat × Nat)) (j : Nat) :
    getObj { s with objs := s.objs ++ [c], connOf := co } j = getObj s j ∨
    getObj { s with objs := s.objs ++ [c], connOf := co } j = c := by
  simp only [getObj, List.getD_eq_getElem?_getD]
  by_cases hj : j < s.objs.length
  · left; rw [List.getElem?_append_left hj]
  · by_cases hj2 : j = s.objs.length
    · right; subst hj2; simp
    · left
      have h1 : (s.objs ++ [c])[j]? = none := by
        apply List.getElem?_eq_none; simp; omega
      have h2 : s.objs[j]? = none := by
        apply List.getElem?_eq_none; omega
      rw [h1, h2]

theorem RKr.push {s : Server} (hnw : NW T s) (c : Client) (co : List (Nat × Nat)) (hc : WillOK T c.will) :
    RKr T U s { s with objs := s.objs ++ [c], connOf := co } := by
  refine ⟨⟨fun j => ?_, hnw.2⟩, fun _ _ => rfl⟩
  rcases getObj_push_cases s c co j with e | e
  · rw [e]; exact hnw.1 j
  · rw [e]; exact hc

theorem connect_rk (hU : ∀ u, U u → T u) (s : Server) (conn : Nat) (k : Connect) (hnw : NW T s) (hk : k.avoids T) :
    RKr T U s (connect s conn k).1 := by
  unfold connect
  extract_lets +onlyGivenNames c i s1
  have w1 : RKr T U s s1 := RKr.push hnw c _ (parseConnect_willOK s conn k hk)
  split
  · split
    rename_i s2 o2 h2
    have := stopClient_rk (T := T) (U := U) s1 i w1.1
    rw [h2] at this
    exact w1.trans this
  · exact w1.trans (admitClient_rk hU s1 i conn k w1.1)

theorem ite_fst_rk {s : Server} {α} (c : Prop) [Decidable c] (a b : Server × α) (ha : RKr T U s a.1) (hb : RKr T U s b.1) :
    RKr T U s (if c then a else b).1 := by
  split <;> assumption

theorem connectHold_rk (hU : ∀ u, U u → T u) (s : Server) (conn : Nat) (k : Connect) (stage : Nat) (hnw : NW T s)
    (hk : k.avoids T) : RKr T U s (connectHold s conn k stage).1 := by
  unfold connectHold
  extract_lets +onlyGivenNames c i s1 dec
  have w1 : RKr T U s s1 := RKr.push hnw c _ (parseConnect_willOK s conn k hk)
  generalize dec = d
  cases d with
  | some code =>
    refine ite_fst_rk _ _ _ ?_ ?_
    · exact w1.upd rfl rfl rfl
    · extract_lets +onlyGivenNames o
      split
      rename_i s2 o2 h2
      have := stopClient_rk (T := T) (U := U) s1 i w1.1
      rw [h2] at this
      exact w1.trans this
  | none =>
    refine ite_fst_rk _ _ _ ?_ ?_
    · exact w1.upd rfl rfl rfl
    · split
      rename_i s2 o1 present exLive h1
      have w2 : RKr T U s s2 := by
        have := admitA_rk (T := T) (U := U) s1 i k w1.1
        rw [h1] at this; exact w1.trans this
      split
      rename_i s3 o4 h3
      have g3 : RKr T U s s3 := by
        split at h3
        · rename_i e
          have := detach_rk (U := U) hU s2 e true w2.1
          rw [h3] at this; exact w2.trans this
        · cases h3; exact w2
      exact g3.upd rfl rfl rfl

theorem connectRelease_rk (hU : ∀ u, U u → T u) (s : Server) (p : Pending) (hnw : NW T s) :
    RKr T U s (connectRelease s p).1 := by
  unfold connectRelease
  split
  · split
    · split
      rename_i s2 o2 h2
      have := stopClient_rk (T := T) (U := U) s p.obj hnw
      rw [h2] at this
      exact this
    · exact admitClient_rk hU s p.obj p.conn p.k hnw
  · split
    · exact (RKr.refl hnw).upd rfl rfl rfl
    · split
      rename_i s2 o2 h2
      have g2 : RKr T U s s2 := by
        have := admitConnack_rk (T := T) (U := U) s p.obj p.conn p.present hnw
        rw [h2] at this; exact this
      split
      rename_i s3 o3 h3
      have := admitC_rk (T := T) (U := U) s2 p.obj p.k p.present g2.1
      rw [h3] at this
      exact g2.trans this

/-! ### housekeeping -/

theorem tickClients_rk (s : Server) (dt : Int) (hnw : NW T s) : RKr T U s (tickClients s dt).1 := by
  unfold tickClients
  refine foldl_inv (fun (acc : Server × List Out) => RKr T U s acc.1) _ _ _ (RKr.refl hnw) ?_
  intro acc e h
  extract_lets +onlyGivenNames c
  split
  · extract_lets +onlyGivenNames s1 s2
    have g1 : RKr T U s s1 := h.trans (clearInflights_rk acc.1 e.2 h.1)
    have g2 : RKr T U s s2 := g1.trans (unsubscribeClient_rk s1 e.2 g1.1)
    exact g2.upd rfl rfl rfl
  · exact h

theorem tickInflight_rk (s : Server) (now : Int) (hnw : NW T s) : RKr T U s (tickInflight s now) := by
  unfold tickInflight
  refine foldl_inv (fun (x : Server) => RKr T U s x) _ _ _ (RKr.refl hnw) ?_
  intro b e h
  extract_lets +onlyGivenNames c
  refine foldl_inv (fun (x : Server) => RKr T U s x) _ _ _ h ?_
  intro b2 m h2
  extract_lets +onlyGivenNames expired enforced
  split
  · split
    rename_i c' ok heq
    have hc' : c'.will = (getObj b2 e.2).will := by
      have := congrArg (fun p => p.1.will) heq
      simp only [flDelete_will] at this
      exact this.symm
    extract_lets +onlyGivenNames s1
    have h3 : RKr T U s s1 := h2.set e.2 c' ((h2.1.1 e.2).of_eq hc')
    split
    · exact h3.upd rfl rfl rfl
    · exact h3
  · exact h2

theorem tickWills_rk (hU : ∀ u, U u → T u) (s : Server) (dt : Int) (hnw : NW T s) : RKr T U s (tickWills s dt).1 := by
  unfold tickWills
  refine foldl_inv_mem (fun (acc : Server × List Out) => RKr T U s acc.1) _ _ _ (RKr.refl hnw) ?_
  intro acc e hmem h
  split
  · split
    rename_i s1 o h1
    have g1 : RKr T U s s1 := by
      have := publishToSubscribers_rk (T := T) (U := U) acc.1 e.2 h.1
      rw [h1] at this
      exact h.trans this
    split
    rename_i s2 o2 h2
    have g2 : RKr T U s s2 := by
      split at h2
      · rename_i i _
        extract_lets +onlyGivenNames s3 at h2
        rw [← (Prod.mk.inj h2).1]
        have g3 : RKr T U s s3 := by
          show RKr T U s (if e.2.retain = true then retainMsg s1 e.2 else s1)
          by_cases hr : e.2.retain = true
          · rw [if_pos hr]
            exact g1.trans (retainMsg_rk s1 e.2 g1.1 (fun hu => hnw.2 e hmem hr (hU _ hu)))
          · rw [if_neg hr]; exact g1
        exact g3.mod i _ (WillOK.empty T)
      · cases h2; exact g1
    exact g2.updW rfl (fun x hx => mem_assocDel _ _ x hx) rfl
  · exact h

/-! ### `step` -/

theorem barrier_rk (hU : ∀ u, U u → T u) {s0 s1 : Server} {o : List Out} (conn : Nat) (b : Bool) (w1 : RKr T U s0 s1) :
    RKr T U s0 (if b = true then
          match recvOn s1 conn InPk.pingreq false with
          | (s, o2) => (s, o ++ o2.filter (fun x => match x with | .wrote _ .pingresp => false | _ => true))
        else (s1, o)).1 := by
  split
  · split
    rename_i s2 o2 h2
    have := recvOn_rk (U := U) hU s1 conn .pingreq false w1.1 trivial
    rw [h2] at this
    exact w1.trans this
  · exact w1

/-- the op is not a retained publish on a topic of `U`, not the retained-store housekeeping, and not a CONNECT with a
    retained will on a topic of `T` -/
def Op.avoids (T U : Str → Prop) : Op → Prop
  | .connect _ k => k.avoids T
  | .connectHold _ k _ => k.avoids T
  | .recv _ pk => pk.avoids U
  | .recvCut _ pk => pk.avoids U
  | .inlinePublish topic _ r _ => pubAvoids U r topic
  | .tick kind _ => kind ≠ "retained"
  | _ => True

/-- **every op that avoids `U` keeps the retained store at `U`** (and the will invariant for `T ⊇ U`) -/
theorem step_rk (hU : ∀ u, U u → T u) (s : Server) (op : Op) (hnw : NW T s) (hav : op.avoids T U) :
    RKr T U s (step s op).1 := by
  cases op with
  | connect conn k =>
    rw [step]
    split
    rename_i s1 o h1
    have w1 : RKr T U s s1 := by
      have := connect_rk (U := U) hU s conn k hnw hav
      rw [h1] at this; exact this
    split
    · exact barrier_rk hU conn _ w1
    · exact w1
  | recv conn pk =>
    rw [step]
    exact recvOn_rk hU s conn pk true hnw hav
  | drop conn =>
    rw [step]
    split
    · exact RKr.refl hnw
    · rename_i i _
      split
      · exact RKr.refl hnw
      · extract_lets +onlyGivenNames s1
        have g1 : RKr T U s s1 := (RKr.refl hnw).mod i _ (hnw.1 i)
        split
        rename_i s2 o h2
        have := detach_rk (U := U) hU s1 i true g1.1
        rw [h2] at this
        exact g1.trans this
  | recvCut conn pk =>
    rw [step]
    split
    · exact RKr.refl hnw
    · rename_i i _
      split
      · exact RKr.refl hnw
      · extract_lets +onlyGivenNames s1
        have g1 : RKr T U s s1 := (RKr.refl hnw).mod i _ (hnw.1 i)
        split
        rename_i s2 o h2
        have g2 : RKr T U s s2 := by
          have := recvOn_rk (U := U) hU s1 conn pk false g1.1 hav
          rw [h2] at this
          exact g1.trans this
        split
        rename_i s3 o2 h3
        show RKr T U s s3
        split at h3
        · cases h3; exact g2
        · have := detach_rk (U := U) hU s2 i true g2.1
          rw [h3] at this
          exact g2.trans this
  | dropHold conn =>
    rw [step]
    split
    · exact RKr.refl hnw
    · rename_i i _
      split
      · exact RKr.refl hnw
      · extract_lets +onlyGivenNames s1
        have g1 : RKr T U s s1 := (RKr.refl hnw).mod i _ (hnw.1 i)
        split
        rename_i s2 o h2
        have := detachA_rk (U := U) hU s1 i true g1.1
        rw [h2] at this
        exact (g1.trans this).upd rfl rfl rfl
  | release conn =>
    rw [step]
    split
    · rename_i p hp
      split
      rename_i s1 o h1
      have w1 : RKr T U s s1 := by
        have w0 : RKr T U s { s with pending := s.pending.filter (·.conn != conn) } := (RKr.refl hnw).upd rfl rfl rfl
        have := connectRelease_rk (U := U) hU { s with pending := s.pending.filter (·.conn != conn) } p w0.1
        rw [h1] at this
        exact w0.trans this
      exact barrier_rk hU conn _ w1
    · split
      · exact RKr.refl hnw
      · rename_i i _
        split
        · have w0 : RKr T U s { s with parked := s.parked.filter (· != i) } := (RKr.refl hnw).upd rfl rfl rfl
          exact w0.trans (detachB_rk _ i w0.1)
        · split
          · split
            rename_i s1 o h1
            have w0 : RKr T U s { s with parkedEarly := s.parkedEarly.filter (· != i) } := (RKr.refl hnw).upd rfl rfl rfl
            have := detach_rk (U := U) hU { s with parkedEarly := s.parkedEarly.filter (· != i) } i true w0.1
            rw [h1] at this
            exact w0.trans this
          · exact RKr.refl hnw
  | dropHoldEarly conn =>
    rw [step]
    split
    · exact RKr.refl hnw
    · rename_i i _
      split
      · exact RKr.refl hnw
      · have w0 : RKr T U s { s with parkedEarly := s.parkedEarly ++ [i] } := (RKr.refl hnw).upd rfl rfl rfl
        exact w0.mod i _ (w0.1.1 i)
  | connectHold conn k stage =>
    rw [step]
    exact connectHold_rk hU s conn k stage hnw hav
  | tick kind t =>
    rw [step]
    split
    · exact tickClients_rk s t hnw
    · split
      · rename_i hk
        exact absurd (by simpa using hk) hav
      · split
        · exact tickInflight_rk s t hnw
        · split
          · exact tickWills_rk hU s t hnw
          · exact RKr.refl hnw
  | inlinePublish topic payload retain qos =>
    rw [step]
    exact receivePacket_rk s 0 _ hnw hav
  | inlineSubscribe id filter =>
    rw [step]
    split
    · exact RKr.refl hnw
    · exact (RKr.refl hnw).upd rfl rfl rfl
  | inlineUnsubscribe id filter =>
    rw [step]
    split
    · exact RKr.refl hnw
    · exact (RKr.refl hnw).upd rfl rfl rfl


/-- the ops that can add a will: CONNECT without a retained will on a topic of `T` -/
def Op.willAvoids (T : Str → Prop) : Op → Prop
  | .connect _ k => k.avoids T
  | .connectHold _ k _ => k.avoids T
  | _ => True

theorem Op.avoids_empty {op : Op} (h : op.willAvoids T) (hk : ∀ kind t, op = .tick kind t → kind ≠ "retained") :
    op.avoids T (fun _ => False) := by
  cases op with
  | connect conn k => exact h
  | connectHold conn k st => exact h
  | recv conn pk => cases pk <;> first | trivial | exact fun _ _ hu => hu.elim
  | recvCut conn pk => cases pk <;> first | trivial | exact fun _ _ hu => hu.elim
  | inlinePublish topic payload r q => exact fun _ _ hu => hu.elim
  | tick kind t => exact hk kind t rfl
  | drop _ => trivial
  | dropHold _ => trivial
  | dropHoldEarly _ => trivial
  | release _ => trivial
  | inlineSubscribe _ _ => trivial
  | inlineUnsubscribe _ _ => trivial

end

/-! ### the retained-store housekeeping -/

/-- a retained message is due for removal by `tickRetained` at time `now` -/
def retDue (caps : Caps) (now : Int) (m : Msg) : Bool :=
  (m.ver == 5 && m.expiry > 0 && m.expiry < now) || (caps.maxMessageExpiry > 0 && now - m.created > caps.maxMessageExpiry)

/-- one iteration of `tickRetained` -/
def trStep (now : Int) (s : Server) (e : Str × Msg) : Server :=
  if retDue s.caps now e.2 then
    { s with rmsgs := assocDel s.rmsgs e.1, topics := { s.topics with retained := assocDel s.topics.retained e.1 } }
  else s

theorem tickRetainedLoop_eq (s : Server) (now : Int) :
    tickRetained.tickRetainedLoop s now = s.rmsgs.foldl (trStep now) s := rfl

theorem trStep_caps (now : Int) (s : Server) (e : Str × Msg) : (trStep now s e).caps = s.caps := by
  unfold trStep; split <;> rfl
theorem trStep_objs (now : Int) (s : Server) (e : Str × Msg) : (trStep now s e).objs = s.objs := by
  unfold trStep; split <;> rfl
theorem trStep_willDelayed (now : Int) (s : Server) (e : Str × Msg) : (trStep now s e).willDelayed = s.willDelayed := by
  unfold trStep; split <;> rfl

theorem trStep_look (now : Int) (s : Server) (e : Str × Msg) (t : Str) :
    assocGet (trStep now s e).rmsgs t = if retDue s.caps now e.2 = true ∧ t = e.1 then none else assocGet s.rmsgs t := by
  unfold trStep
  by_cases h : retDue s.caps now e.2 = true
  · rw [if_pos h]
    show assocGet (assocDel s.rmsgs e.1) t = _
    rw [assocGet_assocDel]
    by_cases ht : t = e.1
    · rw [if_pos ht, if_pos ⟨h, ht⟩]
    · rw [if_neg ht, if_neg (fun x => ht x.2)]
  · rw [if_neg h, if_neg (fun x => h x.1)]

theorem trFold_caps (now : Int) (L : List (Str × Msg)) (b : Server) : (L.foldl (trStep now) b).caps = b.caps := by
  induction L generalizing b with
  | nil => rfl
  | cons x xs ih => rw [List.foldl_cons, ih, trStep_caps]

theorem trFold_objs (now : Int) (L : List (Str × Msg)) (b : Server) :
    (L.foldl (trStep now) b).objs = b.objs ∧ (L.foldl (trStep now) b).willDelayed = b.willDelayed := by
  induction L generalizing b with
  | nil => exact ⟨rfl, rfl⟩
  | cons x xs ih => rw [List.foldl_cons]; exact ⟨(ih _).1.trans (trStep_objs ..), (ih _).2.trans (trStep_willDelayed ..)⟩

/-- housekeeping only removes -/
theorem trFold_mono (now : Int) (L : List (Str × Msg)) (b : Server) (t : Str) :
    assocGet (L.foldl (trStep now) b).rmsgs t = none ∨ assocGet (L.foldl (trStep now) b).rmsgs t = assocGet b.rmsgs t := by
  induction L generalizing b with
  | nil => exact Or.inr rfl
  | cons x xs ih =>
    rw [List.foldl_cons]
    rcases ih (trStep now b x) with h | h
    · exact Or.inl h
    · rw [h, trStep_look]
      split
      · exact Or.inl rfl
      · exact Or.inr rfl

/-- … and removes every entry that is due -/
theorem trFold_gone (now : Int) (L : List (Str × Msg)) (b : Server) (e : Str × Msg) (he : e ∈ L)
    (hd : retDue b.caps now e.2 = true) : assocGet (L.foldl (trStep now) b).rmsgs e.1 = none := by
  induction L generalizing b with
  | nil => cases he
  | cons x xs ih =>
    rw [List.foldl_cons]
    rcases List.mem_cons.mp he with h | h
    · subst h
      rcases trFold_mono now xs (trStep now b e) e.1 with h | h
      · exact h
      · rw [h, trStep_look, if_pos ⟨hd, rfl⟩]
    · exact ih _ h (by rw [trStep_caps]; exact hd)

/-- … and nothing that is not due -/
theorem trFold_kept (now : Int) (L : List (Str × Msg)) (b : Server) (t : Str)
    (hk : ∀ e ∈ L, e.1 = t → retDue b.caps now e.2 = false) :
    assocGet (L.foldl (trStep now) b).rmsgs t = assocGet b.rmsgs t := by
  induction L generalizing b with
  | nil => rfl
  | cons x xs ih =>
    rw [List.foldl_cons, ih _ (fun e he ht => by rw [trStep_caps]; exact hk e (List.mem_cons_of_mem _ he) ht), trStep_look]
    by_cases hx : t = x.1
    · rw [if_neg (fun h => by rw [hk x List.mem_cons_self hx.symm] at h; cases h.1)]
    · rw [if_neg (fun h => hx h.2)]

theorem assocGet_some_mem {α β} [DecidableEq α] (m : List (α × β)) (k : α) (v : β) (h : assocGet m k = some v) :
    (k, v) ∈ m := by
  induction m with
  | nil => cases h
  | cons x xs ih =>
    obtain ⟨a, b⟩ := x
    unfold assocGet at h
    by_cases hak : a = k
    · rw [if_pos hak] at h
      cases h; subst hak
      exact List.mem_cons_self
    · rw [if_neg hak] at h
      exact List.mem_cons_of_mem _ (ih h)

theorem tickRetained_rmsgs (s : Server) (now : Int) :
    (tickRetained s now).rmsgs = (s.rmsgs.foldl (trStep now) s).rmsgs := rfl

/-- **the housekeeping removes a due retained message** -/
theorem tickRetained_gone (s : Server) (now : Int) (t : Str) (m : Msg) (hm : assocGet s.rmsgs t = some m)
    (hd : retDue s.caps now m = true) : assocGet (tickRetained s now).rmsgs t = none := by
  rw [tickRetained_rmsgs]
  exact trFold_gone now s.rmsgs s (t, m) (assocGet_some_mem _ _ _ hm) hd

theorem tickRetained_mono (s : Server) (now : Int) (t : Str) :
    assocGet (tickRetained s now).rmsgs t = none ∨ assocGet (tickRetained s now).rmsgs t = assocGet s.rmsgs t := by
  rw [tickRetained_rmsgs]
  exact trFold_mono now s.rmsgs s t

theorem tickRetained_kept (s : Server) (now : Int) (t : Str)
    (hk : ∀ e ∈ s.rmsgs, e.1 = t → retDue s.caps now e.2 = false) :
    assocGet (tickRetained s now).rmsgs t = assocGet s.rmsgs t := by
  rw [tickRetained_rmsgs]
  exact trFold_kept now s.rmsgs s t hk

theorem tickRetained_nw {T : Str → Prop} (s : Server) (now : Int) (hnw : NW T s) : NW T (tickRetained s now) := by
  have h := trFold_objs now s.rmsgs s
  have ho : (tickRetained s now).objs = s.objs := h.1
  have hw : (tickRetained s now).willDelayed = s.willDelayed := h.2
  exact ⟨fun j => by rw [getObj_of_objs_eq ho j]; exact hnw.1 j, fun e he => hnw.2 e (hw ▸ he)⟩

theorem step_tick_retained (s : Server) (now : Int) : step s (.tick "retained" now) = (tickRetained s now, []) := by
  rw [step]
  rw [if_neg (by decide), if_pos (by decide)]

/-! ### along histories -/

section
variable {T U : Str → Prop}

/-- every op keeps "no retained will on a topic of `T`", unless it is a CONNECT bringing one -/
theorem NW_step (s : Server) (op : Op) (hnw : NW T s) (hw : op.willAvoids T) : NW T (step s op).1 := by
  by_cases hk : ∃ now, op = .tick "retained" now
  · obtain ⟨now, rfl⟩ := hk
    rw [step_tick_retained]
    exact tickRetained_nw s now hnw
  · refine (step_rk (T := T) (U := fun _ => False) (fun _ h => h.elim) s op hnw (Op.avoids_empty hw ?_)).1
    intro kind t e hkind
    exact hk ⟨t, by rw [e, hkind]⟩

theorem NW_run (s : Server) (ops : List Op) (hnw : NW T s) (hw : ∀ op ∈ ops, op.willAvoids T) : NW T (run s ops) := by
  induction ops generalizing s with
  | nil => exact hnw
  | cons op ops ih =>
    exact ih _ (NW_step s op hnw (hw op List.mem_cons_self)) (fun o ho => hw o (List.mem_cons_of_mem _ ho))

theorem run_rk (hU : ∀ u, U u → T u) (s : Server) (ops : List Op) (hnw : NW T s) (hav : ∀ op ∈ ops, op.avoids T U) :
    RKr T U s (run s ops) := by
  induction ops generalizing s with
  | nil => exact RKr.refl hnw
  | cons op ops ih =>
    have h1 := step_rk hU s op hnw (hav op List.mem_cons_self)
    exact h1.trans (ih _ h1.1 (fun o ho => hav o (List.mem_cons_of_mem _ ho)))

theorem run_append_rk (s : Server) (a b : List Op) : run s (a ++ b) = run (run s a) b := by
  unfold run; rw [List.foldl_append]

theorem run_cons_rk (s : Server) (op : Op) (ops : List Op) : run s (op :: ops) = run (step s op).1 ops := rfl

end

end Mochi.Broker
