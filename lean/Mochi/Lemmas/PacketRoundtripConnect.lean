import Mochi.Lemmas.PacketRoundtrip
/-!
Round trip of whole packets, part 3: CONNECT (flag byte, optional will block with its own property
block, optional user name and password).

`connectDecode` is one long `do` block; it is cut here into its tails (`tailProps`, `tailClient`,
`tailWill`, `tailUser`, `tailPass`) — `connectDecode_eq` is by `rfl` — and each tail gets its own lemma.
-/
namespace Mochi.Codec
open Mochi.Varint

/-! ### the flag byte -/

def connectFlags (c : ConnectParams) : Nat :=
  encodeBool c.clean * 2 ||| encodeBool c.willFlag * 4 ||| (c.willQos * 8) % 256 |||
    encodeBool c.willRetain * 32 ||| encodeBool c.passwordFlag * 64 ||| encodeBool c.usernameFlag * 128

theorem connectFlags_roundtrip (cl wf wr pf uf : Bool) (wq : Nat) (hq : wq < 4) :
    let f := encodeBool cl * 2 ||| encodeBool wf * 4 ||| (wq * 8) % 256 ||| encodeBool wr * 32 ||| encodeBool pf * 64 |||
      encodeBool uf * 128
    decide (bit f 1 > 0) = cl ∧ decide (bit f 2 > 0) = wf ∧ (f / 8) % 4 = wq ∧ decide (bit f 5 > 0) = wr ∧
      decide (bit f 6 > 0) = pf ∧ decide (bit f 7 > 0) = uf ∧ f % 2 = 0 := by
  have h1 : wq = 0 ∨ wq = 1 ∨ wq = 2 ∨ wq = 3 := by omega
  rcases h1 with rfl | rfl | rfl | rfl <;> cases cl <;> cases wf <;> cases wr <;> cases pf <;> cases uf <;> decide

/-! ### the tails of `connectDecode` -/

def tailPass (buf : Str) (pk : Packet) (off : Nat) : Dec Packet :=
  if pk.connect.passwordFlag then do
    let (pw, _) ← wrapErr "ErrMalformedPassword" (decodeBytes buf off)
    pure { pk with connect := { pk.connect with password := pw } }
  else pure pk

def tailUser (buf : Str) (pk : Packet) (off : Nat) : Dec Packet := do
  let (pk, off) ← (if pk.connect.usernameFlag then
      if off ≥ buf.length then err "ErrProtocolViolationFlagNoUsername"
      else do
        let (u, off) ← wrapErr "ErrMalformedUsername" (decodeBytes buf off)
        pure ({ pk with connect := { pk.connect with username := u } }, off)
    else pure (pk, off))
  tailPass buf pk off

def tailWill (buf : Str) (pk : Packet) (ver off : Nat) : Dec Packet := do
  let (pk, off) ← (if pk.connect.willFlag then do
      let (pk, off) ← (if ver == 5 then do
          let (wp, off) ← decodePropsAt "ErrMalformedWillProperties" tWillProperties buf off pk.connect.willProperties
          pure ({ pk with connect := { pk.connect with willProperties := wp } }, off)
        else pure (pk, off))
      let (wt, off) ← wrapErr "ErrMalformedWillTopic" (decodeString buf off)
      let (wpl, off) ← wrapErr "ErrMalformedWillPayload" (decodeBytes buf off)
      pure ({ pk with connect := { pk.connect with willTopic := wt, willPayload := wpl } }, off)
    else pure (pk, off))
  tailUser buf pk off

def tailClient (buf : Str) (pk : Packet) (ver off : Nat) : Dec Packet := do
  let (cid, off) ← wrapErr "ErrClientIdentifierNotValid" (decodeString buf off)
  let pk := { pk with connect := { pk.connect with clientIdentifier := cid } }
  tailWill buf pk ver off

def tailProps (buf : Str) (pk : Packet) (ver off : Nat) : Dec Packet := do
  let (pk, off) ← (if ver == 5 then do
      let (props, off) ← decodePropsAt "ErrMalformedProperties" pk.fixedHeader.type buf off pk.properties
      pure ({ pk with properties := props }, off)
    else pure (pk, off))
  tailClient buf pk ver off

theorem connectDecode_eq (pk : Packet) (buf : Str) : connectDecode pk buf = (do
    let (pname, off) ← wrapErr "ErrMalformedProtocolName" (decodeBytes buf 0)
    let (ver, off) ← wrapErr "ErrMalformedProtocolVersion" (decodeByte buf off)
    let (flags, off) ← wrapErr "ErrMalformedFlags" (decodeByte buf off)
    let c : ConnectParams := { pk.connect with
      protocolName := pname, clean := bit flags 1 > 0, willFlag := bit flags 2 > 0, willQos := (flags / 8) % 4,
      willRetain := bit flags 5 > 0, passwordFlag := bit flags 6 > 0, usernameFlag := bit flags 7 > 0 }
    let pk := { pk with protocolVersion := ver, reservedBit := flags % 2, connect := c }
    let (ka, off) ← wrapErr "ErrMalformedKeepalive" (decodeUint16 buf off)
    let pk := { pk with connect := { pk.connect with keepalive := ka } }
    tailProps buf pk ver off) := rfl

/-! ### the wire segments -/

def segPass (c : ConnectParams) : Str := if c.passwordFlag then encodeBytes c.password else []
def segUser (c : ConnectParams) : Str := if c.usernameFlag then encodeBytes c.username else []
def segWill (ver : Nat) (mods : Mods) (c : ConnectParams) : Str :=
  if c.willFlag then
    (if ver == 5 then propsEncode tWillProperties mods 0 c.willProperties else []) ++
      (encodeBytes c.willTopic ++ encodeBytes c.willPayload)
  else []

theorem tailPass_At {buf : Str} {off : Nat} (pk0 : Packet) (c : ConnectParams)
    (hf : pk0.connect.passwordFlag = c.passwordFlag) (hw : c.passwordFlag = true → wfBin c.password)
    (h : At buf off (segPass c)) :
    tailPass buf pk0 off = .ok { pk0 with connect := { pk0.connect with
      password := if c.passwordFlag then c.password else pk0.connect.password } } := by
  unfold tailPass
  rw [hf]
  cases hc : c.passwordFlag with
  | true =>
    have h' : At buf off (encodeBytes c.password ++ []) := by simpa [segPass, hc] using h
    have e := decodeBytes_At h' (hw hc)
    simp [e, wrapErr, bind, Except.bind, pure, Except.pure]
  | false => simp [pure, Except.pure]

theorem tailUser_At {buf : Str} {off : Nat} (pk0 : Packet) (c : ConnectParams)
    (hfu : pk0.connect.usernameFlag = c.usernameFlag) (hfp : pk0.connect.passwordFlag = c.passwordFlag)
    (hwu : c.usernameFlag = true → wfBin c.username) (hwp : c.passwordFlag = true → wfBin c.password)
    (h : At buf off (segUser c ++ segPass c)) :
    tailUser buf pk0 off = .ok { pk0 with connect := { pk0.connect with
      username := if c.usernameFlag then c.username else pk0.connect.username,
      password := if c.passwordFlag then c.password else pk0.connect.password } } := by
  unfold tailUser
  rw [hfu]
  cases hc : c.usernameFlag with
  | true =>
    have h' : At buf off (encodeBytes c.username ++ segPass c) := by simpa [segUser, hc] using h
    have e := decodeBytes_At h' (hwu hc)
    have hl := h'.length
    have hlt : ¬ off ≥ buf.length := by rw [hl]; simp [encodeBytes_length]; omega
    have e2 := tailPass_At { pk0 with connect := { pk0.connect with username := c.username } } c hfp hwp h'.step_bytes
    simp only [if_true, hlt, if_false, e, wrapErr, bind, Except.bind, pure, Except.pure, e2]
  | false =>
    have h' : At buf off (segPass c) := by simpa [segUser, hc] using h
    have e2 := tailPass_At pk0 c hfp hwp h'
    simp only [Bool.false_eq_true, if_false, bind, Except.bind, pure, Except.pure, e2]

/-- well-formedness of the will block -/
def WFWill (ver : Nat) (mods : Mods) (c : ConnectParams) : Prop :=
  wfStr c.willTopic ∧ wfBin c.willPayload ∧
  (ver = 5 → WFProps c.willProperties ∧ propsBodyLenC tWillProperties mods 0 c.willProperties ≤ maxVBI)

theorem tailWill_At {buf : Str} {off : Nat} (pk0 : Packet) (ver : Nat) (mods : Mods) (c : ConnectParams)
    (hfw : pk0.connect.willFlag = c.willFlag) (hwp0 : pk0.connect.willProperties = {})
    (hfu : pk0.connect.usernameFlag = c.usernameFlag) (hfp : pk0.connect.passwordFlag = c.passwordFlag)
    (hww : c.willFlag = true → WFWill ver mods c)
    (hwu : c.usernameFlag = true → wfBin c.username) (hwp : c.passwordFlag = true → wfBin c.password)
    (h : At buf off (segWill ver mods c ++ (segUser c ++ segPass c))) :
    tailWill buf pk0 ver off = .ok { pk0 with connect := { pk0.connect with
      willProperties := if c.willFlag && ver == 5 then normProps tWillProperties mods 0 c.willProperties else {},
      willTopic := if c.willFlag then c.willTopic else pk0.connect.willTopic,
      willPayload := if c.willFlag then c.willPayload else pk0.connect.willPayload,
      username := if c.usernameFlag then c.username else pk0.connect.username,
      password := if c.passwordFlag then c.password else pk0.connect.password } } := by
  unfold tailWill
  rw [hfw]
  cases hc : c.willFlag with
  | false =>
    have h' : At buf off (segUser c ++ segPass c) := by simpa [segWill, hc] using h
    have e2 := tailUser_At pk0 c hfu hfp hwu hwp h'
    simp only [Bool.false_eq_true, if_false, bind, Except.bind, pure, Except.pure, e2, Bool.false_and, hwp0]
  | true =>
    obtain ⟨hwt, hwpl, hwprops⟩ := hww hc
    by_cases hv : ver = 5
    · obtain ⟨hwf, hlen⟩ := hwprops hv
      have hv' : (ver == 5) = true := by simpa using hv
      have h' : At buf off (propsEncode tWillProperties mods 0 c.willProperties ++
          (encodeBytes c.willTopic ++ (encodeBytes c.willPayload ++ (segUser c ++ segPass c)))) := by
        simpa [segWill, hc, hv', List.append_assoc] using h
      have e1 := decodePropsAt_AtC (name := "ErrMalformedWillProperties") h' hwf hlen
      have h1 := h'.step
      have e2 := decodeString_At h1 hwt
      have h2 := h1.step_bytes
      have e3 := decodeBytes_At h2 hwpl
      have h3 := h2.step_bytes
      have e4 := tailUser_At { pk0 with connect := { pk0.connect with
        willProperties := normProps tWillProperties mods 0 c.willProperties,
        willTopic := c.willTopic, willPayload := c.willPayload } } c hfu hfp hwu hwp h3
      simp only [if_true, hv', hwp0, e1, e2, e3, wrapErr, bind, Except.bind, pure, Except.pure]
      rw [e4]
      simp
    · have hv' : (ver == 5) = false := by simpa using hv
      have h' : At buf off (encodeBytes c.willTopic ++ (encodeBytes c.willPayload ++ (segUser c ++ segPass c))) := by
        simpa [segWill, hc, hv', List.append_assoc] using h
      have e2 := decodeString_At h' hwt
      have h2 := h'.step_bytes
      have e3 := decodeBytes_At h2 hwpl
      have h3 := h2.step_bytes
      have e4 := tailUser_At { pk0 with connect := { pk0.connect with
        willTopic := c.willTopic, willPayload := c.willPayload } } c hfu hfp hwu hwp h3
      simp only [if_true, hv', Bool.false_eq_true, if_false, e2, e3, wrapErr, bind, Except.bind, pure, Except.pure]
      rw [e4]
      simp [hwp0]

/-- everything behind the keep-alive: property block, client identifier, will, user name, password -/
def segRest (pk : Packet) : Str :=
  (if pk.protocolVersion == 5 then propsEncode 1 pk.mods 0 pk.properties else []) ++
    (encodeBytes pk.connect.clientIdentifier ++
      (segWill pk.protocolVersion pk.mods pk.connect ++ (segUser pk.connect ++ segPass pk.connect)))

def connectBody (pk : Packet) : Str :=
  encodeBytes pk.connect.protocolName ++ (pk.protocolVersion % 256 :: connectFlags pk.connect ::
    (encodeUint16 pk.connect.keepalive ++ segRest pk))

def WFConnect (pk : Packet) : Prop :=
  WFHeader pk.fixedHeader ∧ pk.protocolVersion < 256 ∧ wfBin pk.connect.protocolName ∧ pk.connect.keepalive < 65536 ∧
  pk.connect.willQos < 4 ∧ wfStr pk.connect.clientIdentifier ∧
  (pk.connect.willFlag = true → WFWill pk.protocolVersion pk.mods pk.connect) ∧
  (pk.connect.usernameFlag = true → wfBin pk.connect.username) ∧
  (pk.connect.passwordFlag = true → wfBin pk.connect.password) ∧
  (pk.protocolVersion = 5 → WFProps pk.properties ∧ propsBodyLenC 1 pk.mods 0 pk.properties ≤ maxVBI)

/-- what a CONNECT carries: the reserved flag bit is written as 0; will topic, payload and properties
    only with the will flag; user name and password only with their flags -/
def connectNorm (pk : Packet) : Packet :=
  let c := pk.connect
  { basePacket pk (connectBody pk) with
    reservedBit := 0,
    properties := if pk.protocolVersion == 5 then normProps 1 pk.mods 0 pk.properties else {},
    connect := {
      protocolName := c.protocolName, clean := c.clean, willFlag := c.willFlag, willQos := c.willQos,
      willRetain := c.willRetain, passwordFlag := c.passwordFlag, usernameFlag := c.usernameFlag,
      keepalive := c.keepalive, clientIdentifier := c.clientIdentifier,
      willProperties := if c.willFlag && pk.protocolVersion == 5 then
        normProps tWillProperties pk.mods 0 c.willProperties else {},
      willTopic := if c.willFlag then c.willTopic else [],
      willPayload := if c.willFlag then c.willPayload else [],
      username := if c.usernameFlag then c.username else [],
      password := if c.passwordFlag then c.password else [] } }

theorem tailProps_At (pk : Packet) {buf : Str} {off : Nat} (pk0 : Packet)
    (hwf : WFConnect pk) (ht : pk0.fixedHeader.type = 1) (hp0 : pk0.properties = {})
    (hfw : pk0.connect.willFlag = pk.connect.willFlag) (hwp0 : pk0.connect.willProperties = {})
    (hfu : pk0.connect.usernameFlag = pk.connect.usernameFlag) (hfp : pk0.connect.passwordFlag = pk.connect.passwordFlag)
    (h : At buf off (segRest pk)) :
    tailProps buf pk0 pk.protocolVersion off = .ok { pk0 with
      properties := if pk.protocolVersion == 5 then normProps 1 pk.mods 0 pk.properties else {},
      connect := { pk0.connect with
        clientIdentifier := pk.connect.clientIdentifier,
        willProperties := if pk.connect.willFlag && pk.protocolVersion == 5 then
          normProps tWillProperties pk.mods 0 pk.connect.willProperties else {},
        willTopic := if pk.connect.willFlag then pk.connect.willTopic else pk0.connect.willTopic,
        willPayload := if pk.connect.willFlag then pk.connect.willPayload else pk0.connect.willPayload,
        username := if pk.connect.usernameFlag then pk.connect.username else pk0.connect.username,
        password := if pk.connect.passwordFlag then pk.connect.password else pk0.connect.password } } := by
  obtain ⟨_, _, _, _, _, hcid, hww, hwu, hwp, hp⟩ := hwf
  unfold tailProps tailClient
  by_cases hv : pk.protocolVersion = 5
  · obtain ⟨hwfp, hlen⟩ := hp hv
    have hv' : (pk.protocolVersion == 5) = true := by simpa using hv
    have h' : At buf off (propsEncode 1 pk.mods 0 pk.properties ++ (encodeBytes pk.connect.clientIdentifier ++
        (segWill pk.protocolVersion pk.mods pk.connect ++ (segUser pk.connect ++ segPass pk.connect)))) := by
      simpa [segRest, hv'] using h
    have e1 := decodePropsAt_AtC (name := "ErrMalformedProperties") h' hwfp hlen
    have h1 := h'.step
    have e2 := decodeString_At h1 hcid
    have h2 := h1.step_bytes
    have e3 := tailWill_At
      { pk0 with
        properties := normProps 1 pk.mods 0 pk.properties
        connect := { pk0.connect with clientIdentifier := pk.connect.clientIdentifier } }
      pk.protocolVersion pk.mods pk.connect hfw hwp0 hfu hfp hww hwu hwp h2
    simp only [hv', if_true, ht, hp0, e1, e2, wrapErr, bind, Except.bind, pure, Except.pure]
    rw [e3]
    simp [hv]
  · have hv' : (pk.protocolVersion == 5) = false := by simpa using hv
    have h' : At buf off (encodeBytes pk.connect.clientIdentifier ++
        (segWill pk.protocolVersion pk.mods pk.connect ++ (segUser pk.connect ++ segPass pk.connect))) := by
      simpa [segRest, hv'] using h
    have e2 := decodeString_At h' hcid
    have h2 := h'.step_bytes
    have e3 := tailWill_At { pk0 with connect := { pk0.connect with clientIdentifier := pk.connect.clientIdentifier } }
      pk.protocolVersion pk.mods pk.connect hfw hwp0 hfu hfp hww hwu hwp h2
    simp only [hv', Bool.false_eq_true, if_false, e2, wrapErr, bind, Except.bind, pure, Except.pure]
    rw [e3]
    simp [hp0, hv]

set_option linter.unusedSimpArgs false in
theorem C26_connect_roundtrip (pk : Packet) (ht : pk.fixedHeader.type = 1) (h : WFConnect pk) :
    RoundTrips pk (connectBody pk) (connectNorm pk) := by
  have hwf := h
  obtain ⟨hh, hpv, hpn, hka, hwq, _, _, _, _, _⟩ := h
  refine ⟨?_, header_roundtrip _ hh, ?_⟩
  · rw [encodePacket_connect pk ht]
    simp only [connectEncode, withHeader_eq, connectBody, segRest, segWill, segUser, segPass, connectFlags, ht,
      tWillProperties]
    simp [List.append_assoc]
  · rw [decodeBody_connect pk _ ht, connectDecode_eq]
    have hm : pk.protocolVersion % 256 = pk.protocolVersion := Nat.mod_eq_of_lt hpv
    have h0 : At (connectBody pk) 0 (encodeBytes pk.connect.protocolName ++ (pk.protocolVersion :: connectFlags pk.connect ::
        (encodeUint16 pk.connect.keepalive ++ segRest pk))) := by
      have := At.zero (connectBody pk)
      simpa [connectBody, hm] using this
    have e1 := decodeBytes_At h0 hpn
    have h1 := h0.step_bytes
    have e2 := decodeByte_At h1
    have h2 := h1.cons
    have e3 := decodeByte_At h2
    have h3 := h2.cons
    have e4 := decodeUint16_At h3 hka
    have h4 := h3.step_u16
    obtain ⟨f1, f2, f3, f4, f5, f6, f7⟩ := connectFlags_roundtrip pk.connect.clean pk.connect.willFlag pk.connect.willRetain
      pk.connect.passwordFlag pk.connect.usernameFlag pk.connect.willQos hwq
    simp only [e1, e2, e3, e4, wrapErr, bind, Except.bind, pure, Except.pure, basePacket]
    simp only [gt_iff_lt] at f1 f2 f4 f5 f6
    rw [tailProps_At pk _ hwf ?_ ?_ ?_ ?_ ?_ ?_ h4]
    · simp [connectNorm, basePacket, connectFlags, f1, f2, f3, f4, f5, f6, f7]
    all_goals first | rfl | exact ht | simp [connectFlags, f1, f2, f3, f4, f5, f6, f7]

end Mochi.Codec
