import Mochi.Lemmas.BrokerInboundWalk
/-!
# C08 — an inbound QoS 2 exchange: open, what may end it, the accepted PUBLISH, the retransmission

* `InOpen s cid k`      — decidable: the object registered under `cid` holds, under packet identifier `k`, an in-flight
                          record of type 5 (PUBREC) that is not deferred (`0 ≤ expiry`): the inbound exchange `k` is open;
* `InEnds s cid k op`   — decidable: `op` may end that exchange in state `s` (`Q08.Ends`, see
                          `Mochi/Lemmas/BrokerInboundWalk.lean`);
* `inbound_record_survives_step` — every op (all 12 kinds) that is not in `InEnds` keeps the very same record;
* `AcceptedQ2`, `pubrecFiled`, `processPublish_accepted_qos2`, `step_recv_publish_q2` — the accepted QoS 2 PUBLISH;
* `step_recv_publish_dup` — the retransmission while the exchange is open.
-/
namespace Mochi.Broker
open Mochi.Topics

/-! ### the open exchange -/

/-- **the inbound QoS 2 exchange `k` of client `cid` is open**: the object registered under `cid` holds a PUBREC record
    (type 5, not deferred) under packet identifier `k` -/
def InOpen (s : Server) (cid : Str) (k : Nat) : Prop :=
  match assocGet s.clients cid with
  | some i =>
    (match flGet (getObj s i) k with
     | some m => m.type = 5 ∧ 0 ≤ m.expiry
     | none => False)
  | none => False

instance (s : Server) (cid : Str) (k : Nat) : Decidable (InOpen s cid k) := by
  unfold InOpen; split
  · split <;> infer_instance
  · infer_instance

/-- … and `m` is that record -/
def InOpenRec (s : Server) (cid : Str) (k : Nat) (m : Msg) : Prop := Q08.Holds s cid k m

instance (s : Server) (cid : Str) (k : Nat) (m : Msg) : Decidable (InOpenRec s cid k m) :=
  inferInstanceAs (Decidable (Q08.Holds s cid k m))

/-- **the ops that may end the inbound exchange `k` of client `cid` in state `s`** -/
def InEnds (s : Server) (cid : Str) (k : Nat) (op : Op) : Prop := Q08.Ends s cid k op

instance (s : Server) (cid : Str) (k : Nat) (op : Op) : Decidable (InEnds s cid k op) :=
  inferInstanceAs (Decidable (Q08.Ends s cid k op))

theorem q08_recOk_self (m : Msg) (ht : m.type = 5) (he : 0 ≤ m.expiry) : Q08.recOk m m = true := by
  simp [Q08.recOk, ht, he]

theorem q08_recOk_elim {m p : Msg} (h : Q08.recOk m p = true) : m = p ∧ 0 ≤ m.expiry ∧ m.type = 5 := by
  simpa [Q08.recOk, and_assoc] using h

theorem InOpenRec.spec {s : Server} {cid : Str} {k : Nat} {m : Msg} (h : InOpenRec s cid k m) :
    ∃ i, assocGet s.clients cid = some i ∧ flGet (getObj s i) k = some m ∧ m.type = 5 ∧ 0 ≤ m.expiry := by
  obtain ⟨i, hi, m', hm', hok⟩ := h
  obtain ⟨e, h1, h2⟩ := q08_recOk_elim hok
  subst e
  exact ⟨i, hi, hm', h2, h1⟩

theorem InOpenRec.of_spec {s : Server} {cid : Str} {k : Nat} {m : Msg} {i : Nat} (hi : assocGet s.clients cid = some i)
    (hm : flGet (getObj s i) k = some m) (ht : m.type = 5) (he : 0 ≤ m.expiry) : InOpenRec s cid k m :=
  ⟨i, hi, m, hm, q08_recOk_self m ht he⟩

theorem InOpen_iff (s : Server) (cid : Str) (k : Nat) : InOpen s cid k ↔ ∃ m, InOpenRec s cid k m := by
  constructor
  · intro h
    unfold InOpen at h
    cases hi : assocGet s.clients cid with
    | none => rw [hi] at h; exact h.elim
    | some i =>
      rw [hi] at h
      cases hm : flGet (getObj s i) k with
      | none => simp only [hm] at h
      | some m =>
        simp only [hm] at h
        exact ⟨m, InOpenRec.of_spec hi hm h.1 h.2⟩
  · rintro ⟨m, h⟩
    obtain ⟨i, hi, hm, ht, he⟩ := h.spec
    unfold InOpen
    rw [hi]
    simp only [hm]
    exact ⟨ht, he⟩

/-! ### survival -/

/-- one op, the record itself: in a well-formed state, the session registered under `cid` holds the SAME PUBREC record
    under `k` after every op — of any of the 12 kinds — that `InEnds` does not list -/
theorem inbound_record_survives_step (s : Server) (op : Op) (cid : Str) (k : Nat) (m : Msg) (hw : WF s)
    (hsync : SyncInv s) (hf : OpFresh s op) (h : InOpenRec s cid k m) (hne : ¬ InEnds s cid k op) :
    InOpenRec (step s op).1 cid k m := by
  have h : Q08.Holds s cid k m := h
  have hne : ¬ Q08.Ends s cid k op := hne
  show Q08.Holds (step s op).1 cid k m
  cases op with
  | connect conn k' => exact Q08.step_connect_holds k m cid s conn k' hw hf h hne
  | connectHold conn k' stage => exact Q08.step_connectHold_holds k m cid s conn k' stage hw hf h hne
  | release conn => exact Q08.step_release_holds k m cid s conn hw hsync h hne
  | recv conn pk => obtain ⟨i, h⟩ := h; exact (Q08.step_recv_holds k m cid s conn pk i hw h hne).holds
  | recvCut conn pk => obtain ⟨i, h⟩ := h; exact (Q08.step_recvCut_holds k m cid s conn pk i hw h hne).holds
  | drop conn => obtain ⟨i, h⟩ := h; exact (Q08.step_drop_holds k m cid s conn i hw h hne).holds
  | dropHold conn => obtain ⟨i, h⟩ := h; exact (Q08.step_dropHold_holds k m cid s conn i h).holds
  | dropHoldEarly conn => obtain ⟨i, h⟩ := h; exact (Q08.step_dropHoldEarly_holds k m cid s conn i h).holds
  | tick kind t => obtain ⟨i, h⟩ := h; exact (Q08.step_tick_holds k m cid s kind t i hw h hne).holds
  | inlinePublish topic payload retain qos =>
    obtain ⟨i, h⟩ := h; exact (Q08.step_inlinePublish_holds k m cid s topic payload retain qos i hw h hne).holds
  | inlineSubscribe id filter => obtain ⟨i, h⟩ := h; exact (Q08.step_inlineSubscribe_holds k m cid s id filter i h).holds
  | inlineUnsubscribe id filter =>
    obtain ⟨i, h⟩ := h; exact (Q08.step_inlineUnsubscribe_holds k m cid s id filter i h).holds

/-- no op of the history ends the inbound exchange `k` of `cid` in the state it is applied to -/
def InNoEnds (s : Server) (cid : Str) (k : Nat) : List Op → Prop
  | [] => True
  | op :: ops => ¬ InEnds s cid k op ∧ InNoEnds (step s op).1 cid k ops

instance instDecidableInNoEnds (s : Server) (cid : Str) (k : Nat) (ops : List Op) : Decidable (InNoEnds s cid k ops) :=
  match ops with
  | [] => isTrue trivial
  | op :: ops =>
    match (inferInstance : Decidable (¬ InEnds s cid k op)) with
    | isFalse h => isFalse (fun g => h g.1)
    | isTrue h =>
      match instDecidableInNoEnds (step s op).1 cid k ops with
      | isFalse g => isFalse (fun g' => g g'.2)
      | isTrue g => isTrue ⟨h, g⟩

theorem inbound_record_survives_run (s : Server) (ops : List Op) (cid : Str) (k : Nat) (m : Msg) (hw : WF s)
    (hsync : SyncInv s) (hf : OpsFresh s ops) (hok : OpsSchedOK s ops) (h : InOpenRec s cid k m)
    (hne : InNoEnds s cid k ops) : InOpenRec (run s ops) cid k m := by
  induction ops generalizing s with
  | nil => exact h
  | cons op ops ih =>
    show InOpenRec (run (step s op).1 ops) cid k m
    exact ih _ (WF_step s op hw hf.1) (SyncInv_step s op hsync hw hf.1 hok.1) hf.2 hok.2
      (inbound_record_survives_step s op cid k m hw hsync hf.1 h hne.1) hne.2

end Mochi.Broker
