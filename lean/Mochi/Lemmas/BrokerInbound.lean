import Mochi.Lemmas.BrokerInboundWalk
/-!
# C08 — an inbound QoS 2 exchange: open, what may end it, the accepted PUBLISH, the retransmission

* `InOpen s cid k`      — decidable: the object registered under `cid` holds, under packet identifier `k`, an in-flight
                          record of type 5 (PUBREC) that is not deferred (`0 ≤ expiry`): the inbound exchange `k` is open;
* `InEnds s cid k op`   — decidable: `op` may end that exchange in state `s` (`Q08.Ends`, see
                          `Mochi/Lemmas/BrokerInboundWalk.lean`);
* `inbound_record_survives_step` — every op (all 12 kinds) that is not in `InEnds` keeps the very same record;
* `AcceptedQ2`, `pubrecFiled`, `processPublish_accepted_qos2`, `step_recv_publish_q2` — the accepted QoS 2 PUBLISH;
* `step_recv_publish_dup` — the retransmission while the exchange is open.
-/
namespace Mochi.Broker
open Mochi.Topics

/-! ### the open exchange -/

/-- **the inbound QoS 2 exchange `k` of client `cid` is open**: the object registered under `cid` holds a PUBREC record
    (type 5, not deferred) under packet identifier `k` -/
def InOpen (s : Server) (cid : Str) (k : Nat) : Prop :=
  match assocGet s.clients cid with
  | some i =>
    (match flGet (getObj s i) k with
     | some m => m.type = 5 ∧ 0 ≤ m.expiry
     | none => False)
  | none => False

instance (s : Server) (cid : Str) (k : Nat) : Decidable (InOpen s cid k) := by
  unfold InOpen; split
  · split <;> infer_instance
  · infer_instance

/-- … and `m` is that record -/
def InOpenRec (s : Server) (cid : Str) (k : Nat) (m : Msg) : Prop := Q08.Holds s cid k m

instance (s : Server) (cid : Str) (k : Nat) (m : Msg) : Decidable (InOpenRec s cid k m) :=
  inferInstanceAs (Decidable (Q08.Holds s cid k m))

/-- **the ops that may end the inbound exchange `k` of client `cid` in state `s`** -/
def InEnds (s : Server) (cid : Str) (k : Nat) (op : Op) : Prop := Q08.Ends s cid k op

instance (s : Server) (cid : Str) (k : Nat) (op : Op) : Decidable (InEnds s cid k op) :=
  inferInstanceAs (Decidable (Q08.Ends s cid k op))

theorem q08_recOk_self (m : Msg) (ht : m.type = 5) (he : 0 ≤ m.expiry) : Q08.recOk m m = true := by
  simp [Q08.recOk, ht, he]

theorem q08_recOk_elim {m p : Msg} (h : Q08.recOk m p = true) : m = p ∧ 0 ≤ m.expiry ∧ m.type = 5 := by
  simpa [Q08.recOk, and_assoc] using h

theorem InOpenRec.spec {s : Server} {cid : Str} {k : Nat} {m : Msg} (h : InOpenRec s cid k m) :
    ∃ i, assocGet s.clients cid = some i ∧ flGet (getObj s i) k = some m ∧ m.type = 5 ∧ 0 ≤ m.expiry := by
  obtain ⟨i, hi, m', hm', hok⟩ := h
  obtain ⟨e, h1, h2⟩ := q08_recOk_elim hok
  subst e
  exact ⟨i, hi, hm', h2, h1⟩

theorem InOpenRec.of_spec {s : Server} {cid : Str} {k : Nat} {m : Msg} {i : Nat} (hi : assocGet s.clients cid = some i)
    (hm : flGet (getObj s i) k = some m) (ht : m.type = 5) (he : 0 ≤ m.expiry) : InOpenRec s cid k m :=
  ⟨i, hi, m, hm, q08_recOk_self m ht he⟩

theorem InOpen_iff (s : Server) (cid : Str) (k : Nat) : InOpen s cid k ↔ ∃ m, InOpenRec s cid k m := by
  constructor
  · intro h
    unfold InOpen at h
    cases hi : assocGet s.clients cid with
    | none => rw [hi] at h; exact h.elim
    | some i =>
      rw [hi] at h
      cases hm : flGet (getObj s i) k with
      | none => simp only [hm] at h
      | some m =>
        simp only [hm] at h
        exact ⟨m, InOpenRec.of_spec hi hm h.1 h.2⟩
  · rintro ⟨m, h⟩
    obtain ⟨i, hi, hm, ht, he⟩ := h.spec
    unfold InOpen
    rw [hi]
    simp only [hm]
    exact ⟨ht, he⟩

/-! ### survival -/

/-- one op, the record itself: in a well-formed state, the session registered under `cid` holds the SAME PUBREC record
    under `k` after every op — of any of the 12 kinds — that `InEnds` does not list -/
theorem inbound_record_survives_step (s : Server) (op : Op) (cid : Str) (k : Nat) (m : Msg) (hw : WF s)
    (hsync : SyncInv s) (hf : OpFresh s op) (h : InOpenRec s cid k m) (hne : ¬ InEnds s cid k op) :
    InOpenRec (step s op).1 cid k m := by
  have h : Q08.Holds s cid k m := h
  have hne : ¬ Q08.Ends s cid k op := hne
  show Q08.Holds (step s op).1 cid k m
  cases op with
  | connect conn k' => exact Q08.step_connect_holds k m cid s conn k' hw hf h hne
  | connectHold conn k' stage => exact Q08.step_connectHold_holds k m cid s conn k' stage hw hf h hne
  | release conn => exact Q08.step_release_holds k m cid s conn hw hsync h hne
  | recv conn pk => obtain ⟨i, h⟩ := h; exact (Q08.step_recv_holds k m cid s conn pk i hw h hne).holds
  | recvCut conn pk => obtain ⟨i, h⟩ := h; exact (Q08.step_recvCut_holds k m cid s conn pk i hw h hne).holds
  | drop conn => obtain ⟨i, h⟩ := h; exact (Q08.step_drop_holds k m cid s conn i hw h hne).holds
  | dropHold conn => obtain ⟨i, h⟩ := h; exact (Q08.step_dropHold_holds k m cid s conn i h).holds
  | dropHoldEarly conn => obtain ⟨i, h⟩ := h; exact (Q08.step_dropHoldEarly_holds k m cid s conn i h).holds
  | tick kind t => obtain ⟨i, h⟩ := h; exact (Q08.step_tick_holds k m cid s kind t i hw h hne).holds
  | inlinePublish topic payload retain qos =>
    obtain ⟨i, h⟩ := h; exact (Q08.step_inlinePublish_holds k m cid s topic payload retain qos i hw h hne).holds
  | inlineSubscribe id filter => obtain ⟨i, h⟩ := h; exact (Q08.step_inlineSubscribe_holds k m cid s id filter i h).holds
  | inlineUnsubscribe id filter =>
    obtain ⟨i, h⟩ := h; exact (Q08.step_inlineUnsubscribe_holds k m cid s id filter i h).holds

/-- no op of the history ends the inbound exchange `k` of `cid` in the state it is applied to -/
def InNoEnds (s : Server) (cid : Str) (k : Nat) : List Op → Prop
  | [] => True
  | op :: ops => ¬ InEnds s cid k op ∧ InNoEnds (step s op).1 cid k ops

instance instDecidableInNoEnds (s : Server) (cid : Str) (k : Nat) (ops : List Op) : Decidable (InNoEnds s cid k ops) :=
  match ops with
  | [] => isTrue trivial
  | op :: ops =>
    match (inferInstance : Decidable (¬ InEnds s cid k op)) with
    | isFalse h => isFalse (fun g => h g.1)
    | isTrue h =>
      match instDecidableInNoEnds (step s op).1 cid k ops with
      | isFalse g => isFalse (fun g' => g g'.2)
      | isTrue g => isTrue ⟨h, g⟩

theorem inbound_record_survives_run (s : Server) (ops : List Op) (cid : Str) (k : Nat) (m : Msg) (hw : WF s)
    (hsync : SyncInv s) (hf : OpsFresh s ops) (hok : OpsSchedOK s ops) (h : InOpenRec s cid k m)
    (hne : InNoEnds s cid k ops) : InOpenRec (run s ops) cid k m := by
  induction ops generalizing s with
  | nil => exact h
  | cons op ops ih =>
    show InOpenRec (run (step s op).1 ops) cid k m
    exact ih _ (WF_step s op hw hf.1) (SyncInv_step s op hsync hw hf.1 hok.1) hf.2 hok.2
      (inbound_record_survives_step s op cid k m hw hsync hf.1 h hne.1) hne.2

/-! ### the accepted QoS 2 PUBLISH -/

/-- the PUBREC record `processPublish` files for an accepted inbound QoS 2 publish -/
def pubrecMsg (s : Server) (id : Nat) : Msg :=
  { type := 5, id := id, reasonCode := 0, created := NOW, expiry := NOW + s.caps.maxMessageExpiry }

/-- the state in which the PUBREC of an accepted QoS 2 publish is written and the message routed: receive quota taken,
    the PUBREC filed as an in-flight record of the publisher (`s0`: the state with the retained store updated) -/
def pubrecFiled (s0 : Server) (i id : Nat) : Server :=
  let s2 := modObj s0 i decRecv
  let r := flSet (getObj s2 i) (pubrecMsg s2 id)
  let s3 := setObj s2 i r.1
  if r.2 then { s3 with info := { s3.info with inflight := s3.info.inflight + 1 } } else s3

/-- an accepted QoS 2 publish: the PUBREC is filed and written first (`o1`), then the message is routed by
    `publishToSubscribers`; the outputs are `o1 ++ o2` -/
theorem processPublish_accepted_shape_qos2 (s : Server) (i : Nat) (dup retain : Bool) (id : Nat) (topic payload : Str)
    (me : Nat)
    (hin : (getObj s i).inline = false) (hv : isValidFilter topic true = true)
    (hrq : (getObj s i).recvQuota ≠ 0) (hacl : aclOk s (getObj s i).id topic true = true)
    (hfl : flGet (getObj s i) id = none) (hne : topic ≠ [])
    (hhook : assocGet s.pubHook topic = none) (hmq : 2 ≤ s.caps.maximumQos)
    (hlive : dead (getObj (pubrecFiled (retainedState s (inboundMsg s i 2 dup retain id topic payload me)) i id) i) = false) :
    processPublish s i 2 dup retain id topic payload me none =
      ((publishToSubscribers
          (pubrecFiled (retainedState s (inboundMsg s i 2 dup retain id topic payload me)) i id)
          (inboundMsg s i 2 dup retain id topic payload me)).1,
       writeMsg (pubrecFiled (retainedState s (inboundMsg s i 2 dup retain id topic payload me)) i id) i
          (pubrecMsg (retainedState s (inboundMsg s i 2 dup retain id topic payload me)) id) ++
       (publishToSubscribers
          (pubrecFiled (retainedState s (inboundMsg s i 2 dup retain id topic payload me)) i id)
          (inboundMsg s i 2 dup retain id topic payload me)).2, none) := by
  have hrq' : ((getObj s i).recvQuota == 0) = false := by simpa using hrq
  have hne' : topic.isEmpty = false := by cases topic <;> simp_all
  unfold processPublish
  simp only [hin, hv, hacl, hrq', hfl, Bool.not_false, Bool.not_true, Bool.true_and,
    Bool.false_eq_true, if_false, Option.isSome_none, setObj_getObj_self, hne']
  have h0 : ¬ (2 > s.caps.maximumQos) := by omega
  have hr : ((none : Option String) == some "reject") = false := by decide
  have he : ((none : Option String) == some "err") = false := by decide
  have hi : ((none : Option String) == some "ignore") = false := by decide
  simp only [h0, if_false, hhook, hr, he, hi, Bool.false_and, Bool.false_eq_true]
  rw [if_neg (by decide)]
  have hl : ¬ (dead (getObj (pubrecFiled (retainedState s (inboundMsg s i 2 dup retain id topic payload me)) i id) i)
      = true) := by rw [hlive]; exact Bool.false_ne_true
  refine (if_neg hl).trans ?_
  rfl

theorem pubrecFiled_good (s0 : Server) (i id : Nat) : Good s0 (pubrecFiled s0 i id) := by
  unfold pubrecFiled
  extract_lets s2 r s3
  have g2 : Good s0 s2 := (Good.refl s0).mod i decRecv (CW.decRecv' _)
  have g3 : Good s0 s3 := g2.set i r.1 (CW.flSet' _ _)
  split
  · exact g3.upd rfl rfl rfl rfl
  · exact g3

theorem pubrecFiled_clients (s0 : Server) (i id : Nat) : (pubrecFiled s0 i id).clients = s0.clients := by
  unfold pubrecFiled
  extract_lets s2 r s3
  split <;> rfl

/-- the publisher's liveness, connection and version are what they were when the PUBREC is written -/
theorem pubrecFiled_obj (s0 : Server) (i id : Nat) :
    (getObj (pubrecFiled s0 i id) i).isOpen = (getObj s0 i).isOpen ∧
    (getObj (pubrecFiled s0 i id) i).peerGone = (getObj s0 i).peerGone ∧
    (getObj (pubrecFiled s0 i id) i).inline = (getObj s0 i).inline ∧
    (getObj (pubrecFiled s0 i id) i).conn = (getObj s0 i).conn ∧
    (getObj (pubrecFiled s0 i id) i).ver = (getObj s0 i).ver := by
  have h1 : ∀ c : Client, (decRecv c).isOpen = c.isOpen ∧ (decRecv c).peerGone = c.peerGone ∧
      (decRecv c).inline = c.inline ∧ (decRecv c).conn = c.conn ∧ (decRecv c).ver = c.ver := by
    intro c; unfold decRecv; split <;> exact ⟨rfl, rfl, rfl, rfl, rfl⟩
  have h2 : ∀ (c : Client) (m : Msg), (flSet c m).1.isOpen = c.isOpen ∧ (flSet c m).1.peerGone = c.peerGone ∧
      (flSet c m).1.inline = c.inline ∧ (flSet c m).1.conn = c.conn ∧ (flSet c m).1.ver = c.ver := by
    intro c m; unfold flSet; split <;> exact ⟨rfl, rfl, rfl, rfl, rfl⟩
  have h3 : (getObj (modObj s0 i decRecv) i).isOpen = (getObj s0 i).isOpen ∧
      (getObj (modObj s0 i decRecv) i).peerGone = (getObj s0 i).peerGone ∧
      (getObj (modObj s0 i decRecv) i).inline = (getObj s0 i).inline ∧
      (getObj (modObj s0 i decRecv) i).conn = (getObj s0 i).conn ∧
      (getObj (modObj s0 i decRecv) i).ver = (getObj s0 i).ver := by
    unfold modObj
    rcases getObj_setObj_self_cases s0 i (decRecv (getObj s0 i)) with e | e <;> rw [e]
    · exact h1 _
    · exact ⟨rfl, rfl, rfl, rfl, rfl⟩
  unfold pubrecFiled
  extract_lets s2 r s3
  have h4 : (getObj s3 i).isOpen = (getObj s0 i).isOpen ∧ (getObj s3 i).peerGone = (getObj s0 i).peerGone ∧
      (getObj s3 i).inline = (getObj s0 i).inline ∧ (getObj s3 i).conn = (getObj s0 i).conn ∧
      (getObj s3 i).ver = (getObj s0 i).ver := by
    rcases getObj_setObj_self_cases s2 i r.1 with e | e
    · show (getObj (setObj s2 i r.1) i).isOpen = _ ∧ _
      rw [e]
      obtain ⟨a1, a2, a3, a4, a5⟩ := h2 (getObj s2 i) (pubrecMsg s2 id)
      obtain ⟨b1, b2, b3, b4, b5⟩ := h3
      exact ⟨a1.trans b1, a2.trans b2, a3.trans b3, a4.trans b4, a5.trans b5⟩
    · show (getObj (setObj s2 i r.1) i).isOpen = _ ∧ _
      rw [e]; exact h3
  split
  · exact h4
  · exact h4

/-- the PUBREC record is filed under the publish's packet identifier -/
theorem pubrecFiled_rec (s0 : Server) (i id : Nat) (hi : i < s0.objs.length) :
    flGet (getObj (pubrecFiled s0 i id) i) id = some (pubrecMsg s0 id) := by
  unfold pubrecFiled
  extract_lets s2 r s3
  have h3 : flGet (getObj s3 i) id = some (pubrecMsg s0 id) := by
    show flGet (getObj (setObj s2 i r.1) i) id = _
    rw [getObj_setObj_eq s2 i r.1 (by rw [show s2.objs.length = s0.objs.length from setObj_length s0 i _]; exact hi)]
    exact flGet_flSet_self_sv (getObj s2 i) (pubrecMsg s2 id)
  split
  · exact h3
  · exact h3

/-- the gates an inbound QoS 2 PUBLISH with packet identifier `id` of client object `i` has to pass to be accepted: all
    decidable, all on the state before the op (`PublishGates` for an arbitrary identifier, and the broker grants QoS 2) -/
structure AcceptedQ2 (s : Server) (i id : Nat) (topic : Str) : Prop where
  /-- the client is a network client whose connection is alive -/
  isOpen : (getObj s i).isOpen = true
  peer : (getObj s i).peerGone = false
  notInline : (getObj s i).inline = false
  /-- `IsValidFilter(topic, true)`: no wildcard, not `$SYS/…`; the topic is not empty (no alias) -/
  valid : isValidFilter topic true = true
  nonempty : topic ≠ []
  /-- a QoS 2 PUBLISH carries a packet identifier (else: protocol error 0x82) -/
  idpos : id ≠ 0
  /-- receive quota left (else: DISCONNECT 0x93) -/
  quota : (getObj s i).recvQuota ≠ 0
  /-- write permission on the topic (else: PUBREC 0x87 / DISCONNECT) -/
  acl : aclOk s (getObj s i).id topic true = true
  /-- no in-flight record under the packet identifier -/
  noRecord : flGet (getObj s i) id = none
  /-- `OnPublish` hook mode of the topic: none -/
  hook : assocGet s.pubHook topic = none
  /-- the broker grants QoS 2 (else the message is downgraded and acknowledged accordingly) -/
  maxQos : 2 ≤ s.caps.maximumQos

/-- **an accepted QoS 2 publish, in plain terms**: the PUBREC record is filed (`pubrecFiled`), PUBREC with reason 0x00 is
    written to the publisher FIRST, then the message is routed ONCE by `publishToSubscribers` -/
theorem processPublish_accepted_qos2 (s : Server) (i : Nat) (dup retain : Bool) (id : Nat) (topic payload : Str)
    (me : Nat) (h : AcceptedQ2 s i id topic) :
    processPublish s i 2 dup retain id topic payload me none =
      ((publishToSubscribers (pubrecFiled (retainedState s (inboundMsg s i 2 dup retain id topic payload me)) i id)
          (inboundMsg s i 2 dup retain id topic payload me)).1,
       [Out.wrote (getObj s i).conn (.ack (getObj s i).ver 5 id 0)] ++
       (publishToSubscribers (pubrecFiled (retainedState s (inboundMsg s i 2 dup retain id topic payload me)) i id)
          (inboundMsg s i 2 dup retain id topic payload me)).2, none) := by
  obtain ⟨a1, a2, a3, a4, a5⟩ := pubrecFiled_obj (retainedState s (inboundMsg s i 2 dup retain id topic payload me)) i id
  rw [getObj_retainedState] at a1 a2 a3 a4 a5
  have hlive : dead (getObj (pubrecFiled (retainedState s (inboundMsg s i 2 dup retain id topic payload me)) i id) i)
      = false := dead_of_live (a1.trans h.isOpen) (a2.trans h.peer)
  rw [processPublish_accepted_shape_qos2 s i dup retain id topic payload me h.notInline h.valid h.quota h.acl h.noRecord
    h.nonempty h.hook h.maxQos hlive]
  have hw : writeMsg (pubrecFiled (retainedState s (inboundMsg s i 2 dup retain id topic payload me)) i id) i
      (pubrecMsg (retainedState s (inboundMsg s i 2 dup retain id topic payload me)) id) =
      [Out.wrote (getObj s i).conn (.ack (getObj s i).ver 5 id 0)] := by
    unfold writeMsg
    simp only [a1, a2, a3, a4, a5, h.isOpen, h.peer, h.notInline]
    rfl
  rw [hw]

theorem publishValidate_q2 (s : Server) (id : Nat) (topic : Str) (hid : id ≠ 0) (hv : isValidFilter topic true = true)
    (hne : topic ≠ []) : publishValidate s 2 id topic none = none := by
  have hw := isValidFilter_pub_no_wild topic hv
  have hne' : topic.isEmpty = false := by cases topic <;> simp_all
  simp at hw
  unfold publishValidate
  simp [hw, hne', hid]

/-- the routing call of an accepted QoS 2 publish of client object `i` -/
def q2Routed (s : Server) (i : Nat) (dup retain : Bool) (id : Nat) (topic payload : Str) (me : Nat) : Server × List Out :=
  publishToSubscribers (pubrecFiled (retainedState s (inboundMsg s i 2 dup retain id topic payload me)) i id)
    (inboundMsg s i 2 dup retain id topic payload me)

theorem receivePacket_publish_q2 (s : Server) (i : Nat) (dup retain : Bool) (id : Nat) (topic payload : Str) (me : Nat)
    (h : AcceptedQ2 s i id topic) :
    receivePacket s i (.publish 2 dup retain id topic payload me none) =
      ((nextImmediate (q2Routed s i dup retain id topic payload me).1 i).1,
       [Out.wrote (getObj s i).conn (.ack (getObj s i).ver 5 id 0)] ++ (q2Routed s i dup retain id topic payload me).2 ++
       (nextImmediate (q2Routed s i dup retain id topic payload me).1 i).2, none) := by
  unfold receivePacket q2Routed
  simp only [publishValidate_q2 s id topic h.idpos h.valid h.nonempty,
    processPublish_accepted_qos2 s i dup retain id topic payload me h]

/-- what object `i` looks like to a write after the routing and a release -/
theorem q2Routed_obj (s : Server) (i : Nat) (dup retain : Bool) (id : Nat) (topic payload : Str) (me : Nat) :
    (getObj (q2Routed s i dup retain id topic payload me).1 i).isOpen = (getObj s i).isOpen ∧
    (getObj (q2Routed s i dup retain id topic payload me).1 i).peerGone = (getObj s i).peerGone := by
  obtain ⟨a1, a2, _, _, _⟩ := pubrecFiled_obj (retainedState s (inboundMsg s i 2 dup retain id topic payload me)) i id
  rw [getObj_retainedState] at a1 a2
  have hd := (publishToSubscribers_deliv (pubrecFiled (retainedState s (inboundMsg s i 2 dup retain id topic payload me)) i id)
    (inboundMsg s i 2 dup retain id topic payload me)).all i
  exact ⟨hd.isOpen.symm.trans a1, hd.peerGone.symm.trans a2⟩

/-- **the op.**  `step s (.recv conn (PUBLISH QoS 2 id …))` for an accepted publish on the connection of client object
    `i`: the PUBREC (reason 0x00) to the publisher FIRST, then what the ONE call of `publishToSubscribers` writes, then
    what two releases for the publisher write (`nextImmediate` after the PUBLISH and after the harness's barrier
    PINGREQ: deferred messages of the publisher itself, see `step_recv_publish_releases`) -/
theorem step_recv_publish_q2 (s : Server) (conn i : Nat) (dup retain : Bool) (id : Nat) (topic payload : Str) (me : Nat)
    (hc : assocGet s.connOf conn = some i) (h : AcceptedQ2 s i id topic) :
    step s (.recv conn (.publish 2 dup retain id topic payload me none)) =
      ((nextImmediate (nextImmediate (q2Routed s i dup retain id topic payload me).1 i).1 i).1,
       [Out.wrote (getObj s i).conn (.ack (getObj s i).ver 5 id 0)] ++ (q2Routed s i dup retain id topic payload me).2 ++
       (nextImmediate (q2Routed s i dup retain id topic payload me).1 i).2 ++
       (nextImmediate (nextImmediate (q2Routed s i dup retain id topic payload me).1 i).1 i).2) := by
  obtain ⟨r1, r2⟩ := q2Routed_obj s i dup retain id topic payload me
  have ha := nextImmediate_after (q2Routed s i dup retain id topic payload me).1 i
  have ho := (ha.isOpen.trans r1).trans h.isOpen
  have hp := (ha.peerGone.trans r2).trans h.peer
  have hping := receivePacket_pingreq_live _ i ho hp
  rw [step]
  unfold recvOn
  simp only [hc, h.isOpen, receivePacket_publish_q2 s i dup retain id topic payload me h, ho, hping,
    Bool.not_true, Bool.false_eq_true, if_false, if_true, List.filter_cons, List.filter_append,
    List.filter_nil, List.nil_append, List.append_assoc]
  rw [List.filter_eq_self.mpr]
  intro x hx
  rcases nextImmediate_out_shape _ i x hx with ⟨_, _, _, _, e⟩ | ⟨_, _, _, _, _, e⟩ <;> rw [e]

theorem retainedState_wf (s : Server) (pk : Msg) (hw : WF s) : WF (retainedState s pk) := by
  unfold retainedState; split
  · exact retainMsg_wf s pk hw
  · exact hw

theorem pubrecFiled_holdsAt (s : Server) (i id : Nat) (cid : Str) (pk : Msg) (hi : i < s.objs.length)
    (hreg : assocGet s.clients cid = some i) :
    Q08.HoldsAt (pubrecFiled (retainedState s pk) i id) cid id (pubrecMsg s id) i := by
  have hq := retainedState_quiet s pk
  have h1 : assocGet (pubrecFiled (retainedState s pk) i id).clients cid = some i := by
    rw [pubrecFiled_clients, hq.clients]; exact hreg
  have h2 : flGet (getObj (pubrecFiled (retainedState s pk) i id) i) id = some (pubrecMsg s id) := by
    rw [pubrecFiled_rec (retainedState s pk) i id (by rw [hq.len]; exact hi)]
    unfold pubrecMsg
    rw [hq.caps]
  have h3 : (0 : Int) ≤ (pubrecMsg s id).expiry := by
    show (0 : Int) ≤ NOW + (s.caps.maxMessageExpiry : Int)
    unfold NOW; omega
  exact ⟨h1, pubrecMsg s id, h2, q08_recOk_self _ rfl h3⟩

/-- … and the exchange is open afterwards: the session registered under `cid` (object `i`) holds the PUBREC record
    `pubrecMsg s id` under the publish's packet identifier -/
theorem step_recv_publish_q2_open (s : Server) (conn i : Nat) (dup retain : Bool) (id : Nat) (topic payload : Str)
    (me : Nat) (cid : Str) (hw : WF s) (hc : assocGet s.connOf conn = some i) (h : AcceptedQ2 s i id topic)
    (hreg : assocGet s.clients cid = some i) :
    InOpenRec (step s (.recv conn (.publish 2 dup retain id topic payload me none))).1 cid id (pubrecMsg s id) := by
  have hi : i < s.objs.length := lt_of_recvQuota_ne_zero s i h.quota
  have hF := pubrecFiled_holdsAt s i id cid (inboundMsg s i 2 dup retain id topic payload me) hi hreg
  have wF : WF (pubrecFiled (retainedState s (inboundMsg s i 2 dup retain id topic payload me)) i id) :=
    (retainedState_wf s _ hw).of_good (pubrecFiled_good _ i id)
  have hP : Q08.HoldsAt (q2Routed s i dup retain id topic payload me).1 cid id (pubrecMsg s id) i :=
    Q08.HoldsAt.of_surv hF (Q08.publishToSubscribers_surv id _ _) (publishToSubscribers_quiet _ _).clients
  have wP : WF (q2Routed s i dup retain id topic payload me).1 := publishToSubscribers_wf _ _ wF
  have h1 : Q08.HoldsAt (nextImmediate (q2Routed s i dup retain id topic payload me).1 i).1 cid id (pubrecMsg s id) i :=
    Q08.HoldsAt.of_surv hP ((Q08.nextImmediate_sv id _ i).own (wP.allWF i)) (nextImmediate_quiet _ i).clients
  have w1 := nextImmediate_wf _ i wP
  have h2 : Q08.HoldsAt (nextImmediate (nextImmediate (q2Routed s i dup retain id topic payload me).1 i).1 i).1 cid id
      (pubrecMsg s id) i :=
    Q08.HoldsAt.of_surv h1 ((Q08.nextImmediate_sv id _ i).own (w1.allWF i)) (nextImmediate_quiet _ i).clients
  have e : (step s (.recv conn (.publish 2 dup retain id topic payload me none))).1 =
      (nextImmediate (nextImmediate (q2Routed s i dup retain id topic payload me).1 i).1 i).1 := by
    rw [step_recv_publish_q2 s conn i dup retain id topic payload me hc h]
  have h3 := h2.holds
  rw [← e] at h3
  exact h3

/-! ### the retransmission while the exchange is open -/

/-- the gates a PUBLISH of client object `i` under the identifier `id` of an open exchange passes to reach the duplicate
    test of `processPublish`: the gates of the original publish, with the receive quota as it is NOW (the open exchange
    holds one unit: with Receive Maximum 1 the retransmission is answered DISCONNECT 0x93 — the quota test comes first,
    server.go:890-892) -/
structure RetransmitGates (s : Server) (i id : Nat) (topic : Str) : Prop where
  isOpen : (getObj s i).isOpen = true
  peer : (getObj s i).peerGone = false
  notInline : (getObj s i).inline = false
  valid : isValidFilter topic true = true
  nonempty : topic ≠ []
  idpos : id ≠ 0
  quota : (getObj s i).recvQuota ≠ 0
  acl : aclOk s (getObj s i).id topic true = true

theorem receivePacket_publish_dup (s : Server) (i : Nat) (dup retain : Bool) (id : Nat) (topic payload : Str) (me : Nat)
    (pki : Msg) (h : RetransmitGates s i id topic) (hrec : flGet (getObj s i) id = some pki) (ht : pki.type = 5) :
    receivePacket s i (.publish 2 dup retain id topic payload me none) =
      ((nextImmediate s i).1,
       [Out.wrote (getObj s i).conn (.ack (getObj s i).ver 5 id 0x91)] ++ (nextImmediate s i).2, none) := by
  have hq' : ((getObj s i).recvQuota == 0) = false := by simpa using h.quota
  have h1 : processPublish s i 2 dup retain id topic payload me none = ackRes s i 5 id 0x91 := by
    unfold processPublish
    simp [h.notInline, h.valid, hq', h.acl, hrec, ht]
  have h2 : writeAck s i 5 id 0x91 = [Out.wrote (getObj s i).conn (.ack (getObj s i).ver 5 id 0x91)] := by
    unfold writeAck writeMsg
    simp only [h.isOpen, h.peer, h.notInline]
    rfl
  have hp : processPublish s i 2 dup retain id topic payload me none =
      (s, [Out.wrote (getObj s i).conn (.ack (getObj s i).ver 5 id 0x91)], none) := by
    rw [h1, ackRes_live s i 5 id 0x91 (dead_of_live h.isOpen h.peer), h2]
  unfold receivePacket
  simp only [publishValidate_q2 s id topic h.idpos h.valid h.nonempty, hp]

/-- **the retransmission, the op.**  While the PUBREC record is there, `step s (.recv conn (PUBLISH QoS 2 id …))` on the
    connection of the record's object writes PUBREC with reason 0x91 (F08; rendered with reason 0 to an MQTT 3 client)
    to that connection, then what two releases for the publisher write (see `step_recv_publish_q2`); the state is the one
    before but for those releases — `publishToSubscribers` and `retainMsg` are not called. -/
theorem step_recv_publish_dup (s : Server) (conn i : Nat) (dup retain : Bool) (id : Nat) (topic payload : Str) (me : Nat)
    (pki : Msg) (hc : assocGet s.connOf conn = some i) (h : RetransmitGates s i id topic)
    (hrec : flGet (getObj s i) id = some pki) (ht : pki.type = 5) :
    step s (.recv conn (.publish 2 dup retain id topic payload me none)) =
      ((nextImmediate (nextImmediate s i).1 i).1,
       [Out.wrote (getObj s i).conn (.ack (getObj s i).ver 5 id 0x91)] ++ (nextImmediate s i).2 ++
       (nextImmediate (nextImmediate s i).1 i).2) := by
  have ha := nextImmediate_after s i
  have ho := ha.isOpen.trans h.isOpen
  have hp := ha.peerGone.trans h.peer
  have hping := receivePacket_pingreq_live _ i ho hp
  rw [step]
  unfold recvOn
  simp only [hc, h.isOpen, receivePacket_publish_dup s i dup retain id topic payload me pki h hrec ht, ho, hping,
    Bool.not_true, Bool.false_eq_true, if_false, if_true, List.filter_cons, List.filter_append,
    List.filter_nil, List.nil_append, List.append_assoc]
  rw [List.filter_eq_self.mpr]
  intro x hx
  rcases nextImmediate_out_shape _ i x hx with ⟨_, _, _, _, e⟩ | ⟨_, _, _, _, _, e⟩ <;> rw [e]

/-- the publisher holds no deferred message: the op is the PUBREC 0x91 and NOTHING else — the state is unchanged -/
theorem step_recv_publish_dup_quiet (s : Server) (conn i : Nat) (dup retain : Bool) (id : Nat) (topic payload : Str)
    (me : Nat) (pki : Msg) (hc : assocGet s.connOf conn = some i) (h : RetransmitGates s i id topic)
    (hrec : flGet (getObj s i) id = some pki) (ht : pki.type = 5)
    (hd : ∀ m ∈ (getObj s i).inflight, 0 ≤ m.expiry) :
    step s (.recv conn (.publish 2 dup retain id topic payload me none)) =
      (s, [Out.wrote (getObj s i).conn (.ack (getObj s i).ver 5 id 0x91)]) := by
  rw [step_recv_publish_dup s conn i dup retain id topic payload me pki hc h hrec ht, nextImmediate_none s i hd]
  simp only [nextImmediate_none s i hd, List.append_nil]

/-- a release touches neither the retained store nor the index, and no object but the releasing one -/
theorem nextImmediate_store (s : Server) (i : Nat) :
    (nextImmediate s i).1.rmsgs = s.rmsgs ∧ (nextImmediate s i).1.topics = s.topics ∧
    ∀ x, x ≠ i → getObj (nextImmediate s i).1 x = getObj s x := by
  unfold nextImmediate
  extract_lets c
  split
  · split
    · rename_i m hm
      extract_lets o
      split
      rename_i c1 ok heq
      extract_lets s1
      have key : s1.rmsgs = s.rmsgs ∧ s1.topics = s.topics ∧ ∀ x, x ≠ i → getObj s1 x = getObj s x :=
        ⟨rfl, rfl, fun x hx => getObj_setObj_ne _ i x _ hx⟩
      split
      · exact key
      · exact key
    · exact ⟨rfl, rfl, fun _ _ => rfl⟩
  · exact ⟨rfl, rfl, fun _ _ => rfl⟩

/-- every output of a release goes to the releasing object's connection -/
theorem nextImmediate_out_conn (s : Server) (i : Nat) : ∀ x ∈ (nextImmediate s i).2,
    ∃ pk, x = Out.wrote (getObj s i).conn pk := by
  intro x hx
  rcases nextImmediate_out s i with h | ⟨_, m, _, _, h⟩
  · rw [h] at hx; cases hx
  · rw [h] at hx
    unfold writeMsg at hx
    simp only at hx
    split at hx
    · cases hx
    · split at hx
      · rw [List.mem_singleton] at hx; exact ⟨_, hx⟩
      · rw [List.mem_singleton] at hx; exact ⟨_, hx⟩

theorem InOpen.rec_at {s : Server} {cid : Str} {k i : Nat} (h : InOpen s cid k) (hreg : assocGet s.clients cid = some i) :
    ∃ m, flGet (getObj s i) k = some m ∧ m.type = 5 ∧ 0 ≤ m.expiry := by
  unfold InOpen at h
  rw [hreg] at h
  cases hm : flGet (getObj s i) k with
  | none => simp only [hm] at h
  | some m =>
    simp only [hm] at h
    exact ⟨m, rfl, h.1, h.2⟩

theorem q2Routed_conn (s : Server) (i : Nat) (dup retain : Bool) (id : Nat) (topic payload : Str) (me : Nat) :
    (getObj (q2Routed s i dup retain id topic payload me).1 i).conn = (getObj s i).conn := by
  obtain ⟨_, _, _, a4, _⟩ := pubrecFiled_obj (retainedState s (inboundMsg s i 2 dup retain id topic payload me)) i id
  rw [getObj_retainedState] at a4
  have hd := (publishToSubscribers_deliv (pubrecFiled (retainedState s (inboundMsg s i 2 dup retain id topic payload me)) i id)
    (inboundMsg s i 2 dup retain id topic payload me)).all i
  exact hd.conn.symm.trans a4

/-- two successive releases for object `i`: at most two outputs, all on `i`'s connection -/
theorem nextImmediate_twice_out (t : Server) (i : Nat) :
    ((nextImmediate t i).2 ++ (nextImmediate (nextImmediate t i).1 i).2).length ≤ 2 ∧
    ∀ x ∈ (nextImmediate t i).2 ++ (nextImmediate (nextImmediate t i).1 i).2, ∃ pk, x = Out.wrote (getObj t i).conn pk := by
  have l1 : ∀ u : Server, (nextImmediate u i).2.length ≤ 1 := by
    intro u
    rcases nextImmediate_out u i with e | ⟨_, m, _, _, e⟩ <;> rw [e]
    · exact Nat.zero_le _
    · exact writeMsg_length_le_one u i m
  refine ⟨?_, fun x hx => ?_⟩
  · rw [List.length_append]
    have := l1 t
    have := l1 (nextImmediate t i).1
    omega
  · rcases List.mem_append.mp hx with hx | hx
    · exact nextImmediate_out_conn t i x hx
    · have := nextImmediate_out_conn (nextImmediate t i).1 i x hx
      rw [(nextImmediate_after t i).conn] at this
      exact this

/-- what a retransmission writes besides the PUBREC: releases of the PUBLISHER's own deferred messages -/
theorem nextImmediate_twice_deferred (s : Server) (i : Nat) :
    ∀ x ∈ (nextImmediate s i).2 ++ (nextImmediate (nextImmediate s i).1 i).2,
      ∃ m ∈ (getObj s i).inflight, m.expiry < 0 ∧ x ∈ writeMsg s i m := by
  have ha := nextImmediate_after s i
  intro x hx
  rcases List.mem_append.mp hx with hx | hx
  · rcases nextImmediate_out s i with e | ⟨_, m, hm, he, e⟩
    · rw [e] at hx; cases hx
    · rw [e] at hx
      exact ⟨m, hm, he, hx⟩
  · rcases nextImmediate_out (nextImmediate s i).1 i with e | ⟨_, m, hm, he, e⟩
    · rw [e] at hx; cases hx
    · rw [e] at hx
      rw [writeMsg_congr m ha.isOpen ha.peerGone ha.inline ha.conn ha.ver] at hx
      exact ⟨m, ha.infl m hm, he, hx⟩

/-! ### PUBREL for an open exchange -/

/-- the PUBCOMP record `processPubrel` files (and removes again) -/
def pubcompMsg (s : Server) (k : Nat) : Msg :=
  { type := 7, id := k, reasonCode := 0, created := NOW, expiry := NOW + s.caps.maxMessageExpiry }

/-- the state after `processPubrel` for a stored exchange: the record under `k` replaced by the PUBCOMP and removed,
    both quotas returned -/
def pubrelDone (s : Server) (i k : Nat) : Server :=
  let c1 := (flSet (getObj s i) (pubcompMsg s k)).1
  let s1 := setObj s i c1
  let r := flDelete (incSend (incRecv c1)) k
  let s2 := setObj s1 i r.1
  if r.2 then { s2 with info := { s2.info with inflight := s2.info.inflight - 1 } } else s2

theorem flSet_fields (c : Client) (m : Msg) : (flSet c m).1.isOpen = c.isOpen ∧ (flSet c m).1.peerGone = c.peerGone ∧
    (flSet c m).1.inline = c.inline ∧ (flSet c m).1.conn = c.conn ∧ (flSet c m).1.ver = c.ver := by
  unfold flSet; split <;> exact ⟨rfl, rfl, rfl, rfl, rfl⟩

theorem lt_of_flGet_some (s : Server) (i k : Nat) (m : Msg) (h : flGet (getObj s i) k = some m) : i < s.objs.length := by
  apply Classical.byContradiction
  intro hn
  have : getObj s i = {} := by
    unfold getObj
    rw [List.getD_eq_getElem?_getD, List.getElem?_eq_none (Nat.le_of_not_lt hn)]
    rfl
  rw [this] at h
  cases h

theorem processPubrel_open_shape (s : Server) (i k : Nat) (pki : Msg) (ho : (getObj s i).isOpen = true)
    (hp : (getObj s i).peerGone = false) (hin : (getObj s i).inline = false)
    (hrec : flGet (getObj s i) k = some pki) :
    processPubrel s i k 0 =
      (pubrelDone s i k, [Out.wrote (getObj s i).conn (.ack (getObj s i).ver 7 k 0)], none) := by
  have hi := lt_of_flGet_some s i k pki hrec
  obtain ⟨f1, f2, f3, f4, f5⟩ := flSet_fields (getObj s i) (pubcompMsg s k)
  have hd : dead (flSet (getObj s i) (pubcompMsg s k)).1 = false := dead_of_live (f1.trans ho) (f2.trans hp)
  have hw : writeMsg (setObj s i (flSet (getObj s i) (pubcompMsg s k)).1) i (pubcompMsg s k) =
      [Out.wrote (getObj s i).conn (.ack (getObj s i).ver 7 k 0)] := by
    unfold writeMsg
    rw [getObj_setObj_eq s i _ hi]
    simp only [f1, f2, f3, f4, f5, ho, hp, hin]
    rfl
  have hv : (decide (0 ≥ 0x80) || !reasonValid 6 0) = false := by decide
  unfold processPubrel
  simp only [hrec, Option.isNone_some, Bool.false_eq_true, if_false, hv]
  have hd' : ¬ (dead (flSet (getObj s i) (pubcompMsg s k)).1 = true) := by rw [hd]; exact Bool.false_ne_true
  refine (if_neg hd').trans ?_
  rw [← hw]
  rfl

theorem q08_flGet_flDelete_self (c : Client) (id : Nat) : flGet (flDelete c id).1 id = none := by
  unfold flDelete flGet
  simp only []
  rw [List.find?_eq_none]
  intro m hm
  have := (List.mem_filter.mp hm).2
  simpa using this

/-- what `pubrelDone` leaves: stores and tables as they were, every other object untouched, the publisher's object live
    as before and WITHOUT a record under `k` -/
theorem pubrelDone_spec (s : Server) (i k : Nat) (hi : i < s.objs.length) :
    (pubrelDone s i k).rmsgs = s.rmsgs ∧ (pubrelDone s i k).topics = s.topics ∧
    (pubrelDone s i k).clients = s.clients ∧ (pubrelDone s i k).connOf = s.connOf ∧
    (∀ x, x ≠ i → getObj (pubrelDone s i k) x = getObj s x) ∧
    (getObj (pubrelDone s i k) i).isOpen = (getObj s i).isOpen ∧
    (getObj (pubrelDone s i k) i).peerGone = (getObj s i).peerGone ∧
    (getObj (pubrelDone s i k) i).conn = (getObj s i).conn ∧
    flGet (getObj (pubrelDone s i k) i) k = none := by
  unfold pubrelDone
  extract_lets c1 s1 r s2
  obtain ⟨f1, f2, _, f4, _⟩ := flSet_fields (getObj s i) (pubcompMsg s k)
  have hl1 : i < s1.objs.length := by rw [show s1.objs.length = s.objs.length from setObj_length s i c1]; exact hi
  have g2 : getObj s2 i = r.1 := getObj_setObj_eq s1 i r.1 hl1
  have q : ∀ c : Client, (incSend (incRecv c)).isOpen = c.isOpen ∧ (incSend (incRecv c)).peerGone = c.peerGone ∧
      (incSend (incRecv c)).conn = c.conn := by
    intro c
    unfold incSend incRecv
    split <;> split <;> exact ⟨rfl, rfl, rfl⟩
  obtain ⟨q1, q2, q3⟩ := q c1
  have key : s2.rmsgs = s.rmsgs ∧ s2.topics = s.topics ∧ s2.clients = s.clients ∧ s2.connOf = s.connOf ∧
      (∀ x, x ≠ i → getObj s2 x = getObj s x) ∧ (getObj s2 i).isOpen = (getObj s i).isOpen ∧
      (getObj s2 i).peerGone = (getObj s i).peerGone ∧ (getObj s2 i).conn = (getObj s i).conn ∧
      flGet (getObj s2 i) k = none := by
    refine ⟨rfl, rfl, rfl, rfl, fun x hx => ?_, ?_, ?_, ?_, ?_⟩
    · exact (getObj_setObj_ne s1 i x _ hx).trans (getObj_setObj_ne s i x _ hx)
    · rw [g2]; exact q1.trans f1
    · rw [g2]; exact q2.trans f2
    · rw [g2]; exact q3.trans f4
    · rw [g2]; exact q08_flGet_flDelete_self _ k
  split
  · exact key
  · exact key

theorem nextImmediate_flGet_none (s : Server) (i k : Nat) (h : flGet (getObj s i) k = none) :
    flGet (getObj (nextImmediate s i).1 i) k = none := by
  have ha := nextImmediate_after s i
  unfold flGet at h ⊢
  rw [List.find?_eq_none] at h ⊢
  intro m hm
  exact h m (ha.infl m hm)

theorem receivePacket_pubrel_open (s : Server) (i k : Nat) (pki : Msg) (ho : (getObj s i).isOpen = true)
    (hp : (getObj s i).peerGone = false) (hin : (getObj s i).inline = false)
    (hrec : flGet (getObj s i) k = some pki) :
    receivePacket s i (.pubrel k 0) =
      ((nextImmediate (pubrelDone s i k) i).1,
       [Out.wrote (getObj s i).conn (.ack (getObj s i).ver 7 k 0)] ++ (nextImmediate (pubrelDone s i k) i).2, none) := by
  unfold receivePacket
  simp only [processPubrel_open_shape s i k pki ho hp hin hrec]

/-- **PUBREL for an open exchange, the op**: PUBCOMP to the publisher, then the release tail; the state is `pubrelDone`
    (the record removed) but for those releases -/
theorem step_recv_pubrel_open (s : Server) (conn i k : Nat) (pki : Msg) (hc : assocGet s.connOf conn = some i)
    (ho : (getObj s i).isOpen = true) (hp : (getObj s i).peerGone = false) (hin : (getObj s i).inline = false)
    (hrec : flGet (getObj s i) k = some pki) :
    step s (.recv conn (.pubrel k 0)) =
      ((nextImmediate (nextImmediate (pubrelDone s i k) i).1 i).1,
       [Out.wrote (getObj s i).conn (.ack (getObj s i).ver 7 k 0)] ++ (nextImmediate (pubrelDone s i k) i).2 ++
       (nextImmediate (nextImmediate (pubrelDone s i k) i).1 i).2) := by
  have hi := lt_of_flGet_some s i k pki hrec
  obtain ⟨_, _, _, _, _, d1, d2, _, _⟩ := pubrelDone_spec s i k hi
  have ha := nextImmediate_after (pubrelDone s i k) i
  have ho' := (ha.isOpen.trans d1).trans ho
  have hp' := (ha.peerGone.trans d2).trans hp
  have hping := receivePacket_pingreq_live _ i ho' hp'
  rw [step]
  unfold recvOn
  simp only [hc, ho, receivePacket_pubrel_open s i k pki ho hp hin hrec, ho', hping,
    Bool.not_true, Bool.false_eq_true, if_false, if_true, List.filter_cons, List.filter_append,
    List.filter_nil, List.nil_append, List.append_assoc]
  rw [List.filter_eq_self.mpr]
  intro x hx
  rcases nextImmediate_out_shape _ i x hx with ⟨_, _, _, _, e⟩ | ⟨_, _, _, _, _, e⟩ <;> rw [e]

theorem not_InOpen_of_none {s : Server} {cid : Str} {k i : Nat} (hreg : assocGet s.clients cid = some i)
    (hn : flGet (getObj s i) k = none) : ¬ InOpen s cid k := by
  intro hO
  obtain ⟨m, hm, _⟩ := hO.rec_at hreg
  rw [hn] at hm; cases hm

/-- … after which the exchange is closed, nothing was routed or retained, and every output went to the publisher -/
theorem step_recv_pubrel_closes (s : Server) (conn i k : Nat) (cid : Str) (hc : assocGet s.connOf conn = some i)
    (hreg : assocGet s.clients cid = some i) (hopen : InOpen s cid k)
    (ho : (getObj s i).isOpen = true) (hp : (getObj s i).peerGone = false) (hin : (getObj s i).inline = false) :
    ¬ InOpen (step s (.recv conn (.pubrel k 0))).1 cid k ∧
    (step s (.recv conn (.pubrel k 0))).1.rmsgs = s.rmsgs ∧
    (step s (.recv conn (.pubrel k 0))).1.topics = s.topics ∧
    (∀ x, x ≠ i → getObj (step s (.recv conn (.pubrel k 0))).1 x = getObj s x) ∧
    (∀ x ∈ (step s (.recv conn (.pubrel k 0))).2, ∃ pk, x = Out.wrote (getObj s i).conn pk) := by
  obtain ⟨pki, hrec, _, _⟩ := hopen.rec_at hreg
  have hi := lt_of_flGet_some s i k pki hrec
  have e := step_recv_pubrel_open s conn i k pki hc ho hp hin hrec
  obtain ⟨d_rm, d_tp, d_cl, _, d_ot, _, _, d3, d_none⟩ := pubrelDone_spec s i k hi
  obtain ⟨a1, a2, a3⟩ := nextImmediate_store (pubrelDone s i k) i
  obtain ⟨b1, b2, b3⟩ := nextImmediate_store (nextImmediate (pubrelDone s i k) i).1 i
  have e1 : (step s (.recv conn (.pubrel k 0))).1 = (nextImmediate (nextImmediate (pubrelDone s i k) i).1 i).1 := by
    rw [e]
  have e2 : (step s (.recv conn (.pubrel k 0))).2 =
      [Out.wrote (getObj s i).conn (.ack (getObj s i).ver 7 k 0)] ++ (nextImmediate (pubrelDone s i k) i).2 ++
       (nextImmediate (nextImmediate (pubrelDone s i k) i).1 i).2 := by
    rw [e]
  have hcl : (nextImmediate (nextImmediate (pubrelDone s i k) i).1 i).1.clients = s.clients :=
    ((nextImmediate_quiet _ i).clients.trans (nextImmediate_quiet _ i).clients).trans d_cl
  have hn := nextImmediate_flGet_none _ i k (nextImmediate_flGet_none _ i k d_none)
  refine ⟨?_, ?_, ?_, ?_, ?_⟩
  · rw [e1]
    exact not_InOpen_of_none (by rw [hcl]; exact hreg) hn
  · rw [e1]; exact (b1.trans a1).trans d_rm
  · rw [e1]; exact (b2.trans a2).trans d_tp
  · rw [e1]; intro x hx; exact ((b3 x hx).trans (a3 x hx)).trans (d_ot x hx)
  · rw [e2]
    intro x hx
    rw [List.append_assoc] at hx
    rcases List.mem_append.mp hx with hx | hx
    · rw [List.mem_singleton] at hx; exact ⟨_, hx⟩
    · have := (nextImmediate_twice_out (pubrelDone s i k) i).2 x hx
      rw [d3] at this
      exact this

theorem InNoEnds_app {s : Server} {cid : Str} {k : Nat} {a b : List Op} (h : InNoEnds s cid k (a ++ b)) :
    InNoEnds s cid k a ∧ InNoEnds (run s a) cid k b := by
  induction a generalizing s with
  | nil => exact ⟨trivial, h⟩
  | cons x xs ih =>
    obtain ⟨h1, h2⟩ := ih h.2
    exact ⟨⟨h.1, h1⟩, h2⟩

end Mochi.Broker
