import Mochi.Lemmas.CountersInfl
import Mochi.Lemmas.CountersCore
/-!
# C38, part 4 — the `connected` counter

`Hb s k`: the connection handler of client object `k` has passed the `ClientsConnected` increment of
`attachClient` and not yet run its deferred decrement: `k` is a network client (`k ≠ 0`) whose handler is
parked mid-teardown (`parked`, `parkedEarly`), parked after the increment (`pending`, stage 2), or in its
read loop (`isOpen`, and not parked in the authentication hook).  `hcount s` counts these objects.
In a quiescent state (no parked handler at all) `Hb s k` is "`k` is an open network client".
-/
namespace Mochi.Broker
open Mochi.Topics

/-! ### counting -/

def b2i (b : Bool) : Int := if b then 1 else 0

theorem countP_range_update (f g : Nat → Bool) (n i : Nat) (hi : i < n) (h : ∀ k, k ≠ i → f k = g k) :
    ((List.range n).countP f : Int) = (List.range n).countP g + b2i (f i) - b2i (g i) := by
  induction n with
  | zero => cases hi
  | succ n ih =>
    rw [List.range_succ, List.countP_append, List.countP_append]
    by_cases hin : i < n
    · have := ih hin
      have hn : f n = g n := h n (by omega)
      simp only [List.countP_cons, List.countP_nil, hn]
      push_cast
      omega
    · have hin' : i = n := by omega
      subst hin'
      have : (List.range i).countP f = (List.range i).countP g := by
        apply List.countP_congr
        intro k hk
        have : k < i := List.mem_range.mp hk
        rw [h k (by omega)]
      rw [this]
      unfold b2i
      cases hf : f i <;> cases hg : g i <;> simp [hf, hg]

theorem countP_range_congr (f g : Nat → Bool) (n : Nat) (h : ∀ k, k < n → f k = g k) :
    (List.range n).countP f = (List.range n).countP g := by
  apply List.countP_congr
  intro k hk
  rw [h k (List.mem_range.mp hk)]

/-! ### the handlers that count -/

def Hb (s : Server) (k : Nat) : Bool :=
  k != 0 && (s.parked.contains k || s.parkedEarly.contains k || s.pending.any (fun p => p.obj == k && p.stage != 1) ||
    ((getObj s k).isOpen && !s.pending.any (fun p => p.obj == k && p.stage == 1)))

def hcount (s : Server) : Nat := (List.range s.objs.length).countP (Hb s)

theorem Hb_congr {s s' : Server} {k : Nat} (h1 : s'.parked = s.parked) (h2 : s'.parkedEarly = s.parkedEarly)
    (h3 : s'.pending = s.pending) (h4 : (getObj s' k).isOpen = (getObj s k).isOpen) : Hb s' k = Hb s k := by
  unfold Hb
  rw [h1, h2, h3, h4]

theorem Hb_zero (s : Server) : Hb s 0 = false := by
  unfold Hb; rfl

/-- `Hb` of an object that is in none of the three lists -/
theorem Hb_plain {s : Server} {k : Nat} (hk : k ≠ 0) (h1 : k ∉ s.parked) (h2 : k ∉ s.parkedEarly)
    (h3 : ∀ p ∈ s.pending, p.obj ≠ k) : Hb s k = (getObj s k).isOpen := by
  unfold Hb
  have a : s.parked.contains k = false := by simpa using h1
  have b : s.parkedEarly.contains k = false := by simpa using h2
  have c : s.pending.any (fun p => p.obj == k && p.stage != 1) = false := by
    rw [List.any_eq_false]
    intro p hp
    simp [h3 p hp]
  have d : s.pending.any (fun p => p.obj == k && p.stage == 1) = false := by
    rw [List.any_eq_false]
    intro p hp
    simp [h3 p hp]
  have e : (k != 0) = true := by simpa using hk
  rw [a, b, c, d, e]
  simp

theorem Hb_parked {s : Server} {k : Nat} (hk : k ≠ 0) (h1 : k ∈ s.parked) : Hb s k = true := by
  unfold Hb
  have a : s.parked.contains k = true := by simpa using h1
  have e : (k != 0) = true := by simpa using hk
  rw [a, e]; simp

theorem Hb_parkedEarly {s : Server} {k : Nat} (hk : k ≠ 0) (h1 : k ∈ s.parkedEarly) : Hb s k = true := by
  unfold Hb
  have a : s.parkedEarly.contains k = true := by simpa using h1
  have e : (k != 0) = true := by simpa using hk
  rw [a, e]; simp

theorem Hb_pending2 {s : Server} {k : Nat} (hk : k ≠ 0) (p : Pending) (hp : p ∈ s.pending) (hpo : p.obj = k)
    (hps : p.stage ≠ 1) : Hb s k = true := by
  unfold Hb
  have c : s.pending.any (fun p => p.obj == k && p.stage != 1) = true := by
    rw [List.any_eq_true]
    exact ⟨p, hp, by simp [hpo, hps]⟩
  have e : (k != 0) = true := by simpa using hk
  rw [c, e]; simp

/-- a handler parked in the authentication hook does not count, whatever its object looks like -/
theorem Hb_pending1 {s : Server} {k : Nat} (h1 : k ∉ s.parked) (h2 : k ∉ s.parkedEarly)
    (h3 : ∀ p ∈ s.pending, p.obj = k → p.stage = 1) (p : Pending) (hp : p ∈ s.pending) (hpo : p.obj = k) :
    Hb s k = false := by
  unfold Hb
  have a : s.parked.contains k = false := by simpa using h1
  have b : s.parkedEarly.contains k = false := by simpa using h2
  have c : s.pending.any (fun p => p.obj == k && p.stage != 1) = false := by
    rw [List.any_eq_false]
    intro q hq
    by_cases hqo : q.obj = k
    · simp [h3 q hq hqo]
    · simp [hqo]
  have d : s.pending.any (fun p => p.obj == k && p.stage == 1) = true := by
    rw [List.any_eq_true]
    exact ⟨p, hp, by simp [hpo, h3 p hp hpo]⟩
  rw [a, b, c, d]
  simp

/-! ### `QuietC` and `Act`: transitions that leave the three lists alone -/

/-- nothing `Hb` looks at changes: lists kept, `isOpen` / `stopped` / `inline` / `id` of every object kept -/
structure QuietC (s s' : Server) : Prop where
  len : s'.objs.length = s.objs.length
  connOf : s'.connOf = s.connOf
  pending : s'.pending = s.pending
  parked : s'.parked = s.parked
  parkedEarly : s'.parkedEarly = s.parkedEarly
  all : ∀ k, OwnEq (getObj s k) (getObj s' k)

theorem QuietC.refl (s : Server) : QuietC s s := ⟨rfl, rfl, rfl, rfl, rfl, fun _ => OwnEq.refl _⟩

theorem QuietC.trans {s s1 s2 : Server} (h : QuietC s s1) (g : QuietC s1 s2) : QuietC s s2 :=
  ⟨g.len.trans h.len, g.connOf.trans h.connOf, g.pending.trans h.pending, g.parked.trans h.parked,
   g.parkedEarly.trans h.parkedEarly, fun k => (h.all k).trans (g.all k)⟩

/-- a change to server fields other than `objs`, `connOf`, `pending`, `parked`, `parkedEarly` -/
theorem QuietC.upd {s0 s s' : Server} (h : QuietC s0 s) (ho : s'.objs = s.objs) (hn : s'.connOf = s.connOf)
    (hp : s'.pending = s.pending) (h1 : s'.parked = s.parked) (h2 : s'.parkedEarly = s.parkedEarly) : QuietC s0 s' :=
  ⟨by rw [ho]; exact h.len, hn.trans h.connOf, hp.trans h.pending, h1.trans h.parked, h2.trans h.parkedEarly,
   fun k => by rw [getObj_of_objs_eq ho k]; exact h.all k⟩

theorem QuietC.set {s0 s : Server} (h : QuietC s0 s) (i : Nat) (c : Client) (hc : OwnEq (getObj s i) c) :
    QuietC s0 (setObj s i c) := by
  refine ⟨(setObj_length s i c).trans h.len, h.connOf, h.pending, h.parked, h.parkedEarly, fun k => ?_⟩
  by_cases hk : k = i
  · subst hk
    rcases getObj_setObj_self_cases s k c with e | e <;> rw [e]
    · exact (h.all k).trans hc
    · exact h.all k
  · rw [getObj_setObj_ne s i k c hk]; exact h.all k

theorem QuietC.mod {s0 s : Server} (h : QuietC s0 s) (i : Nat) (f : Client → Client)
    (hf : OwnEq (getObj s i) (f (getObj s i))) : QuietC s0 (modObj s i f) := h.set i _ hf

theorem QuietC.fst_mk {α} {s0 x : Server} {y : α} (h : QuietC s0 x) : QuietC s0 (x, y).1 := h

/-- from the delivery family -/
theorem QuietC.of_deliv {s s' : Server} (d : Deliv s s') (hp : s'.pending = s.pending) (h1 : s'.parked = s.parked)
    (h2 : s'.parkedEarly = s.parkedEarly) : QuietC s s' :=
  ⟨d.len, d.connOf, hp, h1, h2, fun k => (d.all k).own⟩

/-- work on behalf of object `i` that leaves the three lists alone; every OTHER object keeps its flags -/
structure Act (i : Nat) (s s' : Server) : Prop where
  len : s'.objs.length = s.objs.length
  connOf : s'.connOf = s.connOf
  pending : s'.pending = s.pending
  parked : s'.parked = s.parked
  parkedEarly : s'.parkedEarly = s.parkedEarly
  other : ∀ k, k ≠ i → OwnEq (getObj s k) (getObj s' k)
  inl : (getObj s' i).inline = (getObj s i).inline
  id : (getObj s' i).id = (getObj s i).id

theorem Act.refl (i : Nat) (s : Server) : Act i s s := ⟨rfl, rfl, rfl, rfl, rfl, fun _ _ => OwnEq.refl _, rfl, rfl⟩

theorem Act.trans {i : Nat} {s s1 s2 : Server} (h : Act i s s1) (g : Act i s1 s2) : Act i s s2 :=
  ⟨g.len.trans h.len, g.connOf.trans h.connOf, g.pending.trans h.pending, g.parked.trans h.parked,
   g.parkedEarly.trans h.parkedEarly, fun k hk => (h.other k hk).trans (g.other k hk), g.inl.trans h.inl,
   g.id.trans h.id⟩

theorem QuietC.act {s s' : Server} (h : QuietC s s') (i : Nat) : Act i s s' :=
  ⟨h.len, h.connOf, h.pending, h.parked, h.parkedEarly, fun k _ => h.all k, (h.all i).inline.symm, (h.all i).id.symm⟩

theorem Act.of_frame {i : Nat} {s s' : Server} {o : List Out} (f : Frame i s s' o) (hp : s'.pending = s.pending)
    (h1 : s'.parked = s.parked) (h2 : s'.parkedEarly = s.parkedEarly) : Act i s s' :=
  ⟨f.len, f.connOf, hp, h1, h2, fun k hk => (f.other k hk).own, f.inline, f.id⟩

/-- a change to server fields other than `objs`, `connOf`, `pending`, `parked`, `parkedEarly` -/
theorem Act.upd {i : Nat} {s0 s s' : Server} (h : Act i s0 s) (ho : s'.objs = s.objs) (hn : s'.connOf = s.connOf)
    (hp : s'.pending = s.pending) (h1 : s'.parked = s.parked) (h2 : s'.parkedEarly = s.parkedEarly) : Act i s0 s' :=
  h.trans ((QuietC.refl s).upd ho hn hp h1 h2 |>.act i)

theorem hcount_act {i : Nat} {s s' : Server} (a : Act i s s') (hi : i < s.objs.length) :
    (hcount s' : Int) = hcount s + b2i (Hb s' i) - b2i (Hb s i) := by
  unfold hcount
  rw [a.len]
  exact countP_range_update (Hb s') (Hb s) _ i hi
    (fun k hk => Hb_congr a.parked a.parkedEarly a.pending (a.other k hk).isOpen.symm)

theorem hcount_quiet {s s' : Server} (q : QuietC s s') : hcount s' = hcount s := by
  unfold hcount
  rw [q.len]
  exact countP_range_congr _ _ _ (fun k _ => Hb_congr q.parked q.parkedEarly q.pending (q.all k).isOpen.symm)

/-! ### side conditions -/

/-- the parked connecting handlers: none uses the inline client's id; one entry per connection -/
structure PendOK (l : List Pending) : Prop where
  ids : ∀ p ∈ l, p.k.id ≠ inlineID
  nodup : (l.map (·.conn)).Nodup

theorem PendOK.sublist {l l' : List Pending} (h : PendOK l) (hs : l'.Sublist l) : PendOK l' :=
  ⟨fun p hp => h.ids p (hs.subset hp), (hs.map _).nodup h.nodup⟩

theorem PendOK.snoc {l : List Pending} (h : PendOK l) (p : Pending) (hid : p.k.id ≠ inlineID)
    (hc : p.conn ∉ l.map (·.conn)) : PendOK (l ++ [p]) := by
  refine ⟨?_, ?_⟩
  · intro q hq
    rcases List.mem_append.mp hq with hq | hq
    · exact h.ids q hq
    · rw [List.mem_singleton.mp hq]; exact hid
  · rw [List.map_append, List.nodup_append]
    refine ⟨h.nodup, by simp, ?_⟩
    intro a ha b hb hab
    simp only [List.map_cons, List.map_nil, List.mem_singleton] at hb
    subst hb; subst hab
    exact hc ha

/-- with one entry per connection, an entry is determined by its connection -/
theorem PendOK.eq_of_conn {l : List Pending} (h : PendOK l) {p q : Pending} (hp : p ∈ l) (hq : q ∈ l)
    (e : q.conn = p.conn) : q = p := by
  induction l with
  | nil => cases hp
  | cons x xs ih =>
    have hnd := h.nodup
    rw [List.map_cons, List.nodup_cons] at hnd
    have hxs : PendOK xs := h.sublist (List.sublist_cons_self _ _)
    rcases List.mem_cons.mp hp with rfl | hp'
    · rcases List.mem_cons.mp hq with rfl | hq'
      · rfl
      · exact absurd (List.mem_map.mpr ⟨q, hq', e⟩) hnd.1
    · rcases List.mem_cons.mp hq with rfl | hq'
      · exact absurd (List.mem_map.mpr ⟨p, hp', e.symm⟩) hnd.1
      · exact ih hxs hp' hq'

structure Side (s : Server) : Prop where
  /-- a handler parked before its session clean-up has already stopped its client -/
  parked_stopped : ∀ k ∈ s.parked, (getObj s k).stopped = true
  disj : ∀ k ∈ s.parked, k ∉ s.parkedEarly
  pend_np : ∀ p ∈ s.pending, p.obj ∉ s.parked ∧ p.obj ∉ s.parkedEarly
  /-- a client whose handler is parked in the authentication hook has not been stopped -/
  pend1_live : ∀ p ∈ s.pending, p.stage = 1 → (getObj s p.obj).stopped = false
  conn_nz : ∀ c i, assocGet s.connOf c = some i → i ≠ 0
  parked_lt : ∀ k ∈ s.parked, k < s.objs.length
  parkedEarly_lt : ∀ k ∈ s.parkedEarly, k < s.objs.length
  /-- object 0 is the inline client, and the only inline client -/
  id0 : (getObj s 0).id = inlineID
  inl : ∀ k, k ≠ 0 → (getObj s k).inline = false
  pendOK : PendOK s.pending
  parked_nz : ∀ k ∈ s.parked, k ≠ 0
  inl0 : (getObj s 0).inline = true

theorem Side.of_act {i : Nat} {s s' : Server} (h : Side s) (a : Act i s s') (hip : i ∉ s.parked)
    (hpe : ∀ p ∈ s.pending, p.stage = 1 → p.obj ≠ i) : Side s' := by
  refine ⟨?_, ?_, ?_, ?_, ?_, ?_, ?_, ?_, ?_, by rw [a.pending]; exact h.pendOK, by rw [a.parked]; exact h.parked_nz, ?_⟩
  rotate_left 9
  · by_cases h0 : (0 : Nat) = i
    · subst h0; rw [a.inl]; exact h.inl0
    · rw [← (a.other 0 h0).inline]; exact h.inl0
  · intro k hk
    rw [a.parked] at hk
    have hki : k ≠ i := fun e => hip (e ▸ hk)
    rw [← (a.other k hki).stopped]
    exact h.parked_stopped k hk
  · rw [a.parked, a.parkedEarly]; exact h.disj
  · rw [a.parked, a.parkedEarly, a.pending]; exact h.pend_np
  · intro p hp h1
    rw [a.pending] at hp
    rw [← (a.other p.obj (hpe p hp h1)).stopped]
    exact h.pend1_live p hp h1
  · rw [a.connOf]; exact h.conn_nz
  · rw [a.parked, a.len]; exact h.parked_lt
  · rw [a.parkedEarly, a.len]; exact h.parkedEarly_lt
  · by_cases h0 : (0 : Nat) = i
    · subst h0; rw [a.id]; exact h.id0
    · rw [← (a.other 0 h0).id]; exact h.id0
  · intro k hk
    by_cases hki : k = i
    · subst hki; rw [a.inl]; exact h.inl k hk
    · rw [← (a.other k hki).inline]; exact h.inl k hk

theorem Side.of_quiet {s s' : Server} (h : Side s) (q : QuietC s s') : Side s' := by
  refine ⟨?_, ?_, ?_, ?_, ?_, ?_, ?_, ?_, ?_, by rw [q.pending]; exact h.pendOK, by rw [q.parked]; exact h.parked_nz,
    by rw [← (q.all 0).inline]; exact h.inl0⟩
  · intro k hk
    rw [q.parked] at hk
    rw [← (q.all k).stopped]
    exact h.parked_stopped k hk
  · rw [q.parked, q.parkedEarly]; exact h.disj
  · rw [q.parked, q.parkedEarly, q.pending]; exact h.pend_np
  · intro p hp h1
    rw [q.pending] at hp
    rw [← (q.all p.obj).stopped]
    exact h.pend1_live p hp h1
  · rw [q.connOf]; exact h.conn_nz
  · rw [q.parked, q.len]; exact h.parked_lt
  · rw [q.parkedEarly, q.len]; exact h.parkedEarly_lt
  · rw [← (q.all 0).id]; exact h.id0
  · intro k hk
    rw [← (q.all k).inline]; exact h.inl k hk

/-- the `connected` conjunct of `Counted`, with what its proof needs -/
structure ConnInv (s : Server) : Prop where
  side : Side s
  /-- `ClientsConnected` is the number of handlers between their increment and their deferred decrement -/
  eq : s.info.connected = hcount s

theorem ConnInv.of_quiet {s s' : Server} (h : ConnInv s) (q : QuietC s s') (hc : s'.info.connected = s.info.connected) :
    ConnInv s' :=
  ⟨h.side.of_quiet q, by rw [hc, h.eq, hcount_quiet q]⟩

/-! ### the quiet handlers -/

theorem trivial_laws : Laws (fun _ => True) :=
  ⟨fun _ _ _ _ => trivial, fun _ _ _ _ => trivial, fun _ _ _ => trivial, fun _ _ _ => trivial, fun _ _ _ _ => trivial,
   fun _ _ _ _ => trivial⟩

abbrev CoreT := CoreR (fun _ => True)

theorem clearInflights_quiet_cnt (s : Server) (i : Nat) : QuietC s (clearInflights s i) := by
  unfold clearInflights
  extract_lets +onlyGivenNames c n
  exact ((QuietC.refl s).set i _ (by own_rfl)).upd rfl rfl rfl rfl rfl

theorem unsubscribeClient_quiet (s : Server) (i : Nat) : QuietC s (unsubscribeClient s i) := by
  unfold unsubscribeClient
  extract_lets +onlyGivenNames c s1
  have h1 : QuietC s s1 := (QuietC.refl s).set i _ (by own_rfl)
  split
  · exact h1
  · refine foldl_inv (fun (x : Server) => QuietC s x) _ _ _ h1 ?_
    intro b a h
    exact h.upd rfl rfl rfl rfl rfl

theorem publishToSubscribers_quiet_cnt (s : Server) (pk : Msg) : QuietC s (publishToSubscribers s pk).1 :=
  have c : CoreT s (publishToSubscribers s pk).1 := publishToSubscribers_core s pk
  QuietC.of_deliv (publishToSubscribers_deliv s pk) (publishToSubscribers_good s pk).pending c.parked c.parkedEarly

theorem retainMsg_quiet_cnt (s : Server) (pk : Msg) : QuietC s (retainMsg s pk) :=
  have c : CoreT s (retainMsg s pk) := retainMsg_core trivial_laws s pk
  QuietC.of_deliv (retainMsg_deliv s pk) (retainMsg_good s pk).pending c.parked c.parkedEarly

theorem admitConnack_quiet_cnt (s : Server) (i conn : Nat) (present : Bool) : QuietC s (admitConnack s i conn present).1 := by
  unfold admitConnack
  extract_lets +onlyGivenNames cl
  split
  rename_i s' seiOut heq
  show QuietC s s'
  split at heq
  · cases heq
    exact (QuietC.refl s).mod i _ (by own_rfl)
  · cases heq
    exact QuietC.refl s

theorem admitC_quiet_cnt (s : Server) (i : Nat) (k : Connect) (present : Bool) : QuietC s (admitC s i k present).1 := by
  unfold admitC
  extract_lets +onlyGivenNames s1
  have hs1 : QuietC s s1 := (QuietC.refl s).upd rfl rfl rfl rfl rfl
  split
  · refine foldl_inv (fun (acc : Server × List Out) => QuietC s acc.1) _ _ _ hs1 ?_
    intro acc m h
    extract_lets +onlyGivenNames m' o s'
    show QuietC s s'
    show QuietC s (if (m.type == 4 || m.type == 7) = true then _ else acc.1)
    split
    · split
      rename_i c' ok heq
      extract_lets +onlyGivenNames s''
      have hc' : OwnEq (getObj acc.1 i) c' := by
        have := OwnEq.flDelete' (getObj acc.1 i) m.id
        rw [heq] at this
        exact this
      have h2 : QuietC s s'' := h.set i c' hc'
      split
      · exact h2.upd rfl rfl rfl rfl rfl
      · exact h2
    · exact h
  · exact hs1

theorem tickClients_quiet (s : Server) (dt : Int) : QuietC s (tickClients s dt).1 := by
  unfold tickClients
  refine foldl_inv (fun (acc : Server × List Out) => QuietC s acc.1) _ _ _ (QuietC.refl s) ?_
  intro acc e h
  extract_lets +onlyGivenNames c
  split
  · extract_lets +onlyGivenNames s1 s2
    exact ((h.trans (clearInflights_quiet_cnt acc.1 e.2)).trans (unsubscribeClient_quiet s1 e.2)).upd rfl rfl rfl rfl rfl
  · exact h

theorem tickRetained_quiet_cnt (s : Server) (now : Int) : QuietC s (tickRetained s now) := by
  unfold tickRetained
  extract_lets +onlyGivenNames s1
  refine QuietC.upd (s := s1) ?_ rfl rfl rfl rfl rfl
  show QuietC s (tickRetained.tickRetainedLoop s now)
  unfold tickRetained.tickRetainedLoop
  refine foldl_inv (fun (x : Server) => QuietC s x) _ _ _ (QuietC.refl s) ?_
  intro b e h
  extract_lets +onlyGivenNames pk expired enforced
  split
  · exact h.upd rfl rfl rfl rfl rfl
  · exact h

theorem tickInflight_quiet_cnt (s : Server) (now : Int) : QuietC s (tickInflight s now) := by
  unfold tickInflight
  refine foldl_inv (fun (x : Server) => QuietC s x) _ _ _ (QuietC.refl s) ?_
  intro b e h
  extract_lets +onlyGivenNames c
  refine foldl_inv (fun (x : Server) => QuietC s x) _ _ _ h ?_
  intro b2 m h2
  extract_lets +onlyGivenNames expired enforced
  split
  · split
    rename_i c' ok heq
    extract_lets +onlyGivenNames s1
    have hc' : OwnEq (getObj b2 e.2) c' := by
      have := OwnEq.flDelete' (getObj b2 e.2) m.id
      rw [heq] at this
      exact this
    have h3 : QuietC s s1 := h2.set e.2 c' hc'
    split
    · exact h3.upd rfl rfl rfl rfl rfl
    · exact h3
  · exact h2

theorem tickWills_quiet_cnt (s : Server) (dt : Int) : QuietC s (tickWills s dt).1 := by
  unfold tickWills
  refine foldl_inv (fun (acc : Server × List Out) => QuietC s acc.1) _ _ _ (QuietC.refl s) ?_
  intro acc e h
  split
  · split
    rename_i s1 o h1
    have g1 : QuietC s s1 := by
      have := publishToSubscribers_quiet_cnt acc.1 e.2
      rw [h1] at this
      exact h.trans this
    split
    rename_i s2 o2 h2
    have g2 : QuietC s s2 := by
      split at h2
      · rename_i i _
        extract_lets +onlyGivenNames s3 at h2
        rw [← (Prod.mk.inj h2).1]
        have g3 : QuietC s s3 := by
          show QuietC s (if e.2.retain = true then retainMsg s1 e.2 else s1)
          split
          · exact g1.trans (retainMsg_quiet_cnt s1 e.2)
          · exact g1
        exact g3.mod i _ (by own_rfl)
      · cases h2; exact g1
    exact g2.upd rfl rfl rfl rfl rfl
  · exact h

theorem tick_connected (s : Server) (kind : String) (t : Int) :
    (step s (.tick kind t)).1.info.connected = s.info.connected := by
  rw [step]
  split
  · -- tickClients
    unfold tickClients
    refine foldl_inv (fun (acc : Server × List Out) => acc.1.info.connected = s.info.connected) _ _ _ rfl ?_
    intro acc e h
    extract_lets +onlyGivenNames c
    split
    · extract_lets +onlyGivenNames s1 s2
      have g : CoreT acc.1 s2 := (clearInflights_core acc.1 e.2).trans (unsubscribeClient_core trivial_laws s1 e.2)
      show s2.info.connected = _
      rw [g.conn]; exact h
    · exact h
  · split
    · have q := tickRetainedLoop_conn s t
      unfold tickRetained
      exact q
    · split
      · unfold tickInflight
        refine foldl_inv (fun (x : Server) => x.info.connected = s.info.connected) _ _ _ rfl ?_
        intro b e h
        extract_lets +onlyGivenNames c
        refine foldl_inv (fun (x : Server) => x.info.connected = s.info.connected) _ _ _ h ?_
        intro b2 m h2
        extract_lets +onlyGivenNames expired enforced
        split
        · split
          rename_i c' ok heq
          extract_lets +onlyGivenNames s1
          split
          · exact h2
          · exact h2
        · exact h2
      · split
        · unfold tickWills
          refine foldl_inv (fun (acc : Server × List Out) => acc.1.info.connected = s.info.connected) _ _ _ rfl ?_
          intro acc e h
          split
          · split
            rename_i s1 o h1
            have g1 : s1.info.connected = s.info.connected := by
              have c : CoreT acc.1 (publishToSubscribers acc.1 e.2).1 := publishToSubscribers_core acc.1 e.2
              rw [h1] at c
              rw [c.conn]; exact h
            split
            rename_i s2 o2 h2
            have g2 : s2.info.connected = s.info.connected := by
              split at h2
              · rename_i i _
                extract_lets +onlyGivenNames s3 at h2
                rw [← (Prod.mk.inj h2).1]
                show s3.info.connected = _
                show (if e.2.retain = true then retainMsg s1 e.2 else s1).info.connected = _
                split
                · have c : CoreT s1 (retainMsg s1 e.2) := retainMsg_core trivial_laws s1 e.2
                  rw [c.conn]; exact g1
                · exact g1
              · cases h2; exact g1
            exact g2
          · exact h
        · rfl
where
  tickRetainedLoop_conn (s : Server) (now : Int) :
      (tickRetained.tickRetainedLoop s now).info.connected = s.info.connected := by
    unfold tickRetained.tickRetainedLoop
    refine foldl_inv (fun (x : Server) => x.info.connected = s.info.connected) _ _ _ rfl ?_
    intro b e h
    extract_lets pk expired enforced
    split
    · exact h
    · exact h

/-! ### the acting handlers -/

theorem act_of {i : Nat} {s s' : Server} {o : List Out} (f : Frame i s s' o) (g : Good s s') (c : CoreT s s') :
    Act i s s' ∧ s'.info.connected = s.info.connected :=
  ⟨Act.of_frame f g.pending c.parked c.parkedEarly, c.conn⟩

theorem receivePacket_act (s : Server) (i : Nat) (pk : InPk) :
    Act i s (receivePacket s i pk).1 ∧ (receivePacket s i pk).1.info.connected = s.info.connected :=
  act_of (receivePacket_frame s i pk) (receivePacket_good s i pk) (receivePacket_core trivial_laws s i pk)

theorem detachA_act (s : Server) (i : Nat) (b : Bool) :
    Act i s (detachA s i b).1 ∧ (detachA s i b).1.info.connected = s.info.connected :=
  act_of (detachA_frame s i b) (detachA_good s i b) (detachA_core trivial_laws s i b)

theorem stopClient_act (s : Server) (i : Nat) :
    Act i s (stopClient s i).1 ∧ (stopClient s i).1.info.connected = s.info.connected :=
  act_of (stopClient_frame s i) (stopClient_good s i) (stopClient_core s i)

theorem stopClient_stopped_cnt (s : Server) (i : Nat) (hi : i < s.objs.length) :
    (getObj (stopClient s i).1 i).stopped = true := by
  unfold stopClient
  extract_lets +onlyGivenNames c
  split
  · rename_i h; exact h
  · show (getObj (setObj s i { c with isOpen := false, stopped := true }) i).stopped = true
    rw [getObj_setObj_eq s i _ hi]

/-- an already stopped client is left alone -/
theorem stopClient_of_stopped (s : Server) (i : Nat) (h : (getObj s i).stopped = true) : (stopClient s i).1 = s := by
  unfold stopClient
  simp only [h, if_true]

theorem disconnectClient_fst (s : Server) (i code : Nat) : (disconnectClient s i code).1 = (stopClient s i).1 := rfl

theorem detachA_true_fst (s : Server) (i : Nat) : (detachA s i true).1 = (stopClient (sendLWT s i).1 i).1 := rfl

theorem detachA_true_stopped_cnt (s : Server) (i : Nat) (hi : i < s.objs.length) :
    (getObj (detachA s i true).1 i).stopped = true := by
  rw [detachA_true_fst]
  exact stopClient_stopped_cnt _ i (by rw [(sendLWT_frame s i).len]; exact hi)

theorem detachA_false_quiet (s : Server) (i : Nat) : QuietC s (detachA s i false).1 := by
  unfold detachA
  simp only [Bool.false_eq_true, if_false]
  exact (QuietC.refl s).mod i _ (by own_rfl)

theorem detachB_quiet (s : Server) (i : Nat) :
    QuietC s (detachB s i) ∧ (detachB s i).info.connected = s.info.connected - 1 := by
  unfold detachB
  extract_lets +onlyGivenNames c expire s3 s4 s2
  have h2 : QuietC s s2 ∧ s2.info.connected = s.info.connected := by
    show QuietC s (if (expire && !c.takenOver) = true then _ else s) ∧
      (if (expire && !c.takenOver) = true then _ else s).info.connected = s.info.connected
    split
    · have q3 : QuietC s s3 := clearInflights_quiet_cnt s i
      have q4 : QuietC s s4 := q3.trans (unsubscribeClient_quiet s3 i)
      have c4 : CoreT s s4 := (clearInflights_core s i).trans (unsubscribeClient_core trivial_laws s3 i)
      exact ⟨q4.upd rfl rfl rfl rfl rfl, c4.conn⟩
    · exact ⟨QuietC.refl s, rfl⟩
  refine ⟨h2.1.upd rfl rfl rfl rfl rfl, ?_⟩
  show s2.info.connected - 1 = _
  rw [h2.2]

theorem detach_fst (s : Server) (i : Nat) (b : Bool) : (detach s i b).1 = detachB (detachA s i b).1 i := rfl

/-- leaving the read loop with an error: the client is stopped, the counter decremented -/
theorem detach_true_act (s : Server) (i : Nat) (hi : i < s.objs.length) :
    Act i s (detach s i true).1 ∧ (detach s i true).1.info.connected = s.info.connected - 1 ∧
      (getObj (detach s i true).1 i).stopped = true := by
  rw [detach_fst]
  obtain ⟨a, ca⟩ := detachA_act s i true
  obtain ⟨q, cq⟩ := detachB_quiet (detachA s i true).1 i
  refine ⟨a.trans (q.act i), by rw [cq, ca], ?_⟩
  rw [← (q.all i).stopped]
  exact detachA_true_stopped_cnt s i hi

/-- leaving the read loop normally: the flags stay, the counter is decremented -/
theorem detach_false_quiet (s : Server) (i : Nat) :
    QuietC s (detach s i false).1 ∧ (detach s i false).1.info.connected = s.info.connected - 1 := by
  rw [detach_fst]
  have qa := detachA_false_quiet s i
  have ca : (detachA s i false).1.info.connected = s.info.connected := (detachA_act s i false).2
  obtain ⟨q, cq⟩ := detachB_quiet (detachA s i false).1 i
  exact ⟨qa.trans q, by rw [cq, ca]⟩

theorem Frame.kept_of_nil {i : Nat} {s s' : Server} (f : Frame i s s' []) (hinl : (getObj s i).inline = false) :
    (getObj s' i).isOpen = (getObj s i).isOpen ∧ (getObj s' i).stopped = (getObj s i).stopped := by
  rcases f.stop with h | h
  · exact h
  · cases h hinl

/-- the PINGREQ barrier that reports no error leaves the connection as it was -/
theorem receivePacket_pingreq_none (s : Server) (i : Nat) (hinl : (getObj s i).inline = false)
    (h : (receivePacket s i .pingreq).2.2 = none) :
    (getObj (receivePacket s i .pingreq).1 i).isOpen = (getObj s i).isOpen := by
  unfold receivePacket at h ⊢
  simp only [] at h ⊢
  by_cases hd : (!dead (getObj s i)) = true
  · simp only [hd, if_true] at h ⊢
    exact ((nextImmediate_frame s i).kept_of_nil hinl).1
  · simp [hd] at h

theorem OS.open_of {c : Client} (h : OS c) (hs : c.stopped = false) : c.isOpen = true := by
  unfold OS at h; rw [h, hs]; rfl

theorem OS.closed_of {c : Client} (h : OS c) (hs : c.stopped = true) : c.isOpen = false := by
  unfold OS at h; rw [h, hs]; rfl

theorem OS.stopped_of_closed {c : Client} (h : OS c) (ho : c.isOpen = false) : c.stopped = true := by
  unfold OS at h; rw [ho] at h; cases hs : c.stopped <;> simp_all

theorem OS.live_of_open {c : Client} (h : OS c) (ho : c.isOpen = true) : c.stopped = false := by
  unfold OS at h; rw [ho] at h; cases hs : c.stopped <;> simp_all

/-- the object whose handler is in its read loop: in none of the lists -/
structure InLoop (s : Server) (i : Nat) : Prop where
  lt : i < s.objs.length
  nz : i ≠ 0
  np : i ∉ s.parked
  ne : i ∉ s.parkedEarly
  npend : ∀ p ∈ s.pending, p.obj ≠ i

theorem InLoop.hb {s : Server} {i : Nat} (h : InLoop s i) : Hb s i = (getObj s i).isOpen :=
  Hb_plain h.nz h.np h.ne h.npend

theorem InLoop.act {s s' : Server} {i j : Nat} (h : InLoop s i) (a : Act j s s') : InLoop s' i :=
  ⟨by rw [a.len]; exact h.lt, h.nz, by rw [a.parked]; exact h.np, by rw [a.parkedEarly]; exact h.ne,
   by rw [a.pending]; exact h.npend⟩

/-- work for an object in its read loop: the counter moved exactly as the object's `isOpen` did -/
theorem ConnInv.finish {i : Nat} {s s' : Server} (h : ConnInv s) (a : Act i s s') (hl : InLoop s i)
    (hc : s'.info.connected = s.info.connected + b2i (getObj s' i).isOpen - b2i (getObj s i).isOpen) : ConnInv s' := by
  refine ⟨h.side.of_act a hl.np (fun p hp _ => hl.npend p hp), ?_⟩
  have := hcount_act a hl.lt
  rw [(hl.act a).hb, hl.hb] at this
  rw [hc, h.eq, this]

theorem InLoop.of_conn {s : Server} (hw : WF s) (h : ConnInv s) (_hos : ∀ k, OS (getObj s k)) {c i : Nat}
    (hc : assocGet s.connOf c = some i) (hnp : ∀ p ∈ s.pending, p.obj ≠ i) (hne : i ∉ s.parkedEarly)
    (hlive : (getObj s i).stopped = false) : InLoop s i := by
  refine ⟨conn_lt hw hc, h.side.conn_nz c i hc, ?_, hne, hnp⟩
  intro hp
  have := h.side.parked_stopped i hp
  rw [hlive] at this
  cases this

theorem b2i_true : b2i true = 1 := rfl
theorem b2i_false : b2i false = 0 := rfl

/-- the connection is lost / its handler leaves with an error -/
theorem detach_true_conn (s : Server) (i : Nat) (h : ConnInv s) (hl : InLoop s i) (hopen : (getObj s i).isOpen = true)
    (hos' : ∀ k, OS (getObj (detach s i true).1 k)) : ConnInv (detach s i true).1 := by
  obtain ⟨a, c, st⟩ := detach_true_act s i hl.lt
  refine h.finish a hl ?_
  rw [c, (hos' i).closed_of st, hopen, b2i_true, b2i_false]
  omega

/-- one inbound packet on a connection whose handler is in its read loop -/
theorem recvOn_conn (s : Server) (c : Nat) (pk : InPk) (b : Bool) (hw : WF s) (h : ConnInv s)
    (hos : ∀ k, OS (getObj s k)) (hos' : ∀ k, OS (getObj (recvOn s c pk b).1 k)) (i : Nat)
    (hc : assocGet s.connOf c = some i) (hnp : ∀ p ∈ s.pending, p.obj ≠ i) (hne : i ∉ s.parkedEarly) :
    ConnInv (recvOn s c pk b).1 := by
  unfold recvOn at hos' ⊢
  simp only [hc] at hos' ⊢
  cases hopen : (getObj s i).isOpen with
  | false =>
    simp only [Bool.not_false, if_true]
    exact h
  | true =>
    have hl : InLoop s i := InLoop.of_conn hw h hos hc hnp hne ((hos i).live_of_open hopen)
    have hinl : (getObj s i).inline = false := h.side.inl i hl.nz
    simp only [hopen, Bool.not_true, Bool.false_eq_true, if_false] at hos' ⊢
    obtain ⟨a1, c1⟩ := receivePacket_act s i pk
    -- name the result of the handler
    generalize hr : receivePacket s i pk = r at hos' a1 c1 ⊢
    obtain ⟨s1, o, e⟩ := r
    simp only [] at hos' a1 c1 ⊢
    have hl1 : InLoop s1 i := hl.act a1
    cases e with
    | some code =>
      simp only [] at hos' ⊢
      obtain ⟨a2, c2, st⟩ := detach_true_act s1 i hl1.lt
      refine h.finish (a1.trans a2) hl ?_
      rw [c2, c1, (hos' i).closed_of st, hopen, b2i_true, b2i_false]
      omega
    | none =>
      simp only [] at hos' ⊢
      cases hopen1 : (getObj s1 i).isOpen with
      | false =>
        simp only [hopen1, Bool.not_false, if_true] at hos' ⊢
        obtain ⟨q, cq⟩ := detach_false_quiet s1 i
        refine h.finish (a1.trans (q.act i)) hl ?_
        rw [cq, c1, ← (q.all i).isOpen, hopen1, hopen, b2i_true, b2i_false]
        omega
      | true =>
      simp only [hopen1, Bool.not_true, Bool.false_eq_true, if_false] at hos' ⊢
      cases b with
      | false =>
        simp only [Bool.false_eq_true, if_false] at hos' ⊢
        refine h.finish a1 hl ?_
        rw [c1, hopen1, hopen]
        omega
      | true =>
        simp only [if_true] at hos' ⊢
        obtain ⟨a2, c2⟩ := receivePacket_act s1 i .pingreq
        have hping := receivePacket_pingreq_none s1 i (by rw [a1.inl]; exact hinl)
        generalize hr2 : receivePacket s1 i .pingreq = r2 at hos' a2 c2 hping ⊢
        obtain ⟨s2, o2, e2⟩ := r2
        simp only [] at hos' a2 c2 hping ⊢
        cases e2 with
        | some code =>
          simp only [] at hos' ⊢
          obtain ⟨a3, c3, st⟩ := detach_true_act s2 i ((hl1.act a2).lt)
          refine h.finish ((a1.trans a2).trans a3) hl ?_
          rw [c3, c2, c1, (hos' i).closed_of st, hopen, b2i_true, b2i_false]
          omega
        | none =>
          simp only [] at hos' ⊢
          refine h.finish (a1.trans a2) hl ?_
          rw [c2, c1, hping rfl, hopen1, hopen]
          omega

/-! ### connecting -/

/-- `QuietC` that also keeps `ClientsConnected` -/
structure QCC (s s' : Server) : Prop where
  q : QuietC s s'
  c : s'.info.connected = s.info.connected

theorem QCC.refl (s : Server) : QCC s s := ⟨QuietC.refl s, rfl⟩
theorem QCC.trans {s s1 s2 : Server} (h : QCC s s1) (g : QCC s1 s2) : QCC s s2 := ⟨h.q.trans g.q, g.c.trans h.c⟩
theorem QCC.upd {s0 s s' : Server} (h : QCC s0 s) (ho : s'.objs = s.objs) (hn : s'.connOf = s.connOf)
    (hp : s'.pending = s.pending) (h1 : s'.parked = s.parked) (h2 : s'.parkedEarly = s.parkedEarly)
    (hc : s'.info.connected = s.info.connected) : QCC s0 s' := ⟨h.q.upd ho hn hp h1 h2, hc.trans h.c⟩
theorem QCC.mod {s0 s : Server} (h : QCC s0 s) (i : Nat) (f : Client → Client)
    (hf : OwnEq (getObj s i) (f (getObj s i))) : QCC s0 (modObj s i f) := ⟨h.q.mod i f hf, h.c⟩

theorem info_ite_connected (b : Bool) (x y : Info) (hx : x.connected = y.connected) :
    (if b = true then x else y).connected = y.connected := by
  cases b
  · rfl
  · exact hx

theorem clearInflights_qc (s : Server) (i : Nat) : QCC s (clearInflights s i) :=
  ⟨clearInflights_quiet_cnt s i, (clearInflights_core (P := fun _ => True) s i).conn⟩

theorem unsubscribeClient_qc (s : Server) (i : Nat) : QCC s (unsubscribeClient s i) :=
  ⟨unsubscribeClient_quiet s i, (unsubscribeClient_core trivial_laws s i).conn⟩

/-- the state in which `admitA` stops the existing client: the counter incremented, nothing else done -/
def incConn (s : Server) : Server := { s with info := { s.info with connected := s.info.connected + 1 } }

theorem incConn_quiet (s : Server) : QuietC s (incConn s) := (QuietC.refl s).upd rfl rfl rfl rfl rfl

/-- a session for the client id exists: apart from stopping the existing client, `admitA` is quiet -/
theorem admitA_qc_some (s : Server) (i : Nat) (k : Connect) (e : Nat) (he : assocGet s.clients k.id = some e) :
    QCC (stopClient (incConn s) e).1 (admitA s i k).1 := by
  unfold admitA
  extract_lets +onlyGivenNames src s0 exLive
  split
  rename_i s' o1 present heq
  refine QCC.upd (s := s') ?_ rfl rfl rfl rfl rfl rfl
  have he0 : assocGet s0.clients k.id = some e := he
  split at heq
  · rename_i e' he'
    have hee : e' = e := by
      rw [he0] at he'
      exact (Option.some.inj he').symm
    subst hee
    extract_lets +onlyGivenNames ex at heq
    split at heq
    rename_i s1 o hd
    have e1 : s1 = (stopClient (incConn s) e').1 := by
      have : (disconnectClient s0 e' 0x8E).1 = s1 := by rw [hd]
      rw [← this]
      rfl
    rw [← e1]
    split at heq
    · extract_lets +onlyGivenNames s2 s3 at heq
      cases heq
      have hs2 : QCC s1 s2 := unsubscribeClient_qc s1 e'
      have hs3 : QCC s1 s3 := hs2.trans (clearInflights_qc s2 e')
      exact hs3.mod e' _ (by own_rfl)
    · extract_lets +onlyGivenNames s2 ex2 rmx s2i src2 s3 s4 s5 s6 at heq
      rw [← (Prod.mk.inj heq).1]
      have hs2 : QCC s1 s2 := (QCC.refl s1).mod e' _ (by own_rfl)
      have hs2i : QCC s1 s2i := hs2.mod i _ (by own_rfl)
      have hs3 : QCC s1 s3 := by
        show QCC s1 (if ex2.inflight.length > 0 then _ else s2)
        split
        · exact hs2i.upd rfl rfl rfl rfl rfl rfl
        · exact hs2
      have hs4 : QCC s1 s4 := by
        refine foldl_inv (fun (x : Server) => QCC s1 x) _ _ _ hs3 ?_
        intro b fs h
        extract_lets +onlyGivenNames rr src3 b1
        exact (QCC.upd (s' := b1) h rfl rfl rfl rfl rfl (info_ite_connected _ _ _ rfl)).mod i _ (by own_rfl)
      have hs5 : QCC s1 s5 := hs4.trans (unsubscribeClient_qc s4 e')
      exact hs5.trans (clearInflights_qc s5 e')
  · rename_i hn
    rw [he0] at hn
    cases hn

/-- no session for the client id: `admitA` only increments the counter and registers the client -/
theorem admitA_qc_none (s : Server) (i : Nat) (k : Connect) (he : assocGet s.clients k.id = none) :
    QCC (incConn s) (admitA s i k).1 := by
  unfold admitA
  extract_lets +onlyGivenNames src s0 exLive
  split
  rename_i s' o1 present heq
  refine QCC.upd (s := s') ?_ rfl rfl rfl rfl rfl rfl
  have he0 : assocGet s0.clients k.id = none := he
  split at heq
  · rename_i e' he'
    rw [he0] at he'
    cases he'
  · cases heq
    exact QCC.refl _

theorem admitA_exLive_eq (s : Server) (i : Nat) (k : Connect) :
    (admitA s i k).2.2.2 = match assocGet s.clients k.id with
      | some e => if ((getObj s e).stopped || s.parkedEarly.contains e || s.pending.any (·.obj == e)) = true then none else some e
      | none => none := by
  unfold admitA
  extract_lets +onlyGivenNames src s0 exLive
  split
  rfl

theorem Hb_listed {s s' : Server} {k : Nat} (h1 : s'.parked = s.parked) (h2 : s'.parkedEarly = s.parkedEarly)
    (h3 : s'.pending = s.pending)
    (hl : k ∈ s.parked ∨ k ∈ s.parkedEarly ∨ ∃ p ∈ s.pending, p.obj = k ∧ p.stage ≠ 1) : Hb s' k = Hb s k := by
  by_cases hk : k = 0
  · subst hk; rw [Hb_zero, Hb_zero]
  · rcases hl with hl | hl | ⟨p, hp, hpo, hps⟩
    · rw [Hb_parked hk hl, Hb_parked hk (h1 ▸ hl)]
    · rw [Hb_parkedEarly hk hl, Hb_parkedEarly hk (h2 ▸ hl)]
    · rw [Hb_pending2 hk p hp hpo hps, Hb_pending2 hk p (h3 ▸ hp) hpo hps]

theorem admitClient_fst (s : Server) (i conn : Nat) (k : Connect) :
    (admitClient s i conn k).1 =
      (admitC (match (admitA s i k).2.2.2 with
        | some e => (detach (admitConnack (admitA s i k).1 i conn (admitA s i k).2.2.1).1 e true).1
        | none => (admitConnack (admitA s i k).1 i conn (admitA s i k).2.2.1).1) i k (admitA s i k).2.2.1).1 := by
  unfold admitClient
  split
  rename_i s1 o1 present exLive h1
  simp only [h1]
  split <;> rfl

theorem admitConnack_qc (s : Server) (i conn : Nat) (present : Bool) : QCC s (admitConnack s i conn present).1 :=
  ⟨admitConnack_quiet_cnt s i conn present, (admitConnack_core (P := fun _ => True) s i conn present).conn⟩

theorem admitC_qc (s : Server) (i : Nat) (k : Connect) (present : Bool) : QCC s (admitC s i k present).1 :=
  ⟨admitC_quiet_cnt s i k present, (admitC_core (P := fun _ => True) s i k present).conn⟩

/-- object `i` is open and in none of the lists, and its handler has not passed the increment yet -/
structure PreAdmit (t : Server) (i : Nat) : Prop where
  side : Side t
  loop : InLoop t i
  isOpen : (getObj t i).isOpen = true
  eq : t.info.connected = hcount t - 1

/-- the core of `attachClient` between the increment and the read loop: `admitA`, anything quiet, the
    taken-over handler leaving its read loop, anything quiet -/
theorem admit_conn (t : Server) (i : Nat) (k : Connect) (hw : WF t) (hinf : InflInv t) (hp : PreAdmit t i)
    (hunreg : ¬ Reg t i) (hid : k.id ≠ inlineID)
    (s2 : Server) (q2 : QCC (admitA t i k).1 s2)
    (s4 : Server) (q4 : QCC (match (admitA t i k).2.2.2 with | some e => (detach s2 e true).1 | none => s2) s4)
    (hos4 : ∀ k, OS (getObj s4 k)) :
    ConnInv s4 ∧ InLoop s4 i ∧ (getObj s4 i).isOpen = true ∧ s4.pending = t.pending := by
  have hex := admitA_exLive_eq t i k
  cases he : assocGet t.clients k.id with
  | none =>
    rw [he] at hex
    simp only [] at hex
    rw [hex] at q4
    simp only [] at q4
    have q1 := admitA_qc_none t i k he
    have q := ((incConn_quiet t).trans q1.q).trans (q2.q.trans q4.q)
    refine ⟨⟨hp.side.of_quiet q, ?_⟩, hp.loop.act (q.act i), (q.all i).isOpen.symm.trans hp.isOpen, q.pending⟩
    rw [hcount_quiet q, q4.c, q2.c, q1.c]
    show t.info.connected + 1 = _
    rw [hp.eq]
    omega
  | some e =>
    rw [he] at hex
    simp only [] at hex
    have hreg : Reg t e := Reg.of_assocGet he
    have hie : i ≠ e := fun x => hunreg (x ▸ hreg)
    have hv := hw.clients_valid k.id e (assocGet_mem _ _ _ he)
    have he0 : e ≠ 0 := by
      rintro rfl
      exact hid (hv.2.symm.trans hp.side.id0)
    have q1 := admitA_qc_some t i k e he
    obtain ⟨as, cs⟩ := stopClient_act (incConn t) e
    -- up to (and including) the first quiet part: work for `e`
    have a2 : Act e t s2 := (((incConn_quiet t).act e).trans as).trans ((q1.q.trans q2.q).act e)
    have c2 : s2.info.connected = t.info.connected + 1 := by
      rw [q2.c, q1.c, cs]; rfl
    have np1 : ∀ p ∈ t.pending, p.stage = 1 → p.obj ≠ e := fun p hp h1 x => (hinf.pend p hp h1).1 (x ▸ hreg)
    by_cases hcond : ((getObj t e).stopped || t.parkedEarly.contains e || t.pending.any (·.obj == e)) = true
    · rw [if_pos hcond] at hex
      rw [hex] at q4
      simp only [] at q4
      have a4 := a2.trans (q4.q.act e)
      have c4 := q4.c.trans c2
      by_cases hst : (getObj t e).stopped = true
      · -- the existing client was stopped already: nothing changes for it
        have hs : (stopClient (incConn t) e).1 = incConn t := stopClient_of_stopped _ e hst
        rw [hs] at q1
        have q := ((incConn_quiet t).trans q1.q).trans (q2.q.trans q4.q)
        refine ⟨⟨hp.side.of_quiet q, ?_⟩, hp.loop.act (q.act i), (q.all i).isOpen.symm.trans hp.isOpen, q.pending⟩
        rw [hcount_quiet q, c4, hp.eq]
        omega
      · -- its handler is parked: it stays counted
        have hst' : (getObj t e).stopped = false := by simpa using hst
        have hlisted : e ∈ t.parked ∨ e ∈ t.parkedEarly ∨ ∃ p ∈ t.pending, p.obj = e ∧ p.stage ≠ 1 := by
          simp only [hst', Bool.false_or, Bool.or_eq_true, List.contains_iff_mem, List.any_eq_true, beq_iff_eq] at hcond
          rcases hcond with h | ⟨p, hp, hpo⟩
          · exact Or.inr (Or.inl h)
          · exact Or.inr (Or.inr ⟨p, hp, hpo, fun h1 => np1 p hp h1 hpo⟩)
        have hnp : e ∉ t.parked := fun x => by
          have := hp.side.parked_stopped e x
          rw [hst'] at this; cases this
        refine ⟨⟨hp.side.of_act a4 hnp np1, ?_⟩, hp.loop.act a4, (a4.other i hie).isOpen.symm.trans hp.isOpen,
          a4.pending⟩
        have := hcount_act a4 hv.1
        rw [Hb_listed a4.parked a4.parkedEarly a4.pending hlisted] at this
        rw [c4, hp.eq]
        omega
    · -- the existing client's handler is in its read loop: it leaves it now
      rw [if_neg hcond] at hex
      rw [hex] at q4
      simp only [] at q4
      simp only [Bool.or_eq_true, not_or, Bool.not_eq_true, List.contains_iff_mem, List.any_eq_true, beq_iff_eq,
        not_exists, not_and] at hcond
      obtain ⟨⟨hst, hpe⟩, hpend⟩ := hcond
      have hpe' : e ∉ t.parkedEarly := by simpa using hpe
      have hl : InLoop t e := by
        refine ⟨hv.1, he0, ?_, hpe', fun p hp => hpend p hp⟩
        intro x
        have := hp.side.parked_stopped e x
        rw [hst] at this; cases this
      have hopen : (getObj t e).isOpen = true := (hinf.os e).open_of hst
      obtain ⟨a3, c3, st3⟩ := detach_true_act s2 e (by rw [a2.len]; exact hv.1)
      have a4 := (a2.trans a3).trans (q4.q.act e)
      have st4 := (q4.q.all e).stopped.symm.trans st3
      refine ⟨⟨hp.side.of_act a4 hl.np np1, ?_⟩, hp.loop.act a4, (a4.other i hie).isOpen.symm.trans hp.isOpen,
        a4.pending⟩
      have := hcount_act a4 hv.1
      rw [(hl.act a4).hb, hl.hb, (hos4 e).closed_of st4, hopen, b2i_true, b2i_false] at this
      rw [q4.c, c3, c2, hp.eq]
      omega

theorem admitClient_conn (t : Server) (i conn : Nat) (k : Connect) (hw : WF t) (hinf : InflInv t)
    (hos' : ∀ j, OS (getObj (admitClient t i conn k).1 j)) (hp : PreAdmit t i) (hunreg : ¬ Reg t i)
    (hid : k.id ≠ inlineID) :
    ConnInv (admitClient t i conn k).1 ∧ InLoop (admitClient t i conn k).1 i ∧
      (getObj (admitClient t i conn k).1 i).isOpen = true := by
  rw [admitClient_fst] at hos' ⊢
  obtain ⟨a, b, c, _⟩ := admit_conn t i k hw hinf hp hunreg hid _ (admitConnack_qc _ i conn _) _ (admitC_qc _ i k _) hos'
  exact ⟨a, b, c⟩

/-! ### transitions that move an object between the lists -/

theorem Hb_congr' {s s' : Server} {k : Nat} (h1 : s'.parked.contains k = s.parked.contains k)
    (h2 : s'.parkedEarly.contains k = s.parkedEarly.contains k)
    (h3 : s'.pending.any (fun p => p.obj == k && p.stage != 1) = s.pending.any (fun p => p.obj == k && p.stage != 1))
    (h3' : s'.pending.any (fun p => p.obj == k && p.stage == 1) = s.pending.any (fun p => p.obj == k && p.stage == 1))
    (h4 : (getObj s' k).isOpen = (getObj s k).isOpen) : Hb s' k = Hb s k := by
  unfold Hb
  rw [h1, h2, h3, h3', h4]

theorem hcount_update {i : Nat} {s s' : Server} (hlen : s'.objs.length = s.objs.length) (hi : i < s.objs.length)
    (hH : ∀ k, k ≠ i → Hb s' k = Hb s k) : (hcount s' : Int) = hcount s + b2i (Hb s' i) - b2i (Hb s i) := by
  unfold hcount
  rw [hlen]
  exact countP_range_update (Hb s') (Hb s) _ i hi hH

theorem contains_snoc_ne (l : List Nat) (i k : Nat) (h : k ≠ i) : (l ++ [i]).contains k = l.contains k := by
  rw [Bool.eq_iff_iff]
  simp [h]

theorem contains_filter_ne (l : List Nat) (i k : Nat) (h : k ≠ i) : (l.filter (· != i)).contains k = l.contains k := by
  rw [Bool.eq_iff_iff]
  simp [h]

theorem any_snoc_irrelevant {α} (l : List α) (x : α) (f : α → Bool) (h : f x = false) : (l ++ [x]).any f = l.any f := by
  simp [h]

theorem any_filter_irrelevant {α} (l : List α) (keep f : α → Bool) (h : ∀ x ∈ l, keep x = false → f x = false) :
    (l.filter keep).any f = l.any f := by
  induction l with
  | nil => rfl
  | cons x xs ih =>
    have ih' := ih (fun y hy => h y (List.mem_cons_of_mem _ hy))
    rw [List.filter_cons]
    cases hk : keep x
    · simp only [Bool.false_eq_true, if_false, List.any_cons, h x List.mem_cons_self hk, Bool.false_or, ih']
    · simp only [if_true, List.any_cons, ih']

theorem getObj_append_ne {s s' : Server} {c : Client} (ho : s'.objs = s.objs ++ [c]) (k : Nat) (hk : k ≠ s.objs.length) :
    getObj s' k = getObj s k := by
  by_cases hlt : k < s.objs.length
  · exact getObj_append_lt ho k hlt
  · have h1 : s.objs.length + 1 ≤ k := by omega
    simp only [getObj, ho, List.getD_eq_getElem?_getD]
    rw [List.getElem?_eq_none (by simp; omega), List.getElem?_eq_none (by omega)]

/-- a new object: open, in no list, not yet counted -/
theorem preAdmit_new (s : Server) (hw : WF s) (hinf : InflInv s) (h : ConnInv s) (c : Client) (conn : Nat)
    (hopen : c.isOpen = true) (hinl : c.inline = false) :
    PreAdmit { s with objs := s.objs ++ [c], connOf := s.connOf ++ [(conn, s.objs.length)] } s.objs.length := by
  have hg : ∀ k, k ≠ s.objs.length →
      getObj { s with objs := s.objs ++ [c], connOf := s.connOf ++ [(conn, s.objs.length)] } k = getObj s k :=
    fun k hk => getObj_append_ne (s := s) rfl k hk
  have hn : getObj { s with objs := s.objs ++ [c], connOf := s.connOf ++ [(conn, s.objs.length)] } s.objs.length = c :=
    getObj_append_eq (s := s) rfl
  have hnz : s.objs.length ≠ 0 := Nat.ne_of_gt hinf.nz
  have hl : InLoop { s with objs := s.objs ++ [c], connOf := s.connOf ++ [(conn, s.objs.length)] } s.objs.length := by
    refine ⟨by show s.objs.length < (s.objs ++ [c]).length; simp, hnz, ?_, ?_, ?_⟩
    · intro x; have := h.side.parked_lt _ x; omega
    · intro x; have := h.side.parkedEarly_lt _ x; omega
    · intro p hp x
      have := (hw.pending_valid p hp).1
      omega
  refine ⟨?_, hl, by rw [hn]; exact hopen, ?_⟩
  · refine ⟨?_, h.side.disj, h.side.pend_np, ?_, ?_, ?_, ?_, ?_, ?_, h.side.pendOK, h.side.parked_nz,
      by rw [hg 0 (Ne.symm hnz)]; exact h.side.inl0⟩
    · intro k hk
      rw [hg k (by have := h.side.parked_lt k hk; omega)]
      exact h.side.parked_stopped k hk
    · intro p hp h1
      rw [hg p.obj (fun x => hl.npend p hp x)]
      exact h.side.pend1_live p hp h1
    · intro c1 i hi
      rcases assocGet_snoc _ _ _ _ _ hi with a | ⟨_, _, a⟩
      · exact h.side.conn_nz c1 i a
      · rw [a]; exact hnz
    · intro k hk
      have := h.side.parked_lt k hk
      show k < (s.objs ++ [c]).length
      simp; omega
    · intro k hk
      have := h.side.parkedEarly_lt k hk
      show k < (s.objs ++ [c]).length
      simp; omega
    · rw [hg 0 (Ne.symm hnz)]; exact h.side.id0
    · intro k hk
      by_cases hkn : k = s.objs.length
      · rw [hkn, hn]; exact hinl
      · rw [hg k hkn]; exact h.side.inl k hk
  · have hb : Hb { s with objs := s.objs ++ [c], connOf := s.connOf ++ [(conn, s.objs.length)] } s.objs.length = true := by
      rw [hl.hb, hn]; exact hopen
    show s.info.connected = ((hcount { s with objs := s.objs ++ [c], connOf := s.connOf ++ [(conn, s.objs.length)] } : Nat) : Int) - 1
    rw [h.eq]
    unfold hcount
    show _ = (((List.range (s.objs ++ [c]).length).countP _ : Nat) : Int) - 1
    rw [List.length_append, List.length_singleton, List.range_succ, List.countP_append]
    simp only [List.countP_cons, List.countP_nil, hb, if_true]
    rw [countP_range_congr (Hb { s with objs := s.objs ++ [c], connOf := s.connOf ++ [(conn, s.objs.length)] }) (Hb s)
      s.objs.length (fun k hk => Hb_congr rfl rfl rfl (by rw [hg k (by omega)]))]
    push_cast
    omega

/-- the connection is refused: the new client is stopped without ever being counted -/
theorem PreAdmit.stop {t : Server} {i : Nat} (hp : PreAdmit t i) (hos' : ∀ k, OS (getObj (stopClient t i).1 k)) :
    ConnInv (stopClient t i).1 := by
  obtain ⟨a, c⟩ := stopClient_act t i
  have st := stopClient_stopped_cnt t i hp.loop.lt
  refine ⟨hp.side.of_act a hp.loop.np (fun p hq _ => hp.loop.npend p hq), ?_⟩
  have := hcount_act a hp.loop.lt
  rw [(hp.loop.act a).hb, hp.loop.hb, (hos' i).closed_of st, hp.isOpen, b2i_true, b2i_false] at this
  rw [c, hp.eq]
  omega

/-- the handler is parked in the authentication hook: still not counted -/
theorem PreAdmit.park1 {t : Server} {i : Nat} (hp : PreAdmit t i) (hst : (getObj t i).stopped = false) (p : Pending)
    (hpo : p.obj = i) (hps : p.stage = 1) (hok : PendOK (t.pending ++ [p])) :
    ConnInv { t with pending := t.pending ++ [p] } := by
  have hl := hp.loop
  refine ⟨⟨hp.side.parked_stopped, hp.side.disj, ?_, ?_, hp.side.conn_nz, hp.side.parked_lt, hp.side.parkedEarly_lt,
    hp.side.id0, hp.side.inl, hok, hp.side.parked_nz, hp.side.inl0⟩, ?_⟩
  · intro q hq
    rcases List.mem_append.mp hq with hq | hq
    · exact hp.side.pend_np q hq
    · rw [List.mem_singleton.mp hq, hpo]; exact ⟨hl.np, hl.ne⟩
  · intro q hq h1
    rcases List.mem_append.mp hq with hq | hq
    · exact hp.side.pend1_live q hq h1
    · rw [List.mem_singleton.mp hq, hpo]; exact hst
  · have hH : ∀ k, k ≠ i → Hb { t with pending := t.pending ++ [p] } k = Hb t k := by
      intro k hk
      refine Hb_congr' rfl rfl ?_ ?_ rfl
      · exact any_snoc_irrelevant _ _ _ (by simp [hpo, Ne.symm hk])
      · exact any_snoc_irrelevant _ _ _ (by simp [hpo, Ne.symm hk])
    have := hcount_update (s := t) (s' := { t with pending := t.pending ++ [p] }) rfl hl.lt hH
    have hb' : Hb { t with pending := t.pending ++ [p] } i = false := by
      refine Hb_pending1 hl.np hl.ne ?_ p (List.mem_append_right _ (List.mem_singleton.mpr rfl)) hpo
      intro q hq hqo
      rcases List.mem_append.mp hq with hq | hq
      · exact absurd hqo (hl.npend q hq)
      · rw [List.mem_singleton.mp hq]; exact hps
    rw [hb', hl.hb, hp.isOpen, b2i_true, b2i_false] at this
    show t.info.connected = _
    rw [hp.eq]
    omega

/-- the handler is parked after the increment: it stays counted -/
theorem ConnInv.park2 {t : Server} {i : Nat} (h : ConnInv t) (hl : InLoop t i) (hopen : (getObj t i).isOpen = true)
    (p : Pending) (hpo : p.obj = i) (hps : p.stage ≠ 1) (hok : PendOK (t.pending ++ [p])) :
    ConnInv { t with pending := t.pending ++ [p] } := by
  refine ⟨⟨h.side.parked_stopped, h.side.disj, ?_, ?_, h.side.conn_nz, h.side.parked_lt, h.side.parkedEarly_lt,
    h.side.id0, h.side.inl, hok, h.side.parked_nz, h.side.inl0⟩, ?_⟩
  · intro q hq
    rcases List.mem_append.mp hq with hq | hq
    · exact h.side.pend_np q hq
    · rw [List.mem_singleton.mp hq, hpo]; exact ⟨hl.np, hl.ne⟩
  · intro q hq h1
    rcases List.mem_append.mp hq with hq | hq
    · exact h.side.pend1_live q hq h1
    · rw [List.mem_singleton.mp hq] at h1; exact absurd h1 hps
  · have hH : ∀ k, k ≠ i → Hb { t with pending := t.pending ++ [p] } k = Hb t k := by
      intro k hk
      refine Hb_congr' rfl rfl ?_ ?_ rfl
      · exact any_snoc_irrelevant _ _ _ (by simp [hpo, Ne.symm hk])
      · exact any_snoc_irrelevant _ _ _ (by simp [hpo, Ne.symm hk])
    have := hcount_update (s := t) (s' := { t with pending := t.pending ++ [p] }) rfl hl.lt hH
    have hb' : Hb { t with pending := t.pending ++ [p] } i = true :=
      Hb_pending2 hl.nz p (List.mem_append_right _ (List.mem_singleton.mpr rfl)) hpo hps
    rw [hb', hl.hb, hopen] at this
    show t.info.connected = _
    rw [h.eq]
    omega

/-- a parked connecting handler is taken out of `pending` -/
theorem unpark (s : Server) (hw : WF s) (hinf : InflInv s) (h : ConnInv s) (p : Pending) (hp : p ∈ s.pending) :
    Side { s with pending := s.pending.filter (·.conn != p.conn) } ∧
    InLoop { s with pending := s.pending.filter (·.conn != p.conn) } p.obj ∧
    (hcount { s with pending := s.pending.filter (·.conn != p.conn) } : Int) =
      hcount s + b2i (getObj s p.obj).isOpen - b2i (Hb s p.obj) := by
  have hobj : ∀ q ∈ s.pending, (q.conn = p.conn ↔ q.obj = p.obj) := by
    intro q hq
    constructor
    · intro e
      have a := hinf.pconn q hq
      rw [e, hinf.pconn p hp] at a
      exact (Option.some.inj a).symm
    · intro e
      have a := hinf.pconn q hq
      rw [e] at a
      exact hinf.cinj _ _ _ a (hinf.pconn p hp)
  have hsub : ∀ q, q ∈ s.pending.filter (·.conn != p.conn) → q ∈ s.pending ∧ q.obj ≠ p.obj := by
    intro q hq
    obtain ⟨hq1, hq2⟩ := List.mem_filter.mp hq
    refine ⟨hq1, fun e => ?_⟩
    rw [(hobj q hq1).mpr e] at hq2
    simp at hq2
  have hl : InLoop { s with pending := s.pending.filter (·.conn != p.conn) } p.obj :=
    ⟨(hw.pending_valid p hp).1, hinf.pnz p hp, (h.side.pend_np p hp).1, (h.side.pend_np p hp).2,
     fun q hq => (hsub q hq).2⟩
  refine ⟨⟨h.side.parked_stopped, h.side.disj, fun q hq => h.side.pend_np q (hsub q hq).1,
    fun q hq => h.side.pend1_live q (hsub q hq).1, h.side.conn_nz, h.side.parked_lt, h.side.parkedEarly_lt, h.side.id0,
    h.side.inl, h.side.pendOK.sublist List.filter_sublist, h.side.parked_nz, h.side.inl0⟩, hl, ?_⟩
  have hH : ∀ k, k ≠ p.obj → Hb { s with pending := s.pending.filter (·.conn != p.conn) } k = Hb s k := by
    intro k hk
    refine Hb_congr' rfl rfl ?_ ?_ rfl
    · apply any_filter_irrelevant
      intro q hq hkeep
      have : q.conn = p.conn := by simpa using hkeep
      have := (hobj q hq).mp this
      simp [this, Ne.symm hk]
    · apply any_filter_irrelevant
      intro q hq hkeep
      have : q.conn = p.conn := by simpa using hkeep
      have := (hobj q hq).mp this
      simp [this, Ne.symm hk]
  have := hcount_update (s := s) (s' := { s with pending := s.pending.filter (·.conn != p.conn) }) rfl hl.lt hH
  rw [hl.hb] at this
  exact this

/-- the connection is lost and its handler parked before the session clean-up: it stays counted -/
theorem ConnInv.toParked {t t' : Server} {i : Nat} (h : ConnInv t) (hl : InLoop t i)
    (hopen : (getObj t i).isOpen = true) (a : Act i t t') (hc : t'.info.connected = t.info.connected)
    (hst : (getObj t' i).stopped = true) : ConnInv { t' with parked := t'.parked ++ [i] } := by
  have hs' : Side t' := h.side.of_act a hl.np (fun p hp _ => hl.npend p hp)
  have hl' := hl.act a
  refine ⟨⟨?_, ?_, ?_, hs'.pend1_live, hs'.conn_nz, ?_, hs'.parkedEarly_lt, hs'.id0, hs'.inl, hs'.pendOK, ?_, hs'.inl0⟩, ?_⟩
  · intro k hk
    rcases List.mem_append.mp hk with hk | hk
    · exact hs'.parked_stopped k hk
    · rw [List.mem_singleton.mp hk]; exact hst
  · intro k hk
    rcases List.mem_append.mp hk with hk | hk
    · exact hs'.disj k hk
    · rw [List.mem_singleton.mp hk]; exact hl'.ne
  · intro p hp
    refine ⟨fun x => ?_, (hs'.pend_np p hp).2⟩
    rcases List.mem_append.mp x with x | x
    · exact (hs'.pend_np p hp).1 x
    · exact hl'.npend p hp (List.mem_singleton.mp x)
  · intro k hk
    rcases List.mem_append.mp hk with hk | hk
    · exact hs'.parked_lt k hk
    · rw [List.mem_singleton.mp hk]; exact hl'.lt
  · intro k hk
    rcases List.mem_append.mp hk with hk | hk
    · exact hs'.parked_nz k hk
    · rw [List.mem_singleton.mp hk]; exact hl.nz
  · have hH : ∀ k, k ≠ i → Hb { t' with parked := t'.parked ++ [i] } k = Hb t k := by
      intro k hk
      refine Hb_congr' ?_ (by rw [a.parkedEarly]) (by rw [a.pending]) (by rw [a.pending]) (a.other k hk).isOpen.symm
      show (t'.parked ++ [i]).contains k = _
      rw [contains_snoc_ne _ _ _ hk, a.parked]
    have := hcount_update (s := t) (s' := { t' with parked := t'.parked ++ [i] }) a.len hl.lt hH
    have hb' : Hb { t' with parked := t'.parked ++ [i] } i = true :=
      Hb_parked hl.nz (List.mem_append_right _ (List.mem_singleton.mpr rfl))
    rw [hb', hl.hb, hopen] at this
    show t'.info.connected = _
    rw [hc, h.eq]
    omega

/-- the connection is lost and its handler parked right after the read loop: it stays counted -/
theorem ConnInv.toParkedEarly {t : Server} {i : Nat} (h : ConnInv t) (hl : InLoop t i)
    (hopen : (getObj t i).isOpen = true) :
    ConnInv (modObj { t with parkedEarly := t.parkedEarly ++ [i] } i (fun c => { c with peerGone := true })) := by
  have q : QuietC { t with parkedEarly := t.parkedEarly ++ [i] }
      (modObj { t with parkedEarly := t.parkedEarly ++ [i] } i (fun c => { c with peerGone := true })) :=
    (QuietC.refl _).mod i _ (by own_rfl)
  have hmid : ConnInv { t with parkedEarly := t.parkedEarly ++ [i] } := by
    refine ⟨⟨h.side.parked_stopped, ?_, ?_, h.side.pend1_live, h.side.conn_nz, h.side.parked_lt, ?_, h.side.id0,
      h.side.inl, h.side.pendOK, h.side.parked_nz, h.side.inl0⟩, ?_⟩
    · intro k hk x
      rcases List.mem_append.mp x with x | x
      · exact h.side.disj k hk x
      · exact hl.np ((List.mem_singleton.mp x) ▸ hk)
    · intro p hp
      refine ⟨(h.side.pend_np p hp).1, fun x => ?_⟩
      rcases List.mem_append.mp x with x | x
      · exact (h.side.pend_np p hp).2 x
      · exact hl.npend p hp (List.mem_singleton.mp x)
    · intro k hk
      rcases List.mem_append.mp hk with hk | hk
      · exact h.side.parkedEarly_lt k hk
      · rw [List.mem_singleton.mp hk]; exact hl.lt
    · have hH : ∀ k, k ≠ i → Hb { t with parkedEarly := t.parkedEarly ++ [i] } k = Hb t k := by
        intro k hk
        refine Hb_congr' rfl ?_ rfl rfl rfl
        show (t.parkedEarly ++ [i]).contains k = _
        rw [contains_snoc_ne _ _ _ hk]
      have := hcount_update (s := t) (s' := { t with parkedEarly := t.parkedEarly ++ [i] }) rfl hl.lt hH
      have hb' : Hb { t with parkedEarly := t.parkedEarly ++ [i] } i = true :=
        Hb_parkedEarly hl.nz (List.mem_append_right _ (List.mem_singleton.mpr rfl))
      rw [hb', hl.hb, hopen] at this
      show t.info.connected = _
      rw [h.eq]
      omega
  exact hmid.of_quiet q rfl

def unparkB (s : Server) (i : Nat) : Server := { s with parked := s.parked.filter (· != i) }

/-- a handler parked before the session clean-up runs on: deferred decrement -/
theorem ConnInv.fromParked {s : Server} {i : Nat} (h : ConnInv s) (hos : ∀ k, OS (getObj s k)) (hip : i ∈ s.parked)
    (hnz : i ≠ 0) : ConnInv (detachB (unparkB s i) i) := by
  have hlt := h.side.parked_lt i hip
  have hne : i ∉ s.parkedEarly := h.side.disj i hip
  have hnpend : ∀ p ∈ s.pending, p.obj ≠ i := fun p hp x => (h.side.pend_np p hp).1 (x ▸ hip)
  have hclosed : (getObj s i).isOpen = false := (hos i).closed_of (h.side.parked_stopped i hip)
  have hsub : ∀ k, k ∈ (unparkB s i).parked → k ∈ s.parked ∧ k ≠ i := by
    intro k hk
    obtain ⟨a, b⟩ := List.mem_filter.mp hk
    exact ⟨a, by simpa using b⟩
  have hside0 : Side (unparkB s i) :=
    ⟨fun k hk => h.side.parked_stopped k (hsub k hk).1, fun k hk => h.side.disj k (hsub k hk).1,
      fun p hp => ⟨fun x => (h.side.pend_np p hp).1 (hsub _ x).1, (h.side.pend_np p hp).2⟩, h.side.pend1_live,
      h.side.conn_nz, fun k hk => h.side.parked_lt k (hsub k hk).1, h.side.parkedEarly_lt, h.side.id0, h.side.inl,
      h.side.pendOK, fun k hk => h.side.parked_nz k (hsub k hk).1, h.side.inl0⟩
  have hH : ∀ k, k ≠ i → Hb (unparkB s i) k = Hb s k := by
    intro k hk
    refine Hb_congr' ?_ rfl rfl rfl rfl
    show (s.parked.filter (· != i)).contains k = _
    rw [contains_filter_ne _ _ _ hk]
  have hcnt := hcount_update (s := s) (s' := unparkB s i) rfl hlt hH
  have hb' : Hb (unparkB s i) i = false := by
    rw [Hb_plain (s := unparkB s i) hnz (fun x => (hsub i x).2 rfl) hne hnpend]
    exact hclosed
  rw [hb', Hb_parked hnz hip, b2i_true, b2i_false] at hcnt
  obtain ⟨q, c⟩ := detachB_quiet (unparkB s i) i
  refine ⟨hside0.of_quiet q, ?_⟩
  rw [c, hcount_quiet q]
  show s.info.connected - 1 = _
  rw [h.eq]
  omega

/-- a handler parked right after the read loop runs on: will, stop, clean-up, deferred decrement -/
theorem ConnInv.fromParkedEarly {s : Server} {i : Nat} (h : ConnInv s) (hie : i ∈ s.parkedEarly) (hnz : i ≠ 0)
    (hos' : ∀ k, OS (getObj (detach { s with parkedEarly := s.parkedEarly.filter (· != i) } i true).1 k)) :
    ConnInv (detach { s with parkedEarly := s.parkedEarly.filter (· != i) } i true).1 := by
  have hlt := h.side.parkedEarly_lt i hie
  have hnp : i ∉ s.parked := fun x => h.side.disj i x hie
  have hnpend : ∀ p ∈ s.pending, p.obj ≠ i := fun p hp x => (h.side.pend_np p hp).2 (x ▸ hie)
  have hsub : ∀ k, k ∈ s.parkedEarly.filter (· != i) → k ∈ s.parkedEarly ∧ k ≠ i := by
    intro k hk
    obtain ⟨a, b⟩ := List.mem_filter.mp hk
    exact ⟨a, by simpa using b⟩
  obtain ⟨a, c, st⟩ := detach_true_act { s with parkedEarly := s.parkedEarly.filter (· != i) } i hlt
  have hside0 : Side { s with parkedEarly := s.parkedEarly.filter (· != i) } :=
    ⟨h.side.parked_stopped, fun k hk x => h.side.disj k hk (hsub k x).1,
      fun p hp => ⟨(h.side.pend_np p hp).1, fun x => (h.side.pend_np p hp).2 (hsub _ x).1⟩, h.side.pend1_live,
      h.side.conn_nz, h.side.parked_lt, fun k hk => h.side.parkedEarly_lt k (hsub k hk).1, h.side.id0, h.side.inl,
      h.side.pendOK, h.side.parked_nz, h.side.inl0⟩
  refine ⟨hside0.of_act a hnp (fun p hp _ => hnpend p hp), ?_⟩
  have hH : ∀ k, k ≠ i → Hb (detach { s with parkedEarly := s.parkedEarly.filter (· != i) } i true).1 k = Hb s k := by
    intro k hk
    refine Hb_congr' (by rw [a.parked]) ?_ (by rw [a.pending]) (by rw [a.pending]) (a.other k hk).isOpen.symm
    rw [a.parkedEarly]
    show (s.parkedEarly.filter (· != i)).contains k = _
    rw [contains_filter_ne _ _ _ hk]
  have := hcount_update (s := s) (s' := (detach { s with parkedEarly := s.parkedEarly.filter (· != i) } i true).1)
    a.len hlt hH
  have hb' : Hb (detach { s with parkedEarly := s.parkedEarly.filter (· != i) } i true).1 i = false := by
    rw [Hb_plain hnz (by rw [a.parked]; exact hnp) (by rw [a.parkedEarly]; exact fun x => (hsub i x).2 rfl)
      (by rw [a.pending]; exact hnpend)]
    exact (hos' i).closed_of st
  rw [hb', Hb_parkedEarly hnz hie, b2i_true, b2i_false] at this
  rw [c]
  show s.info.connected - 1 = _
  rw [h.eq]
  omega

/-! ### the ops -/

theorem ite_fst_os {α} {P : Server → Prop} (c : Prop) [Decidable c] (a b : Server × α)
    (ha : (∀ j, OS (getObj a.1 j)) → P a.1) (hb : (∀ j, OS (getObj b.1 j)) → P b.1) :
    (∀ j, OS (getObj (if c then a else b).1 j)) → P (if c then a else b).1 := by
  split <;> assumption

theorem connect_conn (s : Server) (conn : Nat) (k : Connect) (hw : WF s) (hf : conn ∉ s.connOf.map (·.1))
    (hinf : InflInv s) (h : ConnInv s) (hid : k.id ≠ inlineID) :
    (∀ j, OS (getObj (connect s conn k).1 j)) →
      ConnInv (connect s conn k).1 ∧ InLoop (connect s conn k).1 s.objs.length := by
  unfold connect
  extract_lets +onlyGivenNames c i s1
  have w1 : WF s1 := hw.addObj c conn (parseConnect_wf s conn k) hf
  have i1 : InflInv s1 := hinf.addObj hw c conn rfl (parseConnect_os s conn k)
  have f1 : Fresh s1 i k := fresh_new s hw hinf c conn k rfl rfl
  have pa : PreAdmit s1 i := preAdmit_new s hw hinf h c conn rfl rfl
  split
  · intro hos'
    exact ⟨pa.stop hos', pa.loop.act (stopClient_act s1 i).1⟩
  · intro hos'
    obtain ⟨a, b, _⟩ := admitClient_conn s1 i conn k w1 i1 hos' pa f1.unreg hid
    exact ⟨a, b⟩

/-- the PINGREQ barrier after a connection is established -/
theorem barrier_conn {s1 : Server} {o : List Out} (conn : Nat) (b : Bool) (w1 : WF s1) (i1 : InflInv s1)
    (c1 : ConnInv s1)
    (hsch : ∀ i, assocGet s1.connOf conn = some i → (∀ p ∈ s1.pending, p.obj ≠ i) ∧ i ∉ s1.parkedEarly)
    (hos' : ∀ j, OS (getObj (if b = true then
          match recvOn s1 conn InPk.pingreq false with
          | (s, o2) => (s, o ++ o2.filter (fun x => match x with | .wrote _ .pingresp => false | _ => true))
        else (s1, o)).1 j)) :
    ConnInv (if b = true then
          match recvOn s1 conn InPk.pingreq false with
          | (s, o2) => (s, o ++ o2.filter (fun x => match x with | .wrote _ .pingresp => false | _ => true))
        else (s1, o)).1 := by
  cases b with
  | false => exact c1
  | true =>
    simp only [if_true] at hos' ⊢
    show ConnInv (recvOn s1 conn InPk.pingreq false).1
    cases hc : assocGet s1.connOf conn with
    | none =>
      unfold recvOn
      rw [hc]
      exact c1
    | some i =>
      exact recvOn_conn s1 conn .pingreq false w1 c1 i1.os hos' i hc (hsch i hc).1 (hsch i hc).2

theorem mem_keys_of_assocGet {α β} [DecidableEq α] {m : List (α × β)} {k : α} {v : β} (h : assocGet m k = some v) :
    k ∈ m.map (·.1) := List.mem_map.mpr ⟨(k, v), assocGet_mem _ _ _ h, rfl⟩

/-- a fresh connection number is not the connection of a parked handler -/
theorem fresh_not_pending {s : Server} (hinf : InflInv s) {conn : Nat} (hf : conn ∉ s.connOf.map (·.1)) :
    conn ∉ s.pending.map (·.conn) := by
  intro x
  obtain ⟨p, hp, e⟩ := List.mem_map.mp x
  exact hf (e ▸ mem_keys_of_assocGet (hinf.pconn p hp))

theorem connectHold_conn (s : Server) (conn : Nat) (k : Connect) (stage : Nat) (hw : WF s)
    (hf : conn ∉ s.connOf.map (·.1)) (hinf : InflInv s) (h : ConnInv s) (hid : k.id ≠ inlineID) :
    (∀ j, OS (getObj (connectHold s conn k stage).1 j)) → ConnInv (connectHold s conn k stage).1 := by
  unfold connectHold
  extract_lets +onlyGivenNames c i s1 dec
  have w1 : WF s1 := hw.addObj c conn (parseConnect_wf s conn k) hf
  have i1 : InflInv s1 := hinf.addObj hw c conn rfl (parseConnect_os s conn k)
  have f1 : Fresh s1 i k := fresh_new s hw hinf c conn k rfl rfl
  have pa : PreAdmit s1 i := preAdmit_new s hw hinf h c conn rfl rfl
  have hfp : conn ∉ s1.pending.map (·.conn) := fresh_not_pending hinf hf
  have hst : (getObj s1 i).stopped = false := by
    have : getObj s1 i = c := getObj_append_eq (s := s) rfl
    rw [this]; rfl
  have hpark1 : ∀ (rf : Option Nat), ConnInv { s1 with pending := s1.pending ++
      [{ conn := conn, obj := i, k := k, stage := 1, refuse := rf }] } :=
    fun rf => pa.park1 hst _ rfl rfl (pa.side.pendOK.snoc _ hid hfp)
  generalize dec = d
  cases d with
  | some code =>
    refine ite_fst_os _ _ _ (fun _ => hpark1 _) ?_
    intro hos'
    exact pa.stop hos'
  | none =>
    refine ite_fst_os _ _ _ (fun _ => hpark1 _) ?_
    -- stage 2: admitted, parked before the CONNACK
    have hcore := admit_conn s1 i k w1 i1 pa f1.unreg hid (admitA s1 i k).1 (QCC.refl _)
    generalize admitA s1 i k = adm at hcore ⊢
    obtain ⟨t1, o1, present, exLive⟩ := adm
    cases exLive with
    | none =>
      intro hos'
      obtain ⟨hc3, hl3, ho3, hp3⟩ := hcore t1 (QCC.refl _) hos'
      exact hc3.park2 hl3 ho3 _ rfl (fun x => by cases x) (hc3.side.pendOK.snoc _ hid (by rw [hp3]; exact hfp))
    | some e =>
      intro hos'
      obtain ⟨hc3, hl3, ho3, hp3⟩ := hcore (detach t1 e true).1 (QCC.refl _) hos'
      exact hc3.park2 hl3 ho3 _ rfl (fun x => by cases x) (hc3.side.pendOK.snoc _ hid (by rw [hp3]; exact hfp))

def unparkP (s : Server) (conn : Nat) : Server := { s with pending := s.pending.filter (·.conn != conn) }

theorem connectRelease_conn (s : Server) (p : Pending) (hw : WF s) (hinf : InflInv s) (h : ConnInv s)
    (hp : p ∈ s.pending) :
    (∀ j, OS (getObj (connectRelease (unparkP s p.conn) p).1 j)) →
      ConnInv (connectRelease (unparkP s p.conn) p).1 ∧ InLoop (connectRelease (unparkP s p.conn) p).1 p.obj := by
  obtain ⟨side0, hl0, hcnt0⟩ := unpark s hw hinf h p hp
  have w0 : WF (unparkP s p.conn) := hw.filterPending _
  have i0 : InflInv (unparkP s p.conn) := hinf.filterPending _
  have hidp : p.k.id ≠ inlineID := h.side.pendOK.ids p hp
  have hsame : ∀ q ∈ s.pending, q.obj = p.obj → q = p := by
    intro q hq e
    have a := hinf.pconn q hq
    rw [e] at a
    exact h.side.pendOK.eq_of_conn hp hq (hinf.cinj _ _ _ a (hinf.pconn p hp))
  have hnp := h.side.pend_np p hp
  unfold connectRelease
  by_cases hst1 : p.stage = 1
  · rw [if_pos (by simpa using hst1)]
    have hb : Hb s p.obj = false :=
      Hb_pending1 hnp.1 hnp.2 (fun q hq hqo => by rw [hsame q hq hqo]; exact hst1) p hp rfl
    have hopen : (getObj s p.obj).isOpen = true := (hinf.os _).open_of (h.side.pend1_live p hp hst1)
    have pa : PreAdmit (unparkP s p.conn) p.obj := by
      refine ⟨side0, hl0, hopen, ?_⟩
      show s.info.connected = _
      rw [hb, hopen, b2i_true, b2i_false] at hcnt0
      rw [h.eq]
      have : (hcount (unparkP s p.conn) : Int) = hcount s + 1 - 0 := hcnt0
      omega
    cases hrf : p.refuse with
    | some code =>
      simp only []
      intro hos'
      exact ⟨pa.stop hos', hl0.act (stopClient_act (unparkP s p.conn) p.obj).1⟩
    | none =>
      simp only []
      intro hos'
      obtain ⟨a, b, _⟩ := admitClient_conn (unparkP s p.conn) p.obj p.conn p.k w0 i0 hos' pa (hinf.pend p hp hst1).1 hidp
      exact ⟨a, b⟩
  · rw [if_neg (by simpa using hst1)]
    have hb : Hb s p.obj = true := Hb_pending2 (hinf.pnz p hp) p hp rfl hst1
    by_cases hstop : (getObj (unparkP s p.conn) p.obj).stopped = true
    · rw [if_pos hstop]
      intro _
      have hclosed : (getObj s p.obj).isOpen = false := (hinf.os _).closed_of hstop
      rw [hb, hclosed, b2i_true, b2i_false] at hcnt0
      have q : QuietC (unparkP s p.conn)
          { unparkP s p.conn with info := { (unparkP s p.conn).info with connected := (unparkP s p.conn).info.connected - 1 } } :=
        (QuietC.refl _).upd rfl rfl rfl rfl rfl
      refine ⟨⟨side0.of_quiet q, ?_⟩, hl0.act (q.act p.obj)⟩
      rw [hcount_quiet q]
      show s.info.connected - 1 = _
      rw [h.eq]
      have : (hcount (unparkP s p.conn) : Int) = hcount s + 0 - 1 := hcnt0
      omega
    · rw [if_neg hstop]
      intro _
      have hlive : (getObj s p.obj).stopped = false := by
        have : (getObj (unparkP s p.conn) p.obj).stopped = false := by simpa using hstop
        exact this
      have hopen : (getObj s p.obj).isOpen = true := (hinf.os _).open_of hlive
      rw [hb, hopen, b2i_true] at hcnt0
      have c0 : ConnInv (unparkP s p.conn) := by
        refine ⟨side0, ?_⟩
        show s.info.connected = _
        rw [h.eq]
        have : (hcount (unparkP s p.conn) : Int) = hcount s + 1 - 1 := hcnt0
        omega
      have q := (admitConnack_qc (unparkP s p.conn) p.obj p.conn p.present).trans
        (admitC_qc (admitConnack (unparkP s p.conn) p.obj p.conn p.present).1 p.obj p.k p.present)
      exact ⟨c0.of_quiet q.q q.c, hl0.act (q.q.act p.obj)⟩

theorem detach_act (s : Server) (i : Nat) (b : Bool) : Act i s (detach s i b).1 := by
  rw [detach_fst]
  exact (detachA_act s i b).1.trans ((detachB_quiet _ i).1.act i)

theorem recvOn_act (s : Server) (c : Nat) (pk : InPk) (b : Bool) (i : Nat) (hc : assocGet s.connOf c = some i) :
    Act i s (recvOn s c pk b).1 := by
  unfold recvOn
  split
  · exact Act.refl i s
  · rename_i i' hc'
    rw [hc] at hc'
    cases hc'
    split
    · exact Act.refl i s
    · split
      rename_i s1 o e heq
      have h1 := (receivePacket_act s i pk).1
      rw [heq] at h1
      split
      · split
        rename_i s2 o2 hd
        have := detach_act s1 i true
        rw [hd] at this
        exact h1.trans this
      · split
        · split
          rename_i s2 o2 hd
          have := detach_act s1 i false
          rw [hd] at this
          exact h1.trans this
        · split
          · split
            rename_i s2 o2 e2 heq2
            have h2 := (receivePacket_act s1 i .pingreq).1
            rw [heq2] at h2
            extract_lets +onlyGivenNames o2f
            have h12 : Act i s s2 := h1.trans h2
            split
            · split
              rename_i s3 o3 hd
              have := detach_act s2 i true
              rw [hd] at this
              exact h12.trans this
            · exact h12
          · exact h1

/-! ### `step` -/

/-- schedule sanity: a handler parked inside `attachClient` (`connectHold`) or right after its read loop
    (`dropHoldEarly`) reads nothing from — and notices no loss of — its connection until it is released; and
    no network client uses the inline client's id -/
def opIdOK : Op → Bool
  | .connect _ k => k.id != inlineID
  | .connectHold _ k _ => k.id != inlineID
  | _ => true

def OpSched (s : Server) (op : Op) : Prop :=
  (∀ i, opObj s op = some i → (∀ p ∈ s.pending, p.obj ≠ i) ∧ i ∉ s.parkedEarly) ∧ opIdOK op = true

instance (s : Server) (op : Op) : Decidable (OpSched s op) := by
  unfold OpSched
  have d1 : Decidable (∀ i, opObj s op = some i → (∀ p ∈ s.pending, p.obj ≠ i) ∧ i ∉ s.parkedEarly) :=
    match h : opObj s op with
    | none => isTrue (fun i hi => by cases hi)
    | some j =>
      if hj : (∀ p ∈ s.pending, p.obj ≠ j) ∧ j ∉ s.parkedEarly then isTrue (fun i hi => by cases hi; exact hj)
      else isFalse (fun g => hj (g j rfl))
  exact instDecidableAnd

theorem OpSched.sched1 {s : Server} {op : Op} (h : OpSched s op) : OpSched1 s op :=
  fun i hi p hp _ => (h.1 i hi).1 p hp

theorem tick_quiet (s : Server) (kind : String) (t : Int) : QuietC s (step s (.tick kind t)).1 := by
  rw [step]
  split
  · exact tickClients_quiet s t
  · split
    · exact tickRetained_quiet_cnt s t
    · split
      · exact tickInflight_quiet_cnt s t
      · split
        · exact tickWills_quiet_cnt s t
        · exact QuietC.refl s

/-- **the `connected` invariant is kept by every op** of a well-scheduled history -/
theorem ConnInv_step (s : Server) (op : Op) (hw : WF s) (hf : OpFresh s op) (hs : OpSched s op) (hinf : InflInv s)
    (h : ConnInv s) : ConnInv (step s op).1 := by
  have hinf' := InflInv_step s op hw hf hs.sched1 hinf
  cases op with
  | connect conn k =>
    revert hinf'
    rw [step]
    split
    rename_i s1 o h1
    have w1 : WF s1 := by
      have := connect_wf s conn k hw hf
      rw [h1] at this; exact this
    obtain ⟨i1, hp1, hc1⟩ : InflInv s1 ∧ s1.pending = s.pending ∧ s1.connOf = s.connOf ++ [(conn, s.objs.length)] := by
      have := connect_inv_cnt s conn k hw hinf hf
      rw [h1] at this; exact this
    obtain ⟨c1, hl1⟩ : ConnInv s1 ∧ InLoop s1 s.objs.length := by
      have := connect_conn s conn k hw hf hinf h (by simpa [opIdOK] using hs.2)
      rw [h1] at this; exact this i1.os
    have hsch : ∀ i, assocGet s1.connOf conn = some i → (∀ p ∈ s1.pending, p.obj ≠ i) ∧ i ∉ s1.parkedEarly := by
      intro i hi
      rw [hc1, assocGet_new_conn s conn hf] at hi
      cases hi
      exact ⟨hl1.npend, hl1.ne⟩
    split
    · intro hinf'
      exact barrier_conn conn _ w1 i1 c1 hsch hinf'.os
    · intro _; exact c1
  | recv conn pk =>
    rw [step] at hinf' ⊢
    cases hc : assocGet s.connOf conn with
    | none => unfold recvOn; rw [hc]; exact h
    | some i => exact recvOn_conn s conn pk true hw h hinf.os hinf'.os i hc (hs.1 i hc).1 (hs.1 i hc).2
  | drop conn =>
    revert hinf'
    rw [step]
    split
    · intro _; exact h
    · rename_i i hc
      split
      · intro _; exact h
      · rename_i hst
        have hlive : (getObj s i).stopped = false := by simpa using hst
        extract_lets +onlyGivenNames s1
        have q : QuietC s s1 := (QuietC.refl s).mod i _ (by own_rfl)
        have c1 : ConnInv s1 := h.of_quiet q rfl
        have hl : InLoop s i := InLoop.of_conn hw h hinf.os hc (hs.1 i hc).1 (hs.1 i hc).2 hlive
        have hopen1 : (getObj s1 i).isOpen = true := by
          rw [← (q.all i).isOpen]; exact (hinf.os i).open_of hlive
        intro hinf'
        exact detach_true_conn s1 i c1 (hl.act (q.act i)) hopen1 hinf'.os
  | recvCut conn pk =>
    revert hinf'
    rw [step]
    split
    · intro _; exact h
    · rename_i i hc
      have hi := conn_lt hw hc
      split
      · intro _; exact h
      · rename_i hst
        have hlive : (getObj s i).stopped = false := by
          simp only [Bool.or_eq_true, not_or, Bool.not_eq_true] at hst
          exact hst.1
        extract_lets +onlyGivenNames s1
        have q : QuietC s s1 := (QuietC.refl s).mod i _ (by own_rfl)
        have c1 : ConnInv s1 := h.of_quiet q rfl
        have g1 : Infl i 0 s s1 := ((Infl.refl i s).modOwn hw hi _ (by cl_rfl)).cast (by omega)
        have w1 : WF s1 := g1.wf hw
        have np1 : NotPend1 s i := fun p hp _ => (hs.1 i hc).1 p hp
        have i1 : InflInv s1 := hinf.of_infl g1 np1
        have hc1 : assocGet s1.connOf conn = some i := by rw [q.connOf]; exact hc
        have g2 := recvOn_infl s1 conn pk false w1 i hc1
        have i2 : InflInv (recvOn s1 conn pk false).1 := i1.of_infl g2 (np1.keep g1.good.pending)
        have c2 : ConnInv (recvOn s1 conn pk false).1 :=
          recvOn_conn s1 conn pk false w1 c1 i1.os i2.os i hc1 (by rw [q.pending]; exact (hs.1 i hc).1)
            (by rw [q.parkedEarly]; exact (hs.1 i hc).2)
        generalize hr : recvOn s1 conn pk false = r at g2 i2 c2 ⊢
        obtain ⟨s2, o⟩ := r
        simp only [] at g2 i2 c2 ⊢
        by_cases hst2 : (getObj s2 i).stopped = true
        · simp only [hst2, if_true]
          intro _; exact c2
        · simp only [hst2, if_false, Bool.false_eq_true]
          have hlive2 : (getObj s2 i).stopped = false := by simpa using hst2
          have hl2 : InLoop s2 i := by
            refine InLoop.of_conn (g2.wf w1) c2 i2.os (c := conn) ?_ ?_ ?_ hlive2
            · rw [g2.good.connOf]; exact hc1
            · rw [g2.good.pending, q.pending]; exact (hs.1 i hc).1
            · have a2 := recvOn_act s1 conn pk false i hc1
              rw [hr] at a2
              rw [a2.parkedEarly, q.parkedEarly]
              exact (hs.1 i hc).2
          intro hinf'
          exact detach_true_conn s2 i c2 hl2 ((i2.os i).open_of hlive2) hinf'.os
  | dropHold conn =>
    revert hinf'
    rw [step]
    split
    · intro _; exact h
    · rename_i i hc
      split
      · intro _; exact h
      · rename_i hst
        have hlive : (getObj s i).stopped = false := by simpa using hst
        extract_lets +onlyGivenNames s1
        have q : QuietC s s1 := (QuietC.refl s).mod i _ (by own_rfl)
        have c1 : ConnInv s1 := h.of_quiet q rfl
        have hl : InLoop s i := InLoop.of_conn hw h hinf.os hc (hs.1 i hc).1 (hs.1 i hc).2 hlive
        have hl1 := hl.act (q.act i)
        have hopen1 : (getObj s1 i).isOpen = true := by
          rw [← (q.all i).isOpen]; exact (hinf.os i).open_of hlive
        intro _
        obtain ⟨a, c⟩ := detachA_act s1 i true
        exact c1.toParked hl1 hopen1 a c (detachA_true_stopped_cnt s1 i hl1.lt)
  | dropHoldEarly conn =>
    rw [step]
    split
    · exact h
    · rename_i i hc
      split
      · exact h
      · rename_i hst
        have hlive : (getObj s i).stopped = false := by simpa using hst
        have hl : InLoop s i := InLoop.of_conn hw h hinf.os hc (hs.1 i hc).1 (hs.1 i hc).2 hlive
        exact h.toParkedEarly hl ((hinf.os i).open_of hlive)
  | release conn =>
    revert hinf'
    rw [step]
    split
    · rename_i p hp
      have hmem : p ∈ s.pending := List.mem_of_find?_eq_some hp
      have hpc : p.conn = conn := by simpa using List.find?_some hp
      subst hpc
      have hv := hw.pending_valid p hmem
      have w0 : WF (unparkP s p.conn) := hw.filterPending _
      have i0 : InflInv (unparkP s p.conn) := hinf.filterPending _
      have hnp : NotPend1 (unparkP s p.conn) p.obj := fun q hq _ => (unpark s hw hinf h p hmem).2.1.npend q hq
      split
      rename_i s1 o h1
      obtain ⟨w1, k1⟩ : WF s1 ∧ Keep (unparkP s p.conn) s1 := by
        have := connectRelease_wf _ p w0 hv.1 hv.2
        unfold unparkP at this
        rw [h1] at this; exact this
      have i1 : InflInv s1 := by
        have := connectRelease_inv_cnt _ p w0 i0 hv.1 hv.2 hnp (hinf.pend p hmem)
        unfold unparkP at this
        rw [h1] at this; exact this
      obtain ⟨c1, hl1⟩ : ConnInv s1 ∧ InLoop s1 p.obj := by
        have := connectRelease_conn s p hw hinf h hmem
        unfold unparkP at this
        rw [h1] at this; exact this i1.os
      intro hinf'
      refine barrier_conn p.conn _ w1 i1 c1 ?_ hinf'.os
      intro i hi
      rw [k1.connOf] at hi
      have : assocGet s.connOf p.conn = some i := hi
      rw [hinf.pconn p hmem] at this
      cases this
      exact ⟨hl1.npend, hl1.ne⟩
    · split
      · intro _; exact h
      · rename_i i hc
        split
        · rename_i hip
          intro _
          exact h.fromParked hinf.os (by simpa using hip) (h.side.conn_nz conn i hc)
        · split
          · rename_i hie
            intro hinf'
            exact h.fromParkedEarly (by simpa using hie) (h.side.conn_nz conn i hc) hinf'.os
          · intro _; exact h
  | connectHold conn k stage =>
    rw [step] at hinf' ⊢
    exact connectHold_conn s conn k stage hw hf hinf h (by simpa [opIdOK] using hs.2) hinf'.os
  | tick kind t => exact h.of_quiet (tick_quiet s kind t) (tick_connected s kind t)
  | inlinePublish topic payload retain qos =>
    rw [step]
    obtain ⟨a, c⟩ := receivePacket_act s 0 (.publish qos false retain qos topic payload 0 none)
    refine ⟨h.side.of_act a (fun x => h.side.parked_nz 0 x rfl) (fun p hp _ => hinf.pnz p hp), ?_⟩
    have := hcount_act a hinf.nz
    rw [Hb_zero, Hb_zero, b2i_false] at this
    show (receivePacket s 0 (.publish qos false retain qos topic payload 0 none)).1.info.connected =
      ((hcount (receivePacket s 0 (.publish qos false retain qos topic payload 0 none)).1 : Nat) : Int)
    rw [c, h.eq]
    omega
  | inlineSubscribe id filter =>
    rw [step]
    split
    · exact h
    · exact h.of_quiet ((QuietC.refl s).upd rfl rfl rfl rfl rfl) rfl
  | inlineUnsubscribe id filter =>
    rw [step]
    split
    · exact h
    · exact h.of_quiet ((QuietC.refl s).upd rfl rfl rfl rfl rfl) rfl

end Mochi.Broker
