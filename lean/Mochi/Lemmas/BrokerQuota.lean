import Mochi.Lemmas.BrokerRetained
import Mochi.Lemmas.BrokerSurviveDeliv
import Mochi.Lemmas.BrokerWill
/-!
# C11 — flow-control quotas as accounting invariants over histories

`RecvAcc c`: `recvQuota + (in-flight records of the inbound direction) = maxRecv`;
`SendAcc c`: `maxSend > 0 → sendQuota + (outbound records that are not deferred) = maxSend`.

The walk is generic in a client predicate `P` obeying `Fc11Laws` (it only depends on the in-flight records
and the four quota fields, and a delivery keeps it): every handler that does not acknowledge anything is
handled once (`X_fc : Fc11G P s (X s).1`); the acknowledging handlers, `nextImmediate`, the session
take-over and the in-flight housekeeping are handled per side under explicit guards.

All names of this file carry the tag `fc11`.
-/
namespace Mochi.Broker
open Mochi.Topics

/-! ### definitions -/

/-- a record of the inbound direction: an unwritten PUBACK (4) or a PUBREC awaiting PUBREL (5) -/
def fc11Inb (m : Msg) : Bool := m.type == 4 || m.type == 5
/-- an outbound record that consumed send quota: PUBLISH (3) or PUBREL (6), not deferred (`0 ≤ expiry`) -/
def fc11Out (m : Msg) : Bool := (m.type == 3 || m.type == 6) && decide (0 ≤ m.expiry)

def inboundOpen (c : Client) : Nat := c.inflight.countP fc11Inb
def outboundOpen (c : Client) : Nat := c.inflight.countP fc11Out
/-- open inbound QoS 2 exchanges only (the literal candidate of the brief) -/
def inboundOpen5 (c : Client) : Nat := c.inflight.countP (fun m => m.type == 5)

def RecvAcc (c : Client) : Prop := c.recvQuota + inboundOpen c = c.maxRecv
def SendAcc (c : Client) : Prop := 0 < c.maxSend → c.sendQuota + outboundOpen c = c.maxSend

instance (c : Client) : Decidable (RecvAcc c) := by unfold RecvAcc; infer_instance
instance (c : Client) : Decidable (SendAcc c) := by unfold SendAcc; infer_instance

/-- a message the broker routes: a PUBLISH with non-negative time stamps -/
def fc11MsgOK (m : Msg) : Prop := m.type = 3 ∧ 0 ≤ m.expiry ∧ 0 ≤ m.created
instance (m : Msg) : Decidable (fc11MsgOK m) := by unfold fc11MsgOK; infer_instance

/-- every stored message (retained, delayed will) is a PUBLISH with non-negative time stamps (decidable; true in
    every state the model reaches from `init` — used as a side condition like `StoredPub`) -/
def Fc11Store (s : Server) : Prop := (∀ e ∈ s.rmsgs, fc11MsgOK e.2) ∧ (∀ e ∈ s.willDelayed, fc11MsgOK e.2)
instance (s : Server) : Decidable (Fc11Store s) := by unfold Fc11Store; infer_instance

/-- object `k` is in the Clients map -/
def Fc11Reg (s : Server) (k : Nat) : Prop := ∃ id, (id, k) ∈ s.clients

/-- what the generic walk needs of the client predicate -/
structure Fc11Laws (P : Client → Prop) : Prop where
  ext : ∀ a b : Client, b.inflight = a.inflight → b.recvQuota = a.recvQuota → b.sendQuota = a.sendQuota →
        b.maxRecv = a.maxRecv → b.maxSend = a.maxSend → P a → P b
  deliver : ∀ (c : Client) (out : Msg), out.type = 3 → 0 ≤ out.expiry → flGet c out.id = none → P c →
        (¬ (c.sendQuota = 0 ∧ 0 < c.maxSend) → P (decSend { c with inflight := c.inflight ++ [out] })) ∧
        (c.sendQuota = 0 → 0 < c.maxSend →
          P (flSet (decSend { c with inflight := c.inflight ++ [out] }) { out with expiry := -1 }).1)

/-! ### the server-level relation -/

/-- the Clients map only loses entries and every object still registered keeps `P` -/
structure Fc11G (P : Client → Prop) (s s' : Server) : Prop where
  clients : s'.clients.Sublist s.clients
  keep : ∀ k, Fc11Reg s' k → P (getObj s k) → P (getObj s' k)

variable {P : Client → Prop}

theorem Fc11Reg.of_sublist {s s' : Server} (h : s'.clients.Sublist s.clients) {k : Nat} (r : Fc11Reg s' k) :
    Fc11Reg s k := r.imp fun _ hm => h.subset hm

theorem Fc11G.refl (s : Server) : Fc11G P s s := ⟨List.Sublist.refl _, fun _ _ h => h⟩

theorem Fc11G.trans {s s1 s2 : Server} (h : Fc11G P s s1) (g : Fc11G P s1 s2) : Fc11G P s s2 :=
  ⟨g.clients.trans h.clients, fun k r x => g.keep k r (h.keep k (r.of_sublist g.clients) x)⟩

theorem Fc11G.upd {s0 s s' : Server} (h : Fc11G P s0 s) (ho : s'.objs = s.objs) (hc : s'.clients = s.clients) :
    Fc11G P s0 s' :=
  ⟨by rw [hc]; exact h.clients, fun k r x => by
    rw [getObj_of_objs_eq ho k]
    exact h.keep k (by obtain ⟨id, hm⟩ := r; exact ⟨id, by rw [← hc]; exact hm⟩) x⟩

/-- reading back at `i` after writing `c` -/
theorem fc11_get_set {s : Server} {i : Nat} {c : Client} {Q : Client → Prop}
    (h2 : i < s.objs.length → Q c) (h1 : ¬ i < s.objs.length → Q (getObj s i)) :
    Q (getObj (setObj s i c) i) := by
  by_cases h : i < s.objs.length
  · rw [getObj_setObj_eq s i c h]; exact h2 h
  · rw [getObj_setObj_ge s i c h]; exact h1 h

/-- writing an object that keeps `P` -/
theorem Fc11G.set {s0 s : Server} (h : Fc11G P s0 s) (i : Nat) (c : Client)
    (hp : P (getObj s i) → P c) : Fc11G P s0 (setObj s i c) := by
  refine h.trans ⟨List.Sublist.refl _, fun k _ x => ?_⟩
  by_cases hk : k = i
  · subst hk
    exact fc11_get_set (fun _ => hp x) (fun _ => x)
  · rw [getObj_setObj_ne s i k c hk]; exact x

theorem Fc11G.mod {s0 s : Server} (h : Fc11G P s0 s) (i : Nat) (f : Client → Client)
    (hp : P (getObj s i) → P (f (getObj s i))) : Fc11G P s0 (modObj s i f) := h.set i _ hp

theorem Fc11G.delClient {s0 s : Server} (h : Fc11G P s0 s) (cid : Str) :
    Fc11G P s0 { s with clients := assocDel s.clients cid } :=
  h.trans ⟨List.filter_sublist, fun _ _ x => x⟩

theorem Fc11G.fst_mk {α} {s0 x : Server} {y : α} (h : Fc11G P s0 x) : Fc11G P s0 (x, y).1 := h

theorem Fc11G.ite_res {s : Server} {p : Prop} [Decidable p] {a b : HRes}
    (ha : p → Fc11G P s a.1) (hb : ¬ p → Fc11G P s b.1) : Fc11G P s (if p then a else b).1 := by
  by_cases h : p
  · rw [if_pos h]; exact ha h
  · rw [if_neg h]; exact hb h

/-! ### `flSet` with a fresh identifier -/

theorem fc11_decSend_maxSend (c : Client) : (decSend c).maxSend = c.maxSend := by
  unfold decSend; split <;> rfl

theorem fc11_flSet_fresh (c : Client) (m : Msg) (h : flGet c m.id = none) :
    flSet c m = ({ c with inflight := c.inflight ++ [m] }, true) := by
  unfold flSet
  rw [h]
  rfl

/-! ### the delivery family -/

theorem publishToClientCore_fc (L : Fc11Laws P) (s : Server) (i : Nat) (sub : Sub) (f : Bool) (pk : Msg)
    (hpk : fc11MsgOK pk) : Fc11G P s (publishToClientCore s i sub f pk).1 := by
  unfold publishToClientCore
  extract_lets c out
  have hout : out.type = 3 ∧ 0 ≤ out.expiry := ⟨hpk.1, hpk.2.1⟩
  split
  rename_i c1 out1 heq
  have hc1 : (P c → P c1) ∧ out1.type = 3 ∧ 0 ≤ out1.expiry := by
    split at heq
    · split at heq
      rename_i c' a ex h2
      have h4 : P c → P c' := by
        have : (aliasOutSet c pk.topic).1 = c' := by rw [h2]
        rw [← this]
        unfold aliasOutSet
        split
        · exact fun x => x
        · split
          · exact fun x => x
          · split
            · exact fun x => x
            · exact L.ext _ _ rfl rfl rfl rfl rfl
      split at heq <;> (cases heq; exact ⟨h4, hout.1, hout.2⟩)
    · cases heq; exact ⟨fun x => x, hout.1, hout.2⟩
  clear heq
  obtain ⟨hp1, ht1, he1⟩ := hc1
  extract_lets s1
  have hs1 : Fc11G P s s1 := (Fc11G.refl s).set i c1 hp1
  split
  · split
    · exact hs1.upd rfl rfl
    · split
      · exact hs1.upd rfl rfl
      · rename_i pid hpid
        have hfresh : flGet c1 pid = none := nextPacketID_fresh c1 _ pid hpid
        extract_lets c2 out2 sentQuota
        have hp2 : P c1 → P c2 := L.ext _ _ rfl rfl rfl rfl rfl
        have hfresh2 : flGet c2 out2.id = none := hfresh
        have hfl := fc11_flSet_fresh c2 out2 hfresh2
        have hD := L.deliver c2 out2 ht1 he1 hfresh2
        split
        rename_i c3 isNew hfl'
        rw [hfl] at hfl'
        obtain ⟨rfl, rfl⟩ := Prod.mk.inj hfl'
        extract_lets c4 s2 src s3
        have hc4 : c4 = decSend { c2 with inflight := c2.inflight ++ [out2] } := if_pos rfl
        have hs3o : s3.objs = (setObj s1 i c4).objs := by
          show (if true = true then _ else s2).objs = _
          rw [if_pos rfl]
        have hs3c : s3.clients = s1.clients := by
          show (if true = true then _ else s2).clients = _
          rw [if_pos rfl]; rfl
        have hms : c4.maxSend = c1.maxSend := by rw [hc4]; exact fc11_decSend_maxSend _
        by_cases hdef : (sentQuota == 0 && decide (c4.maxSend > 0)) = true
        · rw [if_pos hdef]
          rw [hms] at hdef
          have hsq : c1.sendQuota = 0 ∧ 0 < c1.maxSend := by
            simp only [Bool.and_eq_true, beq_iff_eq, decide_eq_true_eq] at hdef
            exact hdef
          refine Fc11G.fst_mk ⟨by show s3.clients.Sublist _; rw [hs3c]; exact hs1.clients, ?_⟩
          intro k hr x
          have hr1 : Fc11Reg s1 k := by
            obtain ⟨id, hm⟩ := hr
            exact ⟨id, by rw [← hs3c]; exact hm⟩
          by_cases hk : k = i
          · subst hk
            refine fc11_get_set (Q := P) (fun _ => ?_) (fun hlt => ?_)
            · rw [hc4]
              exact (hD (hp2 (hp1 x))).2 hsq.1 hsq.2
            · have hlt1 : ¬ k < s1.objs.length := by
                have : s3.objs.length = s1.objs.length := by rw [hs3o]; exact setObj_length s1 k c4
                rw [← this]; exact hlt
              rw [getObj_of_objs_eq hs3o k, getObj_setObj_ge s1 k c4 hlt1]
              exact hs1.keep k hr1 x
          · rw [getObj_setObj_ne _ i k _ hk, getObj_of_objs_eq hs3o k, getObj_setObj_ne _ i k _ hk]
            exact hs1.keep k hr1 x
        · rw [if_neg hdef]
          rw [hms] at hdef
          have hnd : ¬ (c2.sendQuota = 0 ∧ 0 < c2.maxSend) := by
            intro h
            apply hdef
            simp only [Bool.and_eq_true, beq_iff_eq, decide_eq_true_eq]
            exact h
          have hq1 : P c1 → P c4 := by
            intro y
            rw [hc4]
            exact (hD (hp2 y)).1 hnd
          have hs3 : Fc11G P s s3 := by
            refine ⟨by rw [hs3c]; exact hs1.clients, fun k hr x => ?_⟩
            rw [getObj_of_objs_eq hs3o k]
            by_cases hk : k = i
            · subst hk
              refine fc11_get_set (Q := P) (fun _ => hq1 (hp1 x)) (fun hlt => ?_)
              exact hs1.keep k (by obtain ⟨id, hm⟩ := hr; exact ⟨id, by rw [← hs3c]; exact hm⟩) x
            · rw [getObj_setObj_ne _ i k _ hk]
              exact hs1.keep k (by obtain ⟨id, hm⟩ := hr; exact ⟨id, by rw [← hs3c]; exact hm⟩) x
          split <;> exact hs3
  · split <;> exact hs1

theorem publishToClient_fc (L : Fc11Laws P) (s : Server) (i : Nat) (sub : Sub) (f : Bool) (pk : Msg)
    (hpk : fc11MsgOK pk) : Fc11G P s (publishToClient s i sub f pk).1 := by
  unfold publishToClient
  split
  · exact Fc11G.refl s
  · split
    · exact Fc11G.refl s
    · exact publishToClientCore_fc L s i sub f pk hpk

theorem publishToSubscribers_fc (L : Fc11Laws P) (s : Server) (pk : Msg) (hpk : fc11MsgOK pk) :
    Fc11G P s (publishToSubscribers s pk).1 := by
  unfold publishToSubscribers
  split
  · exact Fc11G.refl s
  · extract_lets e pk' r subsMap inl
    have hpk' : fc11MsgOK pk' := by
      show fc11MsgOK (if (pk.expiry == 0) = true then _ else pk)
      split
      · show fc11MsgOK (if _ then _ else pk)
        split
        · refine ⟨hpk.1, ?_, hpk.2.2⟩
          show 0 ≤ pk.created + _
          have := hpk.2.2
          omega
        · exact hpk
      · exact hpk
    refine foldl_inv (fun (acc : Server × List Out) => Fc11G P s acc.1) _ _ _ (Fc11G.refl s) ?_
    intro acc cs h
    split
    · exact h
    · rename_i k _
      split
      rename_i s' o heq
      have := publishToClient_fc L acc.1 k cs.2 false pk' hpk'
      rw [heq] at this
      exact h.trans this

theorem publishRetainedToClient_fc (L : Fc11Laws P) (s : Server) (i : Nat) (sub : Sub) (ex : Bool) (k : Nat)
    (hst : ∀ e ∈ s.rmsgs, fc11MsgOK e.2) : Fc11G P s (publishRetainedToClient s i sub ex k).1 := by
  unfold publishRetainedToClient
  split
  · exact Fc11G.refl s
  · split
    · exact Fc11G.refl s
    · extract_lets sub'
      refine (foldl_inv (fun (acc : Server × List Out) => Fc11G P s acc.1 ∧ acc.1.rmsgs = s.rmsgs) _ _ _
        ⟨Fc11G.refl s, rfl⟩ ?_).1
      intro acc r h
      split
      · exact h
      · rename_i m hm
        split
        rename_i s' o heq
        have hmem := assocGet_some_mem _ _ _ hm
        rw [h.2] at hmem
        have := publishToClient_fc L acc.1 i sub' true m (hst _ hmem)
        rw [heq] at this
        have hk := (publishToClient_kw acc.1 i sub' true m).2
        rw [heq] at hk
        exact ⟨h.1.trans this, hk.trans h.2⟩

theorem retainMsg_fc (s : Server) (pk : Msg) : Fc11G P s (retainMsg s pk) := by
  unfold retainMsg
  split
  · exact Fc11G.refl s
  · exact (Fc11G.refl s).upd rfl rfl

/-! ### work on the acting object that touches neither the records nor the quotas -/

theorem stopClient_fc (L : Fc11Laws P) (s : Server) (i : Nat) : Fc11G P s (stopClient s i).1 := by
  unfold stopClient
  extract_lets +onlyGivenNames c
  split
  · exact Fc11G.refl s
  · exact (Fc11G.refl s).set i _ (L.ext _ _ rfl rfl rfl rfl rfl)

theorem disconnectClient_fc (L : Fc11Laws P) (s : Server) (i : Nat) (code : Nat) :
    Fc11G P s (disconnectClient s i code).1 := by
  unfold disconnectClient
  extract_lets +onlyGivenNames c w
  split
  rename_i s' o heq
  have := stopClient_fc L s i
  rw [heq] at this
  exact this

theorem unsubscribeClient_fc (L : Fc11Laws P) (s : Server) (i : Nat) : Fc11G P s (unsubscribeClient s i) := by
  unfold unsubscribeClient
  extract_lets +onlyGivenNames c s1
  have h1 : Fc11G P s s1 := (Fc11G.refl s).set i _ (L.ext _ _ rfl rfl rfl rfl rfl)
  split
  · exact h1
  · refine foldl_inv (fun (x : Server) => Fc11G P s x) _ _ _ h1 ?_
    intro b a h
    exact h.upd rfl rfl

theorem processDisconnect_fc (L : Fc11Laws P) (s : Server) (i rc : Nat) (sei : Option Nat) :
    Fc11G P s (processDisconnect s i rc sei).1 := by
  unfold processDisconnect
  extract_lets +onlyGivenNames c r
  have hr : ∀ s' c', r = some (s', c') → s' = s ∧ (P c → P c') := by
    intro s' c' h
    simp only [r] at h
    split at h
    · split at h
      · cases h
      · cases h; exact ⟨rfl, L.ext _ _ rfl rfl rfl rfl rfl⟩
    · cases h; exact ⟨rfl, fun x => x⟩
  generalize r = r' at hr
  split
  · exact Fc11G.refl s
  · rename_i s' c'
    obtain ⟨rfl, hc'⟩ := hr s' c' rfl
    extract_lets +onlyGivenNames s1
    have hs1 : Fc11G P s' s1 := (Fc11G.refl s').set i c' hc'
    split
    · exact hs1
    · extract_lets +onlyGivenNames s2
      have hs2 : Fc11G P s' s2 := hs1.upd rfl rfl
      split
      rename_i s3 o hst
      have := stopClient_fc L s2 i
      rw [hst] at this
      exact hs2.trans this

theorem processUnsubscribe_fc (L : Fc11Laws P) (s : Server) (i id : Nat) (filters : List Str) :
    Fc11G P s (processUnsubscribe s i id filters).1 := by
  unfold processUnsubscribe
  extract_lets +onlyGivenNames c inUse r
  have hr : Fc11G P s r.1 := by
    refine foldl_inv (fun (acc : Server × List Nat) => Fc11G P s acc.1) _ _ _ (Fc11G.refl s) ?_
    intro acc f h
    split
    rename_i s' rcs
    split
    · exact h
    · extract_lets rr src s1 s2
      show Fc11G P s s2
      exact (h.upd (s' := s1) rfl rfl).mod _ _ (L.ext _ _ rfl rfl rfl rfl rfl)
  generalize r = r' at hr
  split
  rename_i s' rcs
  extract_lets c'
  split <;> exact hr

theorem processSubscribe_fc (L : Fc11Laws P) (s : Server) (i id subId : Nat) (filters : List Sub)
    (hst : ∀ e ∈ s.rmsgs, fc11MsgOK e.2) : Fc11G P s (processSubscribe s i id subId filters).1 := by
  unfold processSubscribe
  extract_lets +onlyGivenNames c inUse fin r
  have hr : Fc11G P s r.1 ∧ r.1.rmsgs = s.rmsgs := by
    refine foldl_inv (fun (acc : Server × List Nat × List Bool) => Fc11G P s acc.1 ∧ acc.1.rmsgs = s.rmsgs) _ _ _
      ⟨Fc11G.refl s, rfl⟩ ?_
    intro acc sub h
    split
    rename_i s' rcs exs
    extract_lets +onlyGivenNames sub'
    split
    · exact h
    · split
      · exact h
      · split
        · exact h
        · split
          · exact h
          · extract_lets +onlyGivenNames rr src s1 s2
            show Fc11G P s s2 ∧ s2.rmsgs = s.rmsgs
            exact ⟨(h.1.upd (s' := s1) rfl rfl).mod _ _ (L.ext _ _ rfl rfl rfl rfl rfl), h.2⟩
  generalize r = r' at hr
  split
  rename_i s' rcs exs
  extract_lets +onlyGivenNames c'
  split
  · exact hr.1
  · extract_lets +onlyGivenNames o1 z
    show Fc11G P s z.1
    refine (foldl_inv (fun (acc : Server × List Out) => Fc11G P s acc.1 ∧ acc.1.rmsgs = s.rmsgs) _ _ _ hr ?_).1
    intro acc xk h
    extract_lets +onlyGivenNames x
    split
    · exact h
    · extract_lets +onlyGivenNames src sub'
      split
      rename_i s2 o heq
      have := publishRetainedToClient_fc L acc.1 i sub' x.2.2 xk.2 (by rw [h.2]; exact hst)
      rw [heq] at this
      have hk := (publishRetainedToClient_kw acc.1 i sub' x.2.2 xk.2).2
      rw [heq] at hk
      exact ⟨h.1.trans this, hk.trans h.2⟩

theorem sendLWT_fc (L : Fc11Laws P) (s : Server) (i : Nat) : Fc11G P s (sendLWT s i).1 := by
  unfold sendLWT
  extract_lets +onlyGivenNames c
  split
  · exact Fc11G.refl s
  · extract_lets +onlyGivenNames pk
    have hpk : fc11MsgOK pk := ⟨rfl, Int.le_refl 0, (by decide : (0 : Int) ≤ NOW)⟩
    split
    · exact (Fc11G.refl s).upd rfl rfl
    · extract_lets +onlyGivenNames s1
      have hs1 : Fc11G P s s1 := by
        show Fc11G P s (if pk.retain = true then retainMsg s pk else s)
        split
        · exact retainMsg_fc s pk
        · exact Fc11G.refl s
      split
      rename_i s2 o heq
      have := publishToSubscribers_fc L s1 pk hpk
      rw [heq] at this
      have h2 : Fc11G P s s2 := hs1.trans this
      refine Fc11G.fst_mk ?_
      exact h2.mod _ _ (L.ext _ _ rfl rfl rfl rfl rfl)

theorem detachA_fc (L : Fc11Laws P) (s : Server) (i : Nat) (withErr : Bool) : Fc11G P s (detachA s i withErr).1 := by
  unfold detachA
  split
  · split
    rename_i s2 o2 h2
    split
    rename_i s3 o3 h3
    have a := sendLWT_fc L s i
    rw [h2] at a
    have b := stopClient_fc L s2 i
    rw [h3] at b
    exact a.trans b
  · exact (Fc11G.refl s).mod i (fun c => { c with will := {} }) (L.ext _ _ rfl rfl rfl rfl rfl)

end Mochi.Broker
