import Mochi.Lemmas.BrokerRetained
import Mochi.Lemmas.BrokerSurviveDeliv
import Mochi.Lemmas.BrokerWill
/-!
# C11 — flow-control quotas as accounting invariants over histories

`RecvAcc c`: `recvQuota + (in-flight records of the inbound direction) = maxRecv`;
`SendAcc c`: `maxSend > 0 → sendQuota + (outbound records that are not deferred) = maxSend`.

The walk is generic in a client predicate `P` obeying `Fc11Laws` (it only depends on the in-flight records
and the four quota fields, and a delivery keeps it): every handler that does not acknowledge anything is
handled once (`X_fc : Fc11G P s (X s).1`); the acknowledging handlers, `nextImmediate`, the session
take-over and the in-flight housekeeping are handled per side under explicit guards.

All names of this file carry the tag `fc11`.
-/
namespace Mochi.Broker
open Mochi.Topics

/-! ### definitions -/

/-- a record of the inbound direction: an unwritten PUBACK (4) or a PUBREC awaiting PUBREL (5) -/
def fc11Inb (m : Msg) : Bool := m.type == 4 || m.type == 5
/-- an outbound record that consumed send quota: PUBLISH (3) or PUBREL (6), not deferred (`0 ≤ expiry`) -/
def fc11Out (m : Msg) : Bool := (m.type == 3 || m.type == 6) && decide (0 ≤ m.expiry)

def inboundOpen (c : Client) : Nat := c.inflight.countP fc11Inb
def outboundOpen (c : Client) : Nat := c.inflight.countP fc11Out
/-- open inbound QoS 2 exchanges only (the literal candidate of the brief) -/
def inboundOpen5 (c : Client) : Nat := c.inflight.countP (fun m => m.type == 5)

def RecvAcc (c : Client) : Prop := c.recvQuota + inboundOpen c = c.maxRecv
def SendAcc (c : Client) : Prop := 0 < c.maxSend → c.sendQuota + outboundOpen c = c.maxSend

instance (c : Client) : Decidable (RecvAcc c) := by unfold RecvAcc; infer_instance
instance (c : Client) : Decidable (SendAcc c) := by unfold SendAcc; infer_instance

/-- a message the broker routes: a PUBLISH with non-negative time stamps -/
def fc11MsgOK (m : Msg) : Prop := m.type = 3 ∧ 0 ≤ m.expiry ∧ 0 ≤ m.created
instance (m : Msg) : Decidable (fc11MsgOK m) := by unfold fc11MsgOK; infer_instance

/-- every stored message (retained, delayed will) is a PUBLISH with non-negative time stamps (decidable; true in
    every state the model reaches from `init` — used as a side condition like `StoredPub`) -/
def Fc11Store (s : Server) : Prop := (∀ e ∈ s.rmsgs, fc11MsgOK e.2) ∧ (∀ e ∈ s.willDelayed, fc11MsgOK e.2)
instance (s : Server) : Decidable (Fc11Store s) := by unfold Fc11Store; infer_instance

/-- object `k` is in the Clients map -/
def Fc11Reg (s : Server) (k : Nat) : Prop := ∃ id, (id, k) ∈ s.clients

/-- what the generic walk needs of the client predicate -/
structure Fc11Laws (P : Client → Prop) : Prop where
  ext : ∀ a b : Client, b.inflight = a.inflight → b.recvQuota = a.recvQuota → b.sendQuota = a.sendQuota →
        b.maxRecv = a.maxRecv → b.maxSend = a.maxSend → P a → P b
  deliver : ∀ (c : Client) (out : Msg), out.type = 3 → 0 ≤ out.expiry → flGet c out.id = none → P c →
        (¬ (c.sendQuota = 0 ∧ 0 < c.maxSend) → P (decSend { c with inflight := c.inflight ++ [out] })) ∧
        (c.sendQuota = 0 → 0 < c.maxSend →
          P (flSet (decSend { c with inflight := c.inflight ++ [out] }) { out with expiry := -1 }).1)
  /-- a new object with empty records and full quotas -/
  fresh : ∀ c : Client, c.inflight = [] → c.recvQuota = c.maxRecv → c.sendQuota = c.maxSend → P c
  /-- the release of a deferred message by `nextImmediate` -/
  next : ∀ c : Client, ObjWF c → P c → ∀ m ∈ c.inflight, m.expiry < 0 → c.sendQuota > 0 →
        P (decSend (flDelete c m.id).1)
  /-- `processPublish`: the acknowledgement record of an accepted QoS 1/2 publish (under a free packet id, receive
      quota available), and its removal once the PUBACK is written -/
  ack : ∀ (c : Client) (a : Msg), (a.type = 4 ∨ a.type = 5) → 0 ≤ a.expiry → flGet c a.id = none →
        c.recvQuota > 0 → P c →
        P (flSet (decRecv c) a).1 ∧ (a.type = 4 → P (incRecv (flDelete (flSet (decRecv c) a).1 a.id).1))

/-! ### the server-level relation -/

/-- the Clients map only loses entries and every object still registered keeps `P` -/
structure Fc11G (P : Client → Prop) (s s' : Server) : Prop where
  clients : s'.clients.Sublist s.clients
  keep : ∀ k, Fc11Reg s' k → P (getObj s k) → P (getObj s' k)

variable {P : Client → Prop}

theorem Fc11Reg.of_sublist {s s' : Server} (h : s'.clients.Sublist s.clients) {k : Nat} (r : Fc11Reg s' k) :
    Fc11Reg s k := r.imp fun _ hm => h.subset hm

theorem Fc11G.refl (s : Server) : Fc11G P s s := ⟨List.Sublist.refl _, fun _ _ h => h⟩

theorem Fc11G.trans {s s1 s2 : Server} (h : Fc11G P s s1) (g : Fc11G P s1 s2) : Fc11G P s s2 :=
  ⟨g.clients.trans h.clients, fun k r x => g.keep k r (h.keep k (r.of_sublist g.clients) x)⟩

theorem Fc11G.upd {s0 s s' : Server} (h : Fc11G P s0 s) (ho : s'.objs = s.objs) (hc : s'.clients = s.clients) :
    Fc11G P s0 s' :=
  ⟨by rw [hc]; exact h.clients, fun k r x => by
    rw [getObj_of_objs_eq ho k]
    exact h.keep k (by obtain ⟨id, hm⟩ := r; exact ⟨id, by rw [← hc]; exact hm⟩) x⟩

/-- reading back at `i` after writing `c` -/
theorem fc11_get_set {s : Server} {i : Nat} {c : Client} {Q : Client → Prop}
    (h2 : i < s.objs.length → Q c) (h1 : ¬ i < s.objs.length → Q (getObj s i)) :
    Q (getObj (setObj s i c) i) := by
  by_cases h : i < s.objs.length
  · rw [getObj_setObj_eq s i c h]; exact h2 h
  · rw [getObj_setObj_ge s i c h]; exact h1 h

/-- writing an object that keeps `P` -/
theorem Fc11G.set {s0 s : Server} (h : Fc11G P s0 s) (i : Nat) (c : Client)
    (hp : P (getObj s i) → P c) : Fc11G P s0 (setObj s i c) := by
  refine h.trans ⟨List.Sublist.refl _, fun k _ x => ?_⟩
  by_cases hk : k = i
  · subst hk
    exact fc11_get_set (fun _ => hp x) (fun _ => x)
  · rw [getObj_setObj_ne s i k c hk]; exact x

theorem Fc11G.mod {s0 s : Server} (h : Fc11G P s0 s) (i : Nat) (f : Client → Client)
    (hp : P (getObj s i) → P (f (getObj s i))) : Fc11G P s0 (modObj s i f) := h.set i _ hp

theorem Fc11G.delClient {s0 s : Server} (h : Fc11G P s0 s) (cid : Str) :
    Fc11G P s0 { s with clients := assocDel s.clients cid } :=
  h.trans ⟨List.filter_sublist, fun _ _ x => x⟩

theorem Fc11G.fst_mk {α} {s0 x : Server} {y : α} (h : Fc11G P s0 x) : Fc11G P s0 (x, y).1 := h

theorem Fc11G.ite_res {s : Server} {p : Prop} [Decidable p] {a b : HRes}
    (ha : p → Fc11G P s a.1) (hb : ¬ p → Fc11G P s b.1) : Fc11G P s (if p then a else b).1 := by
  by_cases h : p
  · rw [if_pos h]; exact ha h
  · rw [if_neg h]; exact hb h

/-! ### `flSet` with a fresh identifier -/

theorem fc11_decSend_maxSend (c : Client) : (decSend c).maxSend = c.maxSend := by
  unfold decSend; split <;> rfl

theorem fc11_flSet_fresh (c : Client) (m : Msg) (h : flGet c m.id = none) :
    flSet c m = ({ c with inflight := c.inflight ++ [m] }, true) := by
  unfold flSet
  rw [h]
  rfl

/-! ### the delivery family -/

theorem publishToClientCore_fc (L : Fc11Laws P) (s : Server) (i : Nat) (sub : Sub) (f : Bool) (pk : Msg)
    (hpk : fc11MsgOK pk) : Fc11G P s (publishToClientCore s i sub f pk).1 := by
  unfold publishToClientCore
  extract_lets c out
  have hout : out.type = 3 ∧ 0 ≤ out.expiry := ⟨hpk.1, hpk.2.1⟩
  split
  rename_i c1 out1 heq
  have hc1 : (P c → P c1) ∧ out1.type = 3 ∧ 0 ≤ out1.expiry := by
    split at heq
    · split at heq
      rename_i c' a ex h2
      have h4 : P c → P c' := by
        have : (aliasOutSet c pk.topic).1 = c' := by rw [h2]
        rw [← this]
        unfold aliasOutSet
        split
        · exact fun x => x
        · split
          · exact fun x => x
          · split
            · exact fun x => x
            · exact L.ext _ _ rfl rfl rfl rfl rfl
      split at heq <;> (cases heq; exact ⟨h4, hout.1, hout.2⟩)
    · cases heq; exact ⟨fun x => x, hout.1, hout.2⟩
  clear heq
  obtain ⟨hp1, ht1, he1⟩ := hc1
  extract_lets s1
  have hs1 : Fc11G P s s1 := (Fc11G.refl s).set i c1 hp1
  split
  · split
    · exact hs1.upd rfl rfl
    · split
      · exact hs1.upd rfl rfl
      · rename_i pid hpid
        have hfresh : flGet c1 pid = none := nextPacketID_fresh c1 _ pid hpid
        extract_lets c2 out2 sentQuota
        have hp2 : P c1 → P c2 := L.ext _ _ rfl rfl rfl rfl rfl
        have hfresh2 : flGet c2 out2.id = none := hfresh
        have hfl := fc11_flSet_fresh c2 out2 hfresh2
        have hD := L.deliver c2 out2 ht1 he1 hfresh2
        split
        rename_i c3 isNew hfl'
        rw [hfl] at hfl'
        obtain ⟨rfl, rfl⟩ := Prod.mk.inj hfl'
        extract_lets c4 s2 src s3
        have hc4 : c4 = decSend { c2 with inflight := c2.inflight ++ [out2] } := if_pos rfl
        have hs3o : s3.objs = (setObj s1 i c4).objs := by
          show (if true = true then _ else s2).objs = _
          rw [if_pos rfl]
        have hs3c : s3.clients = s1.clients := by
          show (if true = true then _ else s2).clients = _
          rw [if_pos rfl]; rfl
        have hms : c4.maxSend = c1.maxSend := by rw [hc4]; exact fc11_decSend_maxSend _
        by_cases hdef : (sentQuota == 0 && decide (c4.maxSend > 0)) = true
        · rw [if_pos hdef]
          rw [hms] at hdef
          have hsq : c1.sendQuota = 0 ∧ 0 < c1.maxSend := by
            simp only [Bool.and_eq_true, beq_iff_eq, decide_eq_true_eq] at hdef
            exact hdef
          refine Fc11G.fst_mk ⟨by show s3.clients.Sublist _; rw [hs3c]; exact hs1.clients, ?_⟩
          intro k hr x
          have hr1 : Fc11Reg s1 k := by
            obtain ⟨id, hm⟩ := hr
            exact ⟨id, by rw [← hs3c]; exact hm⟩
          by_cases hk : k = i
          · subst hk
            refine fc11_get_set (Q := P) (fun _ => ?_) (fun hlt => ?_)
            · rw [hc4]
              exact (hD (hp2 (hp1 x))).2 hsq.1 hsq.2
            · have hlt1 : ¬ k < s1.objs.length := by
                have : s3.objs.length = s1.objs.length := by rw [hs3o]; exact setObj_length s1 k c4
                rw [← this]; exact hlt
              rw [getObj_of_objs_eq hs3o k, getObj_setObj_ge s1 k c4 hlt1]
              exact hs1.keep k hr1 x
          · rw [getObj_setObj_ne _ i k _ hk, getObj_of_objs_eq hs3o k, getObj_setObj_ne _ i k _ hk]
            exact hs1.keep k hr1 x
        · rw [if_neg hdef]
          rw [hms] at hdef
          have hnd : ¬ (c2.sendQuota = 0 ∧ 0 < c2.maxSend) := by
            intro h
            apply hdef
            simp only [Bool.and_eq_true, beq_iff_eq, decide_eq_true_eq]
            exact h
          have hq1 : P c1 → P c4 := by
            intro y
            rw [hc4]
            exact (hD (hp2 y)).1 hnd
          have hs3 : Fc11G P s s3 := by
            refine ⟨by rw [hs3c]; exact hs1.clients, fun k hr x => ?_⟩
            rw [getObj_of_objs_eq hs3o k]
            by_cases hk : k = i
            · subst hk
              refine fc11_get_set (Q := P) (fun _ => hq1 (hp1 x)) (fun hlt => ?_)
              exact hs1.keep k (by obtain ⟨id, hm⟩ := hr; exact ⟨id, by rw [← hs3c]; exact hm⟩) x
            · rw [getObj_setObj_ne _ i k _ hk]
              exact hs1.keep k (by obtain ⟨id, hm⟩ := hr; exact ⟨id, by rw [← hs3c]; exact hm⟩) x
          split <;> exact hs3
  · split <;> exact hs1

theorem publishToClient_fc (L : Fc11Laws P) (s : Server) (i : Nat) (sub : Sub) (f : Bool) (pk : Msg)
    (hpk : fc11MsgOK pk) : Fc11G P s (publishToClient s i sub f pk).1 := by
  unfold publishToClient
  split
  · exact Fc11G.refl s
  · split
    · exact Fc11G.refl s
    · exact publishToClientCore_fc L s i sub f pk hpk

theorem publishToSubscribers_fc (L : Fc11Laws P) (s : Server) (pk : Msg) (hpk : fc11MsgOK pk) :
    Fc11G P s (publishToSubscribers s pk).1 := by
  unfold publishToSubscribers
  split
  · exact Fc11G.refl s
  · extract_lets e pk' r subsMap inl
    have hpk' : fc11MsgOK pk' := by
      show fc11MsgOK (if (pk.expiry == 0) = true then _ else pk)
      split
      · show fc11MsgOK (if _ then _ else pk)
        split
        · refine ⟨hpk.1, ?_, hpk.2.2⟩
          show 0 ≤ pk.created + _
          have := hpk.2.2
          omega
        · exact hpk
      · exact hpk
    refine foldl_inv (fun (acc : Server × List Out) => Fc11G P s acc.1) _ _ _ (Fc11G.refl s) ?_
    intro acc cs h
    split
    · exact h
    · rename_i k _
      split
      rename_i s' o heq
      have := publishToClient_fc L acc.1 k cs.2 false pk' hpk'
      rw [heq] at this
      exact h.trans this

theorem publishRetainedToClient_fc (L : Fc11Laws P) (s : Server) (i : Nat) (sub : Sub) (ex : Bool) (k : Nat)
    (hst : ∀ e ∈ s.rmsgs, fc11MsgOK e.2) : Fc11G P s (publishRetainedToClient s i sub ex k).1 := by
  unfold publishRetainedToClient
  split
  · exact Fc11G.refl s
  · split
    · exact Fc11G.refl s
    · extract_lets sub'
      refine (foldl_inv (fun (acc : Server × List Out) => Fc11G P s acc.1 ∧ acc.1.rmsgs = s.rmsgs) _ _ _
        ⟨Fc11G.refl s, rfl⟩ ?_).1
      intro acc r h
      split
      · exact h
      · rename_i m hm
        split
        rename_i s' o heq
        have hmem := assocGet_some_mem _ _ _ hm
        rw [h.2] at hmem
        have := publishToClient_fc L acc.1 i sub' true m (hst _ hmem)
        rw [heq] at this
        have hk := (publishToClient_kw acc.1 i sub' true m).2
        rw [heq] at hk
        exact ⟨h.1.trans this, hk.trans h.2⟩

theorem retainMsg_fc (s : Server) (pk : Msg) : Fc11G P s (retainMsg s pk) := by
  unfold retainMsg
  split
  · exact Fc11G.refl s
  · exact (Fc11G.refl s).upd rfl rfl

/-! ### work on the acting object that touches neither the records nor the quotas -/

theorem stopClient_fc (L : Fc11Laws P) (s : Server) (i : Nat) : Fc11G P s (stopClient s i).1 := by
  unfold stopClient
  extract_lets +onlyGivenNames c
  split
  · exact Fc11G.refl s
  · exact (Fc11G.refl s).set i _ (L.ext _ _ rfl rfl rfl rfl rfl)

theorem disconnectClient_fc (L : Fc11Laws P) (s : Server) (i : Nat) (code : Nat) :
    Fc11G P s (disconnectClient s i code).1 := by
  unfold disconnectClient
  extract_lets +onlyGivenNames c w
  split
  rename_i s' o heq
  have := stopClient_fc L s i
  rw [heq] at this
  exact this

theorem unsubscribeClient_fc (L : Fc11Laws P) (s : Server) (i : Nat) : Fc11G P s (unsubscribeClient s i) := by
  unfold unsubscribeClient
  extract_lets +onlyGivenNames c s1
  have h1 : Fc11G P s s1 := (Fc11G.refl s).set i _ (L.ext _ _ rfl rfl rfl rfl rfl)
  split
  · exact h1
  · refine foldl_inv (fun (x : Server) => Fc11G P s x) _ _ _ h1 ?_
    intro b a h
    exact h.upd rfl rfl

theorem processDisconnect_fc (L : Fc11Laws P) (s : Server) (i rc : Nat) (sei : Option Nat) :
    Fc11G P s (processDisconnect s i rc sei).1 := by
  unfold processDisconnect
  extract_lets +onlyGivenNames c r
  have hr : ∀ s' c', r = some (s', c') → s' = s ∧ (P c → P c') := by
    intro s' c' h
    simp only [r] at h
    split at h
    · split at h
      · cases h
      · cases h; exact ⟨rfl, L.ext _ _ rfl rfl rfl rfl rfl⟩
    · cases h; exact ⟨rfl, fun x => x⟩
  generalize r = r' at hr
  split
  · exact Fc11G.refl s
  · rename_i s' c'
    obtain ⟨rfl, hc'⟩ := hr s' c' rfl
    extract_lets +onlyGivenNames s1
    have hs1 : Fc11G P s' s1 := (Fc11G.refl s').set i c' hc'
    split
    · exact hs1
    · extract_lets +onlyGivenNames s2
      have hs2 : Fc11G P s' s2 := hs1.upd rfl rfl
      split
      rename_i s3 o hst
      have := stopClient_fc L s2 i
      rw [hst] at this
      exact hs2.trans this

theorem processUnsubscribe_fc (L : Fc11Laws P) (s : Server) (i id : Nat) (filters : List Str) :
    Fc11G P s (processUnsubscribe s i id filters).1 := by
  unfold processUnsubscribe
  extract_lets +onlyGivenNames c inUse r
  have hr : Fc11G P s r.1 := by
    refine foldl_inv (fun (acc : Server × List Nat) => Fc11G P s acc.1) _ _ _ (Fc11G.refl s) ?_
    intro acc f h
    split
    rename_i s' rcs
    split
    · exact h
    · extract_lets rr src s1 s2
      show Fc11G P s s2
      exact (h.upd (s' := s1) rfl rfl).mod _ _ (L.ext _ _ rfl rfl rfl rfl rfl)
  generalize r = r' at hr
  split
  rename_i s' rcs
  extract_lets c'
  split <;> exact hr

theorem processSubscribe_fc (L : Fc11Laws P) (s : Server) (i id subId : Nat) (filters : List Sub)
    (hst : ∀ e ∈ s.rmsgs, fc11MsgOK e.2) : Fc11G P s (processSubscribe s i id subId filters).1 := by
  unfold processSubscribe
  extract_lets +onlyGivenNames c inUse fin r
  have hr : Fc11G P s r.1 ∧ r.1.rmsgs = s.rmsgs := by
    refine foldl_inv (fun (acc : Server × List Nat × List Bool) => Fc11G P s acc.1 ∧ acc.1.rmsgs = s.rmsgs) _ _ _
      ⟨Fc11G.refl s, rfl⟩ ?_
    intro acc sub h
    split
    rename_i s' rcs exs
    extract_lets +onlyGivenNames sub'
    split
    · exact h
    · split
      · exact h
      · split
        · exact h
        · split
          · exact h
          · extract_lets +onlyGivenNames rr src s1 s2
            show Fc11G P s s2 ∧ s2.rmsgs = s.rmsgs
            exact ⟨(h.1.upd (s' := s1) rfl rfl).mod _ _ (L.ext _ _ rfl rfl rfl rfl rfl), h.2⟩
  generalize r = r' at hr
  split
  rename_i s' rcs exs
  extract_lets +onlyGivenNames c'
  split
  · exact hr.1
  · extract_lets +onlyGivenNames o1 z
    show Fc11G P s z.1
    refine (foldl_inv (fun (acc : Server × List Out) => Fc11G P s acc.1 ∧ acc.1.rmsgs = s.rmsgs) _ _ _ hr ?_).1
    intro acc xk h
    extract_lets +onlyGivenNames x
    split
    · exact h
    · extract_lets +onlyGivenNames src sub'
      split
      rename_i s2 o heq
      have := publishRetainedToClient_fc L acc.1 i sub' x.2.2 xk.2 (by rw [h.2]; exact hst)
      rw [heq] at this
      have hk := (publishRetainedToClient_kw acc.1 i sub' x.2.2 xk.2).2
      rw [heq] at hk
      exact ⟨h.1.trans this, hk.trans h.2⟩

theorem sendLWT_fc (L : Fc11Laws P) (s : Server) (i : Nat) : Fc11G P s (sendLWT s i).1 := by
  unfold sendLWT
  extract_lets +onlyGivenNames c
  split
  · exact Fc11G.refl s
  · extract_lets +onlyGivenNames pk
    have hpk : fc11MsgOK pk := ⟨rfl, Int.le_refl 0, (by decide : (0 : Int) ≤ NOW)⟩
    split
    · exact (Fc11G.refl s).upd rfl rfl
    · extract_lets +onlyGivenNames s1
      have hs1 : Fc11G P s s1 := by
        show Fc11G P s (if pk.retain = true then retainMsg s pk else s)
        split
        · exact retainMsg_fc s pk
        · exact Fc11G.refl s
      split
      rename_i s2 o heq
      have := publishToSubscribers_fc L s1 pk hpk
      rw [heq] at this
      have h2 : Fc11G P s s2 := hs1.trans this
      refine Fc11G.fst_mk ?_
      exact h2.mod _ _ (L.ext _ _ rfl rfl rfl rfl rfl)

theorem detachA_fc (L : Fc11Laws P) (s : Server) (i : Nat) (withErr : Bool) : Fc11G P s (detachA s i withErr).1 := by
  unfold detachA
  split
  · split
    rename_i s2 o2 h2
    split
    rename_i s3 o3 h3
    have a := sendLWT_fc L s i
    rw [h2] at a
    have b := stopClient_fc L s2 i
    rw [h3] at b
    exact a.trans b
  · exact (Fc11G.refl s).mod i (fun c => { c with will := {} }) (L.ext _ _ rfl rfl rfl rfl rfl)

/-! ### session clean-up: the cleared object leaves the Clients map -/

/-- `clearInflights`, `unsubscribeClient` and the removal of the object's own Clients-map key -/
theorem fc11_clear_unreg (L : Fc11Laws P) (s : Server) (i : Nat) (cid : Str)
    (hv : ∀ id k, (id, k) ∈ s.clients → (getObj s k).id = id) (hid : (getObj s i).id = cid) :
    Fc11G P s { unsubscribeClient (clearInflights s i) i with
      clients := assocDel (unsubscribeClient (clearInflights s i) i).clients cid } := by
  have g3 : Good s (clearInflights s i) := clearInflights_good s i
  have g4 : Good (clearInflights s i) (unsubscribeClient (clearInflights s i) i) := unsubscribeClient_good _ i
  have u4 : Fc11G P (clearInflights s i) (unsubscribeClient (clearInflights s i) i) := unsubscribeClient_fc L _ i
  have hsub : (unsubscribeClient (clearInflights s i) i).clients.Sublist s.clients := g4.clients.trans g3.clients
  refine ⟨List.filter_sublist.trans hsub, ?_⟩
  intro k hr x
  obtain ⟨id, hm⟩ := hr
  have hm' := (mem_assocDel_iff _ _ _).mp hm
  have hm4 : (id, k) ∈ (unsubscribeClient (clearInflights s i) i).clients := hm'.1
  have hms : (id, k) ∈ s.clients := hsub.subset hm4
  have hki : k ≠ i := by
    intro e
    subst e
    exact hm'.2 ((hv id k hms).symm.trans hid)
  show P (getObj (unsubscribeClient (clearInflights s i) i) k)
  refine u4.keep k ⟨id, hm4⟩ ?_
  show P (getObj (clearInflights s i) k)
  unfold clearInflights
  show P (getObj (setObj s i _) k)
  rw [getObj_setObj_ne s i k _ hki]
  exact x

theorem WF.clients_id {s : Server} (h : WF s) : ∀ id k, (id, k) ∈ s.clients → (getObj s k).id = id :=
  fun id k hm => (h.clients_valid id k hm).2

theorem detachB_fc (L : Fc11Laws P) (s : Server) (i : Nat) (hwf : WF s) : Fc11G P s (detachB s i) := by
  unfold detachB
  extract_lets +onlyGivenNames c expire s3 s4 s2
  refine Fc11G.upd (s := s2) ?_ rfl rfl
  show Fc11G P s (if (expire && !c.takenOver) = true then _ else s)
  split
  · exact fc11_clear_unreg L s i c.id hwf.clients_id rfl
  · exact Fc11G.refl s

theorem detach_fc (L : Fc11Laws P) (s : Server) (i : Nat) (withErr : Bool) (hwf : WF s) :
    Fc11G P s (detach s i withErr).1 := by
  unfold detach
  split
  rename_i s1 o1 heq
  have hs1 : Fc11G P s s1 := by
    have := detachA_fc L s i withErr
    rw [heq] at this
    exact this
  have w1 : WF s1 := by
    have := detachA_wf s i withErr hwf
    rw [heq] at this
    exact this
  exact hs1.trans (detachB_fc L s1 i w1)

theorem admitConnack_fc (L : Fc11Laws P) (s : Server) (i conn : Nat) (present : Bool) :
    Fc11G P s (admitConnack s i conn present).1 := by
  unfold admitConnack
  extract_lets +onlyGivenNames cl
  split
  rename_i s' seiOut heq
  show Fc11G P s s'
  split at heq
  · cases heq
    exact (Fc11G.refl s).mod i _ (L.ext _ _ rfl rfl rfl rfl rfl)
  · cases heq
    exact Fc11G.refl s

/-! ### housekeeping (all but the in-flight expiry) -/

theorem tickClients_fc (L : Fc11Laws P) (s : Server) (dt : Int) (hwf : WF s) : Fc11G P s (tickClients s dt).1 := by
  unfold tickClients
  refine (foldl_inv_mem (fun (acc : Server × List Out) => Fc11G P s acc.1 ∧ Good s acc.1) _ _ _
    ⟨Fc11G.refl s, Good.refl s⟩ ?_).1
  intro acc e he h
  extract_lets +onlyGivenNames c
  split
  · extract_lets +onlyGivenNames s1 s2
    have w : WF acc.1 := hwf.of_good h.2
    have hid : (getObj acc.1 e.2).id = e.1 := by
      rw [h.2.ids]
      exact (hwf.clients_valid e.1 e.2 he).2
    refine ⟨h.1.trans (fc11_clear_unreg L acc.1 e.2 e.1 w.clients_id hid), ?_⟩
    exact ((h.2.trans (clearInflights_good acc.1 e.2)).trans (unsubscribeClient_good s1 e.2)).delClient _
  · exact h

theorem tickRetained_fc (s : Server) (now : Int) : Fc11G P s (tickRetained s now) := by
  unfold tickRetained
  extract_lets +onlyGivenNames s1
  refine Fc11G.upd (s := s1) ?_ rfl rfl
  show Fc11G P s (tickRetained.tickRetainedLoop s now)
  unfold tickRetained.tickRetainedLoop
  refine foldl_inv (fun (x : Server) => Fc11G P s x) _ _ _ (Fc11G.refl s) ?_
  intro b e h
  extract_lets +onlyGivenNames pk expired enforced
  split
  · exact h.upd rfl rfl
  · exact h

theorem tickWills_fc (L : Fc11Laws P) (s : Server) (dt : Int) (hst : ∀ e ∈ s.willDelayed, fc11MsgOK e.2) :
    Fc11G P s (tickWills s dt).1 := by
  unfold tickWills
  refine foldl_inv_mem (fun (acc : Server × List Out) => Fc11G P s acc.1) _ _ _ (Fc11G.refl s) ?_
  intro acc e he h
  split
  · split
    rename_i s1 o h1
    have g1 : Fc11G P s s1 := by
      have := publishToSubscribers_fc L acc.1 e.2 (hst e he)
      rw [h1] at this
      exact h.trans this
    split
    rename_i s2 o2 h2
    have g2 : Fc11G P s s2 := by
      split at h2
      · rename_i i _
        extract_lets +onlyGivenNames s3 at h2
        rw [← (Prod.mk.inj h2).1]
        have g3 : Fc11G P s s3 := by
          show Fc11G P s (if e.2.retain = true then retainMsg s1 e.2 else s1)
          split
          · exact g1.trans (retainMsg_fc s1 e.2)
          · exact g1
        exact g3.mod i _ (L.ext _ _ rfl rfl rfl rfl rfl)
      · cases h2; exact g1
    exact g2.upd rfl rfl
  · exact h

/-! ### the acknowledging handlers, under the local condition that the acting client's update keeps `P` -/

theorem processPuback_fc (s : Server) (i id : Nat)
    (hg : ¬ (flGet (getObj s i) id).isNone = true → P (getObj s i) → P (incSend (flDelete (getObj s i) id).1)) :
    Fc11G P s (processPuback s i id).1 := by
  unfold processPuback
  extract_lets +onlyGivenNames c
  split
  · exact Fc11G.refl s
  · rename_i hn
    extract_lets +onlyGivenNames c'
    exact ((Fc11G.refl s).set i c' (hg hn)).upd rfl rfl

theorem processPubrec_fc (s : Server) (i id rc : Nat)
    (hg : ¬ (flGet (getObj s i) id).isNone = true → if (rc ≥ 0x80 || !reasonValid 5 rc) = true then P (getObj s i) → P (flDelete (getObj s i) id).1
      else P (getObj s i) → P (flSet (decRecv (getObj s i))
        { type := 6, id := id, qos := 1, reasonCode := 0, created := NOW, expiry := NOW + s.caps.maxMessageExpiry }).1) :
    Fc11G P s (processPubrec s i id rc).1 := by
  unfold processPubrec
  extract_lets +onlyGivenNames c
  split
  · rw [ackRes_fst]; exact Fc11G.refl s
  · rename_i hn
    have hg := hg hn
    split
    · rename_i hb
      rw [if_pos hb] at hg
      extract_lets +onlyGivenNames c'
      exact ((Fc11G.refl s).set i c' hg).upd rfl rfl
    · rename_i hb
      rw [if_neg hb] at hg
      extract_lets +onlyGivenNames ack c' s1
      have hs1 : Fc11G P s s1 := (Fc11G.refl s).set i c' hg
      split <;> exact hs1

theorem fc11_dead_flSet (c : Client) (m : Msg) : dead (flSet c m).1 = dead c := by
  have h := SessEq.flSet c m
  unfold dead
  rw [← h.isOpen, ← h.peerGone]

theorem processPubrel_fc (s : Server) (i id rc : Nat)
    (hg : ¬ (flGet (getObj s i) id).isNone = true → if (rc ≥ 0x80 || !reasonValid 6 rc) = true then P (getObj s i) → P (flDelete (getObj s i) id).1
      else if dead (getObj s i) = true then P (getObj s i) → P (flSet (getObj s i)
        { type := 7, id := id, reasonCode := 0, created := NOW, expiry := NOW + s.caps.maxMessageExpiry }).1
      else P (getObj s i) → P (flDelete (incSend (incRecv (flSet (getObj s i)
        { type := 7, id := id, reasonCode := 0, created := NOW, expiry := NOW + s.caps.maxMessageExpiry }).1)) id).1) :
    Fc11G P s (processPubrel s i id rc).1 := by
  unfold processPubrel
  extract_lets +onlyGivenNames c
  split
  · rw [ackRes_fst]; exact Fc11G.refl s
  · rename_i hn
    have hg := hg hn
    split
    · rename_i hb
      rw [if_pos hb] at hg
      extract_lets +onlyGivenNames c'
      exact ((Fc11G.refl s).set i c' hg).upd rfl rfl
    · rename_i hb
      rw [if_neg hb] at hg
      extract_lets +onlyGivenNames ack c1 s1
      split
      · rename_i hd
        have hd' : dead (getObj s i) = true := by rw [← fc11_dead_flSet c ack]; exact hd
        rw [if_pos hd'] at hg
        exact (Fc11G.refl s).set i c1 hg
      · rename_i hd
        have hd' : ¬ dead (getObj s i) = true := by rw [← fc11_dead_flSet c ack]; exact hd
        rw [if_neg hd'] at hg
        extract_lets +onlyGivenNames o c2
        split
        rename_i c3 ok heq
        extract_lets +onlyGivenNames s2
        have hc3 : c3 = (flDelete c2 id).1 := by rw [heq]
        have hs2 : Fc11G P s s2 := by
          refine ⟨List.Sublist.refl _, fun k _ x => ?_⟩
          show P (getObj (setObj (setObj s i c1) i c3) k)
          by_cases hk : k = i
          · subst hk
            refine fc11_get_set (Q := P) (fun _ => ?_) (fun hlt => ?_)
            · rw [hc3]; exact hg x
            · have : ¬ k < s.objs.length := by rw [← setObj_length s k c1]; exact hlt
              rw [getObj_setObj_ge s k c1 this]; exact x
          · rw [getObj_setObj_ne _ i k _ hk, getObj_setObj_ne _ i k _ hk]; exact x
        split
        · exact hs2.upd rfl rfl
        · exact hs2

theorem processPubcomp_fc (s : Server) (i id : Nat)
    (hg : P (getObj s i) → P (flDelete (incSend (incRecv (getObj s i))) id).1) :
    Fc11G P s (processPubcomp s i id).1 := by
  unfold processPubcomp
  extract_lets +onlyGivenNames c
  split
  rename_i c1 ok heq
  extract_lets +onlyGivenNames s1
  have hc1 : c1 = (flDelete c id).1 := by rw [heq]
  have hs1 : Fc11G P s s1 := (Fc11G.refl s).set i c1 (by rw [hc1]; exact hg)
  split
  · exact hs1.upd rfl rfl
  · exact hs1

theorem nextImmediate_fc (L : Fc11Laws P) (s : Server) (i : Nat) (hwf : AllWF s) :
    Fc11G P s (nextImmediate s i).1 := by
  unfold nextImmediate
  extract_lets +onlyGivenNames c
  split
  · rename_i hcond
    split
    · rename_i m hm
      extract_lets +onlyGivenNames o
      split
      rename_i c1 ok heq
      extract_lets +onlyGivenNames s1
      have hmem : m ∈ c.inflight ∧ m.expiry < 0 := by
        have h1 := List.mem_of_mem_head? hm
        have h2 := mem_permuteBy _ _ _ h1
        have h3 := List.mem_filter.mp h2
        exact ⟨h3.1, by simpa using h3.2⟩
      have hc1 : c1 = (flDelete c m.id).1 := by rw [heq]
      have hs0 : Fc11G P s { s with nextSeed := s.nextSeed / 64 } := (Fc11G.refl s).upd rfl rfl
      have hs1 : Fc11G P s s1 := by
        refine hs0.set i _ ?_
        intro x
        rw [hc1]
        exact L.next c (hwf i) x m hmem.1 hmem.2 (by simp only [Bool.and_eq_true, decide_eq_true_eq] at hcond; exact hcond.2)
      split
      · exact hs1.upd rfl rfl
      · exact hs1
    · exact Fc11G.refl s
  · exact Fc11G.refl s

/-! ### `processPublish` -/

theorem fc11_flGet_flDelete (c : Client) (id : Nat) : flGet (flDelete c id).1 id = none := by
  unfold flGet flDelete
  rw [List.find?_eq_none]
  intro x hx
  have := (List.mem_filter.mp hx).2
  simpa using this

theorem fc11_flGet_congr {a b : Client} (h : b.inflight = a.inflight) (id : Nat) : flGet b id = flGet a id := by
  unfold flGet; rw [h]

theorem fc11_in_range {s : Server} {i : Nat} (h : (getObj s i).recvQuota ≠ 0) : i < s.objs.length := by
  false_or_by_contra
  rename_i hn
  apply h
  have : s.objs.length ≤ i := Nat.le_of_not_lt hn
  simp only [getObj, List.getD_eq_getElem?_getD, List.getElem?_eq_none this]
  rfl

theorem fc11_retainMsg_objs (s : Server) (pk : Msg) : (retainMsg s pk).objs = s.objs := by
  unfold retainMsg; split <;> rfl

theorem fc11_retainMsg_clients (s : Server) (pk : Msg) : (retainMsg s pk).clients = s.clients := by
  unfold retainMsg; split <;> rfl

/-- the state differs from `s` in object `i` (now `x`) only -/
theorem Fc11G.at {s0 s s' : Server} (h : Fc11G P s0 s) (i : Nat) (x : Client) (hc : s'.clients = s.clients)
    (hobj : s'.objs = s.objs.set i x) (hp : P (getObj s i) → P x) : Fc11G P s0 s' :=
  (h.set i x hp).upd hobj hc

theorem fc11_getObj_at {s s' : Server} {i : Nat} {x : Client} (hobj : s'.objs = s.objs.set i x)
    (hlt : i < s.objs.length) : getObj s' i = x := by
  have : getObj s' i = getObj (setObj s i x) i := getObj_of_objs_eq (s := setObj s i x) hobj i
  rw [this, getObj_setObj_eq s i x hlt]

/-- `processPublish` deletes the record found under the packet id: a non-inline client, a record that is not an open
    inbound QoS 2 exchange (that one is answered with PUBREC 0x91 and kept) -/
def fc11PubDel (c : Client) (id : Nat) : Bool :=
  !c.inline && (match flGet c id with | some m => m.type != 5 | none => false)

theorem processPublish_fc (L : Fc11Laws P) (s : Server) (i : Nat) (qos : Nat) (dup retain : Bool) (id : Nat)
    (topic payload : Str) (msgExpiry : Nat) (alias : Option Nat)
    (hdel : fc11PubDel (getObj s i) id = true → P (getObj s i) → P (flDelete (getObj s i) id).1) :
    Fc11G P s (processPublish s i qos dup retain id topic payload msgExpiry alias).1 := by
  unfold processPublish
  extract_lets +onlyGivenNames c
  have early : ∀ code, Fc11G P s
      (if (qos == 0) = true then ((s, [], none) : HRes)
        else if (c.ver != 5) = true then
          match disconnectClient s i code with
          | (s, o) => (s, o, some code)
        else ackRes s i (if (qos == 2) = true then 5 else 4) id code).1 := by
    intro code
    split
    · exact Fc11G.refl s
    · split
      · split
        rename_i s' o heq
        have := disconnectClient_fc L s i code
        rw [heq] at this
        exact this
      · rw [ackRes_fst]; exact Fc11G.refl s
  refine Fc11G.ite_res (fun _ => early _) (fun _ => ?_)
  · refine Fc11G.ite_res (fun _ => ?_) (fun hrq => ?_)
    · split
      rename_i s' o heq
      have := disconnectClient_fc L s i 0x93
      rw [heq] at this
      exact this
    · have hrq' : c.recvQuota ≠ 0 := by
        intro e; apply hrq; rw [e]; rfl
      have hlt : i < s.objs.length := fc11_in_range hrq'
      refine Fc11G.ite_res (fun _ => early _) (fun _ => ?_)
      · extract_lets +onlyGivenNames e pk pre
        have hpk : fc11MsgOK pk := by
          refine ⟨rfl, ?_, (by decide : (0 : Int) ≤ NOW)⟩
          show (0 : Int) ≤ (if e > 0 then NOW + (e : Int) else 0)
          have : (0 : Int) ≤ NOW := by decide
          split <;> omega
        have hpre : ∀ r, pre = some r → r.1 = s := by
          intro r h
          simp only [pre] at h
          split at h
          · cases h
          · split at h
            · split at h
              · cases h; exact ackRes_fst s i 5 id 0x91
              · cases h
            · cases h
        have hpre2 : pre = none → (!c.inline && (flGet c id).isSome) = true → fc11PubDel c id = true := by
          intro h hc
          simp only [pre] at h
          unfold fc11PubDel
          cases hin : c.inline with
          | true => rw [hin] at hc; simp at hc
          | false =>
            rw [hin] at h hc
            simp only [Bool.false_eq_true, if_false] at h
            cases hg : flGet c id with
            | none => rw [hg] at hc; simp at hc
            | some m =>
              rw [hg] at h
              simp only at h
              split at h
              · cases h
              · rename_i h5
                simp [bne, h5]
        generalize pre = pre' at hpre hpre2
        split
        · rename_i r
          rw [hpre r rfl]
          exact Fc11G.refl s
        · clear hpre
          have hpd := hpre2 rfl
          split
          rename_i s1 c1 heq
          have h1 : s1.clients = s.clients ∧ s1.objs = s.objs.set i c1 ∧ (P c → P c1) ∧
              c1.recvQuota = c.recvQuota ∧ c1.inline = c.inline ∧ (c.inline = false → flGet c1 id = none) := by
            split at heq
            · rename_i hcond
              cases heq
              refine ⟨rfl, rfl, hdel (hpd hcond), rfl, rfl, fun _ => fc11_flGet_flDelete c id⟩
            · rename_i hcond
              cases heq
              refine ⟨rfl, ?_, fun x => x, rfl, rfl, fun hin => ?_⟩
              · show s.objs = s.objs.set i (s.objs.getD i {})
                rw [List.getD_eq_getElem?_getD, List.getElem?_eq_getElem hlt]
                simp
              · have : ¬ ((flGet c id).isSome = true) := by
                  intro h
                  apply hcond
                  rw [hin, h]; rfl
                cases hg : flGet c id with
                | none => rfl
                | some v => rw [hg] at this; exact absurd rfl this
          clear heq
          obtain ⟨hcl1, hob1, hp1, hrq1, hin1, hfl1⟩ := h1
          split
          rename_i c2 pk2 heq
          have hc2 : (P c1 → P c2) ∧ c2.recvQuota = c1.recvQuota ∧ c2.inflight = c1.inflight ∧ fc11MsgOK pk2 ∧ c2.inline = c1.inline := by
            split at heq
            · split at heq
              · split at heq
                · cases heq; exact ⟨fun x => x, rfl, rfl, hpk, rfl⟩
                · split at heq
                  · split at heq
                    · cases heq; exact ⟨fun x => x, rfl, rfl, hpk, rfl⟩
                    · cases heq; exact ⟨L.ext _ _ rfl rfl rfl rfl rfl, rfl, rfl, hpk, rfl⟩
                  · cases heq; exact ⟨L.ext _ _ rfl rfl rfl rfl rfl, rfl, rfl, hpk, rfl⟩
              · cases heq; exact ⟨fun x => x, rfl, rfl, hpk, rfl⟩
            · cases heq; exact ⟨fun x => x, rfl, rfl, hpk, rfl⟩
          clear heq
          obtain ⟨hp2, hrq2, hfl2, hpk2, hin2⟩ := hc2
          extract_lets +onlyGivenNames s2
          have hlt1 : i < s1.objs.length := by rw [hob1, List.length_set]; exact hlt
          have hob2 : s2.objs = s.objs.set i c2 := by
            show s1.objs.set i c2 = _
            rw [hob1, List.set_set]
          have hs2 : Fc11G P s s2 := (Fc11G.refl s).at i c2 hcl1 hob2 (fun x => hp2 (hp1 x))
          have hg2 : getObj s2 i = c2 := fc11_getObj_at hob2 hlt
          split
          · split
            rename_i s' o heq
            have := disconnectClient_fc L s2 i 0x82
            rw [heq] at this
            exact hs2.trans this
          extract_lets +onlyGivenNames pk3 mode
          have hpk3 : fc11MsgOK pk3 := by
            show fc11MsgOK (if _ then _ else pk2)
            split
            · exact hpk2
            · exact hpk2
          split
          · exact hs2
          · split
            · rw [ackRes_fst]; exact hs2
            · extract_lets +onlyGivenNames pk4 s3
              have hpk4 : fc11MsgOK pk4 := by
                show fc11MsgOK (if _ then _ else pk3)
                split
                · exact hpk3
                · exact hpk3
              have hob3 : s3.objs = s2.objs := by
                show (if pk4.retain = true then retainMsg s2 pk4 else s2).objs = _
                split
                · exact fc11_retainMsg_objs s2 pk4
                · rfl
              have hcl3 : s3.clients = s2.clients := by
                show (if pk4.retain = true then retainMsg s2 pk4 else s2).clients = _
                split
                · exact fc11_retainMsg_clients s2 pk4
                · rfl
              have hs3 : Fc11G P s s3 := hs2.upd hob3 hcl3
              have hg3 : getObj s3 i = c2 := by rw [getObj_of_objs_eq hob3 i]; exact hg2
              have hlt3 : i < s3.objs.length := by rw [hob3, hob2, List.length_set]; exact hlt
              split
              · split
                rename_i s4 o heq
                have := publishToSubscribers_fc L s3 pk4 hpk4
                rw [heq] at this
                exact hs3.trans this
              · rename_i hq
                have hinl : c.inline = false := by
                  rw [← hin1, ← hin2]
                  cases hci : c2.inline with
                  | false => rfl
                  | true => exact absurd (by rw [hci]; simp) hq
                extract_lets +onlyGivenNames s4 ackT ackRC ack
                have hg4 : getObj s4 i = decRecv c2 := by
                  show getObj (setObj s3 i (decRecv (getObj s3 i))) i = _
                  rw [getObj_setObj_eq s3 i _ hlt3, hg3]
                have hack : (ack.type = 4 ∨ ack.type = 5) ∧ 0 ≤ ack.expiry ∧ ack.id = id := by
                  refine ⟨?_, ?_, rfl⟩
                  · show (if (pk4.qos == 2) = true then 5 else 4) = 4 ∨ (if (pk4.qos == 2) = true then 5 else 4) = 5
                    split
                    · exact Or.inr rfl
                    · exact Or.inl rfl
                  · show (0 : Int) ≤ NOW + _
                    have : (0 : Int) ≤ NOW := by decide
                    omega
                have hfr : flGet c2 ack.id = none := by
                  rw [hack.2.2, fc11_flGet_congr hfl2 id]; exact hfl1 hinl
                have hrq2' : c2.recvQuota > 0 := by
                  rw [hrq2, hrq1]; exact Nat.pos_of_ne_zero hrq'
                have hA := L.ack c2 ack hack.1 hack.2.1 hfr hrq2'
                split
                rename_i c5 isNew heq
                have hc5 : c5 = (flSet (decRecv c2) ack).1 := by rw [← hg4, heq]
                clear heq
                extract_lets +onlyGivenNames s5 src s6
                have hob6 : s6.objs = s3.objs.set i c5 := by
                  show (if isNew = true then _ else s5).objs = _
                  have : s5.objs = s3.objs.set i c5 := by
                    show (s3.objs.set i _).set i c5 = _
                    rw [List.set_set]
                  split
                  · exact this
                  · exact this
                have hcl6 : s6.clients = s3.clients := by
                  show (if isNew = true then _ else s5).clients = _
                  split <;> rfl
                have hs6 : Fc11G P s s6 :=
                  hs3.at i c5 hcl6 hob6 (fun x => by rw [hc5]; rw [hg3] at x; exact (hA x).1)
                split
                · exact hs6
                · extract_lets +onlyGivenNames o1 s7
                  have hs7 : Fc11G P s s7 := by
                    show Fc11G P s (if (pk4.qos == 1) = true then _ else s6)
                    split
                    · rename_i hq1
                      have ht4 : ack.type = 4 := by
                        show (if (pk4.qos == 2) = true then 5 else 4) = 4
                        have : ¬ (pk4.qos == 2) = true := by
                          have := beq_iff_eq.mp hq1
                          rw [this]; decide
                        rw [if_neg this]
                      have hg6 : getObj s6 i = c5 := fc11_getObj_at hob6 hlt3
                      split
                      rename_i c6 ok heq
                      have hc6 : c6 = (flDelete c5 id).1 := by rw [← hg6, heq]
                      extract_lets +onlyGivenNames s8
                      have hs8 : Fc11G P s s8 := by
                        refine hs3.at i (incRecv c6) hcl6 ?_ ?_
                        · show s6.objs.set i _ = _
                          rw [hob6, List.set_set]
                        · intro x
                          rw [hg3] at x
                          rw [hc6, hc5, ← hack.2.2]
                          exact (hA x).2 ht4
                      split
                      · exact hs8.upd rfl rfl
                      · exact hs8
                    · exact hs6
                  split
                  rename_i s9 o2 heq
                  have := publishToSubscribers_fc L s7 pk4 hpk4
                  rw [heq] at this
                  exact hs7.trans this

/-! ### one inbound packet -/

/-- **the local condition on an inbound packet**: the update the handler makes to the acting client's own records
    and quotas keeps `P` (per branch of the handler: PUBLISH — the deletion of a record found under the packet id;
    PUBACK / PUBREC / PUBREL — only when a record with the packet id exists, by reason-code branch and, for PUBREL, by
    whether the PUBCOMP can be written; PUBCOMP — always, `processPubcomp` does not look the record up).
    Trivial for SUBSCRIBE, UNSUBSCRIBE, PINGREQ, DISCONNECT. -/
def fc11PkOK (P : Client → Prop) (s : Server) (i : Nat) : InPk → Prop
  | .publish _ _ _ id _ _ _ _ =>
    fc11PubDel (getObj s i) id = true → P (getObj s i) → P (flDelete (getObj s i) id).1
  | .puback id _ =>
    ¬ (flGet (getObj s i) id).isNone = true → P (getObj s i) → P (incSend (flDelete (getObj s i) id).1)
  | .pubrec id rc =>
    ¬ (flGet (getObj s i) id).isNone = true →
    if (rc ≥ 0x80 || !reasonValid 5 rc) = true then P (getObj s i) → P (flDelete (getObj s i) id).1
    else P (getObj s i) → P (flSet (decRecv (getObj s i))
      { type := 6, id := id, qos := 1, reasonCode := 0, created := NOW, expiry := NOW + s.caps.maxMessageExpiry }).1
  | .pubrel id rc =>
    ¬ (flGet (getObj s i) id).isNone = true →
    if (rc ≥ 0x80 || !reasonValid 6 rc) = true then P (getObj s i) → P (flDelete (getObj s i) id).1
    else if dead (getObj s i) = true then P (getObj s i) → P (flSet (getObj s i)
      { type := 7, id := id, reasonCode := 0, created := NOW, expiry := NOW + s.caps.maxMessageExpiry }).1
    else P (getObj s i) → P (flDelete (incSend (incRecv (flSet (getObj s i)
      { type := 7, id := id, reasonCode := 0, created := NOW, expiry := NOW + s.caps.maxMessageExpiry }).1)) id).1
  | .pubcomp id _ => P (getObj s i) → P (flDelete (incSend (incRecv (getObj s i))) id).1
  | _ => True

instance fc11PkOK_dec (P : Client → Prop) [DecidablePred P] (s : Server) (i : Nat) (pk : InPk) :
    Decidable (fc11PkOK P s i pk) := by
  cases pk <;> unfold fc11PkOK <;> infer_instance

theorem receivePacket_fc (L : Fc11Laws P) (s : Server) (i : Nat) (pk : InPk) (hwf : AllWF s)
    (hst : (∃ id si fs, pk = .subscribe id si fs) → ∀ e ∈ s.rmsgs, fc11MsgOK e.2) (hg : fc11PkOK P s i pk) : Fc11G P s (receivePacket s i pk).1 := by
  unfold receivePacket
  extract_lets +onlyGivenNames c r
  have hr : Fc11G P s r.1 ∧ Good s r.1 := by
    simp only [r]
    split
    · split
      · exact ⟨Fc11G.refl s, Good.refl s⟩
      · exact ⟨processPublish_fc L _ _ _ _ _ _ _ _ _ _ hg, processPublish_good ..⟩
    · split
      · exact ⟨Fc11G.refl s, Good.refl s⟩
      · exact ⟨processSubscribe_fc L _ _ _ _ _ (hst ⟨_, _, _, rfl⟩), processSubscribe_good ..⟩
    · split
      · exact ⟨Fc11G.refl s, Good.refl s⟩
      · exact ⟨processUnsubscribe_fc L .., processUnsubscribe_good ..⟩
    · exact ⟨processPuback_fc _ _ _ hg, processPuback_good ..⟩
    · exact ⟨processPubrec_fc _ _ _ _ hg, processPubrec_good ..⟩
    · exact ⟨processPubrel_fc _ _ _ _ hg, processPubrel_good ..⟩
    · exact ⟨processPubcomp_fc _ _ _ hg, processPubcomp_good ..⟩
    · split <;> exact ⟨Fc11G.refl s, Good.refl s⟩
    · exact ⟨processDisconnect_fc L .., processDisconnect_good ..⟩
  generalize r = r' at hr
  split
  · rename_i s1 o
    split
    rename_i s2 o2 heq
    have := nextImmediate_fc L s1 i (hr.2.wf hwf)
    rw [heq] at this
    exact hr.1.trans this
  · rename_i s1 o code
    split
    · split
      rename_i s2 o2 heq
      have := disconnectClient_fc L s1 i code
      rw [heq] at this
      exact hr.1.trans this
    · exact hr.1

theorem recvOn_fc (L : Fc11Laws P) (s : Server) (c : Nat) (pk : InPk) (b : Bool) (hwf : WF s)
    (hst : (∃ id si fs, pk = .subscribe id si fs) → ∀ e ∈ s.rmsgs, fc11MsgOK e.2)
    (hg : ∀ i, assocGet s.connOf c = some i → fc11PkOK P s i pk) : Fc11G P s (recvOn s c pk b).1 := by
  unfold recvOn
  split
  · exact Fc11G.refl s
  · rename_i i hc
    split
    · exact Fc11G.refl s
    · split
      rename_i s1 o e heq
      have h1 := receivePacket_fc L s i pk hwf.allWF hst (hg i hc)
      rw [heq] at h1
      have w1 : WF s1 := by
        have := receivePacket_wf s i pk hwf
        rw [heq] at this; exact this
      split
      · split
        rename_i s2 o2 hd
        have := detach_fc L s1 i true w1
        rw [hd] at this
        exact h1.trans this
      · split
        · split
          rename_i s2 o2 hd
          have := detach_fc L s1 i false w1
          rw [hd] at this
          exact h1.trans this
        · split
          · split
            rename_i s2 o2 e2 heq2
            have h2 := receivePacket_fc L s1 i .pingreq w1.allWF
              (fun h => by obtain ⟨_, _, _, h⟩ := h; cases h) trivial
            · rw [heq2] at h2
              have w2 : WF s2 := by
                have := receivePacket_wf s1 i .pingreq w1
                rw [heq2] at this; exact this
              extract_lets +onlyGivenNames o2f
              have h12 : Fc11G P s s2 := h1.trans h2
              split
              · split
                rename_i s3 o3 hd
                have := detach_fc L s2 i true w2
                rw [hd] at this
                exact h12.trans this
              · exact h12
          · exact h1

/-! ### connecting under a client id that is not in the Clients map -/

/-- the invariant: every registered object satisfies `P` -/
def Fc11Inv (P : Client → Prop) (s : Server) : Prop := ∀ k, Fc11Reg s k → P (getObj s k)

theorem Fc11Inv.of_fc {s s' : Server} (h : Fc11Inv P s) (g : Fc11G P s s') : Fc11Inv P s' :=
  fun k r => g.keep k r (h k (r.of_sublist g.clients))

/-- `Clients.Add` of object `i` under the CONNECT's id, one more connected client -/
def fc11Added (s : Server) (i : Nat) (k : Connect) : Server :=
  { ({ s with info := { s.info with connected := s.info.connected + 1 } } : Server) with
    clients := assocSet s.clients k.id i }

theorem admitA_fresh (s : Server) (i : Nat) (k : Connect) (h : assocGet s.clients k.id = none) :
    admitA s i k = (fc11Added s i k, [], false, none) := by
  unfold admitA fc11Added
  simp only [h]

theorem admitC_absent (s : Server) (i : Nat) (k : Connect) :
    (admitC s i k false).1 = { s with willDelayed := assocDel s.willDelayed k.id } := by
  unfold admitC
  simp

theorem admitClient_fc_inv (L : Fc11Laws P) (s : Server) (i conn : Nat) (k : Connect)
    (hfresh : assocGet s.clients k.id = none) (hi : P (getObj s i)) (h : Fc11Inv P s) :
    Fc11Inv P (admitClient s i conn k).1 := by
  unfold admitClient
  rw [admitA_fresh s i k hfresh]
  dsimp only []
  have g2 := admitConnack_fc L (fc11Added s i k) i conn false
  have h1 : Fc11Inv P (fc11Added s i k) := by
    intro j ⟨id, hm⟩
    have hm : (id, j) ∈ assocSet s.clients k.id i := hm
    rcases mem_assocSet _ _ _ _ hm with hm | hm
    · exact h j ⟨id, hm⟩
    · cases hm; exact hi
  have h2' := h1.of_fc g2
  rw [admitC_absent]
  exact fun j r => h2' j r

theorem fc11_barrier (L : Fc11Laws P) {s1 : Server} {o : List Out} (conn : Nat) (b : Bool) (w1 : WF s1)
    (h1 : Fc11Inv P s1) :
    Fc11Inv P (if b = true then
          match recvOn s1 conn InPk.pingreq false with
          | (s, o2) => (s, o ++ o2.filter (fun x => match x with | .wrote _ .pingresp => false | _ => true))
        else (s1, o)).1 := by
  split
  · split
    rename_i s2 o2 h2
    have := recvOn_fc L s1 conn .pingreq false w1 (fun h => by obtain ⟨_, _, _, h⟩ := h; cases h)
      (fun _ _ => trivial)
    rw [h2] at this
    exact h1.of_fc this
  · exact h1

theorem fc11_parseConnect (L : Fc11Laws P) (s : Server) (conn : Nat) (k : Connect) : P (parseConnect s conn k) :=
  L.fresh _ rfl rfl rfl

theorem Fc11Inv.addObj {s : Server} (h : Fc11Inv P s) (hwf : WF s) (c : Client) (conn : Nat) :
    Fc11Inv P { s with objs := s.objs ++ [c], connOf := s.connOf ++ [(conn, s.objs.length)] } := by
  intro j ⟨id, hm⟩
  have hm' : (id, j) ∈ s.clients := hm
  have hlt := (hwf.clients_valid id j hm').1
  rw [getObj_append_lt (s := s) (c := c) rfl j hlt]
  exact h j ⟨id, hm'⟩

theorem connect_fc_inv (L : Fc11Laws P) (s : Server) (conn : Nat) (k : Connect) (hwf : WF s)
    (hfresh : assocGet s.clients k.id = none) (h : Fc11Inv P s) : Fc11Inv P (connect s conn k).1 := by
  unfold connect
  extract_lets +onlyGivenNames c i s1
  have h1 : Fc11Inv P s1 := h.addObj hwf c conn
  have hgi : getObj s1 i = c := getObj_append_eq (s := s) (s' := s1) (c := c) rfl
  split
  · split
    rename_i s2 o2 h2
    have := stopClient_fc L s1 i
    rw [h2] at this
    exact h1.of_fc this
  · exact admitClient_fc_inv L s1 i conn k hfresh (by rw [hgi]; exact fc11_parseConnect L s conn k) h1

theorem Fc11Inv.addPending {s : Server} (h : Fc11Inv P s) (p : Pending) :
    Fc11Inv P { s with pending := s.pending ++ [p] } := h

theorem connectHold_fc_inv (L : Fc11Laws P) (s : Server) (conn : Nat) (k : Connect) (stage : Nat) (hwf : WF s)
    (hfresh : assocGet s.clients k.id = none) (h : Fc11Inv P s) : Fc11Inv P (connectHold s conn k stage).1 := by
  unfold connectHold
  extract_lets +onlyGivenNames c i s1 dec
  have h1 : Fc11Inv P s1 := h.addObj hwf c conn
  have hgi : getObj s1 i = c := getObj_append_eq (s := s) (s' := s1) (c := c) rfl
  generalize dec = d
  cases d with
  | some code =>
    refine ite_fst_prop (P := Fc11Inv P) _ _ _ ?_ ?_
    · exact h1
    · extract_lets +onlyGivenNames o
      split
      rename_i s2 o2 h2
      have := stopClient_fc L s1 i
      rw [h2] at this
      exact h1.of_fc this
  | none =>
    refine ite_fst_prop (P := Fc11Inv P) _ _ _ ?_ ?_
    · exact h1
    · have hf1 : assocGet s1.clients k.id = none := hfresh
      rw [admitA_fresh s1 i k hf1]
      dsimp only []
      intro j ⟨id, hm⟩
      have hm : (id, j) ∈ assocSet s1.clients k.id i := hm
      show P (getObj (fc11Added s1 i k) j)
      rcases mem_assocSet _ _ _ _ hm with hm | hm
      · exact h1 j ⟨id, hm⟩
      · cases hm
        show P (getObj s1 i)
        rw [hgi]; exact fc11_parseConnect L s conn k

/-- a condition on the object a connection number is bound to (none: the op does nothing) -/
def fc11OnConn (s : Server) (conn : Nat) (f : Nat → Prop) : Prop :=
  match assocGet s.connOf conn with
  | some i => f i
  | none => True

instance (s : Server) (conn : Nat) (f : Nat → Prop) [DecidablePred f] : Decidable (fc11OnConn s conn f) := by
  unfold fc11OnConn
  cases assocGet s.connOf conn <;> infer_instance

theorem fc11OnConn.get {s : Server} {conn : Nat} {f : Nat → Prop} (h : fc11OnConn s conn f) (i : Nat)
    (hi : assocGet s.connOf conn = some i) : f i := by
  unfold fc11OnConn at h
  rw [hi] at h
  exact h

/-- the local condition on a parked CONNECT that is released -/
def fc11PendOK (P : Client → Prop) (s : Server) (p : Pending) : Prop :=
  if p.stage == 1 then p.refuse.isSome = true ∨ (assocGet s.clients p.k.id = none ∧ P (getObj s p.obj))
  else p.present = false

theorem connectRelease_fc_inv (L : Fc11Laws P) (s : Server) (p : Pending) (hg : fc11PendOK P s p)
    (h : Fc11Inv P s) : Fc11Inv P (connectRelease s p).1 := by
  unfold connectRelease
  unfold fc11PendOK at hg
  split
  · rename_i h1
    rw [if_pos h1] at hg
    split
    · split
      rename_i s2 o2 h2
      have := stopClient_fc L s p.obj
      rw [h2] at this
      exact h.of_fc this
    · rename_i hr
      rcases hg with hg | hg
      · rw [hr] at hg; cases hg
      · exact admitClient_fc_inv L s p.obj p.conn p.k hg.1 hg.2 h
  · rename_i h1
    rw [if_neg h1] at hg
    split
    · exact fun j r => h j r
    · split
      rename_i s2 o2 h2
      have g2 := admitConnack_fc L s p.obj p.conn p.present
      rw [h2] at g2
      split
      rename_i s3 o3 h3
      have : s3 = (admitC s2 p.obj p.k p.present).1 := by rw [h3]
      rw [this, hg, admitC_absent]
      exact fun j r => (h.of_fc g2) j r

instance fc11PendOK_dec (P : Client → Prop) [DecidablePred P] (s : Server) (p : Pending) :
    Decidable (fc11PendOK P s p) := by
  unfold fc11PendOK; infer_instance

/-- the released handler is a parked CONNECT: `fc11PendOK` -/
def fc11RelOK (P : Client → Prop) (s : Server) (conn : Nat) : Prop :=
  match s.pending.find? (·.conn == conn) with
  | some p => fc11PendOK P { s with pending := s.pending.filter (·.conn != conn) } p
  | none => True

instance fc11RelOK_dec (P : Client → Prop) [DecidablePred P] (s : Server) (conn : Nat) :
    Decidable (fc11RelOK P s conn) := by
  unfold fc11RelOK
  cases s.pending.find? (·.conn == conn) <;> infer_instance

/-! ### the guard on ops and the step theorem -/

/-- **the local condition on an op** (decidable when `P` is): the op's own acknowledgement handling keeps `P` on the
    acting client (`fc11PkOK`), a CONNECT uses a client id that is not in the Clients map (no take-over, no
    resumption), a released parked CONNECT likewise (`fc11PendOK`), and an in-flight housekeeping tick drops no
    record that `P` depends on. -/
def fc11OpOK (P : Client → Prop) (s : Server) : Op → Prop
  | .connect _ k => assocGet s.clients k.id = none
  | .connectHold _ k _ => assocGet s.clients k.id = none
  | .recv conn pk => fc11OnConn s conn (fun i => fc11PkOK P s i pk)
  | .recvCut conn pk => fc11OnConn s conn (fun i =>
      fc11PkOK P (modObj s i (fun c => { c with peerGone := true })) i pk)
  | .release conn => fc11RelOK P s conn
  | .tick kind t => kind = "inflight" → ∀ e ∈ s.clients, P (getObj s e.2) → P (getObj (tickInflight s t) e.2)
  | .inlinePublish topic payload retain qos => fc11PkOK P s 0 (.publish qos false retain qos topic payload 0 none)
  | _ => True

instance fc11OpOK_dec (P : Client → Prop) [DecidablePred P] (s : Server) (op : Op) : Decidable (fc11OpOK P s op) := by
  cases op <;> simp only [fc11OpOK] <;> infer_instance

theorem fc11_step (L : Fc11Laws P) (s : Server) (op : Op) (hwf : WF s) (hf : OpFresh s op) (hst : Fc11Store s)
    (hg : fc11OpOK P s op) (h : Fc11Inv P s) : Fc11Inv P (step s op).1 := by
  cases op with
  | connect conn k =>
    rw [step]
    split
    rename_i s1 o h1
    have i1 : Fc11Inv P s1 := by
      have := connect_fc_inv L s conn k hwf hg h
      rw [h1] at this; exact this
    have w1 : WF s1 := by
      have := connect_wf s conn k hwf hf
      rw [h1] at this; exact this
    split
    · exact fc11_barrier L conn _ w1 i1
    · exact i1
  | recv conn pk =>
    rw [step]
    exact h.of_fc (recvOn_fc L s conn pk true hwf (fun _ => hst.1) (fun i hi => (show fc11OnConn s conn _ from hg).get i hi))
  | drop conn =>
    rw [step]
    split
    · exact h
    · rename_i i _
      split
      · exact h
      · extract_lets +onlyGivenNames s1
        have g1 : Fc11G P s s1 := (Fc11G.refl s).mod i _ (L.ext _ _ rfl rfl rfl rfl rfl)
        have w1 : WF s1 := hwf.of_good ((Good.refl s).mod i _ (by cw_rfl))
        split
        rename_i s2 o h2
        have := detach_fc L s1 i true w1
        rw [h2] at this
        exact h.of_fc (g1.trans this)
  | recvCut conn pk =>
    rw [step]
    split
    · exact h
    · rename_i i hc
      split
      · exact h
      · extract_lets +onlyGivenNames s1
        have g1 : Fc11G P s s1 := (Fc11G.refl s).mod i _ (L.ext _ _ rfl rfl rfl rfl rfl)
        have w1 : WF s1 := hwf.of_good ((Good.refl s).mod i _ (by cw_rfl))
        split
        rename_i s2 o h2
        have g2 : Fc11G P s s2 := by
          have := recvOn_fc L s1 conn pk false w1 (fun _ => hst.1) (fun j hj => by
            have hj' : assocGet s.connOf conn = some j := hj
            rw [hc] at hj'
            cases hj'
            exact (show fc11OnConn s conn _ from hg).get i hc)
          rw [h2] at this
          exact g1.trans this
        have w2 : WF s2 := by
          have := recvOn_wf s1 conn pk false w1
          rw [h2] at this; exact this
        split
        rename_i s3 o2 h3
        show Fc11Inv P s3
        split at h3
        · cases h3; exact h.of_fc g2
        · have := detach_fc L s2 i true w2
          rw [h3] at this
          exact h.of_fc (g2.trans this)
  | dropHold conn =>
    rw [step]
    split
    · exact h
    · rename_i i _
      split
      · exact h
      · extract_lets +onlyGivenNames s1
        have g1 : Fc11G P s s1 := (Fc11G.refl s).mod i _ (L.ext _ _ rfl rfl rfl rfl rfl)
        split
        rename_i s2 o h2
        have := detachA_fc L s1 i true
        rw [h2] at this
        exact h.of_fc ((g1.trans this).upd rfl rfl)
  | release conn =>
    rw [step]
    have hg' : (match s.pending.find? (·.conn == conn) with
      | some p => fc11PendOK P { s with pending := s.pending.filter (·.conn != conn) } p
      | none => True) := hg
    clear hg
    split
    · rename_i p hp
      rw [hp] at hg'
      have hg : fc11PendOK P { s with pending := s.pending.filter (·.conn != conn) } p := hg'
      have hmem : p ∈ s.pending := List.mem_of_find?_eq_some hp
      have hv := hwf.pending_valid p hmem
      have w0 : WF { s with pending := s.pending.filter (·.conn != conn) } := hwf.filterPending _
      split
      rename_i s1 o h1
      have w1 : WF s1 := by
        have := (connectRelease_wf _ p w0 hv.1 hv.2).1
        rw [h1] at this; exact this
      have i1 : Fc11Inv P s1 := by
        have := connectRelease_fc_inv L _ p hg (fun j r => h j r)
        rw [h1] at this; exact this
      exact fc11_barrier L conn _ w1 i1
    · split
      · exact h
      · rename_i i _
        split
        · have w0 : WF { s with parked := s.parked.filter (· != i) } := hwf.upd rfl rfl rfl rfl
          exact Fc11Inv.of_fc (s := { s with parked := s.parked.filter (· != i) }) (fun j r => h j r)
            (detachB_fc L _ i w0)
        · split
          · split
            rename_i s1 o h1
            have w0 : WF { s with parkedEarly := s.parkedEarly.filter (· != i) } := hwf.upd rfl rfl rfl rfl
            have := detach_fc L { s with parkedEarly := s.parkedEarly.filter (· != i) } i true w0
            rw [h1] at this
            exact Fc11Inv.of_fc (s := { s with parkedEarly := s.parkedEarly.filter (· != i) }) (fun j r => h j r) this
          · exact h
  | dropHoldEarly conn =>
    rw [step]
    split
    · exact h
    · rename_i i _
      split
      · exact h
      · have g0 : Fc11G P s { s with parkedEarly := s.parkedEarly ++ [i] } := (Fc11G.refl s).upd rfl rfl
        exact h.of_fc (g0.mod i (fun c => { c with peerGone := true }) (L.ext _ _ rfl rfl rfl rfl rfl))
  | connectHold conn k stage =>
    rw [step]
    exact connectHold_fc_inv L s conn k stage hwf hg h
  | tick kind t =>
    rw [step]
    split
    · exact h.of_fc (tickClients_fc L s t hwf)
    · split
      · exact h.of_fc (tickRetained_fc s t)
      · split
        · rename_i hk
          have hk' : kind = "inflight" := by simpa using hk
          exact h.of_fc ⟨(tickInflight_good s t).clients,
            fun k r x => by
              obtain ⟨id, hm⟩ := r.of_sublist (tickInflight_good s t).clients
              exact hg hk' (id, k) hm x⟩
        · split
          · exact h.of_fc (tickWills_fc L s t hst.2)
          · exact h
  | inlinePublish topic payload retain qos =>
    rw [step]
    exact h.of_fc (receivePacket_fc L s 0 _ hwf.allWF (fun _ => hst.1) hg)
  | inlineSubscribe id filter =>
    rw [step]
    split
    · exact h
    · exact h.of_fc ((Fc11G.refl s).upd rfl rfl)
  | inlineUnsubscribe id filter =>
    rw [step]
    split
    · exact h
    · exact h.of_fc ((Fc11G.refl s).upd rfl rfl)

/-- every op of the history satisfies the side conditions in the state it is applied to -/
def fc11OpsOK (P : Client → Prop) (s : Server) : List Op → Prop
  | [] => True
  | op :: ops => OpFresh s op ∧ Fc11Store s ∧ fc11OpOK P s op ∧ fc11OpsOK P (step s op).1 ops

instance fc11OpsOK_dec (P : Client → Prop) [DecidablePred P] (s : Server) (ops : List Op) :
    Decidable (fc11OpsOK P s ops) :=
  match ops with
  | [] => isTrue trivial
  | op :: ops =>
    if h1 : OpFresh s op ∧ Fc11Store s ∧ fc11OpOK P s op then
      match fc11OpsOK_dec P (step s op).1 ops with
      | isTrue g => isTrue ⟨h1.1, h1.2.1, h1.2.2, g⟩
      | isFalse g => isFalse (fun g' => g g'.2.2.2)
    else isFalse (fun g' => h1 ⟨g'.1, g'.2.1, g'.2.2.1⟩)

theorem fc11_run (L : Fc11Laws P) (s : Server) (ops : List Op) (hwf : WF s) (h : Fc11Inv P s)
    (hg : fc11OpsOK P s ops) : Fc11Inv P (run s ops) := by
  induction ops generalizing s with
  | nil => exact h
  | cons op ops ih =>
    show Fc11Inv P (run (step s op).1 ops)
    exact ih _ (WF_step s op hwf hg.1) (fc11_step L s op hwf hg.1 hg.2.1 hg.2.2.1 h) hg.2.2.2

theorem fc11_init (L : Fc11Laws P) (caps : Caps) : Fc11Inv P (init caps) := by
  intro k ⟨id, hm⟩
  have : (id, k) = (inlineID, 0) := List.mem_singleton.mp hm
  cases this
  exact L.fresh _ rfl rfl rfl

/-! ### client-level facts -/

theorem fc11_decSend_fields (c : Client) : (decSend c).inflight = c.inflight ∧ (decSend c).recvQuota = c.recvQuota ∧
    (decSend c).maxRecv = c.maxRecv ∧ (decSend c).maxSend = c.maxSend ∧ (decSend c).sendQuota = c.sendQuota - 1 := by
  unfold decSend
  split
  · exact ⟨rfl, rfl, rfl, rfl, rfl⟩
  · exact ⟨rfl, rfl, rfl, rfl, by omega⟩

theorem fc11_decRecv_fields (c : Client) : (decRecv c).inflight = c.inflight ∧ (decRecv c).sendQuota = c.sendQuota ∧
    (decRecv c).maxRecv = c.maxRecv ∧ (decRecv c).maxSend = c.maxSend ∧ (decRecv c).recvQuota = c.recvQuota - 1 := by
  unfold decRecv
  split
  · exact ⟨rfl, rfl, rfl, rfl, rfl⟩
  · exact ⟨rfl, rfl, rfl, rfl, by omega⟩

theorem fc11_incRecv_fields (c : Client) : (incRecv c).inflight = c.inflight ∧ (incRecv c).sendQuota = c.sendQuota ∧
    (incRecv c).maxRecv = c.maxRecv ∧ (incRecv c).maxSend = c.maxSend ∧
    (incRecv c).recvQuota = if c.recvQuota < c.maxRecv then c.recvQuota + 1 else c.recvQuota := by
  unfold incRecv
  split
  · exact ⟨rfl, rfl, rfl, rfl, rfl⟩
  · exact ⟨rfl, rfl, rfl, rfl, rfl⟩

theorem fc11_incSend_fields (c : Client) : (incSend c).inflight = c.inflight ∧ (incSend c).recvQuota = c.recvQuota ∧
    (incSend c).maxRecv = c.maxRecv ∧ (incSend c).maxSend = c.maxSend ∧
    (incSend c).sendQuota = if c.sendQuota < c.maxSend then c.sendQuota + 1 else c.sendQuota := by
  unfold incSend
  split
  · exact ⟨rfl, rfl, rfl, rfl, rfl⟩
  · exact ⟨rfl, rfl, rfl, rfl, rfl⟩

theorem fc11_flSet_fields (c : Client) (m : Msg) : (flSet c m).1.recvQuota = c.recvQuota ∧
    (flSet c m).1.sendQuota = c.sendQuota ∧ (flSet c m).1.maxRecv = c.maxRecv ∧ (flSet c m).1.maxSend = c.maxSend := by
  unfold flSet
  split <;> exact ⟨rfl, rfl, rfl, rfl⟩

theorem fc11_flGet_none {c : Client} {id : Nat} (h : flGet c id = none) : ∀ x ∈ c.inflight, (x.id == id) = false := by
  unfold flGet at h
  rw [List.find?_eq_none] at h
  intro x hx
  have := h x hx
  simpa using this

/-- replacing the record appended last (its id is used by no other record) -/
theorem fc11_flSet_last (c : Client) (L : List Msg) (a a' : Msg) (hc : c.inflight = L ++ [a])
    (hL : ∀ x ∈ L, (x.id == a.id) = false) (hid : a'.id = a.id) : (flSet c a').1.inflight = L ++ [a'] := by
  unfold flSet flGet
  have hsome : (c.inflight.find? (fun m => m.id == a'.id)).isSome = true := by
    rw [List.find?_isSome]
    exact ⟨a, by rw [hc]; simp, by rw [hid]; simp⟩
  rw [if_pos hsome]
  show c.inflight.map _ = _
  rw [hc, List.map_append]
  congr 1
  · conv => rhs; rw [← List.map_id L]
    apply List.map_congr_left
    intro x hx
    have := hL x hx
    rw [hid]
    simp [this]
  · simp [hid]

/-- deleting the record appended last (its id is used by no other record) -/
theorem fc11_flDelete_last (c : Client) (L : List Msg) (a : Msg) (hc : c.inflight = L ++ [a])
    (hL : ∀ x ∈ L, (x.id == a.id) = false) : (flDelete c a.id).1.inflight = L := by
  unfold flDelete
  show c.inflight.filter _ = _
  rw [hc, List.filter_append]
  have h1 : L.filter (fun m => m.id != a.id) = L := by
    rw [List.filter_eq_self]
    intro x hx
    have := hL x hx
    simp [bne, this]
  rw [h1]
  simp

theorem fc11_flDelete_fields (c : Client) (id : Nat) : (flDelete c id).1.recvQuota = c.recvQuota ∧
    (flDelete c id).1.sendQuota = c.sendQuota ∧ (flDelete c id).1.maxRecv = c.maxRecv ∧
    (flDelete c id).1.maxSend = c.maxSend := ⟨rfl, rfl, rfl, rfl⟩

/-- with one record per packet id, deleting the id of a member removes exactly that member from a count -/
theorem fc11_countP_delete (f : Msg → Bool) (L : List Msg) (m : Msg) (hn : (L.map (·.id)).Nodup) (hm : m ∈ L) :
    (L.filter (fun x => x.id != m.id)).countP f + (if f m then 1 else 0) = L.countP f := by
  induction L with
  | nil => cases hm
  | cons x xs ih =>
    rw [List.map_cons, List.nodup_cons] at hn
    rcases List.mem_cons.mp hm with rfl | hm'
    · have hx : xs.filter (fun y => y.id != m.id) = xs := by
        rw [List.filter_eq_self]
        intro y hy
        have : y.id ≠ m.id := fun e => hn.1 (List.mem_map.mpr ⟨y, hy, e⟩)
        simp [bne, this]
      simp only [List.filter_cons, bne_self_eq_false, Bool.false_eq_true, if_false, hx, List.countP_cons]
    · have hne : x.id ≠ m.id := fun e => hn.1 (List.mem_map.mpr ⟨m, hm', e.symm⟩)
      have hb : (x.id != m.id) = true := by simp [bne, hne]
      simp only [List.filter_cons, hb, if_true, List.countP_cons]
      have := ih hn.2 hm'
      omega

/-! ### the receive side -/

/-- `RecvAcc`, and no inbound record is marked deferred -/
def fc11RecvP (c : Client) : Prop := RecvAcc c ∧ ∀ m ∈ c.inflight, m.expiry < 0 → fc11Inb m = false

instance : DecidablePred fc11RecvP := fun c => by unfold fc11RecvP; infer_instance

theorem fc11_inb_append (L : List Msg) (a : Msg) :
    (L ++ [a]).countP fc11Inb = L.countP fc11Inb + (if fc11Inb a then 1 else 0) := by
  rw [List.countP_append]
  simp [List.countP_cons]

theorem fc11RecvP_laws : Fc11Laws fc11RecvP := by
  refine ⟨?_, ?_, ?_, ?_, ?_⟩
  · intro a b h1 h2 _ h4 _ ⟨hr, hd⟩
    refine ⟨?_, by rw [h1]; exact hd⟩
    unfold RecvAcc inboundOpen at *
    rw [h1, h2, h4]; exact hr
  · intro c out ht _ hfr ⟨hr, hd⟩
    have hno : fc11Inb out = false := by unfold fc11Inb; rw [ht]; rfl
    have hF := fc11_decSend_fields { c with inflight := c.inflight ++ [out] }
    refine ⟨fun _ => ⟨?_, ?_⟩, fun _ _ => ⟨?_, ?_⟩⟩
    · unfold RecvAcc inboundOpen at *
      rw [hF.1, hF.2.1, hF.2.2.1]
      show c.recvQuota + (c.inflight ++ [out]).countP fc11Inb = c.maxRecv
      rw [fc11_inb_append, hno]; simpa using hr
    · rw [hF.1]
      intro m hm hlt
      rcases List.mem_append.mp hm with hm | hm
      · exact hd m hm hlt
      · rw [List.mem_singleton.mp hm]; exact hno
    · have hl := fc11_flSet_last (decSend { c with inflight := c.inflight ++ [out] }) c.inflight out
        { out with expiry := -1 } hF.1 (fc11_flGet_none hfr) rfl
      have hq := fc11_flSet_fields (decSend { c with inflight := c.inflight ++ [out] }) { out with expiry := -1 }
      unfold RecvAcc inboundOpen at *
      rw [hl, hq.1, hq.2.2.1, hF.2.1, hF.2.2.1, fc11_inb_append]
      have : fc11Inb { out with expiry := -1 } = false := by unfold fc11Inb; show (out.type == 4 || out.type == 5) = false; rw [ht]; rfl
      rw [this]; simpa using hr
    · have hl := fc11_flSet_last (decSend { c with inflight := c.inflight ++ [out] }) c.inflight out
        { out with expiry := -1 } hF.1 (fc11_flGet_none hfr) rfl
      rw [hl]
      intro m hm hlt
      rcases List.mem_append.mp hm with hm | hm
      · exact hd m hm hlt
      · rw [List.mem_singleton.mp hm]
        unfold fc11Inb; show (out.type == 4 || out.type == 5) = false; rw [ht]; rfl
  · intro c h1 h2 _
    refine ⟨?_, by rw [h1]; intro m hm; cases hm⟩
    unfold RecvAcc inboundOpen
    rw [h1]; simpa using h2
  · intro c hw ⟨hr, hd⟩ m hm hlt _
    have hF := fc11_decSend_fields (flDelete c m.id).1
    have hcnt := fc11_countP_delete fc11Inb c.inflight m hw.ids_nodup hm
    rw [hd m hm hlt] at hcnt
    refine ⟨?_, ?_⟩
    · unfold RecvAcc inboundOpen at *
      rw [hF.1, hF.2.1, hF.2.2.1]
      show c.recvQuota + (c.inflight.filter (fun x => x.id != m.id)).countP fc11Inb = c.maxRecv
      simp at hcnt
      omega
    · rw [hF.1]
      intro x hx hxl
      exact hd x (List.mem_filter.mp hx).1 hxl
  · intro c a hta hea hfr hrq ⟨hr, hd⟩
    have hin : fc11Inb a = true := by
      unfold fc11Inb
      rcases hta with h | h <;> rw [h] <;> rfl
    have hD := fc11_decRecv_fields c
    have hfr' : flGet (decRecv c) a.id = none := by rw [fc11_flGet_congr hD.1]; exact hfr
    have hfl := fc11_flSet_fresh (decRecv c) a hfr'
    have hinf : (flSet (decRecv c) a).1.inflight = c.inflight ++ [a] := by rw [hfl, ← hD.1]
    have hq := fc11_flSet_fields (decRecv c) a
    refine ⟨⟨?_, ?_⟩, fun _ => ⟨?_, ?_⟩⟩
    · unfold RecvAcc inboundOpen at *
      rw [hinf, hq.1, hq.2.2.1, hD.2.2.2.2, hD.2.2.1, fc11_inb_append, hin]
      simp; omega
    · rw [hinf]
      intro m hm hlt
      rcases List.mem_append.mp hm with hm | hm
      · exact hd m hm hlt
      · rw [List.mem_singleton.mp hm] at hlt; omega
    · have hdl := fc11_flDelete_last (flSet (decRecv c) a).1 c.inflight a hinf (fc11_flGet_none hfr)
      have hI := fc11_incRecv_fields (flDelete (flSet (decRecv c) a).1 a.id).1
      have hY1 : (flDelete (flSet (decRecv c) a).1 a.id).1.recvQuota = c.recvQuota - 1 := by
        show (flSet (decRecv c) a).1.recvQuota = _
        rw [hq.1, hD.2.2.2.2]
      have hY2 : (flDelete (flSet (decRecv c) a).1 a.id).1.maxRecv = c.maxRecv := by
        show (flSet (decRecv c) a).1.maxRecv = _
        rw [hq.2.2.1, hD.2.2.1]
      unfold RecvAcc inboundOpen at *
      rw [hI.1, hdl, hI.2.2.1, hI.2.2.2.2, hY1, hY2]
      split <;> omega
    · have hdl := fc11_flDelete_last (flSet (decRecv c) a).1 c.inflight a hinf (fc11_flGet_none hfr)
      have hI := fc11_incRecv_fields (flDelete (flSet (decRecv c) a).1 a.id).1
      rw [hI.1, hdl]; exact hd

/-! ### the send side -/

/-- `SendAcc`, and while send quota is left no record is deferred (so `nextImmediate` never releases — F09: a release
    deletes the record of a message that has just been sent) -/
def fc11SendP (c : Client) : Prop :=
  SendAcc c ∧ (0 < c.maxSend → 0 < c.sendQuota → ∀ m ∈ c.inflight, 0 ≤ m.expiry)

instance : DecidablePred fc11SendP := fun c => by unfold fc11SendP; infer_instance

theorem fc11_out_append (L : List Msg) (a : Msg) :
    (L ++ [a]).countP fc11Out = L.countP fc11Out + (if fc11Out a then 1 else 0) := by
  rw [List.countP_append]
  simp [List.countP_cons]

theorem fc11SendP_laws : Fc11Laws fc11SendP := by
  refine ⟨?_, ?_, ?_, ?_, ?_⟩
  · intro a b h1 _ h3 _ h5 ⟨hr, hd⟩
    refine ⟨?_, by rw [h1, h3, h5]; exact hd⟩
    unfold SendAcc outboundOpen at *
    rw [h1, h3, h5]; exact hr
  · intro c out ht he hfr ⟨hr, hd⟩
    have hF := fc11_decSend_fields { c with inflight := c.inflight ++ [out] }
    refine ⟨fun hnd => ⟨?_, ?_⟩, fun h0 hm => ⟨?_, ?_⟩⟩
    · have hyes : fc11Out out = true := by
        unfold fc11Out; rw [ht]; simpa using he
      unfold SendAcc outboundOpen at *
      rw [hF.1, hF.2.2.2.1, hF.2.2.2.2]
      intro hm
      have hm' : 0 < c.maxSend := hm
      show c.sendQuota - 1 + (c.inflight ++ [out]).countP fc11Out = c.maxSend
      rw [fc11_out_append, hyes]
      have := hr hm'
      have hq : c.sendQuota ≠ 0 := fun e => hnd ⟨e, hm'⟩
      simp only [if_true]
      omega
    · rw [hF.1, hF.2.2.2.1, hF.2.2.2.2]
      intro hm hq m hmem
      have hm' : 0 < c.maxSend := hm
      have hq' : 0 < c.sendQuota := by
        have : 0 < c.sendQuota - 1 := hq
        omega
      rcases List.mem_append.mp hmem with hmem | hmem
      · exact hd hm' hq' m hmem
      · rw [List.mem_singleton.mp hmem]; exact he
    · have hl := fc11_flSet_last (decSend { c with inflight := c.inflight ++ [out] }) c.inflight out
        { out with expiry := -1 } hF.1 (fc11_flGet_none hfr) rfl
      have hq := fc11_flSet_fields (decSend { c with inflight := c.inflight ++ [out] }) { out with expiry := -1 }
      have hno : fc11Out { out with expiry := -1 } = false := by
        unfold fc11Out
        simp
      unfold SendAcc outboundOpen at *
      rw [hl, hq.2.1, hq.2.2.2, hF.2.2.2.1, hF.2.2.2.2, fc11_out_append, hno]
      intro hm'
      have := hr hm'
      show c.sendQuota - 1 + _ = c.maxSend
      simp only [Bool.false_eq_true, if_false]
      omega
    · have hq := fc11_flSet_fields (decSend { c with inflight := c.inflight ++ [out] }) { out with expiry := -1 }
      rw [hq.2.1, hF.2.2.2.2]
      intro _ hpos
      have : 0 < c.sendQuota - 1 := hpos
      omega
  · intro c h1 _ h3
    refine ⟨?_, by rw [h1]; intro _ _ m hm; cases hm⟩
    unfold SendAcc outboundOpen
    rw [h1]; intro _; simpa using h3
  · intro c _ ⟨_, hd⟩ m hm hlt hq
    have hF := fc11_decSend_fields (flDelete c m.id).1
    have hms : (decSend (flDelete c m.id).1).maxSend = c.maxSend := hF.2.2.2.1
    have hzero : ¬ 0 < c.maxSend := by
      intro hpos
      have := hd hpos hq m hm
      omega
    refine ⟨?_, ?_⟩
    · unfold SendAcc
      rw [hms]; intro h; exact absurd h hzero
    · rw [hms]; intro h; exact absurd h hzero
  · intro c a hta hea hfr _ ⟨hr, hd⟩
    have hno : fc11Out a = false := by
      unfold fc11Out
      rcases hta with h | h <;> rw [h] <;> rfl
    have hD := fc11_decRecv_fields c
    have hfr' : flGet (decRecv c) a.id = none := by rw [fc11_flGet_congr hD.1]; exact hfr
    have hfl := fc11_flSet_fresh (decRecv c) a hfr'
    have hinf : (flSet (decRecv c) a).1.inflight = c.inflight ++ [a] := by rw [hfl, ← hD.1]
    have hq := fc11_flSet_fields (decRecv c) a
    refine ⟨⟨?_, ?_⟩, fun _ => ⟨?_, ?_⟩⟩
    · unfold SendAcc outboundOpen at *
      rw [hinf, hq.2.1, hq.2.2.2, hD.2.1, hD.2.2.2.1, fc11_out_append, hno]
      simpa using hr
    · rw [hinf, hq.2.1, hq.2.2.2, hD.2.1, hD.2.2.2.1]
      intro hm hq' m hmem
      rcases List.mem_append.mp hmem with hmem | hmem
      · exact hd hm hq' m hmem
      · rw [List.mem_singleton.mp hmem]; exact hea
    · have hdl := fc11_flDelete_last (flSet (decRecv c) a).1 c.inflight a hinf (fc11_flGet_none hfr)
      have hI := fc11_incRecv_fields (flDelete (flSet (decRecv c) a).1 a.id).1
      have hY1 : (flDelete (flSet (decRecv c) a).1 a.id).1.sendQuota = c.sendQuota := by
        show (flSet (decRecv c) a).1.sendQuota = _
        rw [hq.2.1, hD.2.1]
      have hY2 : (flDelete (flSet (decRecv c) a).1 a.id).1.maxSend = c.maxSend := by
        show (flSet (decRecv c) a).1.maxSend = _
        rw [hq.2.2.2, hD.2.2.2.1]
      unfold SendAcc outboundOpen at *
      rw [hI.1, hdl, hI.2.1, hI.2.2.2.1, hY1, hY2]
      exact hr
    · have hdl := fc11_flDelete_last (flSet (decRecv c) a).1 c.inflight a hinf (fc11_flGet_none hfr)
      have hI := fc11_incRecv_fields (flDelete (flSet (decRecv c) a).1 a.id).1
      have hY1 : (flDelete (flSet (decRecv c) a).1 a.id).1.sendQuota = c.sendQuota := by
        show (flSet (decRecv c) a).1.sendQuota = _
        rw [hq.2.1, hD.2.1]
      have hY2 : (flDelete (flSet (decRecv c) a).1 a.id).1.maxSend = c.maxSend := by
        show (flSet (decRecv c) a).1.maxSend = _
        rw [hq.2.2.2, hD.2.2.2.1]
      rw [hI.1, hdl, hI.2.1, hI.2.2.2.1, hY1, hY2]
      exact hd

/-! ### a delivery at send quota 0 writes nothing -/

theorem fc11_core_defers (s : Server) (i : Nat) (sub : Sub) (f : Bool) (pk : Msg)
    (hq : (getObj s i).sendQuota = 0) (hm : 0 < (getObj s i).maxSend) (hqos : shapeQos s.caps sub pk.qos > 0) :
    ∀ conn w, Out.wrote conn w ∉ (publishToClientCore s i sub f pk).2 := by
  intro conn w
  unfold publishToClientCore
  extract_lets c out
  have hoq : out.qos > 0 := hqos
  split
  rename_i c1 out1 heq
  have hc1 : c1.sendQuota = c.sendQuota ∧ c1.maxSend = c.maxSend ∧ out1.qos = out.qos := by
    split at heq
    · split at heq
      rename_i c' a ex h2
      have h4 : c'.sendQuota = c.sendQuota ∧ c'.maxSend = c.maxSend := by
        have : (aliasOutSet c pk.topic).1 = c' := by rw [h2]
        rw [← this]
        unfold aliasOutSet
        split
        · exact ⟨rfl, rfl⟩
        · split
          · exact ⟨rfl, rfl⟩
          · split <;> exact ⟨rfl, rfl⟩
      split at heq <;> (cases heq; exact ⟨h4.1, h4.2, rfl⟩)
    · cases heq; exact ⟨rfl, rfl, rfl⟩
  clear heq
  extract_lets s1
  split
  · split
    · intro h; cases h
    · split
      · intro h
        rcases List.mem_singleton.mp h with h
        cases h
      · extract_lets c2 out2 sentQuota
        split
        rename_i c3 isNew hfl
        extract_lets c4 s2 src s3
        have hc3 : c3.maxSend = c1.maxSend := by
          have := (fc11_flSet_fields c2 out2).2.2.2
          rw [hfl] at this
          exact this
        have hc4 : c4.maxSend = c1.maxSend := by
          show (if isNew = true then decSend c3 else c3).maxSend = _
          split
          · rw [fc11_decSend_maxSend]; exact hc3
          · exact hc3
        have hdef : (sentQuota == 0 && decide (c4.maxSend > 0)) = true := by
          have h1 : sentQuota = 0 := hc1.1.trans hq
          have h2 : c4.maxSend > 0 := by rw [hc4, hc1.2.1]; exact hm
          simp [h1, h2]
        rw [if_pos hdef]
        intro h; cases h
  · rename_i hn
    exact absurd (by rw [hc1.2.2]; exact hoq) hn

end Mochi.Broker
