import Mochi.Lemmas.Scan
/-! `PrefixClosed` is an invariant of every index operation. -/
namespace Mochi.Topics

theorem hasNode_iff (ns : List Node) (p : Path) : hasNode ns p = true ↔ ∃ n ∈ ns, n.path = p := by
  simp [hasNode]

theorem hasNode_putNode (ns : List Node) (n : Node) (p : Path) :
    hasNode (putNode ns n) p = hasNode ns p := by
  unfold hasNode putNode
  induction ns with
  | nil => simp
  | cons m rest ih =>
    simp only [List.map_cons, List.any_cons, ih]
    by_cases h : (m.path == n.path) = true
    · simp only [h, if_true]
      have : m.path = n.path := by simpa using h
      rw [this]
    · simp [h]

theorem mem_prefixes (p q : Path) : q ∈ prefixes p ↔ ∃ k, 0 < k ∧ k ≤ p.length ∧ q = p.take k := by
  induction p generalizing q with
  | nil => simp [prefixes]; intro x h1 h2; omega
  | cons l rest ih =>
    simp only [prefixes, List.mem_cons, List.mem_map, ih]
    constructor
    · rintro (h | ⟨a, ⟨k, hk1, hk2, rfl⟩, rfl⟩)
      · exact ⟨1, by omega, by simp, by simp [h]⟩
      · exact ⟨k + 1, by omega, by simp; omega, by simp⟩
    · rintro ⟨k, hk1, hk2, rfl⟩
      cases k with
      | zero => omega
      | succ k =>
        cases k with
        | zero => left; simp
        | succ k => right; exact ⟨rest.take (k + 1), ⟨k + 1, by omega, by simp at hk2; omega, rfl⟩, by simp⟩

theorem hasNode_append (ns ms : List Node) (p : Path) :
    hasNode (ns ++ ms) p = (hasNode ns p || hasNode ms p) := by
  simp [hasNode]

theorem hasNode_foldl_set (qs : List Path) (ns : List Node) (p : Path) :
    hasNode (qs.foldl (fun acc q => if hasNode acc q then acc else acc ++ [{ path := q }]) ns) p = true ↔
      hasNode ns p = true ∨ p ∈ qs := by
  induction qs generalizing ns with
  | nil => simp
  | cons q rest ih =>
    simp only [List.foldl_cons, ih, List.mem_cons]
    by_cases h : hasNode ns q = true
    · simp only [h, if_true]
      constructor
      · rintro (h1 | h1)
        · exact Or.inl h1
        · exact Or.inr (Or.inr h1)
      · rintro (h1 | h1 | h1)
        · exact Or.inl h1
        · subst h1; exact Or.inl h
        · exact Or.inr h1
    · have h' : hasNode ns q = false := by simpa using h
      rw [h']
      simp only [Bool.false_eq_true, if_false, hasNode_append, Bool.or_eq_true]
      have hq : hasNode [({ path := q } : Node)] p = true ↔ p = q := by
        simp [hasNode]; exact eq_comm
      rw [hq]
      constructor
      · rintro ((h1 | h1) | h1)
        · exact Or.inl h1
        · exact Or.inr (Or.inl h1)
        · exact Or.inr (Or.inr h1)
      · rintro (h1 | h1 | h1)
        · exact Or.inl (Or.inl h1)
        · exact Or.inl (Or.inr h1)
        · exact Or.inr h1

theorem hasNode_setPath (ns : List Node) (p q : Path) :
    hasNode (setPath ns p) q = true ↔ hasNode ns q = true ∨ q ∈ prefixes p := by
  unfold setPath; exact hasNode_foldl_set _ _ _

theorem prefixClosed_setPath (ns : List Node) (h : PrefixClosed ns) (p : Path) :
    PrefixClosed (setPath ns p) := by
  intro q hq k hk1 hk2
  rw [hasNode_setPath] at hq ⊢
  rcases hq with hq | hq
  · exact Or.inl (h q hq k hk1 hk2)
  · right
    rw [mem_prefixes] at hq ⊢
    obtain ⟨j, hj1, hj2, rfl⟩ := hq
    refine ⟨k, hk1, ?_, ?_⟩
    · simp at hk2; omega
    · rw [List.take_take]; congr 1; simp at hk2; omega

theorem prefixClosed_putNode (ns : List Node) (h : PrefixClosed ns) (n : Node) :
    PrefixClosed (putNode ns n) := by
  intro q hq k hk1 hk2
  rw [hasNode_putNode] at hq ⊢
  exact h q hq k hk1 hk2

theorem hasNode_filter_ne (ns : List Node) (p q : Path) :
    hasNode (ns.filter (fun m => m.path != p)) q = true ↔ hasNode ns q = true ∧ q ≠ p := by
  simp only [hasNode_iff, List.mem_filter]
  constructor
  · rintro ⟨n, ⟨hn, hne⟩, rfl⟩
    exact ⟨⟨n, hn, rfl⟩, by simpa using hne⟩
  · rintro ⟨⟨n, hn, rfl⟩, hne⟩
    exact ⟨n, ⟨hn, by simpa using hne⟩, rfl⟩

/-- a particle without children can be removed without breaking prefix-closure -/
theorem prefixClosed_remove (ns : List Node) (h : PrefixClosed ns) (p : Path)
    (hc : childCount ns p = 0) : PrefixClosed (ns.filter (fun m => m.path != p)) := by
  intro q hq k hk1 hk2
  rw [hasNode_filter_ne] at hq ⊢
  obtain ⟨hq, hne⟩ := hq
  refine ⟨h q hq k hk1 hk2, ?_⟩
  intro heq
  -- q.take k = p, q ≠ p, so p is a proper prefix of q; then q.take (p.length+1) is a child of p
  have hklt : k < q.length := by
    rcases Nat.lt_or_ge k q.length with h1 | h1
    · exact h1
    · exfalso; apply hne; rw [← heq, List.take_of_length_le h1]
  have hplen : p.length = k := by rw [← heq]; simp; omega
  have hchild := h q hq (k + 1) (by omega) (by omega)
  rw [hasNode_iff] at hchild
  obtain ⟨c, hcm, hcp⟩ := hchild
  unfold childCount at hc
  have : c ∈ ns.filter (fun n => n.path.length == p.length + 1 && n.path.dropLast == p) := by
    rw [List.mem_filter]
    refine ⟨hcm, ?_⟩
    rw [hcp]
    simp only [Bool.and_eq_true, beq_iff_eq]
    constructor
    · simp; omega
    · rw [List.dropLast_eq_take]; simp [List.take_take]
      rw [← heq]; congr 1; omega
  rw [List.length_eq_zero_iff] at hc
  rw [hc] at this
  simp at this

theorem prefixClosed_trim (ns : List Node) (h : PrefixClosed ns) (p : Path) (fuel : Nat) :
    PrefixClosed (trim ns p fuel) := by
  induction fuel generalizing ns p with
  | zero => unfold trim; exact h
  | succ fuel ih =>
    unfold trim
    split
    · exact h
    · split
      · exact h
      · rename_i n hn
        split
        · rename_i he
          apply ih
          apply prefixClosed_remove ns h p
          unfold nodeEmpty at he
          have hp : n.path = p := by
            unfold getNode at hn
            have := List.find?_some hn
            simpa using this
          simp only [Bool.and_eq_true, beq_iff_eq] at he
          rw [hp] at he
          omega
        · exact h

theorem getNode_filter_ne (ns : List Node) (p q : Path) (hne : q ≠ p) :
    getNode (ns.filter (fun m => m.path != p)) q = getNode ns q := by
  unfold getNode
  induction ns with
  | nil => simp
  | cons m rest ih =>
    by_cases hm : m.path = p
    · have : (m.path != p) = false := by simp [hm]
      simp only [List.filter_cons, this, Bool.false_eq_true, if_false]
      rw [ih]
      have : (m.path == q) = false := by rw [hm]; simp; exact fun h => hne h.symm
      simp [List.find?_cons, this]
    · have : (m.path != p) = true := by simp [hm]
      simp only [List.filter_cons, this, if_true, List.find?_cons]
      split
      · rfl
      · exact ih

/-- what makes a particle non-removable -/
def live (n : Node) : Prop :=
  n.retainPath ≠ [] ∨ n.subs ≠ [] ∨ sharedLen n.shared ≠ 0 ∨ n.inline ≠ []

/-- `trim` never removes a particle that still holds a subscription, a shared or inline
    subscription, or a retained path (C31: removing empty index nodes never drops a live subscription
    or retained message). -/
theorem trim_keeps (ns : List Node) (p : Path) (fuel : Nat) (q : Path) (n : Node)
    (hn : getNode ns q = some n) (hlive : live n) : getNode (trim ns p fuel) q = some n := by
  induction fuel generalizing ns p with
  | zero => unfold trim; exact hn
  | succ fuel ih =>
    unfold trim
    split
    · exact hn
    · split
      · exact hn
      · rename_i m hm
        split
        · rename_i he
          apply ih
          by_cases hqp : q = p
          · exfalso
            subst hqp
            rw [hn] at hm
            injection hm with hm
            subst hm
            unfold nodeEmpty at he
            simp only [Bool.and_eq_true, beq_iff_eq, List.isEmpty_iff] at he
            obtain ⟨h1, h2⟩ := he
            rcases hlive with h | h | h | h
            · exact h h1
            · apply h; apply List.eq_nil_of_length_eq_zero; omega
            · apply h; omega
            · apply h; apply List.eq_nil_of_length_eq_zero; omega
          · rw [getNode_filter_ne _ _ _ hqp]; exact hn
        · exact hn

end Mochi.Topics

namespace Mochi.Topics

/-- the mutating operations of the topic index -/
inductive IOp where
  | subscribe (client : Str) (s : Sub)
  | unsubscribe (filter client : Str)
  | inlineSubscribe (id : Nat) (s : Sub)
  | inlineUnsubscribe (id : Nat) (filter : Str)
  | retain (topic payload : Str) (flag : Bool)

def applyOp (x : Index) : IOp → Index
  | .subscribe c s => (subscribe x c s).1
  | .unsubscribe f c => (unsubscribe x f c).1
  | .inlineSubscribe id s => (inlineSubscribe x id s).1
  | .inlineUnsubscribe id f => (inlineUnsubscribe x id f).1
  | .retain t p fl => (retainMessage x t p fl).1

/-- the index reached from the empty index by a history of operations -/
def runOps (ops : List IOp) : Index := ops.foldl applyOp {}

theorem prefixClosed_applyOp (x : Index) (h : PrefixClosed x.nodes) (op : IOp) :
    PrefixClosed (applyOp x op).nodes := by
  cases op with
  | subscribe c s =>
    simp only [applyOp, subscribe]
    split
    · split
      · exact h
      · exact prefixClosed_putNode _ (prefixClosed_setPath _ h _) _
    · split
      · exact h
      · exact prefixClosed_putNode _ (prefixClosed_setPath _ h _) _
  | unsubscribe f c =>
    simp only [applyOp, unsubscribe]
    split
    · exact h
    · split
      · exact h
      · split
        · exact prefixClosed_trim _ (prefixClosed_putNode _ h _) _ _
        · exact prefixClosed_trim _ (prefixClosed_putNode _ h _) _ _
  | inlineSubscribe id s =>
    simp only [applyOp, inlineSubscribe]
    split
    · exact h
    · exact prefixClosed_putNode _ (prefixClosed_setPath _ h _) _
  | inlineUnsubscribe id f =>
    simp only [applyOp, inlineUnsubscribe]
    split
    · exact h
    · simp only
      split
      · exact prefixClosed_trim _ (prefixClosed_putNode _ h _) _ _
      · exact prefixClosed_putNode _ h _
  | retain t p fl =>
    simp only [applyOp, retainMessage]
    split
    · exact h
    · split
      · exact prefixClosed_putNode _ (prefixClosed_setPath _ h _) _
      · exact prefixClosed_trim _ (prefixClosed_putNode _ (prefixClosed_setPath _ h _) _) _ _

theorem prefixClosed_foldl (ops : List IOp) (x : Index) (h : PrefixClosed x.nodes) :
    PrefixClosed (ops.foldl applyOp x).nodes := by
  induction ops generalizing x with
  | nil => exact h
  | cons op rest ih => exact ih _ (prefixClosed_applyOp x h op)

theorem prefixClosed_runOps (ops : List IOp) : PrefixClosed (runOps ops).nodes := by
  apply prefixClosed_foldl
  intro p hp
  simp [hasNode] at hp

end Mochi.Topics
