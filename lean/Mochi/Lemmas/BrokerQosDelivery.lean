import Mochi.Lemmas.BrokerDelivery
import Mochi.Lemmas.BrokerPublishOp
import Mochi.Lemmas.BrokerInbound
import Mochi.Lemmas.BrokerQuota
import Mochi.Props.C08
/-!
# Deliveries of QoS > 0: shape, packet identifier, storage, deferral (C03 / C04 / C10 / C11)

`publishToClientCore s i sub false pk` for a live network client without outbound aliases and a message that is
QoS > 0 after shaping is classified completely by a computable `verdict` on the state before the call:
in-flight limit reached / packet identifiers exhausted / send quota exhausted (stored, deferred) / sent.
The loop of `publishToSubscribers` is then characterised entry by entry for a publication of ANY QoS.
All declarations live in `Mochi.Broker.Q1`; the property theorems are in `Props/C03.lean`, `C04.lean`, `C10.lean`.
-/
namespace Mochi.Broker.Q1
open Mochi.Topics Mochi.Broker

/-! ### the four outcomes of one delivery of QoS > 0 -/

inductive Verdict where
  /-- (a) `len(inflight) ≥ MaximumInflight` -/
  | limit
  /-- (b) `NextPacketID` failed -/
  | exhausted
  /-- (c) no send quota: stored under `pid`, marked deferred (`expiry = -1`) -/
  | deferred (pid : Nat)
  /-- (d) stored under `pid` and written -/
  | sent (pid : Nat)
deriving Repr, DecidableEq

/-- the outcome of a delivery of QoS > 0 to client object `i`, read off the state before the delivery -/
def verdict (s : Server) (i : Nat) : Verdict :=
  if (getObj s i).inflight.length ≥ s.caps.maximumInflight then .limit else
  match nextPacketID (getObj s i) s.caps.maximumPacketID with
  | none => .exhausted
  | some pid => if (getObj s i).sendQuota = 0 ∧ (getObj s i).maxSend > 0 then .deferred pid else .sent pid

/-- the outgoing copy of `pk` for the subscription `sub` of client object `i`, under packet identifier `pid`
    (no outbound alias) -/
def copyOf (s : Server) (i : Nat) (sub : Sub) (pk : Msg) (pid : Nat) : Msg :=
  { shapeOut s.caps (getObj s i).ver sub false pk with id := pid }

/-- the state after the counter of dropped in-flight messages was bumped: cases (a) and (b) -/
def droppedState (s : Server) : Server :=
  { s with info := { s.info with inflightDropped := s.info.inflightDropped + 1 } }

/-- the state after the record `m` was appended to the in-flight list of object `i` under the fresh identifier
    `m.id`, `dq` taken from the send quota: cases (c) (`dq = 0`) and (d) (`dq = 1`) -/
def storedState (s : Server) (i : Nat) (m : Msg) (dq : Nat) : Server :=
  { setObj s i { getObj s i with packetID := m.id, inflight := (getObj s i).inflight ++ [m],
                                 sendQuota := (getObj s i).sendQuota - dq } with
    info := { s.info with inflight := s.info.inflight + 1 } }

theorem decSend_eq (c : Client) : decSend c = { c with sendQuota := c.sendQuota - 1 } := by
  unfold decSend
  by_cases h : c.sendQuota > 0
  · rw [if_pos h]
  · rw [if_neg h]
    have : c.sendQuota - 1 = c.sendQuota := by omega
    rw [this]

theorem map_replace_fresh (l : List Msg) (r : Nat) (m : Msg) (h : l.find? (fun x => x.id == r) = none) :
    l.map (fun x => if (x.id == r) = true then m else x) = l := by
  induction l with
  | nil => rfl
  | cons a as ih =>
    rw [List.find?_cons] at h
    cases ha : (a.id == r) with
    | true => rw [ha] at h; cases h
    | false =>
      rw [ha] at h
      rw [List.map_cons, ih h, ha]
      rfl

theorem find_append_last (l : List Msg) (m : Msg) (h : l.find? (fun x => x.id == m.id) = none) :
    ((l ++ [m]).find? (fun x => x.id == m.id)).isSome = true := by
  rw [List.find?_append, h]
  simp

/-- the part of `publishToClientCore` after a packet identifier was obtained: file the record, take send quota,
    then defer or write -/
def tail (s : Server) (i : Nat) (c : Client) (out : Msg) : Server × List Out :=
  let sentQuota := c.sendQuota
  let (c, isNew) := flSet c out
  let c := if isNew then decSend c else c
  let s := setObj s i c
  let s := if isNew then { s with info := { s.info with inflight := s.info.inflight + 1 } } else s
  if sentQuota == 0 && c.maxSend > 0 then
    let out := { out with expiry := -1 }
    (setObj s i (flSet c out).1, [])
  else if !c.isOpen then (s, [])
  else (s, writeMsg s i out)

/-- the prefix of `publishToClientCore` without an outbound alias: the object is written back unchanged -/
theorem core_unfold (s : Server) (i : Nat) (sub : Sub) (f : Bool) (pk : Msg) (htam : (getObj s i).tam = 0) :
    publishToClientCore s i sub f pk =
      (if (shapeOut s.caps (getObj s i).ver sub f pk).qos > 0 then
         if (getObj s i).inflight.length ≥ s.caps.maximumInflight then (droppedState s, [])
         else
           match nextPacketID (getObj s i) s.caps.maximumPacketID with
           | none => (droppedState s, [.event s!"idexh({hexStr (getObj s i).id})"])
           | some pid =>
             tail s i { getObj s i with packetID := pid } { shapeOut s.caps (getObj s i).ver sub f pk with id := pid }
       else if !(getObj s i).isOpen then (s, [])
       else (s, writeMsg s i (shapeOut s.caps (getObj s i).ver sub f pk))) := by
  unfold publishToClientCore
  have h0 : ¬ (getObj s i).tam > 0 := by rw [htam]; exact Nat.lt_irrefl 0
  simp only [h0, if_false, setObj_getObj_self]
  rfl

/-- what a live network client is written for a PUBLISH -/
theorem writeMsg_live (s : Server) (i : Nat) (m : Msg) (hm : m.type = 3) (ho : (getObj s i).isOpen = true)
    (hin : (getObj s i).inline = false) (hp : (getObj s i).peerGone = false) :
    writeMsg s i m =
      [Out.wrote (getObj s i).conn (.publish (getObj s i).ver m (decide (m.expiry > 0) || decide (m.msgExpiry > 0)))] := by
  unfold writeMsg
  simp only [ho, hin, hp, hm, Bool.not_true, Bool.or_false, Bool.false_eq_true, if_false, BEq.rfl, if_true]

theorem setObj_setObj (s : Server) (i : Nat) (a b : Client) : setObj (setObj s i a) i b = setObj s i b := by
  unfold setObj
  simp only [List.set_set]

/-- (c): a fresh identifier, no send quota left under a Receive Maximum: stored, marked deferred, nothing written -/
theorem tail_deferred (s : Server) (i : Nat) (c : Client) (out : Msg) (hfr : flGet c out.id = none)
    (hq : c.sendQuota = 0) (hm : c.maxSend > 0) :
    tail s i c out =
      ({ setObj s i { c with inflight := c.inflight ++ [{ out with expiry := -1 }] } with
          info := { s.info with inflight := s.info.inflight + 1 } }, []) := by
  unfold tail
  rw [fc11_flSet_fresh c out hfr]
  simp only [if_true]
  have hd : decSend { c with inflight := c.inflight ++ [out] } = { c with inflight := c.inflight ++ [out] } := by
    unfold decSend
    rw [if_neg (by show ¬ c.sendQuota > 0; omega)]
  rw [hd]
  have hc : (c.sendQuota == 0 && decide (c.maxSend > 0)) = true := by simp [hq, hm]
  have hc' : (c.sendQuota == 0 && decide (({ c with inflight := c.inflight ++ [out] } : Client).maxSend > 0)) = true := hc
  rw [if_pos hc']
  have hf2 : (flSet { c with inflight := c.inflight ++ [out] } { out with expiry := -1 }).1 =
      { c with inflight := c.inflight ++ [{ out with expiry := -1 }] } := by
    unfold flSet flGet
    have h1 : ((c.inflight ++ [out]).find? (fun x => x.id == out.id)).isSome = true := find_append_last _ _ hfr
    have h1' : ((({ c with inflight := c.inflight ++ [out] } : Client).inflight.find?
        (fun m => m.id == ({ out with expiry := -1 } : Msg).id)).isSome) = true := h1
    rw [if_pos h1']
    show ({ c with inflight := (c.inflight ++ [out]).map (fun x => if (x.id == out.id) = true then { out with expiry := -1 } else x) } : Client) = _
    rw [List.map_append, map_replace_fresh _ _ _ hfr]
    simp
  rw [hf2]
  unfold setObj
  simp only [List.set_set]

/-- (d): a fresh identifier and send quota (or no Receive Maximum at all): stored, one unit of quota taken, written -/
theorem tail_sent (s : Server) (i : Nat) (c : Client) (out : Msg) (hfr : flGet c out.id = none)
    (hnd : ¬ (c.sendQuota = 0 ∧ c.maxSend > 0)) (ho : c.isOpen = true) :
    tail s i c out =
      ({ setObj s i { c with inflight := c.inflight ++ [out], sendQuota := c.sendQuota - 1 } with
          info := { s.info with inflight := s.info.inflight + 1 } },
       writeMsg { setObj s i { c with inflight := c.inflight ++ [out], sendQuota := c.sendQuota - 1 } with
          info := { s.info with inflight := s.info.inflight + 1 } } i out) := by
  unfold tail
  rw [fc11_flSet_fresh c out hfr]
  simp only [if_true]
  rw [decSend_eq]
  have hc : (c.sendQuota == 0 && decide (c.maxSend > 0)) = false := by
    by_cases h1 : c.sendQuota = 0
    · have : ¬ c.maxSend > 0 := fun h => hnd ⟨h1, h⟩
      simp [this]
    · simp [h1]
  have hc' : (c.sendQuota == 0 && decide (({ c with inflight := c.inflight ++ [out], sendQuota := c.sendQuota - 1 } : Client).maxSend > 0)) = false := hc
  have ho' : (!({ c with inflight := c.inflight ++ [out], sendQuota := c.sendQuota - 1 } : Client).isOpen) = false := by
    show (!c.isOpen) = false
    rw [ho]; rfl
  simp only [hc', ho', Bool.false_eq_true, if_false]
  rfl

theorem getObj_info (s : Server) (inf : Info) (k : Nat) : getObj { s with info := inf } k = getObj s k := rfl

/-- the hypotheses of the classification on the receiving client object `i`: it exists, is a live network client
    (open, not the inline client, its peer not gone) and has no outbound topic aliases -/
structure Live (s : Server) (i : Nat) : Prop where
  lt : i < s.objs.length
  isOpen : (getObj s i).isOpen = true
  notInline : (getObj s i).inline = false
  peer : (getObj s i).peerGone = false
  noAlias : (getObj s i).tam = 0

/-- state and outputs of a delivery of QoS > 0, by verdict -/
def coreResult (s : Server) (i : Nat) (sub : Sub) (pk : Msg) : Server × List Out :=
  match verdict s i with
  | .limit => (droppedState s, [])
  | .exhausted => (droppedState s, [.event s!"idexh({hexStr (getObj s i).id})"])
  | .deferred pid => (storedState s i { copyOf s i sub pk pid with expiry := -1 } 0, [])
  | .sent pid =>
    (storedState s i (copyOf s i sub pk pid) 1,
     [.wrote (getObj s i).conn (.publish (getObj s i).ver (copyOf s i sub pk pid)
        (decide ((copyOf s i sub pk pid).expiry > 0) || decide ((copyOf s i sub pk pid).msgExpiry > 0)))])

/-- **Item 1 — the complete classification**, as one equation: state and outputs of a delivery of QoS > 0 to a live
    network client without outbound aliases -/
theorem core_eq (s : Server) (i : Nat) (sub : Sub) (pk : Msg) (h : Live s i) (ht : pk.type = 3)
    (hq : shapeQos s.caps sub pk.qos > 0) :
    publishToClientCore s i sub false pk = coreResult s i sub pk := by
  rw [core_unfold s i sub false pk h.noAlias]
  have hq' : (shapeOut s.caps (getObj s i).ver sub false pk).qos > 0 := hq
  rw [if_pos hq']
  unfold coreResult verdict
  by_cases ha : (getObj s i).inflight.length ≥ s.caps.maximumInflight
  · rw [if_pos ha, if_pos ha]
  · rw [if_neg ha, if_neg ha]
    cases hn : nextPacketID (getObj s i) s.caps.maximumPacketID with
    | none => rfl
    | some pid =>
      have hfr : flGet (getObj s i) pid = none := nextPacketID_fresh _ _ _ hn
      show tail s i { getObj s i with packetID := pid } (copyOf s i sub pk pid) =
        match (if (getObj s i).sendQuota = 0 ∧ (getObj s i).maxSend > 0 then Verdict.deferred pid else Verdict.sent pid) with
        | .limit => (droppedState s, [])
        | .exhausted => (droppedState s, [.event s!"idexh({hexStr (getObj s i).id})"])
        | .deferred pid => (storedState s i { copyOf s i sub pk pid with expiry := -1 } 0, [])
        | .sent pid =>
          (storedState s i (copyOf s i sub pk pid) 1,
           [.wrote (getObj s i).conn (.publish (getObj s i).ver (copyOf s i sub pk pid)
              (decide ((copyOf s i sub pk pid).expiry > 0) || decide ((copyOf s i sub pk pid).msgExpiry > 0)))])
      by_cases hd : (getObj s i).sendQuota = 0 ∧ (getObj s i).maxSend > 0
      · rw [if_pos hd, tail_deferred s i { getObj s i with packetID := pid } (copyOf s i sub pk pid) hfr hd.1 hd.2]
        rfl
      · rw [if_neg hd, tail_sent s i { getObj s i with packetID := pid } (copyOf s i sub pk pid) hfr hd h.isOpen]
        have hg : getObj (storedState s i (copyOf s i sub pk pid) 1) i =
            { getObj s i with packetID := pid, inflight := (getObj s i).inflight ++ [copyOf s i sub pk pid],
                              sendQuota := (getObj s i).sendQuota - 1 } := by
          unfold storedState
          rw [getObj_info]
          exact getObj_setObj_eq s i _ h.lt
        have hw := writeMsg_live (storedState s i (copyOf s i sub pk pid) 1) i (copyOf s i sub pk pid) ht
          (by rw [hg]; exact h.isOpen) (by rw [hg]; exact h.notInline) (by rw [hg]; exact h.peer)
        rw [hg] at hw
        exact Prod.ext rfl hw

end Mochi.Broker.Q1
