import Mochi.Lemmas.BrokerDelivery
import Mochi.Lemmas.BrokerPublishOp
import Mochi.Lemmas.BrokerInbound
import Mochi.Lemmas.BrokerQuota
import Mochi.Props.C08
/-!
# Deliveries of QoS > 0: shape, packet identifier, storage, deferral (C03 / C04 / C10 / C11)

`publishToClientCore s i sub false pk` for a live network client without outbound aliases and a message that is
QoS > 0 after shaping is classified completely by a computable `verdict` on the state before the call:
in-flight limit reached / packet identifiers exhausted / send quota exhausted (stored, deferred) / sent.
The loop of `publishToSubscribers` is then characterised entry by entry for a publication of ANY QoS.
All declarations live in `Mochi.Broker.Q1`; the property theorems are in `Props/C03.lean`, `C04.lean`, `C10.lean`.
-/
namespace Mochi.Broker.Q1
open Mochi.Topics Mochi.Broker

/-! ### the four outcomes of one delivery of QoS > 0 -/

inductive Verdict where
  /-- (a) `len(inflight) ≥ MaximumInflight` -/
  | limit
  /-- (b) `NextPacketID` failed -/
  | exhausted
  /-- (c) no send quota: stored under `pid`, marked deferred (`expiry = -1`) -/
  | deferred (pid : Nat)
  /-- (d) stored under `pid` and written -/
  | sent (pid : Nat)
deriving Repr, DecidableEq

/-- the outcome of a delivery of QoS > 0 to client object `i`, read off the state before the delivery -/
def verdict (s : Server) (i : Nat) : Verdict :=
  if (getObj s i).inflight.length ≥ s.caps.maximumInflight then .limit else
  match nextPacketID (getObj s i) s.caps.maximumPacketID with
  | none => .exhausted
  | some pid => if (getObj s i).sendQuota = 0 ∧ (getObj s i).maxSend > 0 then .deferred pid else .sent pid

/-- the outgoing copy of `pk` for the subscription `sub` of client object `i`, under packet identifier `pid`
    (no outbound alias) -/
def copyOf (s : Server) (i : Nat) (sub : Sub) (pk : Msg) (pid : Nat) : Msg :=
  { shapeOut s.caps (getObj s i).ver sub false pk with id := pid }

/-- the state after the counter of dropped in-flight messages was bumped: cases (a) and (b) -/
def droppedState (s : Server) : Server :=
  { s with info := { s.info with inflightDropped := s.info.inflightDropped + 1 } }

/-- the state after the record `m` was appended to the in-flight list of object `i` under the fresh identifier
    `m.id`, `dq` taken from the send quota: cases (c) (`dq = 0`) and (d) (`dq = 1`) -/
def storedState (s : Server) (i : Nat) (m : Msg) (dq : Nat) : Server :=
  { setObj s i { getObj s i with packetID := m.id, inflight := (getObj s i).inflight ++ [m],
                                 sendQuota := (getObj s i).sendQuota - dq } with
    info := { s.info with inflight := s.info.inflight + 1 } }

theorem decSend_eq (c : Client) : decSend c = { c with sendQuota := c.sendQuota - 1 } := by
  unfold decSend
  by_cases h : c.sendQuota > 0
  · rw [if_pos h]
  · rw [if_neg h]
    have : c.sendQuota - 1 = c.sendQuota := by omega
    rw [this]

theorem map_replace_fresh (l : List Msg) (r : Nat) (m : Msg) (h : l.find? (fun x => x.id == r) = none) :
    l.map (fun x => if (x.id == r) = true then m else x) = l := by
  induction l with
  | nil => rfl
  | cons a as ih =>
    rw [List.find?_cons] at h
    cases ha : (a.id == r) with
    | true => rw [ha] at h; cases h
    | false =>
      rw [ha] at h
      rw [List.map_cons, ih h, ha]
      rfl

theorem find_append_last (l : List Msg) (m : Msg) (h : l.find? (fun x => x.id == m.id) = none) :
    ((l ++ [m]).find? (fun x => x.id == m.id)).isSome = true := by
  rw [List.find?_append, h]
  simp

/-- the part of `publishToClientCore` after a packet identifier was obtained: file the record, take send quota,
    then defer or write -/
def tail (s : Server) (i : Nat) (c : Client) (out : Msg) : Server × List Out :=
  let sentQuota := c.sendQuota
  let (c, isNew) := flSet c out
  let c := if isNew then decSend c else c
  let s := setObj s i c
  let s := if isNew then { s with info := { s.info with inflight := s.info.inflight + 1 } } else s
  if sentQuota == 0 && c.maxSend > 0 then
    let out := { out with expiry := -1 }
    (setObj s i (flSet c out).1, [])
  else if !c.isOpen then (s, [])
  else (s, writeMsg s i out)

/-- the prefix of `publishToClientCore` without an outbound alias: the object is written back unchanged -/
theorem core_unfold (s : Server) (i : Nat) (sub : Sub) (f : Bool) (pk : Msg) (htam : (getObj s i).tam = 0) :
    publishToClientCore s i sub f pk =
      (if (shapeOut s.caps (getObj s i).ver sub f pk).qos > 0 then
         if (getObj s i).inflight.length ≥ s.caps.maximumInflight then (droppedState s, [])
         else
           match nextPacketID (getObj s i) s.caps.maximumPacketID with
           | none => (droppedState s, [.event s!"idexh({hexStr (getObj s i).id})"])
           | some pid =>
             tail s i { getObj s i with packetID := pid } { shapeOut s.caps (getObj s i).ver sub f pk with id := pid }
       else if !(getObj s i).isOpen then (s, [])
       else (s, writeMsg s i (shapeOut s.caps (getObj s i).ver sub f pk))) := by
  unfold publishToClientCore
  have h0 : ¬ (getObj s i).tam > 0 := by rw [htam]; exact Nat.lt_irrefl 0
  simp only [h0, if_false, setObj_getObj_self]
  rfl

/-- what a live network client is written for a PUBLISH -/
theorem writeMsg_live (s : Server) (i : Nat) (m : Msg) (hm : m.type = 3) (ho : (getObj s i).isOpen = true)
    (hin : (getObj s i).inline = false) (hp : (getObj s i).peerGone = false) :
    writeMsg s i m =
      [Out.wrote (getObj s i).conn (.publish (getObj s i).ver m (decide (m.expiry > 0) || decide (m.msgExpiry > 0)))] := by
  unfold writeMsg
  simp only [ho, hin, hp, hm, Bool.not_true, Bool.or_false, Bool.false_eq_true, if_false, BEq.rfl, if_true]

theorem setObj_setObj (s : Server) (i : Nat) (a b : Client) : setObj (setObj s i a) i b = setObj s i b := by
  unfold setObj
  simp only [List.set_set]

/-- (c): a fresh identifier, no send quota left under a Receive Maximum: stored, marked deferred, nothing written -/
theorem tail_deferred (s : Server) (i : Nat) (c : Client) (out : Msg) (hfr : flGet c out.id = none)
    (hq : c.sendQuota = 0) (hm : c.maxSend > 0) :
    tail s i c out =
      ({ setObj s i { c with inflight := c.inflight ++ [{ out with expiry := -1 }] } with
          info := { s.info with inflight := s.info.inflight + 1 } }, []) := by
  unfold tail
  rw [fc11_flSet_fresh c out hfr]
  simp only [if_true]
  have hd : decSend { c with inflight := c.inflight ++ [out] } = { c with inflight := c.inflight ++ [out] } := by
    unfold decSend
    rw [if_neg (by show ¬ c.sendQuota > 0; omega)]
  rw [hd]
  have hc : (c.sendQuota == 0 && decide (c.maxSend > 0)) = true := by simp [hq, hm]
  have hc' : (c.sendQuota == 0 && decide (({ c with inflight := c.inflight ++ [out] } : Client).maxSend > 0)) = true := hc
  rw [if_pos hc']
  have hf2 : (flSet { c with inflight := c.inflight ++ [out] } { out with expiry := -1 }).1 =
      { c with inflight := c.inflight ++ [{ out with expiry := -1 }] } := by
    unfold flSet flGet
    have h1 : ((c.inflight ++ [out]).find? (fun x => x.id == out.id)).isSome = true := find_append_last _ _ hfr
    have h1' : ((({ c with inflight := c.inflight ++ [out] } : Client).inflight.find?
        (fun m => m.id == ({ out with expiry := -1 } : Msg).id)).isSome) = true := h1
    rw [if_pos h1']
    show ({ c with inflight := (c.inflight ++ [out]).map (fun x => if (x.id == out.id) = true then { out with expiry := -1 } else x) } : Client) = _
    rw [List.map_append, map_replace_fresh _ _ _ hfr]
    simp
  rw [hf2]
  unfold setObj
  simp only [List.set_set]

/-- (d): a fresh identifier and send quota (or no Receive Maximum at all): stored, one unit of quota taken, written -/
theorem tail_sent (s : Server) (i : Nat) (c : Client) (out : Msg) (hfr : flGet c out.id = none)
    (hnd : ¬ (c.sendQuota = 0 ∧ c.maxSend > 0)) :
    tail s i c out =
      ({ setObj s i { c with inflight := c.inflight ++ [out], sendQuota := c.sendQuota - 1 } with
          info := { s.info with inflight := s.info.inflight + 1 } },
       if c.isOpen = true then
         writeMsg { setObj s i { c with inflight := c.inflight ++ [out], sendQuota := c.sendQuota - 1 } with
          info := { s.info with inflight := s.info.inflight + 1 } } i out
       else []) := by
  unfold tail
  rw [fc11_flSet_fresh c out hfr]
  simp only [if_true]
  rw [decSend_eq]
  have hc : (c.sendQuota == 0 && decide (c.maxSend > 0)) = false := by
    by_cases h1 : c.sendQuota = 0
    · have : ¬ c.maxSend > 0 := fun h => hnd ⟨h1, h⟩
      simp [this]
    · simp [h1]
  have hc' : (c.sendQuota == 0 && decide (({ c with inflight := c.inflight ++ [out], sendQuota := c.sendQuota - 1 } : Client).maxSend > 0)) = false := hc
  simp only [hc', Bool.false_eq_true, if_false]
  show (if (!c.isOpen) = true then _ else _) = _
  cases c.isOpen
  · rfl
  · rfl

theorem getObj_info (s : Server) (inf : Info) (k : Nat) : getObj { s with info := inf } k = getObj s k := rfl

/-- the hypotheses of the classification on the receiving client object `i`: it exists, is a live network client
    (open, not the inline client, its peer not gone) and has no outbound topic aliases -/
structure Live (s : Server) (i : Nat) : Prop where
  lt : i < s.objs.length
  isOpen : (getObj s i).isOpen = true
  notInline : (getObj s i).inline = false
  peer : (getObj s i).peerGone = false
  noAlias : (getObj s i).tam = 0

/-- state and outputs of a delivery of QoS > 0, by verdict -/
def verdictResult (s : Server) (i : Nat) (sub : Sub) (pk : Msg) : Verdict → Server × List Out
  | .limit => (droppedState s, [])
  | .exhausted => (droppedState s, [.event s!"idexh({hexStr (getObj s i).id})"])
  | .deferred pid => (storedState s i { copyOf s i sub pk pid with expiry := -1 } 0, [])
  | .sent pid =>
    (storedState s i (copyOf s i sub pk pid) 1,
     [.wrote (getObj s i).conn (.publish (getObj s i).ver (copyOf s i sub pk pid)
        (decide ((copyOf s i sub pk pid).expiry > 0) || decide ((copyOf s i sub pk pid).msgExpiry > 0)))])

def coreResult (s : Server) (i : Nat) (sub : Sub) (pk : Msg) : Server × List Out :=
  verdictResult s i sub pk (verdict s i)

theorem verdict_limit (s : Server) (i : Nat) (ha : (getObj s i).inflight.length ≥ s.caps.maximumInflight) :
    verdict s i = .limit := by
  unfold verdict; rw [if_pos ha]

theorem verdict_exhausted (s : Server) (i : Nat) (ha : ¬ (getObj s i).inflight.length ≥ s.caps.maximumInflight)
    (hn : nextPacketID (getObj s i) s.caps.maximumPacketID = none) : verdict s i = .exhausted := by
  unfold verdict; rw [if_neg ha, hn]

theorem verdict_deferred (s : Server) (i pid : Nat) (ha : ¬ (getObj s i).inflight.length ≥ s.caps.maximumInflight)
    (hn : nextPacketID (getObj s i) s.caps.maximumPacketID = some pid)
    (hd : (getObj s i).sendQuota = 0 ∧ (getObj s i).maxSend > 0) : verdict s i = .deferred pid := by
  unfold verdict; rw [if_neg ha, hn]; exact if_pos hd

theorem verdict_sent (s : Server) (i pid : Nat) (ha : ¬ (getObj s i).inflight.length ≥ s.caps.maximumInflight)
    (hn : nextPacketID (getObj s i) s.caps.maximumPacketID = some pid)
    (hd : ¬ ((getObj s i).sendQuota = 0 ∧ (getObj s i).maxSend > 0)) : verdict s i = .sent pid := by
  unfold verdict; rw [if_neg ha, hn]; exact if_neg hd

theorem getObj_stored (s : Server) (i : Nat) (m : Msg) (dq : Nat) (hi : i < s.objs.length) :
    getObj (storedState s i m dq) i =
      { getObj s i with packetID := m.id, inflight := (getObj s i).inflight ++ [m],
                        sendQuota := (getObj s i).sendQuota - dq } := by
  unfold storedState
  rw [getObj_info]
  exact getObj_setObj_eq s i _ hi

/-- the general form: the state is that of the verdict whether or not the client can be written to; in case (d)
    the output is what `writeMsg` makes of the copy -/
theorem core_gen (s : Server) (i : Nat) (sub : Sub) (pk : Msg) (htam : (getObj s i).tam = 0)
    (hq : shapeQos s.caps sub pk.qos > 0) :
    publishToClientCore s i sub false pk =
      ((coreResult s i sub pk).1,
       match verdict s i with
       | .sent pid => if (getObj s i).isOpen = true then
           writeMsg (storedState s i (copyOf s i sub pk pid) 1) i (copyOf s i sub pk pid) else []
       | _ => (coreResult s i sub pk).2) := by
  rw [core_unfold s i sub false pk htam]
  have hq' : (shapeOut s.caps (getObj s i).ver sub false pk).qos > 0 := hq
  rw [if_pos hq']
  unfold coreResult
  by_cases ha : (getObj s i).inflight.length ≥ s.caps.maximumInflight
  · rw [if_pos ha, verdict_limit s i ha]; rfl
  · rw [if_neg ha]
    cases hn : nextPacketID (getObj s i) s.caps.maximumPacketID with
    | none => rw [verdict_exhausted s i ha hn]; rfl
    | some pid =>
      have hfr : flGet (getObj s i) pid = none := nextPacketID_fresh _ _ _ hn
      show tail s i { getObj s i with packetID := pid } (copyOf s i sub pk pid) = _
      by_cases hd : (getObj s i).sendQuota = 0 ∧ (getObj s i).maxSend > 0
      · rw [verdict_deferred s i pid ha hn hd,
          tail_deferred s i { getObj s i with packetID := pid } (copyOf s i sub pk pid) hfr hd.1 hd.2]
        rfl
      · rw [verdict_sent s i pid ha hn hd,
          tail_sent s i { getObj s i with packetID := pid } (copyOf s i sub pk pid) hfr hd]
        rfl

/-- **Item 1 — the complete classification**, as one equation: state and outputs of a delivery of QoS > 0 to a live
    network client without outbound aliases -/
theorem core_eq (s : Server) (i : Nat) (sub : Sub) (pk : Msg) (h : Live s i) (ht : pk.type = 3)
    (hq : shapeQos s.caps sub pk.qos > 0) :
    publishToClientCore s i sub false pk = coreResult s i sub pk := by
  rw [core_gen s i sub pk h.noAlias hq]
  refine Prod.ext rfl ?_
  show (match verdict s i with
       | .sent pid => if (getObj s i).isOpen = true then
           writeMsg (storedState s i (copyOf s i sub pk pid) 1) i (copyOf s i sub pk pid) else []
       | _ => (coreResult s i sub pk).2) = (coreResult s i sub pk).2
  unfold coreResult
  cases hv : verdict s i with
  | limit => rfl
  | exhausted => rfl
  | deferred pid => rfl
  | sent pid =>
    show (if (getObj s i).isOpen = true then
           writeMsg (storedState s i (copyOf s i sub pk pid) 1) i (copyOf s i sub pk pid) else []) = _
    rw [if_pos h.isOpen]
    have hg := getObj_stored s i (copyOf s i sub pk pid) 1 h.lt
    have hw := writeMsg_live (storedState s i (copyOf s i sub pk pid) 1) i (copyOf s i sub pk pid) ht
      (by rw [hg]; exact h.isOpen) (by rw [hg]; exact h.notInline) (by rw [hg]; exact h.peer)
    rw [hg] at hw
    exact hw

/-! ### one entry of the subscriber map, any QoS -/

/-- the two gates of `publishToClient`: No Local and the read permission -/
def passes (s : Server) (i : Nat) (sub : Sub) (pk : Msg) : Bool :=
  !(sub.noLocal && pk.origin == (getObj s i).id) && aclOk s (getObj s i).id pk.topic false

/-- the client object can be written to -/
def liveB (s : Server) (i : Nat) : Bool := (getObj s i).isOpen && !(getObj s i).inline && !(getObj s i).peerGone

def isSent : Verdict → Bool
  | .sent _ => true
  | _ => false

def isDrop : Verdict → Bool
  | .limit => true
  | .exhausted => true
  | _ => false

/-- state and outputs of `publishToClient s i sub false pk`, explicitly (object `i` without outbound aliases) -/
def entryResult (s : Server) (i : Nat) (sub : Sub) (pk : Msg) : Server × List Out :=
  if passes s i sub pk = true then
    if shapeQos s.caps sub pk.qos > 0 then
      ((coreResult s i sub pk).1,
       if liveB s i = true then (coreResult s i sub pk).2 else (coreResult s i sub pk).2.filter (fun o => (pubConn o).isNone))
    else
      (s, if liveB s i = true then
            [.wrote (getObj s i).conn (.publish (getObj s i).ver (shapeOut s.caps (getObj s i).ver sub false pk)
              (decide ((shapeOut s.caps (getObj s i).ver sub false pk).expiry > 0) ||
               decide ((shapeOut s.caps (getObj s i).ver sub false pk).msgExpiry > 0)))]
          else [])
  else (s, [])

theorem liveB_true_iff (s : Server) (i : Nat) :
    liveB s i = true ↔ (getObj s i).isOpen = true ∧ (getObj s i).inline = false ∧ (getObj s i).peerGone = false := by
  unfold liveB
  cases (getObj s i).isOpen <;> cases (getObj s i).inline <;> cases (getObj s i).peerGone <;> simp

theorem writeMsg_dead (s : Server) (i : Nat) (m : Msg) (h : liveB s i = false) : writeMsg s i m = [] := by
  unfold liveB at h
  unfold writeMsg
  have : (!(getObj s i).isOpen || (getObj s i).inline || (getObj s i).peerGone) = true := by
    cases h1 : (getObj s i).isOpen <;> cases h2 : (getObj s i).inline <;> cases h3 : (getObj s i).peerGone <;> simp_all
  simp only [this, if_true]

/-- the state of a delivery of QoS > 0 does not depend on whether the client can be written to; the outputs of a
    client that cannot be written to contain no write -/
theorem core_dead (s : Server) (i : Nat) (sub : Sub) (pk : Msg) (hi : i < s.objs.length)
    (htam : (getObj s i).tam = 0) (hl : liveB s i = false) (hq : shapeQos s.caps sub pk.qos > 0) :
    publishToClientCore s i sub false pk =
      ((coreResult s i sub pk).1, (coreResult s i sub pk).2.filter (fun o => (pubConn o).isNone)) := by
  rw [core_gen s i sub pk htam hq]
  refine Prod.ext rfl ?_
  show (match verdict s i with
       | .sent pid => if (getObj s i).isOpen = true then
           writeMsg (storedState s i (copyOf s i sub pk pid) 1) i (copyOf s i sub pk pid) else []
       | _ => (coreResult s i sub pk).2) = (coreResult s i sub pk).2.filter (fun o => (pubConn o).isNone)
  unfold coreResult
  cases hv : verdict s i with
  | limit => rfl
  | exhausted => rfl
  | deferred pid => rfl
  | sent pid =>
    show (if (getObj s i).isOpen = true then
           writeMsg (storedState s i (copyOf s i sub pk pid) 1) i (copyOf s i sub pk pid) else []) = []
    have hg := getObj_stored s i (copyOf s i sub pk pid) 1 hi
    have hl' : liveB (storedState s i (copyOf s i sub pk pid) 1) i = false := by
      unfold liveB at hl ⊢
      rw [hg]; exact hl
    rw [writeMsg_dead _ i _ hl']
    split <;> rfl

theorem live_of (s : Server) (i : Nat) (hi : i < s.objs.length) (htam : (getObj s i).tam = 0) (hl : liveB s i = true) :
    Live s i :=
  let h := (liveB_true_iff s i).mp hl
  ⟨hi, h.1, h.2.1, h.2.2, htam⟩

/-- **one entry of the subscriber map**: `publishToClient`, explicitly -/
theorem entry_eq (s : Server) (i : Nat) (sub : Sub) (pk : Msg) (hi : i < s.objs.length)
    (htam : (getObj s i).tam = 0) (ht : pk.type = 3) :
    publishToClient s i sub false pk = entryResult s i sub pk := by
  unfold publishToClient entryResult passes
  by_cases h1 : (sub.noLocal && pk.origin == (getObj s i).id) = true
  · rw [if_pos h1, h1]; rfl
  · rw [if_neg h1]
    have h1' : (sub.noLocal && pk.origin == (getObj s i).id) = false := by simpa using h1
    rw [h1']
    by_cases h2 : aclOk s (getObj s i).id pk.topic false = true
    · rw [h2]
      simp only [Bool.not_true, Bool.false_eq_true, if_false, Bool.not_false, Bool.and_self, if_true]
      by_cases hq : shapeQos s.caps sub pk.qos > 0
      · rw [if_pos hq]
        cases hl : liveB s i with
        | true => rw [core_eq s i sub pk (live_of s i hi htam hl) ht hq]; rfl
        | false => rw [core_dead s i sub pk hi htam hl hq]; rfl
      · rw [if_neg hq, core_unfold s i sub false pk htam]
        have hq' : ¬ (shapeOut s.caps (getObj s i).ver sub false pk).qos > 0 := hq
        rw [if_neg hq']
        cases hl : liveB s i with
        | true =>
          have h := (liveB_true_iff s i).mp hl
          rw [writeMsg_live s i (shapeOut s.caps (getObj s i).ver sub false pk) ht h.1 h.2.1 h.2.2, h.1]
          rfl
        | false =>
          rw [writeMsg_dead s i (shapeOut s.caps (getObj s i).ver sub false pk) hl]
          cases (getObj s i).isOpen <;> rfl
    · have h2' : aclOk s (getObj s i).id pk.topic false = false := by simpa using h2
      rw [h2']
      rfl

/-! ### what one entry does, read off `caps`, `aclDeny` and the receiving object only -/

/-- the entry changes object `i` and the counters, nothing else -/
structure Only (i : Nat) (s s' : Server) : Prop where
  caps : s'.caps = s.caps
  clients : s'.clients = s.clients
  aclDeny : s'.aclDeny = s.aclDeny
  len : s'.objs.length = s.objs.length
  other : ∀ k, k ≠ i → getObj s' k = getObj s k

theorem Only.refl (i : Nat) (s : Server) : Only i s s := ⟨rfl, rfl, rfl, rfl, fun _ _ => rfl⟩

theorem only_stored (s : Server) (i : Nat) (m : Msg) (dq : Nat) : Only i s (storedState s i m dq) := by
  refine ⟨rfl, rfl, rfl, ?_, fun k hk => ?_⟩
  · unfold storedState; exact setObj_length s i _
  · unfold storedState; rw [getObj_info]; exact getObj_setObj_ne s i k _ hk

theorem only_verdict (s : Server) (i : Nat) (sub : Sub) (pk : Msg) (v : Verdict) :
    Only i s (verdictResult s i sub pk v).1 := by
  cases v with
  | limit => exact ⟨rfl, rfl, rfl, rfl, fun _ _ => rfl⟩
  | exhausted => exact ⟨rfl, rfl, rfl, rfl, fun _ _ => rfl⟩
  | deferred pid => exact only_stored s i _ 0
  | sent pid => exact only_stored s i _ 1

theorem entry_only (s : Server) (i : Nat) (sub : Sub) (pk : Msg) : Only i s (entryResult s i sub pk).1 := by
  unfold entryResult
  by_cases h1 : passes s i sub pk = true
  · rw [if_pos h1]
    by_cases hq : shapeQos s.caps sub pk.qos > 0
    · rw [if_pos hq]; exact only_verdict s i sub pk _
    · rw [if_neg hq]; exact Only.refl i s
  · rw [if_neg h1]; exact Only.refl i s

/-- the outputs of a verdict -/
def verdictOut (s : Server) (i : Nat) (sub : Sub) (pk : Msg) : Verdict → List Out
  | .exhausted => [.event s!"idexh({hexStr (getObj s i).id})"]
  | .sent pid =>
    [.wrote (getObj s i).conn (.publish (getObj s i).ver (copyOf s i sub pk pid)
        (decide ((copyOf s i sub pk pid).expiry > 0) || decide ((copyOf s i sub pk pid).msgExpiry > 0)))]
  | _ => []

/-- the receiving object after a verdict -/
def verdictObj (s : Server) (i : Nat) (sub : Sub) (pk : Msg) : Verdict → Client
  | .deferred pid =>
    { getObj s i with packetID := pid,
                      inflight := (getObj s i).inflight ++ [{ copyOf s i sub pk pid with expiry := -1 }] }
  | .sent pid =>
    { getObj s i with packetID := pid, inflight := (getObj s i).inflight ++ [copyOf s i sub pk pid],
                      sendQuota := (getObj s i).sendQuota - 1 }
  | _ => getObj s i

theorem verdictResult_snd (s : Server) (i : Nat) (sub : Sub) (pk : Msg) (v : Verdict) :
    (verdictResult s i sub pk v).2 = verdictOut s i sub pk v := by cases v <;> rfl

theorem getObj_verdictResult (s : Server) (i : Nat) (sub : Sub) (pk : Msg) (v : Verdict) (hi : i < s.objs.length) :
    getObj (verdictResult s i sub pk v).1 i = verdictObj s i sub pk v := by
  cases v with
  | limit => rfl
  | exhausted => rfl
  | deferred pid => exact getObj_stored s i _ 0 hi
  | sent pid => exact getObj_stored s i _ 1 hi

/-- the outputs of the entry -/
def entryOut (s : Server) (i : Nat) (sub : Sub) (pk : Msg) : List Out :=
  if passes s i sub pk = true then
    if shapeQos s.caps sub pk.qos > 0 then
      (if liveB s i = true then verdictOut s i sub pk (verdict s i)
       else (verdictOut s i sub pk (verdict s i)).filter (fun o => (pubConn o).isNone))
    else
      (if liveB s i = true then
            [.wrote (getObj s i).conn (.publish (getObj s i).ver (shapeOut s.caps (getObj s i).ver sub false pk)
              (decide ((shapeOut s.caps (getObj s i).ver sub false pk).expiry > 0) ||
               decide ((shapeOut s.caps (getObj s i).ver sub false pk).msgExpiry > 0)))]
          else [])
  else []

/-- the receiving object after the entry -/
def entryObj (s : Server) (i : Nat) (sub : Sub) (pk : Msg) : Client :=
  if passes s i sub pk = true then
    if shapeQos s.caps sub pk.qos > 0 then verdictObj s i sub pk (verdict s i) else getObj s i
  else getObj s i

theorem entryResult_snd (s : Server) (i : Nat) (sub : Sub) (pk : Msg) :
    (entryResult s i sub pk).2 = entryOut s i sub pk := by
  unfold entryResult entryOut coreResult
  by_cases h1 : passes s i sub pk = true
  · rw [if_pos h1, if_pos h1]
    by_cases hq : shapeQos s.caps sub pk.qos > 0
    · rw [if_pos hq, if_pos hq, verdictResult_snd]
    · rw [if_neg hq, if_neg hq]
  · rw [if_neg h1, if_neg h1]

theorem getObj_entryResult (s : Server) (i : Nat) (sub : Sub) (pk : Msg) (hi : i < s.objs.length) :
    getObj (entryResult s i sub pk).1 i = entryObj s i sub pk := by
  unfold entryResult entryObj coreResult
  by_cases h1 : passes s i sub pk = true
  · rw [if_pos h1, if_pos h1]
    by_cases hq : shapeQos s.caps sub pk.qos > 0
    · rw [if_pos hq, if_pos hq]; exact getObj_verdictResult s i sub pk _ hi
    · rw [if_neg hq, if_neg hq]
  · rw [if_neg h1, if_neg h1]

/-- `t` looks to the entry of object `i` like `s` -/
structure SameFor (i : Nat) (s t : Server) : Prop where
  caps : t.caps = s.caps
  aclDeny : t.aclDeny = s.aclDeny
  obj : getObj t i = getObj s i

theorem verdict_congr {i : Nat} {s t : Server} (h : SameFor i s t) : verdict t i = verdict s i := by
  unfold verdict; rw [h.caps, h.obj]

theorem passes_congr {i : Nat} {s t : Server} (h : SameFor i s t) (sub : Sub) (pk : Msg) :
    passes t i sub pk = passes s i sub pk := by
  unfold passes aclOk; rw [h.aclDeny, h.obj]

theorem liveB_congr {i : Nat} {s t : Server} (h : SameFor i s t) : liveB t i = liveB s i := by
  unfold liveB; rw [h.obj]

theorem copyOf_congr {i : Nat} {s t : Server} (h : SameFor i s t) (sub : Sub) (pk : Msg) (pid : Nat) :
    copyOf t i sub pk pid = copyOf s i sub pk pid := by
  unfold copyOf; rw [h.caps, h.obj]

theorem verdictOut_congr {i : Nat} {s t : Server} (h : SameFor i s t) (sub : Sub) (pk : Msg) (v : Verdict) :
    verdictOut t i sub pk v = verdictOut s i sub pk v := by
  cases v with
  | limit => rfl
  | deferred pid => rfl
  | exhausted => simp only [verdictOut, h.obj]
  | sent pid => simp only [verdictOut, copyOf_congr h, h.obj]

theorem verdictObj_congr {i : Nat} {s t : Server} (h : SameFor i s t) (sub : Sub) (pk : Msg) (v : Verdict) :
    verdictObj t i sub pk v = verdictObj s i sub pk v := by
  cases v with
  | limit => exact h.obj
  | exhausted => exact h.obj
  | deferred pid => simp only [verdictObj, copyOf_congr h, h.obj]
  | sent pid => simp only [verdictObj, copyOf_congr h, h.obj]

theorem entryOut_congr {i : Nat} {s t : Server} (h : SameFor i s t) (sub : Sub) (pk : Msg) :
    entryOut t i sub pk = entryOut s i sub pk := by
  unfold entryOut
  rw [passes_congr h, liveB_congr h, verdict_congr h, verdictOut_congr h, h.caps, h.obj]

theorem entryObj_congr {i : Nat} {s t : Server} (h : SameFor i s t) (sub : Sub) (pk : Msg) :
    entryObj t i sub pk = entryObj s i sub pk := by
  unfold entryObj
  rw [passes_congr h, verdict_congr h, verdictObj_congr h, h.caps, h.obj]

/-- the entry is SERVED: it passes the gates, the client can be written to, and the copy is QoS 0 or the delivery is
    in case (d) -/
def served (s : Server) (i : Nat) (sub : Sub) (pk : Msg) : Bool :=
  gate s i sub pk && (shapeQos s.caps sub pk.qos == 0 || isSent (verdict s i))

theorem gate_eq (s : Server) (i : Nat) (sub : Sub) (pk : Msg) : gate s i sub pk = (passes s i sub pk && liveB s i) := by
  unfold gate passes liveB
  simp only [Bool.and_assoc]

theorem entryOut_pubConns (s : Server) (i : Nat) (sub : Sub) (pk : Msg) :
    (entryOut s i sub pk).filterMap pubConn = if served s i sub pk = true then [(getObj s i).conn] else [] := by
  unfold entryOut served
  rw [gate_eq]
  cases hp : passes s i sub pk with
  | false => rfl
  | true =>
    rw [if_pos rfl]
    by_cases hq : shapeQos s.caps sub pk.qos > 0
    · rw [if_pos hq]
      have hq0 : (shapeQos s.caps sub pk.qos == 0) = false := by
        simp only [beq_eq_false_iff_ne]; omega
      rw [hq0]
      cases hl : liveB s i with
      | true =>
        rw [if_pos rfl]
        cases verdict s i <;> rfl
      | false =>
        rw [if_neg (by decide)]
        cases verdict s i <;> rfl
    · rw [if_neg hq]
      have hq0 : (shapeQos s.caps sub pk.qos == 0) = true := by
        simp only [beq_iff_eq]; omega
      rw [hq0]
      cases hl : liveB s i <;> rfl

/-! ### the loop of `publishToSubscribers`, any QoS -/

/-- the connection on which the entry `cs` of the subscriber map is written a copy, if it is: as a function of the
    state BEFORE the publish -/
def recipientQ (s : Server) (pk : Msg) (cs : Str × Sub) : Option Nat :=
  match assocGet s.clients cs.1 with
  | none => none
  | some i => if served s i cs.2 pk = true then some (getObj s i).conn else none

/-- `t` agrees with `s` on everything the entries of `L` read -/
structure Agree (s t : Server) (L : List (Str × Sub)) : Prop where
  caps : t.caps = s.caps
  clients : t.clients = s.clients
  aclDeny : t.aclDeny = s.aclDeny
  len : t.objs.length = s.objs.length
  objs : ∀ cs ∈ L, ∀ i, assocGet s.clients cs.1 = some i → getObj t i = getObj s i

/-- no registered client has outbound topic aliases -/
def NoAliases (s : Server) : Prop := ∀ id i, (id, i) ∈ s.clients → (getObj s i).tam = 0

theorem fold_exact (s : Server) (hw : WF s) (hna : NoAliases s) (pk : Msg) (ht : pk.type = 3)
    (L : List (Str × Sub)) (hnd : (L.map Prod.fst).Nodup) :
    ∀ acc : Server × List Out, Agree s acc.1 L →
      (L.foldl (deliverStep pk) acc).2.filterMap pubConn = acc.2.filterMap pubConn ++ L.filterMap (recipientQ s pk) ∧
      (∀ cs ∈ L, ∀ i, assocGet s.clients cs.1 = some i → getObj (L.foldl (deliverStep pk) acc).1 i = entryObj s i cs.2 pk) ∧
      (∀ k, (∀ cs ∈ L, assocGet s.clients cs.1 ≠ some k) → getObj (L.foldl (deliverStep pk) acc).1 k = getObj acc.1 k) ∧
      (∀ x ∈ (L.foldl (deliverStep pk) acc).2,
        x ∈ acc.2 ∨ ∃ cs ∈ L, ∃ i, assocGet s.clients cs.1 = some i ∧ x ∈ entryOut s i cs.2 pk) ∧
      (∀ cs ∈ L, ∀ i, assocGet s.clients cs.1 = some i → ∀ x ∈ entryOut s i cs.2 pk, x ∈ (L.foldl (deliverStep pk) acc).2) ∧
      (∀ x ∈ acc.2, x ∈ (L.foldl (deliverStep pk) acc).2) := by
  induction L with
  | nil =>
    intro acc _
    exact ⟨by simp, fun cs h => absurd h List.not_mem_nil, fun _ _ => rfl, fun x hx => Or.inl hx,
      fun cs h => absurd h List.not_mem_nil, fun x hx => hx⟩
  | cons cs rest ih =>
    rw [List.map_cons, List.nodup_cons] at hnd
    have hnd' : (rest.map Prod.fst).Nodup := hnd.2
    have hhead : ∀ c' ∈ rest, c'.1 ≠ cs.1 := by
      intro c' hc' e
      exact hnd.1 (List.mem_map.mpr ⟨c', hc', e⟩)
    replace ih := ih hnd'
    intro acc A
    rw [List.foldl_cons]
    have Arest : ∀ t', t'.caps = s.caps → t'.clients = s.clients → t'.aclDeny = s.aclDeny → t'.objs.length = s.objs.length →
        (∀ c' ∈ rest, ∀ j, assocGet s.clients c'.1 = some j → getObj t' j = getObj s j) → Agree s t' rest :=
      fun t' a b c d e => ⟨a, b, c, d, e⟩
    cases hc : assocGet s.clients cs.1 with
    | none =>
      have e : deliverStep pk acc cs = acc := by
        unfold deliverStep
        rw [A.clients, hc]
      rw [e]
      have hr : recipientQ s pk cs = none := by unfold recipientQ; rw [hc]
      obtain ⟨q1, q2, q3, q4, q5, q6⟩ := ih acc (Arest acc.1 A.caps A.clients A.aclDeny A.len
        (fun c' h' j hj => A.objs c' (List.mem_cons_of_mem _ h') j hj))
      refine ⟨by rw [q1, List.filterMap_cons, hr], ?_, ?_, ?_, ?_, q6⟩
      · intro c0 h0 i hi0
        rcases List.mem_cons.mp h0 with h | h
        · rw [h, hc] at hi0; cases hi0
        · exact q2 c0 h i hi0
      · intro k hk
        exact q3 k (fun c' h' => hk c' (List.mem_cons_of_mem _ h'))
      · intro x hx
        rcases q4 x hx with h | ⟨c', h', j, hj, hx'⟩
        · exact Or.inl h
        · exact Or.inr ⟨c', List.mem_cons_of_mem _ h', j, hj, hx'⟩
      · intro c0 h0 i hi0
        rcases List.mem_cons.mp h0 with h | h
        · rw [h, hc] at hi0; cases hi0
        · exact q5 c0 h i hi0
    | some i =>
      have hm := assocGet_mem _ _ _ hc
      have hv := hw.clients_valid _ _ hm
      have hoi : getObj acc.1 i = getObj s i := A.objs cs List.mem_cons_self i hc
      have hsf : SameFor i s acc.1 := ⟨A.caps, A.aclDeny, hoi⟩
      have hi' : i < acc.1.objs.length := by rw [A.len]; exact hv.1
      have htam : (getObj acc.1 i).tam = 0 := by rw [hoi]; exact hna _ _ hm
      have e : deliverStep pk acc cs =
          ((entryResult acc.1 i cs.2 pk).1, acc.2 ++ entryOut s i cs.2 pk) := by
        unfold deliverStep
        rw [A.clients, hc]
        show ((publishToClient acc.1 i cs.2 false pk).1, acc.2 ++ (publishToClient acc.1 i cs.2 false pk).2) = _
        rw [entry_eq acc.1 i cs.2 pk hi' htam ht, entryResult_snd, entryOut_congr hsf]
      rw [e]
      have ho := entry_only acc.1 i cs.2 pk
      have hne : ∀ c' ∈ rest, ∀ j, assocGet s.clients c'.1 = some j → j ≠ i := by
        intro c' h' j hj e'
        subst e'
        have := (hw.clients_valid _ _ (assocGet_mem _ _ _ hj)).2
        exact hhead c' h' (this.symm.trans hv.2)
      have hr : recipientQ s pk cs = if served s i cs.2 pk = true then some (getObj s i).conn else none := by
        unfold recipientQ; rw [hc]
      obtain ⟨q1, q2, q3, q4, q5, q6⟩ := ih ((entryResult acc.1 i cs.2 pk).1, acc.2 ++ entryOut s i cs.2 pk)
        (Arest _ (ho.caps.trans A.caps) (ho.clients.trans A.clients) (ho.aclDeny.trans A.aclDeny) (ho.len.trans A.len)
          (fun c' h' j hj => (ho.other j (hne c' h' j hj)).trans (A.objs c' (List.mem_cons_of_mem _ h') j hj)))
      have hobj : getObj (rest.foldl (deliverStep pk) ((entryResult acc.1 i cs.2 pk).1, acc.2 ++ entryOut s i cs.2 pk)).1 i =
          entryObj s i cs.2 pk := by
        rw [q3 i (fun c' h' e' => hne c' h' i e' rfl)]
        show getObj (entryResult acc.1 i cs.2 pk).1 i = _
        rw [getObj_entryResult acc.1 i cs.2 pk hi', entryObj_congr hsf]
      refine ⟨?_, ?_, ?_, ?_, ?_, ?_⟩
      · rw [q1, List.filterMap_append, entryOut_pubConns, List.filterMap_cons, hr, List.append_assoc]
        cases served s i cs.2 pk <;> rfl
      · intro c0 h0 j hj
        rcases List.mem_cons.mp h0 with h | h
        · rw [h, hc] at hj
          cases hj
          rw [h]; exact hobj
        · exact q2 c0 h j hj
      · intro k hk
        have hki : k ≠ i := fun e' => hk cs List.mem_cons_self (by rw [hc, e'])
        rw [q3 k (fun c' h' => hk c' (List.mem_cons_of_mem _ h'))]
        exact ho.other k hki
      · intro x hx
        rcases q4 x hx with h | ⟨c', h', j, hj, hx'⟩
        · rcases List.mem_append.mp h with h | h
          · exact Or.inl h
          · exact Or.inr ⟨cs, List.mem_cons_self, i, hc, h⟩
        · exact Or.inr ⟨c', List.mem_cons_of_mem _ h', j, hj, hx'⟩
      · intro c0 h0 j hj x hx
        rcases List.mem_cons.mp h0 with h | h
        · rw [h, hc] at hj
          cases hj
          rw [h] at hx
          exact q6 x (List.mem_append_right _ hx)
        · exact q5 c0 h j hj x hx
      · intro x hx
        exact q6 x (List.mem_append_left _ hx)

/-! ### who is written, declaratively -/

/-- connection `n` is SERVED: its client is entitled through the entry `(cid, sub)` of the subscriber map
    (`EntitledVia`) and the copy is QoS 0 or the delivery is in case (d) (`verdict = sent`) -/
def ServedVia (s : Server) (pk : Msg) (subs : List (Str × Sub)) (n : Nat) : Prop :=
  ∃ cid i sub, (cid, i) ∈ s.clients ∧ (getObj s i).conn = n ∧ (getObj s i).isOpen = true ∧
    (getObj s i).inline = false ∧ (getObj s i).peerGone = false ∧ (cid, sub) ∈ subs ∧
    aclOk s cid pk.topic false = true ∧ (sub.noLocal && pk.origin == cid) = false ∧
    (shapeQos s.caps sub pk.qos = 0 ∨ ∃ pid, verdict s i = .sent pid)

theorem ServedVia.entitled {s : Server} {pk : Msg} {subs : List (Str × Sub)} {n : Nat} (h : ServedVia s pk subs n) :
    EntitledVia s pk subs n := by
  obtain ⟨cid, i, sub, h1, h2, h3, h4, h5, h6, h7, h8, _⟩ := h
  exact ⟨cid, i, sub, h1, h2, h3, h4, h5, h6, h7, h8⟩

theorem isSent_iff (v : Verdict) : isSent v = true ↔ ∃ pid, v = .sent pid := by
  cases v <;> simp [isSent]

theorem served_true_iff (s : Server) (i : Nat) (sub : Sub) (pk : Msg) :
    served s i sub pk = true ↔ gate s i sub pk = true ∧ (shapeQos s.caps sub pk.qos = 0 ∨ ∃ pid, verdict s i = .sent pid) := by
  unfold served
  rw [Bool.and_eq_true, Bool.or_eq_true, beq_iff_eq, isSent_iff]

theorem recipientQ_eq_some (s : Server) (pk : Msg) (cs : Str × Sub) (n : Nat) :
    recipientQ s pk cs = some n ↔
      ∃ i, assocGet s.clients cs.1 = some i ∧ served s i cs.2 pk = true ∧ (getObj s i).conn = n := by
  unfold recipientQ
  cases assocGet s.clients cs.1 with
  | none => simp
  | some i =>
    simp only [Option.some.injEq, exists_eq_left']
    split
    · rename_i hg
      simp [hg]
    · rename_i hg
      simp [hg]

theorem recipientQ_sub (s : Server) (pk : Msg) (cs : Str × Sub) (n : Nat) (h : recipientQ s pk cs = some n) :
    recipient s pk cs = some n := by
  obtain ⟨i, hi, hs, hn⟩ := (recipientQ_eq_some s pk cs n).mp h
  exact (recipient_eq_some s pk cs n).mpr ⟨i, hi, ((served_true_iff s i cs.2 pk).mp hs).1, hn⟩

theorem mem_recipientsQ (s : Server) (hw : WF s) (pk : Msg) (subs : List (Str × Sub)) (n : Nat) :
    n ∈ subs.filterMap (recipientQ s pk) ↔ ServedVia s pk subs n := by
  rw [List.mem_filterMap]
  constructor
  · rintro ⟨cs, hcs, h⟩
    obtain ⟨i, hi, hs, hn⟩ := (recipientQ_eq_some s pk cs n).mp h
    obtain ⟨hg, hv⟩ := (served_true_iff s i cs.2 pk).mp hs
    have hm := assocGet_mem _ _ _ hi
    have hid := (hw.clients_valid _ _ hm).2
    obtain ⟨g1, g2, g3, g4, g5⟩ := (gate_true_iff s i cs.2 pk).mp hg
    rw [hid] at g1 g2
    exact ⟨cs.1, i, cs.2, hm, hn, g3, g4, g5, hcs, g2, g1, hv⟩
  · rintro ⟨cid, i, sub, hm, hn, g3, g4, g5, hcs, g2, g1, hv⟩
    refine ⟨(cid, sub), hcs, (recipientQ_eq_some s pk _ n).mpr
      ⟨i, assocGet_of_mem_nodup _ _ _ hw.clients_nodup hm, (served_true_iff s i sub pk).mpr ⟨?_, hv⟩, hn⟩⟩
    have hid := (hw.clients_valid _ _ hm).2
    exact (gate_true_iff s i sub pk).mpr ⟨by rw [hid]; exact g1, by rw [hid]; exact g2, g3, g4, g5⟩

theorem recipientsQ_nodup (s : Server) (hw : WF s) (hcd : ConnDistinct s) (pk : Msg) (subs : List (Str × Sub))
    (hnd : (subs.map Prod.fst).Nodup) : (subs.filterMap (recipientQ s pk)).Nodup := by
  have hp : subs.Pairwise (fun a b => a.1 ≠ b.1) := List.pairwise_map.mp hnd
  refine List.Pairwise.filterMap (recipientQ s pk) ?_ hp
  intro a a' hne n hn n' hn' e
  subst e
  obtain ⟨i, hi, hg, hc⟩ := (recipient_eq_some s pk a n).mp (recipientQ_sub s pk a n hn)
  obtain ⟨j, hj, hg', hc'⟩ := (recipient_eq_some s pk a' n).mp (recipientQ_sub s pk a' n hn')
  have vi := hw.clients_valid _ _ (assocGet_mem _ _ _ hi)
  have vj := hw.clients_valid _ _ (assocGet_mem _ _ _ hj)
  have := hcd i j vi.1 vj.1 ((gate_true_iff s i a.2 pk).mp hg).2.2.2.1 ((gate_true_iff s j a'.2 pk).mp hg').2.2.2.1
    (hc.trans hc'.symm)
  subst this
  exact hne (vi.2.symm.trans vj.2)

theorem served_stamped (s : Server) (pk : Msg) (i : Nat) (sub : Sub) :
    served s i sub (stamped s pk) = served s i sub pk := by
  unfold served
  rw [gate_stamped, (stamped_fields s pk).2.2.1]

theorem recipientQ_stamped (s : Server) (pk : Msg) : recipientQ s (stamped s pk) = recipientQ s pk := by
  funext cs
  unfold recipientQ
  split
  · rfl
  · rw [served_stamped]

/-- **the delivery theorem for a publication of any QoS** (state level, no matching shared subscription, no
    outbound aliases), with `out`/`final` the outputs / final state of `publishToSubscribers s pk`:
    1. the connections written a PUBLISH, in order, are the SERVED entries of the subscriber map, in order;
    2. the object of every registered entry ends as `entryObj` says (read off the state before);
    3. every output is an inline delivery or an output of a registered entry (`entryOut`), and conversely. -/
theorem subscribers_exact (s : Server) (hw : WF s) (hna : NoAliases s) (pk : Msg) (hig : pk.ignore = false)
    (ht : pk.type = 3) (hsh : (subscribers s.topics pk.topic).shared = [])
    (hnd : ((subscribers s.topics pk.topic).subs.map Prod.fst).Nodup) :
    (publishToSubscribers s pk).2.filterMap pubConn =
      (subscribers s.topics pk.topic).subs.filterMap (recipientQ s pk) ∧
    (∀ cs ∈ (subscribers s.topics pk.topic).subs, ∀ i, assocGet s.clients cs.1 = some i →
      getObj (publishToSubscribers s pk).1 i = entryObj s i cs.2 (stamped s pk)) ∧
    (∀ k, (∀ cs ∈ (subscribers s.topics pk.topic).subs, assocGet s.clients cs.1 ≠ some k) →
      getObj (publishToSubscribers s pk).1 k = getObj s k) ∧
    (∀ x ∈ (publishToSubscribers s pk).2, (∃ id, x = Out.inline id pk.topic pk.payload) ∨
      ∃ cs ∈ (subscribers s.topics pk.topic).subs, ∃ i, assocGet s.clients cs.1 = some i ∧
        x ∈ entryOut s i cs.2 (stamped s pk)) ∧
    (∀ cs ∈ (subscribers s.topics pk.topic).subs, ∀ i, assocGet s.clients cs.1 = some i →
      ∀ x ∈ entryOut s i cs.2 (stamped s pk), x ∈ (publishToSubscribers s pk).2) := by
  rw [publishToSubscribers_eq_fold s pk hig hsh]
  obtain ⟨q1, q2, q3, q4, q5, _⟩ := fold_exact s hw hna (stamped s pk) ((stamped_fields s pk).2.2.2.1.trans ht)
    (subscribers s.topics pk.topic).subs hnd
    (s, (subscribers s.topics pk.topic).inline.map fun x => Out.inline x.1 pk.topic pk.payload)
    ⟨rfl, rfl, rfl, rfl, fun _ _ _ _ => rfl⟩
  refine ⟨?_, q2, q3, ?_, q5⟩
  · rw [q1, recipientQ_stamped]
    have : ((subscribers s.topics pk.topic).inline.map fun x => Out.inline x.1 pk.topic pk.payload).filterMap pubConn
        = [] := by
      rw [List.filterMap_map]
      apply List.filterMap_eq_nil_iff.mpr
      intro a _
      rfl
    show List.filterMap pubConn _ ++ _ = _
    rw [this, List.nil_append]
  · intro x hx
    rcases q4 x hx with h | h
    · obtain ⟨a, _, rfl⟩ := List.mem_map.mp h
      exact Or.inl ⟨a.1, rfl⟩
    · exact Or.inr h

end Mochi.Broker.Q1
