import Mochi.Lemmas.BrokerCounters
import Mochi.Lemmas.BrokerPublishOp
/-!
# C25 — housekeeping of the in-flight records (`tickInflight`, server.go `clearExpiredInflights`)

* `dueAt caps now m`: the record `m` is due for removal by the housekeeping run at time `now`.
* `tickInflight_shrunk_hk`: housekeeping only removes in-flight records — of EVERY object, registered or not — and
  changes nothing else (`caps`, `clients`, `rmsgs`, number of objects, every other field of every object).
* `tickInflight_removes_due`: after housekeeping at `now` a REGISTERED session holds no record that was due at `now`;
  `C25_inflight_gone`, `C25_inflight_gone_max`.
* `admitC_out_hk`, `admitC_writes_hk`: what a resumed session is resent are its own in-flight records (PUBLISH with
  `dup = true`), so (`C25_no_resend_due_hk`) a record that was due at the last housekeeping is not resent.
* finding F25a, closed (`C25_deferred_exempt_counterexample_hk`): a copy deferred by flow control is stored with
  `expiry = -1`, housekeeping does not remove it and a later PUBACK releases it to the subscriber after its Message
  Expiry Interval has passed (a copy that was sent with the same interval IS removed by the same housekeeping run).
* non-vacuity (`C25_offline_copy_removed_hk`): an offline session's unacknowledged copy is removed by housekeeping
  and is not resent when the session is resumed; without the housekeeping run it is resent with `dup = true`.
-/
namespace Mochi.Broker
open Mochi.Topics

/-- the record is due for removal by housekeeping at time `now` (clients.go / server.go `clearExpiredInflights`) -/
def dueAt (caps : Caps) (now : Int) (m : Msg) : Bool :=
  (m.ver == 5 && m.expiry > 0 && m.expiry < now) || (caps.maxMessageExpiry > 0 && now - m.created > caps.maxMessageExpiry)

/-- one iteration of the inner loop of `tickInflight` (the record `m` of the captured list, object `i`) -/
def tickInflStep_hk (now : Int) (i : Nat) (s : Server) (m : Msg) : Server :=
  if dueAt s.caps now m then
    if (flDelete (getObj s i) m.id).2 then
      { setObj s i (flDelete (getObj s i) m.id).1 with
        info := { (setObj s i (flDelete (getObj s i) m.id).1).info with
                  inflight := (setObj s i (flDelete (getObj s i) m.id).1).info.inflight - 1 } }
    else setObj s i (flDelete (getObj s i) m.id).1
  else s

/-- one iteration of the outer loop of `tickInflight` (the entry `e` of the Clients map) -/
def tickInflClient_hk (now : Int) (s : Server) (e : Str × Nat) : Server :=
  (getObj s e.2).inflight.foldl (tickInflStep_hk now e.2) s

/-- the inner `if` of `tickInflight` is exactly `dueAt s.caps now m` -/
theorem tickInflight_eq_hk (s : Server) (now : Int) :
    tickInflight s now = s.clients.foldl (tickInflClient_hk now) s := rfl

/-! ### "only in-flight records are removed" -/

/-- `s'` is `s` with some in-flight records removed (of any object), nothing else changed -/
structure Shrunk_hk (s s' : Server) : Prop where
  caps : s'.caps = s.caps
  clients : s'.clients = s.clients
  rmsgs : s'.rmsgs = s.rmsgs
  len : s'.objs.length = s.objs.length
  sub : ∀ j, ∀ x ∈ (getObj s' j).inflight, x ∈ (getObj s j).inflight
  rest : ∀ j, { getObj s' j with inflight := [] } = { getObj s j with inflight := [] }

theorem Shrunk_hk.refl (s : Server) : Shrunk_hk s s :=
  ⟨rfl, rfl, rfl, rfl, fun _ _ h => h, fun _ => rfl⟩

theorem Shrunk_hk.trans {a b c : Server} (h1 : Shrunk_hk a b) (h2 : Shrunk_hk b c) : Shrunk_hk a c :=
  ⟨h2.caps.trans h1.caps, h2.clients.trans h1.clients, h2.rmsgs.trans h1.rmsgs, h2.len.trans h1.len,
   fun j x h => h1.sub j x (h2.sub j x h), fun j => (h2.rest j).trans (h1.rest j)⟩

theorem Shrunk_hk.info {a b : Server} (h : Shrunk_hk a b) (x : Info) : Shrunk_hk a { b with info := x } :=
  ⟨h.caps, h.clients, h.rmsgs, h.len, h.sub, h.rest⟩

theorem setObj_shrunk_hk (s : Server) (i : Nat) (c' : Client)
    (hin : ∀ x ∈ c'.inflight, x ∈ (getObj s i).inflight)
    (hrest : { c' with inflight := [] } = { getObj s i with inflight := [] }) : Shrunk_hk s (setObj s i c') := by
  refine ⟨rfl, rfl, rfl, setObj_length s i c', ?_, ?_⟩
  · intro j x hx
    by_cases hj : j = i
    · subst hj
      rcases getObj_setObj_self_cases s j c' with h | h
      · rw [h] at hx; exact hin x hx
      · rw [h] at hx; exact hx
    · rw [getObj_setObj_ne s i j c' hj] at hx; exact hx
  · intro j
    by_cases hj : j = i
    · subst hj
      rcases getObj_setObj_self_cases s j c' with h | h
      · rw [h]; exact hrest
      · rw [h]
    · rw [getObj_setObj_ne s i j c' hj]

theorem flDelete_shrunk_hk (s : Server) (i id : Nat) : Shrunk_hk s (setObj s i (flDelete (getObj s i) id).1) := by
  refine setObj_shrunk_hk s i _ ?_ rfl
  intro x hx
  have hx' : x ∈ (getObj s i).inflight.filter (fun m => m.id != id) := hx
  exact (List.mem_filter.mp hx').1

theorem tickInflStep_shrunk_hk (now : Int) (i : Nat) (s : Server) (m : Msg) :
    Shrunk_hk s (tickInflStep_hk now i s m) := by
  unfold tickInflStep_hk
  by_cases h : dueAt s.caps now m = true
  · rw [if_pos h]
    by_cases hk : (flDelete (getObj s i) m.id).2 = true
    · rw [if_pos hk]; exact (flDelete_shrunk_hk s i m.id).info _
    · rw [if_neg hk]; exact flDelete_shrunk_hk s i m.id
  · rw [if_neg h]; exact Shrunk_hk.refl s

theorem tickInflFold_shrunk_hk (now : Int) (i : Nat) (L : List Msg) (b : Server) :
    Shrunk_hk b (L.foldl (tickInflStep_hk now i) b) :=
  foldl_inv (fun x => Shrunk_hk b x) _ _ _ (Shrunk_hk.refl b)
    (fun b' a h => h.trans (tickInflStep_shrunk_hk now i b' a))

theorem tickInflClient_shrunk_hk (now : Int) (s : Server) (e : Str × Nat) :
    Shrunk_hk s (tickInflClient_hk now s e) :=
  tickInflFold_shrunk_hk now e.2 _ s

theorem tickInflOuter_shrunk_hk (now : Int) (cl : List (Str × Nat)) (b : Server) :
    Shrunk_hk b (cl.foldl (tickInflClient_hk now) b) :=
  foldl_inv (fun x => Shrunk_hk b x) _ _ _ (Shrunk_hk.refl b)
    (fun b' a h => h.trans (tickInflClient_shrunk_hk now b' a))

/-- housekeeping removes in-flight records and changes nothing else -/
theorem tickInflight_shrunk_hk (s : Server) (now : Int) : Shrunk_hk s (tickInflight s now) :=
  tickInflOuter_shrunk_hk now s.clients s

/-- housekeeping only removes records: for EVERY object `j` (registered or not) -/
theorem tickInflight_sub_hk (s : Server) (now : Int) (j : Nat) :
    ∀ x ∈ (getObj (tickInflight s now) j).inflight, x ∈ (getObj s j).inflight :=
  (tickInflight_shrunk_hk s now).sub j

theorem tickInflight_clients_hk (s : Server) (now : Int) : (tickInflight s now).clients = s.clients :=
  (tickInflight_shrunk_hk s now).clients

theorem tickInflight_caps_hk (s : Server) (now : Int) : (tickInflight s now).caps = s.caps :=
  (tickInflight_shrunk_hk s now).caps

theorem tickInflight_rmsgs_hk (s : Server) (now : Int) : (tickInflight s now).rmsgs = s.rmsgs :=
  (tickInflight_shrunk_hk s now).rmsgs

theorem tickInflight_objs_length_hk (s : Server) (now : Int) : (tickInflight s now).objs.length = s.objs.length :=
  (tickInflight_shrunk_hk s now).len

/-- every field of every object other than `inflight` is kept -/
theorem tickInflight_obj_rest_hk (s : Server) (now : Int) (j : Nat) :
    { getObj (tickInflight s now) j with inflight := [] } = { getObj s j with inflight := [] } :=
  (tickInflight_shrunk_hk s now).rest j

theorem tickInflight_obj_fields_hk (s : Server) (now : Int) (j : Nat) :
    (getObj (tickInflight s now) j).isOpen = (getObj s j).isOpen ∧
    (getObj (tickInflight s now) j).stopped = (getObj s j).stopped ∧
    (getObj (tickInflight s now) j).conn = (getObj s j).conn ∧
    (getObj (tickInflight s now) j).id = (getObj s j).id ∧
    (getObj (tickInflight s now) j).ver = (getObj s j).ver ∧
    (getObj (tickInflight s now) j).sendQuota = (getObj s j).sendQuota ∧
    (getObj (tickInflight s now) j).subs = (getObj s j).subs :=
  have h := tickInflight_obj_rest_hk s now j
  ⟨(congrArg Client.isOpen h :), (congrArg Client.stopped h :), (congrArg Client.conn h :), (congrArg Client.id h :),
   (congrArg Client.ver h :), (congrArg Client.sendQuota h :), (congrArg Client.subs h :)⟩

/-! ### "every due record of a registered session is removed" -/

theorem tickInflStep_absent_hk (now : Int) (i : Nat) (s : Server) (m : Msg) (h : dueAt s.caps now m = true) :
    m ∉ (getObj (tickInflStep_hk now i s m) i).inflight := by
  have key : m ∉ (getObj (setObj s i (flDelete (getObj s i) m.id).1) i).inflight := by
    by_cases hi : i < s.objs.length
    · rw [getObj_setObj_eq s i _ hi]
      intro hm
      have hm' : m ∈ (getObj s i).inflight.filter (fun x => x.id != m.id) := hm
      have h2 := (List.mem_filter.mp hm').2
      simp only [bne_self_eq_false, Bool.false_eq_true] at h2
    · rw [getObj_setObj_ge s i _ hi]
      show m ∉ (s.objs.getD i {}).inflight
      rw [List.getD_eq_getElem?_getD, List.getElem?_eq_none (Nat.le_of_not_lt hi)]
      intro hm
      cases hm
  unfold tickInflStep_hk
  rw [if_pos h]
  by_cases hk : (flDelete (getObj s i) m.id).2 = true
  · rw [if_pos hk]; exact key
  · rw [if_neg hk]; exact key

/-- the inner loop over a list `L`, from any state `b`: every due record of `L` is absent from object `i` afterwards -/
theorem tickInflFold_absent_hk (now : Int) (i : Nat) (x : Msg) : ∀ (L : List Msg) (b : Server), x ∈ L →
    dueAt b.caps now x = true → x ∉ (getObj (L.foldl (tickInflStep_hk now i) b) i).inflight := by
  intro L
  induction L with
  | nil => intro b hx; cases hx
  | cons m L ih =>
    intro b hx hd
    rw [List.foldl_cons]
    rcases List.mem_cons.mp hx with hxm | hx'
    · rw [← hxm]
      intro hmem
      exact tickInflStep_absent_hk now i b x hd ((tickInflFold_shrunk_hk now i L _).sub i x hmem)
    · refine ih _ hx' ?_
      rw [(tickInflStep_shrunk_hk now i b m).caps]; exact hd

theorem tickInflOuter_due_hk (now : Int) (cid : Str) (i : Nat) : ∀ (cl : List (Str × Nat)) (b : Server),
    (cid, i) ∈ cl → ∀ x ∈ (getObj (cl.foldl (tickInflClient_hk now) b) i).inflight, dueAt b.caps now x = false := by
  intro cl
  induction cl with
  | nil => intro b h; cases h
  | cons e cl ih =>
    intro b hmem x hx
    rw [List.foldl_cons] at hx
    rcases List.mem_cons.mp hmem with he | hcl
    · rw [← he] at hx
      have h1 : x ∈ (getObj (tickInflClient_hk now b (cid, i)) i).inflight :=
        (tickInflOuter_shrunk_hk now cl _).sub i x hx
      have h2 : x ∈ (getObj b i).inflight := (tickInflClient_shrunk_hk now b (cid, i)).sub i x h1
      cases hd : dueAt b.caps now x
      · rfl
      · exact absurd h1 (tickInflFold_absent_hk now i x (getObj b i).inflight b h2 hd)
    · have h := ih _ hcl x hx
      rw [(tickInflClient_shrunk_hk now b e).caps] at h
      exact h

/-- after housekeeping at `now`, a REGISTERED session (any entry of the Clients map) holds no record that was due -/
theorem tickInflight_removes_due (s : Server) (now : Int) (cid : Str) (i : Nat) (hreg : (cid, i) ∈ s.clients) :
    ∀ x ∈ (getObj (tickInflight s now) i).inflight, dueAt s.caps now x = false :=
  tickInflOuter_due_hk now cid i s.clients s hreg

/-- C25, stored copies: a copy (MQTT 5) whose expiry time lies strictly before the housekeeping time is gone from its
    (registered) session after housekeeping -/
theorem C25_inflight_gone (s : Server) (now : Int) (cid : Str) (i : Nat) (m : Msg)
    (_hm : m ∈ (getObj s i).inflight) (hreg : (cid, i) ∈ s.clients) (hv : m.ver = 5) (he : 0 < m.expiry)
    (hlt : m.expiry < now) : m ∉ (getObj (tickInflight s now) i).inflight := by
  intro hin
  have h := tickInflight_removes_due s now cid i hreg m hin
  unfold dueAt at h
  simp [hv, he, hlt] at h

/-- … and so is a copy older than the server's Maximum Message Expiry Interval -/
theorem C25_inflight_gone_max (s : Server) (now : Int) (cid : Str) (i : Nat) (m : Msg)
    (hreg : (cid, i) ∈ s.clients) (hmax : 0 < s.caps.maxMessageExpiry)
    (hold : now - m.created > s.caps.maxMessageExpiry) : m ∉ (getObj (tickInflight s now) i).inflight := by
  intro hin
  have h := tickInflight_removes_due s now cid i hreg m hin
  unfold dueAt at h
  simp [hmax, hold] at h

/-! ### resend after a resumption (`ResendInflightMessages`) -/

/-- everything `admitC` writes is the write of one of the session's in-flight records (a PUBLISH with `dup` set) -/
theorem admitC_out_hk (s : Server) (i : Nat) (k : Connect) (present : Bool) :
    ∀ o ∈ (admitC s i k present).2, ∃ m ∈ (getObj s i).inflight, ∃ s' : Server,
      o ∈ writeMsg s' i (if m.type == 3 then { m with dup := true } else m) := by
  cases present
  · intro o ho
    have ho' : o ∈ ([] : List Out) := ho
    cases ho'
  · unfold admitC
    extract_lets s0
    rw [if_pos rfl]
    refine foldl_inv_mem (fun (acc : Server × List Out) => ∀ o ∈ acc.2, ∃ m ∈ (getObj s i).inflight, ∃ s' : Server,
      o ∈ writeMsg s' i (if m.type == 3 then { m with dup := true } else m)) _ _ _ ?_ ?_
    · intro o ho; cases ho
    · intro acc m hm ih o ho
      have ho' : o ∈ acc.2 ++ writeMsg acc.1 i (if m.type == 3 then { m with dup := true } else m) := ho
      rcases List.mem_append.mp ho' with h | h
      · exact ih o h
      · exact ⟨m, mem_permuteBy _ _ _ hm, acc.1, h⟩

/-- every PUBLISH packet a resumption writes is an in-flight PUBLISH record of the session, with `dup = true` -/
theorem admitC_writes_hk (s : Server) (i : Nat) (k : Connect) (present : Bool) :
    ∀ o ∈ (admitC s i k present).2, (∃ conn ver m' me, o = Out.wrote conn (.publish ver m' me)) →
      ∃ m ∈ (getObj s i).inflight, m.type = 3 ∧
        ∃ conn ver me, o = Out.wrote conn (.publish ver { m with dup := true } me) := by
  intro o ho hshape
  obtain ⟨m, hm, s', hw⟩ := admitC_out_hk s i k present o ho
  refine ⟨m, hm, ?_⟩
  unfold writeMsg at hw
  simp only at hw
  by_cases ht : m.type = 3
  · have ht' : (m.type == 3) = true := by rw [ht]; rfl
    rw [if_pos ht'] at hw
    split at hw
    · cases hw
    · rw [List.mem_singleton] at hw
      exact ⟨ht, _, _, _, hw⟩
  · have ht' : ¬ (m.type == 3) = true := by
      intro h; exact ht (by simpa using h)
    rw [if_neg ht'] at hw
    split at hw
    · cases hw
    · rw [List.mem_singleton] at hw
      obtain ⟨conn, ver, m', me, hsh⟩ := hshape
      rw [hsh] at hw
      cases hw

/-- a record that was due at the last housekeeping run is not resent when the (registered) session is resumed -/
theorem C25_no_resend_due_hk (s : Server) (now : Int) (cid : Str) (i : Nat) (hreg : (cid, i) ∈ s.clients)
    (k : Connect) (present : Bool) :
    ∀ o ∈ (admitC (tickInflight s now) i k present).2, (∃ conn ver m' me, o = Out.wrote conn (.publish ver m' me)) →
      ∃ m ∈ (getObj s i).inflight, dueAt s.caps now m = false ∧ m.type = 3 ∧
        ∃ conn ver me, o = Out.wrote conn (.publish ver { m with dup := true } me) := by
  intro o ho hshape
  obtain ⟨m, hm, ht, h⟩ := admitC_writes_hk (tickInflight s now) i k present o ho hshape
  exact ⟨m, tickInflight_sub_hk s now i m hm, tickInflight_removes_due s now cid i hreg m hm, ht, h⟩

/-! ### what housekeeping keeps: the deferred copies (finding F25a, general form) -/

theorem tickInflStep_keeps_hk (now : Int) (j i : Nat) (s : Server) (a x : Msg) (hx : x ∈ (getObj s i).inflight)
    (hid : j = i → dueAt s.caps now a = true → a.id ≠ x.id) :
    x ∈ (getObj (tickInflStep_hk now j s a) i).inflight := by
  have key : dueAt s.caps now a = true → x ∈ (getObj (setObj s j (flDelete (getObj s j) a.id).1) i).inflight := by
    intro hd
    by_cases hji : i = j
    · subst hji
      rcases getObj_setObj_self_cases s i (flDelete (getObj s i) a.id).1 with h | h
      · rw [h]
        show x ∈ (getObj s i).inflight.filter (fun m => m.id != a.id)
        refine List.mem_filter.mpr ⟨hx, ?_⟩
        have hne := hid rfl hd
        simp only [bne_iff_ne, ne_eq]
        exact fun e => hne e.symm
      · rw [h]; exact hx
    · rw [getObj_setObj_ne s j i _ hji]; exact hx
  unfold tickInflStep_hk
  by_cases h : dueAt s.caps now a = true
  · rw [if_pos h]
    by_cases hk : (flDelete (getObj s j) a.id).2 = true
    · rw [if_pos hk]; exact key h
    · rw [if_neg hk]; exact key h
  · rw [if_neg h]; exact hx

/-- housekeeping keeps a record `x` of object `i` unless a record of object `i` that is due carries `x`'s packet id
    (`x` itself included: the hypothesis implies that `x` is not due) -/
theorem tickInflight_keeps_hk (s : Server) (now : Int) (i : Nat) (x : Msg) (hx : x ∈ (getObj s i).inflight)
    (hid : ∀ y ∈ (getObj s i).inflight, dueAt s.caps now y = true → y.id ≠ x.id) :
    x ∈ (getObj (tickInflight s now) i).inflight := by
  rw [tickInflight_eq_hk]
  refine (foldl_inv (fun b => Shrunk_hk s b ∧ x ∈ (getObj b i).inflight) _ _ _ ⟨Shrunk_hk.refl s, hx⟩ ?_).2
  intro b e hb
  obtain ⟨hs, hb⟩ := hb
  unfold tickInflClient_hk
  refine foldl_inv_mem (fun b' => Shrunk_hk s b' ∧ x ∈ (getObj b' i).inflight) _ _ _ ⟨hs, hb⟩ ?_
  intro b' a ha hb'
  obtain ⟨hs', hb'⟩ := hb'
  refine ⟨hs'.trans (tickInflStep_shrunk_hk now e.2 b' a), tickInflStep_keeps_hk now e.2 i b' a x hb' ?_⟩
  intro hji hd
  have h1 := hs.sub e.2 a ha
  rw [hji] at h1
  rw [hs'.caps] at hd
  exact hid a h1 hd

/-- F25a, general form: a copy deferred by flow control (`expiry = -1 ≤ 0`) is NOT removed by housekeeping, however
    long ago its Message Expiry Interval has passed — as long as no record of the session is older than the server's
    Maximum Message Expiry Interval and the records under its packet id carry no expiry time -/
theorem C25_deferred_kept_hk (s : Server) (now : Int) (i : Nat) (x : Msg) (hx : x ∈ (getObj s i).inflight)
    (hage : s.caps.maxMessageExpiry = 0 ∨ ∀ y ∈ (getObj s i).inflight, now - y.created ≤ s.caps.maxMessageExpiry)
    (hids : ∀ y ∈ (getObj s i).inflight, y.id = x.id → y.expiry ≤ 0) :
    x ∈ (getObj (tickInflight s now) i).inflight := by
  refine tickInflight_keeps_hk s now i x hx ?_
  intro y hy hd heq
  have h0 := hids y hy heq
  unfold dueAt at hd
  simp only [Bool.or_eq_true, Bool.and_eq_true, decide_eq_true_eq] at hd
  rcases hd with ⟨⟨_, h1⟩, _⟩ | ⟨h1, h2⟩
  · omega
  · rcases hage with h | h
    · omega
    · have := h y hy
      omega

/-! ### histories -/

/-- the housekeeping op of a history is `tickInflight` -/
theorem step_tick_inflight_hk (s : Server) (t : Int) : step s (.tick "inflight" t) = (tickInflight s t, []) := rfl

theorem run_tick_inflight_hk (s : Server) (ops : List Op) (t : Int) :
    run s (ops ++ [.tick "inflight" t]) = tickInflight (run s ops) t := by
  unfold run
  rw [List.foldl_append, List.foldl_cons, List.foldl_nil, step_tick_inflight_hk]

/-- C25 on histories: once housekeeping has run at a time strictly later than a stored copy's expiry time, the copy
    is gone from its (registered) session -/
theorem C25_run_inflight_gone_hk (caps : Caps) (ops : List Op) (now : Int) (cid : Str) (i : Nat) (m : Msg)
    (hm : m ∈ (getObj (run (init caps) ops) i).inflight) (hreg : (cid, i) ∈ (run (init caps) ops).clients)
    (hv : m.ver = 5) (he : 0 < m.expiry) (hlt : m.expiry < now) :
    m ∉ (getObj (run (init caps) (ops ++ [.tick "inflight" now])) i).inflight := by
  rw [run_tick_inflight_hk]
  exact C25_inflight_gone _ now cid i m hm hreg hv he hlt

/-- subscriber `s` (MQTT 5, Session Expiry 100, Receive Maximum 1) subscribes to `a` at QoS 1; publisher `p` (MQTT 5)
    publishes payload 1 (Message Expiry Interval `me1`) and payload 2 (Message Expiry Interval 10) at QoS 1: the first
    copy is sent (packet id 1), the second is deferred (send quota 0); housekeeping runs at `NOW + 100` -/
def deferredHistory_hk (me1 : Nat) : List Op :=
  [.connect 1 { ver := 5, id := [115], clean := false, sei := some 100, rm := some 1 },
   .recv 1 (.subscribe 1 0 [{ filter := [97], qos := 1 }]),
   .connect 2 { ver := 5, id := [112] },
   .recv 2 (.publish 1 false false 1 [97] [1] me1 none),
   .recv 2 (.publish 1 false false 2 [97] [2] 10 none),
   .tick "inflight" (NOW + 100)]

/-- is `o` a PUBLISH with payload `p` written to connection `conn`? -/
def isPublishTo_hk (conn : Nat) (p : Str) (o : Out) : Bool :=
  match o with
  | .wrote c (.publish _ m _) => c == conn && m.payload == p
  | _ => false

def isPublish_hk (o : Out) : Bool :=
  match o with
  | .wrote _ (.publish ..) => true
  | _ => false

set_option maxRecDepth 100000 in
/-- finding F25a, closed: the copy deferred by flow control is exempt from message expiry -/
theorem C25_deferred_exempt_counterexample_hk :
    -- before housekeeping: the sent copy (expiry time `NOW + 1000`) and the deferred copy (`expiry = -1`; MQTT 5,
    -- Message Expiry Interval 10, i.e. expired from `NOW + 10` on)
    (getObj (run (init {}) ((deferredHistory_hk 1000).take 5)) 1).inflight.map
        (fun m => (m.id, m.payload, m.expiry, m.ver, m.msgExpiry))
      = [(1, [1], NOW + 1000, 5, 1000), (2, [2], -1, 5, 10)] ∧
    -- the session is registered
    ([115], 1) ∈ (run (init {}) (deferredHistory_hk 1000)).clients ∧
    -- housekeeping at `NOW + 100 > NOW + 10` keeps the deferred copy
    (getObj (run (init {}) (deferredHistory_hk 1000)) 1).inflight.map (fun m => (m.id, m.payload, m.expiry))
      = [(1, [1], NOW + 1000), (2, [2], -1)] ∧
    -- and the subscriber's PUBACK for the first copy releases it (`nextImmediate`): payload 2 is written to the
    -- subscriber's connection 90 s after its expiry time, after a housekeeping run
    (step (run (init {}) (deferredHistory_hk 1000)) (.recv 1 (.puback 1 0))).2.any (isPublishTo_hk 1 [2]) = true ∧
    -- compare: a copy that WAS sent with the same Message Expiry Interval 10 is removed by the same housekeeping run;
    -- the deferred one stays (and, the removed copy's send quota not being returned, the PUBACK releases nothing)
    (getObj (run (init {}) (deferredHistory_hk 10)) 1).inflight.map (fun m => (m.id, m.payload, m.expiry))
      = [(2, [2], -1)] ∧
    (step (run (init {}) (deferredHistory_hk 10)) (.recv 1 (.puback 1 0))).2 = [] := by
  decide

/-- subscriber `s` (MQTT 5, Session Expiry 100) subscribes to `a` at QoS 1, publisher `p` (MQTT 5) publishes at QoS 1
    with Message Expiry Interval 10; the subscriber does not acknowledge the copy and loses its connection -/
def offlineHistory_hk : List Op :=
  [.connect 1 { ver := 5, id := [115], clean := false, sei := some 100 },
   .recv 1 (.subscribe 1 0 [{ filter := [97], qos := 1 }]),
   .connect 2 { ver := 5, id := [112] },
   .recv 2 (.publish 1 false false 1 [97] [1] 10 none),
   .drop 1]

set_option maxRecDepth 100000 in
/-- non-vacuity: an offline session's stored copy is removed by housekeeping and not resent after a resumption -/
theorem C25_offline_copy_removed_hk :
    -- the offline session is registered and holds the unacknowledged copy (MQTT 5, expiry time `NOW + 10`)
    ([115], 1) ∈ (run (init {}) offlineHistory_hk).clients ∧
    (getObj (run (init {}) offlineHistory_hk) 1).inflight.map (fun m => (m.id, m.payload, m.expiry, m.ver))
      = [(1, [1], NOW + 10, 5)] ∧
    -- housekeeping at `NOW + 20` removes it
    (getObj (run (init {}) (offlineHistory_hk ++ [.tick "inflight" (NOW + 20)])) 1).inflight = [] ∧
    -- and the resumption (Clean Start 0, session present) writes the CONNACK and no PUBLISH
    (step (run (init {}) (offlineHistory_hk ++ [.tick "inflight" (NOW + 20)]))
        (.connect 3 { ver := 5, id := [115], clean := false, sei := some 100 })).2
      = [.wrote 3 (.connack 5 true 0 1024 2 none)] ∧
    -- compare: without the housekeeping run the copy is resent with `dup = true`
    ((step (run (init {}) offlineHistory_hk)
        (.connect 3 { ver := 5, id := [115], clean := false, sei := some 100 })).2.filter isPublish_hk).map
        (fun o => match o with | .wrote c (.publish _ m _) => (c, m.id, m.payload, m.dup) | _ => (0, 0, [], false))
      = [(3, 1, [1], true)] ∧
    -- … and so it is after a housekeeping run at `NOW + 10`, which is not strictly later than the expiry time
    ((step (run (init {}) (offlineHistory_hk ++ [.tick "inflight" (NOW + 10)]))
        (.connect 3 { ver := 5, id := [115], clean := false, sei := some 100 })).2.any isPublish_hk) = true := by
  decide

set_option maxRecDepth 100000 in
/-- the general theorems instantiated on these histories: `C25_run_inflight_gone_hk` (the offline copy) and
    `C25_deferred_kept_hk` (the deferred copy) -/
example : ∀ m ∈ (getObj (run (init {}) offlineHistory_hk) 1).inflight,
    m ∉ (getObj (run (init {}) (offlineHistory_hk ++ [.tick "inflight" (NOW + 20)])) 1).inflight := by
  intro m hm
  have h : m.ver = 5 ∧ 0 < m.expiry ∧ m.expiry < NOW + 20 := by
    revert m; decide
  exact C25_run_inflight_gone_hk {} offlineHistory_hk (NOW + 20) [115] 1 m hm (by decide) h.1 h.2.1 h.2.2

set_option maxRecDepth 100000 in
/-- the hypotheses of `C25_deferred_kept_hk` hold for the deferred copy (payload 2, Message Expiry Interval 10) of
    `deferredHistory_hk` at the housekeeping time `NOW + 100` -/
example : ∃ x ∈ (getObj (run (init {}) ((deferredHistory_hk 1000).take 5)) 1).inflight,
    x.payload = [2] ∧ x.msgExpiry = 10 ∧ x.created + 10 < NOW + 100 ∧
    (∀ y ∈ (getObj (run (init {}) ((deferredHistory_hk 1000).take 5)) 1).inflight,
      NOW + 100 - y.created ≤ (run (init {}) ((deferredHistory_hk 1000).take 5)).caps.maxMessageExpiry) ∧
    (∀ y ∈ (getObj (run (init {}) ((deferredHistory_hk 1000).take 5)) 1).inflight, y.id = x.id → y.expiry ≤ 0) := by
  decide

/-! ### axioms -/

#print axioms tickInflight_eq_hk
#print axioms tickInflight_shrunk_hk
#print axioms tickInflight_sub_hk
#print axioms tickInflight_clients_hk
#print axioms tickInflight_caps_hk
#print axioms tickInflight_rmsgs_hk
#print axioms tickInflight_objs_length_hk
#print axioms tickInflight_obj_rest_hk
#print axioms tickInflight_obj_fields_hk
#print axioms tickInflFold_absent_hk
#print axioms tickInflight_removes_due
#print axioms C25_inflight_gone
#print axioms C25_inflight_gone_max
#print axioms admitC_out_hk
#print axioms admitC_writes_hk
#print axioms C25_no_resend_due_hk
#print axioms tickInflight_keeps_hk
#print axioms C25_deferred_kept_hk
#print axioms step_tick_inflight_hk
#print axioms run_tick_inflight_hk
#print axioms C25_run_inflight_gone_hk
#print axioms C25_deferred_exempt_counterexample_hk
#print axioms C25_offline_copy_removed_hk

end Mochi.Broker
