import Mochi.Lemmas.BrokerSyncInv
/-!
# The invariant `SyncInv` through connecting, ticks and the schedule ops
-/
namespace Mochi.Broker
open Mochi.Topics

/-! ### connecting -/

/-- the live object `admitA` reports as taken over: it was the registered session, not stopped, not parked -/
theorem admitA_exLive (s : Server) (i : Nat) (k : Connect) (e : Nat) (h : (admitA s i k).2.2.2 = some e) :
    assocGet s.clients k.id = some e ∧ (getObj s e).stopped = false ∧ e ∉ s.parkedEarly ∧
      ∀ p ∈ s.pending, p.obj ≠ e := by
  unfold admitA at h
  extract_lets +onlyGivenNames src s0 exLive at h
  split at h
  rename_i s' o1 present heq
  have h : exLive = some e := h
  simp only [exLive] at h
  split at h
  · rename_i e' hce
    split at h
    · cases h
    · rename_i hcond
      cases h
      have hce : assocGet s.clients k.id = some e := hce
      simp only [Bool.or_eq_true, not_or, Bool.not_eq_true] at hcond
      obtain ⟨⟨h1, h2⟩, h3⟩ := hcond
      refine ⟨hce, h1, ?_, ?_⟩
      · intro hm
        have : s.parkedEarly.contains e = true := List.contains_iff_mem.mpr hm
        have h2 : s.parkedEarly.contains e = false := h2
        rw [this] at h2; cases h2
      · intro p hp hpe
        have h3 : s.pending.any (fun x => x.obj == e) = false := h3
        have : s.pending.any (fun x => x.obj == e) = true :=
          List.any_eq_true.mpr ⟨p, hp, by simp [hpe]⟩
        rw [this] at h3; cases h3
  · cases h

theorem admitClient_inv {s : Server} {i conn : Nat} {k : Connect} (h : SyncInvX (· = i) s) (hw : WF s)
    (hi : i < s.objs.length) (hid : (getObj s i).id = k.id) (hunreg : ∀ c, assocGet s.clients c ≠ some i)
    (hpi : ∀ p ∈ s.pending, p.obj ≠ i) (hto : (getObj s i).takenOver = false)
    (hsubs : (getObj s i).subs = []) :
    SyncInv (admitClient s i conn k).1 ∧ Lst s (admitClient s i conn k).1 ∧
      (k.clean = true → (getObj (admitClient s i conn k).1 i).subs = (getObj s i).subs) := by
  unfold admitClient
  split
  rename_i s1 o1 present exLive h1
  obtain ⟨a1, l1, t1, c1⟩ := admitA_inv (k := k) h hw hi hid hunreg hpi hto hsubs
  have hex := admitA_exLive s i k
  have k1 := admitA_keep s i k
  have w1 := admitA_wf s i k hw hi hid
  rw [h1] at a1 l1 t1 hex k1 w1 c1
  have c1 : k.clean = true → (getObj s1 i).subs = (getObj s i).subs := c1
  have a1 : SyncInv s1 := a1
  have l1 : Lst s s1 := l1
  have k1 : Keep s s1 := k1
  have w1 : WF s1 := w1
  split
  rename_i s2 o2 h2
  have q2 : Quiet s1 s2 := by
    have := admitConnack_quiet s1 i conn present
    rw [h2] at this; exact this
  have w2 : WF s2 := by
    have := admitConnack_wf s1 i conn present w1
    rw [h2] at this; exact this
  have a2 : SyncInv s2 := a1.of_quiet q2
  split
  rename_i s3 o4 h3
  have a3 : SyncInv s3 ∧ Lst s2 s3 ∧ WF s3 ∧ (getObj s3 i).subs = (getObj s2 i).subs := by
    split at h3
    · rename_i e
      obtain ⟨e1, e2, e3, e4⟩ := hex e rfl
      have hie : i ≠ e := fun x => hunreg k.id (x ▸ e1)
      have hiso := (detach_isolation s2 e i true hie).subs
      have he_lt : e < s.objs.length := (hw.clients_valid k.id e (assocGet_mem _ _ _ e1)).1
      have hnp : e ∉ s.parked := fun hm => by rw [h.parkedStopped e hm] at e2; cases e2
      have := detach_inv a2 w2 e (by rw [q2.len, k1.len]; exact he_lt) true (fun x => by cases x)
        (by rw [q2.parked, l1.parked]; exact hnp) (by rw [q2.parkedEarly, l1.parkedEarly]; exact e3)
        (Or.inl (by rw [(q2.obj e).takenOver]; exact t1 e e1))
      have hl := detach_lst s2 e true
      have hwf := detach_wf s2 e true w2
      rw [h3] at this hl hwf hiso
      exact ⟨this, hl, hwf, hiso.symm⟩
    · cases h3
      exact ⟨a2, Lst.refl _, w2, rfl⟩
  split
  rename_i s4 o3 h4
  have q4 : Quiet s3 s4 := by
    have := admitC_quiet s3 i k present
    rw [h4] at this; exact this
  refine ⟨a3.1.of_quiet q4, ((l1.trans q2.lst).trans a3.2.1).trans q4.lst, fun hcl => ?_⟩
  rw [(q4.obj i).subs, a3.2.2.2, (q2.obj i).subs]
  exact c1 hcl

/-- a new client object and its connection-table entry -/
theorem SyncInv.addObj {s : Server} (h : SyncInv s) (hw : WF s) (c : Client) (conn : Nat)
    (hsubs : c.subs = []) (hto : c.takenOver = false) (hop : c.isOpen = true) (hst : c.stopped = false) :
    SyncInvX (· = s.objs.length)
      { s with objs := s.objs ++ [c], connOf := s.connOf ++ [(conn, s.objs.length)] } := by
  have hlt : ∀ k, k < s.objs.length →
      getObj { s with objs := s.objs ++ [c], connOf := s.connOf ++ [(conn, s.objs.length)] } k = getObj s k :=
    fun k hk => getObj_append_lt (s := s) rfl k hk
  have heq : getObj { s with objs := s.objs ++ [c], connOf := s.connOf ++ [(conn, s.objs.length)] } s.objs.length = c :=
    getObj_append_eq (s := s) rfl
  have hgt : ∀ k, s.objs.length < k →
      getObj { s with objs := s.objs ++ [c], connOf := s.connOf ++ [(conn, s.objs.length)] } k = getObj s k := by
    intro k hk
    simp only [getObj, List.getD_eq_getElem?_getD]
    rw [List.getElem?_eq_none (by simp; omega), List.getElem?_eq_none (by omega)]
  have hcases : ∀ k, k = s.objs.length ∨
      getObj { s with objs := s.objs ++ [c], connOf := s.connOf ++ [(conn, s.objs.length)] } k = getObj s k := by
    intro k
    rcases Nat.lt_trichotomy k s.objs.length with hk | hk | hk
    · exact Or.inr (hlt k hk)
    · exact Or.inl hk
    · exact Or.inr (hgt k hk)
  have hlen : (s.objs ++ [c]).length = s.objs.length + 1 := by simp
  have hreglt : ∀ cid j, assocGet s.clients cid = some j → j < s.objs.length :=
    fun cid j hj => (hw.clients_valid cid j (assocGet_mem _ _ _ hj)).1
  refine ⟨h.idx, ?_, ?_, ?_, ?_, ?_, ?_, ?_, ?_, h.disj, ?_, h.pendFree, ?_, h.pendNodup, ?_⟩
  · intro cid f hcf
    obtain ⟨j, hj, hf⟩ := h.own cid f hcf
    exact ⟨j, hj, by rw [hlt j (hreglt cid j hj)]; exact hf⟩
  · intro cid j hj f hf hs
    rw [hlt j (hreglt cid j hj)] at hf
    exact h.ownB cid j hj f hf hs
  · intro k
    rcases hcases k with rfl | e
    · rw [heq]; intro fs hfs; rw [hsubs] at hfs; cases hfs
    · rw [e]; exact h.key k
  · intro k
    rcases hcases k with rfl | e
    · rw [heq, hop, hst]; rfl
    · rw [e]; exact h.os k
  · intro k hk
    rcases hcases k with rfl | e
    · rw [heq, hto] at hk; cases hk
    · rw [e] at hk ⊢; exact h.ts k hk
  · intro k hk ha ht hx hs1
    replace hk : k < (s.objs ++ [c]).length := hk
    have hk' : k < s.objs.length := by
      rw [hlen] at hk
      have : k ≠ s.objs.length := hx
      omega
    rw [hlt k hk'] at ht ⊢
    refine h.reg k hk' ?_ ht (fun x => x) hs1
    rcases ha with ha | ha | ha
    · rw [hlt k hk'] at ha; exact Or.inl ha
    · exact Or.inr (Or.inl ha)
    · exact Or.inr (Or.inr ha)
  · intro cid j hj
    rw [hlt j (hreglt cid j hj)]; exact h.regTO cid j hj
  · intro k hk
    show k < (s.objs ++ [c]).length
    have := h.parkedLt k hk
    rw [hlen]; omega
  · intro k hk
    rw [hlt k (h.parkedLt k (Or.inl hk))]; exact h.parkedStopped k hk
  · intro p hp h1
    refine ⟨(h.st1 p hp h1).1, ?_⟩
    rw [hlt p.obj (hw.pending_valid p hp).1]; exact (h.st1 p hp h1).2
  · intro p hp
    show assocGet (s.connOf ++ [(conn, s.objs.length)]) p.conn = some p.obj
    rw [assocGet_append, h.pendConn p hp]; rfl

theorem assocGet_append_fresh {α β} [DecidableEq α] (m : List (α × β)) (k : α) (v : β) (h : k ∉ m.map (·.1)) :
    assocGet (m ++ [(k, v)]) k = some v := by
  rw [assocGet_append]
  have : assocGet m k = none := by
    cases hg : assocGet m k with
    | none => rfl
    | some w => exact absurd (List.mem_map.mpr ⟨(k, w), assocGet_mem _ _ _ hg, rfl⟩) h
  rw [this]
  simp [assocGet]

/-- `attachClient` up to the read loop -/
theorem connect_inv {s : Server} (h : SyncInv s) (hw : WF s) (conn : Nat) (k : Connect)
    (hf : conn ∉ s.connOf.map (·.1)) :
    SyncInv (connect s conn k).1 ∧ Lst s (connect s conn k).1 ∧
      (connect s conn k).1.pending = s.pending ∧
      (connect s conn k).1.connOf = s.connOf ++ [(conn, s.objs.length)] ∧
      (k.clean = true → (getObj (connect s conn k).1 s.objs.length).subs = []) := by
  unfold connect
  extract_lets +onlyGivenNames c i s1
  have w1 : WF s1 := hw.addObj c conn (parseConnect_wf s conn k) hf
  have h1 : SyncInvX (· = i) s1 := h.addObj hw c conn rfl rfl rfl rfl
  have hi : i < s1.objs.length := by
    show s.objs.length < (s.objs ++ [c]).length
    simp
  have hci : getObj s1 i = c := getObj_append_eq (s := s) (s' := s1) (c := c) rfl
  have hid : (getObj s1 i).id = k.id := by rw [hci]; rfl
  have hnpk : i ∉ s1.parked := fun hm => Nat.lt_irrefl _ (h.parkedLt i (Or.inl hm))
  have hnpe : i ∉ s1.parkedEarly := fun hm => Nat.lt_irrefl _ (h.parkedLt i (Or.inr hm))
  split
  · split
    rename_i s2 o2 h2
    have q2 : Quiet s1 s2 := by
      have := stopClient_quiet s1 i
      rw [h2] at this; exact this
    have hst : (getObj s2 i).stopped = true := by
      have := stopClient_stopped s1 i hi
      rw [h2] at this; exact this
    refine ⟨(h1.of_quiet q2).weaken ?_, ⟨q2.parked, q2.parkedEarly⟩, q2.pending, q2.connOf,
      fun _ => by rw [(q2.obj i).subs, hci]; rfl⟩
    intro k' _ hx _ ha _ _
    have hx : k' = i := hx
    subst hx
    rcases ha with ha | ha | ha
    · rw [hst] at ha; cases ha
    · rw [q2.parked] at ha; exact absurd ha hnpk
    · rw [q2.parkedEarly] at ha; exact absurd ha hnpe
  · have hunreg : ∀ cid, assocGet s1.clients cid ≠ some i := by
      intro cid hc
      exact Nat.lt_irrefl _ (hw.clients_valid cid i (assocGet_mem _ _ _ hc)).1
    have hpi : ∀ p ∈ s1.pending, p.obj ≠ i := by
      intro p hp e
      have := (hw.pending_valid p hp).1
      rw [e] at this
      exact Nat.lt_irrefl _ this
    obtain ⟨a, l, cs⟩ := admitClient_inv (conn := conn) (k := k) h1 w1 hi hid hunreg hpi (by rw [hci]; rfl)
      (by rw [hci]; rfl)
    have kp := (admitClient_wf s1 i conn k w1 hi hid).2
    exact ⟨a, ⟨l.parked, l.parkedEarly⟩, kp.pending, kp.connOf, fun hcl => by rw [cs hcl, hci]; rfl⟩

/-! ### `clearExpiredClients` -/

theorem unsubscribeClient_caps (s : Server) (i : Nat) : (unsubscribeClient s i).caps = s.caps := by
  unfold unsubscribeClient
  extract_lets +onlyGivenNames c s1
  split
  · rfl
  · obtain ⟨t, n, he, _⟩ := unsubFold_spec c.id c.subs s1
    rw [he]
    rfl

theorem cleanup_getObj_ne (s : Server) (i k : Nat) (h : k ≠ i) :
    getObj (unsubscribeClient (clearInflights s i) i) k = getObj s k := by
  rw [getObj_of_objs_eq (unsubscribeClient_objs (clearInflights s i) i) k,
    getObj_setObj_ne (clearInflights s i) i k _ h]
  unfold clearInflights
  exact getObj_setObj_ne s i k _ h

theorem sessionDue_stopped {caps : Caps} {c : Client} {dt : Int} (h : sessionDue caps c dt = true) :
    c.stopped = true := by
  unfold sessionDue at h
  rw [Bool.and_eq_true] at h
  exact h.1

/-- one iteration of `clearExpiredClients` -/
def expireStep (dt : Int) (acc : Server × List Out) (e : Str × Nat) : Server × List Out :=
  let c := getObj acc.1 e.2
  if sessionDue acc.1.caps c dt then
    let s := clearInflights acc.1 e.2
    let s := unsubscribeClient s e.2
    ({ s with clients := assocDel s.clients e.1 }, acc.2 ++ [.event s!"expired({hexStr c.id})"])
  else acc

theorem expireStep_due (dt : Int) (acc : Server × List Out) (e : Str × Nat)
    (h : sessionDue acc.1.caps (getObj acc.1 e.2) dt = true) :
    (expireStep dt acc e).1 = { unsubscribeClient (clearInflights acc.1 e.2) e.2 with
      clients := assocDel (unsubscribeClient (clearInflights acc.1 e.2) e.2).clients e.1 } := by
  unfold expireStep
  simp only [h, if_true]

theorem expireStep_not (dt : Int) (acc : Server × List Out) (e : Str × Nat)
    (h : ¬ sessionDue acc.1.caps (getObj acc.1 e.2) dt = true) : expireStep dt acc e = acc := by
  unfold expireStep
  simp only [h, Bool.false_eq_true, if_false]

/-- the loop of `clearExpiredClients` over the rest `l` of the Clients map -/
theorem tickClients_loop (s : Server) (dt : Int)
    (hR : ∀ e ∈ s.clients, sessionDue s.caps (getObj s e.2) dt = true → e.2 ∉ s.parked ∧ e.2 ∉ s.parkedEarly)
    (l : List (Str × Nat)) (acc : Server × List Out)
    (ha : SyncInv acc.1) (hwa : WF acc.1) (hl : Lst s acc.1) (hcaps : acc.1.caps = s.caps)
    (hsub : ∀ e ∈ l, e ∈ s.clients ∧ e ∈ acc.1.clients ∧ getObj acc.1 e.2 = getObj s e.2)
    (hnd : (l.map (·.1)).Nodup) :
    SyncInv (l.foldl (expireStep dt) acc).1 := by
  induction l generalizing acc with
  | nil => exact ha
  | cons e0 rest ih =>
    rw [List.foldl_cons]
    rw [List.map_cons, List.nodup_cons] at hnd
    obtain ⟨h0s, h0a, h0o⟩ := hsub e0 List.mem_cons_self
    by_cases hdue : sessionDue acc.1.caps (getObj acc.1 e0.2) dt = true
    · have hstep := expireStep_due dt acc e0 hdue
      obtain ⟨hi, hid⟩ := hwa.clients_valid e0.1 e0.2 h0a
      have hreg0 : assocGet acc.1.clients e0.1 = some e0.2 := assocGet_of_mem_nodup _ _ _ hwa.clients_nodup h0a
      have hreg : assocGet acc.1.clients (getObj acc.1 e0.2).id = some e0.2 := by rw [hid]; exact hreg0
      have hdue' : sessionDue s.caps (getObj s e0.2) dt = true := by rw [← hcaps, ← h0o]; exact hdue
      obtain ⟨hnp, hne⟩ := hR e0 h0s hdue'
      have q3 := clearInflights_quiet acc.1 e0.2
      have l4 := unsubscribeClient_lst (clearInflights acc.1 e0.2) e0.2
      have hto : (getObj (clearInflights acc.1 e0.2) e0.2).takenOver = false := by
        rw [(q3.obj e0.2).takenOver]; exact ha.regTO e0.1 e0.2 hreg0
      have hcl : (unsubscribeClient (clearInflights acc.1 e0.2) e0.2).clients = acc.1.clients :=
        (unsubscribeClient_own _ e0.2 hto).clients.trans q3.clients
      apply ih
      · rw [hstep]
        have := ha.cleanup hwa e0.2 hi (sessionDue_stopped hdue) (by rw [hl.parked]; exact hnp)
          (by rw [hl.parkedEarly]; exact hne) hreg
        rw [hid] at this
        exact this
      · rw [hstep]
        exact (((hwa.of_good (clearInflights_good acc.1 e0.2)).of_good (unsubscribeClient_good _ e0.2)).of_good
          ((Good.refl _).delClient _))
      · rw [hstep]
        exact ⟨(l4.parked.trans q3.parked).trans hl.parked, (l4.parkedEarly.trans q3.parkedEarly).trans hl.parkedEarly⟩
      · rw [hstep]
        show (unsubscribeClient (clearInflights acc.1 e0.2) e0.2).caps = s.caps
        rw [unsubscribeClient_caps, q3.caps]; exact hcaps
      · intro e he
        obtain ⟨hes, hea, heo⟩ := hsub e (List.mem_cons_of_mem _ he)
        have hk : e.1 ≠ e0.1 := fun x => hnd.1 (x ▸ List.mem_map.mpr ⟨e, he, rfl⟩)
        have hobj : e.2 ≠ e0.2 := by
          intro x
          have a := (hwa.clients_valid e.1 e.2 hea).2
          rw [x] at a
          exact hk (a.symm.trans hid)
        rw [hstep]
        refine ⟨hes, ?_, ?_⟩
        · show e ∈ assocDel (unsubscribeClient (clearInflights acc.1 e0.2) e0.2).clients e0.1
          rw [hcl]
          unfold assocDel
          exact List.mem_filter.mpr ⟨hea, by simpa using hk⟩
        · show getObj (unsubscribeClient (clearInflights acc.1 e0.2) e0.2) e.2 = getObj s e.2
          rw [cleanup_getObj_ne acc.1 e0.2 e.2 hobj]; exact heo
      · exact hnd.2
    · rw [expireStep_not dt acc e0 hdue]
      exact ih acc ha hwa hl hcaps (fun e he => hsub e (List.mem_cons_of_mem _ he)) hnd.2

theorem tickClients_inv {s : Server} (h : SyncInv s) (hw : WF s) (dt : Int)
    (hR : ∀ e ∈ s.clients, sessionDue s.caps (getObj s e.2) dt = true → e.2 ∉ s.parked ∧ e.2 ∉ s.parkedEarly) :
    SyncInv (tickClients s dt).1 := by
  have : tickClients s dt = s.clients.foldl (expireStep dt) (s, []) := rfl
  rw [this]
  exact tickClients_loop s dt hR s.clients (s, []) h hw (Lst.refl s) rfl (fun e he => ⟨he, he, rfl⟩) hw.clients_nodup

/-! ### the schedule ops: parking and releasing handlers -/

/-- `dropHold`: the handler of a stopped session is parked before its clean-up -/
theorem SyncInv.park {s : Server} (h : SyncInv s) (i : Nat) (hi : i < s.objs.length)
    (hst : (getObj s i).stopped = true) (hfree : Free s i)
    (hreg : (getObj s i).takenOver = true ∨ assocGet s.clients (getObj s i).id = some i) :
    SyncInv { s with parked := s.parked ++ [i] } := by
  refine ⟨h.idx, h.own, h.ownB, h.key, h.os, h.ts, ?_, h.regTO, ?_, ?_, ?_, ?_, h.st1, h.pendNodup, h.pendConn⟩
  · intro k hk ha ht hx hs1
    by_cases hki : k = i
    · subst hki
      rcases hreg with hr | hr
      · replace ht : (getObj s k).takenOver = false := ht
        rw [hr] at ht; cases ht
      · exact hr
    · refine h.reg k hk ?_ ht hx hs1
      rcases ha with ha | ha | ha
      · exact Or.inl ha
      · replace ha : k ∈ s.parked ++ [i] := ha
        rcases List.mem_append.mp ha with ha | ha
        · exact Or.inr (Or.inl ha)
        · exact absurd (List.mem_singleton.mp ha) hki
      · exact Or.inr (Or.inr ha)
  · intro k hk
    replace hk : k ∈ s.parked ++ [i] ∨ k ∈ s.parkedEarly := hk
    rcases hk with hk | hk
    · rcases List.mem_append.mp hk with hk | hk
      · exact h.parkedLt k (Or.inl hk)
      · rw [List.mem_singleton.mp hk]; exact hi
    · exact h.parkedLt k (Or.inr hk)
  · intro k hk
    replace hk : k ∈ s.parked ++ [i] := hk
    rcases List.mem_append.mp hk with hk | hk
    · exact h.disj k hk
    · rw [List.mem_singleton.mp hk]; exact hfree.2.1
  · intro k hk
    replace hk : k ∈ s.parked ++ [i] := hk
    rcases List.mem_append.mp hk with hk | hk
    · exact h.parkedStopped k hk
    · rw [List.mem_singleton.mp hk]; exact hst
  · intro p hp
    refine ⟨fun hm => ?_, (h.pendFree p hp).2⟩
    replace hm : p.obj ∈ s.parked ++ [i] := hm
    rcases List.mem_append.mp hm with hm | hm
    · exact (h.pendFree p hp).1 hm
    · exact hfree.2.2 p hp (List.mem_singleton.mp hm)

/-- `dropHoldEarly`: the handler of a live session is parked right after its read loop -/
theorem SyncInv.parkEarly {s : Server} (h : SyncInv s) (i : Nat) (hi : i < s.objs.length)
    (hlive : (getObj s i).stopped = false) (hfree : Free s i) :
    SyncInv { s with parkedEarly := s.parkedEarly ++ [i] } := by
  refine ⟨h.idx, h.own, h.ownB, h.key, h.os, h.ts, ?_, h.regTO, ?_, ?_, h.parkedStopped, ?_, h.st1, h.pendNodup, h.pendConn⟩
  · intro k hk ha ht hx hs1
    refine h.reg k hk ?_ ht hx hs1
    rcases ha with ha | ha | ha
    · exact Or.inl ha
    · exact Or.inr (Or.inl ha)
    · replace ha : k ∈ s.parkedEarly ++ [i] := ha
      rcases List.mem_append.mp ha with ha | ha
      · exact Or.inr (Or.inr ha)
      · rw [List.mem_singleton.mp ha]; exact Or.inl hlive
  · intro k hk
    replace hk : k ∈ s.parked ∨ k ∈ s.parkedEarly ++ [i] := hk
    rcases hk with hk | hk
    · exact h.parkedLt k (Or.inl hk)
    · rcases List.mem_append.mp hk with hk | hk
      · exact h.parkedLt k (Or.inr hk)
      · rw [List.mem_singleton.mp hk]; exact hi
  · intro k hk hm
    replace hm : k ∈ s.parkedEarly ++ [i] := hm
    rcases List.mem_append.mp hm with hm | hm
    · exact h.disj k hk hm
    · rw [List.mem_singleton.mp hm] at hk; exact hfree.1 hk
  · intro p hp
    refine ⟨(h.pendFree p hp).1, fun hm => ?_⟩
    replace hm : p.obj ∈ s.parkedEarly ++ [i] := hm
    rcases List.mem_append.mp hm with hm | hm
    · exact (h.pendFree p hp).2 hm
    · exact hfree.2.2 p hp (List.mem_singleton.mp hm)

/-- parked handlers run on: they leave the lists -/
theorem SyncInv.unpark {s : Server} (h : SyncInv s) (P E : List Nat) (m1 : ∀ k, k ∈ P → k ∈ s.parked)
    (m2 : ∀ k, k ∈ E → k ∈ s.parkedEarly) : SyncInv { s with parked := P, parkedEarly := E } := by
  refine ⟨h.idx, h.own, h.ownB, h.key, h.os, h.ts, ?_, h.regTO, ?_, ?_, ?_, ?_, h.st1, h.pendNodup, h.pendConn⟩
  · intro k hk ha ht hx hs1
    refine h.reg k hk ?_ ht hx hs1
    rcases ha with ha | ha | ha
    · exact Or.inl ha
    · exact Or.inr (Or.inl (m1 k ha))
    · exact Or.inr (Or.inr (m2 k ha))
  · intro k hk
    rcases hk with hk | hk
    · exact h.parkedLt k (Or.inl (m1 k hk))
    · exact h.parkedLt k (Or.inr (m2 k hk))
  · intro k hk hm
    exact h.disj k (m1 k hk) (m2 k hm)
  · intro k hk
    exact h.parkedStopped k (m1 k hk)
  · intro p hp
    exact ⟨fun hm => (h.pendFree p hp).1 (m1 _ hm), fun hm => (h.pendFree p hp).2 (m2 _ hm)⟩

theorem eq_of_nodup_map {α β} (f : α → β) (l : List α) (h : (l.map f).Nodup) (a b : α) (ha : a ∈ l) (hb : b ∈ l)
    (hab : f a = f b) : a = b := by
  induction l with
  | nil => cases ha
  | cons x xs ih =>
    rw [List.map_cons, List.nodup_cons] at h
    rcases List.mem_cons.mp ha with ha' | ha' <;> rcases List.mem_cons.mp hb with hb' | hb'
    · rw [ha', hb']
    · subst ha'
      exact absurd (List.mem_map.mpr (⟨b, hb', hab.symm⟩ : ∃ y, y ∈ xs ∧ f y = f a)) h.1
    · subst hb'
      exact absurd (List.mem_map.mpr (⟨a, ha', hab⟩ : ∃ y, y ∈ xs ∧ f y = f b)) h.1
    · exact ih h.2 ha' hb'

/-- a handler is parked inside `attachClient` -/
theorem SyncInvX.addPending {X : Nat → Prop} {s : Server} (h : SyncInvX X s) (p : Pending)
    (hX : ∀ k, X k → p.stage = 1 ∧ p.obj = k)
    (hnew : p.obj ∉ s.pending.map (·.obj)) (hnp : p.obj ∉ s.parked) (hne : p.obj ∉ s.parkedEarly)
    (hconn : assocGet s.connOf p.conn = some p.obj)
    (h1 : p.stage = 1 → (∀ c, assocGet s.clients c ≠ some p.obj) ∧ (getObj s p.obj).takenOver = false ∧
      (getObj s p.obj).subs = []) :
    SyncInv { s with pending := s.pending ++ [p] } := by
  refine ⟨h.idx, h.own, h.ownB, h.key, h.os, h.ts, ?_, h.regTO, h.parkedLt, h.disj, h.parkedStopped, ?_, ?_, ?_, ?_⟩
  · intro k hk ha ht _ hs1
    replace hs1 : ¬ Stage1 { s with pending := s.pending ++ [p] } k := hs1
    refine h.reg k hk ha ht ?_ ?_
    · intro hx
      obtain ⟨a, b⟩ := hX k hx
      exact hs1 ⟨p, List.mem_append_right _ (List.mem_singleton.mpr rfl), a, b⟩
    · rintro ⟨q, hq, a, b⟩
      exact hs1 ⟨q, List.mem_append_left _ hq, a, b⟩
  · intro q hq
    replace hq : q ∈ s.pending ++ [p] := hq
    rcases List.mem_append.mp hq with hq | hq
    · exact h.pendFree q hq
    · rw [List.mem_singleton.mp hq]; exact ⟨hnp, hne⟩
  · intro q hq hs
    replace hq : q ∈ s.pending ++ [p] := hq
    rcases List.mem_append.mp hq with hq | hq
    · exact h.st1 q hq hs
    · rw [List.mem_singleton.mp hq] at hs ⊢; exact h1 hs
  · show ((s.pending ++ [p]).map (·.obj)).Nodup
    rw [List.map_append, List.nodup_append]
    refine ⟨h.pendNodup, List.nodup_cons.mpr ⟨List.not_mem_nil, List.nodup_nil⟩, ?_⟩
    intro a ha b hb hab
    rw [List.map_cons, List.map_nil, List.mem_singleton] at hb
    subst hb; subst hab
    exact hnew ha
  · intro q hq
    replace hq : q ∈ s.pending ++ [p] := hq
    rcases List.mem_append.mp hq with hq | hq
    · exact h.pendConn q hq
    · rw [List.mem_singleton.mp hq]; exact hconn

/-- the handlers parked on connection `conn` are released -/
theorem SyncInv.filterPending {s : Server} (h : SyncInv s) (p : Pending) (hp : p ∈ s.pending) (conn : Nat)
    (hpc : p.conn = conn) :
    SyncInvX (· = p.obj) { s with pending := s.pending.filter (·.conn != conn) } := by
  have m : ∀ q, q ∈ s.pending.filter (·.conn != conn) → q ∈ s.pending := fun q hq => (List.mem_filter.mp hq).1
  refine ⟨h.idx, h.own, h.ownB, h.key, h.os, h.ts, ?_, h.regTO, h.parkedLt, h.disj, h.parkedStopped,
    fun q hq => h.pendFree q (m q hq), fun q hq => h.st1 q (m q hq),
    (List.filter_sublist.map _).nodup h.pendNodup, fun q hq => h.pendConn q (m q hq)⟩
  intro k hk ha ht hx hs1
  replace hs1 : ¬ Stage1 { s with pending := s.pending.filter (·.conn != conn) } k := hs1
  refine h.reg k hk ha ht (fun x => x) ?_
  rintro ⟨q, hq, a, b⟩
  by_cases hqc : q.conn = conn
  · -- `q` is released too: it is parked on the same connection, hence belongs to the same object
    apply hx
    have e1 := h.pendConn q hq
    have e2 := h.pendConn p hp
    rw [hqc] at e1
    rw [hpc] at e2
    rw [e1] at e2
    have e3 : q.obj = p.obj := Option.some.inj e2
    show k = p.obj
    rw [← b]; exact e3
  · exact hs1 ⟨q, List.mem_filter.mpr ⟨hq, by simpa using hqc⟩, a, b⟩

/-! ### `connectHold`, `connectRelease` -/

theorem connectHold_inv {s : Server} (h : SyncInv s) (hw : WF s) (conn : Nat) (k : Connect) (stage : Nat)
    (hf : conn ∉ s.connOf.map (·.1)) : SyncInv (connectHold s conn k stage).1 := by
  unfold connectHold
  extract_lets +onlyGivenNames c i s1 dec
  have w1 : WF s1 := hw.addObj c conn (parseConnect_wf s conn k) hf
  have h1 : SyncInvX (· = i) s1 := h.addObj hw c conn rfl rfl rfl rfl
  have hi : i < s1.objs.length := by
    show s.objs.length < (s.objs ++ [c]).length
    simp
  have hci : getObj s1 i = c := getObj_append_eq (s := s) (s' := s1) (c := c) rfl
  have hid : (getObj s1 i).id = k.id := by rw [hci]; rfl
  have hto : (getObj s1 i).takenOver = false := by rw [hci]; rfl
  have hnpk : i ∉ s1.parked := fun hm => Nat.lt_irrefl _ (h.parkedLt i (Or.inl hm))
  have hnpe : i ∉ s1.parkedEarly := fun hm => Nat.lt_irrefl _ (h.parkedLt i (Or.inr hm))
  have hunreg : ∀ cid, assocGet s1.clients cid ≠ some i := by
    intro cid hc
    exact Nat.lt_irrefl _ (hw.clients_valid cid i (assocGet_mem _ _ _ hc)).1
  have hpi : ∀ p ∈ s1.pending, p.obj ≠ i := by
    intro p hp e
    have := (hw.pending_valid p hp).1
    rw [e] at this
    exact Nat.lt_irrefl _ this
  have hnew : i ∉ s1.pending.map (·.obj) := by
    intro hm
    obtain ⟨p, hp, e⟩ := List.mem_map.mp hm
    exact hpi p hp e
  have hconn : assocGet s1.connOf conn = some i := assocGet_append_fresh _ _ _ hf
  -- parking in the authentication hook
  have park1 : ∀ p : Pending, p.stage = 1 → p.obj = i → p.conn = conn →
      SyncInv { s1 with pending := s1.pending ++ [p] } := by
    intro p hp1 hpo hpc
    refine h1.addPending p (fun k' hk' => ⟨hp1, ?_⟩) ?_ ?_ ?_ ?_ ?_
    · have hk' : k' = i := hk'
      rw [hk', hpo]
    · rw [hpo]; exact hnew
    · rw [hpo]; exact hnpk
    · rw [hpo]; exact hnpe
    · rw [hpo, hpc]; exact hconn
    · intro _; rw [hpo]; exact ⟨hunreg, hto, by rw [hci]; rfl⟩
  -- refused at once
  have refuse : SyncInv (stopClient s1 i).1 := by
    have q2 := stopClient_quiet s1 i
    have hst := stopClient_stopped s1 i hi
    refine (h1.of_quiet q2).weaken ?_
    intro k' _ hx _ ha _ _
    have hx : k' = i := hx
    subst hx
    rcases ha with ha | ha | ha
    · rw [hst] at ha; cases ha
    · rw [q2.parked] at ha; exact absurd ha hnpk
    · rw [q2.parkedEarly] at ha; exact absurd ha hnpe
  generalize dec = d
  cases d with
  | some code =>
    refine ite_fst_prop (P := SyncInv) _ _ _ ?_ ?_
    · exact park1 _ rfl rfl rfl
    · extract_lets +onlyGivenNames o
      split
      rename_i s2 o2 h2
      rw [h2] at refuse
      exact refuse
  | none =>
    refine ite_fst_prop (P := SyncInv) _ _ _ ?_ ?_
    · exact park1 _ rfl rfl rfl
    · split
      rename_i s2 o1 present exLive hA
      obtain ⟨a2, l2, t2, _⟩ := admitA_inv (k := k) h1 w1 hi hid hunreg hpi hto (by rw [hci]; rfl)
      have hex := admitA_exLive s1 i k
      have k2 := admitA_keep s1 i k
      have w2 := admitA_wf s1 i k w1 hi hid
      rw [hA] at a2 l2 t2 hex k2 w2
      replace a2 : SyncInv s2 := a2
      replace l2 : Lst s1 s2 := l2
      replace k2 : Keep s1 s2 := k2
      replace w2 : WF s2 := w2
      split
      rename_i s3 o4 h3
      have r3 : SyncInv s3 ∧ Lst s2 s3 ∧ Good s2 s3 := by
        split at h3
        · rename_i e
          obtain ⟨e1, e2, e3, e4⟩ := hex e rfl
          have he_lt : e < s1.objs.length := (w1.clients_valid k.id e (assocGet_mem _ _ _ e1)).1
          have hnp : e ∉ s1.parked := fun hm => by rw [h1.parkedStopped e hm] at e2; cases e2
          have := detach_inv a2 w2 e (by rw [k2.len]; exact he_lt) true (fun x => by cases x)
            (by rw [l2.parked]; exact hnp) (by rw [l2.parkedEarly]; exact e3) (Or.inl (t2 e e1))
          have hl := detach_lst s2 e true
          have hg := detach_good s2 e true
          rw [h3] at this hl hg
          exact ⟨this, hl, hg⟩
        · cases h3
          exact ⟨a2, Lst.refl _, Good.refl _⟩
      obtain ⟨a3, l3, g3⟩ := r3
      refine SyncInvX.addPending a3 _ (fun _ x => absurd x (fun y => y)) ?_ ?_ ?_ ?_ (fun x => by cases x)
      · show i ∉ s3.pending.map (·.obj)
        rw [g3.pending, k2.pending]; exact hnew
      · show i ∉ s3.parked
        rw [l3.parked, l2.parked]; exact hnpk
      · show i ∉ s3.parkedEarly
        rw [l3.parkedEarly, l2.parkedEarly]; exact hnpe
      · show assocGet s3.connOf conn = some i
        rw [g3.connOf, k2.connOf]; exact hconn

theorem connectRelease_inv {s : Server} (p : Pending) (h : SyncInvX (· = p.obj) s) (hw : WF s)
    (hi : p.obj < s.objs.length) (hid : (getObj s p.obj).id = p.k.id)
    (hnpk : p.obj ∉ s.parked) (hnpe : p.obj ∉ s.parkedEarly)
    (hpi : ∀ q ∈ s.pending, q.obj ≠ p.obj)
    (h1 : p.stage = 1 → (∀ c, assocGet s.clients c ≠ some p.obj) ∧ (getObj s p.obj).takenOver = false ∧
      (getObj s p.obj).subs = [])
    (h2 : p.stage ≠ 1 → SyncInv s) :
    SyncInv (connectRelease s p).1 ∧ Lst s (connectRelease s p).1 := by
  unfold connectRelease
  split
  · rename_i hs1
    have hs1 : p.stage = 1 := by simpa using hs1
    obtain ⟨hunreg, hto, hsb⟩ := h1 hs1
    split
    · split
      rename_i s2 o2 hst2
      have q2 : Quiet s s2 := by
        have := stopClient_quiet s p.obj
        rw [hst2] at this; exact this
      have hst : (getObj s2 p.obj).stopped = true := by
        have := stopClient_stopped s p.obj hi
        rw [hst2] at this; exact this
      refine ⟨(h.of_quiet q2).weaken ?_, q2.lst⟩
      intro k' _ hx _ ha _ _
      have hx : k' = p.obj := hx
      subst hx
      rcases ha with ha | ha | ha
      · rw [hst] at ha; cases ha
      · rw [q2.parked] at ha; exact absurd ha hnpk
      · rw [q2.parkedEarly] at ha; exact absurd ha hnpe
    · exact ⟨(admitClient_inv h hw hi hid hunreg hpi hto hsb).1, (admitClient_inv h hw hi hid hunreg hpi hto hsb).2.1⟩
  · rename_i hs1
    have hs1 : p.stage ≠ 1 := by simpa using hs1
    have a := h2 hs1
    split
    · have q : Quiet s { s with info := { s.info with connected := s.info.connected - 1 } } := (Quiet.refl s).upd8
      exact ⟨a.of_quiet q, q.lst⟩
    · split
      rename_i s2 o2 hc2
      have q2 : Quiet s s2 := by
        have := admitConnack_quiet s p.obj p.conn p.present
        rw [hc2] at this; exact this
      split
      rename_i s3 o3 hc3
      have q3 : Quiet s2 s3 := by
        have := admitC_quiet s2 p.obj p.k p.present
        rw [hc3] at this; exact this
      exact ⟨a.of_quiet (q2.trans q3), (q2.trans q3).lst⟩

end Mochi.Broker
