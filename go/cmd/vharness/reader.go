package main

// Suite "reader" (C28): the REAL Client.Read loop on arbitrary byte streams.
//
//	rd.stream <ver> <maxpkt> <hex>
//
// A client is built through the exported API (mqtt.New, Server.NewClient over one end of a net.Pipe),
// its protocol version set to <ver> and the server's MaximumPacketSize to <maxpkt>; the bytes are
// written to the other end from a goroutine which then closes its side.  The packet handler records
// every packet Client.Read delivers (rendered exactly like the codec suite renders a decoded packet);
// the answer is the list of events
//
//	pk <rendering> ;; pk <rendering> ;; <final>
//
// where <final> is `needMore` (the reader ran out of bytes: io.EOF / io.ErrUnexpectedEOF), `err <class>`
// or `panic` (a Go panic inside Read, caught here by recover — in the broker nothing would catch it).

import (
	"bytes"
	"errors"
	"fmt"
	"io"
	"log/slog"
	"math/rand"
	"net"
	"strings"
	"time"

	mqtt "github.com/mochi-mqtt/server/v2"
	"github.com/mochi-mqtt/server/v2/packets"
)

var rdServer *mqtt.Server

func rdErrName(err error) string {
	if errors.Is(err, io.EOF) || errors.Is(err, io.ErrUnexpectedEOF) || errors.Is(err, io.ErrClosedPipe) {
		return "needMore"
	}
	var c packets.Code
	if errors.As(err, &c) {
		switch c {
		case packets.ErrPacketTooLarge:
			return "err ErrPacketTooLarge"
		case packets.ErrMalformedFlags:
			return "err ErrMalformedFlags"
		}
		return "err " + errName(err)
	}
	if strings.HasPrefix(err.Error(), "invalid packet type") {
		return "err ErrNoValidPacketAvailable"
	}
	return "err " + errName(err)
}

// rdStream runs Client.Read on bs and returns the rendered events.
func rdStream(ver byte, maxpkt uint32, bs []byte) (out string) {
	if rdServer == nil {
		rdServer = mqtt.New(&mqtt.Options{Logger: slog.New(slog.NewTextHandler(io.Discard, nil))})
	}
	rdServer.Options.Capabilities.MaximumPacketSize = maxpkt
	c1, c2 := net.Pipe()
	cl := rdServer.NewClient(c2, "t", "rd", false)
	cl.Properties.ProtocolVersion = ver
	wdone := make(chan struct{})
	go func() {
		defer close(wdone)
		c1.SetWriteDeadline(time.Now().Add(20 * time.Second))
		if len(bs) > 0 {
			c1.Write(bs)
		}
		c1.Close()
	}()
	var evs []string
	defer func() {
		if r := recover(); r != nil {
			evs = append(evs, "panic")
			out = strings.Join(evs, " ;; ")
		}
		c2.Close()
		<-wdone
	}()
	err := cl.Read(func(_ *mqtt.Client, pk packets.Packet) error {
		evs = append(evs, "pk "+renderPacket(&pk))
		return nil
	})
	if err == nil {
		evs = append(evs, "nil")
	} else {
		evs = append(evs, rdErrName(err))
	}
	return strings.Join(evs, " ;; ")
}

// ---------------------------------------------------------------------------------------------
// packet material shared by the reader and hostile generators

// rdProps draws a few properties, not restricted to the ones valid for the packet type.
func rdProps(r *rand.Rand) packets.Properties {
	p := packets.Properties{}
	rs := func() string { return pick(r, []string{"", "a", "a/b", "zen", "é世", "x/+", "k\x00", "\xff"}) }
	for i, k := 0, r.Intn(4); i < k; i++ {
		switch r.Intn(14) {
		case 0:
			p.PayloadFormat, p.PayloadFormatFlag = byte(r.Intn(3)), true
		case 1:
			p.MessageExpiryInterval = r.Uint32() >> uint(r.Intn(32))
		case 2:
			p.ContentType = rs()
		case 3:
			p.ResponseTopic = rs()
		case 4:
			p.CorrelationData = []byte(rs())
		case 5:
			p.SubscriptionIdentifier = append(p.SubscriptionIdentifier, r.Intn(300000000)>>uint(r.Intn(28)))
		case 6:
			p.SessionExpiryInterval, p.SessionExpiryIntervalFlag = r.Uint32()>>uint(r.Intn(32)), true
		case 7:
			p.ReasonString = rs()
		case 8:
			p.ReceiveMaximum = uint16(r.Intn(65536))
		case 9:
			p.TopicAliasMaximum = uint16(r.Intn(65536))
		case 10:
			p.TopicAlias, p.TopicAliasFlag = uint16(r.Intn(8)), true
		case 11:
			p.User = append(p.User, packets.UserProperty{Key: rs(), Val: rs()})
		case 12:
			p.AuthenticationMethod = rs()
		case 13:
			p.WillDelayInterval = uint32(r.Intn(100))
		}
	}
	return p
}

// rdTyped: a packet of any of the 15 types (server-only ones included) encoded by the repo's encoder.
func rdTyped(r *rand.Rand, ver byte) []byte {
	t := byte(1 + r.Intn(15))
	pk := packets.Packet{FixedHeader: packets.FixedHeader{Type: t}, ProtocolVersion: ver}
	pk.Mods.AllowResponseInfo = true
	if ver == 5 && r.Intn(2) == 0 {
		pk.Properties = rdProps(r)
	}
	rs := func() string {
		return pick(r, []string{"", "a", "a/b", "a/#", "+/b", "x", "$SYS/x", "é世", "a\x00b", "\xff\xfe", "a/b#"})
	}
	pk.PacketID = uint16(r.Intn(65536) >> uint(r.Intn(16)))
	pk.ReasonCode = pick(r, []byte{0, 0, 0, 4, 0x10, 0x18, 0x19, 0x80, 0x87, 0x91, 0x92})
	switch t {
	case packets.Connect:
		pk.Connect.ProtocolName = pick(r, [][]byte{[]byte("MQTT"), []byte("MQTT"), []byte("MQIsdp"), []byte("X")})
		pk.ProtocolVersion = pick(r, []byte{3, 4, 5, 5, 6})
		pk.Connect.ClientIdentifier = pick(r, []string{"h", "h2", "", "ref"})
		pk.Connect.Clean = r.Intn(2) == 0
		pk.Connect.Keepalive = uint16(30 + r.Intn(1000))
		if r.Intn(3) == 0 {
			pk.Connect.WillFlag, pk.Connect.WillTopic, pk.Connect.WillPayload = true, rs(), []byte(rs())
			pk.Connect.WillQos, pk.Connect.WillRetain = byte(r.Intn(3)), r.Intn(2) == 0
		}
		if r.Intn(4) == 0 {
			pk.Connect.UsernameFlag, pk.Connect.Username = true, []byte(rs())
		}
		if r.Intn(4) == 0 {
			pk.Connect.PasswordFlag, pk.Connect.Password = true, []byte(rs())
		}
	case packets.Connack:
		pk.SessionPresent = r.Intn(2) == 0
	case packets.Publish:
		pk.TopicName, pk.Payload = rs(), []byte(pick(r, []string{"", "p", "payload", "\x00\x01"}))
		pk.FixedHeader.Qos, pk.FixedHeader.Retain = byte(r.Intn(3)), r.Intn(3) == 0
		pk.FixedHeader.Dup = pk.FixedHeader.Qos > 0 && r.Intn(4) == 0
		if pk.FixedHeader.Qos == 0 {
			pk.PacketID = 0
		}
	case packets.Pubrel, packets.Subscribe, packets.Unsubscribe:
		pk.FixedHeader.Qos = 1
		for i, k := 0, r.Intn(3); i < k; i++ {
			pk.Filters = append(pk.Filters, packets.Subscription{Filter: rs(), Qos: byte(r.Intn(3)), NoLocal: r.Intn(3) == 0, RetainAsPublished: r.Intn(2) == 0, RetainHandling: byte(r.Intn(3))})
		}
	case packets.Suback, packets.Unsuback:
		pk.ReasonCodes = []byte(pick(r, []string{"", "\x00", "\x01\x80"}))
	}
	buf := new(bytes.Buffer)
	func() {
		defer func() {
			if recover() != nil {
				buf.Reset()
			}
		}()
		if err := encodeAny(&pk, buf); err != nil {
			buf.Reset()
		}
	}()
	if buf.Len() < 2 {
		return []byte{12 << 4, 0}
	}
	return append([]byte{}, buf.Bytes()...)
}

// rdCatalogue: one of the repo's own packet vectors (valid and invalid ones).
func rdCatalogue(r *rand.Rand) []byte {
	for k := 0; k < 20; k++ {
		cs := packets.TPacketData[byte(1+r.Intn(15))]
		if len(cs) == 0 {
			continue
		}
		c := cs[r.Intn(len(cs))]
		if len(c.RawBytes) >= 2 && len(c.RawBytes) < 400 {
			return append([]byte{}, c.RawBytes...)
		}
	}
	return []byte{12 << 4, 0}
}

// rdValid: a well-formed client packet for protocol version ver.
func rdValid(r *rand.Rand, ver byte) []byte {
	hs := func(s string) string { return hx([]byte(s)) }
	t := pick(r, []string{"a", "a/b", "x", "x/y"})
	f := pick(r, []string{"a", "a/#", "+/b", "x/+", "#"})
	id := 1 + r.Intn(5)
	switch r.Intn(10) {
	case 0:
		return buildClientPacket(ver, []string{"PINGREQ"})
	case 1, 2, 3:
		q := r.Intn(3)
		return buildClientPacket(ver, []string{"PUBLISH", fmt.Sprintf("q=%d", q), fmt.Sprintf("id=%d", id), "t=" + hs(t), "p=" + hs(fmt.Sprintf("v%d", r.Intn(100)))})
	case 4, 5:
		if ver == 5 {
			return buildClientPacket(ver, []string{"SUBSCRIBE", fmt.Sprintf("id=%d", 100+id), fmt.Sprintf("f=%s:%d:0:%d:%d", hs(f), r.Intn(3), r.Intn(2), r.Intn(3))})
		}
		return buildClientPacket(ver, []string{"SUBSCRIBE", fmt.Sprintf("id=%d", 100+id), fmt.Sprintf("f=%s:%d", hs(f), r.Intn(3))})
	case 6:
		return buildClientPacket(ver, []string{"UNSUBSCRIBE", fmt.Sprintf("id=%d", 100+id), "f=" + hs(f)})
	case 7:
		return buildClientPacket(ver, []string{pick(r, []string{"PUBACK", "PUBREC", "PUBREL", "PUBCOMP"}), fmt.Sprintf("id=%d", id)})
	case 8:
		if ver == 5 {
			return buildClientPacket(ver, []string{"PUBREC", fmt.Sprintf("id=%d", id), "rc=128"})
		}
		return buildClientPacket(ver, []string{"PUBCOMP", fmt.Sprintf("id=%d", id)})
	default:
		if ver == 5 && r.Intn(2) == 0 {
			return buildClientPacket(ver, []string{"DISCONNECT", "rc=4"})
		}
		return buildClientPacket(ver, []string{"DISCONNECT"})
	}
}

// rdHostileBytes: one hostile chunk: a packet (typed, catalogue or hand-built) possibly damaged.
func rdHostileBytes(r *rand.Rand, ver byte, maxpkt int) []byte {
	var b []byte
	switch k := r.Intn(20); {
	case k < 8:
		b = rdTyped(r, ver)
	case k < 11:
		b = rdCatalogue(r)
	case k < 12: // random bytes
		b = make([]byte, 1+r.Intn(12))
		r.Read(b)
	case k < 13: // every header byte value with a short body
		b = append([]byte{byte(r.Intn(256))}, rVarint(r.Intn(4))...)
		for len(b) < 2+int(b[1]&0x7f) && len(b) < 8 {
			b = append(b, byte(r.Intn(256)))
		}
	case k < 15: // oversized / odd remaining lengths
		hb := pick(r, []byte{0x30, 0x32, 0x82, 0xC0, 0xE0, 0x10, 0x20, 0x40, 0x62, 0x90, 0xA2, 0xB0, 0xD0, 0xF0})
		n := pick(r, []int{127, 128, 16383, 16384, 70000, 1000, 5000})
		if maxpkt > 0 {
			n = pick(r, []int{maxpkt - 2, maxpkt - 1, maxpkt, maxpkt + 1, maxpkt + 200, 2097152, 268435455})
			if n < 0 {
				n = 0
			}
		}
		b = append([]byte{hb}, rVarint(n)...)
		tail := make([]byte, r.Intn(6))
		r.Read(tail)
		b = append(b, tail...)
	case k < 16: // malformed variable byte integers
		b = append([]byte{pick(r, []byte{0x30, 0xC0, 0x82})}, pick(r, [][]byte{{0x80, 0x80, 0x80, 0x80, 0x00}, {0xff, 0xff, 0xff, 0xff}, {0xff, 0xff, 0xff, 0xff, 0x7f}, {0x80, 0x80, 0x80, 0x80}})...)
	case k < 17: // padded (non-minimal) length bytes in front of a small valid body
		body := append(rStr("a"), 'p')
		lb := pick(r, [][]byte{{byte(len(body)) | 0x80, 0x00}, {byte(len(body)) | 0x80, 0x80, 0x00}, {byte(len(body)) | 0x80, 0x80, 0x80, 0x00}})
		b = append(append([]byte{0x30}, lb...), body...)
	case k < 18: // bad flags
		b = []byte{pick(r, []byte{0x36, 0x38, 0x80, 0x83, 0xA0, 0x61, 0xC1, 0xE8, 0x11, 0x0F, 0x00}), 0}
	default: // zero-length filters, QoS 3 options, bad UTF-8 in a SUBSCRIBE / PUBLISH
		switch r.Intn(4) {
		case 0:
			b = fixedHeader(0x82, append(rU16(5), 0, 0, byte(r.Intn(4))))
		case 1:
			b = fixedHeader(0x82, append(append(rU16(6), rStr("a")...), 3))
		case 2:
			b = fixedHeader(0x30, append(rStr("a\xffb"), 'x'))
		default:
			b = fixedHeader(0xA2, append(rU16(7), 0, 0))
		}
	}
	// damage
	switch r.Intn(16) {
	case 0:
		if len(b) > 1 {
			b = b[:1+r.Intn(len(b)-1)] // truncated
		}
	case 1:
		b[r.Intn(len(b))] ^= byte(1 << uint(r.Intn(8)))
	case 2:
		i := r.Intn(len(b) + 1)
		b = append(b[:i:i], append([]byte{byte(r.Intn(256))}, b[i:]...)...)
	case 3:
		b[r.Intn(len(b))] = pick(r, []byte{0, 0xff, 0x80, 0x7f, 1})
	case 4:
		if len(b) > 2 {
			i := 1 + r.Intn(len(b)-1)
			b = append(b[:i:i], b[i+1:]...)
		}
	}
	return b
}

func init() {
	runners["rd.stream"] = func(_ *state, a []string) string {
		return rdStream(byte(atoi(a[0])), uint32(atoi(a[1])), unhx(a[2]))
	}
	suites["reader"] = suite{gen: func(r *rand.Rand, n int, emit func(string)) {
		// fixed witnesses first
		emit("rd.stream 4 4 3003000161")            // 5-byte PUBLISH, MaximumPacketSize 4: refused (the former F28 witness: it was accepted)
		emit("rd.stream 4 5 3003000161")            // a packet of exactly the maximum is accepted
		emit("rd.stream 4 4 30838080000001" + "61") // 8 bytes (padded length bytes), maximum 4: refused (formerly accepted)
		emit("rd.stream 4 8 30838080000001" + "61") // … and accepted with maximum 8
		emit("rd.stream 4 4 3004")                  // refused before any body byte arrived
		emit("rd.stream 4 4 300400016161")          // refused, body present
		emit("rd.stream 4 0 30ffffff7f")            // no limit: header accepted, body awaited
		emit("rd.stream 4 0 -")
		emit("rd.stream 4 0 c0")
		emit("rd.stream 4 0 c000c000")
		emit("rd.stream 5 0 82060001000001" + "61") // v5 SUBSCRIBE without options byte (formerly a panic)
		emit("rd.stream 4 0 c000f300c000")          // bad flags end the stream
		emit("rd.stream 4 0 308080808000")          // five length bytes
		emit("rd.stream 4 0 0000")                  // type 0
		emit("rd.stream 5 0 e000")
		emit("rd.stream 5 0 f000")
		for i := 0; i < n; i++ {
			ver := pick(r, []byte{3, 4, 5, 5, 5})
			maxpkt := 0
			if r.Intn(2) == 0 {
				maxpkt = pick(r, []int{1, 2, 4, 5, 8, 16, 16, 32, 32, 64, 128, 300, 20000})
			}
			var bs []byte
			for j, k := 0, r.Intn(4); j < k; j++ {
				bs = append(bs, rdValid(r, ver)...)
			}
			for j, k := 0, 1+r.Intn(3); j < k; j++ {
				if r.Intn(3) == 0 {
					bs = append(bs, rdValid(r, ver)...)
				} else {
					bs = append(bs, rdHostileBytes(r, ver, maxpkt)...)
				}
			}
			if r.Intn(8) == 0 && len(bs) > 0 {
				bs = bs[:r.Intn(len(bs))]
			}
			if len(bs) > 4000 {
				bs = bs[:4000]
			}
			emit(fmt.Sprintf("rd.stream %d %d %s", ver, maxpkt, hx(bs)))
		}
	}}
}
