package main

// Suite "hostile" (C28): a REFERENCE client and HOSTILE connections on the real broker.
//
//	bk.rawconn <n> <hex>    open connection n and send these bytes as its first bytes
//	bk.raw <n> <hex>        send more bytes on connection n
//
// The bytes are arbitrary.  To reach a quiescent point without assuming anything about what the broker
// makes of them, the harness frames the connection's byte stream by the fixed-header rule alone
// (first byte, variable byte integer, that many bytes — rdFrames, no validation) and sends
//
//	<the complete frames> · PINGREQ (barrier) · <the incomplete rest>
//
// waiting, after the barrier, for as many PINGRESP as the complete frames contain PINGREQs plus one —
// or for the end of the connection.  The incomplete rest is remembered (it is the head of the next
// `bk.raw` on this connection) and sent after the barrier; the broker then blocks inside
// ReadFixedHeader/ReadPacket, or refuses the header and closes.  The barrier PINGREQ is part of the
// stream the broker sees; the Lean side inserts it at the same place.

import (
	"fmt"
	"math/rand"
	"net"
	"os"
	"runtime"
	"strings"
	"time"

	"github.com/mochi-mqtt/server/v2/packets"
)

// dumpStacks writes every goroutine's stack to stderr (VERIF_DUMP_ON_TIMEOUT=1): which handler is stuck where.
func dumpStacks(why string) {
	if os.Getenv("VERIF_DUMP_ON_TIMEOUT") == "" {
		return
	}
	buf := make([]byte, 1<<20)
	n := runtime.Stack(buf, true)
	fmt.Fprintf(os.Stderr, "==== %s ====\n%s\n", why, buf[:n])
}

// rdFrames: end offsets of the complete frames at the head of b and how many of them are PINGREQs (0xC0).
func rdFrames(b []byte) (end int, pings int, count int) {
	for {
		if len(b)-end < 2 {
			return
		}
		n, u, ok := refVarint(b[end+1:])
		if !ok || len(b)-end-1-u < n {
			return
		}
		if b[end] == 0xC0 {
			pings++
		}
		end += 1 + u + n
		count++
	}
}

// announcesHuge: does any frame header of the stream b (the incomplete last one included) announce a
// remaining length above limit?  The hostile generator keeps such headers out of histories with no
// configured maximum packet size: the broker then allocates the announced size at once (up to 256 MB),
// which is a matter of memory and time, not of the sequential model.
func announcesHuge(b []byte, limit int) bool {
	end := 0
	for len(b)-end >= 2 {
		n, u, ok := refVarint(b[end+1:])
		if !ok {
			return false
		}
		if n > limit {
			return true
		}
		if len(b)-end-1-u < n {
			return false
		}
		end += 1 + u + n
	}
	return false
}

// peekConnect: client id and protocol version byte of a CONNECT at the head of b (harness scheduling
// and decoding of the broker's answers only).
func peekConnect(b []byte) (id string, ver byte, ok bool) {
	defer func() {
		if recover() != nil {
			ok = false
		}
	}()
	if len(b) < 2 || b[0]>>4 != 1 {
		return "", 4, false
	}
	n, u, vok := refVarint(b[1:])
	if !vok || len(b)-1-u < n {
		return "", 4, false
	}
	pk := packets.Packet{FixedHeader: packets.FixedHeader{Type: 1, Remaining: n}}
	if err := pk.ConnectDecode(append([]byte{}, b[1+u:1+u+n]...)); err != nil {
		return "", pk.ProtocolVersion, false
	}
	return pk.Connect.ClientIdentifier, pk.ProtocolVersion, true
}

// hostileConn carries the per-connection stream state of raw connections.
type hostileConn struct {
	pending []byte // bytes sent that do not yet form a complete frame
	started bool   // at least one complete frame was sent (the CONNECT, if it was one)
	id      string
}

func (b *bkState) hostileOf(n int) *hostileConn {
	if b.hostile == nil {
		b.hostile = map[int]*hostileConn{}
	}
	h := b.hostile[n]
	if h == nil {
		h = &hostileConn{}
		b.hostile[n] = h
	}
	return h
}

// feedRaw sends bytes on connection c with the barrier protocol described above.
func (b *bkState) feedRaw(c *bkConn, bytes []byte) string {
	h := b.hostileOf(c.n)
	all := append(append([]byte{}, h.pending...), bytes...)
	end, pings, _ := rdFrames(all)
	write := func(p []byte) error {
		if len(p) == 0 {
			return nil
		}
		c.c.SetWriteDeadline(time.Now().Add(5 * time.Second))
		_, err := c.c.Write(p)
		c.c.SetWriteDeadline(time.Time{})
		return err
	}
	if end == 0 { // still no complete frame
		write(bytes)
		h.pending = all
		if !b.settle() {
			return "timeout-settle"
		}
		return b.collect(-1)
	}
	first := !h.started
	if !h.started {
		h.started = true
		if id, ver, ok := peekConnect(all); ok {
			h.id = id
			c.ver = ver
			if old, ok := b.s.Clients.Get(id); ok && old.StopTime() == 0 {
				for _, oc := range b.conns {
					if oc.cl == old && oc != c {
						b.tkMu.Lock()
						b.takeovers[old.ID] = oc.done
						b.tkMu.Unlock()
					}
				}
			}
		} else {
			c.ver = ver
		}
	}
	err := write(all[len(h.pending):end])
	if err == nil {
		err = write([]byte{12 << 4, 0})
	}
	want := pings + 1
	ok := c.waitFor(func(pks []refPacket, eof bool) bool {
		if eof {
			return true
		}
		k := 0
		for _, p := range pks {
			if p.render == "PINGRESP" {
				k++
			}
		}
		return k >= want
	})
	if !ok {
		return "timeout-barrier"
	}
	c.mu.Lock()
	eof := c.eof
	c.mu.Unlock()
	tail := all[end:]
	h.pending = append([]byte{}, tail...)
	if eof {
		select {
		case <-c.done:
		case <-time.After(5 * time.Second):
			return "timeout-handler"
		}
	} else if len(tail) > 0 {
		write(tail)
	}
	if !b.settle() {
		dumpStacks("timeout-settle in feedRaw")
		return "timeout-settle"
	}
	c.mu.Lock()
	established := !c.eof
	c.mu.Unlock()
	if c.cl == nil && established && h.id != "" {
		if cl, ok := b.s.Clients.Get(h.id); ok && cl.StopTime() == 0 {
			c.cl = cl
		}
	}
	if first { // the op that carried the CONNECT: resent in-flight messages follow in map order (as bk.conn)
		return partitionPubs(b.collectX(c.n, c.n))
	}
	return partitionPubs(b.collect(c.n))
}

// partitionPubs: a chunk of several packets makes the connection handler (acknowledgements, written
// directly) and the write loop (PUBLISH packets, written from the queue) both write; their relative
// order is a scheduling matter (M4).  Per connection the two streams are compared separately: the
// handler-written packets in order, then the PUBLISH packets in order.
func partitionPubs(out string) string {
	toks := strings.Split(out, " ")
	for i, t := range toks {
		if len(t) > 3 && t[0] == 'c' && strings.Contains(t, ":[") && strings.HasSuffix(t, "]") {
			k := strings.Index(t, ":[")
			items := strings.Split(t[k+2:len(t)-1], ";")
			var a, p []string
			for _, it := range items {
				if strings.HasPrefix(it, "PUB:") {
					p = append(p, it)
				} else {
					a = append(a, it)
				}
			}
			toks[i] = t[:k+2] + strings.Join(append(a, p...), ";") + "]"
		}
	}
	return strings.Join(toks, " ")
}

func init() {
	runners["bk.rawconn"] = func(st *state, a []string) string {
		b := bkOf(st)
		n := atoi(a[0])
		c1, c2 := net.Pipe()
		c := &bkConn{n: n, c: c1, ver: 4, done: make(chan struct{}), aliases: map[int]string{}}
		b.conns[n] = c
		b.order = append(b.order, n)
		go b.reader(c)
		go func() {
			// like the bundled listeners: the error is only logged, closing the connection is the broker's job
			_ = b.s.EstablishConnection("t", c2)
			close(c.done)
		}()
		return b.feedRaw(c, unhx(a[1]))
	}
	// harness self-test of the crash protocol (never generated): a panic in a goroutine, as a panic in a
	// connection handler would be — nothing can recover it and the process dies.
	runners["bk.selftest-crash"] = func(st *state, a []string) string {
		go func() { panic("selftest: unrecovered panic in a goroutine") }()
		time.Sleep(2 * time.Second)
		return "-"
	}
	runners["bk.raw"] = func(st *state, a []string) string {
		b := bkOf(st)
		c := b.conns[atoi(a[0])]
		if c == nil || c.closed {
			return "no-conn"
		}
		return b.feedRaw(c, unhx(a[1]))
	}

	hs := func(s string) string { return hx([]byte(s)) }
	// a CONNECT as bytes
	connectBytes := func(r *rand.Rand, ver byte, id string, clean bool, extra string) []byte {
		pname := "MQTT"
		if ver == 3 {
			pname = "MQIsdp"
		}
		flags := byte(0)
		if clean {
			flags |= 2
		}
		var tail []byte
		if extra == "will" {
			q := byte(r.Intn(3))
			flags |= 4 | q<<3
			if ver == 5 {
				var wp []refProp
				if r.Intn(3) == 0 {
					wp = append(wp, refProp{24, rU32(uint32(pick(r, []int{0, 50})))})
				}
				tail = append(tail, rPropsBytes(wp)...)
			}
			tail = append(tail, rStr(pick(r, []string{"r/t", "w/t", "a"}))...)
			tail = append(tail, rStr("will-"+id)...)
		}
		body := append(rStr(pname), ver, flags)
		body = append(body, rU16(60+r.Intn(600))...)
		if ver == 5 {
			var ps []refProp
			if r.Intn(3) == 0 {
				ps = append(ps, refProp{17, rU32(uint32(pick(r, []int{0, 10, 100})))})
			}
			if r.Intn(4) == 0 {
				ps = append(ps, refProp{33, rU16(1 + r.Intn(3))})
			}
			if r.Intn(5) == 0 {
				ps = append(ps, refProp{34, rU16(pick(r, []int{0, 2, 10}))})
			}
			body = append(body, rPropsBytes(ps)...)
		}
		body = append(body, rStr(id)...)
		body = append(body, tail...)
		return fixedHeader(1<<4, body)
	}
	// damage that keeps the keepalive field of a CONNECT intact is not attempted: the Lean side treats a
	// decoded keepalive below 30 s as outside the model (the connection would time out by itself).
	damage := func(r *rand.Rand, b []byte) []byte {
		b = append([]byte{}, b...)
		switch r.Intn(6) {
		case 0:
			if len(b) > 1 {
				b = b[:1+r.Intn(len(b)-1)]
			}
		case 1:
			b[r.Intn(len(b))] ^= byte(1 << uint(r.Intn(8)))
		case 2:
			i := r.Intn(len(b) + 1)
			b = append(b[:i:i], append([]byte{byte(r.Intn(256))}, b[i:]...)...)
		case 3:
			b[r.Intn(len(b))] = pick(r, []byte{0, 0xff, 0x80, 0x7f, 1})
		case 4:
			if len(b) > 2 {
				i := 1 + r.Intn(len(b)-1)
				b = append(b[:i:i], b[i+1:]...)
			}
		default:
			b[0] = byte(r.Intn(256))
		}
		return b
	}

	suites["hostile"] = suite{gen: func(r *rand.Rand, n int, emit func(string)) {
		// fixed witnesses first.
		// F28b: a CONNECT whose will topic is "+/b" (retained will); the connection is dropped; the reference
		// client (subscribed to +/b) and a later subscriber to # are sent PUBLISH packets with topic name +/b
		for _, l := range []string{"reset", "bk.new", "bk.conn 1 4 1 726566", "bk.send 1 SUBSCRIBE id=1 f=2b2f62:0",
			"bk.rawconn 2 101500044d5154540426003c00016800032b2f62000177", "bk.drop 2", "bk.conn 3 4 1 6333", "bk.send 3 SUBSCRIBE id=1 f=23:0"} {
			emit(l)
		}
		// maximum packet size 100: a 100-byte PUBLISH to the reference's topic is accepted and delivered; a
		// 101-byte one (remaining length 99: only the length byte makes it too large — the former finding F28,
		// it was accepted) is refused and the connection closed
		p98 := append([]byte{0x30, 98}, append(rStr("r/t"), []byte(strings.Repeat("z", 93))...)...)
		p99 := append([]byte{0x30, 99}, append(rStr("r/t"), []byte(strings.Repeat("z", 94))...)...)
		for _, l := range []string{"reset", "bk.new maxpkt=100", "bk.conn 1 4 1 726566", "bk.send 1 SUBSCRIBE id=1 f=722f74:0",
			"bk.rawconn 2 100d00044d5154540402003c000168", "bk.raw 2 " + hx(p98), "bk.send 1 PUBLISH q=1 id=2 t=722f74 p=6d31",
			"bk.raw 2 " + hx(p99), "bk.send 1 PUBLISH q=1 id=3 t=722f74 p=6d32"} {
			emit(l)
		}
		for done := 17; done < n; {
			emit("reset")
			maxpkt := pick(r, []int{0, 0, 100, 200, 1000})
			caps := ""
			if maxpkt > 0 {
				caps = fmt.Sprintf(" maxpkt=%d", maxpkt)
			}
			if r.Intn(6) == 0 {
				caps += fmt.Sprintf(" recvmax=%d", 1+r.Intn(3))
			}
			if r.Intn(8) == 0 {
				caps += " aliasmax=0"
			}
			emit("bk.new" + caps)
			next := 1
			refVer := pick(r, []byte{4, 5, 5})
			refConn := 0
			refQos := pick(r, []int{0, 0, 1})
			seq := 0
			connectRef := func() {
				refConn = next
				next++
				emit(fmt.Sprintf("bk.conn %d %d %d %s", refConn, refVer, r.Intn(2), hs("ref")))
				emit(fmt.Sprintf("bk.send %d SUBSCRIBE id=%d f=%s:%d", refConn, 100+seq%50, hs("r/t"), refQos))
				done += 2
			}
			checkRef := func() {
				if refConn == 0 {
					connectRef()
				}
				seq++
				emit(fmt.Sprintf("bk.send %d PUBLISH q=1 id=%d t=%s p=%s", refConn, 1+seq%20, hs("r/t"), hs(fmt.Sprintf("m%d", seq))))
				done++
			}
			connectRef()
			checkRef()
			pend := map[int][]byte{} // per hostile connection: bytes after the last complete frame
			emitRaw := func(op string, hn int, raw []byte) {
				all := append(append([]byte{}, pend[hn]...), raw...)
				if maxpkt == 0 && announcesHuge(all, 65536) {
					raw = []byte{12 << 4, 0}
					all = append(append([]byte{}, pend[hn]...), raw...)
				}
				end, _, _ := rdFrames(all)
				pend[hn] = all[end:]
				emit(fmt.Sprintf("%s %d %s", op, hn, hx(raw)))
				done++
			}
			hostile := 0 // open hostile connection (optimistic)
			hostileVer := byte(4)
			l := 6 + r.Intn(16)
			for i := 0; i < l; i++ {
				switch k := r.Intn(20); {
				case hostile == 0 || k < 4: // a new hostile connection
					hn := next
					hostile = hn
					next++
					hostileVer = pick(r, []byte{3, 4, 5, 5, 5})
					id := pick(r, []string{"h", "h", "h2", "h2", "ref"})
					var raw []byte
					switch m := r.Intn(12); {
					case m < 6: // valid CONNECT, sometimes with pipelined packets
						raw = connectBytes(r, hostileVer, id, r.Intn(3) > 0, pick(r, []string{"", "", "will"}))
						if id == "ref" {
							refConn = 0
						}
						for j, q := 0, r.Intn(3)/2*(1+r.Intn(2)); j < q; j++ {
							v := rdValid(r, hostileVer)
							raw = append(raw, v...)
							if v[0] == 0xE0 {
								hostile = 0
								break
							}
						}
					case m < 8: // damaged CONNECT
						raw = damage(r, connectBytes(r, hostileVer, id, r.Intn(2) == 0, pick(r, []string{"", "will"})))
						if id == "ref" {
							refConn = -1 // the reference may or may not have been taken over: reconnect it
						}
						hostile = 0
					case m < 9: // typed CONNECT from the repo's encoder (bad names, versions, empty ids ...)
						for {
							raw = rdTyped(r, hostileVer)
							if raw[0]>>4 == 1 {
								break
							}
						}
						refConn = -1
						hostile = 0
					case m < 11: // something that is not a CONNECT
						raw = rdHostileBytes(r, hostileVer, maxpkt)
						hostile = 0
					default: // a CONNECT cut in two: the rest follows in the next bk.raw
						whole := connectBytes(r, hostileVer, id, true, "")
						cut := 1 + r.Intn(len(whole)-1)
						emitRaw("bk.rawconn", hn, whole[:cut])
						if r.Intn(2) == 0 {
							checkRef()
						}
						emitRaw("bk.raw", hn, whole[cut:])
						if id == "ref" {
							refConn = 0
						}
						raw = nil
					}
					if raw != nil {
						emitRaw("bk.rawconn", hn, raw)
					}
					if refConn == -1 {
						refConn = 0
					}
				case k < 15: // hostile bytes on the open hostile connection
					var raw []byte
					fatal := false
					items := 1 + r.Intn(3)
					for j := 0; j < items; j++ {
						m := r.Intn(10)
						if j < items-1 && m >= 7 { // only the last item of a chunk is (possibly) fatal
							m = r.Intn(7)
						}
						switch {
						case m < 4:
							v := rdValid(r, hostileVer)
							if v[0] == 0xE0 { // DISCONNECT ends the connection
								fatal = true
								j = items
							}
							raw = append(raw, v...)
						case m < 6: // publishes that reach the reference client
							raw = append(raw, buildClientPacket(hostileVer, []string{"PUBLISH", fmt.Sprintf("q=%d", r.Intn(3)), fmt.Sprintf("id=%d", 1+r.Intn(5)),
								"t=" + hs("r/t"), "p=" + hs(fmt.Sprintf("h%d", done)), pick(r, []string{"", "", "r=1"})})...)
						case m < 7 && maxpkt > 0: // a packet of maxpkt+1 … maxpkt+4 bytes: too large by its length bytes alone (refused; the former F28)
							fatal = true
							j = items
							rem := maxpkt - 1
							lb := rVarint(rem)
							for pad := r.Intn(3); pad > 0 && len(lb) < 4; pad-- {
								lb[len(lb)-1] |= 0x80
								lb = append(lb, 0)
							}
							body := append(rStr("r/t"), []byte(strings.Repeat("z", rem-5))...)
							if hostileVer == 5 {
								body = append(append(rStr("r/t"), 0), []byte(strings.Repeat("z", rem-6))...)
							}
							raw = append(append(append(raw, 0x30), lb...), body...)
						case m < 7:
							raw = append(raw, rdValid(r, hostileVer)...)
						case m < 8: // a packet cut short: the rest (or something else) follows in a later op
							v := rdValid(r, hostileVer)
							raw = append(raw, v[:1+r.Intn(len(v)-1)]...)
						default:
							raw = append(raw, rdHostileBytes(r, hostileVer, maxpkt)...)
							fatal = true
						}
					}
					emitRaw("bk.raw", hostile, raw)
					if fatal && r.Intn(8) > 0 {
						hostile = 0
					}
				case k < 16:
					emit(fmt.Sprintf("bk.drop %d", hostile))
					done++
					hostile = 0
				default:
					checkRef()
					continue
				}
				if r.Intn(3) > 0 {
					checkRef()
				}
			}
			checkRef()
			emit("bk.dump")
			done++
		}
	}}
}
