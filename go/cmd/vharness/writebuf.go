package main

// Correspondence for M11 (Model/WriteBuf.lean): the REAL Client.WritePacket / WriteLoop of one client
// over a net.Pipe connection. The write loop is the real goroutine; it is parked at the
// "writeloop.afterDequeue" yield point and released one iteration at a time.

import (
	"fmt"
	"io"
	"log/slog"
	"math/rand"
	"net"
	"sync"
	"sync/atomic"
	"time"

	mqtt "github.com/mochi-mqtt/server/v2"
	"github.com/mochi-mqtt/server/v2/packets"
)

type wpHook struct {
	mqtt.HookBase
	st *wpState
}

type wpState struct {
	s        *mqtt.Server
	cl       *mqtt.Client
	c1       net.Conn
	mu       sync.Mutex
	conn     int   // bytes received on the peer side
	reported int64 // bytes reported by OnPacketSent
	drops    int   // drop events reported to hooks
	gate     chan struct{}
	parked   int32
	wbuf     int
	seq      uint32 // sequence number stamped into the next packet's payload (payloads of >= 4 bytes)
	rx       []byte // bytes received and not yet parsed into packets
	lastSeq  uint32
	orderBad string // first out-of-order arrival seen on the wire
}

func (h *wpHook) ID() string { return "wp" }
func (h *wpHook) Provides(b byte) bool {
	return b == mqtt.OnPacketSent || b == mqtt.OnPublishDropped || b == mqtt.OnQosDropped || b == mqtt.OnPacketIDExhausted
}
func (h *wpHook) OnPacketSent(cl *mqtt.Client, pk packets.Packet, b []byte) {
	atomic.AddInt64(&h.st.reported, 1) // packets reported; the byte count compared is Info.BytesSent
}
func (h *wpHook) OnPublishDropped(cl *mqtt.Client, pk packets.Packet) {
	h.st.mu.Lock()
	h.st.drops++
	h.st.mu.Unlock()
}
func (h *wpHook) OnQosDropped(cl *mqtt.Client, pk packets.Packet) {
	h.st.mu.Lock()
	h.st.drops++
	h.st.mu.Unlock()
}
func (h *wpHook) OnPacketIDExhausted(cl *mqtt.Client, pk packets.Packet) {
	h.st.mu.Lock()
	h.st.drops++
	h.st.mu.Unlock()
}

func wpOf(st *state) *wpState {
	if x, ok := st.m["wp"]; ok {
		return x.(*wpState)
	}
	return nil
}

// wpPacket: a QoS 0 PUBLISH (MQTT 3.1.1) on topic "t" whose encoded size is exactly size
// (1 header byte + the remaining-length bytes + 2 + 1 + payload); sizes 130 and 16387 do not exist.
func wpPacket(size int) packets.Packet { return wpPacketSeq(size, 0) }

// wpPacketSeq stamps seq (big endian) into the first four payload bytes when the payload has room
func wpPacketSeq(size int, seq uint32) packets.Packet {
	for n := size - 7; n <= size-5; n++ {
		if n < 0 {
			continue
		}
		rem := 3 + n
		lb := 1
		if rem >= 128 {
			lb = 2
		}
		if rem >= 16384 {
			lb = 3
		}
		if 1+lb+rem == size {
			pl := make([]byte, n)
			if n >= 4 && seq > 0 {
				pl[0], pl[1], pl[2], pl[3] = byte(seq>>24), byte(seq>>16), byte(seq>>8), byte(seq)
			}
			return packets.Packet{FixedHeader: packets.FixedHeader{Type: packets.Publish}, TopicName: "t", Payload: pl}
		}
	}
	panic("no PUBLISH of that size")
}

// parse consumes complete PUBLISH packets from rx and checks that stamped sequence numbers only grow
func (w *wpState) parse() {
	for len(w.rx) >= 2 {
		rem, lb := 0, 0
		for i := 1; i < len(w.rx) && i <= 4; i++ {
			rem |= int(w.rx[i]&0x7f) << (7 * uint(i-1))
			if w.rx[i]&0x80 == 0 {
				lb = i
				break
			}
		}
		if lb == 0 || len(w.rx) < 1+lb+rem {
			return
		}
		body := w.rx[1+lb : 1+lb+rem]
		if len(body) >= 3+4 {
			pl := body[3:]
			seq := uint32(pl[0])<<24 | uint32(pl[1])<<16 | uint32(pl[2])<<8 | uint32(pl[3])
			if seq > 0 {
				if seq < w.lastSeq && w.orderBad == "" {
					w.orderBad = fmt.Sprintf("bad(%d-after-%d)", seq, w.lastSeq)
				}
				if seq > w.lastSeq {
					w.lastSeq = seq
				}
			}
		}
		w.rx = w.rx[1+lb+rem:]
	}
}

func (w *wpState) settle() {
	last, stable := -1, 0
	for i := 0; i < 20000 && stable < 4; i++ {
		w.mu.Lock()
		c := w.conn
		w.mu.Unlock()
		if c == last {
			stable++
		} else {
			stable = 0
		}
		last = c
		time.Sleep(50 * time.Microsecond)
	}
}

func (w *wpState) render(res string) string {
	w.settle()
	w.mu.Lock()
	conn, drops := w.conn, w.drops
	order := "ok"
	if w.orderBad != "" {
		order = w.orderBad
	}
	w.mu.Unlock()
	ob := "nil"
	if n := w.cl.VerifOutbufLen(); n > 0 {
		ob = fmt.Sprint(n)
	}
	return fmt.Sprintf("%s q=%d outbuf=%s conn=%d reported=%d dropreports=%d order=%s", res, w.cl.VerifOutboundQty(), ob, conn,
		atomic.LoadInt64(&w.s.Info.BytesSent), drops, order)
}

func init() {
	runners["wp.new"] = func(st *state, a []string) string { // wp.new wbuf=<n> mps=<m>
		if old := wpOf(st); old != nil {
			old.close()
		}
		m := kvs(a)
		w := &wpState{gate: make(chan struct{}), wbuf: kvInt(m, "wbuf", 2048)}
		caps := mqtt.NewDefaultServerCapabilities()
		caps.MaximumClientWritesPending = 64
		w.s = mqtt.New(&mqtt.Options{Capabilities: caps, ClientNetWriteBufferSize: w.wbuf, InlineClient: true,
			Logger: slog.New(slog.NewTextHandler(io.Discard, nil))})
		if err := w.s.AddHook(&wpHook{st: w}, nil); err != nil {
			return "hook-error " + err.Error()
		}
		c1, c2 := net.Pipe()
		w.c1 = c1
		w.cl = w.s.NewClient(c2, "t", "wp", false)
		w.cl.Properties.ProtocolVersion = 4
		w.cl.Properties.Props.MaximumPacketSize = uint32(kvInt(m, "mps", 0))
		mqtt.VerifYield = func(point string, cl *mqtt.Client) {
			if point == "writeloop.afterDequeue" && cl == w.cl {
				atomic.StoreInt32(&w.parked, 1)
				<-w.gate
				atomic.StoreInt32(&w.parked, 0)
			}
		}
		go func() { // the peer: counts what really arrives
			tmp := make([]byte, 1<<16)
			for {
				n, err := c1.Read(tmp)
				w.mu.Lock()
				w.conn += n
				w.rx = append(w.rx, tmp[:n]...)
				w.parse()
				w.mu.Unlock()
				if err != nil {
					return
				}
			}
		}()
		go w.cl.WriteLoop()
		st.m["wp"] = w
		return "-"
	}
	runners["wp.enq"] = func(st *state, a []string) string { // wp.enq <size>
		w := wpOf(st)
		wasEmpty := w.cl.VerifOutboundQty() == 0
		w.seq++
		pk := wpPacketSeq(atoi(a[0]), w.seq)
		if len(a) > 1 && a[1] == "expired" { // an MQTT 5 message whose expiry time lies in the past: the write path sends it all the same
			pk.ProtocolVersion = 5
			pk.Expiry = 1
		}
		if !w.cl.VerifEnqueue(pk) {
			return w.render("full")
		}
		if wasEmpty { // the write loop dequeues at once and parks at the yield point
			for i := 0; i < 200000 && atomic.LoadInt32(&w.parked) == 0; i++ {
				time.Sleep(10 * time.Microsecond)
			}
		}
		return w.render("ok")
	}
	runners["wp.loop"] = func(st *state, a []string) string { // one WriteLoop iteration
		w := wpOf(st)
		if atomic.LoadInt32(&w.parked) == 0 {
			return w.render("idle")
		}
		before := w.cl.VerifOutboundQty()
		w.gate <- struct{}{}
		// the iteration is over when outboundQty dropped; then the loop either parks again (more queued) or blocks
		for i := 0; i < 400000; i++ {
			q := w.cl.VerifOutboundQty()
			if q == before-1 && (q == 0 || atomic.LoadInt32(&w.parked) == 1) {
				break
			}
			time.Sleep(10 * time.Microsecond)
		}
		return w.render("ok")
	}
	runners["wp.direct"] = func(st *state, a []string) string { // a handler's own WritePacket
		w := wpOf(st)
		err := w.cl.WritePacket(wpPacket(atoi(a[0])))
		r := "sent"
		if err != nil {
			if err == packets.ErrPacketTooLarge {
				r = "toolarge"
			} else {
				r = "err"
			}
		}
		return w.render(r)
	}
	suites["writebuf"] = suite{gen: func(r *rand.Rand, n int, emit func(string)) {
		for n > 0 {
			emit("reset")
			wbuf := pick(r, []int{8, 16, 32, 64, 2048})
			mps := pick(r, []int{0, 0, 12, 20, 40})
			emit(fmt.Sprintf("wp.new wbuf=%d mps=%d", wbuf, mps))
			n -= 2
			queued := 0
			k := 6 + r.Intn(24)
			for i := 0; i < k && n > 0; i++ {
				size := pick(r, []int{5, 6, 7, 9, 12, 13, 15, 20, 21, 30, 41, 64, 129, 131, 200})
				switch x := r.Intn(10); {
				case x < 4:
					if r.Intn(5) == 0 {
						emit(fmt.Sprintf("wp.enq %d expired", size))
					} else {
						emit(fmt.Sprintf("wp.enq %d", size))
					}
					queued++
				case x < 8 && queued > 0:
					emit("wp.loop")
					queued--
				case x < 8:
					emit(fmt.Sprintf("wp.enq %d", size))
					queued++
				default:
					emit(fmt.Sprintf("wp.direct %d", size))
				}
				n--
			}
			for queued > 0 && n > -40 { // drain: the history ends quiescent
				emit("wp.loop")
				queued--
				n--
			}
		}
	}}
}

func (w *wpState) close() {
	mqtt.VerifYield = nil
	w.cl.Stop(nil)
	w.c1.Close()
	select {
	case w.gate <- struct{}{}:
	default:
	}
}
