package main

import (
	"fmt"
	"math/rand"
	"runtime"
	"sort"
	"strconv"
	"strings"
	"sync"

	mqtt "github.com/mochi-mqtt/server/v2"
	"github.com/mochi-mqtt/server/v2/packets"
)

func topicsIdx(st *state) *mqtt.TopicsIndex {
	if x, ok := st.m["topics"]; ok {
		return x.(*mqtt.TopicsIndex)
	}
	x := mqtt.NewTopicsIndex()
	st.m["topics"] = x
	return x
}

func atoi(s string) int { n, _ := strconv.Atoi(s); return n }

func subFull(s packets.Subscription) string {
	ids := "nil"
	if s.Identifiers != nil {
		var xs []string
		for f, n := range s.Identifiers {
			xs = append(xs, fmt.Sprintf("%s=%d", hx([]byte(f)), n))
		}
		sort.Strings(xs)
		ids = strings.Join(xs, ",")
	}
	return "(" + mqtt.VerifSubString(s) + "):ids(" + ids + ")"
}

func init() {
	runners["t.valid"] = func(_ *state, a []string) string {
		return b2s(mqtt.IsValidFilter(string(unhx(a[0])), a[1] == "1"))
	}
	runners["t.iso"] = func(_ *state, a []string) string {
		k, hn := mqtt.VerifIsolateParticle(string(unhx(a[0])), atoi(a[1]))
		return hx([]byte(k)) + " " + b2s(hn)
	}
	runners["t.sub"] = func(st *state, a []string) string {
		s := packets.Subscription{Filter: string(unhx(a[1])), Qos: byte(atoi(a[2])), NoLocal: a[3] == "1",
			RetainAsPublished: a[4] == "1", RetainHandling: byte(atoi(a[5])), Identifier: atoi(a[6])}
		return b2s(topicsIdx(st).Subscribe(string(unhx(a[0])), s))
	}
	runners["t.unsub"] = func(st *state, a []string) string {
		return b2s(topicsIdx(st).Unsubscribe(string(unhx(a[0])), string(unhx(a[1]))))
	}
	runners["t.isub"] = func(st *state, a []string) string {
		s := mqtt.InlineSubscription{Subscription: packets.Subscription{Filter: string(unhx(a[1])), Identifier: atoi(a[0])}}
		return b2s(topicsIdx(st).InlineSubscribe(s))
	}
	runners["t.iunsub"] = func(st *state, a []string) string {
		return b2s(topicsIdx(st).InlineUnsubscribe(atoi(a[0]), string(unhx(a[1]))))
	}
	runners["t.retain"] = func(st *state, a []string) string {
		pk := packets.Packet{FixedHeader: packets.FixedHeader{Type: packets.Publish, Retain: a[2] == "1"},
			TopicName: string(unhx(a[0])), Payload: unhx(a[1])}
		return fmt.Sprint(topicsIdx(st).RetainMessage(pk))
	}
	runners["t.dump"] = func(st *state, a []string) string { return topicsIdx(st).VerifTrieDump() }
	runners["t.subs"] = func(st *state, a []string) string {
		r := topicsIdx(st).Subscribers(string(unhx(a[0])))
		var ss, hs, rs, rh []string
		for c, s := range r.Subscriptions {
			ss = append(ss, hx([]byte(c))+":"+subFull(s))
			var ids []int
			for _, n := range s.Identifiers {
				if n > 0 {
					ids = append(ids, n)
				}
			}
			sort.Ints(ids)
			var is []string
			last := -1
			for _, n := range ids {
				if n != last {
					is = append(is, strconv.Itoa(n))
				}
				last = n
			}
			rs = append(rs, fmt.Sprintf("%s:q%d:i%s", hx([]byte(c)), s.Qos, strings.Join(is, ",")))
		}
		for f, m := range r.Shared {
			for c, s := range m {
				hs = append(hs, hx([]byte(f))+":"+hx([]byte(c))+":("+mqtt.VerifSubString(s)+")")
				ls := strings.Split(f, "/")
				if len(ls) >= 3 {
					var ps []string
					for _, l := range ls[2:] {
						ps = append(ps, hx([]byte(l)))
					}
					rh = append(rh, hx([]byte(c))+"/"+hx([]byte(ls[1]))+"/"+strings.Join(ps, "/"))
				} else {
					rh = append(rh, hx([]byte(c))+"/?/?")
				}
			}
		}
		var ids []int
		for id := range r.InlineSubscriptions {
			ids = append(ids, id)
		}
		sort.Ints(ids)
		var is []string
		for _, id := range ids {
			is = append(is, strconv.Itoa(id))
		}
		sort.Strings(ss)
		sort.Strings(hs)
		sort.Strings(rs)
		sort.Strings(rh)
		full := fmt.Sprintf("S[%s] H[%s] I[%s]", strings.Join(ss, ";"), strings.Join(hs, ";"), strings.Join(is, ","))
		red := fmt.Sprintf("S[%s] H[%s] I[%s]", strings.Join(rs, ";"), strings.Join(rh, ";"), strings.Join(is, ","))
		return full + " @ " + red
	}
	runners["t.msgs"] = func(st *state, a []string) string {
		var xs []string
		for _, pk := range topicsIdx(st).Messages(string(unhx(a[0]))) {
			xs = append(xs, hx([]byte(pk.TopicName))+"="+hx(pk.Payload))
		}
		sort.Strings(xs)
		return strings.Join(xs, ";")
	}

	// t.conc <thread>|<thread>|... : each thread = ops joined by ",", an op = name and args joined by ":".
	// The threads run on separate goroutines against the real index; output = per-thread return values
	// and the final dump. The Lean driver searches the serialisation (consistent with each thread's
	// program order) that explains them (C31).
	runners["t.conc"] = func(st *state, a []string) string {
		x := topicsIdx(st)
		threads := strings.Split(a[0], "|")
		res := make([][]string, len(threads))
		var wg sync.WaitGroup
		start := make(chan struct{})
		for i, th := range threads {
			ops := strings.Split(th, ",")
			res[i] = make([]string, len(ops))
			wg.Add(1)
			go func(i int, ops []string) {
				defer wg.Done()
				<-start
				for j, op := range ops {
					f := strings.Split(op, ":")
					res[i][j] = safeRun(runners["t."+f[0]], st, f[1:])
					runtime.Gosched()
				}
			}(i, ops)
		}
		close(start)
		wg.Wait()
		var rs []string
		for _, r := range res {
			rs = append(rs, strings.Join(r, ","))
		}
		return strings.Join(rs, "|") + " D " + x.VerifTrieDump()
	}

	lv := []string{"a", "b", "", "a", "b", "c"}
	genTopic := func(r *rand.Rand) string {
		n := 1 + r.Intn(4)
		ls := make([]string, n)
		for i := range ls {
			ls[i] = pick(r, lv)
		}
		switch r.Intn(8) {
		case 0:
			ls[0] = "$x"
		case 1:
			ls[0] = "$SYS"
		}
		if n > 1 && r.Intn(6) == 0 { // a `$` level below the first one is an ordinary level
			ls[1+r.Intn(n-1)] = "$y"
		}
		t := strings.Join(ls, "/")
		if t == "" {
			t = "a"
		}
		return t
	}
	genFilter := func(r *rand.Rand, allowShare bool) string {
		n := 1 + r.Intn(4)
		ls := make([]string, n)
		for i := range ls {
			if r.Intn(3) == 0 {
				ls[i] = "+"
			} else {
				ls[i] = pick(r, lv)
			}
		}
		switch r.Intn(10) {
		case 0:
			ls[0] = "$x"
		case 1:
			ls[0] = "$SYS"
		}
		switch r.Intn(3) {
		case 0:
			ls[n-1] = "#"
		case 1:
			if n < 4 {
				ls = append(ls, "#")
			}
		}
		if n > 1 && r.Intn(10) == 0 {
			ls[1+r.Intn(n-1)] = "$y"
		}
		f := strings.Join(ls, "/")
		if f == "" {
			f = "+"
		}
		if allowShare && r.Intn(4) == 0 {
			f = pick(r, []string{"$share", "$SHARE", "$Share"}) + "/" + pick(r, []string{"g", "h"}) + "/" + f
		} else if allowShare && r.Intn(16) == 0 {
			// ordinary filters whose first level merely BEGINS with $share: not shared subscriptions
			f = pick(r, []string{"$shares", "$shared", "$SHAREX", "$share-me"}) + "/" + pick(r, []string{"g", "h"}) + "/" + f
		}
		return f
	}
	invalid := []string{"a/b#", "a+", "a/+b/c", "$share/g/", "$share//a", "a/#/b", "$share/g", "$share", "#/a", "+a", "$share/g+/a", "a/b/#x", "$share/g/a/#/b", "$\xc5\xbfhare/g/a", "$\xc5\xbfhare/g"}
	hs := func(s string) string { return hx([]byte(s)) }
	suites["topics"] = suite{gen: func(r *rand.Rand, n int, emit func(string)) {
		clients := []string{"c1", "c2", "c3"}
		for done := 0; done < n; {
			emit("reset")
			useInvalid := r.Intn(8) == 0
			var filters []string
			nf := 2 + r.Intn(4)
			for i := 0; i < nf; i++ {
				if useInvalid && r.Intn(3) == 0 {
					filters = append(filters, pick(r, invalid))
				} else {
					filters = append(filters, genFilter(r, true))
				}
			}
			var topics []string
			for i := 0; i < 3; i++ {
				topics = append(topics, genTopic(r))
			}
			l := 8 + r.Intn(25)
			for i := 0; i < l; i++ {
				done++
				switch k := r.Intn(20); {
				case k < 5:
					emit(fmt.Sprintf("t.sub %s %s %d %d %d %d %d", hs(pick(r, clients)), hs(pick(r, filters)), r.Intn(3), r.Intn(2), r.Intn(2), r.Intn(3), r.Intn(4)))
				case k < 7:
					emit(fmt.Sprintf("t.unsub %s %s", hs(pick(r, filters)), hs(pick(r, clients))))
				case k < 9:
					f := pick(r, filters)
					emit(fmt.Sprintf("t.isub %d %s", 1+r.Intn(3), hs(f)))
				case k < 10:
					emit(fmt.Sprintf("t.iunsub %d %s", 1+r.Intn(3), hs(pick(r, filters))))
				case k < 13:
					p := "p" + strconv.Itoa(r.Intn(3))
					if r.Intn(4) == 0 {
						p = ""
					}
					emit(fmt.Sprintf("t.retain %s %s %d", hs(pick(r, topics)), hs(p), r.Intn(5)/4^1))
				case k < 16:
					t := pick(r, topics)
					if r.Intn(3) == 0 {
						t = genTopic(r)
					}
					emit("t.subs " + hs(t))
				case k < 18:
					f := pick(r, filters)
					if r.Intn(3) == 0 {
						f = genFilter(r, false)
					}
					emit("t.msgs " + hs(f))
				case k < 19:
					emit("t.dump")
				default:
					emit(fmt.Sprintf("t.iso %s %d", hs(pick(r, filters)), r.Intn(5)))
				}
			}
			emit("t.dump")
			for _, t := range topics {
				emit("t.subs " + hs(t))
			}
			for _, f := range filters {
				emit("t.msgs " + hs(f))
			}
		}
	}}
	// concurrent batches on the real index (C31): 2-4 goroutines, few enough ops that every serialisation
	// consistent with program order can be enumerated (<= 1680)
	suites["topicsconc"] = suite{gen: func(r *rand.Rand, n int, emit func(string)) {
		clients := []string{"c1", "c2"}
		multinomial := func(ks []int) int {
			tot, m := 0, 1
			for _, k := range ks {
				for j := 1; j <= k; j++ {
					tot++
					m = m * tot / j
				}
			}
			return m
		}
		for done := 0; done < n; {
			emit("reset")
			filters := []string{genFilter(r, true), genFilter(r, true), genFilter(r, false)}
			topics := []string{genTopic(r), genTopic(r)}
			genOp := func() string {
				switch k := r.Intn(10); {
				case k < 3:
					return fmt.Sprintf("sub:%s:%s:%d:0:0:0:%d", hs(pick(r, clients)), hs(pick(r, filters)), r.Intn(3), r.Intn(3))
				case k < 6:
					return fmt.Sprintf("unsub:%s:%s", hs(pick(r, filters)), hs(pick(r, clients)))
				case k < 7:
					return fmt.Sprintf("isub:%d:%s", 1+r.Intn(2), hs(filters[2]))
				case k < 8:
					return fmt.Sprintf("iunsub:%d:%s", 1+r.Intn(2), hs(filters[2]))
				default:
					p := "p" + strconv.Itoa(r.Intn(2))
					if r.Intn(3) == 0 {
						p = ""
					}
					return fmt.Sprintf("retain:%s:%s:1", hs(pick(r, topics)), hs(p))
				}
			}
			for b := 0; b < 3+r.Intn(4); b++ {
				var ks []int
				for {
					ks = ks[:0]
					for g := 0; g < 2+r.Intn(3); g++ {
						ks = append(ks, 1+r.Intn(4))
					}
					if multinomial(ks) <= 1680 {
						break
					}
				}
				var ths []string
				for _, k := range ks {
					var ops []string
					for j := 0; j < k; j++ {
						ops = append(ops, genOp())
						done++
					}
					ths = append(ths, strings.Join(ops, ","))
				}
				emit("t.conc " + strings.Join(ths, "|"))
				emit("t.subs " + hs(pick(r, topics)))
				emit("t.msgs " + hs(pick(r, filters)))
			}
			emit("t.dump")
		}
	}}
	// filter validation: exhaustive over token strings of bounded length + random
	suites["filters"] = suite{gen: func(r *rand.Rand, n int, emit func(string)) {
		toks := []string{"/", "+", "#", "$", "a", "share", "$share", "$SYS", "g"}
		for _, s := range invalid {
			emit("t.valid " + hs(s) + " 0")
			emit("t.valid " + hs(s) + " 1")
		}
		for _, s := range []string{"", "$SYS", "$sys/a", "$SYSTEM", "$SY", "a", "a/b", "$share/g/a", "$SHARE/g/#", "+/+/#", "#", "+", "a//b", "/", "//", "$share/g/+", "$share/g//", "$share/g/a/"} {
			emit("t.valid " + hs(s) + " 0")
			emit("t.valid " + hs(s) + " 1")
		}
		for i := 0; i < n; i++ {
			l := 1 + r.Intn(7)
			var sb strings.Builder
			for j := 0; j < l; j++ {
				sb.WriteString(pick(r, toks))
			}
			emit(fmt.Sprintf("t.valid %s %d", hs(sb.String()), r.Intn(2)))
		}
	}}
}
