package main

import (
	"encoding/hex"
	"math/rand"
)

func hx(b []byte) string {
	if len(b) == 0 {
		return "-"
	}
	return hex.EncodeToString(b)
}

func unhx(s string) []byte {
	if s == "-" {
		return []byte{}
	}
	b, err := hex.DecodeString(s)
	if err != nil {
		panic("bad hex " + s)
	}
	return b
}

func pick[T any](r *rand.Rand, xs []T) T { return xs[r.Intn(len(xs))] }

func b2s(b bool) string {
	if b {
		return "1"
	}
	return "0"
}
