package main

// Sequential driver of the REAL broker: clients are net.Pipe connections handled by the real
// EstablishConnection / attachClient goroutines; one op is applied at a time and the harness waits
// for quiescence (PINGREQ/PINGRESP barrier + drained write queues) before rendering what each
// connection received, decoded by the independent decoder in refdec.go.

import (
	"bytes"
	"fmt"
	"io"
	"log/slog"
	"net"
	"runtime"
	"sort"
	"strings"
	"sync"
	"sync/atomic"
	"time"

	mqtt "github.com/mochi-mqtt/server/v2"
	"github.com/mochi-mqtt/server/v2/packets"
)

type bkConn struct {
	n      int
	c      net.Conn // client side
	ver    byte
	mu     sync.Mutex
	buf    []byte // bytes received and not yet rendered
	total  int
	eof    bool
	done   chan struct{} // EstablishConnection returned
	closed bool          // client side closed by the harness
	cl     *mqtt.Client  // the server-side client object of this connection
	// C24 bookkeeping: aliases the client has seen bound on this connection
	aliases map[int]string
	holdKey string // non-empty while the connecting handler is parked (bk.connhold)
	holdCh  chan struct{}
	cut     bool // the reader was stopped by bk.sendcut
	// QoS>0 PUBLISH packets this connection has received and not yet fully acknowledged, oldest first
	// (bk.ack acknowledges the oldest): id, qos, stage (QoS 2: 0 = PUBREC due, 1 = PUBCOMP due)
	pend [][3]int
	cid  string
}

type bkHook struct {
	mqtt.HookBase
	st *bkState
}

type bkState struct {
	s       *mqtt.Server
	conns   map[int]*bkConn
	order   []int
	mu      sync.Mutex
	events  []string
	auth    string // allow | none | deny:<id>
	aclDeny map[string]bool
	pubHook map[string]string // topic -> reject|ignore|err
	t0      int64
	// takeover ordering: client id -> done channel of the live connection being taken over
	tkMu      sync.Mutex
	takeovers map[string]chan struct{}
	// handlers parked at "attach.beforeCleanup" (bk.drophold ... bk.release): client object -> release channel
	holds  map[*mqtt.Client]chan struct{}
	parked chan *mqtt.Client
	// handlers parked right after their read loop (bk.dropholdearly)
	holdsEarly map[*mqtt.Client]chan struct{}
	// connecting handlers parked inside attachClient (bk.connhold): "<stage>:<client id>" -> release channel
	connHolds  map[string]chan struct{}
	connParked chan string
	hostile    map[int]*hostileConn // raw connections (hostile.go)
	// C25: server maximum message expiry; payload (hex) -> the effective interval of that publish (0 = none)
	msgexp int
	pubEff map[string]int
}

// yield is installed as mqtt.VerifYield: the new connection's handler waits after its CONNACK until
// the handler of the connection it took over has finished (a fixed, sequential schedule; other
// interleavings are explored by the concurrency suites).
func (b *bkState) yield(point string, cl *mqtt.Client) {
	if point == "attach.afterRead" && cl != nil {
		b.tkMu.Lock()
		ch := b.holdsEarly[cl]
		b.tkMu.Unlock()
		if ch != nil {
			b.parked <- cl
			<-ch
		}
		return
	}
	if point == "attach.afterClientsAdd" && cl != nil {
		b.parkConn("added:" + cl.ID)
		return
	}
	if point == "attach.beforeCleanup" && cl != nil {
		b.tkMu.Lock()
		ch := b.holds[cl]
		b.tkMu.Unlock()
		if ch != nil {
			b.parked <- cl
			<-ch
		}
		return
	}
	if point != "attach.afterConnack" || cl == nil {
		return
	}
	b.tkMu.Lock()
	ch := b.takeovers[cl.ID]
	delete(b.takeovers, cl.ID)
	b.tkMu.Unlock()
	if ch != nil {
		select {
		case <-ch:
		case <-time.After(3 * time.Second):
		}
	}
}

// isParked: the client's handler is held at a yield point after its read loop (bk.dropholdearly / bk.drophold): it
// will not finish before it is released, so a connection that takes it over must not wait for it
func (b *bkState) isParked(cl *mqtt.Client) bool {
	b.tkMu.Lock()
	defer b.tkMu.Unlock()
	return b.holdsEarly[cl] != nil || b.holds[cl] != nil
}

// parkConn parks the calling (connecting) handler if a hold is registered under key
func (b *bkState) parkConn(key string) {
	b.tkMu.Lock()
	ch := b.connHolds[key]
	delete(b.connHolds, key) // the hold is for ONE handler: later connections of the same client id pass
	b.tkMu.Unlock()
	if ch != nil {
		b.connParked <- key
		<-ch
	}
}

func (b *bkState) releaseAll() {
	b.tkMu.Lock()
	for cl, ch := range b.holds {
		close(ch)
		delete(b.holds, cl)
	}
	for cl, ch := range b.holdsEarly {
		close(ch)
		delete(b.holdsEarly, cl)
	}
	for k := range b.connHolds {
		delete(b.connHolds, k)
	}
	for _, c := range b.conns {
		if c.holdCh != nil {
			close(c.holdCh)
			c.holdCh = nil
		}
	}
	b.tkMu.Unlock()
}

func (h *bkHook) ID() string { return "verif" }
func (h *bkHook) Provides(b byte) bool {
	switch b {
	case mqtt.OnConnectAuthenticate:
		return h.st.auth != "none"
	case mqtt.OnACLCheck, mqtt.OnPublish, mqtt.OnPublishDropped, mqtt.OnPacketIDExhausted, mqtt.OnWillSent, mqtt.OnClientExpired, mqtt.OnQosDropped:
		return true
	}
	return false
}
func (h *bkHook) ev(s string) {
	h.st.mu.Lock()
	h.st.events = append(h.st.events, s)
	h.st.mu.Unlock()
}
func (h *bkHook) OnConnectAuthenticate(cl *mqtt.Client, pk packets.Packet) bool {
	h.st.parkConn("auth:" + cl.ID)
	if strings.HasPrefix(h.st.auth, "deny:") {
		return cl.ID != h.st.auth[5:]
	}
	return h.st.auth == "allow"
}
func (h *bkHook) OnACLCheck(cl *mqtt.Client, topic string, write bool) bool {
	k := cl.ID + "\x00" + topic + "\x00r"
	if write {
		k = cl.ID + "\x00" + topic + "\x00w"
	}
	return !h.st.aclDeny[k]
}
func (h *bkHook) OnPublish(cl *mqtt.Client, pk packets.Packet) (packets.Packet, error) {
	switch h.st.pubHook[pk.TopicName] {
	case "reject":
		return pk, packets.ErrRejectPacket
	case "ignore":
		return pk, packets.CodeSuccessIgnore
	case "wreject": // the same verdicts wrapped with context, as a hook that annotates its errors returns them
		return pk, fmt.Errorf("policy: %w", packets.ErrRejectPacket)
	case "wignore":
		return pk, fmt.Errorf("policy: %w", packets.CodeSuccessIgnore)
	case "err":
		return pk, packets.ErrNotAuthorized
	}
	return pk, nil
}
func (h *bkHook) OnPublishDropped(cl *mqtt.Client, pk packets.Packet) {
	h.ev("drop(" + hx([]byte(cl.ID)) + ")")
}
func (h *bkHook) OnPacketIDExhausted(cl *mqtt.Client, pk packets.Packet) {
	h.ev("idexh(" + hx([]byte(cl.ID)) + ")")
}
func (h *bkHook) OnWillSent(cl *mqtt.Client, pk packets.Packet) {
	h.ev("will(" + hx([]byte(cl.ID)) + ")")
}
func (h *bkHook) OnClientExpired(cl *mqtt.Client)                 { h.ev("expired(" + hx([]byte(cl.ID)) + ")") }
func (h *bkHook) OnQosDropped(cl *mqtt.Client, pk packets.Packet) {}

func bkOf(st *state) *bkState {
	if x, ok := st.m["bk"]; ok {
		return x.(*bkState)
	}
	return nil
}

func kvs(args []string) map[string]string {
	m := map[string]string{}
	for _, a := range args {
		if i := strings.IndexByte(a, '='); i > 0 {
			m[a[:i]] = a[i+1:]
		}
	}
	return m
}

func kvInt(m map[string]string, k string, def int) int {
	if v, ok := m[k]; ok {
		return atoi(v)
	}
	return def
}

func (b *bkState) reader(c *bkConn) {
	tmp := make([]byte, 65536)
	for {
		n, err := c.c.Read(tmp)
		c.mu.Lock()
		if n > 0 {
			c.buf = append(c.buf, tmp[:n]...)
			c.total += n
		}
		if err != nil {
			if c.cut { // bk.sendcut stopped this reader on purpose: the harness marks the end itself
				c.mu.Unlock()
				return
			}
			c.eof = true
			c.mu.Unlock()
			return
		}
		c.mu.Unlock()
	}
}

func (b *bkState) totals() (t int) {
	for _, c := range b.conns {
		c.mu.Lock()
		t += c.total
		if c.eof {
			t += 1 << 20
		}
		c.mu.Unlock()
	}
	return
}

// settle waits until every client's write queue is drained and no new bytes arrive.
func (b *bkState) settle() bool {
	deadline := time.Now().Add(3 * time.Second)
	stable := 0
	last := -1
	for time.Now().Before(deadline) {
		idle := true
		for _, cl := range b.s.Clients.GetAll() {
			// a stopped client's write loop has ended: what is left in its queue (WriteLoop's select may
			// take the Done case while packets are still queued) will never be written and is not waited for
			if !cl.Closed() && !cl.VerifOutboundIdle() {
				idle = false
			}
		}
		t := b.totals()
		if idle && t == last {
			stable++
			if stable >= 3 {
				return true
			}
		} else {
			stable = 0
		}
		last = t
		time.Sleep(150 * time.Microsecond)
	}
	return false
}

// waitFor waits until pred holds on the connection's received bytes.
func (c *bkConn) waitFor(pred func(pks []refPacket, eof bool) bool) bool {
	deadline := time.Now().Add(3 * time.Second)
	for time.Now().Before(deadline) {
		c.mu.Lock()
		pks, _ := refDecodeStream(c.ver, c.buf)
		eof := c.eof
		c.mu.Unlock()
		if pred(pks, eof) {
			return true
		}
		time.Sleep(100 * time.Microsecond)
	}
	return false
}

// collect renders and clears what every connection received; dropBarrier removes the final
// PINGRESP of connection bc (the barrier's answer).
func (b *bkState) collect(bc int) string { return b.collectX(bc, -1) }

// collectX: sortTail = connection whose packets after the first are sorted (resend order after a
// CONNACK follows Go map iteration and an unstable sort, so it is canonicalised).
func (b *bkState) collectX(bc int, sortTail int) string {
	var parts []string
	var closed []string
	var flags []string
	for _, n := range b.order {
		c := b.conns[n]
		c.mu.Lock()
		pks, used := refDecodeStream(c.ver, c.buf)
		rest := len(c.buf) - used
		c.buf = c.buf[used:]
		eof := c.eof
		c.mu.Unlock()
		if n == bc {
			for i := len(pks) - 1; i >= 0; i-- {
				if pks[i].render == "PINGRESP" {
					pks = append(pks[:i], pks[i+1:]...)
					break
				}
			}
		}
		var rs []string
		for _, p := range pks {
			r := p.render
			if p.typ == 3 && p.bad == "" && strings.HasPrefix(r, "PUB:q") && !strings.HasPrefix(r, "PUB:q0") {
				f := strings.Split(r, ":")
				id, q := atoi(strings.TrimPrefix(f[4], "id")), atoi(strings.TrimPrefix(f[1], "q"))
				known := false
				for _, e := range c.pend {
					if e[0] == id {
						known = true
					}
				}
				if !known {
					c.pend = append(c.pend, [3]int{id, q, 0})
				}
			}
			// C25: a delivered message carries a Message Expiry Interval no larger than the effective interval
			// (the harness's histories take no time: the time remaining is the whole interval)
			if p.typ == 3 && p.bad == "" && p.msgExp >= 0 {
				if eff, ok := b.pubEff[p.payload]; ok && eff > 0 && p.msgExp > int64(eff) {
					flags = append(flags, fmt.Sprintf("expiry-exceeds(c%d,%s,%d>%d)", n, p.payload, p.msgExp, eff))
				}
			}
			// C24: a PUBLISH must carry a topic or an alias this connection has seen bound
			if p.typ == 3 && p.bad == "" {
				if p.topic != "" && p.alias > 0 {
					c.aliases[p.alias] = p.topic
				} else if p.topic == "" {
					if _, ok := c.aliases[p.alias]; !ok || p.alias == 0 {
						flags = append(flags, fmt.Sprintf("unresolvable-alias(c%d,%d)", n, p.alias))
					}
				}
			}
			rs = append(rs, r)
		}
		if rest > 0 && eof {
			rs = append(rs, "!bad(incomplete-packet-at-close)")
		}
		if eof { // PUBLISH packets racing with the close of their connection are not compared
			var keep []string
			for _, r := range rs {
				if !strings.HasPrefix(r, "PUB:") {
					keep = append(keep, r)
				}
			}
			rs = keep
		}
		if n == sortTail && len(rs) > 2 {
			// the true order of what was resent goes to the spec oracles (C12) through a flag; the
			// model/implementation comparison uses the canonical (sorted) form
			var ord []string
			for _, r := range rs[1:] {
				if strings.HasPrefix(r, "PUB:") {
					f := strings.Split(r, ":")
					pl := ""
					for _, x := range f {
						if strings.HasPrefix(x, "p=") {
							pl = x[2:]
						}
					}
					ord = append(ord, pl+f[1]+f[2]+f[3])
				}
			}
			if len(ord) > 1 {
				flags = append(flags, fmt.Sprintf("order(c%d:%s)", n, strings.Join(ord, ".")))
			}
			sort.Strings(rs[1:])
		}
		if len(rs) > 0 {
			parts = append(parts, fmt.Sprintf("c%d:[%s]", n, strings.Join(rs, ";")))
		}
		if eof && !c.closed {
			closed = append(closed, fmt.Sprint(n))
			c.closed = true
			c.c.Close()
		}
	}
	b.mu.Lock()
	ev := b.events
	b.events = nil
	b.mu.Unlock()
	sort.Strings(ev)
	out := strings.Join(parts, " ")
	if len(closed) > 0 {
		out += " X[" + strings.Join(closed, ",") + "]"
	}
	if len(ev) > 0 {
		out += " E[" + strings.Join(ev, ",") + "]"
	}
	if out == "" {
		out = "-"
	}
	out = strings.TrimSpace(out)
	out += " " + b.hidden()
	if len(flags) > 0 {
		out += " V[" + strings.Join(flags, ",") + "]"
	}
	return out
}

// hidden renders, as one token, the session state an op changes without writing a byte: the in-flight
// counters and every client's in-flight records (offline members of a share group, messages deferred
// by flow control). Appended to every op's output so that the choice Go's map iteration made is
// compared at the op where it was made, not at a later dump.
func (b *bkState) hidden() string {
	var cs []string
	for _, cl := range b.s.Clients.GetAll() {
		var fl []string
		for _, pk := range cl.State.Inflight.GetAll(false) {
			e := fmt.Sprintf("%05d.t%d.q%d", pk.PacketID, pk.FixedHeader.Type, pk.FixedHeader.Qos)
			if pk.FixedHeader.Type == packets.Publish {
				var si []string // the identifiers a resend would carry (which share entry was merged first decides)
				for _, v := range pk.Properties.SubscriptionIdentifier {
					if v > 0 {
						si = append(si, fmt.Sprint(v))
					}
				}
				e += "." + hx(pk.Payload) + ".si" + strings.Join(si, "+")
			}
			fl = append(fl, e)
		}
		sort.Strings(fl)
		e := hx([]byte(cl.ID)) + "=" + strings.Join(fl, ",")
		// the outbound alias table: an alias is handed out even when the message is then dropped (flow control), so
		// the order in which a retained replay visited its matches is hidden state until a later delivery uses it
		if al := cl.VerifOutboundAliases(); al != "" {
			e += ";al=" + al
		}
		cs = append(cs, e)
	}
	sort.Strings(cs)
	return fmt.Sprintf("H[%d/%d/%d|%s]", atomic.LoadInt64(&b.s.Info.Inflight), atomic.LoadInt64(&b.s.Info.InflightDropped),
		atomic.LoadInt64(&b.s.Info.MessagesDropped), strings.Join(cs, "|"))
}

func fixedHeader(hb byte, body []byte) []byte {
	return append(append([]byte{hb}, rVarint(len(body))...), body...)
}

// buildClientPacket builds the bytes of a client->server packet from "TYPE k=v ..." args.
func buildClientPacket(ver byte, a []string) []byte {
	m := kvs(a[1:])
	var props []refProp
	addProps := func(body []byte) []byte {
		if ver == 5 {
			return append(body, rPropsBytes(props)...)
		}
		return body
	}
	switch a[0] {
	case "PUBLISH":
		q := byte(kvInt(m, "q", 0))
		hb := byte(3<<4) | q<<1
		if m["r"] == "1" {
			hb |= 1
		}
		if m["d"] == "1" {
			hb |= 8
		}
		body := rStr(string(unhx(m["t"])))
		if q > 0 {
			body = append(body, rU16(kvInt(m, "id", 1))...)
		}
		if v, ok := m["me"]; ok {
			props = append(props, refProp{2, rU32(uint32(atoi(v)))})
		}
		if v, ok := m["ta"]; ok {
			props = append(props, refProp{35, rU16(atoi(v))})
		}
		if v, ok := m["ct"]; ok {
			props = append(props, refProp{3, rStr(v)})
		}
		if v, ok := m["pf"]; ok { // payload format indicator
			props = append(props, refProp{1, []byte{byte(atoi(v))}})
		}
		if v, ok := m["rt"]; ok { // response topic (hex)
			props = append(props, refProp{8, rStr(string(unhx(v)))})
		}
		if v, ok := m["cd"]; ok { // correlation data (hex)
			props = append(props, refProp{9, rStr(string(unhx(v)))})
		}
		if v, ok := m["up"]; ok { // one user property keyhex:valuehex
			kv := strings.Split(v, ":")
			props = append(props, refProp{38, append(rStr(string(unhx(kv[0]))), rStr(string(unhx(kv[1])))...)})
		}
		body = addProps(body)
		body = append(body, unhx(m["p"])...)
		return fixedHeader(hb, body)
	case "SUBSCRIBE":
		body := rU16(kvInt(m, "id", 1))
		if v, ok := m["si"]; ok && ver == 5 {
			props = append(props, refProp{11, rVarint(atoi(v))})
		}
		body = addProps(body)
		for _, f := range strings.Split(m["f"], ",") { // filterhex:qos:nl:rap:rh
			p := strings.Split(f, ":")
			body = append(body, rStr(string(unhx(p[0])))...)
			opt := byte(atoi(p[1]))
			if ver == 5 && len(p) >= 5 {
				opt |= byte(atoi(p[2]))<<2 | byte(atoi(p[3]))<<3 | byte(atoi(p[4]))<<4
			}
			body = append(body, opt)
		}
		return fixedHeader(8<<4|2, body)
	case "UNSUBSCRIBE":
		body := addProps(rU16(kvInt(m, "id", 1)))
		for _, f := range strings.Split(m["f"], ",") {
			body = append(body, rStr(string(unhx(f)))...)
		}
		return fixedHeader(10<<4|2, body)
	case "PUBACK", "PUBREC", "PUBREL", "PUBCOMP":
		t := map[string]byte{"PUBACK": 4, "PUBREC": 5, "PUBREL": 6, "PUBCOMP": 7}[a[0]]
		hb := t << 4
		if t == 6 {
			hb |= 2
		}
		body := rU16(kvInt(m, "id", 1))
		if rc, ok := m["rc"]; ok && ver == 5 {
			body = append(body, byte(atoi(rc)))
		}
		return fixedHeader(hb, body)
	case "PINGREQ":
		return []byte{12 << 4, 0}
	case "DISCONNECT":
		var body []byte
		if ver == 5 {
			_, hasRc := m["rc"]
			_, hasSei := m["sei"]
			if hasRc || hasSei {
				body = append(body, byte(kvInt(m, "rc", 0)))
			}
			if hasSei {
				props = append(props, refProp{17, rU32(uint32(atoi(m["sei"])))})
				body = append(body, rPropsBytes(props)...)
			}
		}
		return fixedHeader(14<<4, body)
	case "RAW":
		return unhx(m["h"])
	}
	return nil
}

func bkStartConn(b *bkState, a []string) (*bkConn, string) {
	// bk.conn <n> <ver> <clean> <clientidhex> [sei= rm= tam= mps= ka= rpi= will=topichex:payloadhex:qos:retain:delay]
	n := atoi(a[0])
	ver := byte(atoi(a[1]))
	m := kvs(a[4:])
	c1, c2 := net.Pipe()
	c := &bkConn{n: n, c: c1, ver: ver, done: make(chan struct{}), aliases: map[int]string{}}
	if old, ok := b.s.Clients.Get(string(unhx(a[3]))); ok && old.StopTime() == 0 && !b.isParked(old) {
		for _, oc := range b.conns {
			if oc.cl == old {
				b.tkMu.Lock()
				b.takeovers[old.ID] = oc.done
				b.tkMu.Unlock()
			}
		}
	}
	b.conns[n] = c
	b.order = append(b.order, n)
	go b.reader(c)
	go func() {
		// like the bundled listeners: the error is only logged, closing the connection is the broker's job
		_ = b.s.EstablishConnection("t", c2)
		close(c.done)
	}()
	// CONNECT
	pname := "MQTT"
	if ver == 3 {
		pname = "MQIsdp"
	}
	flags := byte(0)
	if a[2] == "1" {
		flags |= 2
	}
	var tail []byte
	if w, ok := m["will"]; ok {
		p := strings.Split(w, ":")
		flags |= 4 | byte(atoi(p[2]))<<3
		if p[3] == "1" {
			flags |= 32
		}
		if ver == 5 {
			var wp []refProp
			if atoi(p[4]) > 0 {
				wp = append(wp, refProp{24, rU32(uint32(atoi(p[4])))})
			}
			tail = append(tail, rPropsBytes(wp)...)
		}
		tail = append(tail, rStr(string(unhx(p[0])))...)
		tail = append(tail, rStr(string(unhx(p[1])))...)
	}
	body := append(rStr(pname), ver, flags)
	body = append(body, rU16(kvInt(m, "ka", 60))...)
	if ver == 5 {
		var ps []refProp
		if v, ok := m["sei"]; ok {
			ps = append(ps, refProp{17, rU32(uint32(atoi(v)))})
		}
		if v, ok := m["rm"]; ok {
			ps = append(ps, refProp{33, rU16(atoi(v))})
		}
		if v, ok := m["tam"]; ok {
			ps = append(ps, refProp{34, rU16(atoi(v))})
		}
		if v, ok := m["mps"]; ok {
			ps = append(ps, refProp{39, rU32(uint32(atoi(v)))})
		}
		if v, ok := m["rpi"]; ok {
			ps = append(ps, refProp{23, []byte{byte(atoi(v))}})
		}
		body = append(body, rPropsBytes(ps)...)
	}
	body = append(body, rStr(string(unhx(a[3])))...)
	body = append(body, tail...)
	if v, ok := m["un"]; ok { // user name (hex)
		body[len(rStr(pname))+1] |= 128
		body = append(body, rStr(string(unhx(v)))...)
	}
	if raw, ok := m["raw"]; ok { // a raw first packet instead of CONNECT
		c1.SetWriteDeadline(time.Now().Add(2 * time.Second))
		c1.Write(unhx(raw))
	} else {
		c1.SetWriteDeadline(time.Now().Add(2 * time.Second))
		c1.Write(fixedHeader(1<<4, body))
	}
	c1.SetWriteDeadline(time.Time{})
	return c, string(unhx(a[3]))
}

func bkFinishConn(b *bkState, c *bkConn, id string) string {
	n := c.n
	c1 := c.c
	// wait for CONNACK (then for the session to be fully established) or for the connection to end
	if !c.waitFor(func(pks []refPacket, eof bool) bool { return eof || len(pks) > 0 }) {
		return "timeout-connack"
	}
	c.mu.Lock()
	eof := c.eof
	c.mu.Unlock()
	if !eof {
		// barrier: the read loop answers PINGREQ only after attachClient finished establishing
		c1.SetWriteDeadline(time.Now().Add(2 * time.Second))
		c1.Write([]byte{12 << 4, 0})
		c1.SetWriteDeadline(time.Time{})
		c.waitFor(func(pks []refPacket, eof bool) bool {
			if eof {
				return true
			}
			for _, p := range pks {
				if p.render == "PINGRESP" {
					return true
				}
			}
			return false
		})
	} else {
		select {
		case <-c.done:
		case <-time.After(3 * time.Second):
			return "timeout-handler"
		}
	}
	if !b.settle() {
		return "timeout-settle"
	}
	c.mu.Lock()
	established := !c.eof
	c.mu.Unlock()
	if cl, ok := b.s.Clients.Get(id); ok && cl.StopTime() == 0 && established {
		c.cl = cl
	}
	return b.collectX(n, n)
}

func init() {
	runners["bk.new"] = func(st *state, a []string) string {
		runtime.GOMAXPROCS(1) // one goroutine at a time: handlers switch only where they block
		if old := bkOf(st); old != nil {
			old.releaseAll()
			for _, c := range old.conns {
				c.c.Close()
			}
			old.s.Close()
		}
		m := kvs(a)
		caps := mqtt.NewDefaultServerCapabilities()
		caps.MaximumClients = int64(kvInt(m, "maxclients", 1000000))
		caps.MaximumSessionExpiryInterval = uint32(kvInt(m, "sessexp", 4294967295))
		caps.MaximumMessageExpiryInterval = int64(kvInt(m, "msgexp", 86400))
		caps.ReceiveMaximum = uint16(kvInt(m, "recvmax", 1024))
		caps.MaximumInflight = uint16(kvInt(m, "maxinflight", 8192))
		caps.TopicAliasMaximum = uint16(kvInt(m, "aliasmax", 65535))
		caps.MaximumQos = byte(kvInt(m, "maxqos", 2))
		caps.RetainAvailable = byte(kvInt(m, "retain", 1))
		caps.MinimumProtocolVersion = byte(kvInt(m, "minver", 3))
		caps.MaximumClientWritesPending = int32(kvInt(m, "pending", 8192))
		caps.MaximumPacketSize = uint32(kvInt(m, "maxpkt", 0))
		caps.Compatibilities.ObscureNotAuthorized = m["obscure"] == "1"
		opts := &mqtt.Options{Capabilities: caps, InlineClient: true, Logger: slog.New(slog.NewTextHandler(io.Discard, nil))}
		if v, ok := m["wbuf"]; ok {
			opts.ClientNetWriteBufferSize = atoi(v)
		}
		s := mqtt.New(opts)
		if v, ok := m["maxpid"]; ok {
			s.VerifSetMaximumPacketID(uint32(atoi(v)))
		}
		b := &bkState{s: s, conns: map[int]*bkConn{}, aclDeny: map[string]bool{}, pubHook: map[string]string{}, auth: "allow", t0: time.Now().Unix(), takeovers: map[string]chan struct{}{},
			holds: map[*mqtt.Client]chan struct{}{}, parked: make(chan *mqtt.Client, 16),
			holdsEarly: map[*mqtt.Client]chan struct{}{}, connHolds: map[string]chan struct{}{}, connParked: make(chan string, 16),
			msgexp: kvInt(m, "msgexp", 86400), pubEff: map[string]int{}}
		mqtt.VerifYield = b.yield
		if v, ok := m["auth"]; ok {
			b.auth = v
		}
		if err := s.AddHook(&bkHook{st: b}, nil); err != nil {
			return "hook-error " + err.Error()
		}
		st.m["bk"] = b
		return "-"
	}
	runners["bk.acl"] = func(st *state, a []string) string { // bk.acl <clientidhex> <topichex> <r|w>
		b := bkOf(st)
		b.aclDeny[string(unhx(a[0]))+"\x00"+string(unhx(a[1]))+"\x00"+a[2]] = true
		return "-"
	}
	runners["bk.pubhook"] = func(st *state, a []string) string { // bk.pubhook <topichex> <mode>
		bkOf(st).pubHook[string(unhx(a[0]))] = a[1]
		return "-"
	}
	runners["bk.conn"] = func(st *state, a []string) string {
		b := bkOf(st)
		c, id := bkStartConn(b, a)
		return bkFinishConn(b, c, id)
	}
	// bk.connhold <auth|added> <n> <ver> <clean> <clientidhex> ... : the connecting handler is parked inside the
	// authentication hook (after the MaximumClients test, before the counter increment) or at the yield
	// point attach.afterClientsAdd (session inherited and registered, CONNACK not yet written)
	runners["bk.connhold"] = func(st *state, a []string) string {
		b := bkOf(st)
		key := a[0] + ":" + string(unhx(a[4]))
		hch := make(chan struct{})
		b.tkMu.Lock()
		b.connHolds[key] = hch
		b.tkMu.Unlock()
		c, _ := bkStartConn(b, a[1:])
		c.holdKey = key
		c.holdCh = hch
		select {
		case <-b.connParked:
		case <-c.done: // refused before it reached the hold point
			b.tkMu.Lock()
			delete(b.connHolds, key)
			b.tkMu.Unlock()
			c.holdKey = ""
		case <-time.After(3 * time.Second):
			return "timeout-park"
		}
		if !b.settle() {
			return "timeout-settle"
		}
		return b.collectX(c.n, c.n)
	}
	runners["bk.dropholdearly"] = func(st *state, a []string) string { // connection lost; handler parked right after its read loop
		b := bkOf(st)
		c := b.conns[atoi(a[0])]
		if c == nil || c.closed {
			return "no-conn"
		}
		if c.cl != nil {
			b.tkMu.Lock()
			b.holdsEarly[c.cl] = make(chan struct{})
			b.tkMu.Unlock()
		}
		c.closed = true
		c.c.Close()
		select {
		case <-b.parked:
		case <-c.done:
		case <-time.After(3 * time.Second):
			return "timeout-park"
		}
		if !b.settle() {
			return "timeout-settle"
		}
		return b.collect(-1)
	}
	runners["bk.send"] = func(st *state, a []string) string { // bk.send <n> TYPE k=v...
		b := bkOf(st)
		c := b.conns[atoi(a[0])]
		if c == nil || c.closed {
			return "no-conn"
		}
		pkt := buildClientPacket(c.ver, a[1:])
		if a[1] == "PUBLISH" {
			if b.pubEff == nil { // states built by other suites (restart, shutdown)
				b.pubEff = map[string]int{}
			}
			m := kvs(a[2:])
			if _, seen := b.pubEff[m["p"]]; !seen && m["p"] != "" && m["p"] != "-" {
				me := 0
				if c.ver == 5 {
					me = kvInt(m, "me", 0)
				}
				eff := me
				if eff == 0 || (b.msgexp > 0 && b.msgexp < eff) {
					eff = b.msgexp
				}
				b.pubEff[m["p"]] = eff
			}
		}
		c.c.SetWriteDeadline(time.Now().Add(2 * time.Second))
		_, err := c.c.Write(pkt)
		if err == nil {
			_, err = c.c.Write([]byte{12 << 4, 0})
		}
		c.c.SetWriteDeadline(time.Time{})
		ok := c.waitFor(func(pks []refPacket, eof bool) bool {
			if eof {
				return true
			}
			for _, p := range pks {
				if p.render == "PINGRESP" {
					return true
				}
			}
			return false
		})
		if !ok {
			return "timeout-barrier"
		}
		c.mu.Lock()
		eof := c.eof
		c.mu.Unlock()
		if eof {
			select {
			case <-c.done:
			case <-time.After(3 * time.Second):
				return "timeout-handler"
			}
		}
		if !b.settle() {
			return "timeout-settle"
		}
		return b.collect(c.n)
	}
	// bk.sendcut <n> TYPE k=v... : the client sends one packet and vanishes before anything the handler answers
	// can be delivered: the harness stops reading first (so the broker's write blocks on the pipe), sends the
	// packet, then closes its side (the blocked write fails)
	runners["bk.sendcut"] = func(st *state, a []string) string {
		b := bkOf(st)
		c := b.conns[atoi(a[0])]
		if c == nil || c.closed {
			return "no-conn"
		}
		pkt := buildClientPacket(c.ver, a[1:])
		c.mu.Lock()
		c.cut = true
		c.mu.Unlock()
		c.c.SetReadDeadline(time.Now()) // kicks the reader goroutine out of its Read
		time.Sleep(2 * time.Millisecond)
		c.c.SetWriteDeadline(time.Now().Add(2 * time.Second))
		_, _ = c.c.Write(pkt)
		c.closed = true
		c.c.Close()
		c.mu.Lock()
		c.eof = true
		c.mu.Unlock()
		select {
		case <-c.done:
		case <-time.After(3 * time.Second):
			return "timeout-handler"
		}
		if !b.settle() {
			return "timeout-settle"
		}
		return b.collect(-1)
	}
	// bk.ack <n>: the client acknowledges the QoS>0 PUBLISH with the smallest packet id it has received on this connection and not
	// yet completed: PUBACK (QoS 1); PUBREC, and at the next bk.ack PUBCOMP (QoS 2). The Lean driver derives the
	// same packet from the model's own outputs.
	runners["bk.ack"] = func(st *state, a []string) string {
		b := bkOf(st)
		c := b.conns[atoi(a[0])]
		if c == nil || c.closed {
			return "no-conn"
		}
		if len(c.pend) == 0 {
			return "nothing-to-ack"
		}
		k := 0 // the pending entry with the smallest packet id (independent of the order of arrival)
		for i, x := range c.pend {
			if x[0] < c.pend[k][0] {
				k = i
			}
		}
		e := c.pend[k]
		typ := "PUBACK"
		if e[1] == 2 && e[2] == 0 {
			typ = "PUBREC"
			c.pend[k][2] = 1
		} else {
			if e[1] == 2 {
				typ = "PUBCOMP"
			}
			c.pend = append(c.pend[:k:k], c.pend[k+1:]...)
		}
		return runners["bk.send"](st, []string{a[0], typ, fmt.Sprintf("id=%d", e[0])})
	}
	runners["bk.drop"] = func(st *state, a []string) string {
		b := bkOf(st)
		c := b.conns[atoi(a[0])]
		if c == nil || c.closed {
			return "no-conn"
		}
		c.closed = true
		c.c.Close()
		select {
		case <-c.done:
		case <-time.After(3 * time.Second):
			return "timeout-handler"
		}
		if !b.settle() {
			return "timeout-settle"
		}
		return b.collect(-1)
	}
	runners["bk.drophold"] = func(st *state, a []string) string { // connection lost; handler parked before its clean-up
		b := bkOf(st)
		c := b.conns[atoi(a[0])]
		if c == nil || c.closed {
			return "no-conn"
		}
		if c.cl != nil {
			b.tkMu.Lock()
			b.holds[c.cl] = make(chan struct{})
			b.tkMu.Unlock()
		}
		c.closed = true
		c.c.Close()
		select {
		case <-b.parked:
		case <-c.done:
		case <-time.After(3 * time.Second):
			return "timeout-park"
		}
		if !b.settle() {
			return "timeout-settle"
		}
		return b.collect(-1)
	}
	runners["bk.release"] = func(st *state, a []string) string {
		b := bkOf(st)
		c := b.conns[atoi(a[0])]
		if c == nil {
			return "no-conn"
		}
		if c.holdKey != "" { // a connecting handler parked inside attachClient
			id := c.holdKey[strings.IndexByte(c.holdKey, ':')+1:]
			if strings.HasPrefix(c.holdKey, "auth:") {
				// the released handler may take over a live connection of the same client id: its CONNACK is
				// followed by a wait for the old handler (same fixed schedule as bk.conn)
				if old, ok := b.s.Clients.Get(id); ok && old.StopTime() == 0 && !b.isParked(old) {
					for _, oc := range b.conns {
						if oc.cl == old {
							b.tkMu.Lock()
							b.takeovers[old.ID] = oc.done
							b.tkMu.Unlock()
						}
					}
				}
			}
			c.holdKey = ""
			if c.holdCh != nil {
				close(c.holdCh)
				c.holdCh = nil
			}
			return bkFinishConn(b, c, id)
		}
		b.tkMu.Lock()
		ch := b.holds[c.cl]
		delete(b.holds, c.cl)
		if ch == nil {
			ch = b.holdsEarly[c.cl]
			delete(b.holdsEarly, c.cl)
		}
		b.tkMu.Unlock()
		if ch != nil {
			close(ch)
			select {
			case <-c.done:
			case <-time.After(3 * time.Second):
				return "timeout-handler"
			}
		}
		if !b.settle() {
			return "timeout-settle"
		}
		return b.collect(-1)
	}
	runners["bk.tick"] = func(st *state, a []string) string { // bk.tick <clients|retained|inflight|wills> <delta seconds from now>
		b := bkOf(st)
		t := time.Now().Unix() + int64(atoi(a[1]))
		switch a[0] {
		case "clients":
			b.s.VerifClearExpiredClients(t)
		case "retained":
			b.s.VerifClearExpiredRetained(t)
		case "inflight":
			b.s.VerifClearExpiredInflights(t)
		case "wills":
			b.s.VerifSendDelayedLWT(t)
		}
		if !b.settle() {
			return "timeout-settle"
		}
		return b.collect(-1)
	}
	runners["bk.ipub"] = func(st *state, a []string) string { // bk.ipub <topichex> <payloadhex> <retain> <qos>
		b := bkOf(st)
		err := b.s.Publish(string(unhx(a[0])), unhx(a[1]), a[2] == "1", byte(atoi(a[3])))
		if !b.settle() {
			return "timeout-settle"
		}
		out := b.collect(-1)
		if err != nil {
			out += " err"
		}
		return out
	}
	runners["bk.isub"] = func(st *state, a []string) string { // bk.isub <id> <filterhex>
		b := bkOf(st)
		id := atoi(a[0])
		var got []string
		err := b.s.Subscribe(string(unhx(a[1])), id, func(cl *mqtt.Client, sub packets.Subscription, pk packets.Packet) {
			b.mu.Lock()
			b.events = append(b.events, fmt.Sprintf("inline(%d,%s,%s)", id, hx([]byte(pk.TopicName)), hx(pk.Payload)))
			b.mu.Unlock()
		})
		_ = got
		if !b.settle() {
			return "timeout-settle"
		}
		out := b.collect(-1)
		if err != nil {
			out += " err"
		}
		return out
	}
	runners["bk.iunsub"] = func(st *state, a []string) string {
		b := bkOf(st)
		err := b.s.Unsubscribe(string(unhx(a[1])), atoi(a[0]))
		out := b.collect(-1)
		if err != nil {
			out += " err"
		}
		return out
	}
	runners["bk.dump"] = func(st *state, a []string) string {
		b := bkOf(st)
		var cs []string
		for _, cl := range b.s.Clients.GetAll() {
			cs = append(cs, cl.VerifDump())
		}
		sort.Strings(cs)
		return b.s.VerifInfo() + " wills=[" + b.s.VerifWillDelayed() + "] " + strings.Join(cs, " | ") + " V[actual " + b.s.VerifActual() + "]"
	}
	_ = bytes.NewBuffer
}
