package main

// An independent decoder for the packets a broker sends to a client, written from the MQTT
// specifications (3.1.1 and 5.0) and sharing no code with mochi's codec. It is strict: anything a
// conforming client could not parse is reported as !bad(...). It renders each packet as the
// canonical projection the Lean broker model also produces.

import (
	"fmt"
	"strings"
	"unicode/utf8"
)

type refPacket struct {
	typ     byte
	render  string
	bad     string
	size    int
	topic   string
	alias   int
	hasProp bool   // a property block with at least one property was present
	payload string // PUBLISH: payload (hex)
	msgExp  int64  // PUBLISH: Message Expiry Interval carried, -1 if absent
}

// property id -> wire type: 1 byte, 2 u16, 4 u32, s string, b binary, v varint, p pair
var refPropType = map[byte]byte{
	1: 1, 2: 4, 3: 's', 8: 's', 9: 'b', 11: 'v', 17: 4, 18: 's', 19: 2, 21: 's', 22: 'b', 23: 1, 24: 4, 25: 1,
	26: 's', 28: 's', 31: 's', 33: 2, 34: 2, 35: 2, 36: 1, 37: 1, 38: 'p', 39: 4, 40: 1, 41: 1, 42: 1,
}

// which server->client packet types may carry which property
var refPropAllowed = map[byte][]byte{
	2: {17, 33, 36, 37, 39, 18, 34, 31, 38, 40, 41, 42, 19, 26, 28, 21, 22}, // CONNACK
	3: {1, 2, 35, 8, 9, 38, 11, 3},                                          // PUBLISH
	4: {31, 38}, 5: {31, 38}, 6: {31, 38}, 7: {31, 38},
	9:  {31, 38},
	11: {31, 38},
	14: {17, 31, 38, 28},
	15: {21, 22, 31, 38},
}

type refProps struct {
	vals  map[byte][]uint32
	strs  map[byte][]string
	count int
}

func refVarint(b []byte) (n, used int, ok bool) {
	mult := 1
	for i := 0; i < 4; i++ {
		if i >= len(b) {
			return 0, 0, false
		}
		n += int(b[i]&127) * mult
		mult *= 128
		if b[i]&128 == 0 {
			return n, i + 1, true
		}
	}
	return 0, 0, false
}

func refString(b []byte) (s string, used int, ok bool) {
	if len(b) < 2 {
		return "", 0, false
	}
	l := int(b[0])<<8 | int(b[1])
	if len(b) < 2+l {
		return "", 0, false
	}
	return string(b[2 : 2+l]), 2 + l, true
}

func refUTF8(s string) bool { return utf8.ValidString(s) && !strings.ContainsRune(s, 0) }

func refParseProps(typ byte, b []byte) (p refProps, used int, bad string) {
	p = refProps{vals: map[byte][]uint32{}, strs: map[byte][]string{}}
	n, u, ok := refVarint(b)
	if !ok {
		return p, 0, "property length"
	}
	if len(b) < u+n {
		return p, 0, "property block overruns packet"
	}
	blk := b[u : u+n]
	for len(blk) > 0 {
		id := blk[0]
		blk = blk[1:]
		wt, known := refPropType[id]
		if !known {
			return p, 0, fmt.Sprintf("unknown property %d", id)
		}
		allowed := false
		for _, a := range refPropAllowed[typ] {
			if a == id {
				allowed = true
			}
		}
		if !allowed {
			return p, 0, fmt.Sprintf("property %d not allowed in packet type %d", id, typ)
		}
		if id != 38 && id != 11 && (len(p.vals[id]) > 0 || len(p.strs[id]) > 0) {
			return p, 0, fmt.Sprintf("property %d repeated", id)
		}
		p.count++
		switch wt {
		case 1:
			if len(blk) < 1 {
				return p, 0, "short property"
			}
			p.vals[id] = append(p.vals[id], uint32(blk[0]))
			blk = blk[1:]
		case 2:
			if len(blk) < 2 {
				return p, 0, "short property"
			}
			p.vals[id] = append(p.vals[id], uint32(blk[0])<<8|uint32(blk[1]))
			blk = blk[2:]
		case 4:
			if len(blk) < 4 {
				return p, 0, "short property"
			}
			p.vals[id] = append(p.vals[id], uint32(blk[0])<<24|uint32(blk[1])<<16|uint32(blk[2])<<8|uint32(blk[3]))
			blk = blk[4:]
		case 's', 'b':
			s, k, ok := refString(blk)
			if !ok {
				return p, 0, "short string property"
			}
			if wt == 's' && !refUTF8(s) {
				return p, 0, "property string not UTF-8"
			}
			p.strs[id] = append(p.strs[id], s)
			blk = blk[k:]
		case 'v':
			v, k, ok := refVarint(blk)
			if !ok {
				return p, 0, "bad varint property"
			}
			if v == 0 {
				return p, 0, "subscription identifier 0"
			}
			p.vals[id] = append(p.vals[id], uint32(v))
			blk = blk[k:]
		case 'p':
			a, k, ok := refString(blk)
			if !ok {
				return p, 0, "short user property"
			}
			c, k2, ok := refString(blk[k:])
			if !ok {
				return p, 0, "short user property"
			}
			if !refUTF8(a) || !refUTF8(c) {
				return p, 0, "user property not UTF-8"
			}
			p.strs[id] = append(p.strs[id], a+"="+c)
			blk = blk[k+k2:]
		}
	}
	return p, u + n, ""
}

// refDecodeStream splits b into complete packets (for protocol version ver as negotiated on this
// connection) and returns them plus the number of bytes consumed.
func refDecodeStream(ver byte, b []byte) (pks []refPacket, used int) {
	for {
		if len(b)-used < 2 {
			return
		}
		hb := b[used]
		n, u, ok := refVarint(b[used+1:])
		if !ok {
			if len(b)-used-1 >= 4 {
				pks = append(pks, refPacket{bad: "remaining length", render: "!bad(remaining-length)"})
				used = len(b)
			}
			return
		}
		if len(b)-used-1-u < n {
			return // incomplete
		}
		body := b[used+1+u : used+1+u+n]
		pk := refDecodeOne(ver, hb, body)
		pk.size = 1 + u + n
		used += 1 + u + n
		pks = append(pks, pk)
	}
}

func refDecodeOne(ver, hb byte, body []byte) (pk refPacket) {
	typ := hb >> 4
	flags := hb & 15
	pk.typ = typ
	bad := func(f string, a ...any) refPacket {
		pk.bad = fmt.Sprintf(f, a...)
		pk.render = "!bad(" + strings.ReplaceAll(pk.bad, " ", "-") + ")"
		return pk
	}
	v5 := ver == 5
	propTail := func(rest []byte) (refProps, string) {
		if !v5 {
			if len(rest) != 0 {
				return refProps{}, "trailing bytes"
			}
			return refProps{vals: map[byte][]uint32{}, strs: map[byte][]string{}}, ""
		}
		p, u, b := refParseProps(typ, rest)
		if b != "" {
			return p, b
		}
		if u != len(rest) {
			return p, "trailing bytes after properties"
		}
		return p, ""
	}
	optNum := func(p refProps, id byte) string {
		if v, ok := p.vals[id]; ok && len(v) > 0 {
			return fmt.Sprint(v[0])
		}
		return "-"
	}
	switch typ {
	case 2: // CONNACK
		if flags != 0 {
			return bad("connack flags")
		}
		if len(body) < 2 {
			return bad("short connack")
		}
		if body[0] > 1 {
			return bad("connack acknowledge flags")
		}
		if !v5 && body[1] > 5 {
			return bad("connack return code %d not defined for MQTT 3", body[1])
		}
		p, b := propTail(body[2:])
		if b != "" {
			return bad("connack: %s", b)
		}
		pk.hasProp = p.count > 0
		rs := 0
		if len(p.strs[31]) > 0 {
			rs = 1
		}
		aci := 0
		if len(p.strs[18]) > 0 {
			aci = 1
		}
		if v5 {
			pk.render = fmt.Sprintf("CONNACK:sp%d:rc%02x:rm%s:mq%s:aci%d:sei%s:ska%s:rs%d", body[0], body[1], optNum(p, 33), optNum(p, 36), aci, optNum(p, 17), optNum(p, 19), rs)
		} else {
			pk.render = fmt.Sprintf("CONNACK:sp%d:rc%02x", body[0], body[1])
		}
	case 3: // PUBLISH
		q := (flags >> 1) & 3
		if q == 3 {
			return bad("publish qos 3")
		}
		topic, u, ok := refString(body)
		if !ok {
			return bad("publish topic")
		}
		if !refUTF8(topic) {
			return bad("publish topic not UTF-8")
		}
		rest := body[u:]
		id := 0
		if q > 0 {
			if len(rest) < 2 {
				return bad("publish packet id")
			}
			id = int(rest[0])<<8 | int(rest[1])
			if id == 0 {
				return bad("publish packet id 0")
			}
			rest = rest[2:]
		}
		p := refProps{vals: map[byte][]uint32{}, strs: map[byte][]string{}}
		if v5 {
			var pu int
			var b string
			p, pu, b = refParseProps(typ, rest)
			if b != "" {
				return bad("publish: %s", b)
			}
			rest = rest[pu:]
		}
		pk.hasProp = p.count > 0
		var si []string
		for _, v := range p.vals[11] {
			si = append(si, fmt.Sprint(v))
		}
		me := "0"
		pk.msgExp = -1
		if len(p.vals[2]) > 0 {
			me = "+"
			pk.msgExp = int64(p.vals[2][0])
		}
		pk.payload = hx(rest)
		pk.topic = topic
		if len(p.vals[35]) > 0 {
			pk.alias = int(p.vals[35][0])
			if pk.alias == 0 {
				return bad("topic alias 0")
			}
		}
		if strings.ContainsAny(topic, "+#") {
			pk.bad = "publish topic contains wildcard"
		}
		pk.render = fmt.Sprintf("PUB:q%d:d%d:r%d:id%d:t=%s:p=%s:si=%s:ta=%s:me%s", q, (flags>>3)&1, flags&1, id, hx([]byte(topic)), hx(rest), strings.Join(si, "+"), optNum(p, 35), me)
		if pk.bad != "" {
			pk.render += "!bad(" + strings.ReplaceAll(pk.bad, " ", "-") + ")"
		}
	case 4, 5, 6, 7:
		want := byte(0)
		if typ == 6 {
			want = 2
		}
		if flags != want {
			return bad("ack flags")
		}
		if len(body) < 2 {
			return bad("short ack")
		}
		id := int(body[0])<<8 | int(body[1])
		rc := byte(0)
		if !v5 && len(body) != 2 {
			return bad("MQTT 3 ack with %d bytes", len(body))
		}
		if v5 && len(body) >= 3 {
			rc = body[2]
		}
		if v5 && len(body) >= 4 {
			p, u, b := refParseProps(typ, body[3:])
			if b != "" {
				return bad("ack: %s", b)
			}
			if u != len(body)-3 {
				return bad("ack trailing bytes")
			}
			pk.hasProp = p.count > 0
		}
		name := map[byte]string{4: "PUBACK", 5: "PUBREC", 6: "PUBREL", 7: "PUBCOMP"}[typ]
		pk.render = fmt.Sprintf("%s:id%d:rc%02x", name, id, rc)
	case 9, 11:
		if flags != 0 {
			return bad("suback flags")
		}
		if len(body) < 2 {
			return bad("short suback")
		}
		id := int(body[0])<<8 | int(body[1])
		rest := body[2:]
		if v5 {
			p, u, b := refParseProps(typ, rest)
			if b != "" {
				return bad("suback: %s", b)
			}
			rest = rest[u:]
			pk.hasProp = p.count > 0
		}
		if typ == 9 {
			for _, c := range rest {
				if !v5 && c != 0 && c != 1 && c != 2 && c != 0x80 {
					return bad("suback return code %02x not defined for MQTT 3", c)
				}
			}
			pk.render = fmt.Sprintf("SUBACK:id%d:rcs=%s", id, hx(rest))
		} else {
			if !v5 && len(rest) != 0 {
				return bad("MQTT 3 unsuback with payload")
			}
			pk.render = fmt.Sprintf("UNSUBACK:id%d:rcs=%s", id, hx(rest))
		}
	case 13:
		if flags != 0 || len(body) != 0 {
			return bad("pingresp")
		}
		pk.render = "PINGRESP"
	case 14:
		if !v5 {
			return bad("DISCONNECT sent to an MQTT 3 client")
		}
		if flags != 0 {
			return bad("disconnect flags")
		}
		rc := byte(0)
		if len(body) >= 1 {
			rc = body[0]
		}
		if len(body) >= 2 {
			p, u, b := refParseProps(typ, body[1:])
			if b != "" {
				return bad("disconnect: %s", b)
			}
			if u != len(body)-1 {
				return bad("disconnect trailing bytes")
			}
			pk.hasProp = p.count > 0
		}
		pk.render = fmt.Sprintf("DISCONNECT:rc%02x", rc)
	case 15:
		if !v5 {
			return bad("AUTH sent to an MQTT 3 client")
		}
		pk.render = "AUTH"
	default:
		return bad("packet type %d is never sent by a server", typ)
	}
	return pk
}
