// vharness: drives the REAL mochi-mqtt/server code (built from /repo with -tags verif)
// on op lines and prints, per op, "op<TAB>implementation output".
//
//	vharness gen <suite> <seed> <n>   generate op lines for a suite on stdout
//	vharness run                      read op lines on stdin, execute, print "op\timpl"
package main

import (
	"bufio"
	"fmt"
	"math/rand"
	"os"
	"runtime"
	"strconv"
	"strings"
)

type suite struct {
	gen func(r *rand.Rand, n int, emit func(string))
}

var suites = map[string]suite{}

// runner executes one op line on the implementation; prefix-dispatched.
var runners = map[string]func(st *state, args []string) string{}

// resetHooks release what a sequence's implementation state holds outside the process heap (storage
// engines, temp directories); run on every "reset" and at the end of input.
var resetHooks []func(st *state)

// state holds per-sequence implementation state ("reset" op clears it).
type state struct {
	m map[string]any
}

func newState() *state { return &state{m: map[string]any{}} }

func safeRun(f func(*state, []string) string, st *state, args []string) (out string) {
	defer func() {
		if r := recover(); r != nil {
			out = "panic"
			if os.Getenv("VERIF_PANIC_DETAIL") != "" {
				out = fmt.Sprintf("panic %v", r)
			}
		}
	}()
	return f(st, args)
}

func main() {
	if len(os.Args) < 2 {
		fmt.Fprintln(os.Stderr, "usage: vharness gen <suite> <seed> <n> | run")
		os.Exit(2)
	}
	w := bufio.NewWriterSize(os.Stdout, 1<<20)
	defer w.Flush()
	switch os.Args[1] {
	case "gen":
		s, ok := suites[os.Args[2]]
		if !ok {
			fmt.Fprintln(os.Stderr, "unknown suite", os.Args[2])
			os.Exit(2)
		}
		seed, _ := strconv.ParseInt(os.Args[3], 10, 64)
		n, _ := strconv.Atoi(os.Args[4])
		r := rand.New(rand.NewSource(seed))
		s.gen(r, n, func(l string) { fmt.Fprintln(w, l) })
	case "run":
		st := newState()
		sc := bufio.NewScanner(os.Stdin)
		sc.Buffer(make([]byte, 1<<20), 1<<26)
		for sc.Scan() {
			line := sc.Text()
			if i := strings.IndexByte(line, '\t'); i >= 0 {
				line = line[:i]
			}
			f := strings.Fields(line)
			if len(f) == 0 {
				continue
			}
			if f[0] == "reset" {
				for _, h := range resetHooks { // (the restart suite's hook also removes its broker from st)
					h(st)
				}
				if b := bkOf(st); b != nil {
					b.releaseAll()
					for _, c := range b.conns {
						c.c.Close()
					}
					b.s.Close()
				}
				if w := wpOf(st); w != nil {
					w.close()
				}
				runtime.GOMAXPROCS(runtime.NumCPU())
				st = newState()
				fmt.Fprintf(w, "%s\t-\n", line)
				continue
			}
			rn, ok := runners[f[0]]
			if !ok {
				fmt.Fprintf(w, "%s\tno-runner\n", line)
				continue
			}
			fmt.Fprintf(w, "%s\t%s\n", line, safeRun(rn, st, f[1:]))
			// every answered op is on stdout before the next one runs: if the process dies (a Go panic in a
			// connection goroutine cannot be recovered here) the caller knows which op it died in
			w.Flush()
		}
		for _, h := range resetHooks {
			h(st)
		}
	default:
		os.Exit(2)
	}
}
