package main

import (
	"bytes"
	"fmt"
	"math/rand"
	"runtime"
	"sync"
	"sync/atomic"

	"github.com/mochi-mqtt/server/v2/mempool"
)

type bpState struct {
	pool mempool.BufferPool
	ids  map[*bytes.Buffer]int
	held map[int]*bytes.Buffer
}

func bpOf(st *state) *bpState {
	if x, ok := st.m["bp"]; ok {
		return x.(*bpState)
	}
	b := &bpState{pool: mempool.NewBuffer(0), ids: map[*bytes.Buffer]int{}, held: map[int]*bytes.Buffer{}}
	st.m["bp"] = b
	return b
}

func init() {
	runners["bp.new"] = func(st *state, a []string) string {
		st.m["bp"] = &bpState{pool: mempool.NewBuffer(atoi(a[0])), ids: map[*bytes.Buffer]int{}, held: map[int]*bytes.Buffer{}}
		return "-"
	}
	runners["bp.get"] = func(st *state, a []string) string {
		b := bpOf(st)
		u := atoi(a[0])
		if _, ok := b.held[u]; ok {
			return "none"
		}
		x := b.pool.Get()
		kind := "old"
		id, ok := b.ids[x]
		if !ok {
			id = len(b.ids)
			b.ids[x] = id
			kind = "new"
		}
		b.held[u] = x
		return fmt.Sprintf("%s %d len=%d cap=%d", kind, id, x.Len(), x.Cap())
	}
	runners["bp.write"] = func(st *state, a []string) string {
		b := bpOf(st)
		x, ok := b.held[atoi(a[0])]
		if !ok {
			return "none"
		}
		x.Write(make([]byte, atoi(a[1])))
		return fmt.Sprintf("len=%d cap=%d", x.Len(), x.Cap())
	}
	runners["bp.put"] = func(st *state, a []string) string {
		b := bpOf(st)
		u := atoi(a[0])
		if x, ok := b.held[u]; ok {
			delete(b.held, u)
			b.pool.Put(x)
		}
		return "-"
	}
	runners["bp.stress"] = func(_ *state, a []string) string {
		max, g, iters := atoi(a[0]), atoi(a[1]), atoi(a[2])
		pool := mempool.NewBuffer(max)
		// more threads than processors: holders are descheduled by the OS at arbitrary instructions
		defer runtime.GOMAXPROCS(runtime.GOMAXPROCS(runtime.NumCPU() * 2))
		var owner sync.Map // *bytes.Buffer -> *int32 (1 while held)
		var bad atomic.Value
		var wg sync.WaitGroup
		for i := 0; i < g; i++ {
			wg.Add(1)
			go func(seed int64) {
				defer wg.Done()
				r := rand.New(rand.NewSource(seed))
				for k := 0; k < iters; k++ {
					x := pool.Get()
					fl, _ := owner.LoadOrStore(x, new(int32))
					f := fl.(*int32)
					if !atomic.CompareAndSwapInt32(f, 0, 1) {
						bad.Store("buffer handed to two users at once")
					}
					if x.Len() != 0 {
						bad.Store(fmt.Sprintf("dirty buffer len=%d", x.Len()))
					}
					if max > 0 && x.Cap() > max {
						// only buffers that came back through Put can be over cap; fresh ones have cap 0
						bad.Store(fmt.Sprintf("capped pool handed out cap=%d > %d", x.Cap(), max))
					}
					// write an owner-tagged pattern, let others run, and read it back: a Reset (or a write) by a previous
					// holder that still touches the buffer shows up as a wrong length or a foreign byte
					n := 1 + r.Intn(3*64)
					pat := make([]byte, n)
					for j := range pat {
						pat[j] = byte(seed)
					}
					x.Write(pat)
					runtime.Gosched()
					if x.Len() != n {
						bad.Store(fmt.Sprintf("buffer changed under its holder: len=%d, written %d", x.Len(), n))
					} else {
						for _, c := range x.Bytes() {
							if c != byte(seed) {
								bad.Store("buffer holds another user's bytes")
								break
							}
						}
					}
					atomic.StoreInt32(f, 0)
					pool.Put(x)
				}
			}(int64(i) + 1)
		}
		wg.Wait()
		if v := bad.Load(); v != nil {
			return "violation " + v.(string)
		}
		return "ok"
	}
	suites["bufpool"] = suite{gen: func(r *rand.Rand, n int, emit func(string)) {
		// many more goroutines than processors, for long enough that a Get lands between the two statements of a Put
		emit("bp.stress 0 128 8000")
		emit("bp.stress 64 128 8000")
		emit("bp.stress 300 96 8000")
		for done := 0; done < n; {
			emit("reset")
			emit(fmt.Sprintf("bp.new %d", pick(r, []int{0, 0, 8, 64, 100})))
			l := 10 + r.Intn(30)
			holds := map[int]bool{}
			for i := 0; i < l; i++ {
				done++
				u := 1 + r.Intn(3)
				k := r.Intn(6)
				if r.Intn(8) > 0 { // mostly follow the discipline
					if !holds[u] {
						k = 0
					} else if k < 2 {
						k = 2 + r.Intn(4)
					}
				}
				switch k {
				case 0, 1:
					emit(fmt.Sprintf("bp.get %d", u))
					holds[u] = true
				case 2, 3:
					emit(fmt.Sprintf("bp.write %d %d", u, pick(r, []int{0, 1, 7, 8, 9, 63, 65, 200})))
				default:
					emit(fmt.Sprintf("bp.put %d", u))
					holds[u] = false
				}
			}
			if r.Intn(10) == 0 {
				emit(fmt.Sprintf("bp.stress %d %d %d", pick(r, []int{0, 64}), 2+r.Intn(14), 200+r.Intn(2000)))
			}
		}
	}}
}
