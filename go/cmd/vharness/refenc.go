package main

// An independent reference encoder for client-to-server MQTT packets (MQTT 3.1.1 and 5), written
// from the specification and sharing no code with mochi's encoders. It produces every encoding
// the specification permits for one intended packet: omitted zero reason code, omitted property
// length, and any order of the properties (repeatable ones keep their relative order).

import (
	"encoding/hex"
	"fmt"
	"math/rand"

	"github.com/mochi-mqtt/server/v2/packets"
)

type refProp struct {
	id  byte
	val []byte // already encoded value
}

func rVarint(n int) []byte {
	var out []byte
	for {
		d := byte(n % 128)
		n /= 128
		if n > 0 {
			d |= 0x80
		}
		out = append(out, d)
		if n == 0 {
			return out
		}
	}
}
func rU16(n int) []byte { return []byte{byte(n >> 8), byte(n)} }
func rU32(n uint32) []byte {
	return []byte{byte(n >> 24), byte(n >> 16), byte(n >> 8), byte(n)}
}
func rStr(s string) []byte { return append(rU16(len(s)), []byte(s)...) }

func rPropsBytes(ps []refProp) []byte {
	var body []byte
	for _, p := range ps {
		body = append(body, p.id)
		body = append(body, p.val...)
	}
	return append(rVarint(len(body)), body...)
}

// permute keeps the relative order of entries with the same id (repeatables).
func permute(r *rand.Rand, ps []refProp) []refProp {
	out := append([]refProp{}, ps...)
	r.Shuffle(len(out), func(i, j int) { out[i], out[j] = out[j], out[i] })
	// restore relative order within each id
	byID := map[byte][]refProp{}
	for _, p := range ps {
		byID[p.id] = append(byID[p.id], p)
	}
	next := map[byte]int{}
	for i, p := range out {
		out[i] = byID[p.id][next[p.id]]
		next[p.id]++
	}
	return out
}

// genRefProps fills pr (mochi's representation of what the sender meant) and returns the wire entries
// in canonical (ascending id) order.
func genRefProps(r *rand.Rand, pkt byte, pr *packets.Properties) []refProp {
	var ps []refProp
	rs := func() string { return pick(r, []string{"a", "resp/x", "text/plain", "é世", "k", "value"}) }
	add := func(id byte, val []byte) { ps = append(ps, refProp{id, val}) }
	allowed := func(id byte, types ...byte) bool {
		for _, t := range types {
			if t == pkt {
				return r.Intn(3) == 0
			}
		}
		return false
	}
	if allowed(1, packets.Publish, packets.WillProperties) {
		pr.PayloadFormat, pr.PayloadFormatFlag = byte(r.Intn(2)), true
		add(1, []byte{pr.PayloadFormat})
	}
	if allowed(2, packets.Publish, packets.WillProperties) {
		pr.MessageExpiryInterval = uint32(1 + r.Intn(100000))
		add(2, rU32(pr.MessageExpiryInterval))
	}
	if allowed(3, packets.Publish, packets.WillProperties) {
		pr.ContentType = rs()
		add(3, rStr(pr.ContentType))
	}
	if allowed(8, packets.Publish, packets.WillProperties) {
		pr.ResponseTopic = rs()
		add(8, rStr(pr.ResponseTopic))
	}
	if allowed(9, packets.Publish, packets.WillProperties) {
		pr.CorrelationData = []byte(rs())
		add(9, rStr(string(pr.CorrelationData)))
	}
	if pkt == packets.Subscribe && r.Intn(2) == 0 {
		n := 1 + r.Intn(268435455)>>uint(r.Intn(28))
		pr.SubscriptionIdentifier = []int{n}
		add(11, rVarint(n))
	}
	if allowed(17, packets.Connect, packets.Disconnect) {
		pr.SessionExpiryInterval, pr.SessionExpiryIntervalFlag = uint32(r.Intn(100000)), true
		add(17, rU32(pr.SessionExpiryInterval))
	}
	if allowed(21, packets.Connect, packets.Auth) {
		pr.AuthenticationMethod = rs()
		add(21, rStr(pr.AuthenticationMethod))
	}
	if allowed(22, packets.Connect, packets.Auth) {
		pr.AuthenticationData = []byte(rs())
		add(22, rStr(string(pr.AuthenticationData)))
	}
	if allowed(23, packets.Connect) {
		pr.RequestProblemInfo, pr.RequestProblemInfoFlag = byte(r.Intn(2)), true
		add(23, []byte{pr.RequestProblemInfo})
	}
	if allowed(24, packets.WillProperties) {
		pr.WillDelayInterval = uint32(1 + r.Intn(1000))
		add(24, rU32(pr.WillDelayInterval))
	}
	if allowed(25, packets.Connect) {
		pr.RequestResponseInfo = byte(r.Intn(2))
		add(25, []byte{pr.RequestResponseInfo})
	}
	if allowed(31, packets.Puback, packets.Pubrec, packets.Pubrel, packets.Pubcomp, packets.Disconnect, packets.Auth) {
		pr.ReasonString = rs()
		add(31, rStr(pr.ReasonString))
	}
	if allowed(33, packets.Connect) {
		pr.ReceiveMaximum = uint16(1 + r.Intn(65535))
		add(33, rU16(int(pr.ReceiveMaximum)))
	}
	if allowed(34, packets.Connect) {
		pr.TopicAliasMaximum = uint16(r.Intn(65536))
		add(34, rU16(int(pr.TopicAliasMaximum)))
	}
	if allowed(35, packets.Publish) {
		pr.TopicAlias, pr.TopicAliasFlag = uint16(1+r.Intn(65535)), true
		add(35, rU16(int(pr.TopicAlias)))
	}
	for i, k := 0, r.Intn(3); i < k; i++ {
		if pkt != packets.Pingreq {
			u := packets.UserProperty{Key: rs(), Val: rs()}
			pr.User = append(pr.User, u)
			add(38, append(rStr(u.Key), rStr(u.Val)...))
		}
	}
	if allowed(39, packets.Connect) {
		pr.MaximumPacketSize = uint32(1 + r.Intn(1000000))
		add(39, rU32(pr.MaximumPacketSize))
	}
	return ps
}

func init() {
	runners["c.ref"] = func(_ *state, a []string) string {
		pk, err := decodeWire(byte(atoi(a[0])), byte(atoi(a[1])), atoi(a[2]), unhx(a[3]))
		return renderDec(pk, err)
	}
	suites["refenc"] = suite{gen: func(r *rand.Rand, n int, emit func(string)) {
		for i := 0; i < n; i++ {
			ver := pick(r, []byte{4, 5, 5, 5})
			t := pick(r, []byte{packets.Connect, packets.Publish, packets.Puback, packets.Pubrec, packets.Pubrel, packets.Pubcomp, packets.Subscribe, packets.Unsubscribe, packets.Pingreq, packets.Disconnect, packets.Auth})
			if t == packets.Auth {
				ver = 5
			}
			want := packets.Packet{ProtocolVersion: ver, FixedHeader: packets.FixedHeader{Type: t}}
			var ps []refProp
			if ver == 5 {
				ps = genRefProps(r, t, &want.Properties)
			}
			permuted := permute(r, ps)
			if r.Intn(3) == 0 {
				permuted = ps
			}
			propBytes := func() []byte {
				if ver != 5 {
					return nil
				}
				return rPropsBytes(permuted)
			}
			var body []byte
			hb := t << 4
			topic := pick(r, []string{"a", "a/b", "t/é", "x/y/z"})
			switch t {
			case packets.Connect:
				want.Connect.ProtocolName = []byte("MQTT")
				want.Connect.Clean = r.Intn(2) == 0
				want.Connect.Keepalive = uint16(r.Intn(65536))
				want.Connect.ClientIdentifier = pick(r, []string{"", "c1", "client-é"})
				flags := byte(0)
				if want.Connect.Clean {
					flags |= 2
				}
				var tail []byte
				if r.Intn(2) == 0 {
					want.Connect.WillFlag = true
					want.Connect.WillQos = byte(r.Intn(3))
					want.Connect.WillRetain = r.Intn(2) == 0
					want.Connect.WillTopic = topic
					want.Connect.WillPayload = []byte("bye")
					flags |= 4 | want.Connect.WillQos<<3
					if want.Connect.WillRetain {
						flags |= 32
					}
					if ver == 5 {
						wps := genRefProps(r, packets.WillProperties, &want.Connect.WillProperties)
						tail = append(tail, rPropsBytes(permute(r, wps))...)
					}
					tail = append(tail, rStr(topic)...)
					tail = append(tail, rStr("bye")...)
				}
				if r.Intn(2) == 0 {
					want.Connect.UsernameFlag, want.Connect.Username = true, []byte("user")
					flags |= 128
					tail = append(tail, rStr("user")...)
				}
				if r.Intn(2) == 0 {
					want.Connect.PasswordFlag, want.Connect.Password = true, []byte("pw")
					flags |= 64
					tail = append(tail, rStr("pw")...)
				}
				body = append(rStr("MQTT"), ver, flags)
				body = append(body, rU16(int(want.Connect.Keepalive))...)
				body = append(body, propBytes()...)
				body = append(body, rStr(want.Connect.ClientIdentifier)...)
				body = append(body, tail...)
			case packets.Publish:
				want.TopicName = topic
				want.Payload = []byte(pick(r, []string{"", "hello", "\x00\x01"}))
				q := byte(r.Intn(3))
				want.FixedHeader.Qos = q
				want.FixedHeader.Retain = r.Intn(2) == 0
				want.FixedHeader.Dup = q > 0 && r.Intn(3) == 0
				hb |= q << 1
				if want.FixedHeader.Retain {
					hb |= 1
				}
				if want.FixedHeader.Dup {
					hb |= 8
				}
				body = rStr(topic)
				if q > 0 {
					want.PacketID = uint16(1 + r.Intn(65535))
					body = append(body, rU16(int(want.PacketID))...)
				}
				body = append(body, propBytes()...)
				body = append(body, want.Payload...)
			case packets.Puback, packets.Pubrec, packets.Pubrel, packets.Pubcomp:
				if t == packets.Pubrel {
					hb |= 2
					want.FixedHeader.Qos = 1
				}
				want.PacketID = uint16(1 + r.Intn(65535))
				body = rU16(int(want.PacketID))
				if ver == 5 {
					want.ReasonCode = pick(r, []byte{0, 0, 0x10, 0x80, 0x92})
					switch {
					case len(ps) > 0:
						body = append(body, want.ReasonCode)
						body = append(body, propBytes()...)
					case want.ReasonCode == 0:
						switch r.Intn(3) { // all three forms are permitted
						case 0:
						case 1:
							body = append(body, 0)
						default:
							body = append(body, 0, 0)
						}
					default:
						body = append(body, want.ReasonCode)
						if r.Intn(2) == 0 {
							body = append(body, 0)
						}
					}
				}
			case packets.Subscribe:
				hb |= 2
				want.FixedHeader.Qos = 1
				want.PacketID = uint16(1 + r.Intn(65535))
				body = rU16(int(want.PacketID))
				body = append(body, propBytes()...)
				for j, k := 0, 1+r.Intn(3); j < k; j++ {
					f := pick(r, []string{"a/#", "+/b", "$share/g/a", "x"})
					s := packets.Subscription{Filter: f, Qos: byte(r.Intn(3))}
					opt := s.Qos
					if ver == 5 {
						s.NoLocal, s.RetainAsPublished, s.RetainHandling = r.Intn(2) == 0, r.Intn(2) == 0, byte(r.Intn(3))
						if s.NoLocal {
							opt |= 4
						}
						if s.RetainAsPublished {
							opt |= 8
						}
						opt |= s.RetainHandling << 4
						if len(want.Properties.SubscriptionIdentifier) > 0 {
							s.Identifier = want.Properties.SubscriptionIdentifier[0]
						}
					}
					want.Filters = append(want.Filters, s)
					body = append(body, rStr(f)...)
					body = append(body, opt)
				}
			case packets.Unsubscribe:
				hb |= 2
				want.FixedHeader.Qos = 1
				want.PacketID = uint16(1 + r.Intn(65535))
				body = rU16(int(want.PacketID))
				body = append(body, propBytes()...)
				for j, k := 0, 1+r.Intn(3); j < k; j++ {
					f := pick(r, []string{"a/#", "+/b", "x"})
					want.Filters = append(want.Filters, packets.Subscription{Filter: f})
					body = append(body, rStr(f)...)
				}
			case packets.Pingreq:
			case packets.Disconnect, packets.Auth:
				if ver == 5 {
					if t == packets.Disconnect {
						want.ReasonCode = pick(r, []byte{0, 0, 4, 0x81, 0x8e})
					} else {
						want.ReasonCode = pick(r, []byte{0, 0, 0x18, 0x19})
					}
					switch {
					case len(ps) > 0:
						body = append(body, want.ReasonCode)
						body = append(body, propBytes()...)
					case want.ReasonCode == 0:
						switch r.Intn(3) {
						case 0:
						case 1:
							body = append(body, 0)
						default:
							body = append(body, 0, 0)
						}
					default:
						body = append(body, want.ReasonCode)
						if r.Intn(2) == 0 {
							body = append(body, 0)
						}
					}
				}
			}
			emit(fmt.Sprintf("c.ref %d %d %d %s %s", ver, hb, len(body), hx(body), hex.EncodeToString([]byte("ok "+renderPacket(&want)))))
		}
	}}
}
