package main

import (
	"bytes"
	"errors"
	"fmt"
	"math/rand"
	"strings"

	"github.com/mochi-mqtt/server/v2/packets"
)

var codeNames = map[packets.Code]string{
	packets.ErrMalformedProtocolName:                "ErrMalformedProtocolName",
	packets.ErrMalformedProtocolVersion:             "ErrMalformedProtocolVersion",
	packets.ErrMalformedFlags:                       "ErrMalformedFlags",
	packets.ErrMalformedKeepalive:                   "ErrMalformedKeepalive",
	packets.ErrMalformedProperties:                  "ErrMalformedProperties",
	packets.ErrClientIdentifierNotValid:             "ErrClientIdentifierNotValid",
	packets.ErrMalformedWillProperties:              "ErrMalformedWillProperties",
	packets.ErrMalformedWillTopic:                   "ErrMalformedWillTopic",
	packets.ErrMalformedWillPayload:                 "ErrMalformedWillPayload",
	packets.ErrProtocolViolationFlagNoUsername:      "ErrProtocolViolationFlagNoUsername",
	packets.ErrMalformedUsername:                    "ErrMalformedUsername",
	packets.ErrMalformedPassword:                    "ErrMalformedPassword",
	packets.ErrMalformedSessionPresent:              "ErrMalformedSessionPresent",
	packets.ErrMalformedReasonCode:                  "ErrMalformedReasonCode",
	packets.ErrMalformedTopic:                       "ErrMalformedTopic",
	packets.ErrMalformedPacketID:                    "ErrMalformedPacketID",
	packets.ErrMalformedQos:                         "ErrMalformedQos",
	packets.ErrProtocolViolationQosOutOfRange:       "ErrProtocolViolationQosOutOfRange",
	packets.ErrProtocolViolationDupNoQos:            "ErrProtocolViolationDupNoQos",
	packets.ErrProtocolViolationNoPacketID:          "ErrProtocolViolationNoPacketID",
	packets.ErrProtocolViolationUnsupportedProperty: "ErrProtocolViolationUnsupportedProperty",
	packets.ErrMalformedOffsetByteOutOfRange:        "ErrMalformedOffsetByteOutOfRange",
	packets.ErrMalformedOffsetUintOutOfRange:        "ErrMalformedOffsetUintOutOfRange",
	packets.ErrMalformedOffsetBytesOutOfRange:       "ErrMalformedOffsetBytesOutOfRange",
	packets.ErrMalformedOffsetBoolOutOfRange:        "ErrMalformedOffsetBoolOutOfRange",
	packets.ErrMalformedInvalidUTF8:                 "ErrMalformedInvalidUTF8",
	packets.ErrMalformedVariableByteInteger:         "ErrMalformedVariableByteInteger",
}

func errName(err error) string {
	var c packets.Code
	if errors.As(err, &c) {
		if n, ok := codeNames[c]; ok {
			return n
		}
		return "Err?" + strings.ReplaceAll(c.Reason, " ", "_")
	}
	return "Err!" + strings.ReplaceAll(err.Error(), " ", "_")
}

func renderProps(p *packets.Properties) string {
	nums := func(l []int) string {
		var xs []string
		for _, n := range l {
			xs = append(xs, fmt.Sprint(n))
		}
		return strings.Join(xs, ",")
	}
	var us []string
	for _, u := range p.User {
		us = append(us, hx([]byte(u.Key))+":"+hx([]byte(u.Val)))
	}
	h := func(s string) string { return hx([]byte(s)) }
	return fmt.Sprintf("cd=%s si=%s ad=%s user=%s ct=%s rt=%s aci=%s am=%s ri=%s sr=%s rs=%s me=%d sei=%d wdi=%d mps=%d ska=%d rm=%d tam=%d ta=%d pf=%d fpf=%s fsei=%s fska=%s rpi=%d frpi=%s rri=%d fta=%s mqos=%d fmqos=%s ra=%d fra=%s wsa=%d fwsa=%s sida=%d fsida=%s ssa=%d fssa=%s",
		hx(p.CorrelationData), nums(p.SubscriptionIdentifier), hx(p.AuthenticationData), strings.Join(us, "|"),
		h(p.ContentType), h(p.ResponseTopic), h(p.AssignedClientID), h(p.AuthenticationMethod), h(p.ResponseInfo), h(p.ServerReference), h(p.ReasonString),
		p.MessageExpiryInterval, p.SessionExpiryInterval, p.WillDelayInterval, p.MaximumPacketSize,
		p.ServerKeepAlive, p.ReceiveMaximum, p.TopicAliasMaximum, p.TopicAlias,
		p.PayloadFormat, b2s(p.PayloadFormatFlag), b2s(p.SessionExpiryIntervalFlag), b2s(p.ServerKeepAliveFlag), p.RequestProblemInfo, b2s(p.RequestProblemInfoFlag),
		p.RequestResponseInfo, b2s(p.TopicAliasFlag), p.MaximumQos, b2s(p.MaximumQosFlag), p.RetainAvailable, b2s(p.RetainAvailableFlag), p.WildcardSubAvailable,
		b2s(p.WildcardSubAvailableFlag), p.SubIDAvailable, b2s(p.SubIDAvailableFlag), p.SharedSubAvailable, b2s(p.SharedSubAvailableFlag))
}

func renderPacket(pk *packets.Packet) string {
	fh := pk.FixedHeader
	c := pk.Connect
	var fs []string
	for _, s := range pk.Filters {
		fs = append(fs, fmt.Sprintf("%s:%d:%s:%s:%d:%d", hx([]byte(s.Filter)), s.Qos, b2s(s.NoLocal), b2s(s.RetainAsPublished), s.RetainHandling, s.Identifier))
	}
	h := func(s string) string { return hx([]byte(s)) }
	return fmt.Sprintf("t=%d q=%d d=%s r=%s v=%d id=%d rc=%d sp=%s rb=%d topic=%s payload=%s rcs=%s filters=[%s] conn=(pn=%s cid=%s wt=%s wp=%s un=%s pw=%s ka=%d pf=%s uf=%s wq=%d wf=%s wr=%s cl=%s wprops=(%s)) props=(%s)",
		fh.Type, fh.Qos, b2s(fh.Dup), b2s(fh.Retain), pk.ProtocolVersion, pk.PacketID, pk.ReasonCode, b2s(pk.SessionPresent), pk.ReservedBit, h(pk.TopicName),
		hx(pk.Payload), hx(pk.ReasonCodes), strings.Join(fs, ";"),
		hx(c.ProtocolName), h(c.ClientIdentifier), h(c.WillTopic), hx(c.WillPayload), hx(c.Username), hx(c.Password), c.Keepalive, b2s(c.PasswordFlag), b2s(c.UsernameFlag),
		c.WillQos, b2s(c.WillFlag), b2s(c.WillRetain), b2s(c.Clean), renderProps(&c.WillProperties), renderProps(&pk.Properties))
}

// decodeWire mirrors Client.ReadFixedHeader + ReadPacket's dispatch.
func decodeWire(ver, hb byte, rem int, body []byte) (pk packets.Packet, err error) {
	fh := packets.FixedHeader{}
	if err = fh.Decode(hb); err != nil {
		return pk, err
	}
	fh.Remaining = rem
	pk.ProtocolVersion = ver
	pk.FixedHeader = fh
	// a copy whose capacity equals its length: any read past the end of the packet body panics instead of
	// silently returning bytes of the backing array (C27: no overread)
	px := make([]byte, len(body))
	copy(px, body)
	px = px[:len(body):len(body)]
	switch fh.Type {
	case packets.Connect:
		err = pk.ConnectDecode(px)
	case packets.Disconnect:
		err = pk.DisconnectDecode(px)
	case packets.Connack:
		err = pk.ConnackDecode(px)
	case packets.Publish:
		err = pk.PublishDecode(px)
	case packets.Puback:
		err = pk.PubackDecode(px)
	case packets.Pubrec:
		err = pk.PubrecDecode(px)
	case packets.Pubrel:
		err = pk.PubrelDecode(px)
	case packets.Pubcomp:
		err = pk.PubcompDecode(px)
	case packets.Subscribe:
		err = pk.SubscribeDecode(px)
	case packets.Suback:
		err = pk.SubackDecode(px)
	case packets.Unsubscribe:
		err = pk.UnsubscribeDecode(px)
	case packets.Unsuback:
		err = pk.UnsubackDecode(px)
	case packets.Pingreq:
	case packets.Pingresp:
	case packets.Auth:
		err = pk.AuthDecode(px)
	default:
		err = packets.ErrNoValidPacketAvailable
	}
	return pk, err
}

func encodeAny(pk *packets.Packet, buf *bytes.Buffer) error {
	switch pk.FixedHeader.Type {
	case packets.Connect:
		return pk.ConnectEncode(buf)
	case packets.Connack:
		return pk.ConnackEncode(buf)
	case packets.Publish:
		return pk.PublishEncode(buf)
	case packets.Puback:
		return pk.PubackEncode(buf)
	case packets.Pubrec:
		return pk.PubrecEncode(buf)
	case packets.Pubrel:
		return pk.PubrelEncode(buf)
	case packets.Pubcomp:
		return pk.PubcompEncode(buf)
	case packets.Subscribe:
		return pk.SubscribeEncode(buf)
	case packets.Suback:
		return pk.SubackEncode(buf)
	case packets.Unsubscribe:
		return pk.UnsubscribeEncode(buf)
	case packets.Unsuback:
		return pk.UnsubackEncode(buf)
	case packets.Pingreq:
		return pk.PingreqEncode(buf)
	case packets.Pingresp:
		return pk.PingrespEncode(buf)
	case packets.Disconnect:
		return pk.DisconnectEncode(buf)
	case packets.Auth:
		return pk.AuthEncode(buf)
	}
	return packets.ErrNoValidPacketAvailable
}

func normProps(p packets.Properties) packets.Properties {
	if !p.PayloadFormatFlag {
		p.PayloadFormat = 0
	}
	p.PayloadFormatFlag = false
	if !p.SessionExpiryIntervalFlag {
		p.SessionExpiryInterval = 0
	}
	p.SessionExpiryIntervalFlag = false
	if !p.RequestProblemInfoFlag {
		p.RequestProblemInfo = 1
	}
	p.RequestProblemInfoFlag = false
	if !(p.TopicAliasFlag && p.TopicAlias > 0) {
		p.TopicAlias = 0
	}
	p.TopicAliasFlag = false
	if !(p.MaximumQosFlag && p.MaximumQos < 2) {
		p.MaximumQos = 2
	}
	p.MaximumQosFlag = false
	if !p.RetainAvailableFlag {
		p.RetainAvailable = 1
	}
	p.RetainAvailableFlag = false
	if !p.WildcardSubAvailableFlag {
		p.WildcardSubAvailable = 1
	}
	p.WildcardSubAvailableFlag = false
	if !p.SubIDAvailableFlag {
		p.SubIDAvailable = 1
	}
	p.SubIDAvailableFlag = false
	if !p.SharedSubAvailableFlag {
		p.SharedSubAvailable = 1
	}
	p.SharedSubAvailableFlag = false
	var si []int
	for _, v := range p.SubscriptionIdentifier {
		if v > 0 {
			si = append(si, v)
		}
	}
	p.SubscriptionIdentifier = si
	if strings.ContainsAny(p.ResponseTopic, "+#") {
		p.ResponseTopic = ""
	}
	return p
}

func renderDecN(pk packets.Packet, err error) string {
	if err != nil {
		return "err " + errName(err)
	}
	pk.ReservedBit = 0
	pk.Properties = normProps(pk.Properties)
	pk.Connect.WillProperties = normProps(pk.Connect.WillProperties)
	return "ok " + renderPacket(&pk)
}

func renderDec(pk packets.Packet, err error) string {
	if err != nil {
		return "err " + errName(err)
	}
	return "ok " + renderPacket(&pk)
}

func init() {
	runners["c.dec"] = func(_ *state, a []string) string {
		pk, err := decodeWire(byte(atoi(a[0])), byte(atoi(a[1])), atoi(a[2]), unhx(a[3]))
		return renderDec(pk, err)
	}
	runners["c.reenc"] = func(_ *state, a []string) string {
		pk, err := decodeWire(byte(atoi(a[0])), byte(atoi(a[1])), atoi(a[2]), unhx(a[3]))
		if err != nil {
			return "err " + errName(err)
		}
		m := strings.Split(a[4], ",")
		pk.Mods = packets.Mods{MaxSize: uint32(atoi(m[0])), DisallowProblemInfo: m[1] == "1", AllowResponseInfo: m[2] == "1"}
		buf := new(bytes.Buffer)
		if err := encodeAny(&pk, buf); err != nil {
			return "encerr " + errName(err)
		}
		bs := append([]byte{}, buf.Bytes()...)
		if len(bs) == 0 {
			return "E=- D=empty"
		}
		r := bytes.NewBuffer(bs[1:])
		n, _, err := packets.DecodeLength(r)
		if err != nil {
			return "E=" + hx(bs) + " D=badlen"
		}
		rest := r.Bytes()
		pk2, err2 := decodeWire(pk.ProtocolVersion, bs[0], n, rest)
		pk.Mods = packets.Mods{}
		return fmt.Sprintf("E=%s L=%s Q=%s D=%s", hx(bs), b2s(n == len(rest)), b2s(renderDecN(pk2, err2) == renderDecN(pk, nil)), renderDec(pk2, err2))
	}

	rstr := func(r *rand.Rand) string {
		return pick(r, []string{"", "a", "a/b", "x/+/y", "zen", "é世", "topic/with/levels", "a\x00b", "\xff\xfe", "r/\uFFFD", "\U0001F321/t", strings.Repeat("k", 1+r.Intn(40))})
	}
	rbytes := func(r *rand.Rand) []byte {
		b := make([]byte, r.Intn(6))
		r.Read(b)
		return b
	}
	rprops := func(r *rand.Rand) packets.Properties {
		p := packets.Properties{}
		for i, k := 0, r.Intn(7); i < k; i++ {
			switch r.Intn(27) {
			case 0:
				p.PayloadFormat, p.PayloadFormatFlag = byte(r.Intn(3)), true
			case 1:
				p.MessageExpiryInterval = r.Uint32() >> uint(r.Intn(32))
			case 2:
				p.ContentType = rstr(r)
			case 3:
				p.ResponseTopic = rstr(r)
			case 4:
				p.CorrelationData = rbytes(r)
			case 5:
				p.SubscriptionIdentifier = append(p.SubscriptionIdentifier, r.Intn(300000000)>>uint(r.Intn(28)))
			case 6:
				p.SessionExpiryInterval, p.SessionExpiryIntervalFlag = r.Uint32()>>uint(r.Intn(32)), true
			case 7:
				p.AssignedClientID = rstr(r)
			case 8:
				p.ServerKeepAlive, p.ServerKeepAliveFlag = uint16(r.Intn(65536)), true
			case 9:
				p.AuthenticationMethod = rstr(r)
			case 10:
				p.AuthenticationData = rbytes(r)
			case 11:
				p.RequestProblemInfo, p.RequestProblemInfoFlag = byte(r.Intn(2)), true
			case 12:
				p.WillDelayInterval = r.Uint32() >> uint(r.Intn(32))
			case 13:
				p.RequestResponseInfo = byte(r.Intn(2))
			case 14:
				p.ResponseInfo = rstr(r)
			case 15:
				p.ServerReference = rstr(r)
			case 16:
				p.ReasonString = rstr(r)
			case 17:
				p.ReceiveMaximum = uint16(r.Intn(65536))
			case 18:
				p.TopicAliasMaximum = uint16(r.Intn(65536))
			case 19:
				p.TopicAlias, p.TopicAliasFlag = uint16(r.Intn(65536)), true
			case 20:
				p.MaximumQos, p.MaximumQosFlag = byte(r.Intn(3)), true
			case 21:
				p.RetainAvailable, p.RetainAvailableFlag = byte(r.Intn(2)), true
			case 22:
				p.User = append(p.User, packets.UserProperty{Key: rstr(r), Val: rstr(r)})
			case 23:
				p.MaximumPacketSize = r.Uint32() >> uint(r.Intn(32))
			case 24:
				p.WildcardSubAvailable, p.WildcardSubAvailableFlag = byte(r.Intn(2)), true
			case 25:
				p.SubIDAvailable, p.SubIDAvailableFlag = byte(r.Intn(2)), true
			case 26:
				p.SharedSubAvailable, p.SharedSubAvailableFlag = byte(r.Intn(2)), true
			}
		}
		return p
	}
	genPacket := func(r *rand.Rand) packets.Packet {
		t := byte(1 + r.Intn(15))
		pk := packets.Packet{FixedHeader: packets.FixedHeader{Type: t}, ProtocolVersion: pick(r, []byte{3, 4, 5, 5, 5})}
		pk.Mods.AllowResponseInfo = r.Intn(4) > 0
		pk.Properties = rprops(r)
		pk.PacketID = uint16(r.Intn(65536) >> uint(r.Intn(16)))
		pk.ReasonCode = pick(r, []byte{0, 0, 0, 4, 0x10, 0x80, 0x87, 0x91, 0x92})
		switch t {
		case packets.Connect:
			pk.Connect.ProtocolName = pick(r, [][]byte{[]byte("MQTT"), []byte("MQIsdp"), []byte("X")})
			pk.Connect.ClientIdentifier = rstr(r)
			pk.Connect.Clean = r.Intn(2) == 0
			pk.Connect.Keepalive = uint16(r.Intn(65536))
			if r.Intn(2) == 0 {
				pk.Connect.WillFlag, pk.Connect.WillTopic, pk.Connect.WillPayload = true, rstr(r), rbytes(r)
				pk.Connect.WillQos, pk.Connect.WillRetain = byte(r.Intn(3)), r.Intn(2) == 0
				pk.Connect.WillProperties = rprops(r)
			}
			if r.Intn(2) == 0 {
				pk.Connect.UsernameFlag, pk.Connect.Username = true, []byte(rstr(r))
			}
			if r.Intn(2) == 0 {
				pk.Connect.PasswordFlag, pk.Connect.Password = true, rbytes(r)
			}
		case packets.Connack:
			pk.SessionPresent = r.Intn(2) == 0
		case packets.Publish:
			pk.TopicName, pk.Payload = rstr(r), rbytes(r)
			pk.FixedHeader.Qos, pk.FixedHeader.Retain = byte(r.Intn(3)), r.Intn(2) == 0
			pk.FixedHeader.Dup = pk.FixedHeader.Qos > 0 && r.Intn(3) == 0
			if pk.FixedHeader.Qos > 0 && pk.PacketID == 0 {
				pk.PacketID = 1
			}
		case packets.Pubrel, packets.Subscribe, packets.Unsubscribe:
			pk.FixedHeader.Qos = 1
			if pk.PacketID == 0 {
				pk.PacketID = 7
			}
			for i, k := 0, r.Intn(4); i < k; i++ {
				pk.Filters = append(pk.Filters, packets.Subscription{Filter: rstr(r), Qos: byte(r.Intn(3)), NoLocal: r.Intn(2) == 0, RetainAsPublished: r.Intn(2) == 0, RetainHandling: byte(r.Intn(3))})
			}
		case packets.Suback, packets.Unsuback:
			pk.ReasonCodes = rbytes(r)
		}
		return pk
	}
	emitWire := func(r *rand.Rand, emit func(string), ver byte, bs []byte) {
		if len(bs) < 2 {
			return
		}
		rd := bytes.NewBuffer(bs[1:])
		n, _, err := packets.DecodeLength(rd)
		if err != nil {
			return
		}
		body := rd.Bytes()
		mods := fmt.Sprintf("%d,%d,%d", pick(r, []int{0, 0, 0, 8, 20, 40, 100}), r.Intn(4)/3, r.Intn(4)/1&1)
		emit(fmt.Sprintf("c.dec %d %d %d %s", ver, bs[0], n, hx(body)))
		emit(fmt.Sprintf("c.reenc %d %d %d %s %s", ver, bs[0], n, hx(body), mods))
		// mutations: truncations, byte flips, wrong remaining length, other version
		for k := 0; k < 3; k++ {
			m := append([]byte{}, body...)
			rem := n
			switch r.Intn(6) {
			case 0:
				if len(m) > 0 {
					m = m[:r.Intn(len(m))]
				}
			case 1:
				if len(m) > 0 {
					m[r.Intn(len(m))] ^= byte(1 << uint(r.Intn(8)))
				}
			case 2:
				rem = pick(r, []int{0, 1, 2, 3, 4, len(m) + 1})
			case 3:
				if len(m) > 0 {
					i := r.Intn(len(m))
					m = append(m[:i], append([]byte{byte(r.Intn(256))}, m[i:]...)...)
				}
			case 4:
				if len(m) > 0 {
					m[r.Intn(len(m))] = pick(r, []byte{0, 0xff, 0x80, 0x7f, 1})
				}
			default:
				rem = len(m)
			}
			if rem == n && r.Intn(2) == 0 {
				rem = len(m)
			}
			v2 := ver
			if r.Intn(6) == 0 {
				v2 = pick(r, []byte{3, 4, 5})
			}
			hb := bs[0]
			if r.Intn(10) == 0 {
				hb ^= byte(1 << uint(r.Intn(4)))
			}
			emit(fmt.Sprintf("c.dec %d %d %d %s", v2, hb, rem, hx(m)))
			if r.Intn(3) == 0 {
				emit(fmt.Sprintf("c.reenc %d %d %d %s %s", v2, hb, rem, hx(m), mods))
			}
		}
	}
	// every truncation of valid encodings: for each catalogue vector and generated packet, every proper
	// prefix of the body, decoded with the prefix length and with the original remaining length
	suites["codectrunc"] = suite{gen: func(r *rand.Rand, n int, emit func(string)) {
		count := 0
		trunc := func(ver byte, bs []byte) {
			if len(bs) < 2 {
				return
			}
			rd := bytes.NewBuffer(bs[1:])
			rem, _, err := packets.DecodeLength(rd)
			if err != nil {
				return
			}
			body := rd.Bytes()
			if len(body) > 96 {
				return
			}
			for k := 0; k < len(body); k++ {
				emit(fmt.Sprintf("c.dec %d %d %d %s", ver, bs[0], k, hx(body[:k])))
				if r.Intn(4) == 0 {
					emit(fmt.Sprintf("c.dec %d %d %d %s", ver, bs[0], rem, hx(body[:k])))
					count++
				}
				count++
			}
		}
		var vecs [][]byte
		var vers []byte
		for t := byte(1); t <= 15; t++ {
			for _, c := range packets.TPacketData[t] {
				ver := byte(4)
				if c.Packet != nil && c.Packet.ProtocolVersion != 0 {
					ver = c.Packet.ProtocolVersion
				}
				vecs = append(vecs, c.RawBytes)
				vers = append(vers, ver)
			}
		}
		// a random rotation of the catalogue, then generated packets, until n ops are out
		off := r.Intn(len(vecs))
		for i := 0; i < len(vecs) && count < n/2; i++ {
			j := (off + i) % len(vecs)
			trunc(vers[j], vecs[j])
		}
		for count < n {
			pk := genPacket(r)
			buf := new(bytes.Buffer)
			func() {
				defer func() { recover() }()
				if err := encodeAny(&pk, buf); err != nil {
					buf.Reset()
				}
			}()
			if buf.Len() >= 2 {
				trunc(pk.ProtocolVersion, append([]byte{}, buf.Bytes()...))
			} else {
				count++
			}
		}
	}}
	suites["codec"] = suite{gen: func(r *rand.Rand, n int, emit func(string)) {
		// fixed witnesses first
		emit("c.dec 5 130 6 000100000161") // v5 SUBSCRIBE without options byte (formerly a panic)
		emit("c.dec 5 224 1 04")           // DISCONNECT, reason only
		emit("c.dec 5 224 0 -")            // DISCONNECT, empty
		emit("c.dec 5 240 0 -")            // AUTH, empty
		emit("c.dec 5 240 1 18")           // AUTH, reason only
		emit("c.dec 5 64 2 0007")          // PUBACK short
		emit("c.dec 5 64 3 000710")        // PUBACK with reason
		emit("c.dec 5 64 4 00071000")      // PUBACK with reason and empty props
		// UTF-8 boundaries as the topic of a QoS 0 PUBLISH (the strings of every field go through decodeString):
		// first and last code point of each length, U+FFFD (a VALID code point that equals utf8.RuneError), U+FEFF,
		// non-characters, surrogates, overlong forms, values above U+10FFFF, truncated and stray bytes
		var u8 [][]byte
		for _, s := range []string{"\uFFFD", "a\uFFFDb", "\uFFFD\uFFFD", "\uFEFF", "\uFFFE", "\uFFFF", "\U00010000", "\U0010FFFF", "\u0080", "\u07FF", "\u0800", "\uD7FF", "\uE000", "\u007F"} {
			u8 = append(u8, []byte(s))
		}
		for _, l := range []byte{0x7F, 0x80, 0xBF, 0xC0, 0xC1, 0xC2, 0xDF} {
			for _, t := range []byte{0x00, 0x7F, 0x80, 0xBF, 0xC0} {
				u8 = append(u8, []byte{l, t})
			}
		}
		for _, l := range []byte{0xE0, 0xE1, 0xEC, 0xED, 0xEE, 0xEF} {
			for _, t1 := range []byte{0x7F, 0x80, 0x9F, 0xA0, 0xBF, 0xC0} {
				for _, t2 := range []byte{0x7F, 0x80, 0xBD, 0xBE, 0xBF, 0xC0} {
					u8 = append(u8, []byte{l, t1, t2})
				}
			}
			u8 = append(u8, []byte{l, 0x80})
		}
		for _, l := range []byte{0xF0, 0xF1, 0xF3, 0xF4, 0xF5, 0xF8} {
			for _, t1 := range []byte{0x80, 0x8F, 0x90, 0xBF} {
				for _, t2 := range []byte{0x80, 0xBF} {
					u8 = append(u8, []byte{l, t1, t2, 0x80}, []byte{l, t1, t2, 0xBF})
				}
			}
			u8 = append(u8, []byte{l, 0x90, 0x80})
		}
		for _, tb := range u8 {
			body := append([]byte{byte(len(tb) >> 8), byte(len(tb))}, tb...)
			body = append(body, 'x')
			emit(fmt.Sprintf("c.dec 4 48 %d %s", len(body), hx(body)))
		}
		// the repo's own packet catalogue
		for t := byte(1); t <= 15; t++ {
			for _, c := range packets.TPacketData[t] {
				ver := byte(4)
				if c.Packet != nil && c.Packet.ProtocolVersion != 0 {
					ver = c.Packet.ProtocolVersion
				}
				if len(c.RawBytes) >= 2 {
					emitWire(r, emit, ver, c.RawBytes)
				}
			}
		}
		for i := 0; i < n; i++ {
			pk := genPacket(r)
			buf := new(bytes.Buffer)
			func() {
				defer func() { recover() }()
				if err := encodeAny(&pk, buf); err != nil {
					buf.Reset()
				}
			}()
			if buf.Len() >= 2 {
				emitWire(r, emit, pk.ProtocolVersion, append([]byte{}, buf.Bytes()...))
			}
		}
	}}
}
