package main

// alias suite (property C24): the topic-alias tables of topics.go — mqtt.OutboundTopicAliases and
// mqtt.InboundTopicAliases — driven directly through their exported constructors, with Topic Alias Maxima up
// to 65535 so that the uint16/uint32 arithmetic of OutboundTopicAliases.Set is exercised at its boundary.
//
//	al.new <max>                 a new outbound table                       -> -
//	al.set <topichex>            Set(topic)                                 -> <alias> <existed>
//	al.fill <n>                  n calls of Set with the fresh topics f<counter>, f<counter+1>, … (the counter
//	                             is per table)                              -> nz=<non-zero aliases returned>
//	                             zeros=<zero answers> min=<smallest non-zero alias> max=<largest alias>
//	                             dups=<aliases handed to a fresh topic that some other topic already held;
//	                             "held" is tracked over the whole life of the table, al.set answers included>
//	al.in.new <max>              a new inbound table                        -> -
//	al.in.set <id> <topichex>    Set(uint16(id), topic)                     -> <returned topic hex>

import (
	"fmt"
	"math/rand"

	mqtt "github.com/mochi-mqtt/server/v2"
)

type alState struct {
	out     *mqtt.OutboundTopicAliases
	held    [65536]bool // aliases handed out so far (non-zero, existed == false)
	counter int         // fresh-name counter of al.fill
	in      *mqtt.InboundTopicAliases
}

// alOf returns the alias tables of the sequence; a table that was never created has maximum 0 (as in the model).
func alOf(st *state) *alState {
	if x, ok := st.m["al"]; ok {
		return x.(*alState)
	}
	a := &alState{out: mqtt.NewOutboundTopicAliases(0), in: mqtt.NewInboundTopicAliases(0)}
	st.m["al"] = a
	return a
}

func init() {
	runners["al.new"] = func(st *state, a []string) string {
		in := alOf(st).in
		st.m["al"] = &alState{out: mqtt.NewOutboundTopicAliases(uint16(atoi(a[0]))), in: in}
		return "-"
	}
	runners["al.set"] = func(st *state, a []string) string {
		al := alOf(st)
		alias, existed := al.out.Set(string(unhx(a[0])))
		if alias != 0 && !existed {
			al.held[alias] = true
		}
		return fmt.Sprintf("%d %s", alias, b2s(existed))
	}
	runners["al.fill"] = func(st *state, a []string) string {
		al := alOf(st)
		n := atoi(a[0])
		nz, zeros, mn, mx, dups := 0, 0, 0, 0, 0
		for i := 0; i < n; i++ {
			alias, _ := al.out.Set(fmt.Sprintf("f%d", al.counter))
			al.counter++
			if alias == 0 {
				zeros++
				continue
			}
			nz++
			if mn == 0 || int(alias) < mn {
				mn = int(alias)
			}
			if int(alias) > mx {
				mx = int(alias)
			}
			if al.held[alias] { // the topic is fresh, so whoever holds this alias is another topic
				dups++
			}
			al.held[alias] = true
		}
		return fmt.Sprintf("nz=%d zeros=%d min=%d max=%d dups=%d", nz, zeros, mn, mx, dups)
	}
	runners["al.in.new"] = func(st *state, a []string) string {
		alOf(st).in = mqtt.NewInboundTopicAliases(uint16(atoi(a[0])))
		return "-"
	}
	runners["al.in.set"] = func(st *state, a []string) string {
		return hx([]byte(alOf(st).in.Set(uint16(atoi(a[0])), string(unhx(a[1])))))
	}

	hs := func(s string) string { return hx([]byte(s)) }
	small := []string{"a", "b", "c", "a/b", "a/b/c", "", "$SYS/x", "d"}
	// one sequence on an outbound table of the given maximum, then one on an inbound table; returns ops emitted
	genSeq := func(r *rand.Rand, max int, emit func(string)) int {
		ops := 0
		e := func(s string) { emit(s); ops++ }
		counter := 0
		fill := func(n int) {
			if n < 0 {
				n = 0
			}
			e(fmt.Sprintf("al.fill %d", n))
			counter += n
		}
		sets := func(k int, pool []string) {
			for i := 0; i < k; i++ {
				e("al.set " + hs(pick(r, pool)))
			}
		}
		early := func(k int) { // topics of earlier fills again (existing bindings, or topics that were answered 0)
			for i := 0; i < k && counter > 0; i++ {
				var j int
				switch r.Intn(4) {
				case 0:
					j = r.Intn(min(counter, 4))
				case 1:
					j = counter - 1 - r.Intn(min(counter, 12))
				default:
					j = r.Intn(counter)
				}
				e("al.set " + hs(fmt.Sprintf("f%d", j)))
			}
		}
		e("reset")
		e(fmt.Sprintf("al.new %d", max))
		sets(r.Intn(4), small)
		// up to a few below the maximum, a few sets that may take the last aliases, then across the boundary
		fill(max - r.Intn(7) - r.Intn(3)*r.Intn(max/2+1))
		sets(2+r.Intn(5), small)
		early(2)
		fill(1 + r.Intn(12))
		sets(2+r.Intn(4), small)
		early(3 + r.Intn(3))
		if r.Intn(2) == 0 {
			fill(r.Intn(4))
			sets(2, []string{"x", "y", "z", "a"})
			early(2)
		}
		// inbound: ids over 0..max+1 (a uint16), empty and non-empty topics, re-binding
		e(fmt.Sprintf("al.in.new %d", max))
		ids := []int{0, 1, 2, max - 1, max, max + 1, 1 + r.Intn(max+1)}
		for i, k := 0, 8+r.Intn(8); i < k; i++ {
			id := pick(r, ids)
			if id < 0 {
				id = 0
			}
			if id > 65535 {
				id = 65535
			}
			t := ""
			if r.Intn(2) == 0 {
				t = pick(r, small)
			}
			e(fmt.Sprintf("al.in.set %d %s", id, hs(t)))
		}
		return ops
	}
	maxima := []int{0, 1, 2, 3, 5, 100, 65534, 65535}
	suites["alias"] = suite{gen: func(r *rand.Rand, n int, emit func(string)) {
		done := 0
		// every maximum once, the boundary as in the brief: fill 65530, a few sets, fill 10, early topics again
		for _, m := range maxima {
			done += genSeq(r, m, emit)
		}
		emit("reset")
		emit("al.new 65535")
		emit("al.fill 65530")
		for _, t := range []string{"a", "b", "c", "a", "d"} {
			emit("al.set " + hs(t))
		}
		emit("al.fill 10")
		for _, t := range []string{"f0", "f1", "f65529", "f65530", "f65531", "f65539", "a", "e", "d"} {
			emit("al.set " + hs(t))
		}
		emit("al.fill 3")
		emit("al.set " + hs("f65540"))
		done += 22
		// then random maxima, the small ones more often (a sequence on a 65535 table costs ~65535 Set calls)
		weighted := []int{0, 1, 1, 2, 2, 3, 3, 5, 5, 5, 100, 100, 100, 65534, 65535}
		for done < n {
			done += genSeq(r, pick(r, weighted), emit)
		}
	}}
}
