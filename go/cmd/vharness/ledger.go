package main

import (
	"fmt"
	"math/rand"
	"strings"

	mqtt "github.com/mochi-mqtt/server/v2"
	"github.com/mochi-mqtt/server/v2/hooks/auth"
	"github.com/mochi-mqtt/server/v2/packets"
)

func ledgerOf(st *state) *auth.Ledger {
	if x, ok := st.m["ledger"]; ok {
		return x.(*auth.Ledger)
	}
	l := &auth.Ledger{}
	st.m["ledger"] = l
	return l
}

func parseFilters(s string) auth.Filters {
	f := auth.Filters{}
	if s == "." {
		return f
	}
	for _, kv := range strings.Split(s, ",") {
		p := strings.Split(kv, "=")
		f[auth.RString(unhx(p[0]))] = auth.Access(atoi(p[1]))
	}
	return f
}

func ledgerClient(id, user, remote string) *mqtt.Client {
	cl := &mqtt.Client{ID: id}
	cl.Properties.Username = []byte(user)
	cl.Net.Remote = remote
	return cl
}

func init() {
	us := func(s string) string { return string(unhx(s)) }
	runners["l.user"] = func(st *state, a []string) string {
		l := ledgerOf(st)
		if l.Users == nil {
			l.Users = auth.Users{}
		}
		l.Users[us(a[0])] = auth.UserRule{Username: auth.RString(us(a[0])), Password: auth.RString(us(a[1])), Disallow: a[2] == "1", ACL: parseFilters(a[3])}
		return "-"
	}
	runners["l.auth"] = func(st *state, a []string) string {
		l := ledgerOf(st)
		l.Auth = append(l.Auth, auth.AuthRule{Client: auth.RString(us(a[0])), Username: auth.RString(us(a[1])), Remote: auth.RString(us(a[2])), Password: auth.RString(us(a[3])), Allow: a[4] == "1"})
		return "-"
	}
	runners["l.acl"] = func(st *state, a []string) string {
		l := ledgerOf(st)
		l.ACL = append(l.ACL, auth.ACLRule{Client: auth.RString(us(a[0])), Username: auth.RString(us(a[1])), Remote: auth.RString(us(a[2])), Filters: parseFilters(a[3])})
		return "-"
	}
	runners["l.authok"] = func(st *state, a []string) string {
		l := ledgerOf(st)
		cl := ledgerClient(us(a[0]), us(a[1]), us(a[2]))
		pk := packets.Packet{}
		pk.Connect.Password = unhx(a[3])
		first := ""
		for i := 0; i < 8; i++ {
			n, ok := l.AuthOk(cl, pk)
			r := fmt.Sprintf("%d %s", n, b2s(ok))
			if first == "" {
				first = r
			} else if r != first {
				return "nondet " + first + " vs " + r
			}
		}
		return first
	}
	runners["l.aclok"] = func(st *state, a []string) string {
		l := ledgerOf(st)
		cl := ledgerClient(us(a[0]), us(a[1]), us(a[2]))
		first := ""
		for i := 0; i < 32; i++ {
			n, ok := l.ACLOk(cl, us(a[3]), a[4] == "1")
			r := fmt.Sprintf("%d %s", n, b2s(ok))
			if first == "" {
				first = r
			} else if r != first {
				return "nondet " + first + " vs " + r
			}
		}
		return first
	}
	runners["l.match"] = func(_ *state, a []string) string {
		_, ok := auth.MatchTopic(us(a[0]), us(a[1]))
		return b2s(ok)
	}
	runners["l.rmatch"] = func(_ *state, a []string) string {
		return b2s(auth.RString(us(a[0])).Matches(us(a[1])))
	}
	hs := func(s string) string { return hx([]byte(s)) }
	lv := []string{"a", "b", "", "a"}
	genT := func(r *rand.Rand, wild bool) string {
		n := 1 + r.Intn(4)
		ls := make([]string, n)
		for i := range ls {
			ls[i] = pick(r, lv)
			if wild && r.Intn(4) == 0 {
				ls[i] = "+"
			}
		}
		if wild && r.Intn(3) == 0 {
			ls[n-1] = "#"
		}
		return strings.Join(ls, "/")
	}
	genFilters := func(r *rand.Rand, pool []string) string {
		n := r.Intn(4)
		if n == 0 {
			return "."
		}
		seen := map[string]bool{}
		var xs []string
		for i := 0; i < n; i++ {
			f := pick(r, pool)
			if seen[f] {
				continue
			}
			seen[f] = true
			xs = append(xs, fmt.Sprintf("%s=%d", hs(f), r.Intn(4)))
		}
		return strings.Join(xs, ",")
	}
	pats := []string{"", "*", "c1", "c2", "c*", "u1", "u*", "127.0.0.1", "127.*", "x", "*x"}
	suites["ledger"] = suite{gen: func(r *rand.Rand, n int, emit func(string)) {
		for _, ft := range [][2]string{{"a", "a/b"}, {"a/+", "a/b/c"}, {"a/#", "a"}, {"a/#", "a/b/c"}, {"a/b", "a/b"}, {"+", "a"}, {"+", "a/b"}, {"#", "a"}, {"a/+/c", "a//c"}, {"a", "a/"}} {
			emit("l.match " + hs(ft[0]) + " " + hs(ft[1]))
		}
		for done := 0; done < n; {
			emit("reset")
			var pool []string
			for i := 0; i < 4; i++ {
				pool = append(pool, genT(r, true))
			}
			pool = append(pool, "a/#", "a/b", "a", "#", "+/b")
			users := []string{"u1", "u2"}
			for _, u := range users {
				if r.Intn(3) > 0 {
					emit(fmt.Sprintf("l.user %s %s %d %s", hs(u), hs(pick(r, []string{"", "pw", "pw2"})), r.Intn(4)/3, genFilters(r, pool)))
				}
			}
			for i, k := 0, r.Intn(4); i < k; i++ {
				emit(fmt.Sprintf("l.auth %s %s %s %s %d", hs(pick(r, pats)), hs(pick(r, pats)), hs(pick(r, pats)), hs(pick(r, []string{"", "pw", "*", "p*"})), r.Intn(2)))
			}
			overlap := r.Intn(3) == 0
			if overlap { // a global rule for everyone whose filters overlap on a/b with different access: any order of evaluation must agree
				emit(fmt.Sprintf("l.acl %s %s %s %s=%d,%s=%d,%s=%d", hs(pick(r, []string{"", "*", "c*"})), hs(""), hs(""),
					hs("a/#"), r.Intn(4), hs("a/b"), r.Intn(4), hs("+/b"), r.Intn(4)))
			}
			for i, k := 0, r.Intn(4); i < k; i++ {
				emit(fmt.Sprintf("l.acl %s %s %s %s", hs(pick(r, pats)), hs(pick(r, pats)), hs(pick(r, pats)), genFilters(r, pool)))
			}
			for i := 0; i < 12; i++ {
				done++
				id, u, rem := pick(r, []string{"c1", "c2", "x"}), pick(r, []string{"u1", "u2", "u3", ""}), pick(r, []string{"127.0.0.1", "10.0.0.1"})
				switch r.Intn(6) {
				case 0:
					emit(fmt.Sprintf("l.authok %s %s %s %s", hs(id), hs(u), hs(rem), hs(pick(r, []string{"", "pw", "pw2", "pq"}))))
				case 1:
					emit("l.match " + hs(pick(r, pool)) + " " + hs(genT(r, false)))
				case 2:
					emit("l.rmatch " + hs(pick(r, pats)) + " " + hs(pick(r, []string{"c1", "c", "u1", "x", "", "127.0.0.1", "cx", "ax"})))
				default:
					topic := genT(r, false)
					if overlap && r.Intn(2) == 0 {
						topic = "a/b"
					}
					emit(fmt.Sprintf("l.aclok %s %s %s %s %d", hs(id), hs(u), hs(rem), hs(topic), r.Intn(2)))
				}
			}
		}
	}}
}
