package main

// Correspondence for M4b (Model/Shutdown.lean, property C36): a REAL mqtt.Server whose listeners are
// pipe-based listeners implemented here. The listener does for an accepted connection what TCP.Serve
// does (`if atomic.LoadUint32(&l.end) == 0 { go establish(id, conn) }`) and for Close what TCP.Close does
// (CAS end 0->1, closeClients(id), close the net listener) -- but the harness decides WHEN the spawned
// goroutine starts running, so the window "accepted and spawned, ClientsWg.Add(1) not yet executed" can
// be held open. Connecting handlers are parked inside the authentication hook or at the yield point
// attach.afterClientsAdd; the goroutine running Server.Close can be parked at disconnect.beforeStop.
// Every wait below is for an event that must happen (a parked goroutine, a finished handler, a returned
// Close), never for a period of time; the time limits only turn a hang into an answer.

import (
	"fmt"
	"io"
	"log/slog"
	"math/rand"
	"net"
	"sort"
	"strings"
	"sync"
	"sync/atomic"
	"time"

	mqtt "github.com/mochi-mqtt/server/v2"
	"github.com/mochi-mqtt/server/v2/listeners"
	"github.com/mochi-mqtt/server/v2/packets"
)

const sdWait = 20 * time.Second

// sdServerConn is the broker's end of a connection: it records what the broker did with it.
type sdServerConn struct {
	net.Conn
	written int64 // bytes the broker wrote successfully
	closed  int32 // the broker called Close
}

func (c *sdServerConn) Write(b []byte) (int, error) {
	n, err := c.Conn.Write(b)
	atomic.AddInt64(&c.written, int64(n))
	return n, err
}

func (c *sdServerConn) Close() error {
	atomic.StoreInt32(&c.closed, 1)
	return c.Conn.Close()
}

type sdConn struct {
	n, ver, lis int
	id          string
	c1          net.Conn      // the client's end
	c2          *sdServerConn // the broker's end
	mu          sync.Mutex
	buf         []byte // what the client received
	total       int64
	dropped     bool          // the listener's end test failed: no goroutine was spawned
	started     bool          // the spawned goroutine has been let run
	done        chan struct{} // establish returned
	reading     int32         // the handler reached attach.beforeRead
	peerClosed  bool
	held        string        // "auth" | "added" while the handler is parked there
	holdCh      chan struct{} // closing it releases the parked handler
	parked      chan struct{} // signalled when the handler parks
	wantHold    string        // hold registered for this connection, not yet taken
	wantCh      chan struct{}
}

type sdListener struct {
	id        string
	num       int
	st        *sdState
	mu        sync.Mutex
	end       uint32
	netClosed int32
	establish atomic.Value // listeners.EstablishFn
}

func (l *sdListener) Init(*slog.Logger) error { return nil }
func (l *sdListener) ID() string              { return l.id }
func (l *sdListener) Address() string         { return "pipe:" + l.id }
func (l *sdListener) Protocol() string        { return "pipe" }
func (l *sdListener) Serve(e listeners.EstablishFn) {
	l.establish.Store(e)
}

// Close is TCP.Close with the pipe listener in place of the net listener.
func (l *sdListener) Close(closeClients listeners.CloseFn) {
	l.mu.Lock()
	defer l.mu.Unlock()
	l.st.noteOrder(l.num)
	if atomic.CompareAndSwapUint32(&l.end, 0, 1) {
		closeClients(l.id)
	}
	atomic.StoreInt32(&l.netClosed, 1)
	atomic.AddInt32(&l.st.listenersClosed, 1)
}

type sdHook struct {
	mqtt.HookBase
	st *sdState
}

func (h *sdHook) ID() string           { return "sd" }
func (h *sdHook) Provides(b byte) bool { return b == mqtt.OnConnectAuthenticate }
func (h *sdHook) OnConnectAuthenticate(cl *mqtt.Client, pk packets.Packet) bool {
	h.st.park("auth", cl.ID)
	return true
}

// sdAllow admits every connection (sd.race).
type sdAllow struct{ mqtt.HookBase }

func (h *sdAllow) ID() string                                              { return "sd-allow" }
func (h *sdAllow) Provides(b byte) bool                                    { return b == mqtt.OnConnectAuthenticate }
func (h *sdAllow) OnConnectAuthenticate(*mqtt.Client, packets.Packet) bool { return true }

// sdRaceOnce: one established client, one accepted connection whose goroutine is spawned (the listener's
// end test has passed) and Server.Close are let go together. Nothing is parked: the window of F36c is
// inside sync.WaitGroup (between the Done that releases Wait and Wait waking up), where no yield point
// can be placed. Returns the panic Server.Close raised, if any.
func sdRaceOnce(it int) (panicked string) {
	st := &sdState{conns: map[int]*sdConn{}, byID: map[string]*sdConn{}}
	s := mqtt.New(&mqtt.Options{Logger: slog.New(slog.NewTextHandler(io.Discard, nil))})
	_ = s.AddHook(new(sdAllow), nil)
	l := &sdListener{id: "l0", st: st}
	_ = s.AddListener(l)
	st.ls = []*sdListener{l}
	_ = s.Serve()
	if !waitUntil(func() bool { return l.establish.Load() != nil }) {
		return ""
	}
	establish := l.establish.Load().(listeners.EstablishFn)
	a1, a2 := net.Pipe()
	b1, b2 := net.Pipe()
	go io.Copy(io.Discard, a1)
	go io.Copy(io.Discard, b1)
	var wg sync.WaitGroup
	wg.Add(1)
	go func() { defer wg.Done(); _ = establish("l0", a2) }()
	_, _ = a1.Write(sdConnectPacket(4, "a"))
	waitUntil(func() bool { return s.Clients.Len() > 0 })
	start := make(chan struct{})
	var mu sync.Mutex
	wg.Add(2)
	go func() {
		defer wg.Done()
		defer func() {
			if r := recover(); r != nil {
				mu.Lock()
				panicked = fmt.Sprint(r)
				mu.Unlock()
			}
		}()
		<-start
		_ = s.Close()
	}()
	go func() { // the goroutine TCP.Serve spawned: its first statement of interest is ClientsWg.Add(1)
		defer wg.Done()
		<-start
		for i := 0; i < (it%64)*8; i++ {
			_ = i
		}
		_ = establish("l0", b2)
	}()
	close(start)
	time.Sleep(150 * time.Microsecond)
	b1.Close()
	a1.Close()
	done := make(chan struct{})
	go func() { wg.Wait(); close(done) }()
	select {
	case <-done:
	case <-time.After(sdWait):
	}
	mu.Lock()
	defer mu.Unlock()
	return panicked
}

type sdState struct {
	s               *mqtt.Server
	ls              []*sdListener
	mu              sync.Mutex
	conns           map[int]*sdConn
	byID            map[string]*sdConn
	order           []int // listener numbers in the order CloseAll visited them
	listenersClosed int32
	closeStarted    bool
	closeRet        int32
	closerHold      int32 // 1 = park at the next disconnect.beforeStop, 2 = parked
	closerCh        chan struct{}
	closerParked    chan struct{}
	parkedAt        int // connection the parked Close is about to stop
}

func sdOf(st *state) *sdState {
	if x, ok := st.m["sd"]; ok {
		return x.(*sdState)
	}
	return nil
}

func (st *sdState) noteOrder(n int) {
	st.mu.Lock()
	st.order = append(st.order, n)
	st.mu.Unlock()
}

// park parks the calling handler if a hold of this stage is registered for its connection.
func (st *sdState) park(stage, id string) {
	st.mu.Lock()
	c := st.byID[id]
	var ch chan struct{}
	if c != nil && c.wantHold == stage {
		ch = c.wantCh
		c.wantHold, c.wantCh = "", nil
		c.held, c.holdCh = stage, ch
	}
	st.mu.Unlock()
	if ch != nil {
		c.parked <- struct{}{}
		<-ch
	}
}

func (st *sdState) yield(point string, cl *mqtt.Client) {
	switch point {
	case "attach.afterClientsAdd":
		if cl != nil {
			st.park("added", cl.ID)
		}
	case "attach.beforeRead":
		if cl != nil {
			st.mu.Lock()
			c := st.byID[cl.ID]
			st.mu.Unlock()
			if c != nil {
				atomic.StoreInt32(&c.reading, 1)
			}
		}
	case "disconnect.beforeStop":
		// only Server.Close disconnects clients in this suite
		if atomic.LoadInt32(&st.closerHold) == 1 {
			st.mu.Lock()
			if c := st.byID[cl.ID]; c != nil {
				st.parkedAt = c.n
			}
			st.mu.Unlock()
			atomic.StoreInt32(&st.closerHold, 2)
			st.closerParked <- struct{}{}
			<-st.closerCh
		}
	}
}

func (c *sdConn) reader() {
	tmp := make([]byte, 4096)
	for {
		n, err := c.c1.Read(tmp)
		c.mu.Lock()
		if n > 0 {
			c.buf = append(c.buf, tmp[:n]...)
			c.total += int64(n)
		}
		c.mu.Unlock()
		if err != nil {
			return
		}
	}
}

func (c *sdConn) isDone() bool {
	select {
	case <-c.done:
		return true
	default:
		return false
	}
}

// received parses what the client got: CONNACK (with its code) and DISCONNECT (with its reason).
func (c *sdConn) received() (ack, disc string) {
	c.mu.Lock()
	b := append([]byte{}, c.buf...)
	c.mu.Unlock()
	ack, disc = "0", "-"
	for len(b) >= 2 {
		t := b[0] >> 4
		// remaining length (one or two bytes are all this suite can see)
		rl, hl := int(b[1]), 2
		if b[1]&0x80 != 0 {
			if len(b) < 3 {
				return
			}
			rl, hl = int(b[1]&0x7f)|int(b[2])<<7, 3
		}
		if len(b) < hl+rl {
			return
		}
		body := b[hl : hl+rl]
		switch t {
		case 2:
			if len(body) >= 2 && body[1] == 0 {
				ack = "1"
			} else if len(body) >= 2 {
				ack = fmt.Sprintf("x%02x", body[1])
			}
		case 14:
			if len(body) >= 1 {
				disc = fmt.Sprintf("%02x", body[0])
			} else {
				disc = "00"
			}
		}
		b = b[hl+rl:]
	}
	return
}

func sdConnectPacket(ver int, id string) []byte {
	body := []byte{0, 4, 'M', 'Q', 'T', 'T', byte(ver), 2, 0, 0}
	if ver == 3 {
		body = []byte{0, 6, 'M', 'Q', 'I', 's', 'd', 'p', 3, 2, 0, 0}
	}
	if ver == 5 {
		body = append(body, 0)
	}
	body = append(body, 0, byte(len(id)))
	body = append(body, id...)
	return append([]byte{0x10, byte(len(body))}, body...)
}

func waitUntil(pred func() bool) bool {
	deadline := time.Now().Add(sdWait)
	for i := 0; ; i++ {
		if pred() {
			return true
		}
		if time.Now().After(deadline) {
			return false
		}
		if i < 200 {
			time.Sleep(20 * time.Microsecond)
		} else {
			time.Sleep(500 * time.Microsecond)
		}
	}
}

func (st *sdState) sorted() []*sdConn {
	var cs []*sdConn
	for _, c := range st.conns {
		cs = append(cs, c)
	}
	sort.Slice(cs, func(i, j int) bool { return cs[i].n < cs[j].n })
	return cs
}

// settle brings the system to the state in which nothing moves any more: every goroutine is finished,
// parked by the harness, or blocked in the broker's own code (a read loop on an open connection,
// ClientsWg.Wait with a positive counter).
func (st *sdState) settle() string {
	closerFree := st.closeStarted && atomic.LoadInt32(&st.closerHold) != 2
	if closerFree {
		// Close runs until it waits for the handlers (or has returned)
		if !waitUntil(func() bool {
			return atomic.LoadInt32(&st.closeRet) == 1 || int(atomic.LoadInt32(&st.listenersClosed)) == len(st.ls) ||
				atomic.LoadInt32(&st.closerHold) == 2
		}) {
			return "timeout-closer"
		}
	}
	alldone := true
	for _, c := range st.sorted() {
		if !c.started || c.held != "" {
			if c.started {
				alldone = false
			}
			continue
		}
		if atomic.LoadInt32(&c.c2.closed) == 1 || c.peerClosed {
			// a running handler whose connection is closed finishes
			if !waitUntil(c.isDone) {
				return fmt.Sprintf("timeout-handler-%d", c.n)
			}
		}
		if !c.isDone() {
			alldone = false
		}
	}
	for _, c := range st.sorted() { // what the broker wrote has arrived
		if !waitUntil(func() bool {
			c.mu.Lock()
			defer c.mu.Unlock()
			return c.total == atomic.LoadInt64(&c.c2.written)
		}) {
			return fmt.Sprintf("timeout-bytes-%d", c.n)
		}
	}
	if closerFree && atomic.LoadInt32(&st.closerHold) != 2 && alldone {
		// every handler that ever ran has returned: the wait group is at zero, Close returns
		if !waitUntil(func() bool { return atomic.LoadInt32(&st.closeRet) == 1 }) {
			return "timeout-close-return"
		}
	}
	return ""
}

func (st *sdState) status() string {
	if e := st.settle(); e != "" {
		return e
	}
	cl := "n"
	switch {
	case atomic.LoadInt32(&st.closeRet) == 1:
		cl = "r"
	case st.closeStarted && int(atomic.LoadInt32(&st.listenersClosed)) == len(st.ls):
		cl = "w"
	case st.closeStarted:
		cl = "p"
	}
	st.mu.Lock()
	ord := ""
	for _, n := range st.order {
		ord += fmt.Sprint(n)
	}
	st.mu.Unlock()
	if ord == "" {
		ord = "-"
	}
	park := "-"
	if atomic.LoadInt32(&st.closerHold) == 2 {
		park = fmt.Sprint(st.parkedAt)
	}
	out := []string{"close=" + cl, "ord=" + ord, "park=" + park}
	for _, l := range st.ls {
		out = append(out, fmt.Sprintf("l%d=e%dn%d", l.num, atomic.LoadUint32(&l.end), atomic.LoadInt32(&l.netClosed)))
	}
	for _, c := range st.sorted() {
		h := "a"
		switch {
		case c.dropped:
			h = "d"
		case c.started && c.isDone():
			h = "f"
		case c.started:
			h = "r"
		}
		closed := "0"
		if c.peerClosed {
			closed = "p"
		} else if atomic.LoadInt32(&c.c2.closed) == 1 {
			closed = "s"
		}
		ack, disc := c.received()
		out = append(out, fmt.Sprintf("c%d=v%d/l%d/h=%s/ack=%s/disc=%s/closed=%s", c.n, c.ver, c.lis, h, ack, disc, closed))
	}
	return strings.Join(out, " ")
}

// awaitHandler waits until the running handler of c is parked, reading, or finished.
func (st *sdState) awaitHandler(c *sdConn) string {
	deadline := time.After(sdWait)
	tick := time.NewTicker(50 * time.Microsecond)
	defer tick.Stop()
	for {
		select {
		case <-c.parked:
			return ""
		case <-c.done:
			return ""
		case <-deadline:
			return fmt.Sprintf("timeout-start-%d", c.n)
		case <-tick.C:
			if atomic.LoadInt32(&c.reading) == 1 {
				return ""
			}
		}
	}
}

func (st *sdState) cancelWant(c *sdConn) {
	st.mu.Lock()
	c.wantHold, c.wantCh = "", nil
	st.mu.Unlock()
}

func (st *sdState) shutdown() {
	mqtt.VerifYield = nil
	st.mu.Lock()
	for _, c := range st.conns {
		c.wantHold, c.wantCh = "", nil
		if c.holdCh != nil {
			close(c.holdCh)
			c.holdCh, c.held = nil, ""
		}
	}
	st.mu.Unlock()
	if atomic.CompareAndSwapInt32(&st.closerHold, 2, 0) {
		close(st.closerCh)
	} else {
		atomic.StoreInt32(&st.closerHold, 0)
	}
	for _, c := range st.conns {
		c.c1.Close()
		c.c2.Conn.Close()
	}
	if !st.closeStarted {
		st.closeStarted = true
		go func() {
			st.s.Close()
			atomic.StoreInt32(&st.closeRet, 1)
		}()
	}
	// a Close that still blocks is abandoned
	deadline := time.Now().Add(5 * time.Second)
	for atomic.LoadInt32(&st.closeRet) == 0 && time.Now().Before(deadline) {
		time.Sleep(100 * time.Microsecond)
	}
}

func init() {
	resetHooks = append(resetHooks, func(st *state) {
		if s := sdOf(st); s != nil {
			s.shutdown()
			delete(st.m, "sd")
		}
	})
	runners["sd.new"] = func(st *state, a []string) string { // sd.new nl=<listeners>
		if old := sdOf(st); old != nil {
			old.shutdown()
		}
		m := kvs(a)
		s := &sdState{conns: map[int]*sdConn{}, byID: map[string]*sdConn{}, closerCh: make(chan struct{}), closerParked: make(chan struct{}, 1)}
		s.s = mqtt.New(&mqtt.Options{Logger: slog.New(slog.NewTextHandler(io.Discard, nil))})
		if err := s.s.AddHook(&sdHook{st: s}, nil); err != nil {
			return "hook-error " + err.Error()
		}
		for i := 0; i < kvInt(m, "nl", 1); i++ {
			l := &sdListener{id: fmt.Sprintf("l%d", i), num: i, st: s}
			if err := s.s.AddListener(l); err != nil {
				return "listener-error " + err.Error()
			}
			s.ls = append(s.ls, l)
		}
		mqtt.VerifYield = s.yield
		if err := s.s.Serve(); err != nil {
			return "serve-error " + err.Error()
		}
		for _, l := range s.ls { // Listeners.Serve starts each listener's Serve in a goroutine
			l := l
			if !waitUntil(func() bool { return l.establish.Load() != nil }) {
				return "timeout-serve"
			}
		}
		st.m["sd"] = s
		return s.status()
	}
	runners["sd.accept"] = func(st *state, a []string) string {
		if sdOf(st) == nil {
			return "no-server"
		} // sd.accept <n> <ver> <listener>
		s := sdOf(st)
		n, ver, li := atoi(a[0]), atoi(a[1]), atoi(a[2])
		if _, ok := s.conns[n]; ok {
			return "dup"
		}
		l := s.ls[li]
		if atomic.LoadInt32(&l.netClosed) == 1 {
			return "refused" // Accept on a closed net listener fails
		}
		c1, c2 := net.Pipe()
		c := &sdConn{n: n, ver: ver, lis: li, id: fmt.Sprintf("c%d", n), c1: c1, c2: &sdServerConn{Conn: c2},
			done: make(chan struct{}), parked: make(chan struct{}, 1)}
		s.mu.Lock()
		s.conns[n] = c
		s.byID[c.id] = c
		s.mu.Unlock()
		go c.reader()
		// TCP.Serve: if atomic.LoadUint32(&l.end) == 0 { go func() { establish(l.id, conn) }() }
		if atomic.LoadUint32(&l.end) != 0 {
			c.dropped = true
		}
		return s.status()
	}
	runners["sd.start"] = func(st *state, a []string) string {
		if sdOf(st) == nil {
			return "no-server"
		} // sd.start <n> [auth|added]: the spawned goroutine runs
		s := sdOf(st)
		c := s.conns[atoi(a[0])]
		if c == nil || c.dropped || c.started {
			return "bad-state"
		}
		if len(a) > 1 {
			s.mu.Lock()
			c.wantHold, c.wantCh = a[1], make(chan struct{})
			s.mu.Unlock()
		}
		c.started = true
		l := s.ls[c.lis]
		establish := l.establish.Load().(listeners.EstablishFn)
		go func() {
			_ = establish(l.id, c.c2)
			close(c.done)
		}()
		if !c.peerClosed {
			c.c1.SetWriteDeadline(time.Now().Add(sdWait))
			_, _ = c.c1.Write(sdConnectPacket(c.ver, c.id))
			c.c1.SetWriteDeadline(time.Time{})
		}
		if e := s.awaitHandler(c); e != "" {
			return e
		}
		s.cancelWant(c)
		return s.status()
	}
	runners["sd.release"] = func(st *state, a []string) string {
		if sdOf(st) == nil {
			return "no-server"
		} // sd.release <n> [added]
		s := sdOf(st)
		c := s.conns[atoi(a[0])]
		if c == nil || c.held == "" {
			return "not-held"
		}
		s.mu.Lock()
		if len(a) > 1 && a[1] == "added" && c.held == "auth" {
			c.wantHold, c.wantCh = "added", make(chan struct{})
		}
		ch := c.holdCh
		c.held, c.holdCh = "", nil
		s.mu.Unlock()
		close(ch)
		if e := s.awaitHandler(c); e != "" {
			return e
		}
		s.cancelWant(c)
		return s.status()
	}
	runners["sd.peerclose"] = func(st *state, a []string) string {
		if sdOf(st) == nil {
			return "no-server"
		} // the client closes its end
		s := sdOf(st)
		c := s.conns[atoi(a[0])]
		if c == nil {
			return "no-conn"
		}
		if !c.peerClosed && atomic.LoadInt32(&c.c2.closed) == 0 {
			c.peerClosed = true
			c.c1.Close()
		}
		return s.status()
	}
	runners["sd.close"] = func(st *state, a []string) string {
		if sdOf(st) == nil {
			return "no-server"
		} // sd.close [hold]: Server.Close in its own goroutine
		s := sdOf(st)
		if s.closeStarted {
			return "dup"
		}
		if len(a) > 0 && a[0] == "hold" {
			atomic.StoreInt32(&s.closerHold, 1)
		}
		s.closeStarted = true
		go func() {
			s.s.Close()
			atomic.StoreInt32(&s.closeRet, 1)
		}()
		r := s.status()
		atomic.CompareAndSwapInt32(&s.closerHold, 1, 0) // nothing to disconnect: the hold was not taken
		return r
	}
	runners["sd.closego"] = func(st *state, a []string) string {
		if sdOf(st) == nil {
			return "no-server"
		} // release the parked Close
		s := sdOf(st)
		if !atomic.CompareAndSwapInt32(&s.closerHold, 2, 0) {
			return "not-held"
		}
		close(s.closerCh)
		return s.status()
	}
	// sd.race <iterations> [seconds]: the race of F36c, repeated until Server.Close panics
	runners["sd.race"] = func(st *state, a []string) string {
		n, limit := atoi(a[0]), 6.0
		if len(a) > 1 {
			limit = float64(atoi(a[1]))
		}
		t0 := time.Now()
		for i := 0; i < n && time.Since(t0).Seconds() < limit; i++ {
			if p := sdRaceOnce(i); p != "" {
				return "panic=1 in=Server.Close msg=" + strings.ReplaceAll(p, " ", "_")
			}
		}
		return "panic=0"
	}
	runners["sd.status"] = func(st *state, a []string) string {
		if sdOf(st) == nil {
			return "no-server"
		}
		return sdOf(st).status()
	}

	suites["shutdown"] = suite{gen: func(r *rand.Rand, n int, emit func(string)) {
		// the two witness schedules first (F36a: late registration; F36b: uncounted handler)
		for _, w := range [][]string{
			{"reset", "sd.new nl=1", "sd.accept 1 5 0", "sd.start 1 auth", "sd.close", "sd.status", "sd.release 1", "sd.status", "sd.peerclose 1", "sd.status"},
			{"reset", "sd.new nl=1", "sd.accept 1 5 0", "sd.close", "sd.status", "sd.start 1", "sd.status", "sd.peerclose 1", "sd.status"},
		} {
			for _, l := range w {
				emit(l)
				n--
			}
		}
		for n > 0 {
			emit("reset")
			nl := 1 + r.Intn(2)
			emit(fmt.Sprintf("sd.new nl=%d", nl))
			n -= 2
			nc := 1 + r.Intn(4)
			cs := make([]string, nc+1) // "" not accepted, a accepted, run, auth, added
			left := make([]bool, nc+1) // the peer has closed
			closed, closerHeld := false, false
			withState := func(want ...string) int { // a connection in one of the wanted states, or 0
				var ok []int
				for c := 1; c <= nc; c++ {
					for _, w := range want {
						if cs[c] == w {
							ok = append(ok, c)
						}
					}
				}
				if len(ok) == 0 {
					return 0
				}
				return pick(r, ok)
			}
			accept := func() bool {
				c := withState("")
				if c == 0 || (closed && !closerHeld) {
					return false
				}
				emit(fmt.Sprintf("sd.accept %d %d %d", c, pick(r, []int{3, 4, 5, 5, 5}), r.Intn(nl)))
				cs[c] = "a"
				return true
			}
			start := func() bool {
				c := withState("a")
				if c == 0 {
					return false
				}
				h := pick(r, []string{"", "", " auth", " auth", " added"})
				emit(fmt.Sprintf("sd.start %d%s", c, h))
				cs[c] = "run"
				if h != "" {
					cs[c] = h[1:]
				}
				return true
			}
			release := func() bool {
				c := withState("auth", "added")
				if c == 0 {
					return false
				}
				if cs[c] == "auth" && r.Intn(3) == 0 {
					emit(fmt.Sprintf("sd.release %d added", c))
					cs[c] = "added"
				} else {
					emit(fmt.Sprintf("sd.release %d", c))
					cs[c] = "run"
				}
				return true
			}
			peerclose := func() bool {
				c := withState("a", "run", "auth", "added")
				if c == 0 || left[c] {
					return false
				}
				emit(fmt.Sprintf("sd.peerclose %d", c))
				left[c] = true
				return true
			}
			k := 5 + r.Intn(14)
			closeAt := 1 + r.Intn(k)
			for i := 0; i < k && n > 0; i++ {
				done := false
				if i == closeAt && !closed {
					if r.Intn(3) == 0 {
						emit("sd.close hold")
						closerHeld = true
					} else {
						emit("sd.close")
					}
					closed, done = true, true
				}
				for try := 0; try < 6 && !done; try++ {
					x := r.Intn(20)
					switch {
					case !closed && x < 7:
						done = accept()
					case !closed && x < 14:
						done = start()
					case !closed && x < 17:
						done = release()
					case !closed && x < 18:
						done = peerclose()
					case closed && x < 6:
						done = release()
					case closed && x < 11:
						done = start()
					case closed && x < 14:
						done = accept()
					case closed && x < 17 && closerHeld:
						emit("sd.closego")
						closerHeld, done = false, true
					case closed && x < 18:
						done = peerclose()
					}
				}
				if !done {
					emit("sd.status")
				} else if closed && r.Intn(2) == 0 {
					emit("sd.status")
					n--
				}
				n--
			}
			if !closed {
				emit("sd.close")
				n--
			}
			if closerHeld && r.Intn(4) != 0 {
				emit("sd.closego")
				n--
			}
			emit("sd.status")
			n--
		}
	}}
}
