package main

// ackfit suite (property C07): a request whose acknowledgement does not fit the client's Maximum Packet Size.
// The broker cannot answer — WritePacket refuses the SUBACK / UNSUBACK — so it must close the connection
// (receivePacket returns the error, DISCONNECT 0x95 for MQTT 5): "answered or closed". Each op is a whole
// scenario on a fresh real broker, built from the broker suite's own runners (net.Pipe connection, reference
// decoder, PINGREQ barrier); the answer is reduced to what C07 speaks about.
//
//	af.sub <mps> <n>      MQTT 5 client with Maximum Packet Size <mps> (0 = none) sends SUBSCRIBE id 11 with <n>
//	                      distinct valid filters                        -> ack <codes> | closed | silent | other(...)
//	af.unsub <mps> <n>    likewise UNSUBSCRIBE id 12                     -> ack <codes> | closed | silent | other(...)
//
// "silent": neither the acknowledgement nor a closed connection, although the PINGREQ sent after the request was
// answered — the request is unanswered on a connection that is still served.

import (
	"fmt"
	"math/rand"
	"regexp"
	"strings"
)

var afAck = regexp.MustCompile(`(SUBACK|UNSUBACK):id(\d+):rcs=([0-9a-f-]*)`)

func afScenario(st *state, mps, n int, typ string, id int) string {
	delete(st.m, "bk")
	if r := runners["bk.new"](st, nil); r != "-" {
		return "other(new:" + r + ")"
	}
	conn := []string{"1", "5", "1", hx([]byte("af"))}
	if mps > 0 {
		conn = append(conn, fmt.Sprintf("mps=%d", mps))
	}
	if r := runners["bk.conn"](st, conn); !strings.Contains(r, "CONNACK:sp0:rc00") {
		if strings.HasPrefix(r, "timeout-") { // the harness's own waiting limit: bin/check runs the sequence again alone
			return r
		}
		return "other(conn:" + r + ")"
	}
	var fs []string
	for i := 0; i < n; i++ {
		f := hx([]byte(fmt.Sprintf("t/%d", i)))
		if typ == "SUBSCRIBE" {
			f += ":0"
		}
		fs = append(fs, f)
	}
	out := runners["bk.send"](st, []string{"1", typ, fmt.Sprintf("id=%d", id), "f=" + strings.Join(fs, ",")})
	closed := strings.Contains(out, " X[1]") || strings.Contains(out, " X[1,")
	if m := afAck.FindStringSubmatch(out); m != nil && m[2] == fmt.Sprint(id) {
		codes := 0
		if m[3] != "-" {
			codes = len(m[3]) / 2
		}
		if closed {
			return fmt.Sprintf("other(ack %d and closed)", codes)
		}
		return fmt.Sprintf("ack %d", codes)
	}
	if closed {
		return "closed"
	}
	if strings.HasPrefix(out, "timeout-") {
		return out
	}
	if out == "no-conn" {
		return "other(" + out + ")"
	}
	return "silent"
}

func init() {
	runners["af.sub"] = func(st *state, a []string) string { return afScenario(st, atoi(a[0]), atoi(a[1]), "SUBSCRIBE", 11) }
	runners["af.unsub"] = func(st *state, a []string) string {
		return afScenario(st, atoi(a[0]), atoi(a[1]), "UNSUBSCRIBE", 12)
	}
	suites["ackfit"] = suite{gen: func(r *rand.Rand, n int, emit func(string)) {
		sizes := []int{0, 30, 32, 40, 48, 64, 100, 140, 200}
		for done := 0; done < n; done += 2 {
			emit("reset")
			mps := pick(r, sizes)
			// filter counts around the point where the acknowledgement stops fitting (5 + k bytes for k < 125 codes)
			k := 1 + r.Intn(6)
			if mps > 0 && r.Intn(3) > 0 {
				k = mps - 5 - 3 + r.Intn(7)
				if k < 1 {
					k = 1
				}
			}
			emit(fmt.Sprintf("%s %d %d", pick(r, []string{"af.sub", "af.sub", "af.unsub"}), mps, k))
		}
	}}
}
