package main

// Crash sweep (C21). While a restart-suite history runs, the recording wrapper around the real storage hook
// logs every storage hook event in the `st.ev` token form of the storage suite (so it can be replayed), and a
// second hook logs the acknowledgements written to clients, in one total order. `sr.crashsweep` then, for
// EVERY prefix length n of the storage-event log (crash = the process died after the n-th storage event):
// replays the first n events into a fresh engine of the same backend, starts a real broker on it (readStore),
// renders its view W_n, and probes resurrection: each client id of the history connects with Clean Start 1 and
// the inline client publishes to every topic; any PUBLISH the connection receives is reported.
//
// Output (parts separated by " ## "):
//	EVS now=<unix>|<entry>|<entry>…   entry = "E <op> <superseded> <st.ev args…>"  storage event during history op <op>
//	                                         | "A <op> <clienthex> <packet type> <packet id>"  PUBACK/PUBREC/SUBACK/UNSUBACK written
//	LIVE <op>=<ids>|…                 after history op <op>: S:<id>,…;R:<id>,…;I:<id>,…;P:<client>,…  (ids of the live view's SUBS (not inline),
//	                                  RET, IFL; clients whose session does not end with the connection)
//	W <view 0>|<view 1>|…|<view N>    the restarted broker's view for every crash point
//	B <n>:<clienthex>:<topichex>,…    resurrection probes that delivered ("-" if none)

import (
	"errors"
	"fmt"
	"os"
	"regexp"
	"strings"
	"time"

	"github.com/alicebob/miniredis/v2"
	mqtt "github.com/mochi-mqtt/server/v2"
	"github.com/mochi-mqtt/server/v2/packets"
	"github.com/mochi-mqtt/server/v2/system"
)

// crashLog is the total order of storage events and acknowledgements of one history.
type crashLog struct {
	op      int      // index of the history op being executed (0 = sr.new)
	entries []string // "E …" / "A …"
	live    []string // compact live ids after each op (index = op)
	ids     map[string]bool
}

func stopClass(cl *mqtt.Client) int {
	c := cl.StopCause()
	switch {
	case c == nil:
		return 0
	case c == error(packets.ErrSessionTakenOver):
		return 1
	case errors.Is(c, packets.ErrSessionTakenOver):
		return 3
	}
	return 2
}

func usersOf(us []packets.UserProperty) []stUser {
	var out []stUser
	for _, u := range us {
		out = append(out, stUser{u.Key, u.Val})
	}
	return out
}

// stClientOf snapshots the fields of a live client the storage hooks read.
func stClientOf(cl *mqtt.Client) stClient {
	p, w := cl.Properties.Props, cl.Properties.Will
	return stClient{id: cl.ID, user: string(cl.Properties.Username), listener: cl.Net.Listener, remote: cl.Net.Remote,
		pv: int(cl.Properties.ProtocolVersion), clean: cl.Properties.Clean, inline: cl.Net.Inline, stop: stopClass(cl),
		sei: p.SessionExpiryInterval, seiFlag: p.SessionExpiryIntervalFlag, authMethod: p.AuthenticationMethod,
		authData: string(p.AuthenticationData), reqProb: int(p.RequestProblemInfo), reqProbFlag: p.RequestProblemInfoFlag,
		reqResp: int(p.RequestResponseInfo), recvMax: int(p.ReceiveMaximum), taMax: int(p.TopicAliasMaximum), maxPkt: int(p.MaximumPacketSize),
		users: usersOf(p.User), willTopic: w.TopicName, willPayload: string(w.Payload), willFlag: int(w.Flag), willDelay: int(w.WillDelayInterval),
		willQos: int(w.Qos), willRetain: w.Retain, willUsers: usersOf(w.User)}
}

func stPacketOf(pk packets.Packet) stPacket {
	p := pk.Properties
	exp := pk.Expiry
	if exp < 0 {
		exp = 0
	}
	return stPacket{topic: pk.TopicName, payload: string(pk.Payload), qos: int(pk.FixedHeader.Qos), retain: pk.FixedHeader.Retain,
		dup: pk.FixedHeader.Dup, typ: int(pk.FixedHeader.Type), remaining: pk.FixedHeader.Remaining, pid: int(pk.PacketID), created: pk.Created,
		expiry: exp, origin: pk.Origin, pv: int(pk.ProtocolVersion), payloadFormat: int(p.PayloadFormat), pfFlag: p.PayloadFormatFlag,
		msgExpiry: p.MessageExpiryInterval, contentType: p.ContentType, respTopic: p.ResponseTopic, corrData: string(p.CorrelationData),
		subIDs: p.SubscriptionIdentifier, topicAlias: int(p.TopicAlias), taFlag: p.TopicAliasFlag, users: usersOf(p.User)}
}

func stFiltersOf(fs packets.Subscriptions) []stFilter {
	var out []stFilter
	for _, f := range fs {
		out = append(out, stFilter{f.Filter, int(f.Qos), f.NoLocal, f.RetainAsPublished, int(f.RetainHandling), f.Identifier})
	}
	return out
}

func (h *recHook) ev(cl *mqtt.Client, args string) {
	if h.log == nil {
		return
	}
	sup := 0
	if cl != nil {
		h.log.ids[cl.ID] = true
		if cl.IsTakenOver() || stopClass(cl) == 1 {
			sup = 1
		}
	}
	h.log.entries = append(h.log.entries, fmt.Sprintf("E %d %d %s", h.log.op, sup, args))
}

func (h *recHook) OnSessionEstablished(cl *mqtt.Client, pk packets.Packet) {
	h.ev(cl, "established "+stClientOf(cl).String())
	h.stHook.OnSessionEstablished(cl, pk)
}
func (h *recHook) OnWillSent(cl *mqtt.Client, pk packets.Packet) {
	h.ev(cl, "willsent "+stClientOf(cl).String())
	h.stHook.OnWillSent(cl, pk)
}
func (h *recHook) OnClientExpired(cl *mqtt.Client) {
	h.ev(cl, "clientexpired "+stClientOf(cl).String())
	h.stHook.OnClientExpired(cl)
}
func (h *recHook) OnDisconnect(cl *mqtt.Client, err error, expire bool) {
	h.ev(cl, fmt.Sprintf("disconnect %s %d", stClientOf(cl).String(), bi(expire)))
	h.stHook.OnDisconnect(cl, err, expire)
}
func (h *recHook) OnSubscribed(cl *mqtt.Client, pk packets.Packet, reasonCodes []byte) {
	var rc []int
	for _, c := range reasonCodes {
		rc = append(rc, int(c))
	}
	h.ev(cl, fmt.Sprintf("subscribed %s %s %s", stClientOf(cl).String(), fmtFilters(stFiltersOf(pk.Filters)), fmtInts(rc)))
	h.stHook.OnSubscribed(cl, pk, reasonCodes)
}
func (h *recHook) OnUnsubscribed(cl *mqtt.Client, pk packets.Packet) {
	h.ev(cl, fmt.Sprintf("unsubscribed %s %s", stClientOf(cl).String(), fmtFilters(stFiltersOf(pk.Filters))))
	h.stHook.OnUnsubscribed(cl, pk)
}
func (h *recHook) OnRetainMessage(cl *mqtt.Client, pk packets.Packet, r int64) {
	h.ev(cl, fmt.Sprintf("retain %s %s %d", stClientOf(cl).String(), stPacketOf(pk).String(), r))
	h.stHook.OnRetainMessage(cl, pk, r)
}
func (h *recHook) OnRetainedExpired(filter string) {
	h.ev(nil, "retainedexpired "+hs(filter))
	h.stHook.OnRetainedExpired(filter)
}
func (h *recHook) OnQosPublish(cl *mqtt.Client, pk packets.Packet, sent int64, resends int) {
	h.ev(cl, fmt.Sprintf("qospublish %s %s %d %d", stClientOf(cl).String(), stPacketOf(pk).String(), sent, resends))
	h.stHook.OnQosPublish(cl, pk, sent, resends)
}
func (h *recHook) OnQosComplete(cl *mqtt.Client, pk packets.Packet) {
	h.ev(cl, fmt.Sprintf("qoscomplete %s %s", stClientOf(cl).String(), stPacketOf(pk).String()))
	h.stHook.OnQosComplete(cl, pk)
}
func (h *recHook) OnQosDropped(cl *mqtt.Client, pk packets.Packet) {
	h.ev(cl, fmt.Sprintf("qosdropped %s %s", stClientOf(cl).String(), stPacketOf(pk).String()))
	h.stHook.OnQosDropped(cl, pk)
}
func (h *recHook) OnSysInfoTick(sys *system.Info) { // wall-clock counters: not part of any view; not logged
	h.stHook.OnSysInfoTick(sys)
}

// ackHook logs the acknowledgements written to clients into the same total order.
type ackHook struct {
	mqtt.HookBase
	log *crashLog
}

func (h *ackHook) ID() string           { return "verif-acks" }
func (h *ackHook) Provides(b byte) bool { return b == mqtt.OnPacketSent }
func (h *ackHook) OnPacketSent(cl *mqtt.Client, pk packets.Packet, b []byte) {
	switch pk.FixedHeader.Type {
	case packets.Puback, packets.Pubrec, packets.Suback, packets.Unsuback:
		h.log.entries = append(h.log.entries, fmt.Sprintf("A %d %s %d %d", h.log.op, hs(cl.ID), pk.FixedHeader.Type, pk.PacketID))
	}
}

var reViewSection = regexp.MustCompile(`(SESS|SUBS|CSUB|RET|IFL)\[([^\]]*)\]`)

// liveIDs is the compact form of a view: the ids of its index subscriptions (not inline), retained and in-flight records.
func liveIDs(view string) string {
	ids := map[string][]string{}
	var persistent []string // sessions that do not end with their connection
	for _, m := range reViewSection.FindAllStringSubmatch(view, -1) {
		if m[2] == "" {
			continue
		}
		for _, rec := range strings.Split(m[2], ";") {
			id := strings.TrimPrefix(strings.SplitN(rec, ",", 2)[0], "id=")
			if m[1] == "SESS" {
				v5 := strings.Contains(rec, ",pv=5,")
				if (v5 && !strings.Contains(rec, ",sei=0,")) || (!v5 && strings.Contains(rec, ",clean=0,")) {
					persistent = append(persistent, id)
				}
			}
			if m[1] == "SUBS" && strings.HasSuffix(id, "~inline") {
				continue
			}
			ids[m[1]] = append(ids[m[1]], id)
		}
	}
	return "S:" + strings.Join(ids["SUBS"], ",") + ";R:" + strings.Join(ids["RET"], ",") + ";I:" + strings.Join(ids["IFL"], ",") +
		";P:" + strings.Join(persistent, ",")
}

// weakIFL reduces the in-flight section to its ids: on bolt and redis every restored message has packet id 0 (F20d),
// which message survives under that id depends on the iteration order of the engine.
func weakIFL(backend, view string) string {
	if backend != "bolt" && backend != "redis" {
		return view
	}
	i := strings.Index(view, " IFL[")
	if i < 0 {
		return view
	}
	body := strings.TrimSuffix(view[i+5:], "]")
	seen := map[string]bool{}
	var ids []string
	if body != "" {
		for _, rec := range strings.Split(body, ";") {
			id := strings.SplitN(rec, ",", 2)[0]
			if !seen[id] {
				seen[id] = true
				ids = append(ids, id)
			}
		}
	}
	return view[:i] + " IFL[" + sortedJoin(ids) + "]"
}

// afterOp records the live ids after a history op and advances the op counter.
func (r *srState) afterOp() {
	if r.log == nil || r.closed {
		return
	}
	for len(r.log.live) <= r.log.op {
		r.log.live = append(r.log.live, "")
	}
	r.log.live[r.log.op] = liveIDs(brokerView(r.b.s))
	r.log.op++
}

// crashPoint replays the first n storage events into a fresh engine and starts a broker on it.
func (r *srState) crashPoint(events [][]string, n int, ids, topics []string) (view string, delivered []string, err error) {
	dir, err := os.MkdirTemp("/var/tmp", "vharness-cr-")
	if err != nil {
		return "", nil, err
	}
	r2 := &srState{backend: r.backend, caps: r.caps, dir: dir}
	defer r2.destroy()
	if r.backend == "redis" {
		if r2.mini, err = miniredis.Run(); err != nil {
			return "", nil, err
		}
	}
	h, err := openStorageHook(r.backend, dir, r2.redisAddr())
	if err != nil {
		return "", nil, err
	}
	for _, e := range events[:n] {
		applyStorageEvent(h, e)
	}
	_ = h.Stop()
	b2, h2, err := r2.srServer()
	if err != nil {
		return "", nil, err
	}
	r2.b, r2.hook = b2, h2
	for k, v := range r.b.aclDeny { // the restarted broker has the same authorisation rules
		b2.aclDeny[k] = v
	}
	view = weakIFL(r.backend, brokerView(b2.s))
	st2 := &state{m: map[string]any{"bk": b2}}
	for j, id := range ids {
		out := runners["bk.conn"](st2, []string{fmt.Sprint(j + 1), "4", "1", hs(id)})
		if strings.Contains(out, "PUB:") {
			delivered = append(delivered, fmt.Sprintf("%d:%s:connect", n, hs(id)))
		}
		for _, t := range topics {
			out := runners["bk.ipub"](st2, []string{hs(t), "7a", "0", "0"})
			if strings.Contains(out, fmt.Sprintf("c%d:[", j+1)) && strings.Contains(out, "PUB:") {
				delivered = append(delivered, fmt.Sprintf("%d:%s:%s", n, hs(id), hs(t)))
			}
		}
		runners["bk.drop"](st2, []string{fmt.Sprint(j + 1)})
	}
	return view, delivered, nil
}

func init() {
	runners["sr.crashsweep"] = func(st *state, a []string) string {
		r := srOf(st)
		if r == nil || r.log == nil {
			return "err no-server"
		}
		log := r.log
		var events [][]string
		for _, e := range log.entries {
			f := strings.Fields(e)
			if f[0] == "E" {
				events = append(events, f[3:])
			}
		}
		var ids []string
		for id := range log.ids {
			if id != "inline" {
				ids = append(ids, id)
			}
		}
		ids = strings.Split(sortedJoin(ids), ";")
		if len(log.ids) == 0 || (len(ids) == 1 && ids[0] == "") {
			ids = nil
		}
		var views, delivered []string
		for n := 0; n <= len(events); n++ {
			v, d, err := r.crashPoint(events, n, ids, srTopics)
			if err != nil {
				mqtt.VerifYield = r.b.yield
				return "err crashpoint " + errClass(err)
			}
			views = append(views, v)
			delivered = append(delivered, d...)
		}
		mqtt.VerifYield = r.b.yield
		var live []string
		for k, l := range log.live {
			live = append(live, fmt.Sprintf("%d=%s", k, l))
		}
		del := "-"
		if len(delivered) > 0 {
			del = strings.Join(delivered, ",")
		}
		return fmt.Sprintf("EVS now=%d|%s ## LIVE %s ## W %s ## B %s", time.Now().Unix(), strings.Join(log.entries, "|"),
			strings.Join(live, "|"), strings.Join(views, "|"), del)
	}
}
