package main

import (
	"fmt"
	"math/rand"
	"net"
	"sync"
	"time"

	mqtt "github.com/mochi-mqtt/server/v2"
	"github.com/mochi-mqtt/server/v2/packets"
)

// recConn records SetDeadline calls made on a net.Conn.
type recConn struct {
	net.Conn
	mu    sync.Mutex
	calls []time.Time
	at    []time.Time
}

func (c *recConn) SetDeadline(t time.Time) error {
	c.mu.Lock()
	c.calls = append(c.calls, t)
	c.at = append(c.at, time.Now())
	c.mu.Unlock()
	return c.Conn.SetDeadline(t)
}

func newServer() *mqtt.Server {
	return mqtt.New(&mqtt.Options{InlineClient: true})
}

func init() {
	runners["ka.dl"] = func(_ *state, a []string) string {
		k := uint16(atoi(a[0]))
		s := newServer()
		for try := 0; try < 8; try++ {
			c1, c2 := net.Pipe()
			rc := &recConn{Conn: c1}
			cl := s.NewClient(rc, "t", "ka", false)
			t0 := time.Now()
			cl.VerifRefreshDeadline(k)
			t1 := time.Now()
			c1.Close()
			c2.Close()
			if len(rc.calls) != 1 {
				return fmt.Sprintf("calls=%d", len(rc.calls))
			}
			d := rc.calls[0]
			if d.IsZero() {
				return "off"
			}
			lo, hi := d.Sub(t1), d.Sub(t0) // the duration added lies in [lo, hi]
			// the unique multiple of 250ms in the interval, if the interval is short enough
			if hi-lo < 200*time.Millisecond {
				m := (hi / (250 * time.Millisecond)) * 250 * time.Millisecond
				if m >= lo {
					return fmt.Sprint(int64(m / time.Millisecond))
				}
				return fmt.Sprintf("between %d and %d", lo.Milliseconds(), hi.Milliseconds())
			}
		}
		return "unstable-clock"
	}
	runners["ka.loop"] = func(_ *state, a []string) string {
		k := uint16(atoi(a[0]))
		n := atoi(a[1])
		s := newServer()
		c1, c2 := net.Pipe()
		rc := &recConn{Conn: c1}
		cl := s.NewClient(rc, "t", "ka", false)
		cl.State.Keepalive = k
		got := 0
		done := make(chan error, 1)
		go func() {
			done <- cl.Read(func(cl *mqtt.Client, pk packets.Packet) error { got++; return nil })
		}()
		for i := 0; i < n; i++ {
			c2.Write([]byte{packets.Pingreq << 4, 0})
		}
		c2.Close()
		select {
		case <-done:
		case <-time.After(5 * time.Second):
			return "read-loop-stuck"
		}
		c1.Close()
		if got != n {
			return fmt.Sprintf("handled=%d", got)
		}
		return fmt.Sprint(len(rc.calls))
	}
	// ka.write <k> <n>: the real WriteLoop forwards n queued packets to a client (keepalive k) that sends nothing;
	// answer: how often the connection's deadline was set meanwhile
	runners["ka.write"] = func(_ *state, a []string) string {
		k := uint16(atoi(a[0]))
		n := atoi(a[1])
		s := newServer()
		c1, c2 := net.Pipe()
		rc := &recConn{Conn: c1}
		cl := s.NewClient(rc, "t", "kaw", false)
		cl.State.Keepalive = k
		go func() { // the peer reads whatever arrives and never writes
			buf := make([]byte, 4096)
			for {
				if _, err := c2.Read(buf); err != nil {
					return
				}
			}
		}()
		go cl.WriteLoop()
		for i := 0; i < n; i++ {
			pk := packets.Packet{FixedHeader: packets.FixedHeader{Type: packets.Publish}, TopicName: "t", Payload: []byte{byte(i)}}
			if !cl.VerifEnqueue(pk) {
				return "full"
			}
		}
		for i := 0; i < 200000 && cl.VerifOutboundQty() > 0; i++ {
			time.Sleep(10 * time.Microsecond)
		}
		time.Sleep(2 * time.Millisecond)
		rc.mu.Lock()
		calls := len(rc.calls)
		rc.mu.Unlock()
		cl.Stop(nil)
		c2.Close()
		return fmt.Sprint(calls)
	}
	suites["keepalive"] = suite{gen: func(r *rand.Rand, n int, emit func(string)) {
		for _, k := range []int{0, 1, 2, 3, 4, 5, 7, 43690, 43691, 50000, 65535} {
			emit(fmt.Sprintf("ka.dl %d", k))
		}
		for i := 0; i < n; i++ {
			if x := r.Intn(10); x < 2 {
				emit(fmt.Sprintf("ka.loop %d %d", r.Intn(4), r.Intn(6)))
			} else if x == 2 {
				emit(fmt.Sprintf("ka.write %d %d", 1+r.Intn(4), 1+r.Intn(6)))
			} else {
				emit(fmt.Sprintf("ka.dl %d", r.Intn(65536)>>uint(r.Intn(16))))
			}
		}
	}}
}
