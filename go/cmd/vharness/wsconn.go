package main

import (
	"errors"
	"fmt"
	"io"
	"log/slog"
	"math/rand"
	"net"
	"strings"
	"sync"
	"time"

	"github.com/gorilla/websocket"
	"github.com/mochi-mqtt/server/v2/listeners"
)

type wsSession struct {
	conn net.Conn
	done chan struct{}
}

var (
	wsOnce sync.Once
	wsAddr string
	wsCh   = make(chan *wsSession, 16)
	wsErr  error
)

func wsStart() {
	wsOnce.Do(func() {
		for try := 0; try < 20; try++ {
			ln, err := net.Listen("tcp", "127.0.0.1:0")
			if err != nil {
				wsErr = err
				continue
			}
			addr := ln.Addr().String()
			ln.Close()
			l := listeners.NewWebsocket(listeners.Config{ID: "ws", Address: addr})
			if err := l.Init(slog.New(slog.NewTextHandler(io.Discard, nil))); err != nil {
				wsErr = err
				continue
			}
			go l.Serve(func(id string, c net.Conn) error {
				s := &wsSession{conn: c, done: make(chan struct{})}
				wsCh <- s
				<-s.done
				return nil
			})
			// wait until it accepts
			ok := false
			for i := 0; i < 100; i++ {
				c, err := net.DialTimeout("tcp", addr, 100*time.Millisecond)
				if err == nil {
					c.Close()
					ok = true
					break
				}
				time.Sleep(10 * time.Millisecond)
			}
			if ok {
				wsAddr, wsErr = addr, nil
				return
			}
			wsErr = errors.New("websocket listener did not come up")
		}
	})
}

func init() {
	runners["ws.session"] = func(_ *state, a []string) string {
		wsStart()
		if wsErr != nil {
			return "listener-error " + wsErr.Error()
		}
		d := websocket.Dialer{Subprotocols: []string{"mqtt"}, HandshakeTimeout: 5 * time.Second}
		cc, _, err := d.Dial("ws://"+wsAddr+"/", nil)
		if err != nil {
			return "dial-error " + err.Error()
		}
		defer cc.Close()
		var s *wsSession
		select {
		case s = <-wsCh:
		case <-time.After(5 * time.Second):
			return "no-session"
		}
		defer close(s.done)
		// client: send all messages, then a close frame
		if a[0] != "." {
			for _, m := range strings.Split(a[0], ",") {
				typ := websocket.BinaryMessage
				if m[0] == 't' {
					typ = websocket.TextMessage
				}
				if err := cc.WriteMessage(typ, unhx(m[1:])); err != nil {
					return "client-write-error"
				}
			}
		}
		// server writes; client reads the messages
		var ws []string
		if a[2] != "." {
			for _, m := range strings.Split(a[2], ",") {
				p := unhx(m[1:])
				if n, err := s.conn.Write(p); err != nil || n != len(p) {
					ws = append(ws, "!write-error")
					break
				}
				cc.SetReadDeadline(time.Now().Add(5 * time.Second))
				typ, data, err := cc.ReadMessage()
				if err != nil {
					ws = append(ws, "!client-read-error")
					break
				}
				k := "b"
				if typ != websocket.BinaryMessage {
					k = "t"
				}
				ws = append(ws, k+hx(data))
			}
		}
		_ = cc.WriteControl(websocket.CloseMessage, websocket.FormatCloseMessage(websocket.CloseNormalClosure, ""), time.Now().Add(time.Second))
		var rs []string
		s.conn.SetDeadline(time.Now().Add(10 * time.Second))
		if a[1] != "." {
			for _, w := range strings.Split(a[1], ",") {
				p := make([]byte, atoi(w))
				n, err := s.conn.Read(p)
				if err != nil {
					if errors.Is(err, listeners.ErrInvalidMessage) {
						rs = append(rs, "!invalid")
					} else {
						rs = append(rs, "!closed")
					}
					break
				}
				rs = append(rs, hx(p[:n]))
			}
		}
		return fmt.Sprintf("R:%s W:%s", strings.Join(rs, ","), strings.Join(ws, ","))
	}
	suites["wsconn"] = suite{gen: func(r *rand.Rand, n int, emit func(string)) {
		rb := func(k int) []byte {
			b := make([]byte, k)
			r.Read(b)
			return b
		}
		for i := 0; i < n; i++ {
			// a byte stream segmented into frames of 1..N bytes
			total := rb(1 + r.Intn(40))
			var ms []string
			maxSeg := 1 + r.Intn(12)
			for off := 0; off < len(total); {
				k := 1 + r.Intn(maxSeg)
				if off+k > len(total) {
					k = len(total) - off
				}
				ms = append(ms, "b"+hx(total[off:off+k]))
				off += k
				if r.Intn(25) == 0 {
					ms = append(ms, "t"+hx(rb(1+r.Intn(3))))
				}
			}
			var rs []string
			for j, k := 0, 2+r.Intn(20); j < k; j++ {
				rs = append(rs, fmt.Sprint(pick(r, []int{1, 2, 3, 5, 8, 16, 64, maxSeg, maxSeg + 1})))
			}
			var wr []string
			for j, k := 0, r.Intn(3); j < k; j++ {
				wr = append(wr, "b"+hx(rb(1+r.Intn(20))))
			}
			w := "."
			if len(wr) > 0 {
				w = strings.Join(wr, ",")
			}
			emit(fmt.Sprintf("ws.session %s %s %s", strings.Join(ms, ","), strings.Join(rs, ","), w))
		}
	}}
}
