package main

import (
	"bytes"
	"errors"
	"fmt"
	"io"
	"math/rand"

	"github.com/mochi-mqtt/server/v2/packets"
)

func init() {
	runners["vbi.dec"] = func(_ *state, a []string) string {
		n, bu, err := packets.DecodeLength(bytes.NewBuffer(unhx(a[0])))
		switch {
		case err == nil:
			return fmt.Sprintf("ok %d %d", n, bu)
		case errors.Is(err, io.EOF):
			return "err eof"
		case errors.Is(err, packets.ErrMalformedVariableByteInteger):
			return "err malformed"
		}
		return "err other:" + err.Error()
	}
	runners["vbi.enc"] = func(_ *state, a []string) string {
		var n int64
		fmt.Sscan(a[0], &n)
		return hx(packets.VerifEncodeLength(n))
	}
	suites["varint"] = suite{gen: func(r *rand.Rand, n int, emit func(string)) {
		bounds := []int64{0, 1, 127, 128, 129, 16383, 16384, 16385, 2097151, 2097152, 2097153, 268435454, 268435455}
		for _, b := range bounds {
			emit(fmt.Sprintf("vbi.enc %d", b))
		}
		// fixed adversarial decode inputs first (corpus-like)
		for _, h := range []string{"-", "00", "7f", "80", "8000", "ff7f", "ffff7f", "ffffff7f", "ffffffff", "ffffffff7f", "8080808000", "ffffffff00", "808080808000", "ffffffffffffffff7f", "80808080", "8080807f", "ffffff80"} {
			emit("vbi.dec " + h)
		}
		for i := 0; i < n; i++ {
			switch r.Intn(4) {
			case 0:
				emit(fmt.Sprintf("vbi.enc %d", r.Int63n(268435456)))
			case 1:
				sh := uint(r.Intn(29))
				emit(fmt.Sprintf("vbi.enc %d", r.Int63n(int64(1)<<sh+1)))
			default:
				l := r.Intn(7)
				bs := make([]byte, l)
				for j := range bs {
					switch r.Intn(4) {
					case 0:
						bs[j] = byte(r.Intn(256))
					case 1:
						bs[j] = byte(0x80 | r.Intn(128))
					case 2:
						bs[j] = pick(r, []byte{0x80, 0xff, 0x00, 0x7f, 0x01, 0x81})
					default:
						bs[j] = byte(r.Intn(128))
					}
				}
				emit("vbi.dec " + hx(bs))
			}
		}
	}}
}
