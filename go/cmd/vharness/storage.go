package main

// Storage suite (M5, C22): one hook event at a time is applied to the REAL badger, pebble, bolt and
// redis storage hooks (real engines in a temp directory under /var/tmp; redis through an in-process
// miniredis server); `st.read` reads every Stored* method of every backend back and renders the four
// results canonically on one line, separated by " || " (order: badger, pebble, bolt, redis).
//
//	st.new                               fresh engines
//	st.ev established|willsent|clientexpired <client>
//	st.ev disconnect <client> <expire>
//	st.ev subscribed <client> <filters> <reasoncodes>      st.ev unsubscribed <client> <filters>
//	st.ev retain <client> <packet> <r>                     st.ev retainedexpired <topic>
//	st.ev qospublish <client> <packet> <sent> <resends>    st.ev qoscomplete|qosdropped <client> <packet>
//	st.ev sysinfo <version> <20 numbers joined by ,>
//	st.read                              canonical read-back of the four backends
//	st.reopen                            Stop + Init every hook on the same directory / server
//
// Token formats (every string hex-encoded, "-" = empty):
//	client  = id,user,listener,remote,pv,clean,inline,stop,sei,seiflag,authmethod,authdata,reqprob,reqprobflag,
//	          reqresp,recvmax,tamax,maxpkt,userprops,willtopic,willpayload,willflag,willdelay,willqos,willretain,willuser
//	          stop: 0 none, 1 ErrSessionTakenOver, 2 another error, 3 ErrSessionTakenOver wrapped by fmt.Errorf("%w")
//	packet  = topic,payload,qos,retain,dup,type,remaining,pid,created,expiry,origin,pv,payloadformat,pfflag,
//	          msgexpiry,contenttype,resptopic,corrdata,subids,topicalias,taflag,userprops
//	userprops = "." | k:v+k:v     subids = "." | n+n     filters = "." | filter:qos:nl:rap:rh:ident+…
//	reasoncodes = "." | n+n

import (
	"errors"
	"fmt"
	"io"
	"log/slog"
	"math/rand"
	"os"
	"sort"
	"strconv"
	"strings"
	"time"

	"github.com/alicebob/miniredis/v2"
	pebbledb "github.com/cockroachdb/pebble"
	badgerdb "github.com/dgraph-io/badger/v4"
	mqtt "github.com/mochi-mqtt/server/v2"
	"github.com/mochi-mqtt/server/v2/hooks/storage"
	"github.com/mochi-mqtt/server/v2/hooks/storage/badger"
	"github.com/mochi-mqtt/server/v2/hooks/storage/bolt"
	"github.com/mochi-mqtt/server/v2/hooks/storage/pebble"
	"github.com/mochi-mqtt/server/v2/hooks/storage/redis"
	"github.com/mochi-mqtt/server/v2/packets"
	"github.com/mochi-mqtt/server/v2/system"
	"go.etcd.io/bbolt"
)

var stBackends = []string{"badger", "pebble", "bolt", "redis"}

// stHook is the part of mqtt.Hook the storage suite drives.
type stHook interface {
	mqtt.Hook
}

type stEngines struct {
	dir   string
	mini  *miniredis.Miniredis
	hooks []stHook // badger, pebble, bolt, redis (nil when closed)
}

type quietPebble struct{}

func (quietPebble) Infof(string, ...interface{})  {}
func (quietPebble) Errorf(string, ...interface{}) {}
func (quietPebble) Fatalf(f string, a ...interface{}) {
	panic(fmt.Sprintf("pebble fatal: "+f, a...))
}

var quietLog = slog.New(slog.NewTextHandler(io.Discard, nil))

// newStorageHook returns an uninitialised real storage hook of the named backend and its configuration for dir
// (redis: for the miniredis address).
func newStorageHook(name, dir, redisAddr string) (stHook, any) {
	switch name {
	case "badger":
		o := badgerdb.DefaultOptions(dir + "/badger").WithMemTableSize(1 << 20).WithValueLogFileSize(1 << 20).
			WithNumMemtables(1).WithNumLevelZeroTables(1).WithNumLevelZeroTablesStall(2).WithValueThreshold(1 << 10).
			WithBlockCacheSize(1 << 20).WithIndexCacheSize(0).WithNumCompactors(2).WithCompactL0OnClose(false).WithDetectConflicts(false)
		return new(badger.Hook), &badger.Options{Path: dir + "/badger", Options: &o}
	case "pebble":
		return new(pebble.Hook), &pebble.Options{Path: dir + "/pebble", Options: &pebbledb.Options{Logger: quietPebble{}}}
	case "bolt":
		// NoSync: no fsync per transaction (the harness process never dies mid-sequence; durability against
		// power loss is outside the model: the engines are trusted per call)
		return new(bolt.Hook), &bolt.Options{Path: dir + "/bolt.db", Options: &bbolt.Options{Timeout: 250 * time.Millisecond, NoSync: true, NoFreelistSync: true}}
	case "redis":
		return new(redis.Hook), &redis.Options{Address: redisAddr}
	}
	return nil, nil
}

// openStorageHook opens one real storage hook of the named backend on dir (redis: on the miniredis address).
func openStorageHook(name, dir, redisAddr string) (stHook, error) {
	h, cfg := newStorageHook(name, dir, redisAddr)
	if h == nil {
		return nil, fmt.Errorf("unknown backend %s", name)
	}
	h.SetOpts(quietLog, nil)
	if err := h.Init(cfg); err != nil {
		return nil, err
	}
	return h, nil
}

func stOf(st *state) *stEngines {
	if x, ok := st.m["st"]; ok {
		return x.(*stEngines)
	}
	return nil
}

func (e *stEngines) closeHooks() string {
	var errs []string
	for i, h := range e.hooks {
		if h != nil {
			if err := h.Stop(); err != nil {
				errs = append(errs, stBackends[i]+":"+errClass(err))
			}
			e.hooks[i] = nil
		}
	}
	if len(errs) == 0 {
		return "-"
	}
	return strings.Join(errs, ",")
}

func (e *stEngines) destroy() {
	e.closeHooks()
	if e.mini != nil {
		e.mini.Close()
		e.mini = nil
	}
	if e.dir != "" {
		os.RemoveAll(e.dir)
		e.dir = ""
	}
}

func (e *stEngines) open() error {
	e.hooks = make([]stHook, len(stBackends))
	for i, n := range stBackends {
		h, err := openStorageHook(n, e.dir, e.mini.Addr())
		if err != nil {
			return fmt.Errorf("%s: %w", n, err)
		}
		e.hooks[i] = h
	}
	return nil
}

func errClass(err error) string {
	if err == nil {
		return "-"
	}
	s := err.Error()
	if i := strings.IndexAny(s, ":\n"); i > 0 {
		s = s[:i]
	}
	return strings.ReplaceAll(s, " ", "_")
}

// ------------------------------------------------------------------------------------------------
// tokens

func hs(s string) string { return hx([]byte(s)) }
func us(s string) string { return string(unhx(s)) }

type stUser struct{ k, v string }

type stClient struct {
	id, user, listener, remote      string
	pv                              int
	clean, inline                   bool
	stop                            int
	sei                             uint32
	seiFlag                         bool
	authMethod, authData            string
	reqProb                         int
	reqProbFlag                     bool
	reqResp, recvMax, taMax, maxPkt int
	users                           []stUser
	willTopic, willPayload          string
	willFlag, willDelay, willQos    int
	willRetain                      bool
	willUsers                       []stUser
}

type stPacket struct {
	topic, payload         string
	qos                    int
	retain, dup            bool
	typ, remaining, pid    int
	created, expiry        int64
	origin                 string
	pv, payloadFormat      int
	pfFlag                 bool
	msgExpiry              uint32
	contentType, respTopic string
	corrData               string
	subIDs                 []int
	topicAlias             int
	taFlag                 bool
	users                  []stUser
}

type stFilter struct {
	filter    string
	qos       int
	nl, rap   bool
	rh, ident int
}

func fmtUsers(us []stUser) string {
	if len(us) == 0 {
		return "."
	}
	var xs []string
	for _, u := range us {
		xs = append(xs, hs(u.k)+":"+hs(u.v))
	}
	return strings.Join(xs, "+")
}

func parseUsers(s string) []stUser {
	if s == "." {
		return nil
	}
	var out []stUser
	for _, kv := range strings.Split(s, "+") {
		p := strings.Split(kv, ":")
		out = append(out, stUser{us(p[0]), us(p[1])})
	}
	return out
}

func fmtInts(xs []int) string {
	if len(xs) == 0 {
		return "."
	}
	var ss []string
	for _, x := range xs {
		ss = append(ss, strconv.Itoa(x))
	}
	return strings.Join(ss, "+")
}

func parseInts(s string) []int {
	if s == "." {
		return nil
	}
	var out []int
	for _, x := range strings.Split(s, "+") {
		out = append(out, atoi(x))
	}
	return out
}

func bi(b bool) int {
	if b {
		return 1
	}
	return 0
}

func (c stClient) String() string {
	return fmt.Sprintf("%s,%s,%s,%s,%d,%d,%d,%d,%d,%d,%s,%s,%d,%d,%d,%d,%d,%d,%s,%s,%s,%d,%d,%d,%d,%s",
		hs(c.id), hs(c.user), hs(c.listener), hs(c.remote), c.pv, bi(c.clean), bi(c.inline), c.stop, c.sei, bi(c.seiFlag),
		hs(c.authMethod), hs(c.authData), c.reqProb, bi(c.reqProbFlag), c.reqResp, c.recvMax, c.taMax, c.maxPkt, fmtUsers(c.users),
		hs(c.willTopic), hs(c.willPayload), c.willFlag, c.willDelay, c.willQos, bi(c.willRetain), fmtUsers(c.willUsers))
}

func parseStClient(tok string) stClient {
	f := strings.Split(tok, ",")
	if len(f) != 26 {
		panic("bad client token")
	}
	return stClient{id: us(f[0]), user: us(f[1]), listener: us(f[2]), remote: us(f[3]), pv: atoi(f[4]), clean: f[5] == "1",
		inline: f[6] == "1", stop: atoi(f[7]), sei: uint32(atoi(f[8])), seiFlag: f[9] == "1", authMethod: us(f[10]), authData: us(f[11]),
		reqProb: atoi(f[12]), reqProbFlag: f[13] == "1", reqResp: atoi(f[14]), recvMax: atoi(f[15]), taMax: atoi(f[16]), maxPkt: atoi(f[17]),
		users: parseUsers(f[18]), willTopic: us(f[19]), willPayload: us(f[20]), willFlag: atoi(f[21]), willDelay: atoi(f[22]),
		willQos: atoi(f[23]), willRetain: f[24] == "1", willUsers: parseUsers(f[25])}
}

func (p stPacket) String() string {
	return fmt.Sprintf("%s,%s,%d,%d,%d,%d,%d,%d,%d,%d,%s,%d,%d,%d,%d,%s,%s,%s,%s,%d,%d,%s",
		hs(p.topic), hs(p.payload), p.qos, bi(p.retain), bi(p.dup), p.typ, p.remaining, p.pid, p.created, p.expiry, hs(p.origin), p.pv,
		p.payloadFormat, bi(p.pfFlag), p.msgExpiry, hs(p.contentType), hs(p.respTopic), hs(p.corrData), fmtInts(p.subIDs), p.topicAlias,
		bi(p.taFlag), fmtUsers(p.users))
}

func parseStPacket(tok string) stPacket {
	f := strings.Split(tok, ",")
	if len(f) != 22 {
		panic("bad packet token")
	}
	i64 := func(s string) int64 { v, _ := strconv.ParseInt(s, 10, 64); return v }
	return stPacket{topic: us(f[0]), payload: us(f[1]), qos: atoi(f[2]), retain: f[3] == "1", dup: f[4] == "1", typ: atoi(f[5]),
		remaining: atoi(f[6]), pid: atoi(f[7]), created: i64(f[8]), expiry: i64(f[9]), origin: us(f[10]), pv: atoi(f[11]),
		payloadFormat: atoi(f[12]), pfFlag: f[13] == "1", msgExpiry: uint32(atoi(f[14])), contentType: us(f[15]), respTopic: us(f[16]),
		corrData: us(f[17]), subIDs: parseInts(f[18]), topicAlias: atoi(f[19]), taFlag: f[20] == "1", users: parseUsers(f[21])}
}

func fmtFilters(fs []stFilter) string {
	if len(fs) == 0 {
		return "."
	}
	var xs []string
	for _, f := range fs {
		xs = append(xs, fmt.Sprintf("%s:%d:%d:%d:%d:%d", hs(f.filter), f.qos, bi(f.nl), bi(f.rap), f.rh, f.ident))
	}
	return strings.Join(xs, "+")
}

func parseFiltersTok(s string) []stFilter {
	if s == "." {
		return nil
	}
	var out []stFilter
	for _, x := range strings.Split(s, "+") {
		p := strings.Split(x, ":")
		out = append(out, stFilter{us(p[0]), atoi(p[1]), p[2] == "1", p[3] == "1", atoi(p[4]), atoi(p[5])})
	}
	return out
}

func toUserProps(us []stUser) []packets.UserProperty {
	if len(us) == 0 {
		return nil
	}
	var out []packets.UserProperty
	for _, u := range us {
		out = append(out, packets.UserProperty{Key: u.k, Val: u.v})
	}
	return out
}

var errOtherStop = errors.New("connection lost")

// build makes the *mqtt.Client value a hook receives.
func (c stClient) build() *mqtt.Client {
	cl := &mqtt.Client{ID: c.id}
	cl.Net.Remote, cl.Net.Listener, cl.Net.Inline = c.remote, c.listener, c.inline
	cl.Properties.Username = []byte(c.user)
	cl.Properties.ProtocolVersion = byte(c.pv)
	cl.Properties.Clean = c.clean
	cl.Properties.Props = packets.Properties{
		SessionExpiryInterval: c.sei, SessionExpiryIntervalFlag: c.seiFlag, AuthenticationMethod: c.authMethod,
		AuthenticationData: []byte(c.authData), RequestProblemInfo: byte(c.reqProb), RequestProblemInfoFlag: c.reqProbFlag,
		RequestResponseInfo: byte(c.reqResp), ReceiveMaximum: uint16(c.recvMax), TopicAliasMaximum: uint16(c.taMax),
		MaximumPacketSize: uint32(c.maxPkt), User: toUserProps(c.users),
	}
	cl.Properties.Will = mqtt.Will{Payload: []byte(c.willPayload), User: toUserProps(c.willUsers), TopicName: c.willTopic,
		Flag: uint32(c.willFlag), WillDelayInterval: uint32(c.willDelay), Qos: byte(c.willQos), Retain: c.willRetain}
	switch c.stop {
	case 1:
		cl.Stop(packets.ErrSessionTakenOver)
	case 2:
		cl.Stop(errOtherStop)
	case 3:
		cl.Stop(fmt.Errorf("stopped: %w", packets.ErrSessionTakenOver))
	}
	return cl
}

func (p stPacket) build() packets.Packet {
	return packets.Packet{
		FixedHeader: packets.FixedHeader{Remaining: p.remaining, Type: byte(p.typ), Qos: byte(p.qos), Dup: p.dup, Retain: p.retain},
		TopicName:   p.topic, Payload: []byte(p.payload), PacketID: uint16(p.pid), Created: p.created, Expiry: p.expiry, Origin: p.origin,
		ProtocolVersion: byte(p.pv),
		Properties: packets.Properties{PayloadFormat: byte(p.payloadFormat), PayloadFormatFlag: p.pfFlag, MessageExpiryInterval: p.msgExpiry,
			ContentType: p.contentType, ResponseTopic: p.respTopic, CorrelationData: []byte(p.corrData), SubscriptionIdentifier: p.subIDs,
			TopicAlias: uint16(p.topicAlias), TopicAliasFlag: p.taFlag, User: toUserProps(p.users)},
	}
}

func filtersPacket(fs []stFilter) packets.Packet {
	pk := packets.Packet{}
	for _, f := range fs {
		pk.Filters = append(pk.Filters, packets.Subscription{Filter: f.filter, Qos: byte(f.qos), NoLocal: f.nl, RetainAsPublished: f.rap,
			RetainHandling: byte(f.rh), Identifier: f.ident})
	}
	return pk
}

// applyStorageEvent applies one `st.ev` argument list to one hook.
func applyStorageEvent(h stHook, a []string) {
	switch a[0] {
	case "established":
		h.OnSessionEstablished(parseStClient(a[1]).build(), packets.Packet{})
	case "willsent":
		h.OnWillSent(parseStClient(a[1]).build(), packets.Packet{})
	case "clientexpired":
		h.OnClientExpired(parseStClient(a[1]).build())
	case "disconnect":
		cl := parseStClient(a[1]).build()
		h.OnDisconnect(cl, cl.StopCause(), a[2] == "1")
	case "subscribed":
		var rc []byte
		for _, x := range parseInts(a[3]) {
			rc = append(rc, byte(x))
		}
		pk := filtersPacket(parseFiltersTok(a[2]))
		pk.FixedHeader.Type = packets.Subscribe
		h.OnSubscribed(parseStClient(a[1]).build(), pk, rc)
	case "unsubscribed":
		pk := filtersPacket(parseFiltersTok(a[2]))
		pk.FixedHeader.Type = packets.Unsubscribe
		h.OnUnsubscribed(parseStClient(a[1]).build(), pk)
	case "retain":
		r, _ := strconv.ParseInt(a[3], 10, 64)
		h.OnRetainMessage(parseStClient(a[1]).build(), parseStPacket(a[2]).build(), r)
	case "retainedexpired":
		h.OnRetainedExpired(us(a[1]))
	case "qospublish":
		sent, _ := strconv.ParseInt(a[3], 10, 64)
		h.OnQosPublish(parseStClient(a[1]).build(), parseStPacket(a[2]).build(), sent, atoi(a[4]))
	case "qoscomplete":
		h.OnQosComplete(parseStClient(a[1]).build(), parseStPacket(a[2]).build())
	case "qosdropped":
		h.OnQosDropped(parseStClient(a[1]).build(), parseStPacket(a[2]).build())
	case "sysinfo":
		h.OnSysInfoTick(parseSysInfo(a[1], a[2]))
	default:
		panic("unknown storage event " + a[0])
	}
}

func parseSysInfo(ver, nums string) *system.Info {
	f := strings.Split(nums, ",")
	if len(f) != 20 {
		panic("bad sysinfo")
	}
	n := func(i int) int64 { v, _ := strconv.ParseInt(f[i], 10, 64); return v }
	return &system.Info{Version: us(ver), Started: n(0), Time: n(1), Uptime: n(2), BytesReceived: n(3), BytesSent: n(4),
		ClientsConnected: n(5), ClientsDisconnected: n(6), ClientsMaximum: n(7), ClientsTotal: n(8), MessagesReceived: n(9),
		MessagesSent: n(10), MessagesDropped: n(11), Retained: n(12), Inflight: n(13), InflightDropped: n(14), Subscriptions: n(15),
		PacketsReceived: n(16), PacketsSent: n(17), MemoryAlloc: n(18), Threads: n(19)}
}

// ------------------------------------------------------------------------------------------------
// canonical rendering of what the Stored* methods return

func renderUserProps(us []packets.UserProperty) string {
	if len(us) == 0 {
		return "."
	}
	var xs []string
	for _, u := range us {
		xs = append(xs, hs(u.Key)+":"+hs(u.Val))
	}
	return strings.Join(xs, "+")
}

func renderStoredClient(c storage.Client) string {
	p, w := c.Properties, c.Will
	return fmt.Sprintf("id=%s,t=%s,remote=%s,listener=%s,user=%s,pv=%d,clean=%d,p.authdata=%s,p.user=%s,p.authmethod=%s,p.sei=%d,p.maxpkt=%d,"+
		"p.recvmax=%d,p.tamax=%d,p.seiflag=%d,p.reqprob=%d,p.reqprobflag=%d,p.reqresp=%d,w.payload=%s,w.user=%s,w.topic=%s,w.flag=%d,"+
		"w.delay=%d,w.qos=%d,w.retain=%d",
		hs(c.ID), hs(c.T), hs(c.Remote), hs(c.Listener), hx(c.Username), c.ProtocolVersion, bi(c.Clean), hx(p.AuthenticationData),
		renderUserProps(p.User), hs(p.AuthenticationMethod), p.SessionExpiryInterval, p.MaximumPacketSize, p.ReceiveMaximum,
		p.TopicAliasMaximum, bi(p.SessionExpiryIntervalFlag), p.RequestProblemInfo, bi(p.RequestProblemInfoFlag), p.RequestResponseInfo,
		hx(w.Payload), renderUserProps(w.User), hs(w.TopicName), w.Flag, w.WillDelayInterval, w.Qos, bi(w.Retain))
}

func renderStoredSub(s storage.Subscription) string {
	return fmt.Sprintf("id=%s,t=%s,client=%s,filter=%s,ident=%d,rh=%d,qos=%d,rap=%d,nl=%d",
		hs(s.ID), hs(s.T), hs(s.Client), hs(s.Filter), s.Identifier, s.RetainHandling, s.Qos, bi(s.RetainAsPublished), bi(s.NoLocal))
}

func renderStoredMsg(m storage.Message) string {
	p := m.Properties
	return fmt.Sprintf("id=%s,t=%s,client=%s,origin=%s,topic=%s,payload=%s,fh.rem=%d,fh.type=%d,fh.qos=%d,fh.dup=%d,fh.retain=%d,"+
		"created=%d,sent=%d,packet_id=%d,p.corr=%s,p.subids=%s,p.user=%s,p.ctype=%s,p.resp=%s,p.expiry=%d,p.alias=%d,p.pf=%d,p.pfflag=%d",
		hs(m.ID), hs(m.T), hs(m.Client), hs(m.Origin), hs(m.TopicName), hx(m.Payload), m.FixedHeader.Remaining, m.FixedHeader.Type,
		m.FixedHeader.Qos, bi(m.FixedHeader.Dup), bi(m.FixedHeader.Retain), m.Created, m.Sent, m.PacketID, hx(p.CorrelationData),
		fmtInts(p.SubscriptionIdentifier), renderUserProps(p.User), hs(p.ContentType), hs(p.ResponseTopic), p.MessageExpiryInterval,
		p.TopicAlias, p.PayloadFormat, bi(p.PayloadFormatFlag))
}

func renderStoredSys(s storage.SystemInfo) string {
	i := s.Info
	return fmt.Sprintf("id=%s,t=%s,version=%s,nums=%d/%d/%d/%d/%d/%d/%d/%d/%d/%d/%d/%d/%d/%d/%d/%d/%d/%d/%d/%d",
		hs(s.ID), hs(s.T), hs(i.Version), i.Started, i.Time, i.Uptime, i.BytesReceived, i.BytesSent, i.ClientsConnected,
		i.ClientsDisconnected, i.ClientsMaximum, i.ClientsTotal, i.MessagesReceived, i.MessagesSent, i.MessagesDropped, i.Retained,
		i.Inflight, i.InflightDropped, i.Subscriptions, i.PacketsReceived, i.PacketsSent, i.MemoryAlloc, i.Threads)
}

func sortedJoin(xs []string) string {
	sort.Strings(xs)
	return strings.Join(xs, ";")
}

// renderStore reads every Stored* method of one hook.
func renderStore(h stHook) string {
	var errs []string
	note := func(what string, err error) {
		if err != nil {
			errs = append(errs, what+":"+errClass(err))
		}
	}
	cs, err := h.StoredClients()
	note("clients", err)
	ss, err := h.StoredSubscriptions()
	note("subs", err)
	rs, err := h.StoredRetainedMessages()
	note("retained", err)
	is, err := h.StoredInflightMessages()
	note("inflight", err)
	sy, err := h.StoredSysInfo()
	note("sys", err)
	var c, s, r, i []string
	for _, x := range cs {
		c = append(c, renderStoredClient(x))
	}
	for _, x := range ss {
		s = append(s, renderStoredSub(x))
	}
	for _, x := range rs {
		r = append(r, renderStoredMsg(x))
	}
	for _, x := range is {
		i = append(i, renderStoredMsg(x))
	}
	e := "-"
	if len(errs) > 0 {
		e = strings.Join(errs, "/")
	}
	return fmt.Sprintf("C[%s] S[%s] R[%s] I[%s] Y[%s] E[%s]", sortedJoin(c), sortedJoin(s), sortedJoin(r), sortedJoin(i), renderStoredSys(sy), e)
}

// ------------------------------------------------------------------------------------------------

func init() {
	resetHooks = append(resetHooks, func(st *state) {
		if e := stOf(st); e != nil {
			e.destroy()
			delete(st.m, "st")
		}
	})
	runners["st.new"] = func(st *state, a []string) string {
		if e := stOf(st); e != nil {
			e.destroy()
		}
		dir, err := os.MkdirTemp("/var/tmp", "vharness-st-")
		if err != nil {
			return "err " + errClass(err)
		}
		e := &stEngines{dir: dir}
		st.m["st"] = e
		defer func() {
			if r := recover(); r != nil {
				e.destroy()
				delete(st.m, "st")
				panic(r)
			}
		}()
		e.mini, err = miniredis.Run()
		if err != nil {
			e.destroy()
			return "err miniredis " + errClass(err)
		}
		if err := e.open(); err != nil {
			e.destroy()
			return "err open " + errClass(err)
		}
		return "-"
	}
	runners["st.ev"] = func(st *state, a []string) string {
		e := stOf(st)
		if e == nil {
			return "err no-engines"
		}
		var out []string
		for i, h := range e.hooks {
			func() {
				defer func() {
					if r := recover(); r != nil {
						out = append(out, stBackends[i]+":panic")
					}
				}()
				applyStorageEvent(h, a)
			}()
		}
		if len(out) == 0 {
			return "-"
		}
		return strings.Join(out, ",")
	}
	runners["st.read"] = func(st *state, a []string) string {
		e := stOf(st)
		if e == nil {
			return "err no-engines"
		}
		var out []string
		for _, h := range e.hooks {
			out = append(out, renderStore(h))
		}
		return strings.Join(out, " || ")
	}
	runners["st.reopen"] = func(st *state, a []string) string {
		e := stOf(st)
		if e == nil {
			return "err no-engines"
		}
		r := e.closeHooks()
		if err := e.open(); err != nil {
			return "err open " + errClass(err)
		}
		return r
	}
	suites["storage"] = suite{gen: genStorage}
}

// ------------------------------------------------------------------------------------------------
// generator

var (
	stIDs     = []string{"a", "a:b", "a_b", "b:c", "ü", "a:b:c", "b", "CL_a", "x/y"}
	stFilters = []string{"c", "b:c", "x/y", "x/+", "$share/g/x", "é/ü", "b:c:1", "1", "#", "a:b"}
	stTopics  = []string{"c", "b:c", "x/y", "é/ü", "a_b", "RET_c", "x", "$SYS/x"}
)

func genUsers(r *rand.Rand) []stUser {
	var out []stUser
	for i, n := 0, []int{0, 0, 0, 1, 2}[r.Intn(5)]; i < n; i++ {
		out = append(out, stUser{pick(r, []string{"k", "k:1", "ü", ""}), pick(r, []string{"v", "", "é+;"})})
	}
	return out
}

func genStClient(r *rand.Rand, id string) stClient {
	c := stClient{id: id, user: pick(r, []string{"", "u", "ü:1"}), listener: pick(r, []string{"t1", "ws:1"}),
		remote: pick(r, []string{"127.0.0.1:1883", "[::1]:5", ""}), pv: pick(r, []int{3, 4, 5, 5}), clean: r.Intn(2) == 0}
	if c.pv == 5 {
		c.sei = pick(r, []uint32{0, 0, 1, 60, 4294967295})
		c.seiFlag = c.sei != 0 || r.Intn(2) == 0
		if r.Intn(3) == 0 {
			c.authMethod, c.authData = pick(r, []string{"m", "scram:1"}), pick(r, []string{"", "\x00\xff", "d"})
		}
		if r.Intn(3) == 0 {
			c.reqProb, c.reqProbFlag = r.Intn(2), true
		}
		c.reqResp = r.Intn(2) * r.Intn(2)
		c.recvMax = pick(r, []int{0, 0, 1, 10, 65535})
		c.taMax = pick(r, []int{0, 0, 5, 65535})
		c.maxPkt = pick(r, []int{0, 0, 128, 4294967295})
		c.users = genUsers(r)
	}
	if r.Intn(3) == 0 {
		c.willFlag = 1
		c.willTopic, c.willPayload = pick(r, stTopics), pick(r, []string{"", "w", "\x00\xfe"})
		c.willQos, c.willRetain = r.Intn(3), r.Intn(3) == 0
		if c.pv == 5 {
			c.willDelay = pick(r, []int{0, 0, 5, 4294967295})
			c.willUsers = genUsers(r)
		}
	}
	return c
}

func genStPacket(r *rand.Rand, cl stClient, topic string, pid int, inflight bool) stPacket {
	p := stPacket{topic: topic, payload: pick(r, []string{"", "p", "payload:1", "\x00\xff\x7f"}), qos: 1 + r.Intn(2), typ: 3,
		pid: pid, created: pick(r, []int64{0, 1, 1700000000}), origin: pick(r, []string{"", "a", "a:b", "ü"}), pv: cl.pv}
	p.remaining = len(p.topic) + len(p.payload) + 4
	if !inflight {
		p.retain = true
		p.qos = r.Intn(3)
	} else {
		p.dup = r.Intn(4) == 0
		p.retain = r.Intn(5) == 0
		if r.Intn(6) == 0 { // a stored PUBREC / PUBREL of a QoS 2 exchange
			p.typ, p.qos, p.topic, p.payload = pick(r, []int{5, 6}), 1, "", ""
			p.remaining = 2
		}
	}
	if r.Intn(2) == 0 {
		p.msgExpiry = pick(r, []uint32{0, 1, 30, 4294967295})
		if p.msgExpiry > 0 {
			p.expiry = p.created + int64(p.msgExpiry)
		}
		if r.Intn(2) == 0 {
			p.payloadFormat, p.pfFlag = r.Intn(2), true
		}
		p.contentType = pick(r, []string{"", "text/plain", "é"})
		p.respTopic = pick(r, []string{"", "r/t", "r:t"})
		p.corrData = pick(r, []string{"", "c", "\x00\x01\xff"})
		if r.Intn(3) == 0 {
			p.subIDs = [][]int{{1}, {2, 7}, {268435455}}[r.Intn(3)]
		}
		if r.Intn(4) == 0 {
			p.topicAlias, p.taFlag = 1+r.Intn(3), true
		}
		p.users = genUsers(r)
	}
	return p
}

func genStFilters(r *rand.Rand, one bool) ([]stFilter, []int) {
	n := 1
	if !one && r.Intn(4) == 0 {
		n = 2 + r.Intn(2)
	}
	var fs []stFilter
	var rc []int
	for i := 0; i < n; i++ {
		f := stFilter{filter: pick(r, stFilters), qos: r.Intn(3), nl: r.Intn(4) == 0, rap: r.Intn(4) == 0, rh: r.Intn(3) * r.Intn(2)}
		if r.Intn(3) == 0 {
			f.ident = pick(r, []int{1, 7, 268435455})
		}
		fs = append(fs, f)
		code := f.qos
		if r.Intn(8) == 0 {
			code = pick(r, []int{0x80, 0x87, 0x8f, 0x9e})
		} else if r.Intn(5) == 0 && code > 0 {
			code-- // granted below the requested QoS
		}
		rc = append(rc, code)
	}
	return fs, rc
}

func genSysInfo(r *rand.Rand) string {
	var xs []string
	for i := 0; i < 20; i++ {
		xs = append(xs, strconv.Itoa(pick(r, []int{0, 0, 1, 7, 1700000000, 123456789012})))
	}
	return hs(pick(r, []string{"2.7.9", "", "v:ü"})) + " " + strings.Join(xs, ",")
}

// genStorage emits sequences: reset, st.new, 8–40 hook events over three client ids (drawn so that the
// "SUB_"+id+":"+filter keys of different (id, filter) pairs collide), read-backs every few events, reopen now and then.
func genStorage(r *rand.Rand, n int, emit func(string)) {
	for done := 0; done < n; {
		emit("reset")
		emit("st.new")
		done += 2
		// three ids, biased to colliding families
		var ids []string
		switch r.Intn(3) {
		case 0:
			ids = []string{"a", "a:b", pick(r, stIDs)}
		case 1:
			ids = []string{"a", "a_b", "ü"}
		default:
			ids = []string{pick(r, stIDs), pick(r, stIDs), pick(r, stIDs)}
		}
		prof := map[string]stClient{}
		for _, id := range ids {
			prof[id] = genStClient(r, id)
		}
		type ifl struct {
			id  string
			pid int
		}
		var subs [][2]string // (id, filter) stored
		var rets []string
		var ifls []ifl
		ev := func(s string) { emit("st.ev " + s); done++ }
		nev := 8 + r.Intn(33)
		sinceRead := 0
		for k := 0; k < nev; k++ {
			id := pick(r, ids)
			cl := prof[id]
			switch w := r.Intn(100); {
			case w < 12:
				if r.Intn(2) == 0 { // a new connection: new profile
					cl = genStClient(r, id)
					prof[id] = cl
				}
				ev("established " + cl.String())
			case w < 22: // disconnect, often with changed fields (will cleared, expiry updated by DISCONNECT)
				d := cl
				if r.Intn(2) == 0 {
					d.willFlag, d.willTopic, d.willPayload, d.willQos, d.willRetain, d.willDelay, d.willUsers = 0, "", "", 0, false, 0, nil
				}
				if d.pv == 5 && r.Intn(3) == 0 {
					d.sei = pick(r, []uint32{0, 30})
				}
				d.stop = pick(r, []int{0, 0, 1, 1, 2, 3})
				expire := (d.pv == 5 && d.sei == 0) || (d.pv < 5 && d.clean)
				if r.Intn(6) == 0 {
					expire = !expire
				}
				ev(fmt.Sprintf("disconnect %s %d", d.String(), bi(expire)))
			case w < 26:
				d := cl
				d.willFlag, d.willTopic, d.willPayload, d.willQos, d.willRetain, d.willDelay, d.willUsers = 0, "", "", 0, false, 0, nil
				prof[id] = d
				ev("willsent " + d.String())
			case w < 30:
				ev("clientexpired " + cl.String())
			case w < 48:
				fs, rc := genStFilters(r, false)
				for _, f := range fs {
					subs = append(subs, [2]string{id, f.filter})
				}
				ev(fmt.Sprintf("subscribed %s %s %s", cl.String(), fmtFilters(fs), fmtInts(rc)))
			case w < 58:
				var fs []stFilter
				if len(subs) > 0 && r.Intn(5) > 0 { // delete what was set (by the same or by a colliding client)
					s := pick(r, subs)
					if r.Intn(4) > 0 {
						id, cl = s[0], prof[s[0]]
					}
					fs = []stFilter{{filter: s[1]}}
					if r.Intn(5) == 0 {
						fs = append(fs, stFilter{filter: pick(r, stFilters)})
					}
				} else {
					fs = []stFilter{{filter: pick(r, stFilters)}}
				}
				ev(fmt.Sprintf("unsubscribed %s %s", cl.String(), fmtFilters(fs)))
			case w < 70:
				t := pick(r, stTopics)
				p := genStPacket(r, cl, t, 0, false)
				rr := "1"
				if r.Intn(5) == 0 || (len(rets) > 0 && r.Intn(4) == 0) {
					rr = "-1"
					if len(rets) > 0 {
						p.topic = pick(r, rets)
					}
					p.payload = ""
				} else {
					rets = append(rets, t)
				}
				ev(fmt.Sprintf("retain %s %s %s", cl.String(), p.String(), rr))
			case w < 73:
				t := pick(r, stTopics)
				if len(rets) > 0 && r.Intn(4) > 0 {
					t = pick(r, rets)
				}
				ev("retainedexpired " + hs(t))
			case w < 86:
				pid := pick(r, []int{0, 1, 1, 2, 3, 65535})
				p := genStPacket(r, cl, pick(r, stTopics), pid, true)
				ifls = append(ifls, ifl{id, pid})
				ev(fmt.Sprintf("qospublish %s %s %d %d", cl.String(), p.String(), pick(r, []int64{0, 5, 1700000001}), r.Intn(3)))
			case w < 96:
				p := stPacket{pid: pick(r, []int{0, 1, 2, 3, 65535}), typ: pick(r, []int{4, 7, 6})}
				if len(ifls) > 0 && r.Intn(5) > 0 {
					x := pick(r, ifls)
					p.pid = x.pid
					if r.Intn(4) > 0 {
						id, cl = x.id, prof[x.id]
					}
				}
				if r.Intn(3) == 0 {
					d := cl
					d.stop = 1 // the superseded object of a taken-over session
					ev(fmt.Sprintf("qosdropped %s %s", d.String(), p.String()))
				} else {
					ev(fmt.Sprintf("qoscomplete %s %s", cl.String(), p.String()))
				}
			default:
				ev("sysinfo " + genSysInfo(r))
			}
			sinceRead++
			if sinceRead >= 2+r.Intn(4) || k == nev-1 {
				if r.Intn(5) == 0 {
					emit("st.reopen")
					done++
				}
				emit("st.read")
				done++
				sinceRead = 0
			}
		}
	}
}
