package main

import (
	"fmt"
	"math/rand"
	"strings"
)

// generator of the restart suite: short broker histories (connects of MQTT 3.1 / 3.1.1 / 5 clients with
// expiry settings and wills, subscriptions with options — also refused ones —, retained and QoS 1/2 publishes with
// properties, acknowledgements, disconnects, take-overs, inline API calls) over client ids, filters and topics that
// contain the key separators, each followed by `sr.restart` (sometimes twice, with more history in between).
var (
	srIDs     = []string{"a", "a:b", "b", "a_b", "ü", "a:b:c"}
	srFilters = []string{"c", "b:c", "x/y", "x/+", "$share/g/x", "é/ü", "#", "b:c:d", "c:d"}
	srBadFilt = []string{"x/#/y", "x+", "$share/g/"}
	srTopics  = []string{"c", "b:c", "x/y", "é/ü", "c:d"}
)

func genRestartHistory(r *rand.Rand, emit func(string), ids []string, state *srGenState, steps int) {
	connect := func(id string) {
		ver := pick(r, []int{3, 4, 5, 5, 5})
		clean := r.Intn(4) == 0
		var kv []string
		if ver == 5 {
			if r.Intn(4) > 0 {
				kv = append(kv, fmt.Sprintf("sei=%d", pick(r, []int{0, 60, 3600, 3600})))
			}
			if r.Intn(3) == 0 {
				kv = append(kv, fmt.Sprintf("rm=%d", pick(r, []int{2, 10})))
			}
			if r.Intn(4) == 0 {
				kv = append(kv, fmt.Sprintf("tam=%d", pick(r, []int{1, 10})))
			}
			if r.Intn(4) == 0 {
				kv = append(kv, "mps=4096")
			}
			if r.Intn(4) == 0 {
				kv = append(kv, fmt.Sprintf("rpi=%d", r.Intn(2)))
			}
		}
		if r.Intn(4) == 0 {
			kv = append(kv, "un="+hs(pick(r, []string{"u", "ü:1"})))
		}
		if r.Intn(4) == 0 {
			delay := 0
			if ver == 5 && r.Intn(2) == 0 {
				delay = 3600
			}
			kv = append(kv, fmt.Sprintf("will=%s:%s:%d:%d:%d", hs(pick(r, srTopics)), hs("w"), r.Intn(3), r.Intn(2), delay))
		}
		n := state.next
		state.next++
		state.open[n] = ver
		state.idOf[n] = id
		state.nextPid[n] = 1
		emit(strings.TrimSpace(fmt.Sprintf("sr.conn %d %d %d %s %s", n, ver, bi(clean), hs(id), strings.Join(kv, " "))))
	}
	anyOpen := func() (int, bool) {
		var ns []int
		for n := 1; n < state.next; n++ {
			if _, ok := state.open[n]; ok {
				ns = append(ns, n)
			}
		}
		if len(ns) == 0 {
			return 0, false
		}
		return pick(r, ns), true
	}
	for k := 0; k < steps; k++ {
		n, ok := anyOpen()
		w := r.Intn(100)
		if !ok || w < 14 {
			id := pick(r, ids)
			// a second connection of a connected id is a take-over: the old connection ends
			for m, oid := range state.idOf {
				if _, o := state.open[m]; o && oid == id {
					delete(state.open, m)
				}
			}
			connect(id)
			continue
		}
		ver := state.open[n]
		pid := func() int { p := state.nextPid[n]; state.nextPid[n]++; return p }
		switch {
		case w < 36: // SUBSCRIBE
			var fs []string
			for i, c := 0, 1+r.Intn(4)/3; i < c; i++ {
				f := pick(r, srFilters)
				if r.Intn(8) == 0 {
					f = pick(r, srBadFilt)
				}
				nl := r.Intn(5) == 0
				fs = append(fs, fmt.Sprintf("%s:%d:%d:%d:%d", hs(f), r.Intn(3), bi(nl), bi(r.Intn(4) == 0), r.Intn(3)*r.Intn(2)))
			}
			si := ""
			if ver == 5 && r.Intn(3) == 0 {
				si = fmt.Sprintf(" si=%d", pick(r, []int{1, 7, 268435455}))
			}
			emit(fmt.Sprintf("sr.send %d SUBSCRIBE id=%d f=%s%s", n, 100+pid(), strings.Join(fs, ","), si))
		case w < 42: // UNSUBSCRIBE
			emit(fmt.Sprintf("sr.send %d UNSUBSCRIBE id=%d f=%s", n, 100+pid(), hs(pick(r, srFilters))))
		case w < 70: // PUBLISH
			q := r.Intn(3)
			kv := fmt.Sprintf("t=%s p=%s q=%d r=%d", hs(pick(r, srTopics)), hs(pick(r, []string{"p", "payload:1", "\x00\xff"})), q, bi(r.Intn(3) == 0))
			if q > 0 {
				kv += fmt.Sprintf(" id=%d", 200+pid())
			}
			if ver == 5 && r.Intn(2) == 0 {
				if r.Intn(2) == 0 {
					kv += fmt.Sprintf(" me=%d", pick(r, []int{300, 3600}))
				}
				if r.Intn(3) == 0 {
					kv += " ct=text"
				}
				if r.Intn(3) == 0 {
					kv += fmt.Sprintf(" pf=%d", r.Intn(2))
				}
				if r.Intn(3) == 0 {
					kv += " rt=" + hs(pick(r, []string{"r/t", "r:t"}))
				}
				if r.Intn(3) == 0 {
					kv += " cd=" + hs("c:\x01")
				}
				if r.Intn(3) == 0 {
					kv += " up=" + hs("k:1") + ":" + hs("v")
				}
			}
			if r.Intn(12) == 0 { // clear a retained message
				kv = fmt.Sprintf("t=%s p=- q=0 r=1", hs(pick(r, srTopics)))
			}
			emit(fmt.Sprintf("sr.send %d PUBLISH %s", n, kv))
		case w < 80: // acknowledge something the broker sent (packet ids are allocated 1, 2, … per session)
			emit(fmt.Sprintf("sr.send %d %s id=%d", n, pick(r, []string{"PUBACK", "PUBACK", "PUBREC", "PUBCOMP"}), 1+r.Intn(3)))
		case w < 84: // complete / continue an inbound QoS 2 exchange
			emit(fmt.Sprintf("sr.send %d PUBREL id=%d", n, 200+r.Intn(4)))
		case w < 90:
			delete(state.open, n)
			if ver == 5 && r.Intn(3) == 0 {
				emit(fmt.Sprintf("sr.send %d DISCONNECT sei=%d", n, pick(r, []int{0, 120})))
			} else if r.Intn(2) == 0 {
				emit(fmt.Sprintf("sr.send %d DISCONNECT", n))
			} else {
				emit(fmt.Sprintf("sr.drop %d", n))
			}
		case w < 95:
			emit(fmt.Sprintf("sr.ipub %s %s %d %d", hs(pick(r, srTopics)), hs("i"), bi(r.Intn(2) == 0), r.Intn(3)))
		default:
			emit(fmt.Sprintf("sr.isub %d %s", 1+r.Intn(2), hs(pick(r, srFilters))))
		}
	}
}

// genResumptions: a persistent session that holds unacknowledged exchanges in both directions (outbound QoS 1/2
// messages, an outbound QoS 2 message already answered with PUBREC, an inbound QoS 2 publish waiting for PUBREL) is
// resumed one to three times without completing them before the broker stops: what a resumption deletes from the
// store on behalf of the superseded connection must be written back for the live one, every time.
func genResumptions(r *rand.Rand, emit func(string), ids []string, state *srGenState) {
	sub, pub := ids[0], ids[1]
	if sub == pub {
		pub = sub + "p"
	}
	topic := pick(r, srTopics)
	subVer := pick(r, []int{4, 5})
	subKV := ""
	if subVer == 5 {
		subKV = " sei=3600"
	}
	conn := func(id string, ver int, clean int, kv string) int {
		n := state.next
		state.next++
		state.open[n], state.idOf[n], state.nextPid[n] = ver, id, 1
		emit(strings.TrimSpace(fmt.Sprintf("sr.conn %d %d %d %s%s", n, ver, clean, hs(id), kv)))
		return n
	}
	s := conn(sub, subVer, 0, subKV)
	emit(fmt.Sprintf("sr.send %d SUBSCRIBE id=101 f=%s:2:0:0:0", s, hs(topic)))
	p := conn(pub, pick(r, []int{4, 5}), 1, "")
	nOut := 1 + r.Intn(3)
	for i := 0; i < nOut; i++ {
		emit(fmt.Sprintf("sr.send %d PUBLISH t=%s p=%s q=%d r=0 id=%d", p, hs(topic), hs(fmt.Sprintf("o%d", i)), 1+r.Intn(2), 201+i))
		if r.Intn(2) == 0 {
			emit(fmt.Sprintf("sr.send %d PUBREL id=%d", p, 201+i))
		}
	}
	if r.Intn(2) == 0 { // the subscriber's own inbound QoS 2 exchange stays open (PUBREC stored, no PUBREL)
		emit(fmt.Sprintf("sr.send %d PUBLISH t=%s p=%s q=2 r=0 id=77", s, hs(pick(r, srTopics)), hs("in")))
	}
	if r.Intn(2) == 0 { // an outbound QoS 2 message gets its PUBREC: the record becomes a PUBREL
		emit(fmt.Sprintf("sr.send %d PUBREC id=%d", s, 1+r.Intn(nOut)))
	}
	for k, resumes := 0, 1+r.Intn(3); k < resumes; k++ {
		if r.Intn(3) == 0 {
			emit(fmt.Sprintf("sr.drop %d", s))
		}
		delete(state.open, s)
		s = conn(sub, subVer, 0, subKV)
		if r.Intn(4) == 0 {
			emit(fmt.Sprintf("sr.send %d PUBACK id=%d", s, 1+r.Intn(nOut)))
		}
	}
}

type srGenState struct {
	next    int
	open    map[int]int
	idOf    map[int]string
	nextPid map[int]int
}

func genRestart(backends []string) func(r *rand.Rand, n int, emit func(string)) {
	return func(r *rand.Rand, n int, emit0 func(string)) {
		done := 0
		emit := func(s string) { emit0(s); done++ }
		for done < n {
			emit("reset")
			var caps []string
			if r.Intn(4) == 0 {
				caps = append(caps, fmt.Sprintf("maxqos=%d", r.Intn(3)))
			}
			if r.Intn(6) == 0 {
				caps = append(caps, fmt.Sprintf("sessexp=%d", pick(r, []int{100, 1000})))
			}
			if r.Intn(6) == 0 {
				caps = append(caps, "msgexp=1000")
			}
			if r.Intn(8) == 0 {
				caps = append(caps, "recvmax=2")
			}
			emit(strings.TrimSpace("sr.new " + pick(r, backends) + " " + strings.Join(caps, " ")))
			var ids []string
			switch r.Intn(3) {
			case 0:
				ids = []string{"a", "a:b", pick(r, srIDs)}
			default:
				ids = []string{pick(r, srIDs), pick(r, srIDs), pick(r, srIDs)}
			}
			if r.Intn(4) == 0 {
				emit(fmt.Sprintf("sr.acl %s %s r", hs(pick(r, ids)), hs(pick(r, srFilters))))
			}
			st := &srGenState{next: 1, open: map[int]int{}, idOf: map[int]string{}, nextPid: map[int]int{}}
			if r.Intn(3) == 0 {
				genResumptions(r, emit, ids, st)
			} else {
				genRestartHistory(r, emit, ids, st, 6+r.Intn(20))
			}
			emit("sr.restart")
			if r.Intn(3) == 0 { // the restarted broker goes on: every connection is gone, sessions may be resumed
				st.open = map[int]int{}
				genRestartHistory(r, emit, ids, st, 3+r.Intn(8))
				emit("sr.restart")
			}
		}
	}
}

func init() {
	suites["restart"] = suite{gen: genRestart(stBackends)}
	for _, b := range stBackends {
		suites["restart-"+b] = suite{gen: genRestart([]string{b})}
	}
}

// generator of the crash suite (C21): a short history on one backend, then `sr.crashsweep` (a broker restarted on
// every prefix of the history's storage-event log). Histories are biased towards what the property speaks about:
// clean and expiring sessions with subscriptions, persistent sessions with in-flight messages, take-overs.
func genCrash(backends []string) func(r *rand.Rand, n int, emit func(string)) {
	return func(r *rand.Rand, n int, emit0 func(string)) {
		done := 0
		emit := func(s string) { emit0(s); done++ }
		for done < n {
			emit("reset")
			emit("sr.new " + pick(r, backends))
			var ids []string
			switch r.Intn(3) {
			case 0:
				ids = []string{"a", "a:b"}
			default:
				ids = []string{pick(r, srIDs), pick(r, srIDs)}
			}
			if r.Intn(5) == 0 {
				emit(fmt.Sprintf("sr.acl %s %s r", hs(pick(r, ids)), hs(pick(r, srFilters))))
			}
			st := &srGenState{next: 1, open: map[int]int{}, idOf: map[int]string{}, nextPid: map[int]int{}}
			genRestartHistory(r, emit, ids, st, 5+r.Intn(8))
			emit("sr.crashsweep")
			done += 20 // a sweep restarts the broker once per storage event
		}
	}
}

func init() {
	suites["crash"] = suite{gen: genCrash(stBackends)}
}
