package main

// inflorder suite (property C12): the ordering of the in-flight store of inflight.go — mqtt.Inflight driven
// directly through Set, Delete, GetAll and NextImmediate, with creation times at the 16-, 31- and 32-bit
// boundaries (Created is an int64 of whole seconds) and packet ids around the 65535 -> 1 wrap. GetAll is the
// order of the resend after a session resumption, NextImmediate the choice of the deferred message released next.
//
//	io.new                              a new store                        -> -
//	io.set <id> <created> <expiry>      Set(packet)                        -> 1|0 (id was new)
//	io.del <id>                         Delete(id)                         -> 1|0 (id was present)
//	io.getall <0|1>                     GetAll(immediate)                  -> <id>@<created>,... or -
//	io.next                             NextImmediate()                    -> <id>@<created> or none

import (
	"fmt"
	"math/rand"
	"strings"

	mqtt "github.com/mochi-mqtt/server/v2"
	"github.com/mochi-mqtt/server/v2/packets"
)

func ioOf(st *state) *mqtt.Inflight {
	if x, ok := st.m["io"]; ok {
		return x.(*mqtt.Inflight)
	}
	i := mqtt.NewInflights()
	st.m["io"] = i
	return i
}

func init() {
	runners["io.new"] = func(st *state, a []string) string {
		st.m["io"] = mqtt.NewInflights()
		return "-"
	}
	runners["io.set"] = func(st *state, a []string) string {
		pk := packets.Packet{FixedHeader: packets.FixedHeader{Type: packets.Publish, Qos: 1}, PacketID: uint16(atoi(a[0])),
			Created: atoi64(a[1]), Expiry: atoi64(a[2])}
		return b2s(ioOf(st).Set(pk))
	}
	runners["io.del"] = func(st *state, a []string) string { return b2s(ioOf(st).Delete(uint16(atoi(a[0])))) }
	runners["io.getall"] = func(st *state, a []string) string {
		var out []string
		for _, pk := range ioOf(st).GetAll(a[0] == "1") {
			out = append(out, fmt.Sprintf("%d@%d", pk.PacketID, pk.Created))
		}
		if len(out) == 0 {
			return "-"
		}
		return strings.Join(out, ",")
	}
	runners["io.next"] = func(st *state, a []string) string {
		pk, ok := ioOf(st).NextImmediate()
		if !ok {
			return "none"
		}
		return fmt.Sprintf("%d@%d", pk.PacketID, pk.Created)
	}

	// creation times: a base at one of the boundaries, a handful of seconds around it
	bases := []int64{0, 10, 65535, 65536, 131072, 1 << 31, 1 << 32, 1758585600, 1758592000 /* = 26834 * 65536 + 1024 */, 26835 * 65536}
	suites["inflorder"] = suite{gen: func(r *rand.Rand, n int, emit func(string)) {
		done := 0
		for done < n {
			emit("reset")
			emit("io.new")
			done += 2
			base := pick(r, bases)
			spread := pick(r, []int64{1, 3, 3, 8, 40})
			// packet ids: a run that may straddle the wrap
			next := pick(r, []int{1, 7, 300, 65530, 65533, 65535})
			live := []int{}
			now := base - spread/2
			if now < 0 {
				now = 0
			}
			for k, m := 0, 4+r.Intn(14); k < m; k++ {
				switch x := r.Intn(10); {
				case x < 5: // a new message, the clock moves on (or not)
					if r.Intn(3) > 0 {
						now += int64(r.Intn(int(spread)))
					}
					exp := int64(0)
					switch r.Intn(3) {
					case 0:
						exp = -1
					case 1:
						exp = now + 10
					}
					emit(fmt.Sprintf("io.set %d %d %d", next, now, exp))
					live = append(live, next)
					next++
					if next > 65535 {
						next = 1
					}
				case x < 6 && len(live) > 0: // overwrite (the deferred copy is released: expiry becomes positive)
					emit(fmt.Sprintf("io.set %d %d %d", pick(r, live), now, now+10))
				case x < 7 && len(live) > 0:
					j := r.Intn(len(live))
					emit(fmt.Sprintf("io.del %d", live[j]))
					live = append(live[:j], live[j+1:]...)
				case x < 8:
					emit("io.next")
				default:
					emit(fmt.Sprintf("io.getall %d", r.Intn(2)))
				}
				done++
			}
			emit("io.getall 0")
			emit("io.getall 1")
			emit("io.next")
			done += 3
		}
	}}
}
