package main

import (
	"fmt"
	"math/rand"
	"strings"
)

// generator of sequential broker histories (suite "broker"): a few clients, topics and filters;
// mixed MQTT 3.1.1 / 5 clients; every op kind; virtual-time ticks away from expiry boundaries.
func init() {
	hs := func(s string) string { return hx([]byte(s)) }
	genBroker := func(sched bool) func(r *rand.Rand, n int, emit func(string)) {
		return func(r *rand.Rand, n int, emit func(string)) {
			topics := []string{"a", "a/b", "a/b/c", "x", "$SYS/x", "x/y"}
			filters := []string{"a", "a/b", "a/#", "+/b", "#", "x/+", "a/+/c", "$share/g/a/b", "$share/g/a/#", "a/b#", "$SYS/#"}
			ids := []string{"c1", "c2", "c3"}
			for done := 0; done < n; {
				emit("reset")
				var caps []string
				if r.Intn(3) == 0 {
					caps = append(caps, fmt.Sprintf("maxqos=%d", r.Intn(3)))
				}
				if r.Intn(3) == 0 {
					caps = append(caps, fmt.Sprintf("recvmax=%d", 1+r.Intn(3)))
				}
				if r.Intn(4) == 0 {
					caps = append(caps, "retain=0")
				}
				if r.Intn(4) == 0 {
					caps = append(caps, fmt.Sprintf("sessexp=%d", pick(r, []int{0, 100, 1000})))
				}
				if r.Intn(4) == 0 {
					caps = append(caps, fmt.Sprintf("msgexp=%d", pick(r, []int{0, 100, 1000})))
				}
				if r.Intn(6) == 0 {
					caps = append(caps, fmt.Sprintf("maxclients=%d", 1+r.Intn(3)))
				}
				if r.Intn(6) == 0 {
					caps = append(caps, fmt.Sprintf("maxinflight=%d", 1+r.Intn(3)))
				}
				if r.Intn(8) == 0 {
					caps = append(caps, fmt.Sprintf("maxpid=%d", 2+r.Intn(4)))
				}
				if r.Intn(8) == 0 {
					caps = append(caps, pick(r, []string{"aliasmax=0", "aliasmax=0", "aliasmax=2", "aliasmax=5"}))
				}
				if r.Intn(10) == 0 {
					caps = append(caps, "obscure=1")
				}
				if r.Intn(12) == 0 {
					caps = append(caps, pick(r, []string{"auth=none", "auth=deny:c2", "minver=5"}))
				}
				emit(strings.TrimSpace("bk.new " + strings.Join(caps, " ")))
				for i, k := 0, r.Intn(3); i < k; i++ {
					emit(fmt.Sprintf("bk.acl %s %s %s", hs(pick(r, ids)), hs(pick(r, append(topics, filters...))), pick(r, []string{"r", "w"})))
				}
				if r.Intn(6) == 0 {
					emit(fmt.Sprintf("bk.pubhook %s %s", hs(pick(r, topics)), pick(r, []string{"reject", "ignore", "err"})))
				}
				next := 1
				open := map[int]byte{} // conn -> version
				connOf := map[string]int{}
				pid := map[int]int{}
				l := 10 + r.Intn(40)
				var held []int                   // connections whose handler is parked before its clean-up (sched variant)
				idOf := map[int]string{}         // conn -> client id
				heldVer := map[int]byte{}        // parked connecting handlers: conn -> version
				idHeld := func(id string) bool { // one parked connecting handler per client id
					for n := range heldVer {
						if idOf[n] == id {
							return true
						}
					}
					return false
				}
				forceID := ""
				connect := func() {
					id := pick(r, ids)
					if forceID != "" {
						id = forceID
						forceID = ""
					}
					ver := pick(r, []byte{4, 5, 5})
					var kv []string
					if ver == 5 {
						if r.Intn(2) == 0 {
							kv = append(kv, fmt.Sprintf("sei=%d", pick(r, []int{0, 10, 100, 5000})))
						}
						if r.Intn(2) == 0 {
							kv = append(kv, fmt.Sprintf("rm=%d", 1+r.Intn(3)))
						}
						if r.Intn(3) == 0 {
							kv = append(kv, fmt.Sprintf("tam=%d", pick(r, []int{0, 1, 2, 10})))
						}
					}
					if r.Intn(4) == 0 {
						kv = append(kv, fmt.Sprintf("will=%s:%s:%d:%d:%d", hs(pick(r, topics)), hs("w"+id), r.Intn(3), r.Intn(2), pick(r, []int{0, 0, 50})))
					}
					n := next
					next++
					if old, ok := connOf[id]; ok {
						delete(open, old)
					}
					idOf[n] = id
					if sched && !idHeld(id) && r.Intn(4) == 0 {
						// the connecting handler is parked inside attachClient (in the authentication hook, or
						// between Clients.Add and the CONNACK) while further ops run
						emit(strings.TrimSpace(fmt.Sprintf("bk.connhold %s %d %d %d %s %s", pick(r, []string{"auth", "added", "added"}), n, ver, r.Intn(3)/2, hs(id), strings.Join(kv, " "))))
						held = append(held, n)
						heldVer[n] = ver
						connOf[id] = n
						return
					}
					emit(strings.TrimSpace(fmt.Sprintf("bk.conn %d %d %d %s %s", n, ver, r.Intn(3)/2, hs(id), strings.Join(kv, " "))))
					open[n] = ver
					connOf[id] = n
				}
				release := func() {
					if len(held) > 0 {
						n := held[0]
						emit(fmt.Sprintf("bk.release %d", n))
						held = held[1:]
						if v, ok := heldVer[n]; ok { // a connecting handler: the connection is usable from now on
							delete(heldVer, n)
							if connOf[idOf[n]] == n {
								open[n] = v
							}
						}
					}
				}
				anyOpen := func() (int, bool) {
					var ks []int
					for k := range open {
						ks = append(ks, k)
					}
					if len(ks) == 0 {
						return 0, false
					}
					// deterministic order
					min := ks[0]
					for _, k := range ks {
						if k < min {
							min = k
						}
					}
					c := ks[0]
					// pick by index after sorting
					for i := 0; i < len(ks); i++ {
						for j := i + 1; j < len(ks); j++ {
							if ks[j] < ks[i] {
								ks[i], ks[j] = ks[j], ks[i]
							}
						}
					}
					c = ks[r.Intn(len(ks))]
					return c, true
				}
				connect()
				for i := 0; i < l; i++ {
					done++
					if len(held) > 0 && r.Intn(3) == 0 {
						release()
					}
					if sched && r.Intn(30) == 0 {
						// a CONNECT that violates the protocol: MQTT 3.x, zero-length client id, Clean Session 0
						// (must be refused; never yields a session)
						emit(fmt.Sprintf("bk.conn %d %d 0 -", next, pick(r, []int{3, 4, 4})))
						next++
						continue
					}
					c, ok := anyOpen()
					if !ok || r.Intn(9) == 0 {
						connect()
						continue
					}
					ver := open[c]
					switch k := r.Intn(32); {
					case k < 7:
						var fs []string
						for j, m := 0, 1+r.Intn(2); j < m; j++ {
							f := pick(r, filters)
							if ver == 5 {
								fs = append(fs, fmt.Sprintf("%s:%d:%d:%d:%d", hs(f), r.Intn(3), r.Intn(4)/3, r.Intn(2), r.Intn(3)))
							} else {
								fs = append(fs, fmt.Sprintf("%s:%d", hs(f), r.Intn(3)))
							}
						}
						si := ""
						if ver == 5 && r.Intn(2) == 0 {
							si = fmt.Sprintf(" si=%d", 1+r.Intn(5))
						}
						pid[c]++
						emit(fmt.Sprintf("bk.send %d SUBSCRIBE id=%d%s f=%s", c, 100+pid[c], si, strings.Join(fs, ",")))
					case k < 9:
						pid[c]++
						emit(fmt.Sprintf("bk.send %d UNSUBSCRIBE id=%d f=%s", c, 100+pid[c], hs(pick(r, filters))))
					case k < 18:
						q := r.Intn(3)
						id := 1 + r.Intn(4)
						extra := ""
						if ver == 5 && r.Intn(4) == 0 {
							extra += fmt.Sprintf(" me=%d", pick(r, []int{10, 500, 100000}))
						}
						if r.Intn(4) == 0 {
							extra += " r=1"
						}
						p := fmt.Sprintf("m%d", done)
						if r.Intn(10) == 0 {
							p = ""
						}
						if r.Intn(12) == 0 && q > 0 {
							extra += " d=1"
						}
						topic := pick(r, topics)
						if ver == 5 && r.Intn(5) == 0 { // inbound topic alias: binding, use (empty topic), rebinding, above the maximum
							extra += fmt.Sprintf(" ta=%d", pick(r, []int{1, 1, 2, 2, 3, 9}))
							if r.Intn(2) == 0 {
								topic = ""
							}
						}
						emit(fmt.Sprintf("bk.send %d PUBLISH q=%d id=%d t=%s p=%s%s", c, q, id, hs(topic), hs(p), extra))
					case k < 21:
						emit(fmt.Sprintf("bk.send %d PUBACK id=%d", c, 1+r.Intn(4)))
					case k < 23:
						rc := ""
						if ver == 5 && r.Intn(5) == 0 {
							rc = " rc=128"
						}
						emit(fmt.Sprintf("bk.send %d PUBREC id=%d%s", c, 1+r.Intn(4), rc))
					case k < 25:
						emit(fmt.Sprintf("bk.send %d PUBREL id=%d", c, 1+r.Intn(4)))
					case k < 27:
						emit(fmt.Sprintf("bk.send %d PUBCOMP id=%d", c, 1+r.Intn(4)))
					case k < 28:
						extra := ""
						if ver == 5 {
							switch r.Intn(4) {
							case 0:
								extra = " rc=4"
							case 1:
								extra = fmt.Sprintf(" rc=0 sei=%d", pick(r, []int{0, 20, 7000}))
							}
						}
						emit(fmt.Sprintf("bk.send %d DISCONNECT%s", c, extra))
						delete(open, c)
					case k < 29:
						if sched && r.Intn(3) > 0 {
							// the connection is lost, its handler is parked before the session clean-up; most of the
							// time the same client id reconnects before the clean-up runs
							emit(fmt.Sprintf("%s %d", pick(r, []string{"bk.drophold", "bk.drophold", "bk.dropholdearly"}), c))
							held = append(held, c)
							delete(open, c)
							if r.Intn(3) > 0 {
								forceID = idOf[c]
								connect()
							}
						} else {
							emit(fmt.Sprintf("bk.drop %d", c))
							delete(open, c)
						}
					case k < 30:
						emit(fmt.Sprintf("bk.tick %s %d", pick(r, []string{"clients", "retained", "inflight", "wills"}), pick(r, []int{5, 55, 300, 3000, 200000})))
					case k < 31:
						emit(fmt.Sprintf("bk.ipub %s %s %d %d", hs(pick(r, topics)), hs(fmt.Sprintf("i%d", done)), r.Intn(2), r.Intn(3)))
					default:
						if r.Intn(3) > 0 {
							emit(fmt.Sprintf("bk.isub %d %s", 1+r.Intn(2), hs(pick(r, filters))))
						} else {
							emit(fmt.Sprintf("bk.iunsub %d %s", 1+r.Intn(2), hs(pick(r, filters))))
						}
					}
					if r.Intn(6) == 0 {
						emit("bk.dump")
					}
				}
				for len(held) > 0 {
					release()
				}
				emit("bk.dump")
			}
		}
	}
	// ordered streams (C12): one publisher, one or two topics, a subscriber with a small Receive Maximum
	// that acknowledges in order, drops and resumes its session
	suites["brokerorder"] = suite{gen: func(r *rand.Rand, n int, emit func(string)) {
		for done := 0; done < n; {
			emit("reset")
			caps := ""
			if r.Intn(4) == 0 {
				caps = fmt.Sprintf(" recvmax=%d", 2+r.Intn(3))
			}
			emit("bk.new" + caps)
			topics := []string{"a/b", "x"}
			subVer := pick(r, []int{4, 5, 5, 5})
			subConn, next := 1, 3
			kv := ""
			if subVer == 5 {
				kv = " sei=1000"
				if r.Intn(5) > 0 {
					kv += fmt.Sprintf(" rm=%d", 1+r.Intn(3))
				}
			}
			if r.Intn(2) == 0 { // the subscriber carries a will: a normal DISCONNECT must never publish it (C16)
				kv += fmt.Sprintf(" will=%s:%s:%d:0:0", hs("x"), hs("wsub"), r.Intn(2))
			}
			emit(fmt.Sprintf("bk.conn 1 %d 0 %s%s", subVer, hs("sub"), kv))
			q := 1 + r.Intn(2)
			emit(fmt.Sprintf("bk.send 1 SUBSCRIBE id=100 f=%s:%d,%s:%d", hs("a/#"), q, hs("x"), q))
			emit(fmt.Sprintf("bk.conn 2 %d 1 %s", pick(r, []int{4, 5}), hs("pub")))
			ackNext := 1 // the broker hands out packet ids 1, 2, 3 … to the subscriber
			subOpen := true
			l := 12 + r.Intn(30)
			for i := 0; i < l; i++ {
				done++
				switch k := r.Intn(20); {
				case k < 10:
					emit(fmt.Sprintf("bk.send 2 PUBLISH q=%d id=%d t=%s p=%s", q, 1+i%5, hs(pick(r, topics)), hs(fmt.Sprintf("o%d", done))))
					if q == 2 {
						emit(fmt.Sprintf("bk.send 2 PUBREL id=%d", 1+i%5))
					}
				case k < 16:
					if subOpen {
						if r.Intn(6) == 0 {
							// the subscriber sends its acknowledgement and vanishes before the broker's answer arrives
							t := "PUBACK"
							if q == 2 {
								t = pick(r, []string{"PUBREC", "PUBREC", "PUBCOMP"})
							}
							emit(fmt.Sprintf("bk.sendcut %d %s id=%d", subConn, t, ackNext))
							subOpen = false
						} else if r.Intn(4) == 0 { // a blind acknowledgement (possibly of an id that is not in transit)
							if q == 1 {
								emit(fmt.Sprintf("bk.send %d PUBACK id=%d", subConn, ackNext))
							} else {
								emit(fmt.Sprintf("bk.send %d PUBREC id=%d", subConn, ackNext))
								emit(fmt.Sprintf("bk.send %d PUBCOMP id=%d", subConn, ackNext))
							}
						} else { // the oldest message this connection has really received
							emit(fmt.Sprintf("bk.ack %d", subConn))
							if q == 2 {
								emit(fmt.Sprintf("bk.ack %d", subConn))
							}
						}
						ackNext++
					}
				case k < 18:
					if subOpen {
						if r.Intn(3) == 0 {
							emit(fmt.Sprintf("bk.send %d DISCONNECT", subConn))
						} else {
							emit(fmt.Sprintf("bk.drop %d", subConn))
						}
						subOpen = false
					} else {
						subConn = next
						next++
						emit(fmt.Sprintf("bk.conn %d %d 0 %s%s", subConn, subVer, hs("sub"), kv))
						subOpen = true
					}
				case k < 19:
					if subOpen && r.Intn(2) == 0 { // takeover while connected
						subConn = next
						next++
						emit(fmt.Sprintf("bk.conn %d %d 0 %s%s", subConn, subVer, hs("sub"), kv))
					}
				default:
					emit("bk.dump")
				}
			}
			if !subOpen {
				emit(fmt.Sprintf("bk.conn %d %d 0 %s%s", next, subVer, hs("sub"), kv))
			}
			emit("bk.dump")
		}
	}}
	// authorisation on every route (C17): read/write denials on concrete topics, retained messages on
	// them, wildcard subscriptions that cover them, live publishes, inline publishes, wills on denied topics
	suites["brokeracl"] = suite{gen: func(r *rand.Rand, n int, emit func(string)) {
		topics := []string{"a", "a/b", "a/b/c", "x", "x/y"}
		filters := []string{"#", "a/#", "+/b", "a/+", "x/+", "a/b", "x", "$share/g/a/#"}
		ids := []string{"c1", "c2", "c3"}
		for done := 0; done < n; {
			emit("reset")
			caps := ""
			if r.Intn(5) == 0 {
				caps = " obscure=1"
			}
			if r.Intn(3) == 0 { // a small server Receive Maximum: refused publishes must not use it up
				caps += fmt.Sprintf(" recvmax=%d", 1+r.Intn(3))
			}
			emit("bk.new" + caps)
			for i, k := 0, 2+r.Intn(4); i < k; i++ {
				what := pick(r, topics)
				if r.Intn(4) == 0 {
					what = pick(r, filters)
				}
				emit(fmt.Sprintf("bk.acl %s %s %s", hs(pick(r, ids)), hs(what), pick(r, []string{"r", "r", "w"})))
			}
			if r.Intn(3) == 0 { // an OnPublish hook verdict on one topic (bare or wrapped sentinel, or a plain error)
				emit(fmt.Sprintf("bk.pubhook %s %s", hs(pick(r, topics)), pick(r, []string{"reject", "ignore", "err", "wreject", "wignore"})))
			}
			next := 1
			open := map[string]int{}
			ver := map[string]int{}
			conn := func(id string) {
				v := pick(r, []int{4, 5, 5})
				kv := ""
				if r.Intn(3) == 0 {
					kv = fmt.Sprintf(" will=%s:%s:%d:%d:0", hs(pick(r, topics)), hs("w"+id), r.Intn(2), r.Intn(2))
				}
				if v == 5 {
					kv += " sei=100"
				}
				emit(fmt.Sprintf("bk.conn %d %d %d %s%s", next, v, r.Intn(2), hs(id), kv))
				open[id] = next
				ver[id] = v
				next++
			}
			for _, id := range ids {
				conn(id)
			}
			pid := 10
			for i, l := 0, 12+r.Intn(25); i < l; i++ {
				done++
				id := pick(r, ids)
				c, ok := open[id]
				if !ok {
					conn(id)
					continue
				}
				switch k := r.Intn(20); {
				case k < 6:
					extra := ""
					if r.Intn(2) == 0 {
						extra = " r=1"
					}
					q := r.Intn(2)
					topic := pick(r, topics)
					if ver[id] == 5 && r.Intn(3) == 0 { // inbound alias: bound by a (possibly refused) publish, then used with an empty topic
						extra += fmt.Sprintf(" ta=%d", 1+r.Intn(2))
						if r.Intn(2) == 0 {
							topic = ""
						}
					}
					emit(fmt.Sprintf("bk.send %d PUBLISH q=%d id=%d t=%s p=%s%s", c, q, 1+r.Intn(3), hs(topic), hs(fmt.Sprintf("m%d", done)), extra))
				case k < 8:
					emit(fmt.Sprintf("bk.ipub %s %s %d %d", hs(pick(r, topics)), hs(fmt.Sprintf("i%d", done)), r.Intn(2), r.Intn(2)))
				case k < 14:
					pid++
					f := pick(r, filters)
					if ver[id] == 5 {
						emit(fmt.Sprintf("bk.send %d SUBSCRIBE id=%d f=%s:%d:0:0:0", c, pid, hs(f), r.Intn(2)))
					} else {
						emit(fmt.Sprintf("bk.send %d SUBSCRIBE id=%d f=%s:%d", c, pid, hs(f), r.Intn(2)))
					}
				case k < 15:
					pid++
					emit(fmt.Sprintf("bk.send %d UNSUBSCRIBE id=%d f=%s", c, pid, hs(pick(r, filters))))
				case k < 17:
					emit(fmt.Sprintf("bk.send %d PUBACK id=%d", c, 1+r.Intn(3)))
				case k < 19:
					emit(fmt.Sprintf("bk.drop %d", c))
					delete(open, id)
				default:
					emit("bk.dump")
				}
			}
			emit("bk.dump")
		}
	}}
	// message expiry (C25): server maximum 0/50/1000, publisher intervals 0/10/100/5000, retained messages and
	// messages queued for offline sessions, housekeeping ticks at chosen virtual times, late subscribers and
	// resumptions
	suites["brokerexpiry"] = suite{gen: func(r *rand.Rand, n int, emit func(string)) {
		topics := []string{"a", "a/b", "x"}
		for done := 0; done < n; {
			emit("reset")
			emit(fmt.Sprintf("bk.new msgexp=%d", pick(r, []int{0, 0, 50, 1000})))
			emit(fmt.Sprintf("bk.conn 1 5 1 %s", hs("pub")))
			// the persistent subscriber: MQTT 5 (sometimes with Receive Maximum 1: copies deferred by flow control)
			// or MQTT 3.1.1
			subArgs := pick(r, []string{"5 0 %s sei=100000", "5 0 %s sei=100000", "5 0 %s sei=100000 rm=1", "4 0 %s"})
			subArgs = fmt.Sprintf(subArgs, hs("sub"))
			emit(fmt.Sprintf("bk.conn 2 %s", subArgs))
			emit(fmt.Sprintf("bk.send 2 SUBSCRIBE id=9 f=%s:1", hs("a/#")))
			subConn, subOpen, next := 2, true, 3
			pid := 20
			for i, l := 0, 10+r.Intn(20); i < l; i++ {
				done++
				switch k := r.Intn(20); {
				case k < 8:
					me := pick(r, []int{0, 10, 10, 100, 5000})
					extra := ""
					if me > 0 {
						extra = fmt.Sprintf(" me=%d", me)
					}
					if r.Intn(2) == 0 {
						extra += " r=1"
					}
					q := r.Intn(2)
					emit(fmt.Sprintf("bk.send 1 PUBLISH q=%d id=%d t=%s p=%s%s", q, 1+r.Intn(3), hs(pick(r, topics)), hs(fmt.Sprintf("e%d", done)), extra))
				case k < 11:
					emit(fmt.Sprintf("bk.tick %s %d", pick(r, []string{"retained", "retained", "inflight"}), pick(r, []int{5, 30, 60, 200, 2000, 20000})))
				case k < 14:
					pid++
					c := next
					next++
					emit(fmt.Sprintf("bk.conn %d 5 1 %s", c, hs(fmt.Sprintf("late%d", c))))
					emit(fmt.Sprintf("bk.send %d SUBSCRIBE id=%d f=%s:1", c, pid, hs(pick(r, []string{"#", "a/#", "x", "+"}))))
				case k < 17:
					if subOpen {
						emit(fmt.Sprintf("bk.drop %d", subConn))
						subOpen = false
					} else {
						subConn = next
						next++
						emit(fmt.Sprintf("bk.conn %d %s", subConn, subArgs))
						subOpen = true
					}
				case k < 19:
					if subOpen && r.Intn(2) == 0 {
						emit(fmt.Sprintf("bk.ack %d", subConn))
					} else if subOpen {
						emit(fmt.Sprintf("bk.send %d PUBACK id=%d", subConn, 1+r.Intn(4)))
					}
				default:
					emit("bk.dump")
				}
			}
			emit("bk.dump")
		}
	}}
	// share groups (C06): three member clients, two groups over overlapping shared filters, plain subscriptions of the same
	// clients; members join, leave (UNSUBSCRIBE, DISCONNECT, connection loss, clean reconnect) and rejoin while a
	// publisher keeps publishing — the membership the broker selects from must be the current one
	suites["brokershare"] = suite{gen: func(r *rand.Rand, n int, emit func(string)) {
		topics := []string{"a/b", "a/c", "x"}
		shared := []string{"$share/g/a/b", "$share/g/a/#", "$share/h/a/+", "$share/g/x"}
		plain := []string{"a/b", "a/#", "#"}
		ids := []string{"m1", "m2", "m3"} // three members: the model resolves Go's map order among at most three candidates per group
		for done := 0; done < n; {
			emit("reset")
			emit("bk.new")
			emit(fmt.Sprintf("bk.conn 1 %d 1 %s", pick(r, []int{4, 5}), hs("pub")))
			next := 2
			open := map[string]int{}
			ver := map[string]int{}
			pid := 10
			conn := func(id string) {
				v := pick(r, []int{4, 5, 5})
				kv := ""
				clean := r.Intn(3) == 0
				if v == 5 && !clean {
					kv = " sei=1000"
				}
				cl := 0
				if clean {
					cl = 1
				}
				emit(fmt.Sprintf("bk.conn %d %d %d %s%s", next, v, cl, hs(id), kv))
				open[id], ver[id] = next, v
				next++
			}
			sub := func(id string, f string) {
				pid++
				opt := fmt.Sprintf("%s:%d", hs(f), r.Intn(2))
				if ver[id] == 5 {
					opt = fmt.Sprintf("%s:%d:0:0:0", hs(f), r.Intn(2))
				}
				si := ""
				if ver[id] == 5 && r.Intn(2) == 0 { // subscription identifiers: one per SUBSCRIBE, different ones on overlapping filters
					si = fmt.Sprintf(" si=%d", 1+r.Intn(4))
				}
				emit(fmt.Sprintf("bk.send %d SUBSCRIBE id=%d%s f=%s", open[id], pid, si, opt))
			}
			// every member joins the first group filter, so the group is populated from the start
			for _, id := range ids {
				conn(id)
				sub(id, shared[r.Intn(2)])
			}
			for i, l := 0, 15+r.Intn(30); i < l; i++ {
				done++
				id := pick(r, ids)
				c, ok := open[id]
				switch k := r.Intn(20); {
				case k < 9:
					emit(fmt.Sprintf("bk.send 1 PUBLISH q=%d id=%d t=%s p=%s", r.Intn(2), 1+r.Intn(3), hs(pick(r, topics)), hs(fmt.Sprintf("s%d", done))))
				case !ok:
					conn(id)
				case k < 11:
					sub(id, pick(r, shared))
				case k < 13:
					sub(id, pick(r, plain))
				case k < 16:
					pid++
					emit(fmt.Sprintf("bk.send %d UNSUBSCRIBE id=%d f=%s", c, pid, hs(pick(r, shared))))
				case k < 17:
					emit(fmt.Sprintf("bk.send %d DISCONNECT", c))
					delete(open, id)
				case k < 18:
					emit(fmt.Sprintf("bk.drop %d", c))
					delete(open, id)
				case k < 19:
					emit(fmt.Sprintf("bk.ack %d", c))
				default:
					emit("bk.dump")
				}
			}
			emit("bk.dump")
		}
	}}
	suites["broker"] = suite{gen: genBroker(false)}
	// the same histories with connection losses whose handler is held before its session clean-up
	// while other ops (typically a reconnect of the same client id) run: schedules of the old
	// connection's teardown against the new connection's establishment
	suites["brokersched"] = suite{gen: genBroker(true)}
}
