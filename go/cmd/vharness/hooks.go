package main

// Suite "hooks" (C19): the REAL dispatcher mqtt.Hooks (hooks.go) under stacks of scripted hooks.
//
//	hk.call <Method> <stack> <kind> <payload> <x1> <x2>    one dispatcher method on a fresh Hooks
//	hk.provides <stack> <Method,Method,…>                  Hooks.Provides(b...)
//	hk.stop <stack>                                        Hooks.Stop(): order of the hooks' Stop calls
//	hk.read <stack> <payload,payload,…>                    the real Client.Read over a stream of PUBLISH packets
//	hk.const                                               the values of the 38 method constants
//
// <stack> is "-" or scripted hooks joined by ","; one scripted hook is
//
//	<mask>:<b>:<e>:<m>:<c>:<t>:<k>:<v>:<i>
//
// mask  hex bit mask of the methods it Provides (bit n = constant n of hooks.go)
// c,t   condition on the bytes x it is called with: 0 always, 1 last byte of x == t, 2 len(x) odd, 3 never
// b     its yes/no answer is  cond(x) && b  (OnACLCheck:  cond(topic) && (b != write))
// e     the error it returns when cond(x): 0 nil, 1 ErrRejectPacket, 2 CodeSuccessIgnore, 3 / 4 those two wrapped,
//       5 another error; wrapped and other errors carry the tag k
// m     what it returns for x: 0 x, 1 x+[k], 2 [k], 3 x without its last byte — also when it returns an error
// v     the bytes its Stored* methods answer with (one record per byte); their error is e under cond([])
// i     the error class of Init (0 = nil): a hook whose Init fails is not registered
//
// Every hook is added with the real Hooks.Add; its index is its position in Hooks.GetAll().  The answer is
//
//	L<len> A<add errors> R<returned value> T<n> <idx>/<Method>/<arguments>/<result> …
//
// with every call any scripted hook received, in the order they happened.

import (
	"errors"
	"fmt"
	"io"
	"log/slog"
	"math/big"
	"math/rand"
	"net"
	"sort"
	"strconv"
	"strings"
	"time"

	mqtt "github.com/mochi-mqtt/server/v2"
	"github.com/mochi-mqtt/server/v2/hooks/storage"
	"github.com/mochi-mqtt/server/v2/packets"
	"github.com/mochi-mqtt/server/v2/system"
)

var hkMethods = []struct {
	name string
	code byte
}{
	{"SetOptions", mqtt.SetOptions}, {"OnSysInfoTick", mqtt.OnSysInfoTick}, {"OnStarted", mqtt.OnStarted},
	{"OnStopped", mqtt.OnStopped}, {"OnConnectAuthenticate", mqtt.OnConnectAuthenticate}, {"OnACLCheck", mqtt.OnACLCheck},
	{"OnConnect", mqtt.OnConnect}, {"OnSessionEstablish", mqtt.OnSessionEstablish}, {"OnSessionEstablished", mqtt.OnSessionEstablished},
	{"OnDisconnect", mqtt.OnDisconnect}, {"OnAuthPacket", mqtt.OnAuthPacket}, {"OnPacketRead", mqtt.OnPacketRead},
	{"OnPacketEncode", mqtt.OnPacketEncode}, {"OnPacketSent", mqtt.OnPacketSent}, {"OnPacketProcessed", mqtt.OnPacketProcessed},
	{"OnSubscribe", mqtt.OnSubscribe}, {"OnSubscribed", mqtt.OnSubscribed}, {"OnSelectSubscribers", mqtt.OnSelectSubscribers},
	{"OnUnsubscribe", mqtt.OnUnsubscribe}, {"OnUnsubscribed", mqtt.OnUnsubscribed}, {"OnPublish", mqtt.OnPublish},
	{"OnPublished", mqtt.OnPublished}, {"OnPublishDropped", mqtt.OnPublishDropped}, {"OnRetainMessage", mqtt.OnRetainMessage},
	{"OnRetainPublished", mqtt.OnRetainPublished}, {"OnQosPublish", mqtt.OnQosPublish}, {"OnQosComplete", mqtt.OnQosComplete},
	{"OnQosDropped", mqtt.OnQosDropped}, {"OnPacketIDExhausted", mqtt.OnPacketIDExhausted}, {"OnWill", mqtt.OnWill},
	{"OnWillSent", mqtt.OnWillSent}, {"OnClientExpired", mqtt.OnClientExpired}, {"OnRetainedExpired", mqtt.OnRetainedExpired},
	{"StoredClients", mqtt.StoredClients}, {"StoredSubscriptions", mqtt.StoredSubscriptions},
	{"StoredInflightMessages", mqtt.StoredInflightMessages}, {"StoredRetainedMessages", mqtt.StoredRetainedMessages},
	{"StoredSysInfo", mqtt.StoredSysInfo},
}

func hkCode(name string) byte {
	for _, m := range hkMethods {
		if m.name == name {
			return m.code
		}
	}
	panic("unknown hook method " + name)
}

// ---- scripted errors

type hkWrap struct {
	tag   byte
	inner error
}

func (e *hkWrap) Error() string { return fmt.Sprintf("scripted hook %d: %v", e.tag, e.inner) }
func (e *hkWrap) Unwrap() error { return e.inner }

type hkOther struct{ tag byte }

func (e *hkOther) Error() string { return fmt.Sprintf("scripted hook %d failed", e.tag) }

func hkMkErr(class int, tag byte) error {
	switch class {
	case 1:
		return packets.ErrRejectPacket
	case 2:
		return packets.CodeSuccessIgnore
	case 3:
		return &hkWrap{tag, packets.ErrRejectPacket}
	case 4:
		return &hkWrap{tag, packets.CodeSuccessIgnore}
	case 5:
		return &hkOther{tag}
	}
	return nil
}

// hkErrStr renders an error by identity (what the dispatcher handed on), not by errors.Is
func hkErrStr(err error) string {
	if err == nil {
		return "-"
	}
	switch e := err.(type) {
	case *hkWrap:
		if e.inner == error(packets.ErrRejectPacket) {
			return fmt.Sprintf("wrej%d", e.tag)
		}
		return fmt.Sprintf("wign%d", e.tag)
	case *hkOther:
		return fmt.Sprintf("oth%d", e.tag)
	case packets.Code:
		if e == packets.ErrRejectPacket {
			return "rej"
		}
		if e == packets.CodeSuccessIgnore {
			return "ign"
		}
		return fmt.Sprintf("code%d", e.Code)
	}
	if strings.HasPrefix(err.Error(), "failed initialising ") {
		if in := errors.Unwrap(err); in != nil {
			return "init(" + hkErrStr(in) + ")"
		}
	}
	return "unknown(" + strings.ReplaceAll(err.Error(), " ", "_") + ")"
}

// ---- the scripted hook

type hkTrace struct {
	calls []string
	cl    *mqtt.Client
	sys   *system.Info
	stops []int
}

type hkHook struct {
	mqtt.HookBase
	tr      *hkTrace
	idx     int
	mask    *big.Int
	b       bool
	e, m, c int
	t, k    byte
	v       []byte
	i       int
}

func hkParseHook(s string, tr *hkTrace) *hkHook {
	f := strings.Split(s, ":")
	if len(f) != 9 {
		panic("bad hook spec " + s)
	}
	h := &hkHook{tr: tr, idx: -1}
	h.mask, _ = new(big.Int).SetString(f[0], 16)
	h.b = f[1] == "1"
	h.e, h.m, h.c = atoi(f[2]), atoi(f[3]), atoi(f[4])
	h.t, h.k = unhx(f[5])[0], unhx(f[6])[0]
	h.v = unhx(f[7])
	h.i = atoi(f[8])
	return h
}

func (h *hkHook) ID() string           { return fmt.Sprintf("scripted-%d", h.k) }
func (h *hkHook) Provides(b byte) bool { return h.mask.Bit(int(b)) == 1 }
func (h *hkHook) Init(config any) error {
	return hkMkErr(h.i, h.k)
}
func (h *hkHook) Stop() error {
	h.tr.stops = append(h.tr.stops, h.idx)
	return hkMkErr(h.e, h.k)
}

func (h *hkHook) cond(x []byte) bool {
	switch h.c {
	case 0:
		return true
	case 1:
		return len(x) > 0 && x[len(x)-1] == h.t
	case 2:
		return len(x)%2 == 1
	}
	return false
}

func (h *hkHook) mod(x []byte) []byte {
	switch h.m {
	case 1:
		return append(append([]byte{}, x...), h.k)
	case 2:
		return []byte{h.k}
	case 3:
		if len(x) == 0 {
			return []byte{}
		}
		return append([]byte{}, x[:len(x)-1]...)
	}
	return append([]byte{}, x...)
}

func (h *hkHook) err(x []byte) error {
	if h.cond(x) {
		return hkMkErr(h.e, h.k)
	}
	return nil
}

func hkPk(kind int, payload []byte) packets.Packet {
	return packets.Packet{FixedHeader: packets.FixedHeader{Type: byte(kind)}, Payload: payload}
}

func hkPkStr(pk packets.Packet) string {
	return fmt.Sprintf("%d:%s", pk.FixedHeader.Type, hx(pk.Payload))
}

// the threaded bytes of a *Subscribers: the one key of Subscriptions
func hkSubs(b []byte) *mqtt.Subscribers {
	return &mqtt.Subscribers{Subscriptions: map[string]packets.Subscription{string(b): {}}}
}

func hkSubsBytes(s *mqtt.Subscribers) []byte {
	if s == nil {
		return []byte("nil!")
	}
	var ks []string
	for k := range s.Subscriptions {
		ks = append(ks, k)
	}
	sort.Strings(ks)
	return []byte(strings.Join(ks, "|"))
}

func (h *hkHook) rec(cl *mqtt.Client, method, arg, out string) {
	if cl != nil && cl != h.tr.cl {
		arg = "!otherclient!" + arg
	}
	h.tr.calls = append(h.tr.calls, fmt.Sprintf("%d/%s/%s/%s", h.idx, method, arg, out))
}

func (h *hkHook) pkMod(pk packets.Packet) packets.Packet {
	npk := pk
	npk.Payload = h.mod(pk.Payload)
	return npk
}

// notify-only methods
func (h *hkHook) OnStarted() { h.rec(nil, "OnStarted", "u", "u") }
func (h *hkHook) OnStopped() { h.rec(nil, "OnStopped", "u", "u") }
func (h *hkHook) OnSysInfoTick(s *system.Info) {
	a := "u"
	if s != h.tr.sys {
		a = "!othersys!"
	}
	h.rec(nil, "OnSysInfoTick", a, "u")
}
func (h *hkHook) OnSessionEstablish(cl *mqtt.Client, pk packets.Packet) {
	h.rec(cl, "OnSessionEstablish", "p:"+hkPkStr(pk), "u")
}
func (h *hkHook) OnSessionEstablished(cl *mqtt.Client, pk packets.Packet) {
	h.rec(cl, "OnSessionEstablished", "p:"+hkPkStr(pk), "u")
}
func (h *hkHook) OnDisconnect(cl *mqtt.Client, err error, expire bool) {
	h.rec(cl, "OnDisconnect", "d:"+hkErrStr(err)+":"+b2s(expire), "u")
}
func (h *hkHook) OnPacketProcessed(cl *mqtt.Client, pk packets.Packet, err error) {
	h.rec(cl, "OnPacketProcessed", "pe:"+hkPkStr(pk)+":"+hkErrStr(err), "u")
}
func (h *hkHook) OnPacketSent(cl *mqtt.Client, pk packets.Packet, b []byte) {
	h.rec(cl, "OnPacketSent", "pb:"+hkPkStr(pk)+":"+hx(b), "u")
}
func (h *hkHook) OnSubscribed(cl *mqtt.Client, pk packets.Packet, reasonCodes []byte) {
	h.rec(cl, "OnSubscribed", "pb:"+hkPkStr(pk)+":"+hx(reasonCodes), "u")
}
func (h *hkHook) OnUnsubscribed(cl *mqtt.Client, pk packets.Packet) {
	h.rec(cl, "OnUnsubscribed", "p:"+hkPkStr(pk), "u")
}
func (h *hkHook) OnPublished(cl *mqtt.Client, pk packets.Packet) {
	h.rec(cl, "OnPublished", "p:"+hkPkStr(pk), "u")
}
func (h *hkHook) OnPublishDropped(cl *mqtt.Client, pk packets.Packet) {
	h.rec(cl, "OnPublishDropped", "p:"+hkPkStr(pk), "u")
}
func (h *hkHook) OnRetainMessage(cl *mqtt.Client, pk packets.Packet, r int64) {
	h.rec(cl, "OnRetainMessage", fmt.Sprintf("pn:%s:%d", hkPkStr(pk), r), "u")
}
func (h *hkHook) OnRetainPublished(cl *mqtt.Client, pk packets.Packet) {
	h.rec(cl, "OnRetainPublished", "p:"+hkPkStr(pk), "u")
}
func (h *hkHook) OnQosPublish(cl *mqtt.Client, pk packets.Packet, sent int64, resends int) {
	h.rec(cl, "OnQosPublish", fmt.Sprintf("pn:%s:%d,%d", hkPkStr(pk), sent, resends), "u")
}
func (h *hkHook) OnQosComplete(cl *mqtt.Client, pk packets.Packet) {
	h.rec(cl, "OnQosComplete", "p:"+hkPkStr(pk), "u")
}
func (h *hkHook) OnQosDropped(cl *mqtt.Client, pk packets.Packet) {
	h.rec(cl, "OnQosDropped", "p:"+hkPkStr(pk), "u")
}
func (h *hkHook) OnPacketIDExhausted(cl *mqtt.Client, pk packets.Packet) {
	h.rec(cl, "OnPacketIDExhausted", "p:"+hkPkStr(pk), "u")
}
func (h *hkHook) OnWillSent(cl *mqtt.Client, pk packets.Packet) {
	h.rec(cl, "OnWillSent", "p:"+hkPkStr(pk), "u")
}
func (h *hkHook) OnClientExpired(cl *mqtt.Client) { h.rec(cl, "OnClientExpired", "u", "u") }
func (h *hkHook) OnRetainedExpired(filter string) {
	h.rec(nil, "OnRetainedExpired", "s:"+hx([]byte(filter)), "u")
}

// methods with a result
func (h *hkHook) OnConnectAuthenticate(cl *mqtt.Client, pk packets.Packet) bool {
	r := h.cond(pk.Payload) && h.b
	h.rec(cl, "OnConnectAuthenticate", "p:"+hkPkStr(pk), "b:"+b2s(r))
	return r
}
func (h *hkHook) OnACLCheck(cl *mqtt.Client, topic string, write bool) bool {
	r := h.cond([]byte(topic)) && (h.b != write)
	h.rec(cl, "OnACLCheck", "a:"+hx([]byte(topic))+":"+b2s(write), "b:"+b2s(r))
	return r
}
func (h *hkHook) OnConnect(cl *mqtt.Client, pk packets.Packet) error {
	err := h.err(pk.Payload)
	h.rec(cl, "OnConnect", "p:"+hkPkStr(pk), "e:"+hkErrStr(err))
	return err
}
func (h *hkHook) pkErr(cl *mqtt.Client, method string, pk packets.Packet) (packets.Packet, error) {
	npk, err := h.pkMod(pk), h.err(pk.Payload)
	h.rec(cl, method, "p:"+hkPkStr(pk), "pe:"+hkPkStr(npk)+":"+hkErrStr(err))
	return npk, err
}
func (h *hkHook) pkPure(cl *mqtt.Client, method string, pk packets.Packet) packets.Packet {
	npk := h.pkMod(pk)
	h.rec(cl, method, "p:"+hkPkStr(pk), "p:"+hkPkStr(npk))
	return npk
}
func (h *hkHook) OnAuthPacket(cl *mqtt.Client, pk packets.Packet) (packets.Packet, error) {
	return h.pkErr(cl, "OnAuthPacket", pk)
}
func (h *hkHook) OnPacketRead(cl *mqtt.Client, pk packets.Packet) (packets.Packet, error) {
	return h.pkErr(cl, "OnPacketRead", pk)
}
func (h *hkHook) OnPublish(cl *mqtt.Client, pk packets.Packet) (packets.Packet, error) {
	return h.pkErr(cl, "OnPublish", pk)
}
func (h *hkHook) OnPacketEncode(cl *mqtt.Client, pk packets.Packet) packets.Packet {
	return h.pkPure(cl, "OnPacketEncode", pk)
}
func (h *hkHook) OnSubscribe(cl *mqtt.Client, pk packets.Packet) packets.Packet {
	return h.pkPure(cl, "OnSubscribe", pk)
}
func (h *hkHook) OnUnsubscribe(cl *mqtt.Client, pk packets.Packet) packets.Packet {
	return h.pkPure(cl, "OnUnsubscribe", pk)
}
func (h *hkHook) OnSelectSubscribers(subs *mqtt.Subscribers, pk packets.Packet) *mqtt.Subscribers {
	in := hkSubsBytes(subs)
	out := h.mod(in)
	h.rec(nil, "OnSelectSubscribers", "ss:"+hx(in)+":"+hkPkStr(pk), "ss:"+hx(out))
	return hkSubs(out)
}
func (h *hkHook) OnWill(cl *mqtt.Client, will mqtt.Will) (mqtt.Will, error) {
	nw := will
	nw.Payload = h.mod(will.Payload)
	err := h.err(will.Payload)
	h.rec(cl, "OnWill", fmt.Sprintf("p:%d:%s", will.Qos, hx(will.Payload)), fmt.Sprintf("pe:%d:%s:%s", nw.Qos, hx(nw.Payload), hkErrStr(err)))
	return nw, err
}
func (h *hkHook) stored(method string) ([]byte, error) {
	err := h.err(nil)
	h.rec(nil, method, "u", "st:"+hx(h.v)+":"+hkErrStr(err))
	return h.v, err
}
func (h *hkHook) StoredClients() (v []storage.Client, err error) {
	b, err := h.stored("StoredClients")
	for _, x := range b {
		v = append(v, storage.Client{ID: string([]byte{x})})
	}
	return v, err
}
func (h *hkHook) StoredSubscriptions() (v []storage.Subscription, err error) {
	b, err := h.stored("StoredSubscriptions")
	for _, x := range b {
		v = append(v, storage.Subscription{ID: string([]byte{x})})
	}
	return v, err
}
func (h *hkHook) StoredInflightMessages() (v []storage.Message, err error) {
	b, err := h.stored("StoredInflightMessages")
	for _, x := range b {
		v = append(v, storage.Message{ID: string([]byte{x})})
	}
	return v, err
}
func (h *hkHook) StoredRetainedMessages() (v []storage.Message, err error) {
	b, err := h.stored("StoredRetainedMessages")
	for _, x := range b {
		v = append(v, storage.Message{ID: string([]byte{x})})
	}
	return v, err
}
func (h *hkHook) StoredSysInfo() (v storage.SystemInfo, err error) {
	b, err := h.stored("StoredSysInfo")
	v.Version = string(b)
	return v, err
}

// ---- building a real Hooks

var hkLog = slog.New(slog.NewTextHandler(io.Discard, nil))

// hkBuild adds the scripted hooks with the real Hooks.Add and numbers them by their place in GetAll()
func hkBuild(stack string) (*mqtt.Hooks, *hkTrace, string) {
	tr := &hkTrace{cl: &mqtt.Client{ID: "hk"}, sys: &system.Info{}}
	hooks := &mqtt.Hooks{Log: hkLog}
	var adds []string
	if stack != "-" {
		for _, s := range strings.Split(stack, ",") {
			adds = append(adds, hkErrStr(hooks.Add(hkParseHook(s, tr), nil)))
		}
	}
	for i, h := range hooks.GetAll() {
		h.(*hkHook).idx = i
	}
	a := "-"
	if len(adds) > 0 {
		a = strings.Join(adds, ",")
	}
	return hooks, tr, fmt.Sprintf("L%d A%s", hooks.Len(), a)
}

func hkFinish(head, ret string, tr *hkTrace) string {
	out := fmt.Sprintf("%s R%s T%d", head, ret, len(tr.calls))
	if len(tr.calls) > 0 {
		out += " " + strings.Join(tr.calls, " ")
	}
	return out
}

func hkIDs[T any](v []T, id func(T) string) string {
	var b []byte
	for _, x := range v {
		b = append(b, id(x)...)
	}
	return hx(b)
}

func hkCall(method, stack string, kind int, payload, x1 []byte, x2 int) string {
	hooks, tr, head := hkBuild(stack)
	cl := tr.cl
	pk := hkPk(kind, payload)
	ret := "u"
	pe := func(p packets.Packet, err error) string { return "pe:" + hkPkStr(p) + ":" + hkErrStr(err) }
	switch method {
	case "OnSysInfoTick":
		hooks.OnSysInfoTick(tr.sys)
	case "OnStarted":
		hooks.OnStarted()
	case "OnStopped":
		hooks.OnStopped()
	case "OnSessionEstablish":
		hooks.OnSessionEstablish(cl, pk)
	case "OnSessionEstablished":
		hooks.OnSessionEstablished(cl, pk)
	case "OnDisconnect":
		hooks.OnDisconnect(cl, hkMkErr(x2%6, byte(x2/16)), x2/8%2 == 1)
	case "OnPacketProcessed":
		hooks.OnPacketProcessed(cl, pk, hkMkErr(x2%6, byte(x2/16)))
	case "OnPacketSent":
		hooks.OnPacketSent(cl, pk, x1)
	case "OnSubscribed":
		hooks.OnSubscribed(cl, pk, x1)
	case "OnUnsubscribed":
		hooks.OnUnsubscribed(cl, pk)
	case "OnPublished":
		hooks.OnPublished(cl, pk)
	case "OnPublishDropped":
		hooks.OnPublishDropped(cl, pk)
	case "OnRetainMessage":
		hooks.OnRetainMessage(cl, pk, int64(x2))
	case "OnRetainPublished":
		hooks.OnRetainPublished(cl, pk)
	case "OnQosPublish":
		hooks.OnQosPublish(cl, pk, int64(x2), len(x1))
	case "OnQosComplete":
		hooks.OnQosComplete(cl, pk)
	case "OnQosDropped":
		hooks.OnQosDropped(cl, pk)
	case "OnPacketIDExhausted":
		hooks.OnPacketIDExhausted(cl, pk)
	case "OnWillSent":
		hooks.OnWillSent(cl, pk)
	case "OnClientExpired":
		hooks.OnClientExpired(cl)
	case "OnRetainedExpired":
		hooks.OnRetainedExpired(string(payload))
	case "OnConnect":
		ret = "e:" + hkErrStr(hooks.OnConnect(cl, pk))
	case "OnConnectAuthenticate":
		ret = "b:" + b2s(hooks.OnConnectAuthenticate(cl, pk))
	case "OnACLCheck":
		ret = "b:" + b2s(hooks.OnACLCheck(cl, string(payload), x2%2 == 1))
	case "OnPacketRead":
		ret = pe(hooks.OnPacketRead(cl, pk))
	case "OnAuthPacket":
		ret = pe(hooks.OnAuthPacket(cl, pk))
	case "OnPublish":
		ret = pe(hooks.OnPublish(cl, pk))
	case "OnPacketEncode":
		ret = "p:" + hkPkStr(hooks.OnPacketEncode(cl, pk))
	case "OnSubscribe":
		ret = "p:" + hkPkStr(hooks.OnSubscribe(cl, pk))
	case "OnUnsubscribe":
		ret = "p:" + hkPkStr(hooks.OnUnsubscribe(cl, pk))
	case "OnSelectSubscribers":
		ret = "ss:" + hx(hkSubsBytes(hooks.OnSelectSubscribers(hkSubs(x1), pk)))
	case "OnWill":
		w := hooks.OnWill(cl, mqtt.Will{Payload: payload, Qos: byte(kind)})
		ret = fmt.Sprintf("p:%d:%s", w.Qos, hx(w.Payload))
	case "StoredClients":
		v, err := hooks.StoredClients()
		ret = "st:" + hkIDs(v, func(x storage.Client) string { return x.ID }) + ":" + hkErrStr(err)
	case "StoredSubscriptions":
		v, err := hooks.StoredSubscriptions()
		ret = "st:" + hkIDs(v, func(x storage.Subscription) string { return x.ID }) + ":" + hkErrStr(err)
	case "StoredInflightMessages":
		v, err := hooks.StoredInflightMessages()
		ret = "st:" + hkIDs(v, func(x storage.Message) string { return x.ID }) + ":" + hkErrStr(err)
	case "StoredRetainedMessages":
		v, err := hooks.StoredRetainedMessages()
		ret = "st:" + hkIDs(v, func(x storage.Message) string { return x.ID }) + ":" + hkErrStr(err)
	case "StoredSysInfo":
		v, err := hooks.StoredSysInfo()
		ret = "st:" + hx([]byte(v.Version)) + ":" + hkErrStr(err)
	default:
		return "err unknown-method"
	}
	return hkFinish(head, ret, tr)
}

// hkRead: a real server with the scripted hooks, a real client over a pipe, the real Client.Read on a
// stream of MQTT 3.1.1 PUBLISH packets (QoS 0, topic "t"); the handler records what it is given
func hkRead(stack string, payloads [][]byte) string {
	tr := &hkTrace{sys: &system.Info{}}
	s := mqtt.New(&mqtt.Options{Logger: hkLog})
	var adds []string
	var hs []*hkHook
	if stack != "-" {
		for _, sp := range strings.Split(stack, ",") {
			h := hkParseHook(sp, tr)
			err := s.AddHook(h, nil)
			adds = append(adds, hkErrStr(err))
			if err == nil {
				hs = append(hs, h)
			}
		}
	}
	for i, h := range hs {
		h.idx = i
	}
	var bs []byte
	for _, p := range payloads {
		bs = append(bs, 0x30, byte(3+len(p)), 0, 1, 't')
		bs = append(bs, p...)
	}
	c1, c2 := net.Pipe()
	cl := s.NewClient(c2, "t", "hk", false)
	cl.Properties.ProtocolVersion = 4
	tr.cl = cl
	wdone := make(chan struct{})
	go func() {
		defer close(wdone)
		c1.SetWriteDeadline(time.Now().Add(20 * time.Second))
		if len(bs) > 0 {
			c1.Write(bs)
		}
		c1.Close()
	}()
	var handled []string
	err := cl.Read(func(_ *mqtt.Client, pk packets.Packet) error {
		handled = append(handled, hx(pk.Payload))
		return nil
	})
	c2.Close()
	<-wdone
	// only the OnPacketRead calls are of interest here
	var calls []string
	for _, c := range tr.calls {
		if strings.Contains(c, "/OnPacketRead/") {
			calls = append(calls, c)
		}
	}
	tr.calls = calls
	e := "eof"
	if err != nil && !errors.Is(err, io.EOF) && !errors.Is(err, io.ErrClosedPipe) && !errors.Is(err, io.ErrUnexpectedEOF) {
		e = hkErrStr(err)
	}
	a, hd := "-", "-"
	if len(adds) > 0 {
		a = strings.Join(adds, ",")
	}
	if len(handled) > 0 {
		hd = strings.Join(handled, ",")
	}
	return hkFinish(fmt.Sprintf("L%d A%s", len(hs), a), fmt.Sprintf("rd:%d:%s:%s", len(handled), hd, e), tr)
}

func init() {
	runners["hk.call"] = func(_ *state, a []string) string {
		return hkCall(a[0], a[1], atoi(a[2]), unhx(a[3]), unhx(a[4]), atoi(a[5]))
	}
	runners["hk.provides"] = func(_ *state, a []string) string {
		hooks, _, head := hkBuild(a[0])
		var bs []byte
		if a[1] != "-" {
			for _, n := range strings.Split(a[1], ",") {
				bs = append(bs, hkCode(n))
			}
		}
		return head + " Rb:" + b2s(hooks.Provides(bs...))
	}
	runners["hk.stop"] = func(_ *state, a []string) string {
		hooks, tr, head := hkBuild(a[0])
		done := make(chan struct{})
		go func() { hooks.Stop(); close(done) }()
		select {
		case <-done:
		case <-time.After(20 * time.Second):
			return head + " Rstop-hangs"
		}
		var xs []string
		for _, i := range tr.stops {
			xs = append(xs, strconv.Itoa(i))
		}
		r := "-"
		if len(xs) > 0 {
			r = strings.Join(xs, ",")
		}
		return head + " Rstops:" + r
	}
	runners["hk.read"] = func(_ *state, a []string) string {
		var ps [][]byte
		if a[1] != "-" {
			for _, p := range strings.Split(a[1], ",") {
				ps = append(ps, unhx(p))
			}
		}
		return hkRead(a[0], ps)
	}
	runners["hk.const"] = func(_ *state, _ []string) string {
		var xs []string
		for _, m := range hkMethods {
			xs = append(xs, fmt.Sprintf("%s=%d", m.name, m.code))
		}
		return strings.Join(xs, ",")
	}

	dispatchers := []string{}
	for _, m := range hkMethods[1:] {
		dispatchers = append(dispatchers, m.name)
	}
	// the dispatchers with a result are drawn more often
	weighty := []string{"OnPublish", "OnPublish", "OnPacketRead", "OnPacketRead", "OnWill", "OnAuthPacket", "OnPacketEncode",
		"OnSubscribe", "OnUnsubscribe", "OnSelectSubscribers", "OnConnect", "OnConnectAuthenticate", "OnConnectAuthenticate",
		"OnACLCheck", "OnACLCheck", "StoredClients", "StoredSubscriptions", "StoredInflightMessages", "StoredRetainedMessages", "StoredSysInfo"}
	genStack := func(r *rand.Rand, method string, first []byte) string {
		n := pick(r, []int{0, 1, 1, 2, 2, 2, 3, 3, 3, 4, 4})
		if n == 0 {
			return "-"
		}
		var hs []string
		prevK := byte(0)
		if len(first) > 0 {
			prevK = first[len(first)-1]
		}
		full := new(big.Int).Sub(new(big.Int).Lsh(big.NewInt(1), 38), big.NewInt(1))
		for i := 0; i < n; i++ {
			mask := new(big.Int)
			switch r.Intn(4) {
			case 0:
				mask.Set(full)
			default:
				for b := 0; b < 38; b++ {
					if r.Intn(2) == 0 {
						mask.SetBit(mask, b, 1)
					}
				}
			}
			if method != "" {
				bit := uint(0)
				if r.Intn(5) > 0 {
					bit = 1
				}
				mask.SetBit(mask, int(hkCode(method)), bit)
			}
			k := byte(0x41 + i)
			if r.Intn(4) == 0 {
				k = byte(0x41 + r.Intn(6))
			}
			e := 0
			if r.Intn(100) < 45 {
				e = 1 + r.Intn(5)
			}
			m := pick(r, []int{1, 1, 1, 1, 0, 2, 3})
			c := pick(r, []int{0, 0, 0, 0, 0, 1, 1, 2, 2, 3})
			t := prevK
			if r.Intn(3) == 0 {
				t = byte(0x41 + r.Intn(6))
			}
			var v []byte
			for j, l := 0, pick(r, []int{0, 0, 1, 2, 3}); j < l; j++ {
				v = append(v, byte(0x61+r.Intn(6)))
			}
			ini := 0
			if r.Intn(10) == 0 {
				ini = 1 + r.Intn(5)
			}
			ms := mask.Text(16)
			hs = append(hs, fmt.Sprintf("%s:%d:%d:%d:%d:%02x:%02x:%s:%d", ms, r.Intn(2), e, m, c, t, k, hx(v), ini))
			prevK = k
		}
		return strings.Join(hs, ",")
	}
	genBytes := func(r *rand.Rand, max int) []byte {
		var b []byte
		for j, l := 0, r.Intn(max+1); j < l; j++ {
			b = append(b, byte(0x30+r.Intn(10)))
		}
		return b
	}
	suites["hooks"] = suite{gen: func(r *rand.Rand, n int, emit func(string)) {
		emit("reset") // the ops are stateless; the reset only separates them from another suite's history in a combined run
		emit("hk.const")
		for done := 0; done < n; done++ {
			switch x := r.Intn(40); {
			case x == 0:
				var ms []string
				for j, l := 0, r.Intn(4); j < l; j++ {
					ms = append(ms, pick(r, hkMethods).name)
				}
				m := "-"
				if len(ms) > 0 {
					m = strings.Join(ms, ",")
				}
				emit("hk.provides " + genStack(r, "", nil) + " " + m)
			case x == 1:
				emit("hk.stop " + genStack(r, "", nil))
			case x <= 4:
				var ps []string
				var first []byte
				for j, l := 0, r.Intn(5); j < l; j++ {
					p := genBytes(r, 3)
					if j == 0 {
						first = p
					}
					ps = append(ps, hx(p))
				}
				p := "-"
				if len(ps) > 0 {
					p = strings.Join(ps, ",")
				}
				emit("hk.read " + genStack(r, "OnPacketRead", first) + " " + p)
			default:
				method := pick(r, dispatchers)
				if r.Intn(3) > 0 {
					method = pick(r, weighty)
				}
				payload := genBytes(r, 3)
				x1 := genBytes(r, 3)
				first := payload
				if method == "OnSelectSubscribers" {
					first = x1
				}
				emit(fmt.Sprintf("hk.call %s %s %d %s %s %d", method, genStack(r, method, first), 1+r.Intn(15), hx(payload), hx(x1), r.Intn(96)))
			}
		}
	}}
}
