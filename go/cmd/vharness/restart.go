package main

// Restart suite (M5, C20/C21): a REAL mqtt.Server with one real storage hook (badger | pebble | bolt | redis),
// driven through net.Pipe clients and the inline API by the broker suite's helpers.
//
//	sr.new <backend> [caps as bk.new]   server + storage hook + allow-all auth + inline client + a mock listener "t", Serve()
//	sr.conn / sr.send / sr.drop / sr.tick / sr.ipub / sr.isub / sr.iunsub / sr.acl   = bk.* with the client-visible output discarded
//	sr.view                             canonical view of the LIVE state
//	sr.restart                          Server.Close(); view BEFORE; mqtt.New + AddHook (engine reopened) + Serve (readStore); view AFTER.
//	                                    output: "<before> ## <store> ## <after>" where <store> is what the Stored* methods
//	                                    returned to readStore, in the order returned (the restart model's input)
//	sr.crashsweep                       (C21) see crash.go
//
// View (sections separated by a space, records by ';', fields by ','; every record starts with its id):
//	SESS[id=<client>,pv,clean,sei,seiflag,user,rm,tam,mps,rpi,rpif,rri,w.flag,w.topic,w.payload,w.qos,w.retain,w.delay]
//	SUBS[id=<client>~<filter>~<plain|shared|inline>,q,nl,rap,rh,ident]           the topic index
//	CSUB[id=<client>~<filter>,q,nl,rap,rh,ident]                                 the sessions' own subscription lists
//	RET[id=<topic>,payload,qos,retain,dup,created,expiry,origin,pv,p.*]          retained messages ($SYS/… excluded)
//	IFL[id=<client>~<packet id>,type,qos,dup,retain,topic,payload,created,expiry,origin,pv,p.*]
// Wall-clock values are rendered as classes: created = 0 | now | <n>; expiry = 0 | -1 | c+<expiry-created> | <n>.

import (
	"fmt"
	"io"
	"log/slog"
	"os"
	"regexp"
	"runtime"
	"sort"
	"strconv"
	"strings"
	"time"

	"github.com/alicebob/miniredis/v2"
	mqtt "github.com/mochi-mqtt/server/v2"
	"github.com/mochi-mqtt/server/v2/hooks/storage"
	"github.com/mochi-mqtt/server/v2/listeners"
	"github.com/mochi-mqtt/server/v2/packets"
)

type srState struct {
	backend string
	caps    map[string]string
	dir     string
	mini    *miniredis.Miniredis
	b       *bkState
	hook    *recHook
	closed  bool
	log     *crashLog // storage events and acknowledgements of the history (C21), nil for the sweep's own brokers
}

// recHook wraps the real storage hook and records what readStore obtained from it, in the order obtained.
type recHook struct {
	stHook
	clients  []storage.Client
	subs     []storage.Subscription
	retained []storage.Message
	inflight []storage.Message
	errs     []string
	log      *crashLog
}

func (h *recHook) note(what string, err error) {
	if err != nil {
		h.errs = append(h.errs, what+":"+errClass(err))
	}
}
func (h *recHook) StoredClients() ([]storage.Client, error) {
	v, err := h.stHook.StoredClients()
	h.clients = v
	h.note("clients", err)
	return v, err
}
func (h *recHook) StoredSubscriptions() ([]storage.Subscription, error) {
	v, err := h.stHook.StoredSubscriptions()
	h.subs = v
	h.note("subs", err)
	return v, err
}
func (h *recHook) StoredRetainedMessages() ([]storage.Message, error) {
	v, err := h.stHook.StoredRetainedMessages()
	h.retained = v
	h.note("retained", err)
	return v, err
}
func (h *recHook) StoredInflightMessages() ([]storage.Message, error) {
	v, err := h.stHook.StoredInflightMessages()
	h.inflight = v
	h.note("inflight", err)
	return v, err
}

var reTimes = regexp.MustCompile(`(created|sent)=(\d+)`)

// rendering: what readStore was given, in that order (wall-clock values as classes; system info omitted).
func (h *recHook) rendering(now int64) string {
	var c, s, r, i []string
	for _, x := range h.clients {
		c = append(c, renderStoredClient(x))
	}
	for _, x := range h.subs {
		s = append(s, renderStoredSub(x))
	}
	for _, x := range h.retained {
		r = append(r, renderStoredMsg(x))
	}
	for _, x := range h.inflight {
		i = append(i, renderStoredMsg(x))
	}
	e := "-"
	if len(h.errs) > 0 {
		e = strings.Join(h.errs, "/")
	}
	out := fmt.Sprintf("C[%s] S[%s] R[%s] I[%s] Y[-] E[%s]", strings.Join(c, ";"), strings.Join(s, ";"), strings.Join(r, ";"), strings.Join(i, ";"), e)
	return reTimes.ReplaceAllStringFunc(out, func(m string) string {
		kv := strings.SplitN(m, "=", 2)
		return kv[0] + "=" + timeClass(int64(atoi64(kv[1])), now)
	})
}

func atoi64(s string) int64 { v, _ := strconv.ParseInt(s, 10, 64); return v }

func srOf(st *state) *srState {
	if x, ok := st.m["sr"]; ok {
		return x.(*srState)
	}
	return nil
}

func (r *srState) redisAddr() string {
	if r.mini != nil {
		return r.mini.Addr()
	}
	return ""
}

// srServer builds a server like bk.new does, adds the verification hook and a storage hook on the state's
// directory, a mock listener "t" (so that Close disconnects the clients of that listener) and serves.
func (r *srState) srServer() (*bkState, *recHook, error) {
	m := r.caps
	caps := mqtt.NewDefaultServerCapabilities()
	caps.MaximumClients = int64(kvInt(m, "maxclients", 1000000))
	caps.MaximumSessionExpiryInterval = uint32(kvInt(m, "sessexp", 4294967295))
	caps.MaximumMessageExpiryInterval = int64(kvInt(m, "msgexp", 86400))
	caps.ReceiveMaximum = uint16(kvInt(m, "recvmax", 1024))
	caps.MaximumInflight = uint16(kvInt(m, "maxinflight", 8192))
	caps.TopicAliasMaximum = uint16(kvInt(m, "aliasmax", 65535))
	caps.MaximumQos = byte(kvInt(m, "maxqos", 2))
	caps.RetainAvailable = byte(kvInt(m, "retain", 1))
	caps.MinimumProtocolVersion = byte(kvInt(m, "minver", 3))
	caps.MaximumClientWritesPending = int32(kvInt(m, "pending", 8192))
	opts := &mqtt.Options{Capabilities: caps, InlineClient: true, Logger: slog.New(slog.NewTextHandler(io.Discard, nil)),
		SysTopicResendInterval: 3600}
	s := mqtt.New(opts)
	b := &bkState{s: s, conns: map[int]*bkConn{}, aclDeny: map[string]bool{}, pubHook: map[string]string{}, auth: "allow",
		t0: time.Now().Unix(), takeovers: map[string]chan struct{}{}}
	mqtt.VerifYield = b.yield
	if err := s.AddHook(&bkHook{st: b}, nil); err != nil {
		return nil, nil, err
	}
	inner, cfg := newStorageHook(r.backend, r.dir, r.redisAddr())
	if inner == nil {
		return nil, nil, fmt.Errorf("unknown backend %s", r.backend)
	}
	h := &recHook{stHook: inner, log: r.log}
	h.SetOpts(quietLog, nil)
	if err := s.AddHook(h, cfg); err != nil {
		return nil, nil, err
	}
	if r.log != nil {
		if err := s.AddHook(&ackHook{log: r.log}, nil); err != nil {
			return nil, nil, err
		}
	}
	if err := s.AddListener(listeners.NewMockListener("t", "mock")); err != nil {
		return nil, nil, err
	}
	if err := s.Serve(); err != nil {
		return nil, nil, err
	}
	return b, h, nil
}

func (r *srState) closeServer() {
	if r.b != nil && !r.closed {
		// Server.Close disconnects the clients of listener "t" and waits for their handlers. A client that the
		// live broker lost from its session table (F20k) is not disconnected; its handler would only end with
		// its keepalive, so after 2 s the client ends are closed to let Close return.
		done := make(chan struct{})
		go func() {
			r.b.s.Close()
			close(done)
		}()
		select {
		case <-done:
		case <-time.After(2 * time.Second):
			for _, c := range r.b.conns {
				c.c.Close()
			}
			<-done
		}
		for _, c := range r.b.conns {
			c.c.Close()
		}
		r.closed = true
	}
}

func (r *srState) destroy() {
	func() { // whatever happens while closing, the directory and the redis server are removed
		defer func() { recover() }()
		r.closeServer()
	}()
	func() {
		defer func() { recover() }()
		if r.mini != nil {
			r.mini.Close()
			r.mini = nil
		}
	}()
	if r.dir != "" {
		os.RemoveAll(r.dir)
		r.dir = ""
	}
}

// ------------------------------------------------------------------------------------------------
// canonical view of the live state

var (
	reSubEntry   = regexp.MustCompile(`([0-9a-f]+|-)=\(f=([0-9a-f]+|-),q=(\d+),nl=(\d),rap=(\d),rh=(\d+),id=(\d+)\)`)
	reGroupEntry = regexp.MustCompile(`([0-9a-f]+|-)=\[([^\]]*)\]`)
	reInlEntry   = regexp.MustCompile(`(\d+)=\(f=([0-9a-f]+|-),q=(\d+),nl=(\d),rap=(\d),rh=(\d+),id=(\d+)\)`)
)

func subFields(s packets.Subscription) string {
	return fmt.Sprintf("q=%d,nl=%d,rap=%d,rh=%d,ident=%d", s.Qos, bi(s.NoLocal), bi(s.RetainAsPublished), s.RetainHandling, s.Identifier)
}

// trieSubs flattens VerifTrieDump into one record per (client, filter, kind).
func trieSubs(dump string) []string {
	if i := strings.LastIndex(dump, " RET["); i >= 0 {
		dump = dump[:i]
	} else if strings.HasPrefix(dump, "RET[") {
		dump = ""
	}
	var out []string
	for _, part := range strings.Fields(dump) {
		segs := strings.Split(part, "|")
		if len(segs) < 5 {
			continue
		}
		for _, m := range reSubEntry.FindAllStringSubmatch(segs[1], -1) {
			out = append(out, fmt.Sprintf("id=%s~%s~plain,q=%s,nl=%s,rap=%s,rh=%s,ident=%s", m[1], m[2], m[3], m[4], m[5], m[6], m[7]))
		}
		for _, g := range reGroupEntry.FindAllStringSubmatch(segs[2], -1) {
			for _, m := range reSubEntry.FindAllStringSubmatch(g[2], -1) {
				out = append(out, fmt.Sprintf("id=%s~%s~shared,q=%s,nl=%s,rap=%s,rh=%s,ident=%s", m[1], m[2], m[3], m[4], m[5], m[6], m[7]))
			}
		}
		for _, m := range reInlEntry.FindAllStringSubmatch(segs[3], -1) {
			out = append(out, fmt.Sprintf("id=%s~%s~inline,q=%s,nl=%s,rap=%s,rh=%s,ident=%s", "i"+m[1], m[2], m[3], m[4], m[5], m[6], m[7]))
		}
	}
	return out
}

func timeClass(x, now int64) string {
	switch {
	case x == 0:
		return "0"
	case x > now-3600 && x < now+3600:
		return "now"
	}
	return fmt.Sprint(x)
}

func expiryClass(exp, created, now int64) string {
	switch {
	case exp == 0:
		return "0"
	case exp < 0:
		return "-1"
	case created > 0 && exp >= created:
		return fmt.Sprintf("c+%d", exp-created)
	}
	return fmt.Sprint(exp)
}

func packetFields(pk packets.Packet, now int64) string {
	p := pk.Properties
	return fmt.Sprintf("type=%d,qos=%d,dup=%d,retain=%d,topic=%s,payload=%s,created=%s,expiry=%s,origin=%s,pv=%d,"+
		"p.corr=%s,p.subids=%s,p.user=%s,p.ctype=%s,p.resp=%s,p.expiry=%d,p.alias=%d,p.pf=%d,p.pfflag=%d",
		pk.FixedHeader.Type, pk.FixedHeader.Qos, bi(pk.FixedHeader.Dup), bi(pk.FixedHeader.Retain), hs(pk.TopicName), hx(pk.Payload),
		timeClass(pk.Created, now), expiryClass(pk.Expiry, pk.Created, now), hs(pk.Origin), pk.ProtocolVersion,
		hx(p.CorrelationData), fmtInts(p.SubscriptionIdentifier), renderUserProps(p.User), hs(p.ContentType), hs(p.ResponseTopic),
		p.MessageExpiryInterval, p.TopicAlias, p.PayloadFormat, bi(p.PayloadFormatFlag))
}

// brokerView renders the sessions, subscriptions, retained and in-flight messages of a server.
func brokerView(s *mqtt.Server) string {
	now := time.Now().Unix()
	var sess, csub, ifl, ret []string
	for id, cl := range s.Clients.GetAll() {
		if cl.Net.Inline {
			continue
		}
		p, w := cl.Properties.Props, cl.Properties.Will
		sess = append(sess, fmt.Sprintf("id=%s,pv=%d,clean=%d,sei=%d,seiflag=%d,user=%s,rm=%d,tam=%d,mps=%d,rpi=%d,rpif=%d,rri=%d,"+
			"w.flag=%d,w.topic=%s,w.payload=%s,w.qos=%d,w.retain=%d,w.delay=%d",
			hs(id), cl.Properties.ProtocolVersion, bi(cl.Properties.Clean), p.SessionExpiryInterval, bi(p.SessionExpiryIntervalFlag),
			hx(cl.Properties.Username), p.ReceiveMaximum, p.TopicAliasMaximum, p.MaximumPacketSize, p.RequestProblemInfo,
			bi(p.RequestProblemInfoFlag), p.RequestResponseInfo, w.Flag, hs(w.TopicName), hx(w.Payload), w.Qos, bi(w.Retain), w.WillDelayInterval))
		for f, sub := range cl.State.Subscriptions.GetAll() {
			csub = append(csub, fmt.Sprintf("id=%s~%s,%s", hs(id), hs(f), subFields(sub)))
		}
		for _, pk := range cl.State.Inflight.GetAll(false) {
			ifl = append(ifl, fmt.Sprintf("id=%s~%d,%s", hs(id), pk.PacketID, packetFields(pk, now)))
		}
	}
	for _, cl := range s.Clients.GetAll() {
		if cl.Net.Inline { // the inline client's own lists (restored subscriptions land here)
			for f, sub := range cl.State.Subscriptions.GetAll() {
				csub = append(csub, fmt.Sprintf("id=%s~%s,%s", hs(cl.ID), hs(f), subFields(sub)))
			}
			for _, pk := range cl.State.Inflight.GetAll(false) {
				ifl = append(ifl, fmt.Sprintf("id=%s~%d,%s", hs(cl.ID), pk.PacketID, packetFields(pk, now)))
			}
		}
	}
	for t, pk := range s.Topics.Retained.GetAll() {
		if strings.HasPrefix(t, "$SYS/") {
			continue
		}
		ret = append(ret, fmt.Sprintf("id=%s,%s", hs(t), packetFields(pk, now)))
	}
	subs := trieSubs(s.Topics.VerifTrieDump())
	return fmt.Sprintf("SESS[%s] SUBS[%s] CSUB[%s] RET[%s] IFL[%s]", sortedJoin(sess), sortedJoin(subs), sortedJoin(csub), sortedJoin(ret), sortedJoin(ifl))
}

// quiet maps the output of a bk.* runner to "-" unless it reports a harness problem.
func quiet(out string) string {
	if strings.HasPrefix(out, "timeout") || out == "panic" {
		return out
	}
	return "-"
}

func init() {
	resetHooks = append(resetHooks, func(st *state) {
		if r := srOf(st); r != nil {
			r.destroy()
			delete(st.m, "sr")
			delete(st.m, "bk")
		}
	})
	runners["sr.new"] = func(st *state, a []string) string {
		runtime.GOMAXPROCS(1)
		if old := srOf(st); old != nil {
			old.destroy()
		}
		dir, err := os.MkdirTemp("/var/tmp", "vharness-sr-")
		if err != nil {
			return "err " + errClass(err)
		}
		r := &srState{backend: a[0], caps: kvs(a[1:]), dir: dir, log: &crashLog{ids: map[string]bool{}}}
		st.m["sr"] = r
		defer func() {
			if p := recover(); p != nil {
				r.destroy()
				delete(st.m, "sr")
				delete(st.m, "bk")
				panic(p)
			}
		}()
		fail := func(msg string) string {
			r.destroy()
			delete(st.m, "sr")
			delete(st.m, "bk")
			return msg
		}
		if r.backend == "redis" {
			if r.mini, err = miniredis.Run(); err != nil {
				return fail("err miniredis")
			}
		}
		b, h, err := r.srServer()
		if err != nil {
			return fail("err " + errClass(err))
		}
		r.b, r.hook = b, h
		st.m["bk"] = b
		r.afterOp()
		return "-"
	}
	for _, op := range []string{"conn", "send", "drop", "tick", "ipub", "isub", "iunsub", "acl"} {
		op := op
		runners["sr."+op] = func(st *state, a []string) string {
			r := srOf(st)
			if r == nil {
				return "err no-server"
			}
			out := quiet(runners["bk."+op](st, a))
			r.afterOp()
			return out
		}
	}
	runners["sr.view"] = func(st *state, a []string) string {
		r := srOf(st)
		if r == nil {
			return "err no-server"
		}
		return brokerView(r.b.s)
	}
	runners["sr.restart"] = func(st *state, a []string) string {
		r := srOf(st)
		if r == nil {
			return "err no-server"
		}
		r.closeServer()
		before := brokerView(r.b.s)
		b, h, err := r.srServer()
		if err != nil {
			return "err " + errClass(err)
		}
		r.b, r.hook, r.closed = b, h, false
		st.m["bk"] = b
		r.afterOp()
		return before + " ## " + h.rendering(time.Now().Unix()) + " ## " + brokerView(b.s)
	}
	_ = sort.Strings
}
