package main

// "churn" — the open search scenario of C33: nothing is parked; several connections subscribe and unsubscribe the
// same shared and plain filters, connect and disconnect, while a publisher keeps publishing to topics those filters
// match (QoS 0 and 1, retained and not) and a goroutine plays the event loop's housekeeping. Any DATA RACE the
// detector reports whose two stacks are not those of a recorded finding is a violation (bin/check compares the
// frames with the function pairs of the recorded scenarios).

import (
	"fmt"
	"sync"
	"time"

	mqtt "github.com/mochi-mqtt/server/v2"
	"github.com/mochi-mqtt/server/v2/packets"
)

func init() {
	scenarios["churn"] = scenario{"-", "any/any", [2]string{"-", "-"}, runChurn}
}

func subPacket(id uint16, filter string, qos byte) packets.Packet {
	return packets.Packet{FixedHeader: packets.FixedHeader{Type: packets.Subscribe, Qos: 1}, ProtocolVersion: 5, PacketID: id,
		Filters: packets.Subscriptions{{Filter: filter, Qos: qos}}}
}

func unsubPacket(id uint16, filter string) packets.Packet {
	return packets.Packet{FixedHeader: packets.FixedHeader{Type: packets.Unsubscribe, Qos: 1}, ProtocolVersion: 5, PacketID: id,
		Filters: packets.Subscriptions{{Filter: filter}}}
}

func pubPacket(topic string, payload string, qos byte, retain bool, id uint16) packets.Packet {
	return packets.Packet{FixedHeader: packets.FixedHeader{Type: packets.Publish, Qos: qos, Retain: retain}, ProtocolVersion: 5,
		TopicName: topic, Payload: []byte(payload), PacketID: id}
}

func runChurn() error {
	s, err := newServer(&hook{})
	if err != nil {
		return err
	}
	// (the process ends with the scenario: no Close, which would wait for connections nobody serves any more)
	filters := []string{"$share/workers/demo/jobs", "$share/workers/demo/#", "demo/jobs", "demo/+", "$share/audit/demo/jobs"}
	topics := []string{"demo/jobs", "demo/other"}
	anchor, err := connect(s, "anchor", 5, true, 0, false, 0)
	if err != nil {
		return err
	}
	anchor.drain()
	for i, f := range filters[:3] {
		if err := anchor.send(subPacket(uint16(10+i), f, 1), (*packets.Packet).SubscribeEncode); err != nil {
			return err
		}
	}
	stop := make(chan struct{})
	var wg sync.WaitGroup
	errs := make(chan error, 16)
	// churning members: subscribe / unsubscribe the same filters, reconnect now and then
	for c := 0; c < 3; c++ {
		wg.Add(1)
		go func(c int) {
			defer wg.Done()
			id := fmt.Sprintf("m%d", c)
			k, err := connect(s, id, 5, c%2 == 0, 30, c == 1, 0)
			if err != nil {
				errs <- err
				return
			}
			k.drain()
			pid := uint16(1)
			for i := 0; ; i++ {
				select {
				case <-stop:
					return
				default:
				}
				f := filters[(i+c)%len(filters)]
				pid++
				if i%2 == 0 {
					err = k.send(subPacket(pid, f, byte(i%2)), (*packets.Packet).SubscribeEncode)
				} else {
					err = k.send(unsubPacket(pid, f), (*packets.Packet).UnsubscribeEncode)
				}
				if err != nil {
					errs <- err
					return
				}
				if i%37 == 36 { // drop and come back (a persistent session for the odd ones)
					k.c.Close()
					select {
					case <-k.done:
					case <-time.After(2 * time.Second):
					}
					if k, err = connect(s, id, 5, c%2 == 0, 30, c == 1, 0); err != nil {
						errs <- err
						return
					}
					k.drain()
				}
				time.Sleep(200 * time.Microsecond)
			}
		}(c)
	}
	// the publisher (a connection) and the inline API
	wg.Add(1)
	go func() {
		defer wg.Done()
		k, err := connect(s, "producer", 5, true, 0, false, 0)
		if err != nil {
			errs <- err
			return
		}
		k.drain()
		for i := 0; ; i++ {
			select {
			case <-stop:
				return
			default:
			}
			q := byte(i % 2)
			if err := k.send(pubPacket(topics[i%2], fmt.Sprintf("p%d", i), q, i%5 == 0, uint16(1+i%100)), (*packets.Packet).PublishEncode); err != nil {
				errs <- err
				return
			}
			if i%7 == 0 {
				_ = s.Publish(topics[i%2], []byte("inline"), i%3 == 0, 0)
			}
			time.Sleep(150 * time.Microsecond)
		}
	}()
	// the event loop's housekeeping
	wg.Add(1)
	go func() {
		defer wg.Done()
		for {
			select {
			case <-stop:
				return
			default:
			}
			now := time.Now().Unix()
			s.VerifClearExpiredClients(now)
			s.VerifSendDelayedLWT(now)
			time.Sleep(2 * time.Millisecond)
		}
	}()
	time.Sleep(1500 * time.Millisecond)
	close(stop)
	fin := make(chan struct{})
	go func() { wg.Wait(); close(fin) }()
	select {
	case <-fin:
	case <-time.After(15 * time.Second): // a writer blocked on a connection nobody reads any more: the scenario has done its work
	}
	select {
	case err := <-errs:
		return err
	default:
	}
	_ = mqtt.ErrListenerIDExists
	return nil
}
