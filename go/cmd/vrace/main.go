// vrace — the search step of C33: concurrent scenarios that drive exactly two roles on one object of the REAL
// broker, to be run under Go's race detector:
//
//	CGO_ENABLED=1 go build -race -tags verif -o bin/vrace ./cmd/vrace
//	bin/vrace <scenario>          (retainpath | sessionexpiry | will | list)
//
// The race runtime prints `WARNING: DATA RACE` with the two stacks on stderr and makes the process exit
// with status 66; bin/check turns that report into the replay (kind "schedule") of the pair that
// `vextract -racereport` named. A scenario only *adds* synchronisation (parking a goroutine in a hook or at
// a `verif` yield point uses channels), so it can hide a race but never invent one.
//
// Connections are real TCP loopback connections handed to Server.EstablishConnection (the function every
// listener calls); the event loop's housekeeping is called through the `verif` wrappers
// (VerifSendDelayedLWT, VerifClearExpiredClients) — the same functions eventLoop calls on its tickers — from a
// goroutine that plays the event loop, so that the scenario does not depend on one-second tickers.
package main

import (
	"bytes"
	"fmt"
	"io"
	"log/slog"
	"net"
	"os"
	"sort"
	"strings"
	"sync"
	"sync/atomic"
	"time"

	mqtt "github.com/mochi-mqtt/server/v2"
	"github.com/mochi-mqtt/server/v2/packets"
)

// scenario -> the C33 signatures it replays, the role pair, and the two functions whose stacks must appear
// in one report
type scenario struct {
	sigs  string
	roles string
	need  [2]string
	run   func() error
}

const sigRetain = "F33-mqtt.particle.retainPath"

var scenarios = map[string]scenario{
	"retainpath":                   {sigRetain, "handlerOther/handlerOther", [2]string{"RetainMessage", "scanMessages"}, func() error { return runRetainPath("handler", "handler") }},
	"retainpath-eventloop-handler": {sigRetain, "handlerOther/eventLoop", [2]string{"RetainMessage", "scanMessages"}, func() error { return runRetainPath("eventloop", "handler") }},
	"retainpath-inline-handler":    {sigRetain, "handlerOther/inlineAPI", [2]string{"RetainMessage", "scanMessages"}, func() error { return runRetainPath("inline", "handler") }},
	"retainpath-eventloop-inline":  {sigRetain, "eventLoop/inlineAPI", [2]string{"RetainMessage", "scanMessages"}, func() error { return runRetainPath("eventloop", "inline") }},
	"retainpath-inline-inline":     {sigRetain, "inlineAPI/inlineAPI", [2]string{"RetainMessage", "scanMessages"}, func() error { return runRetainPath("inline", "inline") }},
	"sessionexpiry": {"F33-mqtt.Client.Properties.Props.SessionExpiryInterval,F33-mqtt.Client.Properties.Props.SessionExpiryIntervalFlag",
		"handler/eventLoop", [2]string{"processDisconnect", "clearExpiredClients"}, runSessionExpiry},
	"will": {"F33-mqtt.Client.Properties.Will", "handler/eventLoop", [2]string{"attachClient", "sendDelayedLWT"}, runWill},
}

func main() {
	if len(os.Args) < 2 || os.Args[1] == "list" {
		names := []string{}
		for n := range scenarios {
			names = append(names, n)
		}
		sort.Strings(names)
		for _, n := range names {
			s := scenarios[n]
			fmt.Printf("%s\t%s\t%s\t%s,%s\n", n, s.sigs, s.roles, s.need[0], s.need[1])
		}
		return
	}
	s, ok := scenarios[os.Args[1]]
	if !ok {
		fmt.Fprintln(os.Stderr, "vrace: unknown scenario", os.Args[1])
		os.Exit(2)
	}
	done := make(chan error, 1)
	go func() { done <- s.run() }()
	select {
	case err := <-done:
		if err != nil {
			fmt.Fprintln(os.Stderr, "vrace: scenario did not run to its end:", err)
			os.Exit(3)
		}
	case <-time.After(60 * time.Second):
		fmt.Fprintln(os.Stderr, "vrace: scenario timed out")
		os.Exit(3)
	}
	fmt.Println("vrace: scenario", os.Args[1], "completed")
}

// ---------------------------------------------------------------------------------------------
// hook: allows everything; parks the calling goroutine where a scenario asks for it

type gate struct {
	armed  atomic.Bool
	parked chan struct{}
	open   chan struct{}
}

func newGate() *gate { return &gate{parked: make(chan struct{}, 16), open: make(chan struct{})} }
func (g *gate) pass() {
	if g.armed.CompareAndSwap(true, false) {
		g.parked <- struct{}{}
		<-g.open
	}
}
func (g *gate) arm() { g.armed.Store(true) }
func (g *gate) waitParked() error {
	select {
	case <-g.parked:
		return nil
	case <-time.After(20 * time.Second):
		return fmt.Errorf("nobody arrived at the gate")
	}
}
func (g *gate) release() { close(g.open) }

type hook struct {
	mqtt.HookBase
	onPacketRead    func(cl *mqtt.Client, pk packets.Packet)
	onACLCheck      func(cl *mqtt.Client, topic string, write bool)
	onRetainMessage func(cl *mqtt.Client, pk packets.Packet)
}

func (h *hook) ID() string { return "vrace" }
func (h *hook) Provides(b byte) bool {
	return bytes.Contains([]byte{mqtt.OnConnectAuthenticate, mqtt.OnACLCheck, mqtt.OnPacketRead, mqtt.OnRetainMessage}, []byte{b})
}
func (h *hook) OnConnectAuthenticate(cl *mqtt.Client, pk packets.Packet) bool { return true }
func (h *hook) OnACLCheck(cl *mqtt.Client, topic string, write bool) bool {
	if h.onACLCheck != nil {
		h.onACLCheck(cl, topic, write)
	}
	return true
}
func (h *hook) OnPacketRead(cl *mqtt.Client, pk packets.Packet) (packets.Packet, error) {
	if h.onPacketRead != nil {
		h.onPacketRead(cl, pk)
	}
	return pk, nil
}
func (h *hook) OnRetainMessage(cl *mqtt.Client, pk packets.Packet, r int64) {
	if h.onRetainMessage != nil {
		h.onRetainMessage(cl, pk)
	}
}

func newServer(h *hook) (*mqtt.Server, error) {
	s := mqtt.New(&mqtt.Options{InlineClient: true, Logger: slog.New(slog.NewTextHandler(io.Discard, &slog.HandlerOptions{Level: slog.LevelError}))})
	if err := s.AddHook(h, nil); err != nil {
		return nil, err
	}
	return s, nil
}

// ---------------------------------------------------------------------------------------------
// client side: TCP loopback connection whose server end is handed to EstablishConnection

type conn struct {
	c    net.Conn
	done chan struct{} // closed when the broker's handler for this connection has returned
}

var lnOnce sync.Once
var ln net.Listener

func dial(s *mqtt.Server) (*conn, error) {
	var err error
	lnOnce.Do(func() { ln, err = net.Listen("tcp", "127.0.0.1:0") })
	if err != nil || ln == nil {
		return nil, fmt.Errorf("listen: %v", err)
	}
	type acc struct {
		c   net.Conn
		err error
	}
	ch := make(chan acc, 1)
	go func() {
		c, err := ln.Accept()
		ch <- acc{c, err}
	}()
	cc, err := net.Dial("tcp", ln.Addr().String())
	if err != nil {
		return nil, err
	}
	a := <-ch
	if a.err != nil {
		return nil, a.err
	}
	k := &conn{c: cc, done: make(chan struct{})}
	go func() {
		_ = s.EstablishConnection("t1", a.c)
		close(k.done)
	}()
	return k, nil
}

func (k *conn) send(pk packets.Packet, enc func(*packets.Packet, *bytes.Buffer) error) error {
	buf := new(bytes.Buffer)
	if err := enc(&pk, buf); err != nil {
		return err
	}
	_ = k.c.SetWriteDeadline(time.Now().Add(5 * time.Second))
	_, err := k.c.Write(buf.Bytes())
	return err
}

// readPacket reads one MQTT packet (type byte, remaining length, body) and returns its type.
func (k *conn) readPacket() (byte, error) {
	_ = k.c.SetReadDeadline(time.Now().Add(20 * time.Second))
	var b [1]byte
	if _, err := io.ReadFull(k.c, b[:]); err != nil {
		return 0, err
	}
	t := b[0] >> 4
	n, mul := 0, 1
	for {
		if _, err := io.ReadFull(k.c, b[:]); err != nil {
			return 0, err
		}
		n += int(b[0]&0x7f) * mul
		mul *= 128
		if b[0]&0x80 == 0 {
			break
		}
	}
	_, err := io.CopyN(io.Discard, k.c, int64(n))
	return t, err
}

func (k *conn) drain() { go func() { _, _ = io.Copy(io.Discard, k.c) }() }

func connect(s *mqtt.Server, id string, version byte, clean bool, sei uint32, will bool, willDelay uint32) (*conn, error) {
	k, err := dial(s)
	if err != nil {
		return nil, err
	}
	pk := packets.Packet{
		FixedHeader:     packets.FixedHeader{Type: packets.Connect},
		ProtocolVersion: version,
		Connect: packets.ConnectParams{ProtocolName: []byte("MQTT"), Clean: clean, Keepalive: 60, ClientIdentifier: id,
			WillFlag: will, WillTopic: "w/t", WillPayload: []byte("gone"), WillRetain: will},
	}
	if !will {
		pk.Connect.WillTopic, pk.Connect.WillPayload = "", nil
	}
	if version == 5 {
		pk.Properties.SessionExpiryInterval, pk.Properties.SessionExpiryIntervalFlag = sei, sei > 0
		pk.Connect.WillProperties.WillDelayInterval = willDelay
	}
	if err := k.send(pk, (*packets.Packet).ConnectEncode); err != nil {
		return nil, err
	}
	t, err := k.readPacket()
	if err != nil || t != packets.Connack {
		return nil, fmt.Errorf("no CONNACK for %s: type %d err %v", id, t, err)
	}
	return k, nil
}

func waitFor(what string, f func() bool) error {
	for i := 0; i < 2000; i++ {
		if f() {
			return nil
		}
		time.Sleep(5 * time.Millisecond)
	}
	return fmt.Errorf("timed out waiting for %s", what)
}

// ---------------------------------------------------------------------------------------------
// F33-mqtt.particle.retainPath — TopicsIndex.RetainMessage writes n.retainPath under the root and particle
// mutexes; scanMessages (retained messages for a wildcard subscription) reads retainPath with neither.
// writer: "handler" (PUBLISH retain from a connection), "eventloop" (publishSysTopics retains the $SYS topics),
// "inline" (Server.Publish); reader: "handler" (SUBSCRIBE from a connection), "inline" (Server.Subscribe).

func runRetainPath(writer, reader string) error {
	s, err := newServer(&hook{})
	if err != nil {
		return err
	}
	filter := "a/+"
	if writer == "eventloop" {
		filter = "$SYS/broker/+"
		s.VerifPublishSysTopics() // the topics exist before the two roles start
	}
	var pub, sub *conn
	if writer == "handler" {
		if pub, err = connect(s, "pub", 4, true, 0, false, 0); err != nil {
			return err
		}
		pub.drain()
	}
	if reader == "handler" {
		if sub, err = connect(s, "sub", 4, true, 0, false, 0); err != nil {
			return err
		}
		sub.drain()
	}
	var wg sync.WaitGroup
	wg.Add(2)
	go func() {
		defer wg.Done()
		for i := 0; i < 300; i++ {
			payload := []byte(fmt.Sprint("v", i))
			if i%3 == 2 {
				payload = nil // clears the retained message: retainPath = ""
			}
			topic := fmt.Sprint("a/b", i%4)
			switch writer {
			case "handler":
				_ = pub.send(packets.Packet{FixedHeader: packets.FixedHeader{Type: packets.Publish, Retain: true}, ProtocolVersion: 4,
					TopicName: topic, Payload: payload}, (*packets.Packet).PublishEncode)
				_ = pub.send(packets.Packet{FixedHeader: packets.FixedHeader{Type: packets.Publish, Retain: true}, ProtocolVersion: 4,
					TopicName: "keep/one", Payload: []byte("k")}, (*packets.Packet).PublishEncode) // Retained.Len() stays > 0
			case "inline":
				_ = s.Publish(topic, payload, true, 0)
				_ = s.Publish("keep/one", []byte("k"), true, 0)
			case "eventloop":
				if i < 40 {
					s.VerifPublishSysTopics() // the event loop's sysTopics tick
				}
			}
		}
	}()
	go func() {
		defer wg.Done()
		for i := 0; i < 300; i++ {
			switch reader {
			case "handler":
				_ = sub.send(packets.Packet{FixedHeader: packets.FixedHeader{Type: packets.Subscribe, Qos: 1}, ProtocolVersion: 4,
					PacketID: uint16(i + 1), Filters: packets.Subscriptions{{Filter: filter, Qos: 0}}}, (*packets.Packet).SubscribeEncode)
			case "inline":
				_ = s.Subscribe(filter, i+1, func(cl *mqtt.Client, sub packets.Subscription, pk packets.Packet) {})
			}
		}
	}()
	wg.Wait()
	time.Sleep(300 * time.Millisecond)
	for _, k := range []*conn{pub, sub} {
		if k != nil {
			_ = k.c.Close()
			<-k.done
		}
	}
	return nil
}

// ---------------------------------------------------------------------------------------------
// F33-mqtt.Client.Properties.Props.SessionExpiryInterval[Flag] — handler (processDisconnect writes the
// interval of its own client) against eventLoop (clearExpiredClients reads it once StopTime() != 0).
// The client was stopped by ANOTHER goroutine (a take-over), so the atomic store/load of `disconnected`
// orders nothing between the handler's write and the event loop's read.

func runSessionExpiry() error {
	hold := newGate()
	h := &hook{}
	h.onPacketRead = func(cl *mqtt.Client, pk packets.Packet) {
		if pk.FixedHeader.Type == packets.Disconnect {
			hold.pass() // the old connection's handler waits here with the DISCONNECT in hand
		}
	}
	s, err := newServer(h)
	if err != nil {
		return err
	}
	inherit := newGate()
	mqtt.VerifYield = func(point string, cl *mqtt.Client) {
		if point == "inherit.afterDisconnectExisting" {
			inherit.pass() // the new connection's handler waits here: old client stopped, still in the client map
		}
	}
	defer func() { mqtt.VerifYield = nil }()
	old, err := connect(s, "x", 5, false, 60, false, 0)
	if err != nil {
		return err
	}
	hold.arm()
	if err := old.send(packets.Packet{FixedHeader: packets.FixedHeader{Type: packets.Disconnect}, ProtocolVersion: 5,
		Properties: packets.Properties{SessionExpiryInterval: 30, SessionExpiryIntervalFlag: true}}, (*packets.Packet).DisconnectEncode); err != nil {
		return err
	}
	if err := hold.waitParked(); err != nil {
		return fmt.Errorf("old handler: %v", err)
	}
	inherit.arm()
	newc := make(chan error, 1)
	var nw *conn
	go func() {
		var err error
		nw, err = connect(s, "x", 5, false, 60, false, 0)
		newc <- err
	}()
	if err := inherit.waitParked(); err != nil {
		return fmt.Errorf("new handler: %v", err)
	}
	// the two roles, released together: nothing orders one against the other
	ev := make(chan struct{})
	go func() { // the event loop's clientExpiry tick
		s.VerifClearExpiredClients(time.Now().Unix())
		close(ev)
	}()
	hold.release() // the old handler goes on to processDisconnect
	<-ev
	<-old.done
	inherit.release()
	if err := <-newc; err != nil {
		return err
	}
	_ = nw.c.Close()
	<-nw.done
	return nil
}

// ---------------------------------------------------------------------------------------------
// F33-mqtt.Client.Properties.Will — handler (attachClient clears the will after a normal DISCONNECT) against
// eventLoop (sendDelayedLWT clears the will of the client it finds under the id of a delayed will).
// The delayed will belongs to an earlier connection of the same client id; the event loop took its snapshot
// of the delayed wills before the reconnect deleted the entry.

func runWill() error {
	acl, retain := newGate(), newGate()
	h := &hook{}
	h.onACLCheck = func(cl *mqtt.Client, topic string, write bool) {
		if !write && topic == "w/t" {
			acl.pass() // event loop: inside publishToSubscribers, before Clients.Get(id)
		}
	}
	h.onRetainMessage = func(cl *mqtt.Client, pk packets.Packet) {
		if pk.TopicName == "w/t" {
			retain.pass() // event loop: after Clients.Get(id), before `cl.Properties.Will = Will{}`
		}
	}
	s, err := newServer(h)
	if err != nil {
		return err
	}
	sub, err := connect(s, "watcher", 4, true, 0, false, 0)
	if err != nil {
		return err
	}
	if err := sub.send(packets.Packet{FixedHeader: packets.FixedHeader{Type: packets.Subscribe, Qos: 1}, ProtocolVersion: 4,
		PacketID: 1, Filters: packets.Subscriptions{{Filter: "w/t", Qos: 0}}}, (*packets.Packet).SubscribeEncode); err != nil {
		return err
	}
	if t, err := sub.readPacket(); err != nil || t != packets.Suback {
		return fmt.Errorf("no SUBACK: %d %v", t, err)
	}
	sub.drain()
	first, err := connect(s, "x", 5, false, 60, true, 1)
	if err != nil {
		return err
	}
	_ = first.c.Close() // connection lost: the handler registers the delayed will
	<-first.done
	if err := waitFor("the delayed will", func() bool { return strings.Contains(s.VerifWillDelayed(), "78") }); err != nil {
		return err
	}
	acl.arm()
	ev := make(chan struct{})
	go func() { // the event loop's willDelaySend tick, after the delay has elapsed
		s.VerifSendDelayedLWT(time.Now().Unix() + 10)
		close(ev)
	}()
	if err := acl.waitParked(); err != nil {
		return fmt.Errorf("event loop (publish): %v", err)
	}
	second, err := connect(s, "x", 5, false, 60, true, 1) // same id: its handler deletes the delayed will — too late
	if err != nil {
		return err
	}
	retain.arm()
	acl.release()
	if err := retain.waitParked(); err != nil {
		return fmt.Errorf("event loop (retain): %v", err)
	}
	if err := second.send(packets.Packet{FixedHeader: packets.FixedHeader{Type: packets.Disconnect}, ProtocolVersion: 5},
		(*packets.Packet).DisconnectEncode); err != nil {
		return err
	}
	// The handler closes the connection (Stop), then clears the will and returns. Its progress is observed
	// through the socket and a pause only: waiting on a channel it closes would order its write before the
	// event loop's and hide the race from the detector.
	for {
		if _, err := second.readPacket(); err != nil {
			break
		}
	}
	time.Sleep(300 * time.Millisecond)
	retain.release()
	<-ev
	<-second.done
	_ = sub.c.Close()
	<-sub.done
	return nil
}
