package main

// tie A, statement order: Gen/Programs.lean.
//
// For each function of `orderSpecs` the body is walked in source order and reduced to a list of tokens:
//
//	<callee>                 a call whose callee expression (as written: `s.Clients.Add`, `cl.WritePacket`,
//	<callee>(<args>)         `atomic.AddInt64`, ...) is listed as a marker of that function; with the arguments
//	                         as written when the marker asks for them. Arguments are visited before the call.
//	yield <point>            verifYield("<point>", ...) — always a marker
//	defer <call> / go <call> a deferred / spawned marker call
//	<lhs> = <rhs>            an assignment (or :=, +=, ...) to a left-hand side listed as a marker of the function
//	return <results>         every return; a result that contains a call is written `_`
//	break / continue / goto  every branch statement
//	if <cond> { ... } else { ... }      an if statement whose body or else part contains a token; `else if`
//	                                    is an `else {` that contains the next `if`
//	for <cond> { ... }, range <x> { ... }, switch <tag> { case <exprs> { ... } }, select { case <comm> { ... } },
//	func { ... }             likewise, only when something inside produced a token
//
// A construct with no token inside leaves only the marker calls of its condition. The list therefore pins
// the relative order of the marker statements, the branch each of them sits in (with the condition as
// written) and which branches leave the function. It is compared in Lean (`Props/TieA/*.lean`) with the list
// the models were written against; a marker that moved, vanished or appears a second time changes the list.
// A function that is not found yields the single token `MISSING function <name>`.

import (
	"fmt"
	"go/ast"
	"go/token"
	"go/types"
	"strings"
)

type argMode int

const (
	noArgs argMode = iota
	allArgs
)

type orderSpec struct {
	fn     string             // unit name, e.g. mqtt.(*Server).attachClient
	def    string             // Lean definition name
	calls  map[string]argMode // callee text -> how to render
	assign []string           // left-hand sides whose assignments are markers
}

var orderSpecs = []orderSpec{
	{
		fn: "mqtt.(*Server).attachClient", def: "attachClientOrder",
		calls: map[string]argMode{
			"s.Listeners.ClientsWg.Add": noArgs, "s.Listeners.ClientsWg.Done": noArgs, "cl.WriteLoop": noArgs, "cl.Stop": allArgs,
			"s.readConnectionPacket": noArgs, "cl.ParseConnect": noArgs, "atomic.LoadInt64": allArgs, "s.SendConnack": allArgs,
			"s.validateConnect": noArgs, "s.hooks.OnConnect": noArgs, "s.hooks.OnConnectAuthenticate": noArgs,
			"atomic.AddInt64": allArgs, "s.inheritClientSession": noArgs, "s.Clients.Add": allArgs,
			"s.loop.willDelayed.Delete": allArgs, "cl.ResendInflightMessages": allArgs, "cl.Read": allArgs,
			"s.sendLWT": allArgs, "s.hooks.OnDisconnect": noArgs, "cl.IsTakenOver": noArgs, "cl.ClearInflights": noArgs,
			"s.UnsubscribeClient": allArgs, "s.Clients.Delete": allArgs,
		},
		assign: []string{"cl.Properties.Will", "expire"},
	},
	{
		fn: "mqtt.(*Server).inheritClientSession", def: "inheritClientSessionOrder",
		calls: map[string]argMode{
			"s.Clients.Get": allArgs, "s.DisconnectClient": allArgs, "s.UnsubscribeClient": allArgs, "existing.ClearInflights": noArgs,
			"cl.ClearInflights": noArgs, "existing.State.isTakenOver.Store": allArgs,
			"atomic.AddInt64": allArgs, "cl.State.Inflight.ResetReceiveQuota": noArgs, "cl.State.Inflight.ResetSendQuota": noArgs,
			"existing.State.Subscriptions.GetAll": noArgs, "s.Topics.Subscribe": allArgs, "cl.State.Subscriptions.Add": allArgs,
		},
		assign: []string{"cl.State.Inflight"},
	},
	{
		fn: "mqtt.(*Server).processSubscribe", def: "processSubscribeOrder",
		calls: map[string]argMode{
			"s.hooks.OnSubscribe": noArgs, "cl.State.Inflight.Get": allArgs, "IsValidFilter": allArgs, "IsSharedFilter": allArgs,
			"s.hooks.OnACLCheck": allArgs, "s.Topics.Subscribe": allArgs, "atomic.AddInt64": allArgs,
			"cl.State.Subscriptions.Add": allArgs, "s.hooks.OnSubscribed": noArgs, "cl.WritePacket": allArgs,
			"s.publishRetainedToClient": allArgs,
		},
		assign: []string{"code", "reasonCodes[i]", "filterExisted[i]"},
	},
	{
		fn: "mqtt.(*Server).processPubrec", def: "processPubrecOrder",
		calls: qosCalls,
	},
	{
		fn: "mqtt.(*Server).processPubrel", def: "processPubrelOrder",
		calls: qosCalls,
	},
	{
		fn: "mqtt.(*Server).processPublish", def: "processPublishOrder",
		calls: map[string]argMode{
			"IsValidFilter": allArgs, "s.DisconnectClient": allArgs, "s.buildAck": allArgs, "cl.WritePacket": noArgs,
			"atomic.LoadInt32": allArgs, "s.hooks.OnACLCheck": allArgs, "cl.State.Inflight.Get": allArgs,
			"cl.State.Inflight.Delete": allArgs, "atomic.AddInt64": allArgs, "cl.State.TopicAliases.Inbound.Set": noArgs,
			"s.hooks.OnPublish": noArgs, "s.retainMessage": noArgs, "s.publishToSubscribers": noArgs,
			"cl.State.Inflight.DecreaseReceiveQuota": noArgs, "cl.State.Inflight.IncreaseReceiveQuota": noArgs,
			"cl.State.Inflight.Set": allArgs,
		},
		assign: []string{"ackType", "pk.FixedHeader.Qos", "pk.Ignore"},
	},
	{
		// the property-block decoder: every helper call, every early return and the per-kind switch (C27/C28: a
		// dropped early return or a moved offset update changes the list)
		fn: "packets.(*Properties).Decode", def: "propertiesDecodeOrder",
		calls: map[string]argMode{
			"DecodeLength": noArgs, "decodeByte": noArgs, "decodeUint16": noArgs, "decodeUint32": noArgs,
			"decodeString": noArgs, "decodeBytes": noArgs,
		},
		assign: []string{"offset"},
	},
	{
		// C36: the accept loop hands a connection to the broker only while the listener has not been told to stop
		// (the end flag is read again AFTER Accept returned), and Close raises the flag before it disconnects clients
		fn: "listeners.(*TCP).Serve", def: "tcpServeOrder",
		calls: map[string]argMode{"atomic.LoadUint32": allArgs, "l.listen.Accept": noArgs, "establish": noArgs},
	},
	{
		fn: "listeners.(*TCP).Close", def: "tcpCloseOrder",
		calls: map[string]argMode{"atomic.CompareAndSwapUint32": allArgs, "closeClients": allArgs, "l.listen.Close": noArgs, "l.Lock": noArgs, "l.Unlock": noArgs},
	},
	{
		// C41: a buffer is reset BEFORE it is handed back to the pool (afterwards it may already belong to someone
		// else), and the capped pool tests the capacity before it keeps a buffer
		fn: "mempool.(*Buffer).Put", def: "bufferPutOrder",
		calls: map[string]argMode{"x.Reset": noArgs, "b.pool.Put": allArgs},
	},
	{
		fn: "mempool.(*BufferWithCap).Put", def: "bufferWithCapPutOrder",
		calls: map[string]argMode{"x.Cap": noArgs, "b.bp.Put": allArgs, "x.Reset": noArgs},
	},
	{
		// C07: an error of a handler ends the connection — receivePacket returns it to the read loop (after a
		// DISCONNECT with the code for MQTT 5); a branch that swallows an error leaves the request unanswered
		// on a connection that is still served
		fn: "mqtt.(*Server).receivePacket", def: "receivePacketOrder",
		calls: map[string]argMode{"s.processPacket": noArgs, "s.DisconnectClient": allArgs},
	},
	{
		// the dispatch: validation before the handler, the handler's error returned, then the release of one
		// deferred message
		fn: "mqtt.(*Server).processPacket", def: "processPacketOrder",
		calls: map[string]argMode{
			"s.processConnect": noArgs, "s.processDisconnect": noArgs, "s.processPingreq": noArgs, "pk.PublishValidate": noArgs,
			"s.processPublish": noArgs, "s.processPuback": noArgs, "s.processPubrec": noArgs, "s.processPubrel": noArgs,
			"s.processPubcomp": noArgs, "pk.SubscribeValidate": noArgs, "s.processSubscribe": noArgs,
			"pk.UnsubscribeValidate": noArgs, "s.processUnsubscribe": noArgs, "pk.AuthValidate": noArgs, "s.processAuth": noArgs,
			"s.hooks.OnPacketProcessed": noArgs, "cl.State.Inflight.NextImmediate": noArgs, "cl.WritePacket": allArgs,
			"cl.State.Inflight.Delete": allArgs, "cl.State.Inflight.DecreaseSendQuota": noArgs, "atomic.AddInt64": allArgs,
		},
	},
	{
		// C12: the in-flight store is handed out oldest first — the comparator of the sort is part of the list (a
		// return without a call is rendered as written), as is the filter of the deferred records
		fn: "mqtt.(*Inflight).getAll", def: "inflightGetAllOrder",
		calls:  map[string]argMode{"sort.Slice": noArgs},
		assign: []string{"m"},
	},
	{
		fn: "mqtt.(*Inflight).NextImmediate", def: "inflightNextImmediateOrder",
		calls:  map[string]argMode{"i.getAll": allArgs, "i.GetAll": allArgs, "i.RLock": noArgs, "i.RUnlock": noArgs},
		assign: []string{"m"},
	},
	{
		// C02 / C05: trim walks upwards and cuts a particle only while it is empty AND holds no retained message —
		// the whole condition is part of the loop header as written
		fn: "mqtt.(*TopicsIndex).trim", def: "topicsTrimOrder",
		calls:  map[string]argMode{"n.particles.delete": allArgs},
		assign: []string{"key", "n"},
	},
	{
		// C01 / C03: per level the literal key AND "+" are followed; at the last level the particle's own
		// subscribers and those of its "#" child (filter/# matches filter) are gathered, for both
		fn: "mqtt.(*TopicsIndex).scanSubscribers", def: "topicsScanSubscribersOrder",
		calls: map[string]argMode{
			"x.scanSubscribers": allArgs, "x.gatherSubscriptions": allArgs, "x.gatherSharedSubscriptions": allArgs,
			"x.gatherInlineSubscriptions": allArgs, "n.particles.get": allArgs, "particle.particles.get": allArgs,
			"isolateParticle": allArgs,
		},
		assign: []string{"particle", "wild"},
	},
	{
		fn: "mqtt.(*Client).WriteLoop", def: "writeLoopOrder",
		calls: map[string]argMode{
			"cl.WritePacket": allArgs, "cl.Lock": noArgs, "cl.Unlock": noArgs, "cl.flushOutbuf": noArgs, "atomic.AddInt32": allArgs,
		},
	},
}

var qosCalls = map[string]argMode{
	"cl.State.Inflight.Get": allArgs, "cl.WritePacket": noArgs, "s.buildAck": allArgs, "pk.ReasonCodeValid": noArgs,
	"cl.State.Inflight.Delete": allArgs, "atomic.AddInt64": allArgs, "cl.ops.hooks.OnQosDropped": noArgs,
	"cl.State.Inflight.DecreaseReceiveQuota": noArgs, "cl.State.Inflight.IncreaseReceiveQuota": noArgs,
	"cl.State.Inflight.IncreaseSendQuota": noArgs, "cl.State.Inflight.Set": allArgs, "s.hooks.OnQosComplete": noArgs,
}

type orderWalker struct {
	spec *orderSpec
	out  []string
}

func exprText(e ast.Expr) string { return types.ExprString(e) }

func hasCall(e ast.Expr) bool {
	found := false
	ast.Inspect(e, func(n ast.Node) bool {
		if _, ok := n.(*ast.CallExpr); ok {
			found = true
		}
		return !found
	})
	return found
}

// callToken renders a call if it is a marker ("" otherwise).
func (w *orderWalker) callToken(c *ast.CallExpr) string {
	fun := exprText(c.Fun)
	if fun == "verifYield" {
		if len(c.Args) > 0 {
			if lit, ok := c.Args[0].(*ast.BasicLit); ok && lit.Kind == token.STRING {
				return "yield " + strings.Trim(lit.Value, "\"`")
			}
		}
		return "yield ?"
	}
	mode, ok := w.spec.calls[fun]
	if !ok {
		return ""
	}
	if mode == noArgs {
		return fun
	}
	args := make([]string, len(c.Args))
	for i, a := range c.Args {
		args[i] = exprText(a)
	}
	return fun + "(" + strings.Join(args, ", ") + ")"
}

// expr emits the marker calls inside an expression, arguments before the call that takes them.
func (w *orderWalker) expr(e ast.Node) {
	if e == nil {
		return
	}
	var visit func(n ast.Node) bool
	visit = func(n ast.Node) bool {
		switch n := n.(type) {
		case *ast.FuncLit:
			w.block("func {", n.Body.List)
			return false
		case *ast.CallExpr:
			ast.Inspect(n.Fun, visit)
			for _, a := range n.Args {
				ast.Inspect(a, visit)
			}
			if t := w.callToken(n); t != "" {
				w.out = append(w.out, t)
			}
			return false
		}
		return true
	}
	ast.Inspect(e, visit)
}

// block emits `open ... }` around the tokens of stmts, or nothing when there are none; reports whether it emitted.
func (w *orderWalker) block(open string, stmts []ast.Stmt) bool {
	mark := len(w.out)
	w.out = append(w.out, open)
	for _, s := range stmts {
		w.stmt(s)
	}
	if len(w.out) == mark+1 {
		w.out = w.out[:mark]
		return false
	}
	w.out = append(w.out, "}")
	return true
}

func (w *orderWalker) isAssignMarker(lhs string) bool {
	for _, a := range w.spec.assign {
		if a == lhs {
			return true
		}
	}
	return false
}

func (w *orderWalker) stmt(s ast.Stmt) {
	switch s := s.(type) {
	case nil:
	case *ast.ExprStmt:
		w.expr(s.X)
	case *ast.AssignStmt:
		for _, r := range s.Rhs {
			w.expr(r)
		}
		for _, l := range s.Lhs {
			w.expr(l)
		}
		for i, l := range s.Lhs {
			if w.isAssignMarker(exprText(l)) {
				rhs := "_"
				if len(s.Rhs) == len(s.Lhs) {
					rhs = exprText(s.Rhs[i])
				} else if len(s.Rhs) == 1 {
					rhs = exprText(s.Rhs[0])
				}
				w.out = append(w.out, exprText(l)+" "+s.Tok.String()+" "+rhs)
			}
		}
	case *ast.DeclStmt:
		if gd, ok := s.Decl.(*ast.GenDecl); ok {
			for _, sp := range gd.Specs {
				if vs, ok := sp.(*ast.ValueSpec); ok {
					for _, v := range vs.Values {
						w.expr(v)
					}
					for i, n := range vs.Names {
						if w.isAssignMarker(n.Name) {
							rhs := "_"
							if i < len(vs.Values) {
								rhs = exprText(vs.Values[i])
							}
							w.out = append(w.out, n.Name+" := "+rhs)
						}
					}
				}
			}
		}
	case *ast.IncDecStmt:
		w.expr(s.X)
		if w.isAssignMarker(exprText(s.X)) {
			w.out = append(w.out, exprText(s.X)+s.Tok.String())
		}
	case *ast.SendStmt:
		w.expr(s.Chan)
		w.expr(s.Value)
	case *ast.ReturnStmt:
		rs := make([]string, len(s.Results))
		for i, r := range s.Results {
			w.expr(r)
			if rs[i] = exprText(r); hasCall(r) {
				rs[i] = "_"
			}
		}
		w.out = append(w.out, strings.TrimSpace("return "+strings.Join(rs, ", ")))
	case *ast.BranchStmt:
		t := s.Tok.String()
		if s.Label != nil {
			t += " " + s.Label.Name
		}
		w.out = append(w.out, t)
	case *ast.DeferStmt, *ast.GoStmt:
		kw, call := "defer ", (*ast.CallExpr)(nil)
		if d, ok := s.(*ast.DeferStmt); ok {
			call = d.Call
		} else {
			kw, call = "go ", s.(*ast.GoStmt).Call
		}
		for _, a := range call.Args { // evaluated at the defer / go statement
			w.expr(a)
		}
		if lit, ok := ast.Unparen(call.Fun).(*ast.FuncLit); ok {
			w.block(kw+"func {", lit.Body.List)
		} else if t := w.callToken(call); t != "" {
			w.out = append(w.out, kw+t)
		}
	case *ast.BlockStmt:
		for _, x := range s.List {
			w.stmt(x)
		}
	case *ast.LabeledStmt:
		w.stmt(s.Stmt)
	case *ast.IfStmt:
		w.stmt(s.Init)
		w.expr(s.Cond)
		mark := len(w.out)
		w.out = append(w.out, "if "+exprText(s.Cond)+" {")
		for _, x := range s.Body.List {
			w.stmt(x)
		}
		bodyEmpty := len(w.out) == mark+1
		w.out = append(w.out, "} else {")
		em := len(w.out)
		if s.Else != nil {
			w.stmt(s.Else)
		}
		switch elseEmpty := len(w.out) == em; {
		case bodyEmpty && elseEmpty:
			w.out = w.out[:mark]
		case elseEmpty:
			w.out[em-1] = "}"
		default:
			w.out = append(w.out, "}")
		}
	case *ast.ForStmt:
		w.stmt(s.Init)
		w.expr(s.Cond)
		cond := ""
		if s.Cond != nil {
			cond = exprText(s.Cond) + " "
		}
		w.block("for "+cond+"{", append(append([]ast.Stmt{}, s.Body.List...), s.Post))
	case *ast.RangeStmt:
		w.expr(s.X)
		w.block("range "+exprText(s.X)+" {", s.Body.List)
	case *ast.SwitchStmt:
		w.stmt(s.Init)
		w.expr(s.Tag)
		tag := ""
		if s.Tag != nil {
			tag = exprText(s.Tag) + " "
		}
		w.clauses("switch "+tag+"{", s.Body.List)
	case *ast.TypeSwitchStmt:
		w.stmt(s.Init)
		w.stmt(s.Assign)
		w.clauses("switch type {", s.Body.List)
	case *ast.SelectStmt:
		w.clauses("select {", s.Body.List)
	default:
		w.out = append(w.out, fmt.Sprintf("UNKNOWN %T", s))
	}
}

// clauses emits the case clauses of a switch / select; every clause is kept (also an empty one) as soon as
// one of them has a token, so that the position of a clause among its siblings is visible.
func (w *orderWalker) clauses(open string, list []ast.Stmt) {
	mark := len(w.out)
	w.out = append(w.out, open)
	any := false
	for _, c := range list {
		head, body := "case {", []ast.Stmt(nil)
		switch c := c.(type) {
		case *ast.CaseClause:
			xs := make([]string, len(c.List))
			for i, e := range c.List {
				w.expr(e)
				xs[i] = exprText(e)
			}
			if len(xs) == 0 {
				head = "default {"
			} else {
				head = "case " + strings.Join(xs, ", ") + " {"
			}
			body = c.Body
		case *ast.CommClause:
			if c.Comm == nil {
				head = "default {"
			}
			body = c.Body
		}
		if cc, ok := c.(*ast.CommClause); ok && cc.Comm != nil {
			head = "case " + commText(cc.Comm) + " {"
		}
		n := len(w.out)
		w.out = append(w.out, head)
		if cc, ok := c.(*ast.CommClause); ok && cc.Comm != nil {
			w.stmt(cc.Comm)
		}
		for _, s := range body {
			w.stmt(s)
		}
		if len(w.out) > n+1 {
			any = true
		}
		w.out = append(w.out, "}")
	}
	if !any {
		w.out = w.out[:mark]
		return
	}
	w.out = append(w.out, "}")
}

// commText renders the communication of a select case as written.
func commText(s ast.Stmt) string {
	join := func(es []ast.Expr) string {
		xs := make([]string, len(es))
		for i, e := range es {
			xs[i] = exprText(e)
		}
		return strings.Join(xs, ", ")
	}
	switch s := s.(type) {
	case *ast.ExprStmt:
		return exprText(s.X)
	case *ast.AssignStmt:
		return join(s.Lhs) + " " + s.Tok.String() + " " + join(s.Rhs)
	case *ast.SendStmt:
		return exprText(s.Chan) + " <- " + exprText(s.Value)
	}
	return "?"
}

func (x *extractor) orderOf(spec *orderSpec) []string {
	for _, u := range x.units {
		if u.name == spec.fn {
			w := &orderWalker{spec: spec}
			for _, s := range u.body.List {
				w.stmt(s)
			}
			return w.out
		}
	}
	return []string{"MISSING function " + spec.fn}
}

func (x *extractor) programsLean() string {
	var b strings.Builder
	b.WriteString("/- GENERATED by go/cmd/vextract from server.go and clients.go (tie A) — do not edit.\n")
	b.WriteString("   One token list per function: the marker statements in source order with the branch structure they\n")
	b.WriteString("   sit in; see go/cmd/vextract/order.go for the token grammar and the marker tables. -/\nnamespace Mochi.Gen\n\n")
	for i := range orderSpecs {
		spec := &orderSpecs[i]
		toks := x.orderOf(spec)
		fmt.Fprintf(&b, "/-- %s -/\ndef %s : List String := [\n", spec.fn, spec.def)
		for j, t := range toks {
			fmt.Fprintf(&b, "  %s%s\n", leanStr(t), comma(j, len(toks)))
		}
		b.WriteString("]\n\n")
	}
	b.WriteString("end Mochi.Gen\n")
	return b.String()
}
