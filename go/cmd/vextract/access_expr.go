package main

import (
	"go/ast"
	"go/token"
	"go/types"
	"strings"
)

// access modes of an expression
const (
	mR       = iota // value is read
	mW              // location is written
	mAtomicR        // sync/atomic load
	mAtomicW        // sync/atomic store/add/swap/cas, or a method of a sync.* value
	mPtr            // only the pointer/interface value is looked at (nil test): no use of what it points to
	mRecv           // receiver of a method with pointer receiver on an addressable value: no load at all
)

// fstep is one field selection of a path.
type fstep struct {
	name      string
	declaring string     // struct type that declares the field
	typ       types.Type // type of the field
}

type pathInfo struct {
	root     *types.Var // nil: the base is not a variable (call result, index, ...)
	baseType types.Type // type of the base expression
	steps    []fstep
	pos      token.Pos
}

func namedOf(t types.Type) *types.Named {
	n, _ := deref(t).(*types.Named)
	return n
}

func classOf(t types.Type) string {
	if n := namedOf(t); n != nil && n.Obj().Pkg() != nil {
		if _, ok := n.Underlying().(*types.Struct); ok {
			return n.Obj().Pkg().Name() + "." + n.Obj().Name()
		}
	}
	return ""
}

func isPointer(t types.Type) bool {
	_, ok := t.Underlying().(*types.Pointer)
	return ok
}

// selSteps2 expands a field selection (or the embedded hops before a method) into steps with types.
func selSteps2(sel *types.Selection) []fstep {
	var out []fstep
	t := sel.Recv()
	idx := sel.Index()
	if sel.Kind() != types.FieldVal {
		idx = idx[:len(idx)-1]
	}
	for _, i := range idx {
		st, ok := deref(t).Underlying().(*types.Struct)
		if !ok {
			return out
		}
		out = append(out, fstep{st.Field(i).Name(), typeName(t), st.Field(i).Type()})
		t = st.Field(i).Type()
	}
	return out
}

// resolve splits e into a base and a chain of field selections. ok == false: e is not such a chain.
// A base that is not a plain variable is visited (read) here.
func (fr *frame) resolve(e ast.Expr) (pathInfo, bool) {
	switch e := ast.Unparen(e).(type) {
	case *ast.Ident:
		if v, ok := fr.info.Uses[e].(*types.Var); ok {
			if v.IsField() {
				return pathInfo{}, false
			}
			if v.Parent() == v.Pkg().Scope() { // package-level variable: not one of the tracked objects
				return pathInfo{root: nil, baseType: v.Type(), pos: e.Pos()}, true
			}
			return pathInfo{root: v, baseType: v.Type(), pos: e.Pos()}, true
		}
		return pathInfo{}, false
	case *ast.StarExpr:
		return fr.resolve(e.X)
	case *ast.SelectorExpr:
		sel := fr.info.Selections[e]
		if sel == nil || sel.Kind() != types.FieldVal {
			return pathInfo{}, false
		}
		p, ok := fr.resolve(e.X)
		if !ok {
			fr.expr(e.X, mR)
			p = pathInfo{root: nil, baseType: fr.info.TypeOf(e.X), pos: e.Pos()}
		}
		p.steps = append(append([]fstep{}, p.steps...), selSteps2(sel)...)
		p.pos = e.Sel.Pos()
		return p, true
	}
	return pathInfo{}, false
}

// objAt describes the object that contains the memory named by the first n steps' *result*, i.e. after
// taking steps[0..n): class ("" = untracked or not shared), index of the first step inside the object, and
// the steps from the root to the object.
func (fr *frame) objAt(p pathInfo, n int) (class string, from int, shared bool) {
	shared = isPointer(p.baseType) // a struct value held in a variable or returned by a call is a private copy
	class = ""
	if shared {
		class = classOf(p.baseType)
	}
	from = 0
	for i := 0; i < n; i++ {
		t := p.steps[i].typ
		if isPointer(t) {
			shared, class, from = true, classOf(t), i+1
		} else if c := classOf(t); c != "" && objectClasses[c] && shared {
			class, from = c, i+1 // a by-value member struct that is an object of its own (carries its mutex)
		}
	}
	if !objectClasses[class] {
		class = ""
	}
	return
}

// relOfPath: relation of the object reached after n steps.
func (fr *frame) relOfPath(p pathInfo, n int) int {
	class, _, _ := fr.objAt(p, n)
	r := fr.relOfVar(p.root)
	if r == relFresh {
		hop := false
		for i := 0; i < n; i++ {
			hop = hop || isPointer(p.steps[i].typ)
		}
		if !hop {
			return relFresh // part of the allocation the variable was created with, whatever its class
		}
	}
	if globalClasses[class] {
		return relOther
	}
	if c := classOf(p.baseType); n == 0 && globalClasses[c] {
		return relOther
	}
	return r
}

func stepsString(steps []fstep) string {
	s := make([]string, len(steps))
	for i, st := range steps {
		s[i] = st.name
	}
	return strings.Join(s, ".")
}

// lockset of an access on the object that begins after `from` steps of p
func (fr *frame) locksFor(p pathInfo, from int) []lockKey {
	var out []lockKey
	owner := stepsString(p.steps[:from])
	for _, h := range fr.held {
		k := ""
		if h.the {
			k = "the:" + h.cls
		} else if h.root != nil && h.root == p.root && h.path == owner {
			k = "self:" + h.cls
		}
		if k == "" {
			continue
		}
		dup := false
		for i := range out {
			if out[i].Key == k {
				dup = true
				if h.mode == "W" {
					out[i].Mode = "W"
				}
			}
		}
		if !dup {
			out = append(out, lockKey{k, h.mode})
		}
	}
	return out
}

// emit records the accesses of a path: a read of every pointer field that is followed, and the final access.
func (fr *frame) emit(p pathInfo, mode int) {
	for i := range p.steps {
		last := i == len(p.steps)-1
		class, from, _ := fr.objAt(p, i)
		if !last && !isPointer(p.steps[i].typ) {
			continue // a by-value member on the way: no load of its own
		}
		if class == "" {
			continue
		}
		m := mR
		if last {
			m = mode
		}
		if m == mRecv {
			continue
		}
		chain := []string{}
		for _, s := range p.steps[from : i+1] {
			chain = append(chain, s.name)
		}
		rel := fr.relOfPath(p, i)
		role := roleOf(fr.a.thread, rel)
		if fr.idle && role == roleWriteLoop {
			role = roleWriteLoopIdle
		}
		r := &row{Obj: class, Path: chain, Write: m == mW || m == mAtomicW, Atomic: m == mAtomicR || m == mAtomicW,
			Role: role, Held: fr.locksFor(p, from)}
		fr.a.add(r, fr.site(p.pos))
		// what a pointer to a struct of another module points to: used (possibly mutated) by whoever holds it
		if last && (m == mR) && isPointer(p.steps[i].typ) {
			if n := namedOf(p.steps[i].typ); n != nil && n.Obj().Pkg() != nil && !fr.a.x.inModule(n.Obj().Pkg()) {
				if _, isStruct := n.Underlying().(*types.Struct); isStruct && !safeExternal[n.Obj().Pkg().Name()+"."+n.Obj().Name()] &&
					n.Obj().Pkg().Path() != "sync" && n.Obj().Pkg().Path() != "sync/atomic" {
					r2 := *r
					r2.Path = append(append([]string{}, chain...), "*")
					r2.Write, r2.Held, r2.Sites = true, fr.locksFor(p, from), nil
					fr.a.add(&r2, fr.site(p.pos))
				}
			}
		}
	}
}

// tracked reports whether the path ends in a tracked location.
func (fr *frame) tracked(p pathInfo) bool {
	if len(p.steps) == 0 {
		return false
	}
	class, _, _ := fr.objAt(p, len(p.steps)-1)
	return class != ""
}

// ---------------------------------------------------------------------------------------------
// expressions

func isNil(info *types.Info, e ast.Expr) bool {
	id, ok := ast.Unparen(e).(*ast.Ident)
	if !ok {
		return false
	}
	_, isNil := info.Uses[id].(*types.Nil)
	return isNil
}

func (fr *frame) expr(e ast.Expr, mode int) {
	switch e := e.(type) {
	case nil:
		return
	case *ast.ParenExpr:
		fr.expr(e.X, mode)
	case *ast.BasicLit:
		return
	case *ast.Ident:
		if v, ok := fr.info.Uses[e].(*types.Var); ok {
			if f := fr.fnBind[v]; f != nil {
				fr.mayRun(e, f) // a function received as a parameter is handed on: it may run there
			}
		} else if f, ok := fr.info.Uses[e].(*types.Func); ok {
			fr.mayRun(e, f)
		}
		return
	case *ast.SelectorExpr:
		sel := fr.info.Selections[e]
		if sel == nil { // pkg.Name
			if f, ok := fr.info.Uses[e.Sel].(*types.Func); ok {
				fr.mayRun(e, f)
			}
			return
		}
		if sel.Kind() == types.FieldVal {
			if p, ok := fr.resolve(e); ok {
				fr.emit(p, mode)
			}
			return
		}
		// method value that is not called here
		fr.recvExpr(e)
		if f, ok := sel.Obj().(*types.Func); ok {
			fr.mayRun(e, f)
		}
	case *ast.StarExpr:
		if p, ok := fr.resolve(e.X); ok {
			if len(p.steps) > 0 {
				fr.emit(p, mR)
			}
			if c := classOf(p.baseType); len(p.steps) == 0 && objectClasses[c] && isPointer(p.baseType) {
				fr.unknown(e, "whole object copied or overwritten")
			}
			return
		}
		fr.expr(e.X, mR)
	case *ast.UnaryExpr:
		if e.Op == token.AND {
			if _, isLit := ast.Unparen(e.X).(*ast.CompositeLit); isLit {
				fr.expr(e.X, mR)
				return
			}
			if p, ok := fr.resolve(e.X); ok {
				if len(p.steps) > 0 && fr.tracked(p) {
					fr.emit(p, mRecv) // the pointer loads on the way
					fr.unknown(e, "address of a tracked field taken")
				} else if len(p.steps) > 0 {
					fr.emit(p, mRecv)
				}
				return
			}
			if ix, ok := ast.Unparen(e.X).(*ast.IndexExpr); ok {
				fr.expr(ix.X, mR)
				fr.expr(ix.Index, mR)
				return
			}
		}
		fr.expr(e.X, mR)
	case *ast.BinaryExpr:
		if (e.Op == token.EQL || e.Op == token.NEQ) && isNil(fr.info, e.Y) {
			fr.expr(e.X, mPtrOr(mode))
			return
		}
		if (e.Op == token.EQL || e.Op == token.NEQ) && isNil(fr.info, e.X) {
			fr.expr(e.Y, mPtrOr(mode))
			return
		}
		fr.expr(e.X, mR)
		fr.expr(e.Y, mR)
	case *ast.IndexExpr:
		if tv, ok := fr.info.Types[e.X]; ok && !tv.IsValue() {
			return // generic instantiation
		}
		m := mR
		if mode == mW {
			m = mW
		}
		fr.expr(e.X, m)
		fr.expr(e.Index, mR)
	case *ast.IndexListExpr:
		return
	case *ast.SliceExpr:
		fr.expr(e.X, mR)
		fr.expr(e.Low, mR)
		fr.expr(e.High, mR)
		fr.expr(e.Max, mR)
	case *ast.TypeAssertExpr:
		fr.expr(e.X, mR)
	case *ast.KeyValueExpr:
		fr.expr(e.Key, mR)
		fr.expr(e.Value, mR)
	case *ast.CompositeLit:
		_, isStruct := deref(fr.info.TypeOf(e)).Underlying().(*types.Struct)
		for _, el := range e.Elts {
			if kv, ok := el.(*ast.KeyValueExpr); ok && isStruct {
				fr.expr(kv.Value, mR)
				fr.escape(kv.Value)
			} else {
				fr.expr(el, mR)
			}
		}
	case *ast.FuncLit:
		fr.inline(e) // a closure that is passed or stored: may run here
	case *ast.CallExpr:
		fr.callExpr(e, false)
	case *ast.ArrayType, *ast.StructType, *ast.FuncType, *ast.InterfaceType, *ast.MapType, *ast.ChanType, *ast.Ellipsis:
		return
	default:
		fr.unknown(e, "expression kind")
	}
}

func mPtrOr(int) int { return mPtr }

// inline walks a function literal in place (it may run here): own defer scope, locks restored afterwards.
func (fr *frame) inline(fl *ast.FuncLit) {
	saved := cloneHeld(fr.held)
	fr.body(fl.Body)
	fr.held = saved
}

// mayRun: a module function used as a value may be invoked where it appears.
func (fr *frame) mayRun(at ast.Expr, f *types.Func) {
	if _, isEntry := fr.a.entrySet[funcName(f.Origin())]; isEntry {
		return
	}
	u := fr.a.x.byObj[f.Origin()]
	if u == nil {
		return
	}
	ps := params(f)
	rels := make([]int, len(ps))
	for i := range rels {
		rels[i] = relOther
	}
	var held []hlock
	if sel, ok := ast.Unparen(at).(*ast.SelectorExpr); ok && fr.info.Selections[sel] != nil && len(ps) > 0 {
		if p, ok := fr.resolveRecv(sel); ok {
			rels[0] = fr.relOfPath(p, len(p.steps))
			held = fr.rebase(ps, []pathInfo{p}, []bool{true})
		}
	} else {
		held = fr.rebase(ps, nil, nil)
	}
	saved := fr.held
	fr.a.walkFunc(u, rels, held, fr.depth+1)
	fr.held = saved
}

// resolveRecv: the path of a method's receiver, embedded hops included.
func (fr *frame) resolveRecv(sel *ast.SelectorExpr) (pathInfo, bool) {
	s := fr.info.Selections[sel]
	p, ok := fr.resolve(sel.X)
	if !ok {
		return pathInfo{}, false
	}
	p.steps = append(append([]fstep{}, p.steps...), selSteps2(s)...)
	return p, true
}

// recvExpr records the loads performed to obtain a method's receiver.
func (fr *frame) recvExpr(sel *ast.SelectorExpr) (pathInfo, bool) {
	p, ok := fr.resolveRecv(sel)
	if !ok {
		fr.expr(sel.X, mR)
		return pathInfo{}, false
	}
	if len(p.steps) > 0 {
		m := mR
		if !isPointer(p.steps[len(p.steps)-1].typ) {
			m = mRecv // addressable value: &x.f, no load
			if _, isIface := p.steps[len(p.steps)-1].typ.Underlying().(*types.Interface); isIface {
				m = mR
			} else if f, ok := fr.info.Selections[sel].Obj().(*types.Func); ok {
				if r := f.Type().(*types.Signature).Recv(); r != nil && !isPointer(r.Type()) {
					m = mR // value receiver: the struct is copied
				}
			}
		}
		fr.emit(p, m)
	}
	return p, true
}

// recvExprMutex: x.mu.Lock(): only the loads on the way to the mutex's owner
func (fr *frame) recvExprMutex(sel *ast.SelectorExpr) {
	if p, ok := fr.resolveRecv(sel); ok && len(p.steps) > 0 {
		fr.emit(p, mRecv)
	}
}

// ---------------------------------------------------------------------------------------------
// calls

var atomicLoad = map[string]bool{"Load": true}

func (fr *frame) callExpr(c *ast.CallExpr, deferred bool) {
	fun := ast.Unparen(c.Fun)
	if tv, ok := fr.info.Types[fun]; ok && tv.IsType() { // conversion
		for _, a := range c.Args {
			fr.expr(a, mR)
		}
		return
	}
	args := func() {
		if deferred {
			return // evaluated when the defer statement ran
		}
		for _, a := range c.Args {
			fr.expr(a, mR)
		}
	}
	switch f := fun.(type) {
	case *ast.FuncLit:
		args()
		fr.inline(f)
		return
	case *ast.Ident:
		switch o := fr.info.Uses[f].(type) {
		case *types.Builtin:
			switch o.Name() {
			case "delete", "copy", "clear":
				for i, a := range c.Args {
					if i == 0 {
						fr.expr(a, mW)
					} else {
						fr.expr(a, mR)
					}
				}
			case "len", "cap":
				for _, a := range c.Args {
					fr.expr(a, mR)
				}
			default:
				args()
			}
			return
		case *types.Func:
			fr.staticCall(c, o, nil, deferred)
			return
		}
		if v, ok := fr.info.Uses[f].(*types.Var); ok {
			if bf := fr.fnBind[v]; bf != nil {
				fr.boundCall(c, bf)
				return
			}
		}
		args() // call of a function value held in a variable
		return
	case *ast.SelectorExpr:
		sel := fr.info.Selections[f]
		if sel == nil { // pkg.Func
			o, _ := fr.info.Uses[f.Sel].(*types.Func)
			if o != nil && o.Pkg() != nil && o.Pkg().Path() == "sync/atomic" && len(c.Args) > 0 {
				fr.atomicCall(c, o)
				return
			}
			if o != nil {
				fr.staticCall(c, o, nil, deferred)
				return
			}
			args()
			return
		}
		if sel.Kind() == types.FieldVal { // a function stored in a field
			fr.expr(f, mR)
			args()
			return
		}
		callee, _ := sel.Obj().(*types.Func)
		if callee == nil {
			args()
			return
		}
		recvT := callee.Type().(*types.Signature).Recv().Type()
		pkgPath := ""
		if callee.Pkg() != nil {
			pkgPath = callee.Pkg().Path()
		}
		switch {
		case pkgPath == "sync" && isMutex(recvT):
			fr.recvExprMutex(f)
			fr.lockOp(c, f, callee.Name())
			return
		case pkgPath == "sync/atomic" || pkgPath == "sync":
			m := mAtomicW
			if pkgPath == "sync/atomic" && atomicLoad[callee.Name()] {
				m = mAtomicR
			}
			if p, ok := fr.resolveRecv(f); ok && len(p.steps) > 0 {
				fr.emit(p, m)
			} else if !ok {
				fr.expr(f.X, mR)
			}
			args()
			return
		case types.IsInterface(sel.Recv()) || types.IsInterface(recvT):
			fr.recvExpr(f)
			args()
			return
		}
		fr.staticCall(c, callee, f, deferred)
		return
	default:
		fr.expr(fun, mR)
		args()
	}
}

// atomicCall: atomic.LoadT(&x.f) / StoreT / AddT / SwapT / CompareAndSwapT
func (fr *frame) atomicCall(c *ast.CallExpr, o *types.Func) {
	m := mAtomicW
	if strings.HasPrefix(o.Name(), "Load") {
		m = mAtomicR
	}
	first := ast.Unparen(c.Args[0])
	if u, ok := first.(*ast.UnaryExpr); ok && u.Op == token.AND {
		if p, ok := fr.resolve(u.X); ok {
			if len(p.steps) > 0 {
				fr.emit(p, m)
			}
		} else {
			fr.expr(u.X, mR)
		}
	} else {
		fr.expr(first, mR)
		if p, ok := fr.resolve(first); ok && fr.tracked(p) {
			fr.unknown(c, "atomic operation through a stored pointer")
		}
	}
	for _, a := range c.Args[1:] {
		fr.expr(a, mR)
	}
}

// staticCall: a call whose callee is known. sel != nil: method call with receiver expression sel.X.
func (fr *frame) staticCall(c *ast.CallExpr, callee *types.Func, sel *ast.SelectorExpr, deferred bool) {
	var recvPath pathInfo
	haveRecv := false
	if sel != nil {
		recvPath, haveRecv = fr.recvExpr(sel)
	}
	u := fr.a.x.byObj[callee.Origin()]
	inMod := u != nil && fr.a.x.inModule(callee.Pkg())
	if !deferred {
		for _, a := range c.Args {
			if fl, ok := ast.Unparen(a).(*ast.FuncLit); ok {
				fr.inline(fl)
				continue
			}
			if inMod && fr.funcValueOf(a) != nil {
				if se, ok := ast.Unparen(a).(*ast.SelectorExpr); ok && fr.info.Selections[se] != nil {
					fr.recvExpr(se)
				}
				continue // handed to the callee as a binding: it runs where the callee calls (or hands on) its parameter
			}
			fr.expr(a, mR)
		}
	}
	if u == nil || !fr.a.x.inModule(callee.Pkg()) {
		// another module (or no body): what a pointer argument points to is in its hands
		return
	}
	if _, isEntry := fr.a.entrySet[funcName(callee.Origin())]; isEntry && fr.a.thread == thSetup {
		return // e.g. Serve → the listeners get EstablishConnection as a value
	}
	ps := params(callee)
	rels := make([]int, len(ps))
	paths := make([]pathInfo, len(ps))
	have := make([]bool, len(ps))
	binds := make([]binding, len(ps))
	for i := range rels {
		rels[i] = relOther
	}
	off := 0
	if sel != nil && len(ps) > 0 {
		off = 1
		if haveRecv {
			rels[0], paths[0], have[0] = fr.relOfPath(recvPath, len(recvPath.steps)), recvPath, true
		}
	}
	sig := callee.Type().(*types.Signature)
	for i, a := range c.Args {
		j := i + off
		if j >= len(ps) || (sig.Variadic() && j == len(ps)-1) {
			break
		}
		rels[j] = fr.relOfExpr(a)
		if p, ok := fr.resolveQuiet(a); ok {
			paths[j], have[j] = p, true
		}
		binds[j] = binding{fn: fr.funcValueOf(a), pkType: fr.packetTypeOf(a)}
	}
	held := fr.rebase(ps, paths, have)
	savedHeld := fr.held
	fr.a.walkFunc(u, rels, held, fr.depth+1, binds...)
	fr.held = savedHeld
	// publication events
	name := funcName(callee.Origin())
	for i, a := range c.Args {
		id, ok := ast.Unparen(a).(*ast.Ident)
		if !ok {
			continue
		}
		v, ok := fr.info.Uses[id].(*types.Var)
		if !ok {
			continue
		}
		_ = i
		if name == "mqtt.(*Clients).Add" {
			if r, ok := fr.rel[v]; ok && (r == relFresh || r == relOwnPre) {
				if fr.a.thread == thHandler {
					fr.rel[v] = relOwn
				} else {
					fr.rel[v] = relOther
				}
			}
		} else if fr.rel[v] == relFresh && !fr.a.isConstructor(callee) {
			if _, tracked := fr.rel[v]; tracked {
				fr.rel[v] = relOther // handed to another function: the callee saw it as fresh, the caller no longer does
			}
		}
	}
}

func (fr *frame) call(c *ast.CallExpr, f *types.Func, u *unit) {
	if sel, ok := ast.Unparen(c.Fun).(*ast.SelectorExpr); ok && fr.info.Selections[sel] != nil {
		fr.staticCall(c, f, sel, true)
		return
	}
	fr.staticCall(c, f, nil, true)
}

// resolveQuiet resolves without visiting anything (the expression has been visited already).
func (fr *frame) resolveQuiet(e ast.Expr) (pathInfo, bool) {
	switch e := ast.Unparen(e).(type) {
	case *ast.Ident:
		if v, ok := fr.info.Uses[e].(*types.Var); ok && !v.IsField() && v.Pkg() != nil && v.Parent() != v.Pkg().Scope() {
			return pathInfo{root: v, baseType: v.Type(), pos: e.Pos()}, true
		}
	case *ast.StarExpr:
		return fr.resolveQuiet(e.X)
	case *ast.UnaryExpr:
		if e.Op == token.AND {
			return fr.resolveQuiet(e.X)
		}
	case *ast.SelectorExpr:
		sel := fr.info.Selections[e]
		if sel == nil || sel.Kind() != types.FieldVal {
			return pathInfo{}, false
		}
		p, ok := fr.resolveQuiet(e.X)
		if !ok {
			return pathInfo{}, false
		}
		p.steps = append(append([]fstep{}, p.steps...), selSteps2(sel)...)
		return p, true
	}
	return pathInfo{}, false
}

// rebase names the caller's locks from the callee's parameters: a lock whose owner lies on (or below) the
// path passed for parameter j is named from that parameter; "the" locks keep their name; the rest is dropped.
func (fr *frame) rebase(ps []*types.Var, paths []pathInfo, have []bool) []hlock {
	var out []hlock
	for _, h := range fr.held {
		if h.the {
			out = append(out, h)
			continue
		}
		for j := range paths {
			if !have[j] || paths[j].root == nil || paths[j].root != h.root {
				continue
			}
			arg := stepsString(paths[j].steps)
			if h.path == arg {
				out = append(out, hlock{root: ps[j], path: "", cls: h.cls, mode: h.mode})
				break
			}
			if arg == "" {
				out = append(out, hlock{root: ps[j], path: h.path, cls: h.cls, mode: h.mode})
				break
			}
			if strings.HasPrefix(h.path, arg+".") {
				out = append(out, hlock{root: ps[j], path: h.path[len(arg)+1:], cls: h.cls, mode: h.mode})
				break
			}
		}
	}
	return out
}

// ---------------------------------------------------------------------------------------------
// locks

func (fr *frame) lockOp(c *ast.CallExpr, sel *ast.SelectorExpr, method string) {
	p, ok := fr.resolveRecv(sel)
	if !ok || len(p.steps) == 0 {
		fr.unknown(c, "mutex that is not a struct field")
		return
	}
	m := p.steps[len(p.steps)-1]
	owner := p.steps[:len(p.steps)-1]
	h := hlock{root: p.root, path: stepsString(owner), cls: m.declaring + "." + m.name}
	// one-per-broker locks: the mutex of a singleton, or of the object a singleton's field designates
	ownerClass := classOf(p.baseType)
	if len(owner) > 0 {
		ownerClass = classOf(owner[len(owner)-1].typ)
	}
	if singletonClasses[ownerClass] {
		h.the = true
	} else if len(owner) > 0 && singletonClasses[owner[len(owner)-1].declaring] {
		h.the = true
		h.cls = owner[len(owner)-1].declaring + "." + owner[len(owner)-1].name + "→" + h.cls
	}
	switch method {
	case "Lock", "RLock":
		h.mode = "W"
		if method == "RLock" {
			h.mode = "R"
		}
		fr.held = append(cloneHeld(fr.held), h)
	case "Unlock", "RUnlock":
		var keep []hlock
		for _, k := range fr.held {
			if !k.same(h) {
				keep = append(keep, k)
			}
		}
		fr.held = keep
	default:
		fr.unknown(c, "unsupported mutex method "+method)
	}
}

// funcValueOf: the module function an argument denotes (method value, function name, or a bound parameter).
func (fr *frame) funcValueOf(e ast.Expr) *types.Func {
	switch e := ast.Unparen(e).(type) {
	case *ast.Ident:
		switch o := fr.info.Uses[e].(type) {
		case *types.Func:
			if fr.a.x.byObj[o.Origin()] != nil {
				return o
			}
		case *types.Var:
			return fr.fnBind[o]
		}
	case *ast.SelectorExpr:
		if sel := fr.info.Selections[e]; sel != nil {
			if sel.Kind() == types.MethodVal && !types.IsInterface(sel.Recv()) {
				if f, ok := sel.Obj().(*types.Func); ok && fr.a.x.byObj[f.Origin()] != nil {
					return f
				}
			}
			return nil
		}
		if f, ok := fr.info.Uses[e.Sel].(*types.Func); ok && fr.a.x.byObj[f.Origin()] != nil {
			return f
		}
	}
	return nil
}

// boundCall: `fn(args)` where fn is a parameter for which the caller passed module function f. If f is a
// method its receiver was bound by the caller (relation other: in this code base always the Server).
func (fr *frame) boundCall(c *ast.CallExpr, f *types.Func) {
	for _, a := range c.Args {
		fr.expr(a, mR)
	}
	if _, isEntry := fr.a.entrySet[funcName(f.Origin())]; isEntry {
		return
	}
	u := fr.a.x.byObj[f.Origin()]
	if u == nil {
		return
	}
	ps := params(f)
	rels := make([]int, len(ps))
	paths := make([]pathInfo, len(ps))
	have := make([]bool, len(ps))
	binds := make([]binding, len(ps))
	for i := range rels {
		rels[i] = relOther
	}
	off := 0
	if f.Type().(*types.Signature).Recv() != nil {
		off = 1
	}
	for i, a := range c.Args {
		j := i + off
		if j >= len(ps) {
			break
		}
		rels[j] = fr.relOfExpr(a)
		if p, ok := fr.resolveQuiet(a); ok {
			paths[j], have[j] = p, true
		}
		binds[j] = binding{fn: fr.funcValueOf(a), pkType: fr.packetTypeOf(a)}
	}
	held := fr.rebase(ps, paths, have)
	saved := fr.held
	fr.a.walkFunc(u, rels, held, fr.depth+1, binds...)
	fr.held = saved
}
