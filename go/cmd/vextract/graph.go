package main

import (
	"fmt"
	"sort"
	"strings"
)

type gfunc struct {
	id   int
	u    *unit
	body *Prog
}

type graph struct {
	x       *extractor
	funcs   []*gfunc
	byUnit  map[*unit]*gfunc
	classes []string
	fields  []string
	clsID   map[string]int
	fldID   map[string]int

	unbounded []finding // set by summaries()
}

func (p *Prog) any(pred func(*Prog) bool) bool {
	if pred(p) {
		return true
	}
	for _, s := range p.Subs {
		if s.any(pred) {
			return true
		}
	}
	return false
}

func (p *Prog) each(f func(*Prog)) {
	f(p)
	for _, s := range p.Subs {
		s.each(f)
	}
}

func isLockOp(p *Prog) bool {
	return p.Kind == "acquire" || p.Kind == "release" || p.Kind == "deferRelease"
}

// fixJumps: break/continue/goto leave a construct early. That is harmless while the construct contains no
// direct lock operation (calls leave the held set unchanged); otherwise the jump becomes `unknown`.
func fixJumps(p *Prog, root bool) {
	isJump := func(q *Prog) bool { return q.Kind == "jump" }
	if (root || p.Kind == "loop" || p.Kind == "alt") && p.any(isJump) && p.any(isLockOp) {
		p.each(func(q *Prog) {
			if q.Kind == "jump" && (!root || strings.Contains(q.Text, "goto")) {
				q.Kind, q.Text = "unknown", "jump inside a construct with lock operations — "+q.Text
			}
		})
	}
	for _, s := range p.Subs {
		fixJumps(s, false)
	}
	if root {
		p.each(func(q *Prog) {
			if q.Kind == "jump" {
				q.Kind = "skip"
			}
		})
	}
}

// isMayReturn: alt(ret, skip)
func isMayReturn(p *Prog) bool {
	return p.Kind == "alt" && len(p.Subs) == 2 && p.Subs[0].Kind == "ret" && p.Subs[1].Kind == "skip"
}

// simplify flattens sequences, drops skips and the code after a ret, and removes empty alternatives/loops.
func simplify(p *Prog) *Prog {
	switch p.Kind {
	case "seq":
		out := seq()
		for _, s := range p.Subs {
			s = simplify(s)
			if s.Kind == "seq" {
				out.Subs = append(out.Subs, s.Subs...)
			} else if n := len(out.Subs); n > 0 && isMayReturn(s) && isMayReturn(out.Subs[n-1]) {
				// `if .. {return}` twice in a row is the same as once
			} else if s.Kind != "skip" {
				out.Subs = append(out.Subs, s)
			}
			if n := len(out.Subs); n > 0 && out.Subs[n-1].Kind == "ret" {
				break
			}
		}
		if len(out.Subs) == 0 {
			return skip()
		}
		if len(out.Subs) == 1 {
			return out.Subs[0]
		}
		return out
	case "alt":
		out, hasSkip := alt(), false
		for _, s := range p.Subs {
			s = simplify(s)
			if s.Kind == "skip" {
				hasSkip = true
			} else if s.Kind == "alt" {
				out.Subs = append(out.Subs, s.Subs...)
			} else {
				out.Subs = append(out.Subs, s)
			}
		}
		if hasSkip {
			out.Subs = append(out.Subs, skip())
		}
		if len(out.Subs) == 1 {
			return out.Subs[0]
		}
		return out
	case "loop":
		s := simplify(p.Subs[0])
		if s.Kind == "skip" {
			return s
		}
		return loop(s)
	}
	return p
}

// graph selects the functions that touch a lock (directly or through module calls), prunes the rest and
// numbers functions, lock classes and fields.
func (x *extractor) graph() *graph {
	g := &graph{x: x, byUnit: map[*unit]*gfunc{}, clsID: map[string]int{}, fldID: map[string]int{}}
	for _, u := range x.units {
		fixJumps(u.prog, true)
		// a class refined by the designating field ("T.f→B") is only kept while no function locks B on its
		// own receiver: otherwise the same mutex could be named B in a callee and T.f→B in its caller.
		u.prog.each(func(p *Prog) {
			if i := strings.LastIndex(p.Lock.Cls, "→"); i >= 0 && x.selfCls[p.Lock.Cls[i+len("→"):]] {
				p.Lock.Cls = p.Lock.Cls[i+len("→"):]
			}
		})
	}
	relevant := map[*unit]bool{}
	for changed := true; changed; {
		changed = false
		for _, u := range x.units {
			if !relevant[u] && u.prog.any(func(p *Prog) bool {
				return isLockOp(p) || p.Kind == "unknown" || (p.Kind == "call" && relevant[p.Callee])
			}) {
				relevant[u], changed = true, true
			}
		}
	}
	for _, u := range x.units {
		if !relevant[u] {
			continue
		}
		u.prog.each(func(p *Prog) {
			if (p.Kind == "call" || p.Kind == "spawn") && !relevant[p.Callee] {
				p.Kind = "skip"
			}
		})
		f := &gfunc{id: len(g.funcs), u: u, body: simplify(u.prog)}
		if f.body.Kind == "ret" { // a final return is the same as falling off the end
			f.body = skip()
		} else if n := len(f.body.Subs); f.body.Kind == "seq" && f.body.Subs[n-1].Kind == "ret" {
			f.body = simplify(seq(f.body.Subs[:n-1]...))
		}
		g.funcs = append(g.funcs, f)
		g.byUnit[u] = f
	}
	cls, fld := map[string]bool{}, map[string]bool{}
	for _, f := range g.funcs {
		f.body.each(func(p *Prog) {
			if isLockOp(p) {
				cls[p.Lock.Cls] = true
			}
			for _, s := range append(append(Path{}, p.Lock.Owner...), p.Recv...) {
				if s.Field != "" {
					fld[s.Field] = true
				}
			}
		})
	}
	for c := range cls {
		g.classes = append(g.classes, c)
	}
	for f := range fld {
		g.fields = append(g.fields, f)
	}
	sort.Strings(g.classes)
	sort.Strings(g.fields)
	for i, c := range g.classes {
		g.clsID[c] = i
	}
	for i, f := range g.fields {
		g.fldID[f] = i
	}
	return g
}

// ---------------------------------------------------------------------------------------------
// Lean rendering

func leanStr(s string) string {
	r := strings.NewReplacer("\\", "\\\\", "\"", "\\\"", "\n", " ", "\t", " ")
	return "\"" + r.Replace(s) + "\""
}

func (g *graph) leanPath(p Path) string {
	s := make([]string, len(p))
	for i, e := range p {
		if e.Field == "" {
			s[i] = ".other"
		} else {
			s[i] = fmt.Sprintf(".fld %d", g.fldID[e.Field])
		}
	}
	return "[" + strings.Join(s, ", ") + "]"
}

func (g *graph) leanLock(l LockRef) string {
	return fmt.Sprintf("⟨%s, %d⟩", g.leanPath(l.Owner), g.clsID[l.Cls])
}

func (g *graph) leanProg(p *Prog, ind string) string {
	switch p.Kind {
	case "skip":
		return ".skip"
	case "ret":
		return ".ret"
	case "acquire", "release", "deferRelease":
		return fmt.Sprintf(".%s %s .%s", p.Kind, g.leanLock(p.Lock), p.Mode)
	case "call", "spawn":
		return fmt.Sprintf(".%s %d %s /- %s -/", p.Kind, g.byUnit[p.Callee].id, g.leanPath(p.Recv), p.Callee.name)
	case "callUnknown", "unknown":
		return fmt.Sprintf(".%s %s", p.Kind, leanStr(p.Text))
	case "loop":
		return ".loop (" + g.leanProg(p.Subs[0], ind+"  ") + ")"
	case "seq", "alt":
		var b strings.Builder
		for i, s := range p.Subs {
			if i == len(p.Subs)-1 {
				b.WriteString("(" + g.leanProg(s, ind+"  ") + ")")
				break
			}
			fmt.Fprintf(&b, ".%s (%s) <|\n%s", p.Kind, g.leanProg(s, ind+"  "), ind)
		}
		return b.String()
	}
	panic("kind " + p.Kind)
}

func (g *graph) lean() string {
	var b strings.Builder
	b.WriteString("/- GENERATED by go/cmd/vextract from the broker's source (tie A) — do not edit.\n")
	b.WriteString("   Lock graph of the production build; see go/cmd/vextract/main.go for what each event means.\n")
	b.WriteString("   `acq` is the extractor's summary of a function (every lock it may acquire, through calls of any depth,\n")
	b.WriteString("   relative to its receiver); the Lean checkers re-check that it is closed, it is not trusted. -/\n")
	b.WriteString("import Mochi.Model.Locks\nnamespace Mochi.Gen\nopen Mochi.Locks\n\n")
	b.WriteString("/-- lock classes, index = class id (`T.f→C`: the mutex C of the object stored in field f of a T) -/\n")
	b.WriteString("def lockClassNames : List String := [\n")
	for i, c := range g.classes {
		fmt.Fprintf(&b, "  /- %d -/ %s%s\n", i, leanStr(c), comma(i, len(g.classes)))
	}
	b.WriteString("]\n\n/-- field names, index = the id used by `Seg.fld` -/\ndef fieldNames : List String := [\n")
	for i, f := range g.fields {
		fmt.Fprintf(&b, "  /- %d -/ %s%s\n", i, leanStr(f), comma(i, len(g.fields)))
	}
	b.WriteString("]\n\n")
	sum := g.summaries()
	for _, f := range g.funcs {
		acqs := make([]string, len(sum[f]))
		for i, a := range sum[f] {
			acqs[i] = g.leanLock(a.ref)
		}
		fmt.Fprintf(&b, "/-- %s  (%s) -/\ndef f%d : Func := {\n  id := %d, name := %s,\n  acq := [%s],\n  body := (\n  %s) }\n\n",
			f.u.name, g.x.position(f.u.pos), f.id, f.id, leanStr(f.u.name), strings.Join(acqs, ", "), g.leanProg(f.body, "  "))
	}
	b.WriteString("/-- one entry per function/method/function literal that (transitively or directly) touches a lock, in source order -/\n")
	b.WriteString("def lockFuncs : List Func := [")
	for i, f := range g.funcs {
		if i%12 == 0 {
			b.WriteString("\n  ")
		}
		fmt.Fprintf(&b, "f%d%s ", f.id, comma(i, len(g.funcs)))
	}
	b.WriteString("\n]\n\nend Mochi.Gen\n")
	return b.String()
}

func comma(i, n int) string {
	if i+1 < n {
		return ","
	}
	return ""
}
