// vextract — tie A: regenerates Lean *data* files from the broker's source (DESIGN.md §2.3).
//
//	vextract -repo /repo -out lean/Mochi/Gen     writes Gen/LockGraph.lean, RootLock.lean, Access.lean, AccessKnown.lean,
//	                                             Gen/PropTable.lean, Gen/Codes.lean (tables.go) and Gen/Programs.lean (order.go)
//	vextract -repo /repo -report [-json]         prints the re-entrant / unordered acquisitions it finds
//	vextract -repo /repo -racereport [-json] [-known known-findings.txt]
//	                                             prints the unsynchronised conflicting access pairs (C33)
//	vextract -repo /repo -accessdump             prints the access table (Gen/Access.lean, readable)
//
// The production build is analysed (no build tag: `//go:build verif` files are excluded, `!verif`
// included), every package of the module except examples/ and cmd/, never *_test.go.
//
// What the lock graph contains (Mochi/Model/Locks.lean gives the types and the checkers):
//   - one Func per function, method or function literal that touches a sync.Mutex/RWMutex directly
//     or through static calls inside the module; function literals become pseudo functions
//     `<encl>$<n>` on the receiver of the enclosing method;
//   - Lock/RLock -> acquire, Unlock/RUnlock -> release, `defer x.Unlock()` -> deferRelease;
//   - a static call to a module function -> call <id> <receiver path>; the receiver path says where
//     the callee's receiver lives relative to the caller's receiver: [] same object, [f,g] the object
//     in field f.g, [..., other] some object the extractor cannot relate to the receiver;
//   - interface calls (hooks, net.Conn, listeners.Listener, ...) and calls of function values are
//     callUnknown: they are ASSUMED to acquire no broker lock;
//   - `go f()` is spawn (nothing is nested in the spawner); `defer f()` runs f at every exit;
//   - a function literal or method value that is passed or stored is assumed to run zero or more times
//     where it appears (covers sort.Slice, sync.Once.Do, ...), calls through the stored value are callUnknown;
//   - if/switch/select -> alt, for/range -> loop, return -> ret;
//   - anything else that involves a mutex (TryLock, a mutex that is not a struct field, a mutex used as a
//     value, break/continue/goto inside a construct with lock operations, `defer x.Lock()`) -> unknown "<src>",
//     which the Lean checkers reject.
//
// Not modelled: panics, channels, WaitGroup, sync.Once/Cond, aliasing between a local variable and the
// receiver (a local is always "other"), re-assignment of fields on a path between two uses.
package main

import (
	"flag"
	"fmt"
	"go/ast"
	"go/token"
	"go/types"
	"os"
	"path/filepath"
	"sort"
	"strings"

	"golang.org/x/tools/go/packages"
)

type unit struct { // one function body to translate
	name string
	pkg  *packages.Package
	recv *types.Var // receiver object if it is never re-assigned, else nil
	body *ast.BlockStmt
	pos  token.Pos
	prog *Prog
}

type extractor struct {
	fset    *token.FileSet
	modPath string
	pkgs    []*packages.Package
	byObj   map[*types.Func]*unit
	units   []*unit
	selfCls map[string]bool // lock classes acquired on the receiver itself somewhere
}

func main() {
	repo := flag.String("repo", "/repo", "module root to analyse")
	out := flag.String("out", "", "directory for the generated Lean files")
	report := flag.Bool("report", false, "print the offending acquisitions instead of writing files")
	asJSON := flag.Bool("json", false, "with -report / -racereport: one JSON object per line")
	raceReport := flag.Bool("racereport", false, "print the unsynchronised conflicting access pairs (C33) instead of writing files")
	accessDump := flag.Bool("accessdump", false, "print the whole access table")
	knownPath := flag.String("known", "", "known-findings.txt (C33 signatures become Gen/AccessKnown.lean)")
	flag.Parse()
	x, err := load(*repo)
	if err != nil {
		fmt.Fprintln(os.Stderr, "vextract:", err)
		os.Exit(2)
	}
	x.translateAll()
	known, badKnown := parseKnown(*knownPath)
	if *raceReport || *accessDump {
		a := x.accessTable()
		if *accessDump {
			a.dump(os.Stdout)
			return
		}
		if a.raceReport(os.Stdout, known, *asJSON) > 0 {
			os.Exit(1)
		}
		return
	}
	g := x.graph()
	if *report {
		n := g.report(os.Stdout, *asJSON)
		if n > 0 {
			os.Exit(1)
		}
		return
	}
	if *out == "" {
		fmt.Fprintln(os.Stderr, "vextract: -out or -report required")
		os.Exit(2)
	}
	changed := 0
	a := x.accessTable()
	files := map[string]string{"LockGraph.lean": g.lean(), "RootLock.lean": x.rootLockLean(),
		"Access.lean": a.lean(), "AccessKnown.lean": a.knownLean(known, badKnown),
		"PropTable.lean": x.propTableLean(), "Codes.lean": x.codesLean(), "Programs.lean": x.programsLean()}
	for _, name := range []string{"LockGraph.lean", "RootLock.lean", "Access.lean", "AccessKnown.lean", "PropTable.lean", "Codes.lean", "Programs.lean"} {
		if writeIfChanged(filepath.Join(*out, name), files[name]) {
			changed++
		}
	}
	fmt.Printf("vextract: %d lock functions, %d lock classes, %d access rows, %d file(s) rewritten\n", len(g.funcs), len(g.classes), len(a.rows), changed)
}

func writeIfChanged(path, content string) bool {
	if old, err := os.ReadFile(path); err == nil && string(old) == content {
		return false
	}
	if err := os.MkdirAll(filepath.Dir(path), 0o755); err != nil {
		panic(err)
	}
	if err := os.WriteFile(path, []byte(content), 0o644); err != nil {
		panic(err)
	}
	return true
}

// load parses and type-checks the production build of the module's packages.
func load(repo string) (*extractor, error) {
	env := []string{}
	for _, e := range os.Environ() {
		if !strings.HasPrefix(e, "GOFLAGS=") {
			env = append(env, e)
		}
	}
	env = append(env, "GOFLAGS=-mod=readonly") // never touch the analysed module's go.mod/go.sum
	fset := token.NewFileSet()
	cfg := &packages.Config{
		Mode: packages.NeedName | packages.NeedFiles | packages.NeedCompiledGoFiles | packages.NeedSyntax |
			packages.NeedTypes | packages.NeedTypesInfo | packages.NeedImports | packages.NeedModule,
		Dir: repo, Env: env, Fset: fset, Tests: false,
	}
	pkgs, err := packages.Load(cfg, "./...")
	if err != nil {
		return nil, err
	}
	x := &extractor{fset: fset, byObj: map[*types.Func]*unit{}, selfCls: map[string]bool{}}
	for _, p := range pkgs {
		if p.Module == nil || !p.Module.Main {
			continue
		}
		x.modPath = p.Module.Path
		rel := strings.TrimPrefix(strings.TrimPrefix(p.PkgPath, p.Module.Path), "/")
		if rel == "examples" || strings.HasPrefix(rel, "examples/") || rel == "cmd" || strings.HasPrefix(rel, "cmd/") {
			continue
		}
		for _, e := range p.Errors {
			return nil, fmt.Errorf("package %s: %v", p.PkgPath, e)
		}
		x.pkgs = append(x.pkgs, p)
	}
	if len(x.pkgs) == 0 {
		return nil, fmt.Errorf("no packages of the main module found under %s", repo)
	}
	sort.Slice(x.pkgs, func(i, j int) bool { return x.pkgs[i].PkgPath < x.pkgs[j].PkgPath })
	return x, nil
}

func (x *extractor) inModule(p *types.Package) bool {
	return p != nil && (p.Path() == x.modPath || strings.HasPrefix(p.Path(), x.modPath+"/"))
}

func (x *extractor) position(p token.Pos) string {
	pp := x.fset.Position(p)
	return fmt.Sprintf("%s:%d", filepath.Base(pp.Filename), pp.Line)
}

// funcName renders pkg.(*T).M / pkg.T.M / pkg.F
func funcName(f *types.Func) string {
	sig := f.Type().(*types.Signature)
	pkg := f.Pkg().Name()
	if r := sig.Recv(); r != nil {
		t, ptr := r.Type(), false
		if p, ok := t.(*types.Pointer); ok {
			t, ptr = p.Elem(), true
		}
		n := "?"
		if nt, ok := t.(*types.Named); ok {
			n = nt.Obj().Name()
		}
		if ptr {
			return fmt.Sprintf("%s.(*%s).%s", pkg, n, f.Name())
		}
		return fmt.Sprintf("%s.%s.%s", pkg, n, f.Name())
	}
	return pkg + "." + f.Name()
}

// translateAll creates one unit per declared function (source order) and translates the bodies;
// function literals append further units while their enclosing function is translated.
func (x *extractor) translateAll() {
	seen := map[string]int{}
	var decls []*unit
	for _, p := range x.pkgs {
		files := append([]*ast.File(nil), p.Syntax...)
		sort.Slice(files, func(i, j int) bool {
			return x.fset.Position(files[i].Pos()).Filename < x.fset.Position(files[j].Pos()).Filename
		})
		for _, f := range files {
			if strings.HasSuffix(x.fset.Position(f.Pos()).Filename, "_test.go") {
				continue
			}
			for _, d := range f.Decls {
				fd, ok := d.(*ast.FuncDecl)
				if !ok || fd.Body == nil {
					continue
				}
				obj := p.TypesInfo.Defs[fd.Name].(*types.Func)
				u := &unit{name: funcName(obj), pkg: p, body: fd.Body, pos: fd.Pos()}
				if seen[u.name]++; seen[u.name] > 1 { // several init functions
					u.name = fmt.Sprintf("%s#%d", u.name, seen[u.name])
				}
				if fd.Recv != nil && len(fd.Recv.List) == 1 && len(fd.Recv.List[0].Names) == 1 {
					if rv, ok := p.TypesInfo.Defs[fd.Recv.List[0].Names[0]].(*types.Var); ok && !reassigned(p.TypesInfo, fd.Body, rv) {
						u.recv = rv
					}
				}
				x.byObj[obj] = u
				decls = append(decls, u)
			}
		}
	}
	for _, u := range decls {
		x.units = append(x.units, u)
		t := &translator{x: x, u: u, info: u.pkg.TypesInfo}
		u.prog = t.function(u.body)
	}
}

// reassigned reports whether variable v is assigned to, or has its address taken, inside body.
func reassigned(info *types.Info, body ast.Node, v *types.Var) bool {
	is := func(e ast.Expr) bool {
		id, ok := ast.Unparen(e).(*ast.Ident)
		return ok && (info.Uses[id] == v || info.Defs[id] == v)
	}
	found := false
	ast.Inspect(body, func(n ast.Node) bool {
		switch n := n.(type) {
		case *ast.AssignStmt:
			for _, l := range n.Lhs {
				found = found || is(l)
			}
		case *ast.IncDecStmt:
			found = found || is(n.X)
		case *ast.UnaryExpr:
			found = found || (n.Op == token.AND && is(n.X))
		case *ast.RangeStmt:
			found = found || (n.Key != nil && is(n.Key)) || (n.Value != nil && is(n.Value))
		}
		return !found
	})
	return found
}

// ---------------------------------------------------------------------------------------------
// receiver-relative paths and mutex recognition

// Seg is one step of a receiver-relative path: a field name, or "other" (Field == "").
type Seg struct{ Field string }
type Path []Seg

var otherPath = Path{{}}

func (p Path) isOther() bool { return len(p) > 0 && p[len(p)-1].Field == "" }
func (p Path) String() string {
	if len(p) == 0 {
		return "self"
	}
	s := make([]string, len(p))
	for i, g := range p {
		if s[i] = g.Field; g.Field == "" {
			s[i] = "<other>"
		}
	}
	return strings.Join(s, ".")
}

type LockRef struct {
	Owner Path
	Cls   string
}

func (l LockRef) key() string    { return l.Owner.String() + "|" + l.Cls }
func (l LockRef) String() string { return l.Cls + " of " + l.Owner.String() }
func (l LockRef) rebase(p Path) LockRef {
	return LockRef{append(append(Path{}, p...), l.Owner...), l.Cls}
}

func deref(t types.Type) types.Type {
	if p, ok := t.Underlying().(*types.Pointer); ok {
		return p.Elem()
	}
	return t
}

func typeName(t types.Type) string {
	if n, ok := deref(t).(*types.Named); ok && n.Obj().Pkg() != nil {
		return n.Obj().Pkg().Name() + "." + n.Obj().Name()
	}
	return types.TypeString(deref(t), func(p *types.Package) string { return p.Name() })
}

func isMutex(t types.Type) bool {
	n, ok := deref(t).(*types.Named)
	return ok && n.Obj().Pkg() != nil && n.Obj().Pkg().Path() == "sync" && (n.Obj().Name() == "Mutex" || n.Obj().Name() == "RWMutex")
}

// step is one field selection: the field and the struct type that declares it.
type step struct{ field, declaring string }

// selSteps expands a selection (explicit field plus the embedded fields the compiler inserts).
func selSteps(sel *types.Selection) []step {
	var out []step
	t := sel.Recv()
	idx := sel.Index()
	if sel.Kind() != types.FieldVal {
		idx = idx[:len(idx)-1] // the last index is the method
	}
	for _, i := range idx {
		st, ok := deref(t).Underlying().(*types.Struct)
		if !ok {
			return nil
		}
		out = append(out, step{st.Field(i).Name(), typeName(t)})
		t = st.Field(i).Type()
	}
	return out
}

// fieldSteps returns the chain of field selections from the receiver (rooted == true) or from some other
// object (rooted == false) that e denotes; ok == false if e is not a chain of field selections.
func (t *translator) fieldSteps(e ast.Expr) (steps []step, rooted, ok bool) {
	switch e := ast.Unparen(e).(type) {
	case *ast.Ident:
		v, isVar := t.info.Uses[e].(*types.Var)
		if !isVar {
			return nil, false, false
		}
		return nil, t.u.recv != nil && v == t.u.recv, true
	case *ast.StarExpr:
		return t.fieldSteps(e.X)
	case *ast.UnaryExpr:
		if e.Op == token.AND {
			return t.fieldSteps(e.X)
		}
	case *ast.SelectorExpr:
		sel := t.info.Selections[e]
		if sel == nil || sel.Kind() != types.FieldVal {
			return nil, false, false
		}
		base, rooted, ok := t.fieldSteps(e.X)
		if !ok { // a field of something that is not a variable (call result, index, ...): an other object
			return selSteps(sel), false, true
		}
		return append(base, selSteps(sel)...), rooted, true
	}
	return nil, false, false
}

// pathOf is the receiver-relative path of the object e denotes.
func (t *translator) pathOf(e ast.Expr, implicit []step) Path {
	steps, rooted, ok := t.fieldSteps(e)
	if !ok || !rooted {
		return otherPath
	}
	p := Path{}
	for _, s := range append(steps, implicit...) {
		p = append(p, Seg{s.field})
	}
	return p
}

// lockRef names the mutex denoted by e (+ implicit embedded steps): owner path and class.
// The class is "<struct that declares the mutex field>.<field>"; when the owner is itself designated by a
// field path ending in field f of struct T the class is refined to "T.f→<class>" (see refineClasses).
func (t *translator) lockRef(e ast.Expr, implicit []step) (LockRef, bool) {
	steps, rooted, ok := t.fieldSteps(e)
	steps = append(steps, implicit...)
	if !ok || len(steps) == 0 { // a mutex that is not a struct field
		return LockRef{}, false
	}
	m := steps[len(steps)-1]
	ref := LockRef{Owner: otherPath, Cls: m.declaring + "." + m.field}
	if rooted {
		ref.Owner = Path{}
		for _, s := range steps[:len(steps)-1] {
			ref.Owner = append(ref.Owner, Seg{s.field})
		}
	}
	if len(steps) >= 2 { // owner designated by a field: candidate for refinement
		o := steps[len(steps)-2]
		ref.Cls = o.declaring + "." + o.field + "→" + ref.Cls
	}
	return ref, true
}
