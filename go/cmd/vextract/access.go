package main

// Access table (tie A for C33): every read and write the production build performs on the broker's
// shared structures, with the role of the goroutine that performs it, whether it is a sync/atomic
// operation, and the locks that are held on every path to it. Mochi/Model/Access.lean gives the rows a
// meaning; this file produces them.
//
// How it works
//   - a context-sensitive walk of the static call graph from the entry points in `entries` (one per
//     goroutine kind). A context is (thread kind, relation of every parameter to the thread, locks held by
//     the callers that the callee can name);
//   - relation of a variable to the thread: fresh (created here, not yet handed to anybody), ownPre (the
//     handler's own client between `go cl.WriteLoop()` and `Clients.Add(cl)`), own (the handler's /
//     write loop's own client), other (anything found through shared structures). Objects of the
//     broker-wide classes (Server, Clients, TopicsIndex, particle tree, Info, Packets) are always `other`;
//   - (thread, relation) gives the role of a row (see roleOf);
//   - a memory location is (class of the innermost object reached through a pointer — or of a by-value
//     member struct that carries its own mutex —, chain of fields inside it);
//   - locks: Lock/RLock/Unlock/RUnlock/defer Unlock are tracked per function as *must-hold* sets (the
//     intersection over branches; a loop body starts from the loop's entry set). A lock enters a row only if
//     it is the mutex of the accessed object itself ("self:<class>") or of a one-per-broker object
//     ("the:<class>"); every other lock is dropped;
//   - anything that touches a tracked location in a way the walk cannot classify becomes an `unknown` row
//     (address taken outside sync/atomic, unresolvable base expression, `go` of an unlisted function).
//
// Not seen: calls through interfaces and function values (hooks, listeners), reflection, unsafe, code in
// dependencies, files with the `verif` build tag, tests. Functions that touch tracked locations but are not
// reachable from an entry point are listed in the generated file's header.

import (
	"fmt"
	"go/ast"
	"go/token"
	"go/types"
	"sort"
	"strings"
)

// ---------------------------------------------------------------------------------------------
// fixed vocabulary

var roleNames = []string{"init", "preAdd", "handler", "handlerOther", "writeLoopIdle", "writeLoop", "writeLoopAny",
	"eventLoop", "closer", "inlineAPI", "unknown"}

const (
	roleInit = iota
	rolePreAdd
	roleHandler
	roleHandlerOther
	roleWriteLoopIdle
	roleWriteLoop
	roleWriteLoopAny
	roleEventLoop
	roleCloser
	roleInlineAPI
	roleUnknown
)

// thread kinds
const (
	thSetup = iota
	thHandler
	thWriteLoop
	thEventLoop
	thCloser
	thInlineAPI
	thUnknown
)

var threadNames = []string{"setup", "handler", "writeLoop", "eventLoop", "closer", "inlineAPI", "unknown"}

// relations
const (
	relFresh = iota
	relOwnPre
	relOwn
	relOther
)

type entry struct {
	fn     string
	thread int
	recv   int // relation of the receiver
}

// entry points: one per goroutine kind (DESIGN.md §7 C33)
var entries = []entry{
	{"mqtt.New", thSetup, relOther},
	{"mqtt.(*Server).AddHook", thSetup, relOther},
	{"mqtt.(*Server).AddListener", thSetup, relOther},
	{"mqtt.(*Server).Serve", thSetup, relOther}, // becomes inlineAPI at its first `go` statement
	{"mqtt.(*Server).EstablishConnection", thHandler, relOther},
	{"mqtt.(*Client).WriteLoop", thWriteLoop, relOwn},
	{"mqtt.(*Server).eventLoop", thEventLoop, relOther},
	{"mqtt.(*Server).Close", thCloser, relOther},
	{"mqtt.(*Server).Publish", thInlineAPI, relOther},
	{"mqtt.(*Server).Subscribe", thInlineAPI, relOther},
	{"mqtt.(*Server).Unsubscribe", thInlineAPI, relOther},
}

// object classes: structs whose fields are tracked when reached through a pointer (or, for a by-value
// member, because the struct carries its own mutex)
var objectClasses = map[string]bool{
	"mqtt.Client": true, "mqtt.Inflight": true, "mqtt.Clients": true, "mqtt.TopicsIndex": true,
	"mqtt.particle": true, "mqtt.particles": true, "mqtt.Subscriptions": true, "mqtt.SharedSubscriptions": true,
	"mqtt.InlineSubscriptions": true, "packets.Packets": true, "mqtt.OutboundTopicAliases": true,
	"mqtt.InboundTopicAliases": true, "system.Info": true, "mqtt.Server": true, "mqtt.loop": true,
}

// broker-wide classes: an object of these is never "the thread's own"
var globalClasses = map[string]bool{
	"mqtt.Server": true, "mqtt.Clients": true, "mqtt.TopicsIndex": true, "mqtt.loop": true, "system.Info": true,
	"mqtt.particle": true, "mqtt.particles": true, "packets.Packets": true, "mqtt.SharedSubscriptions": true,
	"mqtt.InlineSubscriptions": true,
}

// one object per broker: its mutex, and the mutex of an object designated by one of its fields, is "the" lock
var singletonClasses = map[string]bool{"mqtt.Server": true, "mqtt.Clients": true, "mqtt.TopicsIndex": true, "mqtt.loop": true}

// types of other modules whose methods may be called from several goroutines (documented as such)
var safeExternal = map[string]bool{"slog.Logger": true, "time.Ticker": true, "listeners.Listeners": true}

func roleOf(thread, rel int) int {
	if thread == thUnknown {
		return roleUnknown
	}
	if thread == thSetup || rel == relFresh {
		return roleInit
	}
	switch thread {
	case thHandler:
		switch rel {
		case relOwnPre:
			return rolePreAdd
		case relOwn:
			return roleHandler
		}
		return roleHandlerOther
	case thWriteLoop:
		if rel == relOwn || rel == relOwnPre {
			return roleWriteLoop
		}
		return roleWriteLoopAny
	case thEventLoop:
		return roleEventLoop
	case thCloser:
		return roleCloser
	case thInlineAPI:
		return roleInlineAPI
	}
	return roleUnknown
}

// ---------------------------------------------------------------------------------------------
// rows

type lockKey struct {
	Key  string // "self:<class>" | "the:<class>"
	Mode string // R | W
}

type row struct {
	Obj     string
	Path    []string
	Write   bool
	Atomic  bool
	Role    int
	Held    []lockKey
	Unknown string // non-empty: why the access could not be classified
	Sites   []string
}

func (r *row) loc() string { return r.Obj + "." + strings.Join(r.Path, ".") }
func (r *row) key() string {
	h := make([]string, len(r.Held))
	for i, k := range r.Held {
		h[i] = k.Key + "/" + k.Mode
	}
	return fmt.Sprintf("%s|%v|%v|%d|%s|%s", r.loc(), r.Write, r.Atomic, r.Role, strings.Join(h, ","), r.Unknown)
}

type hlock struct {
	root *types.Var // variable the owner is named from (nil: unnamed)
	path string     // field steps from root to the owner object
	cls  string     // class of the mutex
	the  bool       // one per broker
	mode string
}

func (h hlock) same(o hlock) bool {
	if h.the || o.the {
		return h.the && o.the && h.cls == o.cls
	}
	return h.root == o.root && h.root != nil && h.path == o.path && h.cls == o.cls
}

type analysis struct {
	x        *extractor
	unitFn   map[*unit]*types.Func
	rows     map[string]*row
	memo     map[string]bool
	thread   int // thread kind of the entry being walked (Serve flips it)
	ctor     map[*types.Func]int
	touched  map[string]int // function -> tracked accesses seen syntactically (for the "unreached" list)
	reached  map[string]bool
	entrySet map[string]int
}

type frame struct {
	a      *analysis
	u      *unit
	info   *types.Info
	rel    map[*types.Var]int
	held   []hlock
	defers []func()
	idle   bool // inside the write loop's select communication
	depth  int
	fnBind map[*types.Var]*types.Func // parameter -> the module function passed for it (a method value or a function)
	pkType map[*types.Var]string      // parameter of type packets.Packet -> its constant FixedHeader.Type, if known
}

// binding: what the caller knows about an argument beyond its relation
type binding struct {
	fn     *types.Func
	pkType string
}

// ---------------------------------------------------------------------------------------------
// driver

func (x *extractor) accessTable() *analysis {
	a := &analysis{x: x, unitFn: map[*unit]*types.Func{}, rows: map[string]*row{}, memo: map[string]bool{},
		ctor: map[*types.Func]int{}, touched: map[string]int{}, reached: map[string]bool{}, entrySet: map[string]int{}}
	byName := map[string]*unit{}
	for f, u := range x.byObj {
		a.unitFn[u] = f
		byName[u.name] = u
	}
	for _, e := range entries {
		a.entrySet[e.fn] = e.thread
	}
	for _, e := range entries {
		u := byName[e.fn]
		if u == nil {
			a.add(&row{Obj: "?", Unknown: "entry point not found: " + e.fn, Role: roleUnknown}, e.fn)
			continue
		}
		a.thread = e.thread
		sig := a.unitFn[u].Type().(*types.Signature)
		rels := []int{}
		if sig.Recv() != nil {
			rels = append(rels, e.recv)
		}
		for i := 0; i < sig.Params().Len(); i++ {
			rels = append(rels, relOther)
		}
		a.walkFunc(u, rels, nil, 0)
	}
	a.countTouched()
	return a
}

func (a *analysis) add(r *row, site string) {
	sort.Slice(r.Held, func(i, j int) bool { return r.Held[i].Key < r.Held[j].Key })
	k := r.key()
	if old := a.rows[k]; old != nil {
		for _, s := range old.Sites {
			if s == site {
				return
			}
		}
		old.Sites = append(old.Sites, site)
		return
	}
	r.Sites = []string{site}
	a.rows[k] = r
}

// params returns receiver + parameters of a declared function
func params(f *types.Func) []*types.Var {
	sig := f.Type().(*types.Signature)
	var out []*types.Var
	if sig.Recv() != nil {
		out = append(out, sig.Recv())
	}
	for i := 0; i < sig.Params().Len(); i++ {
		out = append(out, sig.Params().At(i))
	}
	return out
}

// walkFunc analyses one function body in one context.
func (a *analysis) walkFunc(u *unit, rels []int, held []hlock, depth int, binds ...binding) {
	f := a.unitFn[u]
	ps := params(f)
	var b strings.Builder
	fmt.Fprintf(&b, "%s|%d|%v|", u.name, a.thread, rels)
	hs := []string{}
	for _, h := range held {
		idx := -1
		for i, p := range ps {
			if p == h.root {
				idx = i
			}
		}
		hs = append(hs, fmt.Sprintf("%d:%s:%s:%v:%s", idx, h.path, h.cls, h.the, h.mode))
	}
	sort.Strings(hs)
	b.WriteString(strings.Join(hs, ","))
	for i, bd := range binds {
		if bd.fn != nil {
			fmt.Fprintf(&b, "|f%d=%s", i, funcName(bd.fn))
		}
		if bd.pkType != "" {
			fmt.Fprintf(&b, "|t%d=%s", i, bd.pkType)
		}
	}
	if a.memo[b.String()] || depth > 40 {
		return
	}
	a.memo[b.String()] = true
	a.reached[u.name] = true
	fr := &frame{a: a, u: u, info: u.pkg.TypesInfo, rel: map[*types.Var]int{}, held: append([]hlock{}, held...), depth: depth,
		fnBind: map[*types.Var]*types.Func{}, pkType: map[*types.Var]string{}}
	for i, p := range ps {
		if i < len(rels) {
			fr.rel[p] = rels[i]
		}
		if i < len(binds) {
			if binds[i].fn != nil {
				fr.fnBind[p] = binds[i].fn
			}
			if binds[i].pkType != "" {
				fr.pkType[p] = binds[i].pkType
			}
		}
	}
	fr.body(u.body)
}

// body walks a function (or literal) body and then its deferred calls, newest first.
func (fr *frame) body(b *ast.BlockStmt) {
	saved := fr.defers
	fr.defers = nil
	fr.block(b.List)
	for i := len(fr.defers) - 1; i >= 0; i-- {
		fr.defers[i]()
	}
	fr.defers = saved
}

// ---------------------------------------------------------------------------------------------
// statements; the result says whether control cannot fall through

func (fr *frame) block(list []ast.Stmt) bool {
	for _, s := range list {
		if fr.stmt(s) {
			return true
		}
	}
	return false
}

func cloneHeld(h []hlock) []hlock { return append([]hlock{}, h...) }

func intersect(a, b []hlock) []hlock {
	var out []hlock
	for _, h := range a {
		for _, k := range b {
			if h.same(k) && h.mode == k.mode {
				out = append(out, h)
				break
			}
		}
	}
	return out
}

// branches walks alternatives from the same state and merges the must-hold sets of those that fall through.
func (fr *frame) branches(alts []func() bool, mayskip bool) bool {
	entry := cloneHeld(fr.held)
	var merged []hlock
	have := false
	if mayskip {
		merged, have = cloneHeld(entry), true
	}
	for _, alt := range alts {
		fr.held = cloneHeld(entry)
		if !alt() {
			if !have {
				merged, have = cloneHeld(fr.held), true
			} else {
				merged = intersect(merged, fr.held)
			}
		}
	}
	if !have {
		fr.held = entry
		return true
	}
	fr.held = merged
	return false
}

func (fr *frame) stmt(s ast.Stmt) bool {
	switch s := s.(type) {
	case nil, *ast.EmptyStmt:
		return false
	case *ast.BlockStmt:
		return fr.block(s.List)
	case *ast.LabeledStmt:
		return fr.stmt(s.Stmt)
	case *ast.ExprStmt:
		fr.expr(s.X, mR)
	case *ast.SendStmt:
		fr.expr(s.Chan, mR)
		fr.expr(s.Value, mR)
	case *ast.IncDecStmt:
		fr.expr(s.X, mW)
	case *ast.AssignStmt:
		fr.assign(s)
	case *ast.DeclStmt:
		if gd, ok := s.Decl.(*ast.GenDecl); ok {
			for _, sp := range gd.Specs {
				if vs, ok := sp.(*ast.ValueSpec); ok {
					for i, v := range vs.Values {
						fr.expr(v, mR)
						if i < len(vs.Names) {
							fr.define(vs.Names[i], v)
						}
					}
				}
			}
		}
	case *ast.GoStmt:
		fr.goStmt(s)
	case *ast.DeferStmt:
		fr.deferStmt(s)
	case *ast.ReturnStmt:
		for _, r := range s.Results {
			fr.expr(r, mR)
		}
		return true
	case *ast.BranchStmt:
		return s.Tok != token.FALLTHROUGH // leaves the construct; the merge at its end is a must-hold intersection anyway
	case *ast.IfStmt:
		fr.stmt(s.Init)
		fr.expr(s.Cond, mR)
		alts := []func() bool{func() bool { return fr.block(s.Body.List) }}
		if s.Else != nil {
			alts = append(alts, func() bool { return fr.stmt(s.Else) })
		}
		return fr.branches(alts, s.Else == nil)
	case *ast.ForStmt:
		fr.stmt(s.Init)
		fr.expr(s.Cond, mR)
		for pass := 0; pass < 2; pass++ { // twice: the second pass sees what the first one changed (re-assigned variables, released locks)
			fr.branches([]func() bool{func() bool {
				t := fr.block(s.Body.List)
				fr.stmt(s.Post)
				fr.expr(s.Cond, mR)
				return t
			}}, true)
		}
		return false
	case *ast.RangeStmt:
		fr.expr(s.X, mR)
		for _, kv := range []ast.Expr{s.Key, s.Value} {
			if id, ok := kv.(*ast.Ident); ok && s.Tok == token.DEFINE {
				if v, ok := fr.info.Defs[id].(*types.Var); ok {
					fr.rel[v] = relOther
				}
			} else if kv != nil {
				fr.expr(kv, mW)
			}
		}
		for pass := 0; pass < 2; pass++ {
			fr.branches([]func() bool{func() bool { return fr.block(s.Body.List) }}, true)
		}
		return false
	case *ast.SwitchStmt:
		fr.stmt(s.Init)
		fr.expr(s.Tag, mR)
		return fr.clauses(fr.pruneByPacketType(s))
	case *ast.TypeSwitchStmt:
		fr.stmt(s.Init)
		fr.stmt(s.Assign)
		return fr.clauses(s.Body.List)
	case *ast.SelectStmt:
		return fr.clauses(s.Body.List)
	default:
		fr.unknown(s, "statement kind")
	}
	return false
}

func (fr *frame) clauses(list []ast.Stmt) bool {
	var alts []func() bool
	hasDefault := false
	for _, c := range list {
		switch c := c.(type) {
		case *ast.CaseClause:
			for _, e := range c.List {
				if tv, ok := fr.info.Types[e]; !ok || !tv.IsType() {
					fr.expr(e, mR)
				}
			}
			hasDefault = hasDefault || c.List == nil
			body := c.Body
			alts = append(alts, func() bool { return fr.block(body) })
		case *ast.CommClause:
			hasDefault = hasDefault || c.Comm == nil
			cc := c
			alts = append(alts, func() bool {
				if cc.Comm != nil {
					was := fr.idle
					fr.idle = fr.u.name == "mqtt.(*Client).WriteLoop"
					fr.stmt(cc.Comm)
					fr.idle = was
				}
				return fr.block(cc.Body)
			})
		}
	}
	return fr.branches(alts, !hasDefault)
}

// ---------------------------------------------------------------------------------------------
// variables: relations, fresh objects

func (fr *frame) relOfVar(v *types.Var) int {
	if v == nil {
		return relOther
	}
	if r, ok := fr.rel[v]; ok {
		return r
	}
	return relOther
}

// define records the relation of a newly declared variable from its initialiser.
func (fr *frame) define(id *ast.Ident, init ast.Expr) {
	v, ok := fr.info.Defs[id].(*types.Var)
	if !ok || v == nil {
		return
	}
	fr.rel[v] = fr.relOfExpr(init)
}

// relOfExpr: fresh for a composite literal / new / constructor call, the root's relation for a field path,
// other for everything else.
func (fr *frame) relOfExpr(e ast.Expr) int {
	switch e := ast.Unparen(e).(type) {
	case *ast.UnaryExpr:
		if e.Op == token.AND {
			if _, ok := ast.Unparen(e.X).(*ast.CompositeLit); ok {
				return relFresh
			}
			return fr.relOfExpr(e.X)
		}
	case *ast.CompositeLit:
		return relFresh
	case *ast.CallExpr:
		if id, ok := ast.Unparen(e.Fun).(*ast.Ident); ok {
			if b, ok := fr.info.Uses[id].(*types.Builtin); ok && b.Name() == "new" {
				return relFresh
			}
		}
		if f := fr.staticCallee(e); f != nil && fr.a.isConstructor(f) {
			return relFresh
		}
		return relOther
	case *ast.Ident, *ast.SelectorExpr, *ast.StarExpr:
		if p, ok := fr.resolve(e); ok {
			return fr.relOfPath(p, len(p.steps))
		}
	}
	return relOther
}

// isConstructor: every return statement returns a fresh object (literal, fresh local, or constructor call).
func (a *analysis) isConstructor(f *types.Func) bool {
	f = f.Origin()
	if s, ok := a.ctor[f]; ok {
		return s == 1
	}
	a.ctor[f] = 2 // in progress: recursion is not a constructor
	u := a.x.byObj[f]
	res := false
	if u != nil && u.body != nil {
		sig := f.Type().(*types.Signature)
		if sig.Results().Len() == 1 {
			if _, isPtr := sig.Results().At(0).Type().Underlying().(*types.Pointer); isPtr {
				res = true
				info := u.pkg.TypesInfo
				fresh := map[*types.Var]bool{}
				nret := 0
				var check func(e ast.Expr) bool
				check = func(e ast.Expr) bool {
					switch e := ast.Unparen(e).(type) {
					case *ast.UnaryExpr:
						_, ok := ast.Unparen(e.X).(*ast.CompositeLit)
						return e.Op == token.AND && ok
					case *ast.Ident:
						v, _ := info.Uses[e].(*types.Var)
						return v != nil && fresh[v]
					case *ast.CallExpr:
						if id, ok := ast.Unparen(e.Fun).(*ast.Ident); ok {
							if b, ok := info.Uses[id].(*types.Builtin); ok && b.Name() == "new" {
								return true
							}
						}
						if g := calleeOf(info, e); g != nil {
							return a.isConstructor(g)
						}
					}
					return false
				}
				ast.Inspect(u.body, func(n ast.Node) bool {
					switch n := n.(type) {
					case *ast.FuncLit:
						return false
					case *ast.AssignStmt:
						if n.Tok == token.DEFINE && len(n.Lhs) == len(n.Rhs) {
							for i, l := range n.Lhs {
								if id, ok := l.(*ast.Ident); ok {
									if v, ok := info.Defs[id].(*types.Var); ok && check(n.Rhs[i]) {
										fresh[v] = true
									}
								}
							}
						} else {
							for _, l := range n.Lhs { // re-assigned: no longer known to be fresh
								if id, ok := l.(*ast.Ident); ok {
									if v, ok := info.Uses[id].(*types.Var); ok {
										delete(fresh, v)
									}
								}
							}
						}
					case *ast.ReturnStmt:
						nret++
						if len(n.Results) != 1 || !check(n.Results[0]) {
							res = false
						}
					}
					return true
				})
				res = res && nret > 0
			}
		}
	}
	a.ctor[f] = 0
	if res {
		a.ctor[f] = 1
	}
	return res
}

func calleeOf(info *types.Info, c *ast.CallExpr) *types.Func {
	switch f := ast.Unparen(c.Fun).(type) {
	case *ast.Ident:
		if o, ok := info.Uses[f].(*types.Func); ok {
			return o
		}
	case *ast.SelectorExpr:
		if sel := info.Selections[f]; sel != nil {
			if sel.Kind() == types.MethodVal {
				if o, ok := sel.Obj().(*types.Func); ok && !types.IsInterface(sel.Recv()) {
					return o
				}
			}
			return nil
		}
		if o, ok := info.Uses[f.Sel].(*types.Func); ok {
			return o
		}
	}
	return nil
}

func (fr *frame) staticCallee(c *ast.CallExpr) *types.Func { return calleeOf(fr.info, c) }

func (fr *frame) assign(s *ast.AssignStmt) {
	for _, r := range s.Rhs {
		fr.expr(r, mR)
	}
	for i, l := range s.Lhs {
		if id, ok := ast.Unparen(l).(*ast.Ident); ok {
			if id.Name == "_" {
				continue
			}
			if s.Tok == token.DEFINE {
				if _, isDef := fr.info.Defs[id].(*types.Var); isDef {
					if len(s.Lhs) == len(s.Rhs) {
						fr.define(id, s.Rhs[i])
					} else if v := fr.info.Defs[id].(*types.Var); v != nil {
						fr.rel[v] = relOther
						if len(s.Rhs) == 1 {
							if c, ok := ast.Unparen(s.Rhs[0]).(*ast.CallExpr); ok && i == 0 {
								if f := fr.staticCallee(c); f != nil && fr.a.isConstructor(f) {
									fr.rel[v] = relFresh
								}
							}
						}
					}
					continue
				}
			}
			// plain assignment to a variable: it may now denote another object
			if v, ok := fr.info.Uses[id].(*types.Var); ok {
				delete(fr.fnBind, v)
				delete(fr.pkType, v)
				if _, tracked := fr.rel[v]; tracked || true {
					r := relOther
					if len(s.Lhs) == len(s.Rhs) {
						r = fr.relOfExpr(s.Rhs[i])
						if r == relFresh {
							r = relOther // only a declaration makes a variable fresh (see the header)
						}
					}
					if old, ok := fr.rel[v]; !ok || old != r {
						fr.rel[v] = r
					}
				}
				var keep []hlock
				for _, h := range fr.held {
					if h.root != v {
						keep = append(keep, h)
					}
				}
				fr.held = keep
			}
			continue
		}
		fr.expr(l, mW)
		if p, ok := fr.resolveQuiet(l); ok && p.root != nil && len(p.steps) > 0 && p.steps[0].name == "FixedHeader" {
			delete(fr.pkType, p.root)
		}
		// storing a fresh object somewhere publishes it
		if len(s.Lhs) == len(s.Rhs) {
			fr.escape(s.Rhs[i])
		}
	}
}

// escape: a fresh variable that is stored or handed to another function is no longer known to be private.
func (fr *frame) escape(e ast.Expr) {
	if id, ok := ast.Unparen(e).(*ast.Ident); ok {
		if v, ok := fr.info.Uses[id].(*types.Var); ok && fr.rel[v] == relFresh {
			fr.rel[v] = relOther
		}
	}
}

func (fr *frame) goStmt(s *ast.GoStmt) {
	c := s.Call
	for _, a := range c.Args {
		fr.expr(a, mR)
	}
	if fl, ok := ast.Unparen(c.Fun).(*ast.FuncLit); ok {
		fr.spawn(func() { fr.body(fl.Body) }, s)
		return
	}
	f := fr.staticCallee(c)
	if sel, ok := ast.Unparen(c.Fun).(*ast.SelectorExpr); ok {
		if fr.info.Selections[sel] != nil {
			fr.recvExpr(sel)
			// `go cl.WriteLoop()`: from here on the write loop runs beside the handler
			if p, ok := fr.resolve(sel.X); ok && p.root != nil && len(p.steps) == 0 && fr.a.thread == thHandler && fr.rel[p.root] == relFresh {
				fr.rel[p.root] = relOwnPre
			}
		}
	}
	if f != nil {
		if _, isEntry := fr.a.entrySet[funcName(f.Origin())]; isEntry {
			if fr.a.thread == thSetup {
				fr.a.thread = thInlineAPI // Serve: the event loop is running from here on
			}
			return
		}
		if u := fr.a.x.byObj[f.Origin()]; u != nil {
			fr.spawn(func() { fr.call(c, f, u) }, s)
			return
		}
	}
	if fr.a.thread == thSetup {
		fr.a.thread = thInlineAPI
	}
}

// spawn walks the body of a goroutine that is not an entry point: its accesses get the role `unknown`.
func (fr *frame) spawn(run func(), at ast.Node) {
	saved, savedHeld := fr.a.thread, fr.held
	fr.a.thread, fr.held = thUnknown, nil
	run()
	fr.a.thread, fr.held = saved, savedHeld
	if fr.a.thread == thSetup {
		fr.a.thread = thInlineAPI
	}
}

func (fr *frame) deferStmt(s *ast.DeferStmt) {
	c := s.Call
	if sel, ok := ast.Unparen(c.Fun).(*ast.SelectorExpr); ok {
		if f := fr.staticCallee(c); f != nil && isSyncMutexMethod(f) {
			if f.Name() == "Unlock" || f.Name() == "RUnlock" {
				fr.recvExprMutex(sel)
				fr.defers = append(fr.defers, func() { fr.lockOp(c, sel, f.Name()) }) // released when the function returns
				return
			}
			fr.unknown(s, "deferred "+f.Name())
			return
		}
	}
	isAtomic := false
	if sel, ok := ast.Unparen(c.Fun).(*ast.SelectorExpr); ok && fr.info.Selections[sel] == nil {
		if o, ok := fr.info.Uses[sel.Sel].(*types.Func); ok && o.Pkg() != nil && o.Pkg().Path() == "sync/atomic" {
			isAtomic = true // atomic.AddT(&x.f, ..): the address is evaluated now, the operation runs at exit
		}
	}
	for _, a := range c.Args {
		if _, isLit := ast.Unparen(a).(*ast.FuncLit); !isLit && !isAtomic {
			fr.expr(a, mR) // arguments are evaluated now
		}
	}
	fr.defers = append(fr.defers, func() { fr.callExpr(c, true) })
}

func isSyncMutexMethod(f *types.Func) bool {
	sig, ok := f.Type().(*types.Signature)
	return ok && sig.Recv() != nil && f.Pkg() != nil && f.Pkg().Path() == "sync" && isMutex(sig.Recv().Type())
}

func (fr *frame) unknown(n ast.Node, why string) {
	t := &translator{x: fr.a.x, u: fr.u, info: fr.info}
	fr.a.add(&row{Obj: "?", Unknown: why + " — " + t.src(n), Role: roleUnknown}, fr.site(n.Pos()))
}

func (fr *frame) site(p token.Pos) string { return fr.u.name + "@" + fr.a.x.position(p) }

// pruneByPacketType: `switch pk.FixedHeader.Type` where the caller passed a packet literal with a constant
// type: only the matching clause (or the default) can run.
func (fr *frame) pruneByPacketType(s *ast.SwitchStmt) []ast.Stmt {
	if s.Tag == nil {
		return s.Body.List
	}
	p, ok := fr.resolveQuiet(s.Tag)
	if !ok || p.root == nil || stepsString(p.steps) != "FixedHeader.Type" {
		return s.Body.List
	}
	want, ok := fr.pkType[p.root]
	if !ok {
		return s.Body.List
	}
	var match, def []ast.Stmt
	for _, c := range s.Body.List {
		cc, ok := c.(*ast.CaseClause)
		if !ok {
			return s.Body.List
		}
		if cc.List == nil {
			def = []ast.Stmt{cc}
		}
		for _, e := range cc.List {
			tv, ok := fr.info.Types[e]
			if !ok || tv.Value == nil {
				return s.Body.List
			}
			if tv.Value.ExactString() == want {
				match = []ast.Stmt{cc}
			}
		}
	}
	if match != nil {
		return match
	}
	return def
}

// packetTypeOf: the constant FixedHeader.Type of a packets.Packet literal, or of a bound parameter.
func (fr *frame) packetTypeOf(e ast.Expr) string {
	switch e := ast.Unparen(e).(type) {
	case *ast.Ident:
		if v, ok := fr.info.Uses[e].(*types.Var); ok {
			return fr.pkType[v]
		}
	case *ast.CompositeLit:
		if typeName(fr.info.TypeOf(e)) != "packets.Packet" {
			return ""
		}
		for _, el := range e.Elts {
			kv, ok := el.(*ast.KeyValueExpr)
			if !ok {
				return ""
			}
			if k, ok := kv.Key.(*ast.Ident); !ok || k.Name != "FixedHeader" {
				continue
			}
			fh, ok := ast.Unparen(kv.Value).(*ast.CompositeLit)
			if !ok {
				return ""
			}
			for _, el2 := range fh.Elts {
				kv2, ok := el2.(*ast.KeyValueExpr)
				if !ok {
					return ""
				}
				if k, ok := kv2.Key.(*ast.Ident); ok && k.Name == "Type" {
					if tv, ok := fr.info.Types[kv2.Value]; ok && tv.Value != nil {
						return tv.Value.ExactString()
					}
				}
			}
		}
	}
	return ""
}
