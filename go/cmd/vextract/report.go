package main

import (
	"encoding/json"
	"fmt"
	"go/ast"
	"io"
	"sort"
	"strings"
)

// The report re-runs, in Go, the analysis that Mochi.Locks.noSelfNesting performs in Lean, but keeps the
// call path that leads to each acquisition so that an offending site can be shown. The Lean checker is the
// one that counts; this is its diagnostic twin.

type acq struct {
	ref  LockRef
	mode string
	path []string // call chain: "callee@file:line" ..., ending in "RLock@file:line"
}

type finding struct {
	Kind     string   `json:"kind"` // reentrant | unknown | unbalanced
	Function string   `json:"function"`
	At       string   `json:"at"`
	Lock     string   `json:"lock,omitempty"`
	Owner    string   `json:"owner,omitempty"`
	HeldMode string   `json:"held_mode,omitempty"`
	HeldAt   string   `json:"held_at,omitempty"`
	Mode     string   `json:"mode,omitempty"`
	Path     []string `json:"path,omitempty"`
	Detail   string   `json:"detail,omitempty"`
}

type heldLock struct {
	ref      LockRef
	mode, at string
	deferred bool
}

func lockVerb(mode string) string {
	if mode == "R" {
		return "RLock"
	}
	return "Lock"
}

// summaries: for every function the locks it may acquire, relative to its receiver, through any depth of calls.
func (g *graph) summaries() map[*gfunc][]acq {
	sum := map[*gfunc][]acq{}
	has := map[*gfunc]map[string]bool{}
	add := func(f *gfunc, a acq) bool {
		if has[f] == nil {
			has[f] = map[string]bool{}
		}
		if len(a.ref.Owner) > 8 { // recursion through ever longer names: dropped, the Lean check then fails closed
			g.unbounded = append(g.unbounded, finding{Kind: "unbounded", Function: f.u.name, At: g.x.position(f.u.pos), Lock: a.ref.Cls,
				Detail: "the locks acquired through recursion have no bounded set of receiver-relative names"})
			return false
		}
		if has[f][a.ref.key()] {
			return false
		}
		has[f][a.ref.key()] = true
		sum[f] = append(sum[f], a)
		return true
	}
	for changed := true; changed; {
		changed = false
		for _, f := range g.funcs {
			f.body.each(func(p *Prog) {
				switch p.Kind {
				case "acquire":
					if add(f, acq{p.Lock, p.Mode, []string{lockVerb(p.Mode) + "@" + g.x.position(p.Pos)}}) {
						changed = true
					}
				case "call":
					for _, a := range sum[g.byUnit[p.Callee]] {
						path := append([]string{p.Callee.name + "@" + g.x.position(p.Pos)}, a.path...)
						if add(f, acq{a.ref.rebase(p.Recv), a.mode, path}) {
							changed = true
						}
					}
				}
			})
		}
	}
	return sum
}

func (g *graph) findings() []finding {
	g.unbounded = nil
	sum := g.summaries()
	var out []finding
	seen := map[string]bool{}
	edges := map[[2]string]string{} // (held class, acquired class) -> first witness
	emit := func(f finding) {
		k := fmt.Sprint(f)
		if !seen[k] {
			seen[k] = true
			out = append(out, f)
		}
	}
	for _, f := range g.funcs {
		var walk func(p *Prog, held []heldLock) []heldLock
		conflict := func(p *Prog, held []heldLock, a acq) {
			for _, h := range held {
				if e := [2]string{h.ref.Cls, a.ref.Cls}; edges[e] == "" && h.ref.key() != a.ref.key() {
					edges[e] = fmt.Sprintf("%s holds %s of %s (%sLock@%s) and acquires %s of %s via %s", f.u.name, h.ref.Cls, h.ref.Owner,
						map[string]string{"R": "R", "W": ""}[h.mode], h.at, a.ref.Cls, a.ref.Owner, strings.Join(a.path, " -> "))
				}
				if h.ref.key() == a.ref.key() {
					emit(finding{Kind: "reentrant", Function: f.u.name, At: g.x.position(p.Pos), Lock: a.ref.Cls, Owner: a.ref.Owner.String(),
						HeldMode: h.mode, HeldAt: h.at, Mode: a.mode, Path: a.path})
				}
			}
		}
		walk = func(p *Prog, held []heldLock) []heldLock {
			switch p.Kind {
			case "acquire":
				at := g.x.position(p.Pos)
				conflict(p, held, acq{p.Lock, p.Mode, []string{lockVerb(p.Mode) + "@" + at}})
				return append(append([]heldLock{}, held...), heldLock{ref: p.Lock, mode: p.Mode, at: at})
			case "release":
				var out []heldLock
				for _, h := range held {
					if h.ref.key() != p.Lock.key() {
						out = append(out, h)
					}
				}
				return out
			case "deferRelease":
				out := append([]heldLock{}, held...)
				for i := range out {
					if out[i].ref.key() == p.Lock.key() {
						out[i].deferred = true
					}
				}
				return out
			case "call":
				for _, a := range sum[g.byUnit[p.Callee]] {
					a2 := acq{a.ref.rebase(p.Recv), a.mode, append([]string{p.Callee.name + "@" + g.x.position(p.Pos)}, a.path...)}
					conflict(p, held, a2)
				}
			case "unknown":
				emit(finding{Kind: "unknown", Function: f.u.name, At: g.x.position(p.Pos), Detail: p.Text})
			case "ret":
				g.balanced(f, p, held, emit)
			case "seq":
				for _, s := range p.Subs {
					held = walk(s, held)
				}
			case "alt":
				var out []heldLock
				for _, s := range p.Subs {
					out = union(out, walk(s, held))
				}
				return out
			case "loop":
				after := walk(p.Subs[0], held)
				if len(union(held, after)) != len(held) {
					emit(finding{Kind: "unbalanced", Function: f.u.name, At: g.x.position(p.Pos), Detail: "a loop body may end holding a lock it did not hold at its start"})
				}
			}
			return held
		}
		g.balanced(f, &Prog{Pos: f.u.body.Rbrace}, walk(f.body, nil), emit)
	}
	for _, f := range g.unbounded {
		emit(f)
	}
	if cyc := findCycle(edges); cyc != nil {
		f := finding{Kind: "ordercycle", Function: "(several)", At: "-", Detail: "lock classes are acquired in a cyclic order"}
		for i := range cyc {
			f.Path = append(f.Path, edges[[2]string{cyc[i], cyc[(i+1)%len(cyc)]}])
		}
		emit(f)
	}
	sort.SliceStable(out, func(i, j int) bool { return out[i].Kind < out[j].Kind })
	return out
}

// findCycle returns the classes of one cycle of the "held -> acquired" relation, or nil.
func findCycle(edges map[[2]string]string) []string {
	next := map[string][]string{}
	var nodes []string
	for e := range edges {
		if next[e[0]] == nil {
			nodes = append(nodes, e[0])
		}
		next[e[0]] = append(next[e[0]], e[1])
	}
	sort.Strings(nodes)
	state := map[string]int{} // 1 on the stack, 2 done
	var stack []string
	var dfs func(n string) []string
	dfs = func(n string) []string {
		state[n] = 1
		stack = append(stack, n)
		succ := append([]string{}, next[n]...)
		sort.Strings(succ)
		for _, m := range succ {
			if state[m] == 1 {
				for i, s := range stack {
					if s == m {
						return append([]string{}, stack[i:]...)
					}
				}
			}
			if state[m] == 0 {
				if c := dfs(m); c != nil {
					return c
				}
			}
		}
		state[n] = 2
		stack = stack[:len(stack)-1]
		return nil
	}
	for _, n := range nodes {
		if state[n] == 0 {
			if c := dfs(n); c != nil {
				return c
			}
		}
	}
	return nil
}

func (g *graph) balanced(f *gfunc, p *Prog, held []heldLock, emit func(finding)) {
	for _, h := range held {
		if !h.deferred {
			emit(finding{Kind: "unbalanced", Function: f.u.name, At: g.x.position(p.Pos), Lock: h.ref.Cls, Owner: h.ref.Owner.String(),
				HeldAt: h.at, Detail: "may return while holding a lock that is not released by a defer"})
		}
	}
}

func union(a, b []heldLock) []heldLock {
	out := append([]heldLock{}, a...)
	for _, h := range b {
		found := false
		for i := range out {
			if out[i].ref.key() == h.ref.key() {
				found = true
				out[i].deferred = out[i].deferred && h.deferred
			}
		}
		if !found {
			out = append(out, h)
		}
	}
	return out
}

func (g *graph) report(w io.Writer, asJSON bool) int {
	fs := g.findings()
	for _, f := range fs {
		if asJSON {
			b, _ := json.Marshal(f)
			fmt.Fprintln(w, string(b))
			continue
		}
		switch f.Kind {
		case "reentrant":
			fmt.Fprintf(w, "REENTRANT function=%s lock=%s owner=%s held=%sLock@%s reacquired=%s via %s\n", f.Function, f.Lock, f.Owner,
				map[string]string{"R": "R", "W": ""}[f.HeldMode], f.HeldAt, lockVerb(f.Mode), strings.Join(f.Path, " -> "))
		case "ordercycle":
			fmt.Fprintf(w, "ORDERCYCLE %s:\n    %s\n", f.Detail, strings.Join(f.Path, "\n    "))
		default:
			fmt.Fprintf(w, "%s function=%s at=%s %s %s\n", strings.ToUpper(f.Kind), f.Function, f.At, f.Lock, f.Detail)
		}
	}
	if !asJSON {
		fmt.Fprintf(w, "vextract: %d finding(s) in %d lock functions\n", len(fs), len(g.funcs))
	}
	return len(fs)
}

// ---------------------------------------------------------------------------------------------
// C31: do the exported mutators of TopicsIndex take the root lock first?

func (x *extractor) rootLockLean() string {
	want := []string{"Subscribe", "Unsubscribe", "InlineSubscribe", "InlineUnsubscribe", "RetainMessage"}
	facts := map[string]bool{}
	for _, u := range x.units {
		for _, m := range want {
			if u.name == "mqtt.(*TopicsIndex)."+m {
				facts[m] = x.beginsWithRootLock(u)
			}
		}
	}
	var b strings.Builder
	b.WriteString("/- GENERATED by go/cmd/vextract from topics.go (tie A) — do not edit.\n")
	b.WriteString("   true: the body begins with `x.root.Lock()` followed by `defer x.root.Unlock()`;\n")
	b.WriteString("   false: it does not, or the method was not found. -/\nnamespace Mochi.Gen\n\n")
	b.WriteString("def rootLockFacts : List (String × Bool) := [\n")
	for i, m := range want {
		fmt.Fprintf(&b, "  (%s, %v)%s\n", leanStr("mqtt.(*TopicsIndex)."+m), facts[m], comma(i, len(want)))
	}
	b.WriteString("]\n\nend Mochi.Gen\n")
	return b.String()
}

func (x *extractor) beginsWithRootLock(u *unit) bool {
	if u.recv == nil || len(u.body.List) < 2 {
		return false
	}
	t := &translator{x: x, u: u, info: u.pkg.TypesInfo}
	isRoot := func(c *ast.CallExpr, kind string) bool {
		if _, lit := ast.Unparen(c.Fun).(*ast.FuncLit); lit || len(c.Args) != 0 {
			return false
		}
		p := t.call(c)
		return p.Kind == kind && p.Mode == "W" && p.Lock.Owner.String() == "root"
	}
	first, ok1 := u.body.List[0].(*ast.ExprStmt)
	second, ok2 := u.body.List[1].(*ast.DeferStmt)
	if !ok1 || !ok2 {
		return false
	}
	c, ok := first.X.(*ast.CallExpr)
	return ok && isRoot(c, "acquire") && isRoot(second.Call, "release")
}
