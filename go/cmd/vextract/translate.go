package main

import (
	"fmt"
	"go/ast"
	"go/printer"
	"go/token"
	"go/types"
	"strings"
)

// Prog mirrors Mochi.Locks.Prog.
type Prog struct {
	Kind   string // skip acquire release deferRelease call callUnknown spawn unknown ret seq alt loop | jump (internal)
	Lock   LockRef
	Mode   string // R | W
	Callee *unit
	Recv   Path
	Text   string
	Subs   []*Prog
	Pos    token.Pos
}

func seq(ps ...*Prog) *Prog { return &Prog{Kind: "seq", Subs: ps} }
func alt(ps ...*Prog) *Prog { return &Prog{Kind: "alt", Subs: ps} }
func loop(p *Prog) *Prog    { return &Prog{Kind: "loop", Subs: []*Prog{p}} }
func skip() *Prog           { return &Prog{Kind: "skip"} }

type translator struct {
	x      *extractor
	u      *unit
	info   *types.Info
	defers []*Prog // deferred calls registered so far (source order)
	nlit   *int    // counter for function literals of the enclosing declared function
}

func (t *translator) src(n ast.Node) string {
	var b strings.Builder
	_ = printer.Fprint(&b, t.x.fset, n)
	s := strings.Join(strings.Fields(b.String()), " ")
	if len(s) > 80 {
		s = s[:77] + "..."
	}
	return t.x.position(n.Pos()) + ": " + s
}

func (t *translator) unknown(n ast.Node, why string) *Prog {
	return &Prog{Kind: "unknown", Text: why + " — " + t.src(n), Pos: n.Pos()}
}

// function translates a whole body: statements, then the deferred calls (run at exit, newest first).
func (t *translator) function(body *ast.BlockStmt) *Prog {
	if t.nlit == nil {
		t.nlit = new(int)
	}
	p := t.block(body.List)
	return seq(p, t.runDefers())
}

func (t *translator) runDefers() *Prog {
	out := seq()
	for i := len(t.defers) - 1; i >= 0; i-- {
		out.Subs = append(out.Subs, alt(skip(), t.defers[i])) // registered on some paths only
	}
	return out
}

// literal hoists a function literal into a pseudo function on the same receiver.
func (t *translator) literal(fl *ast.FuncLit) *unit {
	*t.nlit++
	root := t.u.name
	if i := strings.Index(root, "$"); i >= 0 {
		root = root[:i]
	}
	u := &unit{name: fmt.Sprintf("%s$%d", root, *t.nlit), pkg: t.u.pkg, recv: t.u.recv, body: fl.Body, pos: fl.Pos()}
	t.x.units = append(t.x.units, u)
	sub := &translator{x: t.x, u: u, info: t.info, nlit: t.nlit}
	u.prog = sub.function(fl.Body)
	return u
}

func (t *translator) block(list []ast.Stmt) *Prog {
	out := seq()
	for _, s := range list {
		out.Subs = append(out.Subs, t.stmt(s))
	}
	return out
}

func (t *translator) opt(s ast.Stmt) *Prog {
	if s == nil {
		return skip()
	}
	return t.stmt(s)
}

func (t *translator) stmt(s ast.Stmt) *Prog {
	switch s := s.(type) {
	case nil:
		return skip()
	case *ast.BlockStmt:
		return t.block(s.List)
	case *ast.LabeledStmt:
		return t.stmt(s.Stmt)
	case *ast.IfStmt:
		return seq(t.opt(s.Init), t.expr(s.Cond), alt(t.block(s.Body.List), t.opt(s.Else)))
	case *ast.ForStmt:
		return seq(t.opt(s.Init), t.expr(s.Cond), loop(seq(t.block(s.Body.List), t.opt(s.Post), t.expr(s.Cond))))
	case *ast.RangeStmt:
		return seq(t.expr(s.X), loop(t.block(s.Body.List)))
	case *ast.SwitchStmt:
		return seq(t.opt(s.Init), t.expr(s.Tag), t.clauses(s.Body.List))
	case *ast.TypeSwitchStmt:
		return seq(t.opt(s.Init), t.stmt(s.Assign), t.clauses(s.Body.List))
	case *ast.SelectStmt:
		return t.clauses(s.Body.List)
	case *ast.ReturnStmt:
		out := seq()
		for _, r := range s.Results {
			out.Subs = append(out.Subs, t.expr(r))
		}
		out.Subs = append(out.Subs, t.runDefers(), &Prog{Kind: "ret", Pos: s.Pos()})
		return out
	case *ast.BranchStmt:
		return &Prog{Kind: "jump", Text: t.src(s), Pos: s.Pos()}
	case *ast.GoStmt:
		out := t.args(s.Call)
		if fl, ok := ast.Unparen(s.Call.Fun).(*ast.FuncLit); ok {
			out.Subs = append(out.Subs, &Prog{Kind: "spawn", Callee: t.literal(fl), Recv: Path{}, Pos: s.Pos()})
		} else if c := t.call(s.Call); c.Kind == "call" {
			c.Kind = "spawn"
			out.Subs = append(out.Subs, c)
		} else if c.Kind == "callUnknown" {
			out.Subs = append(out.Subs, c)
		} else if c.Kind != "skip" {
			out.Subs = append(out.Subs, t.unknown(s, "lock operation in a go statement"))
		}
		return out
	case *ast.DeferStmt:
		out := t.args(s.Call)
		var c *Prog
		if fl, ok := ast.Unparen(s.Call.Fun).(*ast.FuncLit); ok {
			c = &Prog{Kind: "call", Callee: t.literal(fl), Recv: Path{}, Pos: s.Pos()}
		} else {
			c = t.call(s.Call)
		}
		switch c.Kind {
		case "release":
			c.Kind = "deferRelease"
			out.Subs = append(out.Subs, c)
		case "acquire":
			out.Subs = append(out.Subs, t.unknown(s, "deferred acquisition"))
		case "unknown":
			out.Subs = append(out.Subs, c)
		default:
			t.defers = append(t.defers, c)
		}
		return out
	default: // assignments, expression statements, declarations, send, inc/dec, empty
		return t.expr(s)
	}
}

// clauses: the bodies of a switch/select are alternatives; without a default no body may run.
func (t *translator) clauses(list []ast.Stmt) *Prog {
	pre, alts, hasDefault := seq(), alt(), false
	for _, c := range list {
		switch c := c.(type) {
		case *ast.CaseClause:
			for _, e := range c.List {
				pre.Subs = append(pre.Subs, t.expr(e))
			}
			hasDefault = hasDefault || c.List == nil
			alts.Subs = append(alts.Subs, t.block(c.Body))
		case *ast.CommClause:
			hasDefault = hasDefault || c.Comm == nil
			alts.Subs = append(alts.Subs, seq(t.opt(c.Comm), t.block(c.Body)))
		}
	}
	if !hasDefault {
		alts.Subs = append(alts.Subs, skip())
	}
	return seq(pre, alts)
}

// expr collects, in evaluation order, the events of every call below n (n may be a simple statement).
func (t *translator) expr(n ast.Node) *Prog {
	out := seq()
	if n == nil {
		return out
	}
	t.walk(n, out)
	return out
}

func (t *translator) args(c *ast.CallExpr) *Prog {
	out := seq()
	switch f := ast.Unparen(c.Fun).(type) {
	case *ast.FuncLit, *ast.Ident:
	case *ast.SelectorExpr:
		if inner, ok := ast.Unparen(f.X).(*ast.SelectorExpr); ok && isMutex(t.info.TypeOf(f.X)) {
			t.walk(inner.X, out) // x.mu.Lock(): the mutex field is the operand of the lock operation, not a value
		} else {
			t.walk(f.X, out)
		}
	default:
		t.walk(f, out)
	}
	for _, a := range c.Args {
		t.walk(a, out)
	}
	return out
}

func (t *translator) walk(n ast.Node, out *Prog) {
	switch n := n.(type) {
	case nil:
		return
	case *ast.FuncLit: // a closure that is passed or stored: may run here, any number of times
		out.Subs = append(out.Subs, loop(&Prog{Kind: "call", Callee: t.literal(n), Recv: Path{}, Pos: n.Pos()}))
		return
	case *ast.CallExpr:
		out.Subs = append(out.Subs, t.args(n).Subs...)
		if fl, ok := ast.Unparen(n.Fun).(*ast.FuncLit); ok {
			out.Subs = append(out.Subs, &Prog{Kind: "call", Callee: t.literal(fl), Recv: Path{}, Pos: n.Pos()})
		} else {
			out.Subs = append(out.Subs, t.call(n))
		}
		return
	case *ast.CompositeLit:
		_, isStruct := deref(t.info.TypeOf(n)).Underlying().(*types.Struct)
		for _, el := range n.Elts {
			if kv, ok := el.(*ast.KeyValueExpr); ok && isStruct {
				t.walk(kv.Value, out) // the key is a field name, not a use
			} else {
				t.walk(el, out)
			}
		}
		return
	case *ast.SelectorExpr:
		if sel := t.info.Selections[n]; sel != nil && sel.Kind() != types.FieldVal {
			// method value / method expression that is not being called
			t.walk(n.X, out)
			out.Subs = append(out.Subs, t.funcValue(n, sel.Obj().(*types.Func), t.pathOf(n.X, selSteps(sel))))
			return
		}
		if tv, ok := t.info.Types[n]; ok && isMutex(tv.Type) {
			out.Subs = append(out.Subs, t.unknown(n, "mutex used as a value"))
			return
		}
		if f, ok := t.info.Uses[n.Sel].(*types.Func); ok { // pkg.Func as a value
			out.Subs = append(out.Subs, t.funcValue(n, f, otherPath))
			return
		}
		t.walk(n.X, out)
		return
	case *ast.Ident:
		if f, ok := t.info.Uses[n].(*types.Func); ok {
			out.Subs = append(out.Subs, t.funcValue(n, f, otherPath))
		} else if v, ok := t.info.Uses[n].(*types.Var); ok && isMutex(v.Type()) {
			out.Subs = append(out.Subs, t.unknown(n, "mutex used as a value"))
		}
		return
	case ast.Stmt:
		switch n.(type) {
		case *ast.AssignStmt, *ast.ExprStmt, *ast.DeclStmt, *ast.SendStmt, *ast.IncDecStmt, *ast.EmptyStmt:
		default:
			out.Subs = append(out.Subs, t.stmt(n)) // cannot happen below an expression
			return
		}
	}
	// generic: children in source order
	ast.Inspect(n, func(c ast.Node) bool {
		if c == nil || c == n {
			return c == n
		}
		switch c.(type) {
		case *ast.FieldList, *ast.ArrayType, *ast.StructType, *ast.FuncType, *ast.InterfaceType, *ast.MapType, *ast.ChanType:
			return false // types contain no events
		}
		t.walk(c, out)
		return false
	})
}

// funcValue: a module function used as a value may be invoked here zero or more times.
func (t *translator) funcValue(n ast.Node, f *types.Func, recv Path) *Prog {
	if u := t.x.byObj[f.Origin()]; u != nil {
		if sig := f.Type().(*types.Signature); sig.Recv() == nil {
			recv = otherPath
		}
		return loop(&Prog{Kind: "call", Callee: u, Recv: recv, Pos: n.Pos()})
	}
	return skip()
}

// call classifies one call expression (its operands have been handled by args).
func (t *translator) call(c *ast.CallExpr) *Prog {
	fun := ast.Unparen(c.Fun)
	if tv, ok := t.info.Types[fun]; ok && tv.IsType() {
		return skip() // conversion
	}
	var callee *types.Func
	var recv Path = otherPath
	switch f := fun.(type) {
	case *ast.Ident:
		switch o := t.info.Uses[f].(type) {
		case *types.Builtin, *types.TypeName, nil:
			return skip()
		case *types.Func:
			callee = o
		}
	case *ast.SelectorExpr:
		if sel := t.info.Selections[f]; sel != nil {
			if sel.Kind() == types.FieldVal {
				break // a function stored in a field
			}
			callee = sel.Obj().(*types.Func)
			steps := selSteps(sel)
			if callee.Pkg() != nil && callee.Pkg().Path() == "sync" && isMutex(callee.Type().(*types.Signature).Recv().Type()) {
				return t.lockOp(c, f, callee.Name(), steps)
			}
			if types.IsInterface(sel.Recv()) || types.IsInterface(callee.Type().(*types.Signature).Recv().Type()) {
				return &Prog{Kind: "callUnknown", Text: "interface " + typeName(sel.Recv()) + "." + callee.Name(), Pos: c.Pos()}
			}
			if sel.Kind() == types.MethodVal {
				recv = t.pathOf(f.X, steps)
			}
		} else if o, ok := t.info.Uses[f.Sel].(*types.Func); ok {
			callee = o // pkg.Func
		}
	case *ast.IndexExpr, *ast.IndexListExpr: // generic instantiation f[T](...)
		var id *ast.Ident
		if ie, ok := f.(*ast.IndexExpr); ok {
			id, _ = ast.Unparen(ie.X).(*ast.Ident)
		}
		if id != nil {
			if o, ok := t.info.Uses[id].(*types.Func); ok {
				callee = o
			}
		}
	}
	if callee == nil {
		return &Prog{Kind: "callUnknown", Text: "function value " + t.src(fun), Pos: c.Pos()}
	}
	if u := t.x.byObj[callee.Origin()]; u != nil {
		return &Prog{Kind: "call", Callee: u, Recv: recv, Pos: c.Pos()}
	}
	if t.x.inModule(callee.Pkg()) { // declared without a body or excluded by a build tag
		return &Prog{Kind: "callUnknown", Text: "no body: " + funcName(callee), Pos: c.Pos()}
	}
	return skip() // outside the module: touches no broker lock
}

func (t *translator) lockOp(c *ast.CallExpr, f *ast.SelectorExpr, method string, implicit []step) *Prog {
	ref, ok := t.lockRef(f.X, implicit)
	if !ok {
		return t.unknown(c, "mutex that is not a struct field")
	}
	if len(ref.Owner) == 0 {
		base := ref.Cls
		if i := strings.LastIndex(base, "→"); i >= 0 {
			base = base[i+len("→"):]
		}
		t.x.selfCls[base] = true
	}
	p := &Prog{Lock: ref, Pos: c.Pos()}
	switch method {
	case "Lock":
		p.Kind, p.Mode = "acquire", "W"
	case "RLock":
		p.Kind, p.Mode = "acquire", "R"
	case "Unlock":
		p.Kind, p.Mode = "release", "W"
	case "RUnlock":
		p.Kind, p.Mode = "release", "R"
	default:
		return t.unknown(c, "unsupported mutex method "+method)
	}
	return p
}
