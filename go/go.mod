module verifharness

go 1.22.0

toolchain go1.23.5

require (
	github.com/alicebob/miniredis/v2 v2.23.0
	github.com/cockroachdb/pebble v1.1.0
	github.com/dgraph-io/badger/v4 v4.2.0
	github.com/gorilla/websocket v1.5.0
	github.com/mochi-mqtt/server/v2 v2.0.0
	go.etcd.io/bbolt v1.3.5
	golang.org/x/tools v0.29.0
)

require (
	github.com/alicebob/gopher-json v0.0.0-20200520072559-a9ecdc9d1d3a // indirect
	github.com/beorn7/perks v1.0.1 // indirect
	github.com/cespare/xxhash/v2 v2.2.0 // indirect
	github.com/cockroachdb/errors v1.11.1 // indirect
	github.com/cockroachdb/logtags v0.0.0-20230118201751-21c54148d20b // indirect
	github.com/cockroachdb/redact v1.1.5 // indirect
	github.com/cockroachdb/tokenbucket v0.0.0-20230807174530-cc333fc44b06 // indirect
	github.com/dgraph-io/ristretto v0.1.1 // indirect
	github.com/dgryski/go-rendezvous v0.0.0-20200823014737-9f7001d12a5f // indirect
	github.com/dustin/go-humanize v1.0.0 // indirect
	github.com/getsentry/sentry-go v0.18.0 // indirect
	github.com/go-redis/redis/v8 v8.11.5 // indirect
	github.com/gogo/protobuf v1.3.2 // indirect
	github.com/golang/glog v1.2.4 // indirect
	github.com/golang/groupcache v0.0.0-20200121045136-8c9f03a8e57e // indirect
	github.com/golang/protobuf v1.5.2 // indirect
	github.com/golang/snappy v0.0.4 // indirect
	github.com/google/flatbuffers v1.12.1 // indirect
	github.com/klauspost/compress v1.15.15 // indirect
	github.com/kr/pretty v0.3.1 // indirect
	github.com/kr/text v0.2.0 // indirect
	github.com/matttproud/golang_protobuf_extensions v1.0.2-0.20181231171920-c182affec369 // indirect
	github.com/pkg/errors v0.9.1 // indirect
	github.com/prometheus/client_golang v1.12.0 // indirect
	github.com/prometheus/client_model v0.2.1-0.20210607210712-147c58e9608a // indirect
	github.com/prometheus/common v0.32.1 // indirect
	github.com/prometheus/procfs v0.7.3 // indirect
	github.com/rogpeppe/go-internal v1.9.0 // indirect
	github.com/rs/xid v1.4.0 // indirect
	github.com/yuin/gopher-lua v0.0.0-20210529063254-f4c35e4016d9 // indirect
	go.opencensus.io v0.22.5 // indirect
	golang.org/x/exp v0.0.0-20230626212559-97b1e661b5df // indirect
	golang.org/x/mod v0.22.0 // indirect
	golang.org/x/net v0.34.0 // indirect
	golang.org/x/sync v0.10.0 // indirect
	golang.org/x/sys v0.29.0 // indirect
	golang.org/x/text v0.21.0 // indirect
	google.golang.org/protobuf v1.33.0 // indirect
	gopkg.in/yaml.v3 v3.0.1 // indirect
)

replace github.com/mochi-mqtt/server/v2 => /repo
